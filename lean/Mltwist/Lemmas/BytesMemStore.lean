import Mltwist.Lemmas.BytesMemNew
import Mltwist.Lemmas.Const
/-
C15, part 3: `address`, `store`, the loop of `Store`, `Store`.
-/
namespace Mltwist.Lemmas.BytesMem
open Mltwist Mltwist.BytesMem Mltwist.BytesSpec

/-! ### locating an address in a sorted block list -/

theorem pre_tail {b : Block} {l : List Block} (h : Pre (b :: l)) : Pre l :=
  ⟨(List.pairwise_cons.1 h.1).2, fun x hx => h.2 x (List.mem_cons_of_mem _ hx)⟩

theorem block_pos {b : Block} (h : b.2 ≠ []) : b.1 < bend b := by
  have : 0 < b.2.length := List.length_pos_iff.2 h
  unfold bend; omega

/-- either a block covers `a`, or the list splits into blocks ending at or before `a` and blocks
beginning after `a` -/
theorem locate (bs : List Block) (h : Pre bs) (a : Nat) :
    (∃ l b r, bs = l ++ b :: r ∧ Covers b a) ∨
    (∃ l r, bs = l ++ r ∧ (∀ x ∈ l, bend x ≤ a) ∧ (∀ x ∈ r, a < x.1)) := by
  induction bs with
  | nil => right; exact ⟨[], [], rfl, by simp, by simp⟩
  | cons c bs ih =>
    by_cases hc : Covers c a
    · left; exact ⟨[], c, bs, rfl, hc⟩
    · by_cases hlt : a < c.1
      · right
        refine ⟨[], c :: bs, rfl, by simp, ?_⟩
        intro x hx
        rcases List.mem_cons.1 hx with rfl | hx'
        · exact hlt
        · have h1 := (List.pairwise_cons.1 h.1).1 x hx'
          have h2 := block_pos (h.2 c (List.mem_cons_self ..))
          omega
      · have hce : bend c ≤ a := by unfold Covers at hc; unfold bend; omega
        rcases ih (pre_tail h) with ⟨l, b, r, rfl, hb⟩ | ⟨l, r, rfl, hl, hr⟩
        · left; exact ⟨c :: l, b, r, rfl, hb⟩
        · right
          refine ⟨c :: l, r, rfl, ?_, hr⟩
          intro x hx
          rcases List.mem_cons.1 hx with rfl | hx'
          · exact hce
          · exact hl x hx'

theorem findIdx_append_false {α : Type} (p : α → Bool) (l r : List α)
    (h : ∀ x ∈ l, p x = false) : (l ++ r).findIdx p = l.length + r.findIdx p := by
  induction l with
  | nil => simp
  | cons x l ih =>
    have hx := h x (List.mem_cons_self ..)
    rw [List.cons_append, List.findIdx_cons, hx, ih (fun y hy => h y (List.mem_cons_of_mem _ hy))]
    simp only [cond_false, List.length_cons]
    omega

theorem pre_left_le {l r : List Block} {b : Block} (h : Pre (l ++ b :: r)) :
    ∀ x ∈ l, bend x ≤ b.1 := by
  intro x hx
  exact (List.pairwise_append.1 h.1).2.2 x hx b (List.mem_cons_self ..)

theorem address_found {l r : List Block} {b : Block} (h : Pre (l ++ b :: r)) {a : Nat}
    (hb : Covers b a) : address (l ++ b :: r) a = some l.length := by
  unfold address
  have hl : ∀ x ∈ l, decide (a < bend x) = false := by
    intro x hx
    have := pre_left_le h x hx
    unfold Covers at hb
    simp; omega
  have hbb : decide (a < bend b) = true := by
    unfold Covers at hb; unfold bend; simp; omega
  simp only [findIdx_append_false _ l (b :: r) hl, List.findIdx_cons, hbb, cond_true, Nat.add_zero]
  rw [List.getElem?_append_right (Nat.le_refl _)]
  simp only [Nat.sub_self, List.getElem?_cons_zero]
  unfold Covers at hb
  rw [if_neg (by omega)]

theorem address_none {l r : List Block} {a : Nat} (hl : ∀ x ∈ l, bend x ≤ a)
    (hr : ∀ x ∈ r, a < x.1) : address (l ++ r) a = none := by
  unfold address
  have hl' : ∀ x ∈ l, decide (a < bend x) = false := by
    intro x hx
    have := hl x hx
    simp; omega
  simp only [findIdx_append_false _ l r hl']
  cases r with
  | nil => simp
  | cons nb r' =>
    have h1 := hr nb (List.mem_cons_self ..)
    have hbb : decide (a < bend nb) = true := by unfold bend; simp; omega
    simp only [List.findIdx_cons, hbb, cond_true, Nat.add_zero]
    rw [List.getElem?_append_right (Nat.le_refl _)]
    simp [h1]

/-! ### list surgery -/

theorem getElem?_patch (t d : List UInt8) (k : Nat) (hk : k + d.length ≤ t.length) (i : Nat) :
    (t.take k ++ d ++ t.drop (k + d.length))[i]? =
      if k ≤ i ∧ i < k + d.length then d[i - k]? else t[i]? := by
  have hlen : (t.take k).length = k := by rw [List.length_take]; omega
  rw [List.append_assoc, List.getElem?_append, hlen]
  by_cases h1 : i < k
  · rw [if_pos h1, if_neg (by omega), List.getElem?_take, if_pos h1]
  · rw [if_neg h1, List.getElem?_append]
    by_cases h2 : i - k < d.length
    · rw [if_pos h2, if_pos (by omega)]
    · rw [if_neg h2, if_neg (by omega), List.getElem?_drop]
      congr 1
      omega

theorem length_patch (t d : List UInt8) (k : Nat) (hk : k + d.length ≤ t.length) :
    (t.take k ++ d ++ t.drop (k + d.length)).length = t.length := by
  simp only [List.length_append, List.length_take, List.length_drop]
  omega

/-! ### `store` -/

theorem write_apply (m : ByteMap) (a : Nat) (d : List UInt8) (x : Nat) :
    write m a d x = if a ≤ x ∧ x < a + d.length then d[x - a]? else m x := rfl

theorem ofBlocks_left_none {l : List Block} {a x : Nat} (hl : ∀ y ∈ l, bend y ≤ a) (hx : a ≤ x) :
    ofBlocks l x = none := by
  rw [ofBlocks_eq_none_iff]
  intro y hy hc
  have := hl y hy
  unfold Covers bend at *
  omega

theorem store_found {l r : List Block} {b : Block} (h : Pre (l ++ b :: r)) {a : Nat}
    (hb : Covers b a) (data : List UInt8) (hd : data ≠ []) :
    ∃ bs' n, store (l ++ b :: r) a data = .ok (bs', n) ∧ 0 < n ∧ n ≤ data.length ∧ Pre bs' ∧
      ∀ x, ofBlocks bs' x = write (ofBlocks (l ++ b :: r)) a (data.take n) x := by
  have hdl : 0 < data.length := List.length_pos_iff.2 hd
  have hb' := hb
  unfold Covers at hb'
  obtain ⟨k, hk⟩ : ∃ k, a - b.1 = k := ⟨_, rfl⟩
  obtain ⟨n, hn⟩ : ∃ n, (if k + data.length > b.2.length then b.2.length else k + data.length) - k = n :=
    ⟨_, rfl⟩
  have hn1 : 0 < n := by
    rw [← hn]; split <;> omega
  have hn2 : n ≤ data.length := by
    rw [← hn]; split <;> omega
  have hn3 : k + n ≤ b.2.length := by
    rw [← hn]; split <;> omega
  have hend : (if k + data.length > b.2.length then b.2.length else k + data.length) = k + n := by
    rw [← hn]; split <;> omega
  have htl : (data.take n).length = n := by rw [List.length_take]; omega
  let b' : Block := (b.1, b.2.take k ++ data.take n ++ b.2.drop (k + n))
  have hb'len : b'.2.length = b.2.length := by
    have := length_patch b.2 (data.take n) k (by rw [htl]; exact hn3)
    rw [htl] at this
    exact this
  refine ⟨l ++ b' :: r, n, ?_, hn1, hn2, ?_, ?_⟩
  · unfold store
    rw [address_found h hb]
    simp only [List.getElem?_append_right (Nat.le_refl _), Nat.sub_self, List.getElem?_cons_zero, hk]
    rw [hend, if_neg (by omega)]
    have e : k + n - k = n := by omega
    simp only [e]
    rw [List.set_append, if_neg (by omega)]
    simp [b', List.append_assoc]
  · -- Pre
    have hbend : bend b' = bend b := by unfold bend; rw [hb'len]
    have hp := h.1
    rw [List.pairwise_append, List.pairwise_cons] at hp
    refine ⟨?_, ?_⟩
    · rw [List.pairwise_append, List.pairwise_cons]
      refine ⟨hp.1, ⟨fun y hy => ?_, hp.2.1.2⟩, fun x hx y hy => ?_⟩
      · rw [hbend]; exact hp.2.1.1 y hy
      · rcases List.mem_cons.1 hy with rfl | hy'
        · exact hp.2.2 x hx b (List.mem_cons_self ..)
        · exact hp.2.2 x hx y (List.mem_cons_of_mem _ hy')
    · intro x hx
      rcases List.mem_append.1 hx with hx' | hx'
      · exact h.2 x (List.mem_append_left _ hx')
      · rcases List.mem_cons.1 hx' with rfl | hx''
        · intro he
          have : b'.2.length = 0 := by rw [he]; rfl
          omega
        · exact h.2 x (List.mem_append_right _ (List.mem_cons_of_mem _ hx''))
  · intro x
    rw [write_apply, htl, ofBlocks_append, ofBlocks_append, ofBlocks_cons, ofBlocks_cons]
    have hcov : Covers b' x ↔ Covers b x := by
      unfold Covers; rw [hb'len]
    have hget : b'.2[x - b.1]? = if k ≤ x - b.1 ∧ x - b.1 < k + n then (data.take n)[x - b.1 - k]?
        else b.2[x - b.1]? := by
      have := getElem?_patch b.2 (data.take n) k (by rw [htl]; exact hn3) (x - b.1)
      rw [htl] at this
      exact this
    by_cases hx : a ≤ x ∧ x < a + n
    · rw [if_pos hx]
      have hcx : Covers b x := by unfold Covers; omega
      rw [ofBlocks_left_none (pre_left_le h) (by omega : b.1 ≤ x)]
      simp only [Option.none_or]
      rw [if_pos (hcov.2 hcx)]
      show b'.2[x - b.1]? = _
      rw [hget, if_pos (by omega)]
      congr 1
      omega
    · rw [if_neg hx]
      congr 1
      by_cases hcx : Covers b x
      · rw [if_pos (hcov.2 hcx), if_pos hcx]
        show b'.2[x - b.1]? = _
        rw [hget, if_neg (by unfold Covers at hcx; omega)]
      · rw [if_neg (fun hh => hcx (hcov.1 hh)), if_neg hcx]

/-- the end of a freshly inserted block: cut at the next block -/
def newEnd (r : List Block) (a len : Nat) : Nat := cutEnd r[0]? (a + len)

theorem newEnd_nil (a len : Nat) : newEnd [] a len = a + len := rfl

theorem newEnd_cons (nb : Block) (r : List Block) (a len : Nat) :
    newEnd (nb :: r) a len = if nb.1 < a + len then nb.1 else a + len := rfl

theorem store_notfound {l r : List Block} (h : Pre (l ++ r)) {a : Nat}
    (hl : ∀ x ∈ l, bend x ≤ a) (hr : ∀ x ∈ r, a < x.1) (data : List UInt8) (hd : data ≠ []) :
    ∃ bs' n, store (l ++ r) a data = .ok (bs', n) ∧ 0 < n ∧ n ≤ data.length ∧ Pre bs' ∧
      ∀ x, ofBlocks bs' x = write (ofBlocks (l ++ r)) a (data.take n) x := by
  have hdl : 0 < data.length := List.length_pos_iff.2 hd
  have hlf : ∀ x ∈ l, decide (a < x.1) = false := by
    intro x hx
    have := hl x hx
    have : x.1 ≤ bend x := by unfold bend; omega
    simp; omega
  -- the end of the new block
  let e : Nat := newEnd r a data.length
  have he1 : a < e := by
    show a < newEnd r a data.length
    cases r with
    | nil => rw [newEnd_nil]; omega
    | cons nb r' =>
      have := hr nb (List.mem_cons_self ..)
      rw [newEnd_cons]
      split <;> omega
  have he2 : e ≤ a + data.length := by
    show newEnd r a data.length ≤ _
    cases r with
    | nil => rw [newEnd_nil]; omega
    | cons nb r' => rw [newEnd_cons]; split <;> omega
  have he3 : ∀ x ∈ r, e ≤ x.1 := by
    show ∀ x ∈ r, newEnd r a data.length ≤ x.1
    cases r with
    | nil => simp
    | cons nb r' =>
      intro x hx
      rw [newEnd_cons]
      have hnb : (if nb.1 < a + data.length then nb.1 else a + data.length) ≤ nb.1 := by
        split <;> omega
      rcases List.mem_cons.1 hx with rfl | hx'
      · exact hnb
      · have hp := (List.pairwise_append.1 h.1).2.1
        have h1 := (List.pairwise_cons.1 hp).1 x hx'
        have h2 : nb.1 ≤ bend nb := by unfold bend; omega
        omega
  let nb' : Block := (a, data.take (e - a))
  have hnblen : nb'.2.length = e - a := by
    show (data.take (e - a)).length = e - a
    rw [List.length_take]; omega
  refine ⟨l ++ nb' :: r, e - a, ?_, by omega, by omega, ?_, ?_⟩
  · unfold store
    rw [address_none hl hr]
    simp only
    have hidx : (l ++ r).findIdx (fun b => decide (a < b.1)) = l.length := by
      rw [findIdx_append_false _ l r hlf]
      cases r with
      | nil => simp
      | cons nb r' =>
        have := hr nb (List.mem_cons_self ..)
        simp [List.findIdx_cons, this]
    rw [hidx]
    have hend : cutEnd (l ++ r)[l.length]? (a + data.length) = e := by
      rw [List.getElem?_append_right (Nat.le_refl _), Nat.sub_self]
      rfl
    rw [hend]
    have hslice : sliceB data 0 (e - a) = some (data.take (e - a)) := by
      unfold sliceB
      rw [if_pos ⟨Nat.zero_le _, by omega⟩]
      simp
    rw [hslice]
    simp only
    congr 2
    rw [List.append_assoc, List.take_append, List.take_of_length_le (by omega : l.length ≤ l.length + 1)]
    have e1 : l.length + 1 - l.length = 1 := by omega
    rw [e1, List.drop_append, List.drop_of_length_le (Nat.le_refl _), Nat.sub_self, List.drop_zero,
      List.nil_append, List.append_assoc, List.set_append, if_neg (Nat.lt_irrefl _), Nat.sub_self]
    cases r with
    | nil => simp [nb']
    | cons nb r' => simp [nb']
  · refine ⟨?_, ?_⟩
    · have hp := h.1
      rw [List.pairwise_append] at hp
      rw [List.pairwise_append, List.pairwise_cons]
      refine ⟨hp.1, ⟨fun y hy => ?_, hp.2.1⟩, fun x hx y hy => ?_⟩
      · have := he3 y hy
        unfold bend; rw [hnblen]
        show a + (e - a) ≤ y.1
        omega
      · rcases List.mem_cons.1 hy with rfl | hy'
        · exact hl x hx
        · exact hp.2.2 x hx y hy'
    · intro x hx
      rcases List.mem_append.1 hx with hx' | hx'
      · exact h.2 x (List.mem_append_left _ hx')
      · rcases List.mem_cons.1 hx' with rfl | hx''
        · intro hempty
          have : nb'.2.length = 0 := by rw [hempty]; rfl
          omega
        · exact h.2 x (List.mem_append_right _ hx'')
  · intro x
    rw [write_apply, ofBlocks_append, ofBlocks_append, ofBlocks_cons]
    have htl : (data.take (e - a)).length = e - a := hnblen
    rw [htl]
    by_cases hx : a ≤ x ∧ x < a + (e - a)
    · rw [if_pos hx, ofBlocks_left_none hl hx.1]
      simp only [Option.none_or]
      rw [if_pos (by unfold Covers; rw [hnblen]; exact hx)]
    · rw [if_neg hx, if_neg (by unfold Covers; rw [hnblen]; exact hx)]

theorem store_spec (bs : List Block) (h : Pre bs) (a : Nat) (data : List UInt8) (hd : data ≠ []) :
    ∃ bs' n, store bs a data = .ok (bs', n) ∧ 0 < n ∧ n ≤ data.length ∧ Pre bs' ∧
      ∀ x, ofBlocks bs' x = write (ofBlocks bs) a (data.take n) x := by
  rcases locate bs h a with ⟨l, b, r, rfl, hb⟩ | ⟨l, r, rfl, hl, hr⟩
  · exact store_found h hb data hd
  · exact store_notfound h hl hr data hd

/-! ### the loop of `Store` -/

theorem write_nil (m : ByteMap) (a x : Nat) : write m a [] x = m x := by
  rw [write_apply, if_neg (by simp only [List.length_nil]; omega)]

theorem write_split (m : ByteMap) (a : Nat) (data : List UInt8) (n : Nat) (hn : n ≤ data.length)
    (x : Nat) :
    write (write m a (data.take n)) (a + n) (data.drop n) x = write m a data x := by
  simp only [write_apply, List.length_take, List.length_drop]
  have hmin : min n data.length = n := Nat.min_eq_left hn
  rw [hmin]
  by_cases h1 : a + n ≤ x ∧ x < a + n + (data.length - n)
  · rw [if_pos h1, if_pos (by omega), List.getElem?_drop]
    congr 1
    omega
  · rw [if_neg h1]
    by_cases h2 : a ≤ x ∧ x < a + n
    · rw [if_pos h2, if_pos (by omega), List.getElem?_take, if_pos (by omega)]
    · rw [if_neg h2, if_neg (by omega)]

theorem storeLoop_spec : ∀ (fuel : Nat) (data : List UInt8) (bs : List Block) (a : Nat),
    Pre bs → data.length ≤ fuel →
    ∃ bs', storeLoop fuel bs a data = .ok bs' ∧ Pre bs' ∧
      ∀ x, ofBlocks bs' x = write (ofBlocks bs) a data x := by
  intro fuel
  induction fuel with
  | zero =>
    intro data bs a h hlen
    have : data = [] := List.eq_nil_of_length_eq_zero (by omega)
    subst this
    exact ⟨bs, by simp [storeLoop], h, fun x => (write_nil _ a x).symm⟩
  | succ fuel ih =>
    intro data bs a h hlen
    cases data with
    | nil => exact ⟨bs, by simp [storeLoop], h, fun x => (write_nil _ a x).symm⟩
    | cons d ds =>
      obtain ⟨bs1, n, hst, hn1, hn2, hpre1, hmap1⟩ := store_spec bs h a (d :: ds) (by simp)
      have hlen' : ((d :: ds).drop n).length ≤ fuel := by
        rw [List.length_drop]; simp only [List.length_cons] at *; omega
      obtain ⟨bs2, hloop, hpre2, hmap2⟩ := ih ((d :: ds).drop n) bs1 (a + n) hpre1 hlen'
      refine ⟨bs2, ?_, hpre2, ?_⟩
      · simp only [storeLoop, hst]
        exact hloop
      · intro x
        rw [hmap2 x, ← write_split (ofBlocks bs) a (d :: ds) n hn2 x]
        simp only [write_apply, hmap1]

/-! ### `dedupBlocks` after the loop, `Store` -/

theorem dedupBlocks_pre (bs : List Block) (h : Pre bs) :
    ∃ bs', dedupBlocks bs = .ok bs' ∧ Inv bs' ∧ ∀ x, ofBlocks bs' x = ofBlocks bs x := by
  rw [dedupBlocks_eq]
  match bs, h with
  | [], _ => exact ⟨[], rfl, ⟨List.Pairwise.nil, by simp⟩, fun _ => rfl⟩
  | p :: rest, h =>
    have hp := List.pairwise_cons.1 h.1
    have hpos : ∀ x ∈ p :: rest, x.1 < bend x := fun x hx => block_pos (h.2 x hx)
    have hdisj : (p :: rest).Pairwise Disj := by
      refine h.1.imp ?_
      intro x y hxy a ⟨ha, hb⟩
      unfold Covers bend at *
      omega
    have hsorted : rest.Pairwise (fun x y : Block => x.1 ≤ y.1) := by
      have : rest.Pairwise (fun x y : Block => x.2 ≠ [] ∧ bend x ≤ y.1) := by
        refine List.Pairwise.and_mem.1 hp.2 |>.imp ?_
        intro x y hxy
        exact ⟨h.2 x (List.mem_cons_of_mem _ hxy.1), hxy.2.2⟩
      refine this.imp ?_
      intro x y hxy
      have := block_pos hxy.1
      omega
    have := dedupF_spec rest p (h.2 p (List.mem_cons_self ..))
      (fun c hc => ⟨h.2 c (List.mem_cons_of_mem _ hc), by
        have h1 := hp.1 c hc
        have h2 := hpos p (List.mem_cons_self ..)
        omega⟩) hsorted
    rcases this with ⟨_, hnd⟩ | ⟨r, hr, _, hinv, _, hm⟩
    · exact absurd hdisj hnd
    · exact ⟨r, hr, hinv, hm⟩

theorem storeConst_spec (bs : List Block) (h : Inv bs) (a w : Nat) (c : List UInt8) :
    ∃ bs', storeConst bs a w c = .ok bs' ∧ Inv bs' ∧
      ∀ x, ofBlocks bs' x = write (ofBlocks bs) a (storeBytes c w) x := by
  unfold storeConst
  have hw : Const.withWidth c w = storeBytes c w := Lemmas.Const.withWidth_spec c w
  rw [hw]
  obtain ⟨bs1, hloop, hpre, hmap⟩ :=
    storeLoop_spec (storeBytes c w).length (storeBytes c w) bs a (inv_pre h) (Nat.le_refl _)
  obtain ⟨bs2, hdd, hinv, hmap2⟩ := dedupBlocks_pre bs1 hpre
  refine ⟨bs2, ?_, hinv, fun x => (hmap2 x).trans (hmap x)⟩
  simp only [hloop]
  exact hdd

theorem runStores_spec : ∀ (hist : List (Nat × Nat × List UInt8)) (bs : List Block), Inv bs →
    ∃ bs', BytesMem.runStores bs hist = .ok bs' ∧ Inv bs' ∧
      ∀ x, ofBlocks bs' x = BytesSpec.runStores (ofBlocks bs) hist x := by
  intro hist
  induction hist with
  | nil => intro bs h; exact ⟨bs, rfl, h, fun _ => rfl⟩
  | cons op rest ih =>
    intro bs h
    obtain ⟨a, w, c⟩ := op
    obtain ⟨bs1, hst, hinv, hmap⟩ := storeConst_spec bs h a w c
    obtain ⟨bs2, hrun, hinv2, hmap2⟩ := ih bs1 hinv
    refine ⟨bs2, ?_, hinv2, ?_⟩
    · simp only [BytesMem.runStores, hst]
      exact hrun
    · intro x
      rw [hmap2 x]
      have : ofBlocks bs1 = write (ofBlocks bs) a (storeBytes c w) := funext hmap
      simp only [BytesSpec.runStores, this]

end Mltwist.Lemmas.BytesMem
