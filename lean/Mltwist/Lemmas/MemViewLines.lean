import Mltwist.Model.MemView
import Mltwist.Spec.MemView
import Mathlib.Tactic.Ring
import Mathlib.Tactic.Linarith
import Mathlib.Tactic.SplitIfs
/-
C32, part 1: the rows of the memory view.  `block2Lines`, the merge loop and `addEmptyLines` are
shown equal to functional forms; the rows are characterised through the flat list of
`(window, range)` pairs, which the merge leaves unchanged.
-/
namespace Mltwist.Lemmas.MemView
open Mltwist Mltwist.MemView

/-- blocks as `interval.Map` delivers them: non-empty, ascending, not adjacent -/
def NormalR : List Range → Prop
  | [] => True
  | [b] => b.1 < b.2
  | b :: c :: r => b.1 < b.2 ∧ b.2 < c.1 ∧ NormalR (c :: r)

/-- the address is stored -/
def MemR (a : Nat) (bl : List Range) : Prop := ∃ b ∈ bl, b.1 ≤ a ∧ a < b.2

instance (a : Nat) (bl : List Range) : Decidable (MemR a bl) := by
  unfold MemR; infer_instance

theorem NormalR.tail {b : Range} {r : List Range} (h : NormalR (b :: r)) : NormalR r := by
  cases r with
  | nil => trivial
  | cons c r => exact h.2.2

theorem NormalR.head {b : Range} {r : List Range} (h : NormalR (b :: r)) : b.1 < b.2 := by
  cases r with
  | nil => exact h
  | cons c r => exact h.1

theorem NormalR.all_pos {bl : List Range} (h : NormalR bl) : ∀ b ∈ bl, b.1 < b.2 := by
  induction bl with
  | nil => intro b hb; cases hb
  | cons c r ih =>
    intro b hb
    rcases List.mem_cons.mp hb with rfl | hb
    · exact h.head
    · exact ih h.tail b hb

/-- every later block begins beyond the end of the first -/
theorem NormalR.later {b : Range} {r : List Range} (h : NormalR (b :: r)) :
    ∀ c ∈ r, b.2 < c.1 := by
  induction r generalizing b with
  | nil => intro c hc; cases hc
  | cons d r ih =>
    intro c hc
    rcases List.mem_cons.mp hc with rfl | hc
    · exact h.2.1
    · have h1 := ih h.2.2 c hc
      have h2 := h.2.1
      have h3 := h.2.2.head
      omega

/-! ### `block2Lines` -/

/-- the row of window number `w` of a block -/
def windowLineF (blk : Range) (last w : Nat) : Line :=
  ⟨w * 16, [(if w * 16 < blk.1 then blk.1 else w * 16, if w < last then (w + 1) * 16 else blk.2)]⟩

def blockLinesF (blk : Range) : List Line :=
  (List.range' (blk.1 / 16) ((blk.2 - 1) / 16 + 1 - blk.1 / 16)).map
    (windowLineF blk ((blk.2 - 1) / 16))

theorem windowLine_eq (blk : Range) (hb : blk.1 < blk.2) (w : Nat) (h1 : blk.1 / 16 ≤ w)
    (h2 : w ≤ (blk.2 - 1) / 16) :
    windowLine blk ((blk.2 - 1) / 16) w = some (windowLineF blk ((blk.2 - 1) / 16) w) := by
  unfold windowLine windowLineF newRange bytesPerLine
  have : ¬ ((if w * 16 < blk.1 then blk.1 else w * 16) >
      (if w < (blk.2 - 1) / 16 then (w + 1) * 16 else blk.2)) := by
    split_ifs <;> omega
  simp only [this, if_false]

theorem b2lLoop_eq (blk : Range) (hb : blk.1 < blk.2) (f w : Nat) (h1 : blk.1 / 16 ≤ w)
    (h2 : w + f = (blk.2 - 1) / 16 + 1) :
    b2lLoop blk ((blk.2 - 1) / 16) f w =
      some ((List.range' w f).map (windowLineF blk ((blk.2 - 1) / 16))) := by
  induction f generalizing w with
  | zero => simp [b2lLoop]
  | succ f ih =>
    have hw : w ≤ (blk.2 - 1) / 16 := by omega
    simp only [b2lLoop, hw, if_true, windowLine_eq blk hb w h1 hw,
      ih (w + 1) (by omega) (by omega), List.range'_succ, List.map_cons]

theorem block2Lines_eq (blk : Range) (hb : blk.1 < blk.2) :
    block2Lines blk = some (blockLinesF blk) := by
  unfold block2Lines blockLinesF bytesPerLine
  have : blk.1 / 16 ≤ (blk.2 - 1) / 16 := Nat.div_le_div_right (by omega)
  exact b2lLoop_eq blk hb _ _ (Nat.le_refl _) (by omega)

theorem allLines_eq (bl : List Range) (h : ∀ b ∈ bl, b.1 < b.2) :
    allLines bl = some (bl.flatMap blockLinesF) := by
  induction bl with
  | nil => rfl
  | cons b r ih =>
    simp only [allLines, block2Lines_eq b (h b (List.mem_cons_self ..)),
      ih (fun c hc => h c (List.mem_cons_of_mem _ hc)), List.flatMap_cons]

/-! ### the merge loop -/

/-- functional form of the merge: `p` is `lines[j-1]`, the list is `lines[i:]` -/
def mergeF : Line → List Line → List Line
  | p, [] => [p]
  | p, c :: rest =>
    if p.addr = c.addr then mergeF ⟨p.addr, p.ranges ++ c.ranges⟩ rest else p :: mergeF c rest

def mergeAll : List Line → List Line
  | [] => []
  | l :: ls => mergeF l ls

/-- the array is `pre ++ p :: (mid ++ rest)` with `j - 1 = |pre|`, `i = |pre| + 1 + |mid|` -/
theorem mergeLoop_inv (rest : List Line) : ∀ (pre : List Line) (p : Line) (mid : List Line),
    ∃ arr j, mergeLoop rest.length (pre ++ p :: (mid ++ rest)) (pre.length + 1 + mid.length)
        (pre.length + 1) = some (arr, j) ∧ arr.take j = pre ++ mergeF p rest := by
  induction rest with
  | nil =>
    intro pre p mid
    refine ⟨_, _, rfl, ?_⟩
    have e : pre ++ p :: (mid ++ []) = (pre ++ [p]) ++ mid := by simp
    rw [e, List.take_left' (by simp)]
    rfl
  | cons c rest ih =>
    intro pre p mid
    have h1 : (pre ++ p :: (mid ++ c :: rest))[pre.length + 1 - 1]? = some p := by simp
    have h2 : (pre ++ p :: (mid ++ c :: rest))[pre.length + 1 + mid.length]? = some c := by
      rw [List.getElem?_append_right (by omega)]
      have : pre.length + 1 + mid.length - pre.length = mid.length + 1 := by omega
      rw [this, List.getElem?_cons_succ, List.getElem?_append_right (by omega)]
      simp
    have hj : pre.length + 1 > 0 := by omega
    simp only [List.length_cons, mergeLoop, h1, h2, hj, if_true, mergeF]
    by_cases heq : p.addr = c.addr
    · simp only [heq, if_true]
      have hs : (pre ++ p :: (mid ++ c :: rest)).set (pre.length + 1 - 1)
          ⟨c.addr, p.ranges ++ c.ranges⟩ = pre ++ ⟨c.addr, p.ranges ++ c.ranges⟩ :: ((mid ++ [c]) ++ rest) := by
        simp
      rw [hs]
      have := ih pre ⟨c.addr, p.ranges ++ c.ranges⟩ (mid ++ [c])
      simp only [List.length_append, List.length_singleton] at this
      have e : pre.length + 1 + mid.length + 1 = pre.length + 1 + (mid.length + 1) := by omega
      rw [e]
      exact this
    · simp only [heq, if_false]
      -- lines[j] = lines[i]: position |pre|+1 is the head of `mid ++ c :: rest`
      cases mid with
      | nil =>
        have hs : (pre ++ p :: ([] ++ c :: rest)).set (pre.length + 1) c
            = (pre ++ [p]) ++ c :: ([] ++ rest) := by
          simp
        rw [hs]
        have := ih (pre ++ [p]) c []
        simp only [List.length_append, List.length_singleton, List.length_nil, Nat.add_zero,
          List.append_assoc, List.singleton_append] at this ⊢
        exact this
      | cons m mid' =>
        have hs : (pre ++ p :: (m :: mid' ++ c :: rest)).set (pre.length + 1) c
            = (pre ++ [p]) ++ c :: ((mid' ++ [c]) ++ rest) := by
          simp
        rw [hs]
        have := ih (pre ++ [p]) c (mid' ++ [c])
        simp only [List.length_append, List.length_cons,
          List.append_assoc, List.singleton_append] at this ⊢
        have e : pre.length + 1 + (mid'.length + 1) + 1 = pre.length + 1 + 1 + (mid'.length + 1) := by omega
        rw [e]
        exact this

/-- the merge loop of `memoryLines` followed by the truncation computes `mergeAll` -/
theorem mergeLoop_eq (ls : List Line) :
    ∃ arr j, mergeLoop ls.length ls 0 0 = some (arr, j) ∧ arr.take j = mergeAll ls := by
  cases ls with
  | nil => exact ⟨[], 0, rfl, rfl⟩
  | cons l rest =>
    have := mergeLoop_inv rest [] l []
    simp only [List.length_nil, List.nil_append, Nat.zero_add, Nat.add_zero] at this
    obtain ⟨arr, j, h, ht⟩ := this
    refine ⟨arr, j, ?_, ht⟩
    simp only [List.length_cons, mergeLoop, List.getElem?_cons_zero, Nat.lt_irrefl, if_false,
      gt_iff_lt, List.set_cons_zero]
    exact h

/-! ### the flat list of `(window, range)` pairs -/

def flat (L : List Line) : List (Nat × Range) :=
  L.flatMap fun l => l.ranges.map fun r => (l.addr, r)

theorem flat_cons (l : Line) (L : List Line) :
    flat (l :: L) = (l.ranges.map fun r => (l.addr, r)) ++ flat L := by
  simp [flat]

theorem flat_mergeF (rest : List Line) : ∀ p : Line, flat (mergeF p rest) = flat (p :: rest) := by
  induction rest with
  | nil => intro p; rfl
  | cons c rest ih =>
    intro p
    simp only [mergeF]
    by_cases h : p.addr = c.addr
    · simp only [h, if_true, ih, flat_cons, List.map_append, List.append_assoc]
    · simp only [h, if_false, flat_cons, ih]

theorem flat_mergeAll (L : List Line) : flat (mergeAll L) = flat L := by
  cases L with
  | nil => rfl
  | cons l ls => exact flat_mergeF ls l

theorem mem_flat {L : List Line} {x : Nat × Range} :
    x ∈ flat L ↔ ∃ l ∈ L, x.1 = l.addr ∧ x.2 ∈ l.ranges := by
  simp only [flat, List.mem_flatMap, List.mem_map]
  constructor
  · rintro ⟨l, hl, r, hr, rfl⟩; exact ⟨l, hl, rfl, hr⟩
  · rintro ⟨l, hl, h1, h2⟩; exact ⟨l, hl, x.2, h2, by rw [← h1]⟩

/-- a pair as a line with one range -/
def toLine (x : Nat × Range) : Line := ⟨x.1, [x.2]⟩

theorem flat_map_toLine (F : List (Nat × Range)) : flat (F.map toLine) = F := by
  induction F with
  | nil => rfl
  | cons x F ih => simp [flat_cons, toLine, ih]

/-- the pairs of one block -/
def pieces (blk : Range) : List (Nat × Range) :=
  (List.range' (blk.1 / 16) ((blk.2 - 1) / 16 + 1 - blk.1 / 16)).map fun w =>
    (w * 16, (if w * 16 < blk.1 then blk.1 else w * 16,
      if w < (blk.2 - 1) / 16 then (w + 1) * 16 else blk.2))

theorem blockLinesF_eq (blk : Range) : blockLinesF blk = (pieces blk).map toLine := by
  simp [blockLinesF, pieces, windowLineF, toLine, Function.comp_def]

theorem lines_eq (bl : List Range) :
    bl.flatMap blockLinesF = (bl.flatMap pieces).map toLine := by
  induction bl with
  | nil => rfl
  | cons b r ih => simp [List.flatMap_cons, blockLinesF_eq, ih]

/-- order of the pairs: windows ascend, ranges ascend, ranges of one window are not adjacent -/
def PR (x y : Nat × Range) : Prop :=
  x.1 ≤ y.1 ∧ x.2.2 ≤ y.2.1 ∧ (x.1 = y.1 → x.2.2 < y.2.1)

/-- a pair lies in its window and is not empty -/
def EltOK (x : Nat × Range) : Prop :=
  x.1 % 16 = 0 ∧ x.1 ≤ x.2.1 ∧ x.2.1 < x.2.2 ∧ x.2.2 ≤ x.1 + 16

theorem mem_pieces {blk : Range} {x : Nat × Range} (h : x ∈ pieces blk) :
    ∃ w, blk.1 / 16 ≤ w ∧ w ≤ (blk.2 - 1) / 16 ∧ x.1 = w * 16 ∧
      x.2.1 = (if w * 16 < blk.1 then blk.1 else w * 16) ∧
      x.2.2 = (if w < (blk.2 - 1) / 16 then (w + 1) * 16 else blk.2) := by
  simp only [pieces, List.mem_map, List.mem_range'_1] at h
  obtain ⟨w, ⟨h1, h2⟩, rfl⟩ := h
  exact ⟨w, h1, by omega, rfl, rfl, rfl⟩

theorem pieces_elt {blk : Range} (hb : blk.1 < blk.2) {x : Nat × Range} (h : x ∈ pieces blk) :
    EltOK x ∧ blk.1 ≤ x.2.1 ∧ x.2.2 ≤ blk.2 ∧ blk.1 / 16 * 16 ≤ x.1 ∧ x.1 ≤ (blk.2 - 1) / 16 * 16 := by
  obtain ⟨w, h1, h2, e1, e2, e3⟩ := mem_pieces h
  unfold EltOK
  rw [e1, e2, e3]
  have hw1 : blk.1 / 16 * 16 ≤ w * 16 := Nat.mul_le_mul_right 16 h1
  have hw2 : w * 16 ≤ (blk.2 - 1) / 16 * 16 := Nat.mul_le_mul_right 16 h2
  refine ⟨⟨by omega, ?_, ?_, ?_⟩, ?_, ?_, hw1, hw2⟩ <;> split_ifs <;> omega

theorem pieces_cover {blk : Range} (hb : blk.1 < blk.2) (a : Nat) :
    (blk.1 ≤ a ∧ a < blk.2) ↔ ∃ x ∈ pieces blk, x.2.1 ≤ a ∧ a < x.2.2 := by
  constructor
  · rintro ⟨h1, h2⟩
    refine ⟨(a / 16 * 16, (if a / 16 * 16 < blk.1 then blk.1 else a / 16 * 16,
      if a / 16 < (blk.2 - 1) / 16 then (a / 16 + 1) * 16 else blk.2)), ?_, ?_, ?_⟩
    · simp only [pieces, List.mem_map, List.mem_range'_1]
      have e1 : blk.1 / 16 ≤ a / 16 := Nat.div_le_div_right h1
      have e2 : a / 16 ≤ (blk.2 - 1) / 16 := Nat.div_le_div_right (by omega)
      exact ⟨a / 16, ⟨e1, by omega⟩, rfl⟩
    · simp only; split_ifs <;> omega
    · simp only; split_ifs <;> omega
  · rintro ⟨x, hx, h1, h2⟩
    obtain ⟨_, h3, h4, _⟩ := pieces_elt hb hx
    omega

theorem pieces_pairwise_aux (blk : Range) (cnt : Nat) : ∀ w, w + cnt ≤ (blk.2 - 1) / 16 + 1 →
    ((List.range' w cnt).map fun w =>
      (w * 16, (if w * 16 < blk.1 then blk.1 else w * 16,
        if w < (blk.2 - 1) / 16 then (w + 1) * 16 else blk.2))).Pairwise PR := by
  induction cnt with
  | zero => intro w _; simp
  | succ cnt ih =>
    intro w hw
    rw [List.range'_succ, List.map_cons, List.pairwise_cons]
    refine ⟨?_, ih (w + 1) (by omega)⟩
    intro y hy
    simp only [List.mem_map, List.mem_range'_1] at hy
    obtain ⟨w', ⟨h1, h2⟩, rfl⟩ := hy
    unfold PR
    have hlt : w < (blk.2 - 1) / 16 := by omega
    simp only [hlt, if_true]
    refine ⟨by omega, ?_, ?_⟩
    · split_ifs <;> omega
    · intro h; omega

theorem pieces_pairwise (blk : Range) : (pieces blk).Pairwise PR := by
  unfold pieces
  by_cases h : blk.1 / 16 ≤ (blk.2 - 1) / 16 + 1
  · exact pieces_pairwise_aux blk _ _ (by omega)
  · have : (blk.2 - 1) / 16 + 1 - blk.1 / 16 = 0 := by omega
    rw [this]; simp

/-- all pairs of the view -/
def piecesOf (bl : List Range) : List (Nat × Range) := bl.flatMap pieces

theorem mem_piecesOf {bl : List Range} {x : Nat × Range} :
    x ∈ piecesOf bl ↔ ∃ b ∈ bl, x ∈ pieces b := by
  simp [piecesOf, List.mem_flatMap]

theorem piecesOf_elt {bl : List Range} (h : NormalR bl) {x : Nat × Range} (hx : x ∈ piecesOf bl) :
    EltOK x := by
  obtain ⟨b, hb, hxb⟩ := mem_piecesOf.mp hx
  exact (pieces_elt (h.all_pos b hb) hxb).1

theorem piecesOf_cover {bl : List Range} (h : NormalR bl) (a : Nat) :
    MemR a bl ↔ ∃ x ∈ piecesOf bl, x.2.1 ≤ a ∧ a < x.2.2 := by
  constructor
  · rintro ⟨b, hb, h1, h2⟩
    obtain ⟨x, hx, h3⟩ := (pieces_cover (h.all_pos b hb) a).mp ⟨h1, h2⟩
    exact ⟨x, mem_piecesOf.mpr ⟨b, hb, hx⟩, h3⟩
  · rintro ⟨x, hx, h3⟩
    obtain ⟨b, hb, hxb⟩ := mem_piecesOf.mp hx
    exact ⟨b, hb, (pieces_cover (h.all_pos b hb) a).mpr ⟨x, hxb, h3⟩⟩

theorem piecesOf_pairwise {bl : List Range} (h : NormalR bl) : (piecesOf bl).Pairwise PR := by
  induction bl with
  | nil => simp [piecesOf]
  | cons b r ih =>
    have hb := h.head
    show (pieces b ++ piecesOf r).Pairwise PR
    rw [List.pairwise_append]
    refine ⟨pieces_pairwise b, ih h.tail, ?_⟩
    intro x hx y hy
    obtain ⟨c, hc, hyc⟩ := mem_piecesOf.mp hy
    have hlater := h.later c hc
    have hcpos := h.tail.all_pos c hc
    obtain ⟨_, _, hx2, _, hx4⟩ := pieces_elt hb hx
    obtain ⟨_, hy1, _, hy3, _⟩ := pieces_elt hcpos hyc
    have e : (b.2 - 1) / 16 * 16 ≤ c.1 / 16 * 16 :=
      Nat.mul_le_mul_right 16 (Nat.div_le_div_right (by omega))
    unfold PR
    refine ⟨by omega, by omega, fun _ => by omega⟩

/-! ### the merged rows -/

theorem mergeF_addr (rest : List Line) : ∀ (p : Line) (l : Line), l ∈ mergeF p rest →
    ∃ l' ∈ p :: rest, l.addr = l'.addr := by
  induction rest with
  | nil =>
    intro p l hl
    simp only [mergeF, List.mem_singleton] at hl
    exact ⟨p, List.mem_cons_self .., by rw [hl]⟩
  | cons c rest ih =>
    intro p l hl
    simp only [mergeF] at hl
    by_cases h : p.addr = c.addr
    · simp only [h, if_true] at hl
      obtain ⟨l', hl', e⟩ := ih _ l hl
      rcases List.mem_cons.mp hl' with rfl | hl'
      · exact ⟨c, by simp, e⟩
      · exact ⟨l', by simp [hl'], e⟩
    · simp only [h, if_false] at hl
      rcases List.mem_cons.mp hl with rfl | hl
      · exact ⟨l, List.mem_cons_self .., rfl⟩
      · obtain ⟨l', hl', e⟩ := ih _ l hl
        exact ⟨l', List.mem_cons_of_mem _ hl', e⟩

/-- merging a list ascending by window gives strictly ascending windows -/
theorem mergeF_sorted (rest : List Line) : ∀ p : Line,
    (p :: rest).Pairwise (fun a b => a.addr ≤ b.addr) →
    (mergeF p rest).Pairwise (fun a b => a.addr < b.addr) := by
  induction rest with
  | nil => intro p _; simp [mergeF]
  | cons c rest ih =>
    intro p hp
    rw [List.pairwise_cons] at hp
    obtain ⟨hp1, hp2⟩ := hp
    simp only [mergeF]
    by_cases h : p.addr = c.addr
    · simp only [h, if_true]
      apply ih
      rw [List.pairwise_cons] at hp2 ⊢
      exact ⟨hp2.1, hp2.2⟩
    · simp only [h, if_false]
      rw [List.pairwise_cons]
      refine ⟨?_, ih c hp2⟩
      intro l hl
      obtain ⟨l', hl', e⟩ := mergeF_addr rest c l hl
      have h1 := hp1 c (List.mem_cons_self ..)
      rw [List.pairwise_cons] at hp2
      rcases List.mem_cons.mp hl' with rfl | hl'
      · omega
      · have := hp2.1 l' hl'; omega

theorem mergeF_nonempty (rest : List Line) : ∀ p : Line, (∀ l ∈ p :: rest, l.ranges ≠ []) →
    ∀ l ∈ mergeF p rest, l.ranges ≠ [] := by
  induction rest with
  | nil =>
    intro p hp l hl
    simp only [mergeF, List.mem_singleton] at hl
    rw [hl]; exact hp p (List.mem_cons_self ..)
  | cons c rest ih =>
    intro p hp l hl
    simp only [mergeF] at hl
    by_cases h : p.addr = c.addr
    · simp only [h, if_true] at hl
      refine ih _ ?_ l hl
      intro l' hl'
      rcases List.mem_cons.mp hl' with rfl | hl'
      · have := hp p (List.mem_cons_self ..)
        simp [this]
      · exact hp l' (by simp [hl'])
    · simp only [h, if_false] at hl
      rcases List.mem_cons.mp hl with rfl | hl
      · exact hp l (List.mem_cons_self ..)
      · exact ih c (fun l' hl' => hp l' (List.mem_cons_of_mem _ hl')) l hl

/-- the rows of the view (before the ellipsis rows are added) -/
def rowsOf (bl : List Range) : List Line := mergeAll ((piecesOf bl).map toLine)

theorem rowsOf_flat (bl : List Range) : flat (rowsOf bl) = piecesOf bl := by
  rw [rowsOf, flat_mergeAll, flat_map_toLine]

theorem rowsOf_sorted {bl : List Range} (h : NormalR bl) :
    (rowsOf bl).Pairwise (fun a b => a.addr < b.addr) := by
  unfold rowsOf
  have hp := piecesOf_pairwise h
  generalize piecesOf bl = F at hp
  cases F with
  | nil => simp [mergeAll]
  | cons x F =>
    apply mergeF_sorted
    have : (List.map toLine (x :: F)).Pairwise (fun a b => a.addr ≤ b.addr) := by
      rw [List.pairwise_map]
      exact hp.imp (fun h => h.1)
    exact this

theorem rowsOf_nonempty (bl : List Range) : ∀ l ∈ rowsOf bl, l.ranges ≠ [] := by
  unfold rowsOf
  generalize piecesOf bl = F
  cases F with
  | nil => intro l hl; cases hl
  | cons x F =>
    apply mergeF_nonempty
    intro l hl
    simp only [← List.map_cons, List.mem_map] at hl
    obtain ⟨y, _, rfl⟩ := hl
    simp [toLine]

theorem pairwise_lt_inj {L : List Line} (h : L.Pairwise (fun a b => a.addr < b.addr))
    {l l' : Line} (hl : l ∈ L) (hl' : l' ∈ L) (e : l.addr = l'.addr) : l = l' := by
  induction L with
  | nil => cases hl
  | cons x L ih =>
    rw [List.pairwise_cons] at h
    rcases List.mem_cons.mp hl with h1 | h1
    · rcases List.mem_cons.mp hl' with h2 | h2
      · rw [h1, h2]
      · have := h.1 l' h2; rw [h1] at e; omega
    · rcases List.mem_cons.mp hl' with h2 | h2
      · have := h.1 l h1; rw [h2] at e; omega
      · exact ih h.2 h1 h2

/-- a row exists exactly for the windows that meet stored memory -/
theorem rowsOf_mem {bl : List Range} (h : NormalR bl) (w : Nat) :
    w ∈ (rowsOf bl).map (·.addr) ↔ (w % 16 = 0 ∧ ∃ a, MemR a bl ∧ w ≤ a ∧ a < w + 16) := by
  constructor
  · intro hw
    obtain ⟨l, hl, rfl⟩ := List.mem_map.mp hw
    have hne := rowsOf_nonempty bl l hl
    obtain ⟨r, hr⟩ := List.exists_mem_of_ne_nil _ hne
    have hx : (l.addr, r) ∈ piecesOf bl := by
      rw [← rowsOf_flat]; exact mem_flat.mpr ⟨l, hl, rfl, hr⟩
    obtain ⟨e1, e2, e3, e4⟩ := piecesOf_elt h hx
    refine ⟨e1, r.1, (piecesOf_cover h _).mpr ⟨_, hx, Nat.le_refl _, e3⟩, e2, ?_⟩
    simp only at e3 e4; omega
  · rintro ⟨hw, a, ha, h1, h2⟩
    obtain ⟨x, hx, h3, h4⟩ := (piecesOf_cover h a).mp ha
    obtain ⟨e1, e2, e3, e4⟩ := piecesOf_elt h hx
    rw [← rowsOf_flat] at hx
    obtain ⟨l, hl, e, _⟩ := mem_flat.mp hx
    refine List.mem_map.mpr ⟨l, hl, ?_⟩
    rw [← e]; omega

/-- in the row of a window, the ranges hold exactly the stored addresses of the window -/
theorem rowsOf_cells {bl : List Range} (h : NormalR bl) {l : Line} (hl : l ∈ rowsOf bl) (a : Nat)
    (h1 : l.addr ≤ a) (h2 : a < l.addr + 16) :
    (∃ r ∈ l.ranges, r.1 ≤ a ∧ a < r.2) ↔ MemR a bl := by
  constructor
  · rintro ⟨r, hr, h3⟩
    have hx : (l.addr, r) ∈ piecesOf bl := by
      rw [← rowsOf_flat]; exact mem_flat.mpr ⟨l, hl, rfl, hr⟩
    exact (piecesOf_cover h a).mpr ⟨_, hx, h3⟩
  · intro ha
    obtain ⟨x, hx, h3, h4⟩ := (piecesOf_cover h a).mp ha
    obtain ⟨e1, e2, e3, e4⟩ := piecesOf_elt h hx
    rw [← rowsOf_flat] at hx
    obtain ⟨l', hl', e, hr⟩ := mem_flat.mp hx
    have hl1 : l.addr % 16 = 0 := ((rowsOf_mem h l.addr).mp (List.mem_map.mpr ⟨l, hl, rfl⟩)).1
    have : l' = l := pairwise_lt_inj (rowsOf_sorted h) hl' hl (by rw [← e]; omega)
    subst this
    exact ⟨x.2, hr, h3, h4⟩

/-- the ranges of a row ascend and are not adjacent; each lies in the window and is not empty -/
theorem rowsOf_ranges {bl : List Range} (h : NormalR bl) {l : Line} (hl : l ∈ rowsOf bl) :
    l.ranges.Pairwise (fun r r' => r.2 < r'.1) ∧
    ∀ r ∈ l.ranges, l.addr ≤ r.1 ∧ r.1 < r.2 ∧ r.2 ≤ l.addr + 16 := by
  constructor
  · have hsub : (l.ranges.map fun r => (l.addr, r)).Sublist (flat (rowsOf bl)) := by
      unfold flat
      rw [List.flatMap_def]
      exact List.sublist_flatten_of_mem (List.mem_map.mpr ⟨l, hl, rfl⟩)
    rw [rowsOf_flat] at hsub
    have hp := (piecesOf_pairwise h).sublist hsub
    rw [List.pairwise_map] at hp
    exact hp.imp (fun hxy => hxy.2.2 rfl)
  · intro r hr
    have hx : (l.addr, r) ∈ piecesOf bl := by
      rw [← rowsOf_flat]; exact mem_flat.mpr ⟨l, hl, rfl, hr⟩
    obtain ⟨_, e2, e3, e4⟩ := piecesOf_elt h hx
    exact ⟨e2, e3, e4⟩

theorem rowsOf_windows {bl : List Range} (h : NormalR bl) :
    Spec.MemView.Rows (fun a => MemR a bl) ((rowsOf bl).map (·.addr)) := by
  refine ⟨?_, rowsOf_mem h⟩
  rw [List.pairwise_map]
  exact rowsOf_sorted h

/-! ### `addEmptyLines` and `memoryLines` -/

/-- what a line shows: `none` for the ellipsis row, the window otherwise -/
def key (l : Line) : Option Nat := if l.isEllipsis then none else some l.addr

theorem key_empty : key Line.empty = none := rfl

theorem key_row {l : Line} (h : l.ranges ≠ []) : key l = some l.addr := by
  unfold key Line.isEllipsis
  cases hr : l.ranges with
  | nil => exact absurd hr h
  | cons _ _ => rfl

theorem addEmptyLoop_some (rows : List Line) (hr : ∀ l ∈ rows, l.ranges ≠ []) : ∀ p : Line,
    (addEmptyLoop (some p) rows).map key = Spec.MemView.layoutFrom p.addr (rows.map (·.addr)) := by
  induction rows with
  | nil => intro p; rfl
  | cons l rows ih =>
    intro p
    have h1 := key_row (hr l (List.mem_cons_self ..))
    have h2 := ih (fun x hx => hr x (List.mem_cons_of_mem _ hx)) l
    simp only [addEmptyLoop, bytesPerLine, List.map_cons, Spec.MemView.layoutFrom, List.map_append, h1, h2]
    by_cases hc : p.addr + 16 < l.addr <;> simp [hc, key_empty]

theorem addEmptyLoop_mem (rows : List Line) : ∀ (p : Option Line) (l : Line),
    l ∈ addEmptyLoop p rows → l = Line.empty ∨ l ∈ rows := by
  induction rows with
  | nil => intro p l hl; cases p <;> simp [addEmptyLoop] at hl
  | cons x rows ih =>
    intro p l hl
    cases p with
    | none =>
      simp only [addEmptyLoop, List.mem_append, List.mem_cons] at hl
      rcases hl with hl | rfl | hl
      · split_ifs at hl <;> simp at hl; exact Or.inl hl
      · exact Or.inr (List.mem_cons_self ..)
      · rcases ih _ l hl with h | h
        · exact Or.inl h
        · exact Or.inr (List.mem_cons_of_mem _ h)
    | some q =>
      simp only [addEmptyLoop, List.mem_append, List.mem_cons] at hl
      rcases hl with hl | rfl | hl
      · split_ifs at hl <;> simp at hl; exact Or.inl hl
      · exact Or.inr (List.mem_cons_self ..)
      · rcases ih _ l hl with h | h
        · exact Or.inl h
        · exact Or.inr (List.mem_cons_of_mem _ h)

theorem addEmptyLines_eq (rows : List Line) (hne : rows ≠ []) (ha : ∀ l ∈ rows, l.addr % 16 = 0) :
    addEmptyLines rows = addEmptyLoop none rows ++ [Line.empty] := by
  simp only [addEmptyLines]
  split
  · next x hx =>
    have hm : x ∈ addEmptyLoop none rows := List.mem_of_getLast? hx
    have h16 : x.addr % 16 = 0 := by
      rcases addEmptyLoop_mem _ _ _ hm with rfl | h
      · rfl
      · exact ha x h
    have : (x.addr + bytesPerLine) % 2 ^ 64 ≠ 2 ^ 64 - 1 := by
      unfold bytesPerLine; omega
    rw [if_pos this]
  · next hx =>
    exfalso
    have : addEmptyLoop none rows = [] := List.getLast?_eq_none_iff.mp hx
    cases rows with
    | nil => exact hne rfl
    | cons l rows => simp [addEmptyLoop] at this

/-- `addEmptyLines` produces the layout of the specification -/
theorem addEmptyLines_layout (rows : List Line) (hr : ∀ l ∈ rows, l.ranges ≠ [])
    (ha : ∀ l ∈ rows, l.addr % 16 = 0) :
    (addEmptyLines rows).map key = Spec.MemView.layout (rows.map (·.addr)) := by
  cases rows with
  | nil => rfl
  | cons l rows =>
    rw [addEmptyLines_eq _ (by simp) ha]
    have h1 := key_row (hr l (List.mem_cons_self ..))
    have h2 := addEmptyLoop_some rows (fun x hx => hr x (List.mem_cons_of_mem _ hx)) l
    simp only [addEmptyLoop, List.map_append, List.map_cons, List.map_nil, h1, h2, key_empty,
      Spec.MemView.layout, List.append_assoc, List.cons_append]
    by_cases hc : l.addr = 0 <;> simp [hc, key_empty]

/-- `memoryLines` succeeds on normal blocks and adds the ellipsis rows to `rowsOf` -/
theorem memoryLines_eq {bl : List Range} (h : NormalR bl) :
    memoryLines bl = some (addEmptyLines (rowsOf bl)) := by
  unfold memoryLines
  rw [allLines_eq bl h.all_pos, lines_eq]
  obtain ⟨arr, j, h1, h2⟩ := mergeLoop_eq ((piecesOf bl).map toLine)
  simp only [piecesOf] at h1 h2 ⊢
  simp only [h1, h2]
  rfl

/-- F28: the pinned loop keeps the stale tail; blocks `[0,4)` and `[8,12)` give window 0 twice -/
theorem f28_witness :
    memoryLinesPinned [(0, 4), (8, 12)] =
      some [⟨0, [(0, 4), (8, 12)]⟩, ⟨0, [(8, 12)]⟩, Line.empty] ∧
    memoryLines [(0, 4), (8, 12)] = some [⟨0, [(0, 4), (8, 12)]⟩, Line.empty] := by
  decide

end Mltwist.Lemmas.MemView
