import Mltwist.Spec.BytesHeap
/-
C15, aliasing clause: frame lemmas for the heap-level model.  Every write of every operation goes to
an array the memory owns (an array of one of its blocks) or to an array allocated by the operation.
-/
namespace Mltwist.Lemmas.BytesHeap
open Mltwist Mltwist.BytesHeap
open Mltwist.BytesMem (Fail)

/-! ### arrays -/

theorem arrOf_append_lt (h : Heap) (x : List UInt8) {id : Nat} (hid : id < h.length) :
    arrOf (h ++ [x]) id = arrOf h id := by
  unfold arrOf
  rw [List.getElem?_append_left hid]

theorem length_writeAt (h : Heap) (id pos : Nat) (d : List UInt8) :
    (writeAt h id pos d).length = h.length := by
  unfold writeAt; simp

theorem arrOf_writeAt_ne (h : Heap) (id pos : Nat) (d : List UInt8) {id' : Nat} (hne : id' ≠ id) :
    arrOf (writeAt h id pos d) id' = arrOf h id' := by
  unfold arrOf writeAt
  rw [List.getElem?_set_ne (fun e => hne e.symm)]

theorem arrOf_writeAt_nil (h : Heap) (id pos id' : Nat) :
    arrOf (writeAt h id pos []) id' = arrOf h id' := by
  by_cases hne : id' = id
  · subst hne
    unfold writeAt
    simp only [List.append_nil, List.length_nil, Nat.add_zero, List.take_append_drop]
    unfold arrOf
    rw [List.getElem?_set_self']
    by_cases hl : id' < h.length
    · simp [hl]
    · simp [hl]
  · exact arrOf_writeAt_ne h id pos [] hne

theorem read_congr {h h' : Heap} {s : Slice} (e : arrOf h' s.arr = arrOf h s.arr) :
    BytesHeap.read h' s = BytesHeap.read h s := by
  unfold BytesHeap.read; rw [e]

/-! ### the frame relation -/

/-- since the heap `hs`, no array outside `O` was modified -/
def HeapRel (hs : Heap) (O : Nat → Prop) (h : Heap) : Prop :=
  hs.length ≤ h.length ∧ ∀ id, id < hs.length → ¬ O id → arrOf h id = arrOf hs id

/-- a live slice points into an array of `O` or into an array allocated after `hs` -/
def SliceOk (hs : Heap) (O : Nat → Prop) (h : Heap) (s : Slice) : Prop :=
  Live s → (O s.arr ∨ hs.length ≤ s.arr) ∧ s.arr < h.length

def BlocksOk (hs : Heap) (O : Nat → Prop) (h : Heap) (bs : List HBlock) : Prop :=
  ∀ b ∈ bs, SliceOk hs O h b.2

theorem heapRel_refl (hs : Heap) (O : Nat → Prop) : HeapRel hs O hs :=
  ⟨Nat.le_refl _, fun _ _ _ => rfl⟩

theorem sliceOk_mono {hs : Heap} {O : Nat → Prop} {h h' : Heap} {s : Slice}
    (hl : h.length ≤ h'.length) (hk : SliceOk hs O h s) : SliceOk hs O h' s := fun hv =>
  ⟨(hk hv).1, Nat.lt_of_lt_of_le (hk hv).2 hl⟩

theorem blocksOk_mono {hs : Heap} {O : Nat → Prop} {h h' : Heap} {bs : List HBlock}
    (hl : h.length ≤ h'.length) (hk : BlocksOk hs O h bs) : BlocksOk hs O h' bs :=
  fun b hb => sliceOk_mono hl (hk b hb)

theorem sliceOk_nil (hs : Heap) (O : Nat → Prop) (h : Heap) : SliceOk hs O h nilSlice := by
  intro hv
  unfold Live nilSlice at hv
  simp at hv

theorem reslice_ok {hs : Heap} {O : Nat → Prop} {h : Heap} {s s' : Slice} {lo hi : Nat}
    (hr : reslice s lo hi = some s') (hk : SliceOk hs O h s) : SliceOk hs O h s' := by
  unfold reslice at hr
  split at hr
  · next hb =>
    cases hr
    intro hv
    have : Live s := by
      unfold Live at *
      simp only at hv
      omega
    exact hk this
  · cases hr

theorem blocksOk_set {hs : Heap} {O : Nat → Prop} {h : Heap} {bs : List HBlock} {k : Nat} {x : HBlock}
    (hk : BlocksOk hs O h bs) (hx : SliceOk hs O h x.2) : BlocksOk hs O h (bs.set k x) := by
  intro b hb
  rcases List.mem_or_eq_of_mem_set hb with hb' | rfl
  · exact hk b hb'
  · exact hx

theorem blocksOk_getElem {hs : Heap} {O : Nat → Prop} {h : Heap} {bs : List HBlock} {k : Nat} {x : HBlock}
    (hk : BlocksOk hs O h bs) (hx : bs[k]? = some x) : SliceOk hs O h x.2 :=
  hk x (List.mem_of_getElem? hx)

/-! ### primitives -/

theorem alloc_spec (hs : Heap) (O : Nat → Prop) (h : Heap) (n : Nat) (hr : HeapRel hs O h) :
    HeapRel hs O (alloc h n).1 ∧ (alloc h n).1.length = h.length + 1 ∧ (alloc h n).2.arr = h.length := by
  unfold alloc
  refine ⟨⟨?_, ?_⟩, by simp, rfl⟩
  · simp only [List.length_append, List.length_singleton]; have := hr.1; omega
  · intro id hid hO
    rw [arrOf_append_lt _ _ (Nat.lt_of_lt_of_le hid hr.1)]
    exact hr.2 id hid hO

theorem copyH_spec (hs : Heap) (O : Nat → Prop) (h : Heap) (dst src : Slice) (hr : HeapRel hs O h)
    (hd : SliceOk hs O h dst) :
    HeapRel hs O (copyH h dst src).1 ∧ (copyH h dst src).1.length = h.length := by
  unfold copyH
  refine ⟨⟨?_, ?_⟩, length_writeAt ..⟩
  · rw [length_writeAt]; exact hr.1
  · intro id hid hO
    by_cases hn : min dst.len src.len = 0
    · simp only [hn, List.take_zero]
      rw [arrOf_writeAt_nil]
      exact hr.2 id hid hO
    · have hlive : Live dst := by unfold Live; omega
      have := (hd hlive).1
      rw [arrOf_writeAt_ne]
      · exact hr.2 id hid hO
      · intro e
        subst e
        rcases this with h1 | h1
        · exact hO h1
        · omega

theorem appendH_spec (cfg : Cfg) (hs : Heap) (O : Nat → Prop) (h : Heap) (s src : Slice)
    (hr : HeapRel hs O h) (hk : SliceOk hs O h s) :
    HeapRel hs O (appendH cfg h s src).1 ∧ h.length ≤ (appendH cfg h s src).1.length ∧
      SliceOk hs O (appendH cfg h s src).1 (appendH cfg h s src).2 := by
  unfold appendH
  simp only
  split
  · next hfit =>
    simp only
    refine ⟨⟨?_, ?_⟩, ?_, ?_⟩
    · rw [length_writeAt]; exact hr.1
    · intro id hid hO
      by_cases hn : (BytesHeap.read h src).length = 0
      · have : BytesHeap.read h src = [] := List.eq_nil_of_length_eq_zero hn
        rw [this, arrOf_writeAt_nil]
        exact hr.2 id hid hO
      · have hlive : Live s := by unfold Live; omega
        have := (hk hlive).1
        rw [arrOf_writeAt_ne]
        · exact hr.2 id hid hO
        · intro e
          subst e
          rcases this with h1 | h1
          · exact hO h1
          · omega
    · rw [length_writeAt]; exact Nat.le_refl _
    · intro hv
      rw [length_writeAt]
      have hlive : Live s := by
        unfold Live at *
        simp only at hv
        omega
      exact hk hlive
  · next hnofit =>
    simp only
    refine ⟨⟨?_, ?_⟩, by simp, ?_⟩
    · simp only [List.length_append, List.length_singleton]; have := hr.1; omega
    · intro id hid hO
      rw [arrOf_append_lt _ _ (Nat.lt_of_lt_of_le hid hr.1)]
      exact hr.2 id hid hO
    · intro _
      simp only [List.length_append, List.length_singleton]
      have := hr.1
      exact ⟨Or.inr this, by omega⟩

theorem newConstH_spec (hs : Heap) (O : Nat → Prop) (h : Heap) (b : Slice) (w : Nat)
    (hr : HeapRel hs O h) :
    HeapRel hs O (newConstH h b w).1 ∧ (newConstH h b w).1.length = h.length + 1 ∧
      (newConstH h b w).2.arr = h.length := by
  unfold newConstH
  obtain ⟨ha1, ha2, ha3⟩ := alloc_spec hs O h w hr
  have hd : SliceOk hs O (alloc h w).1 (alloc h w).2 := by
    intro _
    rw [ha3, ha2]
    have := hr.1
    exact ⟨Or.inr this, by omega⟩
  obtain ⟨hc1, hc2⟩ := copyH_spec hs O (alloc h w).1 (alloc h w).2 b ha1 hd
  simp only
  exact ⟨hc1, by rw [hc2, ha2], ha3⟩

/-! ### `NewBytes` -/

theorem copyBlocks_spec (hs : Heap) (O : Nat → Prop) : ∀ (l : List HBlock) (h : Heap),
    HeapRel hs O h →
    HeapRel hs O (copyBlocks h l).1 ∧ h.length ≤ (copyBlocks h l).1.length ∧
      BlocksOk hs O (copyBlocks h l).1 (copyBlocks h l).2 := by
  intro l
  induction l with
  | nil => intro h hr; exact ⟨hr, Nat.le_refl _, fun _ hb => by cases hb⟩
  | cons x rest ih =>
    intro h hr
    obtain ⟨b, s⟩ := x
    unfold copyBlocks
    split
    · exact ih h hr
    · obtain ⟨ha1, ha2, ha3⟩ := alloc_spec hs O h s.len hr
      have hd : SliceOk hs O (alloc h s.len).1 (alloc h s.len).2 := by
        intro _
        rw [ha3, ha2]
        have := hr.1
        exact ⟨Or.inr this, by omega⟩
      obtain ⟨hc1, hc2⟩ := copyH_spec hs O (alloc h s.len).1 (alloc h s.len).2 s ha1 hd
      obtain ⟨hi1, hi2, hi3⟩ := ih (copyH (alloc h s.len).1 (alloc h s.len).2 s).1 hc1
      simp only
      refine ⟨hi1, by omega, ?_⟩
      intro y hy
      rcases List.mem_cons.1 hy with rfl | hy'
      · exact sliceOk_mono (by omega) hd
      · exact hi3 y hy'

theorem mem_insertByBegin (x : HBlock) (l : List HBlock) (y : HBlock) :
    y ∈ insertByBegin x l → y = x ∨ y ∈ l := by
  induction l with
  | nil => intro h; simpa [insertByBegin] using h
  | cons z zs ih =>
    unfold insertByBegin
    split
    · intro h; simpa using h
    · intro h
      rcases List.mem_cons.1 h with rfl | h'
      · exact Or.inr (List.mem_cons_self ..)
      · rcases ih h' with h1 | h1
        · exact Or.inl h1
        · exact Or.inr (List.mem_cons_of_mem _ h1)

theorem mem_foldl_insert (l : List HBlock) : ∀ (acc : List HBlock) (y : HBlock),
    y ∈ l.foldl (fun acc x => insertByBegin x acc) acc → y ∈ l ∨ y ∈ acc := by
  induction l with
  | nil => intro acc y h; exact Or.inr h
  | cons x l ih =>
    intro acc y h
    rw [List.foldl_cons] at h
    rcases ih _ y h with h1 | h1
    · exact Or.inl (List.mem_cons_of_mem _ h1)
    · rcases mem_insertByBegin x acc y h1 with rfl | h2
      · exact Or.inl (List.mem_cons_self ..)
      · exact Or.inr h2

theorem mem_sortByBegin (l : List HBlock) (y : HBlock) (h : y ∈ sortByBegin l) : y ∈ l := by
  rcases mem_foldl_insert l [] y h with h1 | h1
  · exact h1
  · cases h1

theorem dedupLoopH_spec (cfg : Cfg) (hs : Heap) (O : Nat → Prop) : ∀ (fuel : Nat) (h : Heap)
    (bs : List HBlock) (i j : Nat), HeapRel hs O h → BlocksOk hs O h bs →
    HeapRel hs O (dedupLoopH cfg fuel h bs i j).1 ∧ h.length ≤ (dedupLoopH cfg fuel h bs i j).1.length ∧
      ∀ bs', (dedupLoopH cfg fuel h bs i j).2 = .ok bs' →
        BlocksOk hs O (dedupLoopH cfg fuel h bs i j).1 bs' := by
  intro fuel
  induction fuel with
  | zero =>
    intro h bs i j hr hb
    simp only [dedupLoopH]
    refine ⟨hr, Nat.le_refl _, ?_⟩
    intro bs' he
    cases he
    exact fun b hb' => hb b (List.mem_of_mem_take hb')
  | succ fuel ih =>
    intro h bs i j hr hb
    unfold dedupLoopH
    split
    · next p c hp hc =>
      split
      · exact ⟨hr, Nat.le_refl _, fun _ he => by cases he⟩
      · split
        · obtain ⟨ha1, ha2, ha3⟩ := appendH_spec cfg hs O h p.2 c.2 hr (blocksOk_getElem hb hp)
          have hb' : BlocksOk hs O (appendH cfg h p.2 c.2).1
              (bs.set (j - 1) (p.1, (appendH cfg h p.2 c.2).2)) :=
            blocksOk_set (blocksOk_mono ha2 hb) ha3
          obtain ⟨hi1, hi2, hi3⟩ := ih (appendH cfg h p.2 c.2).1 _ (i + 1) j ha1 hb'
          exact ⟨hi1, Nat.le_trans ha2 hi2, hi3⟩
        · exact ih h _ (i + 1) (j + 1) hr (blocksOk_set hb (blocksOk_getElem hb hc))
    · exact ⟨hr, Nat.le_refl _, fun _ he => by cases he⟩

theorem dedupBlocksH_spec (cfg : Cfg) (hs : Heap) (O : Nat → Prop) (h : Heap) (bs : List HBlock)
    (hr : HeapRel hs O h) (hb : BlocksOk hs O h bs) :
    HeapRel hs O (dedupBlocksH cfg h bs).1 ∧ h.length ≤ (dedupBlocksH cfg h bs).1.length ∧
      ∀ bs', (dedupBlocksH cfg h bs).2 = .ok bs' → BlocksOk hs O (dedupBlocksH cfg h bs).1 bs' := by
  unfold dedupBlocksH
  split
  · refine ⟨hr, Nat.le_refl _, ?_⟩
    intro bs' he
    cases he
    exact hb
  · exact dedupLoopH_spec cfg hs O _ h bs 1 1 hr hb

theorem newBytesH_spec (cfg : Cfg) (hs : Heap) (O : Nat → Prop) (h : Heap) (input : List HBlock)
    (hr : HeapRel hs O h) :
    HeapRel hs O (newBytesH cfg h input).1 ∧ h.length ≤ (newBytesH cfg h input).1.length ∧
      ∀ bs', (newBytesH cfg h input).2 = .ok bs' → BlocksOk hs O (newBytesH cfg h input).1 bs' := by
  unfold newBytesH
  obtain ⟨hc1, hc2, hc3⟩ := copyBlocks_spec hs O input h hr
  have hb : BlocksOk hs O (copyBlocks h input).1 (sortByBegin (copyBlocks h input).2) :=
    fun b hb' => hc3 b (mem_sortByBegin _ b hb')
  obtain ⟨hd1, hd2, hd3⟩ := dedupBlocksH_spec cfg hs O _ _ hc1 hb
  exact ⟨hd1, Nat.le_trans hc2 hd2, hd3⟩

/-! ### `Load` -/

/-- `Load` modifies no existing array; a returned constant lives in a fresh array -/
theorem loadH_spec (hs : Heap) (O : Nat → Prop) (h : Heap) (bs : List HBlock) (addr w : Nat)
    (hr : HeapRel hs O h) :
    HeapRel hs O (loadH h bs addr w).1 ∧ h.length ≤ (loadH h bs addr w).1.length ∧
      (∀ id, id < h.length → arrOf (loadH h bs addr w).1 id = arrOf h id) ∧
      ∀ c, (loadH h bs addr w).2 = .ok (some c) →
        c.arr = h.length ∧ (loadH h bs addr w).1.length = h.length + 1 := by
  have triv : HeapRel hs O h ∧ h.length ≤ h.length ∧ (∀ id, id < h.length → arrOf h id = arrOf h id) :=
    ⟨hr, Nat.le_refl _, fun _ _ => rfl⟩
  unfold loadH
  simp only
  split
  · exact ⟨triv.1, triv.2.1, triv.2.2, fun c hc => by cases hc⟩
  · split
    · exact ⟨triv.1, triv.2.1, triv.2.2, fun c hc => by cases hc⟩
    · split
      · exact ⟨triv.1, triv.2.1, triv.2.2, fun c hc => by cases hc⟩
      · split
        · exact ⟨triv.1, triv.2.1, triv.2.2, fun c hc => by cases hc⟩
        · next s _ =>
          obtain ⟨hn1, hn2, hn3⟩ := newConstH_spec hs O h s w hr
          obtain ⟨hm1, _, _⟩ := newConstH_spec h (fun _ => False) h s w (heapRel_refl h _)
          refine ⟨hn1, by rw [hn2]; omega, fun id hid => hm1.2 id hid (fun hf => hf), ?_⟩
          intro c hc
          cases hc
          exact ⟨hn3, hn2⟩

/-! ### `Store` (repaired: `cfg.fixF05 = true`) -/

theorem withWidthH_spec (hs : Heap) (O : Nat → Prop) (h : Heap) (c : Slice) (w : Nat)
    (hr : HeapRel hs O h) :
    HeapRel hs O (withWidthH h c w).1 ∧ h.length ≤ (withWidthH h c w).1.length := by
  unfold withWidthH
  split
  · exact ⟨hr, Nat.le_refl _⟩
  · split
    · split <;> exact ⟨hr, Nat.le_refl _⟩
    · obtain ⟨hn1, hn2, _⟩ := newConstH_spec hs O h c w hr
      exact ⟨hn1, by rw [hn2]; omega⟩

theorem storeH_spec (cfg : Cfg) (hfix : cfg.fixF05 = true) (hs : Heap) (O : Nat → Prop) (h : Heap)
    (bs : List HBlock) (addr : Nat) (data : Slice) (hr : HeapRel hs O h) (hb : BlocksOk hs O h bs) :
    HeapRel hs O (storeH cfg h bs addr data).1 ∧ h.length ≤ (storeH cfg h bs addr data).1.length ∧
      ∀ bs' n, (storeH cfg h bs addr data).2 = .ok (bs', n) →
        BlocksOk hs O (storeH cfg h bs addr data).1 bs' := by
  unfold storeH
  split
  · next blockIdx _ =>
    split
    · exact ⟨hr, Nat.le_refl _, fun _ _ he => by cases he⟩
    · next block hblock =>
      simp only
      split
      · exact ⟨hr, Nat.le_refl _, fun _ _ he => by cases he⟩
      · next dst hdst =>
        have hd : SliceOk hs O h dst := reslice_ok hdst (blocksOk_getElem hb hblock)
        obtain ⟨hc1, hc2⟩ := copyH_spec hs O h dst data hr hd
        refine ⟨hc1, by rw [hc2]; exact Nat.le_refl _, ?_⟩
        intro bs' n he
        cases he
        exact blocksOk_mono (by rw [hc2]; exact Nat.le_refl _) hb
  · simp only
    split
    · exact ⟨hr, Nat.le_refl _, fun _ _ he => by cases he⟩
    · next piece _ =>
      rw [if_pos hfix]
      obtain ⟨ha1, ha2, ha3⟩ := appendH_spec cfg hs O h nilSlice piece hr (sliceOk_nil hs O h)
      refine ⟨ha1, ha2, ?_⟩
      intro bs' n he
      cases he
      apply blocksOk_set
      · intro b hb'
        rcases List.mem_append.1 hb' with h1 | h1
        · have := List.mem_of_mem_take h1
          rcases List.mem_append.1 this with h2 | h2
          · exact sliceOk_mono ha2 (hb b h2)
          · rw [List.mem_singleton] at h2
            subst h2
            exact sliceOk_nil _ _ _
        · exact sliceOk_mono ha2 (hb b (List.mem_of_mem_drop h1))
      · exact ha3

theorem storeLoopH_spec (cfg : Cfg) (hfix : cfg.fixF05 = true) (hs : Heap) (O : Nat → Prop) :
    ∀ (fuel : Nat) (h : Heap) (bs : List HBlock) (addr : Nat) (data : Slice),
    HeapRel hs O h → BlocksOk hs O h bs →
    HeapRel hs O (storeLoopH cfg fuel h bs addr data).1 ∧
      h.length ≤ (storeLoopH cfg fuel h bs addr data).1.length ∧
      ∀ bs', (storeLoopH cfg fuel h bs addr data).2 = .ok bs' →
        BlocksOk hs O (storeLoopH cfg fuel h bs addr data).1 bs' := by
  intro fuel
  induction fuel with
  | zero =>
    intro h bs addr data hr hb
    unfold storeLoopH
    split
    · exact ⟨hr, Nat.le_refl _, fun _ he => by cases he; exact hb⟩
    · exact ⟨hr, Nat.le_refl _, fun _ he => by cases he⟩
  | succ fuel ih =>
    intro h bs addr data hr hb
    unfold storeLoopH
    split
    · exact ⟨hr, Nat.le_refl _, fun _ he => by cases he; exact hb⟩
    · obtain ⟨hs1, hs2, hs3⟩ := storeH_spec cfg hfix hs O h bs addr data hr hb
      split
      · next h' e heq =>
        rw [heq] at hs1 hs2
        exact ⟨hs1, hs2, fun _ he => by cases he⟩
      · next h' bs1 n heq =>
        rw [heq] at hs1 hs2 hs3
        have hb1 : BlocksOk hs O h' bs1 := hs3 bs1 n rfl
        split
        · exact ⟨hs1, hs2, fun _ he => by cases he⟩
        · next data' _ =>
          obtain ⟨hi1, hi2, hi3⟩ := ih h' bs1 (addr + n) data' hs1 hb1
          exact ⟨hi1, Nat.le_trans hs2 hi2, hi3⟩

theorem storeConstH_spec (cfg : Cfg) (hfix : cfg.fixF05 = true) (hs : Heap) (O : Nat → Prop) (h : Heap)
    (bs : List HBlock) (addr w : Nat) (c : Slice) (hr : HeapRel hs O h) (hb : BlocksOk hs O h bs) :
    HeapRel hs O (storeConstH cfg h bs addr w c).1 ∧
      h.length ≤ (storeConstH cfg h bs addr w c).1.length ∧
      ∀ bs', (storeConstH cfg h bs addr w c).2 = .ok bs' →
        BlocksOk hs O (storeConstH cfg h bs addr w c).1 bs' := by
  unfold storeConstH
  obtain ⟨hw1, hw2⟩ := withWidthH_spec hs O h c w hr
  split
  · next h1 e heq =>
    rw [heq] at hw1 hw2
    exact ⟨hw1, hw2, fun _ he => by cases he⟩
  · next h1 data heq =>
    rw [heq] at hw1 hw2
    obtain ⟨hl1, hl2, hl3⟩ := storeLoopH_spec cfg hfix hs O data.len h1 bs addr data hw1
      (blocksOk_mono hw2 hb)
    split
    · next h2 e heq2 =>
      rw [heq2] at hl1 hl2
      exact ⟨hl1, Nat.le_trans hw2 hl2, fun _ he => by cases he⟩
    · next h2 bs1 heq2 =>
      rw [heq2] at hl1 hl2 hl3
      obtain ⟨hd1, hd2, hd3⟩ := dedupBlocksH_spec cfg hs O h2 bs1 hl1 (hl3 bs1 rfl)
      exact ⟨hd1, Nat.le_trans hw2 (Nat.le_trans hl2 hd2), hd3⟩

/-! ### histories -/

theorem good_blocksOk {base : Nat} {st : HState} (g : Good base st) :
    BlocksOk st.heap (Owns st.blocks) st.heap st.blocks := fun b hb hv =>
  ⟨Or.inl ⟨b, hb, hv, rfl⟩, (g.blocks b hb hv).2⟩

/-- what `Store` guarantees, in terms of the state before -/
theorem store_step {base : Nat} {st : HState} (g : Good base st) (cfg : Cfg) (hfix : cfg.fixF05 = true)
    (addr w : Nat) (s : Slice) (hs1 : s.arr < st.heap.length) (hs2 : ¬ Owns st.blocks s.arr)
    (bs' : List HBlock)
    (hbs : ∀ r, (storeConstH cfg st.heap st.blocks addr w s).2 = .ok r → bs' = r)
    (hbe : ∀ e, (storeConstH cfg st.heap st.blocks addr w s).2 = .error e → bs' = []) :
    Good base { st with heap := (storeConstH cfg st.heap st.blocks addr w s).1, blocks := bs',
                        mon := watch st.heap s st.mon } := by
  obtain ⟨hr, hlen, hok⟩ := storeConstH_spec cfg hfix st.heap (Owns st.blocks) st.heap st.blocks addr w s
    (heapRel_refl _ _) (good_blocksOk g)
  have hbs' : BlocksOk st.heap (Owns st.blocks) (storeConstH cfg st.heap st.blocks addr w s).1 bs' := by
    cases hres : (storeConstH cfg st.heap st.blocks addr w s).2 with
    | ok r => rw [hbs r hres]; exact hok r hres
    | error e => rw [hbe e hres]; exact fun _ hb => by cases hb
  have hnot : ∀ id, id < st.heap.length → ¬ Owns st.blocks id → ¬ Owns bs' id := by
    rintro id hid hno ⟨b, hb, hv, rfl⟩
    rcases (hbs' b hb hv).1 with h1 | h1
    · exact hno h1
    · omega
  have hkeep : ∀ x : Slice, x.arr < st.heap.length → ¬ Owns st.blocks x.arr →
      BytesHeap.read (storeConstH cfg st.heap st.blocks addr w s).1 x = BytesHeap.read st.heap x :=
    fun x h1 h2 => read_congr (hr.2 x.arr h1 h2)
  refine ⟨Nat.le_trans g.base_le hlen, ?_, ?_, ?_⟩
  · intro b hb hv
    have := hbs' b hb hv
    refine ⟨?_, this.2⟩
    rcases this.1 with ⟨b0, hb0, hv0, he⟩ | h1
    · rw [← he]; exact (g.blocks b0 hb0 hv0).1
    · exact Nat.le_trans g.base_le h1
  · intro c hc
    have := g.loaded c hc
    exact ⟨Nat.lt_of_lt_of_le this.1 hlen, hnot c.arr this.1 this.2⟩
  · intro m hm
    unfold watch at hm
    rcases List.mem_append.1 hm with hm' | hm'
    · have := g.mon m hm'
      exact ⟨(hkeep m.1 this.2.1 this.2.2).trans this.1, Nat.lt_of_lt_of_le this.2.1 hlen,
        hnot m.1.arr this.2.1 this.2.2⟩
    · rw [List.mem_singleton] at hm'
      subst hm'
      exact ⟨hkeep s hs1 hs2, Nat.lt_of_lt_of_le hs1 hlen, hnot s.arr hs1 hs2⟩

theorem good_step (cfg : Cfg) (hfix : cfg.fixF05 = true) {base : Nat} {st : HState} (g : Good base st)
    (op : HOp) (hop : WfOp base op) : Good base (stepH cfg st op) := by
  unfold stepH stepA
  cases op with
  | st addr w c =>
    simp only
    cases hres : resolve st c with
    | none => exact g
    | some s =>
      have hs : s.arr < st.heap.length ∧ ¬ Owns st.blocks s.arr := by
        cases c with
        | ext s0 =>
          simp only [resolve, Option.some.injEq] at hres
          subst hres
          have hb : s0.arr < base := hop
          refine ⟨Nat.lt_of_lt_of_le hb g.base_le, ?_⟩
          rintro ⟨b, hb', hv, he⟩
          have := (g.blocks b hb' hv).1
          omega
        | loaded k =>
          simp only [resolve] at hres
          exact g.loaded s (List.mem_of_getElem? hres)
      simp only
      cases hst : storeConstH cfg st.heap st.blocks addr w s with
      | mk h' r =>
        cases r with
        | ok bs' =>
          have := store_step g cfg hfix addr w s hs.1 hs.2 bs'
            (fun r hr => by rw [hst] at hr; cases hr; rfl) (fun e he => by rw [hst] at he; cases he)
          rw [hst] at this
          exact this
        | error e =>
          have := store_step g cfg hfix addr w s hs.1 hs.2 []
            (fun r hr => by rw [hst] at hr; cases hr) (fun e he => rfl)
          rw [hst] at this
          exact this
  | ld addr w =>
    simp only
    obtain ⟨_, hlen, hkeep, hfresh⟩ := loadH_spec st.heap (fun _ => False) st.heap st.blocks addr w
      (heapRel_refl _ _)
    have hrd : ∀ x : Slice, x.arr < st.heap.length →
        BytesHeap.read (loadH st.heap st.blocks addr w).1 x = BytesHeap.read st.heap x :=
      fun x hx => read_congr (hkeep x.arr hx)
    have gen : ∀ (ld : List Slice) (mn : List (Slice × List UInt8)),
        (∀ c ∈ ld, c ∈ st.loaded ∨ ((loadH st.heap st.blocks addr w).2 = .ok (some c))) →
        (∀ m ∈ mn, m ∈ st.mon ∨ (((loadH st.heap st.blocks addr w).2 = .ok (some m.1)) ∧
          m.2 = BytesHeap.read (loadH st.heap st.blocks addr w).1 m.1)) →
        Good base { st with heap := (loadH st.heap st.blocks addr w).1, loaded := ld, mon := mn } := by
      intro ld mn hld hmn
      have hown : ∀ c, (loadH st.heap st.blocks addr w).2 = .ok (some c) → ¬ Owns st.blocks c.arr := by
        rintro c hc ⟨b, hb, hv, he⟩
        have h1 := (g.blocks b hb hv).2
        have h2 := (hfresh c hc).1
        omega
      refine ⟨Nat.le_trans g.base_le hlen, ?_, ?_, ?_⟩
      · intro b hb hv
        have := g.blocks b hb hv
        exact ⟨this.1, Nat.lt_of_lt_of_le this.2 hlen⟩
      · intro c hc
        rcases hld c hc with h1 | h1
        · have := g.loaded c h1
          exact ⟨Nat.lt_of_lt_of_le this.1 hlen, this.2⟩
        · have := hfresh c h1
          exact ⟨by show c.arr < (loadH st.heap st.blocks addr w).1.length; omega, hown c h1⟩
      · intro m hm
        rcases hmn m hm with h1 | ⟨h1, h2⟩
        · have := g.mon m h1
          exact ⟨(hrd m.1 this.2.1).trans this.1, Nat.lt_of_lt_of_le this.2.1 hlen, this.2.2⟩
        · have := hfresh m.1 h1
          exact ⟨h2.symm, by show m.1.arr < (loadH st.heap st.blocks addr w).1.length; omega,
            hown m.1 h1⟩
    cases hl : loadH st.heap st.blocks addr w with
    | mk h' r =>
      rw [hl] at gen
      cases r with
      | error e => exact gen st.loaded st.mon (fun c hc => Or.inl hc) (fun m hm => Or.inl hm)
      | ok o =>
        cases o with
        | none => exact gen st.loaded st.mon (fun c hc => Or.inl hc) (fun m hm => Or.inl hm)
        | some c =>
          refine gen (st.loaded ++ [c]) (watch h' c st.mon) ?_ ?_
          · intro x hx
            rcases List.mem_append.1 hx with h1 | h1
            · exact Or.inl h1
            · rw [List.mem_singleton] at h1; subst h1; exact Or.inr rfl
          · intro m hm
            unfold watch at hm
            rcases List.mem_append.1 hm with h1 | h1
            · exact Or.inl h1
            · rw [List.mem_singleton] at h1; subst h1; exact Or.inr ⟨rfl, rfl⟩

/-- one operation leaves every array the memory does not own untouched -/
theorem step_frame (cfg : Cfg) (hfix : cfg.fixF05 = true) {base : Nat} {st : HState} (g : Good base st)
    (op : HOp) (id : Nat) (hid : id < st.heap.length) (hno : ¬ Owns st.blocks id) :
    arrOf (stepH cfg st op).heap id = arrOf st.heap id := by
  unfold stepH stepA
  cases op with
  | st addr w c =>
    simp only
    cases resolve st c with
    | none => rfl
    | some s =>
      simp only
      obtain ⟨hr, _, _⟩ := storeConstH_spec cfg hfix st.heap (Owns st.blocks) st.heap st.blocks addr w s
        (heapRel_refl _ _) (good_blocksOk g)
      cases hst : storeConstH cfg st.heap st.blocks addr w s with
      | mk h' r =>
        rw [hst] at hr
        cases r <;> exact hr.2 id hid hno
  | ld addr w =>
    simp only
    obtain ⟨_, _, hkeep, _⟩ := loadH_spec st.heap (fun _ => False) st.heap st.blocks addr w
      (heapRel_refl _ _)
    cases hl : loadH st.heap st.blocks addr w with
    | mk h' r =>
      rw [hl] at hkeep
      cases r with
      | error e => exact hkeep id hid
      | ok o => cases o <;> exact hkeep id hid

theorem good_foldl (cfg : Cfg) (hfix : cfg.fixF05 = true) {base : Nat} : ∀ (ops : List HOp) (st : HState),
    Good base st → (∀ op ∈ ops, WfOp base op) → Good base (ops.foldl (stepH cfg) st) := by
  intro ops
  induction ops with
  | nil => intro st g _; exact g
  | cons op rest ih =>
    intro st g hw
    rw [List.foldl_cons]
    exact ih _ (good_step cfg hfix g op (hw op (List.mem_cons_self ..)))
      (fun o ho => hw o (List.mem_cons_of_mem _ ho))

theorem mem_watch_foldl (h0 : Heap) (input : List HBlock) : ∀ (acc : List (Slice × List UInt8))
    (m : Slice × List UInt8), m ∈ input.foldl (fun m b => watch h0 b.2 m) acc →
    m ∈ acc ∨ ∃ b ∈ input, m = (b.2, BytesHeap.read h0 b.2) := by
  induction input with
  | nil => intro acc m h; exact Or.inl h
  | cons x rest ih =>
    intro acc m h
    rw [List.foldl_cons] at h
    rcases ih _ m h with h1 | ⟨b, hb, he⟩
    · unfold watch at h1
      rcases List.mem_append.1 h1 with h2 | h2
      · exact Or.inl h2
      · rw [List.mem_singleton] at h2
        exact Or.inr ⟨x, List.mem_cons_self .., h2⟩
    · exact Or.inr ⟨b, List.mem_cons_of_mem _ hb, he⟩

theorem good_init (cfg : Cfg) (h0 : Heap) (input : List HBlock)
    (hin : ∀ b ∈ input, b.2.arr < h0.length) (bs : List HBlock)
    (hnew : (newBytesH cfg h0 input).2 = .ok bs) :
    Good h0.length { heap := (newBytesH cfg h0 input).1, blocks := bs, loaded := [],
                     mon := input.foldl (fun m b => watch h0 b.2 m) [] } := by
  obtain ⟨hr, hlen, hok⟩ := newBytesH_spec cfg h0 (fun _ => False) h0 input (heapRel_refl _ _)
  have hb := hok bs hnew
  refine ⟨hlen, ?_, (fun c hc => by cases hc), ?_⟩
  · intro b hb' hv
    have := hb b hb' hv
    rcases this.1 with h1 | h1
    · exact absurd h1 (fun hf => hf)
    · exact ⟨h1, this.2⟩
  · intro m hm
    rcases mem_watch_foldl h0 input [] m hm with h1 | ⟨b, hb', rfl⟩
    · cases h1
    · have hlt := hin b hb'
      refine ⟨read_congr (hr.2 b.2.arr hlt (fun hf => hf)), Nat.lt_of_lt_of_le hlt hlen, ?_⟩
      rintro ⟨x, hx, hv, he⟩
      have := hb x hx hv
      rcases this.1 with h1 | h1
      · exact h1
      · simp only at he; omega

/-- after any well-formed history on the repaired code every monitored slice still denotes the
bytes it denoted when it was handed over -/
theorem no_write_through (cfg : Cfg) (hfix : cfg.fixF05 = true) (h0 : Heap) (input : List HBlock)
    (ops : List HOp) (hin : ∀ b ∈ input, b.2.arr < h0.length) (hops : ∀ op ∈ ops, WfOp h0.length op)
    (st : HState) (hrun : runH cfg h0 input ops = some st) :
    ∀ m ∈ st.mon, BytesHeap.read st.heap m.1 = m.2 := by
  unfold runH at hrun
  simp only at hrun
  cases hnew : newBytesH cfg h0 input with
  | mk h1 r =>
    rw [hnew] at hrun
    cases r with
    | error e => cases hrun
    | ok bs =>
      simp only [Option.some.injEq] at hrun
      have g0 := good_init cfg h0 input hin bs (by rw [hnew])
      rw [hnew] at g0
      have := good_foldl cfg hfix ops _ g0 hops
      rw [hrun] at this
      exact fun m hm => (this.mon m hm).1

end Mltwist.Lemmas.BytesHeap
