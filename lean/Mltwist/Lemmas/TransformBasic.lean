import Mltwist.Lemmas.Expreval
import Mltwist.Model.Transform
import Mltwist.Spec.Checks
/-
Basic facts used by `Mltwist.Lemmas.Transform`: arithmetic of `trunc`, bounds of the
reference evaluator, semantics of width gadgets, `SetWidth`, `prune`, `stripSame`, `purge`.
-/
namespace Mltwist.Lemmas.Transform
open Mltwist

/-! ### arithmetic -/

theorem pow8_succ (n : Nat) : 2 ^ (8 * (n + 1)) = 256 * 2 ^ (8 * n) := by
  have : 8 * (n + 1) = 8 * n + 8 := by omega
  rw [this, Nat.pow_add]
  omega

theorem pow8_mono {a b : Nat} (h : a ≤ b) : 2 ^ (8 * a) ≤ 2 ^ (8 * b) :=
  Nat.pow_le_pow_right (by decide) (by omega)

theorem pow8_dvd {a b : Nat} (h : a ≤ b) : 2 ^ (8 * a) ∣ 2 ^ (8 * b) :=
  Nat.pow_dvd_pow 2 (by omega)

theorem trunc_lt (w x : Nat) : trunc w x < 2 ^ (8 * w) :=
  Nat.mod_lt _ (Nat.two_pow_pos _)

theorem trunc_of_lt {w x : Nat} (h : x < 2 ^ (8 * w)) : trunc w x = x :=
  Nat.mod_eq_of_lt h

theorem trunc_trunc_of_le {w x : Nat} (h : w ≤ x) (v : Nat) : trunc w (trunc x v) = trunc w v :=
  Nat.mod_mod_of_dvd v (pow8_dvd h)

theorem trunc_idem (w v : Nat) : trunc w (trunc w v) = trunc w v :=
  trunc_trunc_of_le (Nat.le_refl w) v

theorem trunc_zero (w : Nat) : trunc w 0 = 0 := Nat.zero_mod _

theorem leToNat_lt (bs : List UInt8) : leToNat bs < 2 ^ (8 * bs.length) := by
  induction bs with
  | nil => simp [leToNat]
  | cons b bs ih =>
    simp only [leToNat, List.length_cons]
    have hb : b.toNat < 256 := UInt8.toNat_lt b
    rw [pow8_succ]
    omega

theorem loadBytes_lt (mem : Nat → Nat) (w : Nat) : ∀ a, loadBytes mem a w < 2 ^ (8 * w) := by
  induction w with
  | zero => intro a; simp [loadBytes]
  | succ w ih =>
    intro a
    simp only [loadBytes]
    have h1 := ih (a + 1)
    have h2 : mem (a % 2 ^ 64) % 256 < 256 := Nat.mod_lt _ (by decide)
    rw [pow8_succ]
    omega

theorem evalBin_lt (op : BinOp) (w x y : Nat) (hx : x < 2 ^ (8 * w)) :
    evalBin op w x y < 2 ^ (8 * w) := by
  have hpos : 0 < 2 ^ (8 * w) := Nat.two_pow_pos _
  cases op <;> simp only [evalBin, nandW]
  · exact Nat.mod_lt _ hpos
  · split
    · exact hpos
    · exact Nat.mod_lt _ hpos
  · split
    · exact hpos
    · exact Nat.lt_of_le_of_lt (Nat.div_le_self _ _) hx
  · exact Nat.mod_lt _ hpos
  · split
    · omega
    · exact Nat.lt_of_le_of_lt (Nat.div_le_self _ _) hx
  · omega

/-- values stay below `2^(8*width)` -/
theorem eval_lt' (ρ : Env) (e : Expr) : e.eval ρ < 2 ^ (8 * e.width) := by
  cases e with
  | const bs => exact leToNat_lt bs
  | binary op a b w => exact evalBin_lt op w _ _ (trunc_lt _ _)
  | less a b t f w =>
    simp only [Expr.eval, Expr.width]
    split <;> exact trunc_lt _ _
  | memLoad k a w => exact loadBytes_lt _ _ _
  | regLoad k w => exact trunc_lt _ _

theorem trunc_eval_self (ρ : Env) (e : Expr) : trunc e.width (e.eval ρ) = e.eval ρ :=
  trunc_of_lt (eval_lt' ρ e)

/-! ### width gadgets -/

theorem isWidthGadget_binary {op : BinOp} {a b : Expr} {x : Nat}
    (h : isWidthGadget (.binary op a b x) = true) : op = .add ∧ b = .const [0] := by
  cases op <;> cases b <;> simp_all [isWidthGadget]

theorem isWidthGadget_gadget (a : Expr) (x : Nat) :
    isWidthGadget (.binary .add a (.const [0]) x) = true := by
  simp [isWidthGadget]

theorem gadget_eval (ρ : Env) (a : Expr) (x : Nat) :
    (Expr.binary .add a (.const [0]) x).eval ρ = trunc x (a.eval ρ) := by
  simp only [Expr.eval, evalBin, leToNat]
  have : trunc x ((0 : UInt8).toNat + 256 * 0) = 0 := trunc_zero x
  rw [this, Nat.add_zero]
  exact trunc_idem x _

theorem newWidthGadget_eval (ρ : Env) (a : Expr) (x : Nat) :
    (newWidthGadget a x).eval ρ = trunc x (a.eval ρ) := gadget_eval ρ a x

/-! ### `Expreval.setWidth` -/

theorem leToNat_append_zeros (bs : List UInt8) (n : Nat) :
    leToNat (bs ++ List.replicate n 0) = leToNat bs := by
  induction bs with
  | nil =>
    induction n with
    | zero => rfl
    | succ n ih =>
      simp only [List.nil_append] at ih
      simp [List.replicate_succ, leToNat, ih]
  | cons b bs ih => simp [leToNat, ih]

theorem leToNat_take (bs : List UInt8) : ∀ w, leToNat (bs.take w) = trunc w (leToNat bs) := by
  induction bs with
  | nil => intro w; simp [leToNat, trunc_zero]
  | cons b bs ih =>
    intro w
    cases w with
    | zero => simp [leToNat, trunc, Nat.mod_one]
    | succ w =>
      simp only [List.take_succ_cons, leToNat, ih w, trunc]
      rw [pow8_succ]
      have hb : b.toNat < 256 := UInt8.toNat_lt b
      have hpos : 0 < 2 ^ (8 * w) := Nat.two_pow_pos _
      generalize leToNat bs = v
      generalize 2 ^ (8 * w) = m at hpos
      -- (b + 256 v) % (256 m) = b + 256 (v % m)
      have h1 : (b.toNat + 256 * v) % (256 * m) = (b.toNat + 256 * v) % 256 + 256 * ((b.toNat + 256 * v) / 256 % m) :=
        Nat.mod_mul
      rw [h1]
      have h2 : (b.toNat + 256 * v) % 256 = b.toNat := by omega
      have h3 : (b.toNat + 256 * v) / 256 = v := by omega
      rw [h2, h3]

theorem exprevalSetWidth_length (bs : List UInt8) (w : Nat) :
    (Expreval.setWidth bs w).length = w := by
  unfold Expreval.setWidth
  split
  · simp; omega
  · simp; omega

theorem exprevalSetWidth_value (bs : List UInt8) (w : Nat) :
    leToNat (Expreval.setWidth bs w) = trunc w (leToNat bs) := by
  unfold Expreval.setWidth
  split
  · exact leToNat_take bs w
  · rename_i h
    rw [leToNat_append_zeros]
    have h1 := leToNat_lt bs
    have h2 : 2 ^ (8 * bs.length) ≤ 2 ^ (8 * w) := pow8_mono (by omega)
    exact (trunc_of_lt (by omega)).symm

/-! ### `SetWidth` -/

theorem setWidth_width' (e : Expr) (w : Nat) : (setWidth e w).width = w := by
  unfold setWidth
  split
  · assumption
  · split
    · exact exprevalSetWidth_length _ _
    · split <;> rfl
    · rfl

theorem setWidth_eval' (ρ : Env) (e : Expr) (w : Nat) :
    (setWidth e w).eval ρ = trunc w (e.eval ρ) := by
  unfold setWidth
  split
  · rename_i h
    rw [← h, trunc_eval_self]
  · split
    · exact exprevalSetWidth_value _ _
    · rename_i k we h1
      split
      · exact newWidthGadget_eval ρ _ w
      · rename_i h2
        simp only [Expr.width] at h1
        simp only [Expr.eval]
        exact (trunc_trunc_of_le (by omega) _).symm
    · exact newWidthGadget_eval ρ _ w

theorem setWidth_isConst (e : Expr) (w : Nat) (h : e.isConst = true) :
    (setWidth e w).isConst = true := by
  cases e <;> simp [Expr.isConst] at h
  unfold setWidth
  split <;> rfl

theorem setWidth_noLess (e : Expr) (w : Nat) (h : e.noLess = true) :
    (setWidth e w).noLess = true := by
  unfold setWidth
  split
  · exact h
  · split
    · rfl
    · split
      · simp [newWidthGadget, Expr.noLess, Expr.zero]
      · rfl
    · simp [newWidthGadget, Expr.noLess, Expr.zero, h]

theorem setWidth_noConstOp (e : Expr) (w : Nat) (h : e.noConstOp = true) :
    (setWidth e w).noConstOp = true := by
  unfold setWidth
  split
  · exact h
  · split
    · rfl
    · split
      · simp [newWidthGadget, Expr.noConstOp, Expr.zero, Expr.isConst]
      · rfl
    · rename_i hnc hnr
      cases e with
      | const bs => exact absurd rfl (hnc bs)
      | regLoad k we => exact absurd rfl (hnr k we)
      | _ =>
        simp only [newWidthGadget, Expr.zero]
        rw [Expr.noConstOp, h]
        simp [Expr.isConst, Expr.noConstOp]

/-! ### `dropDecision`, `prune`, `stripSame`, `purge` -/

theorem dropDecision_total' (w x a : Nat) : dropDecision w x a ≠ none := by
  unfold dropDecision
  split
  · simp
  · split
    · simp
    · split
      · simp
      · split
        · simp
        · omega

theorem dropDecision_true {w x a : Nat} (h : dropDecision w x a = some true) :
    a ≤ x ∨ (w ≤ x ∧ x ≤ a) := by
  unfold dropDecision at h
  split at h
  · simp at h
  · split at h
    · omega
    · split at h
      · omega
      · split at h
        · omega
        · simp at h

theorem prune_binary (op : BinOp) (a b : Expr) (x w : Nat) :
    prune (.binary op a b x) w =
      if isWidthGadget (.binary op a b x) && dropDecision w x a.width == some true
      then prune a w else .binary op a b x := by
  rw [prune]

theorem stripSame_binary (op : BinOp) (a b : Expr) (x : Nat) :
    stripSame (.binary op a b x) =
      if isWidthGadget (.binary op a b x) && a.width == x then stripSame a else .binary op a b x := by
  rw [stripSame]

/-- in a context of width `w`, pruning is invisible -/
theorem prune_eval (ρ : Env) (e : Expr) (w : Nat) :
    trunc w ((prune e w).eval ρ) = trunc w (e.eval ρ) := by
  induction e with
  | binary op a b x iha ihb =>
    rw [prune_binary]
    split
    · rename_i h
      simp only [Bool.and_eq_true, beq_iff_eq] at h
      obtain ⟨hg, hd⟩ := h
      obtain ⟨rfl, rfl⟩ := isWidthGadget_binary hg
      rw [iha, gadget_eval]
      have hlt := eval_lt' ρ a
      rcases dropDecision_true hd with h1 | ⟨h1, h2⟩
      · have : 2 ^ (8 * a.width) ≤ 2 ^ (8 * x) := pow8_mono h1
        rw [trunc_of_lt (w := x) (by omega)]
      · exact (trunc_trunc_of_le h1 _).symm
    · rfl
  | _ => simp [prune]

theorem stripSame_eval (ρ : Env) (e : Expr) : (stripSame e).eval ρ = e.eval ρ := by
  induction e with
  | binary op a b x iha ihb =>
    rw [stripSame_binary]
    split
    · rename_i h
      simp only [Bool.and_eq_true, beq_iff_eq] at h
      obtain ⟨hg, hd⟩ := h
      obtain ⟨rfl, rfl⟩ := isWidthGadget_binary hg
      subst hd
      rw [iha, gadget_eval, trunc_eval_self]
    · rfl
  | _ => simp [stripSame]

theorem stripSame_width (e : Expr) : (stripSame e).width = e.width := by
  induction e with
  | binary op a b x iha ihb =>
    rw [stripSame_binary]
    split
    · rename_i h
      simp only [Bool.and_eq_true, beq_iff_eq] at h
      rw [iha, h.2]; rfl
    · rfl
  | _ => simp [stripSame]

theorem purge_width' (e : Expr) : (purge e).width = e.width := by
  cases e <;> simp [purge, Expr.width]

theorem purge_eval' (ρ : Env) (e : Expr) : (purge e).eval ρ = e.eval ρ := by
  induction e with
  | binary op a b w iha ihb =>
    simp only [purge, Expr.eval, prune_eval, iha, ihb]
  | less a b t f w iha ihb iht ihf =>
    simp only [purge, Expr.eval, prune_eval, iha, ihb, iht, ihf]
  | memLoad k a w iha =>
    simp only [purge, Expr.eval, stripSame_eval, iha]
  | _ => simp [purge]

end Mltwist.Lemmas.Transform
