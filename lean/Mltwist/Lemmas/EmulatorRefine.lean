import Mltwist.Lemmas.EmulatorSound
import Mltwist.Lemmas.RiscvLift
/-
Emulator (C03), part 12: composition with C01 (`lift_correct`) and C09 (`constFold_eval`): the
refinement step.  If the emulator state (with the provider) represents the reference state `σ` and the
instruction at `σ.pc` is the lifting of the word `word` by the table entry `e`, then `Step` succeeds and
the new emulator state represents `Spec.Rv.exec 64 e.name word σ`.
-/
namespace Mltwist.Lemmas.Emulator
open Mltwist Mltwist.State Mltwist.Overlay Mltwist.Emulator Mltwist.Riscv
open Mltwist.Spec.Rv Mltwist.Spec.Lift
open Mltwist.Lemmas.RiscvLift (LiftOK xName_ne_ipKey csrName_ne_ipKey)

/-! ### constant folding of the effects does not change their meaning (C09) -/

theorem applyEffect_fold (pre cur : Env) (ef : Effect) (hw : Effect.wfE ef) :
    applyEffect pre cur (Effect.apply constFold ef) = applyEffect pre cur ef := by
  cases ef with
  | regStore v k w =>
    simp only [Effect.apply, applyEffect, Lemmas.Transform.constFold_eval pre v hw]
  | memStore v k a w =>
    simp only [Effect.apply, applyEffect, Lemmas.Transform.constFold_eval pre v hw.1,
      Lemmas.Transform.constFold_eval pre a hw.2]

theorem applyEffects_fold (ρ : Env) : ∀ (efs : List Effect) (cur : Env), (∀ ef ∈ efs, Effect.wfE ef) →
    (efs.map (Effect.apply constFold)).foldl (applyEffect ρ) cur = efs.foldl (applyEffect ρ) cur
  | [], _, _ => rfl
  | ef :: efs, cur, h => by
    simp only [List.map_cons, List.foldl_cons, applyEffect_fold ρ cur ef (h ef (List.mem_cons_self ..))]
    exact applyEffects_fold ρ efs _ (fun x hx => h x (List.mem_cons_of_mem _ hx))

theorem ipStep_fold (ρ : Env) (ip : Nat) (ef : Effect) (hw : Effect.wfE ef) :
    ipStep ρ ip (Effect.apply constFold ef) = ipStep ρ ip ef := by
  cases ef with
  | regStore v k w => simp only [Effect.apply, ipStep, Lemmas.Transform.constFold_eval ρ v hw]
  | memStore v k a w => rfl

theorem nextIp_fold (ρ : Env) : ∀ (efs : List Effect) (ip : Nat), (∀ ef ∈ efs, Effect.wfE ef) →
    (efs.map (Effect.apply constFold)).foldl (ipStep ρ) ip = efs.foldl (ipStep ρ) ip
  | [], _, _ => rfl
  | ef :: efs, ip, h => by
    simp only [List.map_cons, List.foldl_cons, ipStep_fold ρ ip ef (h ef (List.mem_cons_self ..))]
    exact nextIp_fold ρ efs _ (fun x hx => h x (List.mem_cons_of_mem _ hx))

/-! ### instructions lifted by the front end -/

/-- the instruction `ins` of the code view is the lifting (C21: `parser.newInstruction`) of the 32-bit word
`word` at `ins.addr` by the table entry `e` of RV64IMA -/
structure LiftedFrom (ins : Emulator.Ins) (e : Entry) (word : Nat) : Prop where
  mem : e ∈ instructionSet 64 true true
  word_lt : word < 2 ^ 32
  matches_ : e.matchesWord word = true
  effects : ins.effects = (e.validEffects ⟨ins.addr, word⟩).map (Effect.apply constFold)
  len : ins.len = 4

theorem wordOf_lt (bs : List UInt8) : wordOf bs < 2 ^ 32 := by
  unfold wordOf
  have h := Lemmas.Bytes.leToNat_lt_pow256 (bs.take 4)
  have h2 : (bs.take 4).length ≤ 4 := by simp [List.length_take]; omega
  have : 256 ^ (bs.take 4).length ≤ 256 ^ 4 := Nat.pow_le_pow_right (by decide) h2
  have h4 : (256 : Nat) ^ 4 = 2 ^ 32 := by decide
  omega

/-- what `liftIns` (the model of `Parser.Parse` + `newInstruction`) returns is `LiftedFrom` the word of
the first four bytes -/
theorem liftedFrom_of_liftIns {addr : Nat} {bs : List UInt8} {ins : Emulator.Ins} (h : liftIns addr bs = some ins) :
    ∃ e, LiftedFrom ins e (wordOf bs) ∧ ins.addr = addr := by
  unfold liftIns at h
  cases hp : Riscv.parse (instructionSet 64 true true) addr bs with
  | short => rw [hp] at h; cases h
  | unknown => rw [hp] at h; cases h
  | ok e i =>
    rw [hp] at h
    cases h
    unfold Riscv.parse at hp
    by_cases hlen : bs.length < 4
    · rw [if_pos hlen] at hp; cases hp
    · rw [if_neg hlen] at hp
      cases hf : (instructionSet 64 true true).find? (fun e => patMatches e.bytes e.mask bs) with
      | none => rw [hf] at hp; cases hp
      | some e' =>
        rw [hf] at hp
        cases hp
        have hmem := List.mem_of_find?_eq_some hf
        have hpm := List.find?_some hf
        have hshape := (Lemmas.RiscvDecode.shapeB_iff _).1
          (Lemmas.RiscvDecode.rowFacts 64 (Or.inr rfl) true true).2.2.1 e hmem
        have hmw : e.matchesWord (wordOf bs) = true := by
          rw [← Lemmas.RiscvDecode.patMatches_iff_word e bs hshape.1 hshape.2 (by omega)]
          exact hpm
        exact ⟨e, ⟨hmem, wordOf_lt bs, hmw, rfl, rfl⟩, rfl⟩

/-! ### the refinement relation -/

/-- `R p code σ s`: the emulator state `s` and the not-yet-asked answers of the provider `p` together
represent the reference machine state `σ`: some valuation `ρ` of the IR's registers and memories
represents `σ` (`Spec.Lift.Rel`) and is represented by `s` + `p` (`Agree`); the emulator's instruction
pointer is `σ.pc`; the emulator can step -/
structure R (p : Provider) (code : CodeView) (σ : St) (s : State) : Prop where
  ready : Ready s
  wf : St.WF 64 σ
  ip : ∃ c, assocGet Emulator.ipKey s.regs = some (.const c) ∧ leToNat c = σ.pc
  rep : ∃ ρ, Rel ρ σ ∧ Agree p code ρ s

theorem rel_withIp {ρ : Env} {σ : St} (h : Rel ρ σ) (v : Nat) : Rel (withIp ρ v) σ := by
  refine ⟨fun n h1 h2 => ?_, fun n hn => ?_, h.mem⟩
  · show (if xName n = Emulator.ipKey then v else ρ.reg (xName n)) = _
    rw [if_neg (show ¬ xName n = Emulator.ipKey from xName_ne_ipKey n)]
    exact h.x n h1 h2
  · show (if csrName n = Emulator.ipKey then v else ρ.reg (csrName n)) = _
    rw [if_neg (show ¬ csrName n = Emulator.ipKey from csrName_ne_ipKey n)]
    exact h.csr n hn

theorem lookup_addr {code : CodeView} {ip : Nat} {ins : Emulator.Ins} (h : code.lookup ip = some ins) : ins.addr = ip := by
  have := List.find?_some h
  simpa using this

/-- THE REFINEMENT STEP.  From related states, at an instruction lifted from `word` by `e` (well-formed
before and after folding), with all memory accesses of the reference inside the address space
(`noWrap`) and of the emulator inside the domain of C14 (`StepDom`): the reference executes, the
emulator's `Step` succeeds — no error, no panic — and the resulting states are related again. -/
theorem refine_step (p : Provider) (code : CodeView) {σ : St} {s : State} {ins : Emulator.Ins} {e : Entry} {word : Nat}
    (hR : R p code σ s) (hl : code.lookup σ.pc = some ins) (hlift : LiftedFrom ins e word)
    (hwRaw : ∀ ef ∈ e.validEffects ⟨ins.addr, word⟩, Effect.wfE ef) (hw : InsWF ins)
    (hnw : noWrap 64 e.name word σ = true) (hd : StepDom p code s ins) :
    ∃ σ', exec 64 e.name word σ = some σ' ∧
      ∃ s' rep log, step p code s = .ok s' rep log ∧ R p code σ' s' := by
  obtain ⟨c, hc, hcv⟩ := hR.ip
  obtain ⟨ρ, hrel, hagree⟩ := hR.rep
  have hpc : leToNat c % 2 ^ 64 = σ.pc := by rw [hcv]; exact Nat.mod_eq_of_lt hR.wf.pc
  have hl' : code.lookup (leToNat c % 2 ^ 64) = some ins := by rw [hpc]; exact hl
  have haddr : ins.addr = σ.pc := lookup_addr hl
  -- C01
  obtain ⟨σ', hexec, hrel', hnext, hwf'⟩ :=
    Lemmas.RiscvLift.lift_correct 64 (Or.inr rfl) true true e hlift.mem word σ ρ hlift.word_lt hlift.matches_
      hR.wf hrel hnw
  -- the emulator
  obtain ⟨s1, s', rep, log, hstep, hready, _, _, _, _, _, hag', c', hc', hcv'⟩ :=
    step_sound p code hR.ready hagree hc hl' hw hd
  refine ⟨σ', hexec, s', rep, log, hstep, ⟨hready, hwf', ?_, ?_⟩⟩
  · refine ⟨c', hc', ?_⟩
    rw [hcv', nextIp_eq, hlift.effects, nextIp_fold ρ _ _ (by rw [haddr] at hwRaw ⊢; exact hwRaw), ← nextIp_eq]
    have hend : ins.end_ = (σ.pc + 4) % 2 ^ 64 := by unfold Ins.end_; rw [haddr, hlift.len]
    rw [hend, haddr]
    exact hnext
  · refine ⟨_, ?_, hag'⟩
    apply rel_withIp
    unfold Env.applyEffects
    rw [hlift.effects, applyEffects_fold ρ _ _ hwRaw, haddr]
    exact hrel'

/-- no instruction of the code starts at `σ.pc`: the emulator's `Step` returns the error -/
theorem refine_err (p : Provider) (code : CodeView) {σ : St} {s : State} (hR : R p code σ s)
    (hl : code.lookup σ.pc = none) : step p code s = .err := by
  obtain ⟨c, hc, hcv⟩ := hR.ip
  have hpc : leToNat c % 2 ^ 64 = σ.pc := by rw [hcv]; exact Nat.mod_eq_of_lt hR.wf.pc
  unfold step
  rw [mustIP_spec hc, hpc]
  simp only [hl]

/-! ### runs -/

/-- `n` steps of the reference machine along the code: each step executes the instruction of the code that
starts at the program counter, as the table entry and word it was lifted from say -/
inductive RefSteps (code : CodeView) : Nat → St → St → Prop where
  | zero (σ : St) : RefSteps code 0 σ σ
  | succ {n : Nat} {σ σ' σ'' : St} {ins : Emulator.Ins} {e : Entry} {word : Nat} :
      code.lookup σ.pc = some ins → LiftedFrom ins e word → exec 64 e.name word σ = some σ' →
      RefSteps code n σ' σ'' → RefSteps code (n + 1) σ σ''

/-- the side conditions of the first `n` joint steps: the lifted effects are well formed before and after
constant folding (a fact about the tables), the reference's memory access does not wrap (`noWrap`), the
emulator's memory accesses lie in the domain of C14 -/
def Scope (p : Provider) (code : CodeView) : Nat → St → State → Prop
  | 0, _, _ => True
  | n + 1, σ, s => ∀ ins e word, code.lookup σ.pc = some ins → LiftedFrom ins e word →
      (∀ ef ∈ e.validEffects ⟨ins.addr, word⟩, Effect.wfE ef) ∧ InsWF ins ∧
      noWrap 64 e.name word σ = true ∧ StepDom p code s ins ∧
      ∀ σ' s' rep log, exec 64 e.name word σ = some σ' → step p code s = .ok s' rep log →
        Scope p code n σ' s'

/-- the state after `n` successful steps -/
def stateAfter (p : Provider) (code : CodeView) : Nat → State → Option State
  | 0, s => some s
  | n + 1, s =>
    match step p code s with
    | .ok s' _ _ => stateAfter p code n s'
    | _ => none

/-- REFINEMENT, after every number of steps: whenever the reference machine makes `n` steps along the
code, the emulator makes `n` successful steps (no error, no panic) and the states are related again -/
theorem refine_run (p : Provider) (code : CodeView) : ∀ (n : Nat) (σ σn : St) (s : State), R p code σ s →
    Scope p code n σ s → RefSteps code n σ σn → ∃ sn, stateAfter p code n s = some sn ∧ R p code σn sn
  | 0, σ, σn, s, hR, _, hrun => by
    cases hrun
    exact ⟨s, rfl, hR⟩
  | n + 1, σ, σn, s, hR, hsc, hrun => by
    cases hrun with
    | @succ _ _ σ' _ ins e word hl hlift hexec hrest =>
      obtain ⟨h1, h2, h3, h4, h5⟩ := hsc ins e word hl hlift
      obtain ⟨σ2, hexec2, s', rep, log, hstep, hR'⟩ := refine_step p code hR hl hlift h1 h2 h3 h4
      rw [hexec] at hexec2
      cases hexec2
      obtain ⟨sn, g1, g2⟩ := refine_run p code n σ' σn s' hR' (h5 σ' s' rep log hexec hstep) hrest
      refine ⟨sn, ?_, g2⟩
      show (match step p code s with | .ok s' _ _ => stateAfter p code n s' | _ => none) = _
      rw [hstep]
      exact g1

end Mltwist.Lemmas.Emulator
