import Mltwist.Model.Format
import Mltwist.Spec.Format
/-
Proofs for C29 (help-text wrapping).  Core Lean only.

Structure: `cutLine_cases` describes one line cut for `chars = n ≥ 1`; `Lines n rest bs` is the
resulting decomposition of the remaining text into line bodies; `formatLoop_ok` shows that the
model's loop terminates with exactly the rendering of such a decomposition; the clauses of the
specification are then proved by induction on `Lines`.
-/
namespace Mltwist.Lemmas.Format
open Mltwist.Format
open Mltwist.Spec.Format (splitLines splitLinesAux words wordsAux noSpace takeWord splitOK pieces
  WordsKept LineOK body Wrapped Pre)

theorem space_eq : Spec.Format.space = space := rfl
theorem tab_eq : Spec.Format.tab = tab := rfl
theorem nl_eq : Spec.Format.nl = nl := rfl

/-! ### findWordDelimSpace -/

theorem findFrom_spec (s : Str) (i : Nat) :
    (findFrom s i = -1 ∧ ∀ j, 1 ≤ j → j ≤ i → s.getD j 0 ≠ space) ∨
    (∃ k : Nat, findFrom s i = (k : Int) ∧ 1 ≤ k ∧ k ≤ i ∧ s.getD k 0 = space) := by
  induction i with
  | zero => left; exact ⟨rfl, fun j h1 h2 => by omega⟩
  | succ i ih =>
    unfold findFrom
    by_cases h : s.getD (i + 1) 0 = space
    · right; exact ⟨i + 1, by rw [if_pos h], by omega, by omega, h⟩
    · simp only [h, if_false]
      rcases ih with ⟨h1, h2⟩ | ⟨k, h1, h2, h3, h4⟩
      · left
        refine ⟨h1, fun j hj1 hj2 => ?_⟩
        by_cases hj : j = i + 1
        · subst hj; exact h
        · exact h2 j hj1 (by omega)
      · right; exact ⟨k, h1, h2, by omega, h4⟩

/-- `findWordDelimSpace` answers `-1` or an index in `1 … len(s)-1` holding a space (the Go doc comment) -/
theorem findWordDelimSpace_spec (s : Str) :
    (findWordDelimSpace s = -1 ∧ ∀ j, 1 ≤ j → j ≤ s.length - 1 → s.getD j 0 ≠ space) ∨
    (∃ k : Nat, findWordDelimSpace s = (k : Int) ∧ 1 ≤ k ∧ k ≤ s.length - 1 ∧ s.getD k 0 = space) :=
  findFrom_spec s (s.length - 1)

/-! ### one line cut -/

/-- how the cut position `k` of a round was chosen -/
def Cut (n : Nat) (rest : Str) (k : Nat) : Prop :=
  (rest.length ≤ n ∧ k = rest.length) ∨
  (n < rest.length ∧ rest.getD k 0 = space) ∨
  (n < rest.length ∧ k = n ∧ ∀ j, 1 ≤ j → j ≤ n → rest.getD j 0 ≠ space)

theorem getD_take (l : Str) (m j : Nat) (h : j < m) : (l.take m).getD j 0 = l.getD j 0 := by
  simp [List.getD_eq_getElem?_getD, h]

theorem cutLine_cases (n : Nat) (hn : 1 ≤ n) (rest : Str) (hne : rest ≠ []) :
    ∃ k, 1 ≤ k ∧ k ≤ n ∧ k ≤ rest.length ∧ Cut n rest k ∧ cutLine (n : Int) rest = some (rest.take k) := by
  have hpos : 1 ≤ rest.length := by
    cases rest with
    | nil => exact absurd rfl hne
    | cons _ _ => simp
  unfold cutLine
  by_cases hlen : (rest.length : Int) > (n : Int)
  · have hlen' : n < rest.length := by omega
    have h1 : ¬ ((n : Int) + 1 < 0) := by omega
    have h2 : ((n : Int) + 1).toNat = n + 1 := by omega
    simp only [hlen, if_true, h1, if_false, h2]
    have htl : (rest.take (n + 1)).length - 1 = n := by simp [List.length_take]; omega
    rcases findWordDelimSpace_spec (rest.take (n + 1)) with ⟨h3, h4⟩ | ⟨k, h3, h4, h5, h6⟩
    · refine ⟨n, hn, Nat.le_refl _, by omega, Or.inr (Or.inr ⟨hlen', rfl, fun j hj1 hj2 => ?_⟩), ?_⟩
      · have := h4 j hj1 (by omega)
        rwa [getD_take _ _ _ (by omega)] at this
      · simp [h3]
    · rw [htl] at h5
      refine ⟨k, h4, h5, by omega, Or.inr (Or.inl ⟨hlen', ?_⟩), ?_⟩
      · rwa [getD_take _ _ _ (by omega)] at h6
      · have : ¬ ((k : Int) = -1) := by omega
        have hk : ¬ ((k : Int) < 0) := by omega
        simp [h3, this]
  · have hlen' : rest.length ≤ n := by omega
    refine ⟨rest.length, hpos, hlen', Nat.le_refl _, Or.inl ⟨hlen', rfl⟩, ?_⟩
    simp [hlen]

/-! ### the loop -/

/-- the bytes written for the line bodies `bs` -/
def render (tabs : Nat) (bs : List Str) : Str :=
  (bs.map fun b => List.replicate tabs tab ++ b ++ [nl]).flatten

/-- what remains after a line of `k` bytes: `i += len(str)`, then the space-skipping loop -/
def after (rest : Str) (k : Nat) : Str := (rest.drop k).dropWhile (· == space)

/-- decomposition of the remaining text into line bodies by successive cuts -/
inductive Lines (n : Nat) : Str → List Str → Prop
  | nil : Lines n [] []
  | step (rest : Str) (k : Nat) (bs : List Str) : rest ≠ [] → 1 ≤ k → k ≤ n → k ≤ rest.length →
      Cut n rest k → Lines n (after rest k) bs → Lines n rest (rest.take k :: bs)

theorem length_dropWhile_le (p : UInt8 → Bool) (l : Str) : (l.dropWhile p).length ≤ l.length :=
  (List.dropWhile_sublist p).length_le

theorem length_after_le (rest : Str) (k : Nat) : (after rest k).length ≤ rest.length - k := by
  unfold after
  have := length_dropWhile_le (· == space) (rest.drop k)
  simpa using this

/-- the fuel never runs out — for every input, also outside the precondition: a round either ends the
loop, panics, is recognised as repeating for ever, or consumes at least one byte -/
theorem formatLoop_ne_outOfFuel (indent chars : Int) :
    ∀ (fuel : Nat) (rest sb : Str), rest.length < fuel →
      formatLoop indent chars fuel rest sb ≠ .outOfFuel := by
  intro fuel
  induction fuel with
  | zero => intro rest sb h; omega
  | succ fuel ih =>
    intro rest sb h
    unfold formatLoop
    by_cases h0 : rest.length = 0
    · simp [h0]
    · simp only [h0, if_false]
      cases hc : cutLine chars rest with
      | none => simp
      | some str =>
        simp only
        split
        · simp
        · rename_i hne
          apply ih
          have h1 := length_after_le rest str.length
          unfold after at h1
          omega

theorem format_ne_outOfFuel (s : Str) (indent width : Int) : format s indent width ≠ .outOfFuel :=
  formatLoop_ne_outOfFuel _ _ _ _ _ (Nat.lt_succ_self _)

/-- for `chars = n ≥ 1` the loop ends normally and writes the rendering of a `Lines` decomposition -/
theorem formatLoop_ok (indent : Int) (n : Nat) (hn : 1 ≤ n) :
    ∀ (fuel : Nat) (rest sb : Str), rest.length < fuel →
      ∃ bs, Lines n rest bs ∧
        formatLoop indent (n : Int) fuel rest sb = .ok (sb ++ render indent.toNat bs) := by
  intro fuel
  induction fuel with
  | zero => intro rest sb h; omega
  | succ fuel ih =>
    intro rest sb h
    unfold formatLoop
    by_cases h0 : rest.length = 0
    · have : rest = [] := List.eq_nil_of_length_eq_zero h0
      subst this
      exact ⟨[], Lines.nil, by simp [render]⟩
    · have hne : rest ≠ [] := fun e => h0 (by simp [e])
      obtain ⟨k, hk1, hk2, hk3, hcut, hc⟩ := cutLine_cases n hn rest hne
      have hlen : (rest.take k).length = k := by simp [List.length_take]; omega
      have hal := length_after_le rest k
      obtain ⟨bs, hl, hf⟩ := ih (after rest k) (sb ++ List.replicate indent.toNat tab ++ rest.take k ++ [nl])
        (by omega)
      refine ⟨rest.take k :: bs, Lines.step rest k bs hne hk1 hk2 hk3 hcut hl, ?_⟩
      simp only [h0, if_false, hc, hlen]
      have hne' : ¬ (List.dropWhile (fun x => x == space) (List.drop k rest)).length = rest.length := by
        unfold after at hal; omega
      simp only [hne', if_false]
      unfold after at hf
      rw [hf]
      simp [render, List.append_assoc]

/-! ### precondition and its preservation -/

/-- the text (or what remains of it) does not start with a space and contains no newline -/
def Good (rest : Str) : Prop := rest.head? ≠ some space ∧ nl ∉ rest

theorem head?_dropWhile_space (l : Str) : (l.dropWhile (· == space)).head? ≠ some space := by
  induction l with
  | nil => simp
  | cons c cs ih =>
    by_cases h : c = space
    · simpa [List.dropWhile_cons, h] using ih
    · simp [h]

theorem good_after (rest : Str) (k : Nat) (h : Good rest) : Good (after rest k) := by
  refine ⟨head?_dropWhile_space _, fun hm => h.2 ?_⟩
  exact List.mem_of_mem_drop ((List.dropWhile_sublist _).subset hm)

/-! ### line bodies -/

theorem lines_bodies (n : Nat) (rest : Str) (bs : List Str) (hl : Lines n rest bs) (hg : Good rest) :
    ∀ b ∈ bs, 1 ≤ b.length ∧ b.length ≤ n ∧ nl ∉ b ∧ b.head? ≠ some space := by
  induction hl with
  | nil => intro b hb; cases hb
  | step rest k bs hne hk1 hk2 hk3 hcut _ ih =>
    intro b hb
    rcases List.mem_cons.1 hb with rfl | hb
    · have hlen : (rest.take k).length = k := by simp [List.length_take]; omega
      refine ⟨by omega, by omega, fun hm => hg.2 (List.mem_of_mem_take hm), ?_⟩
      cases rest with
      | nil => exact absurd rfl hne
      | cons c cs =>
        cases k with
        | zero => omega
        | succ k => simpa using hg.1
    · exact ih (good_after _ _ hg) b hb

/-! ### all non-space bytes, in order -/

theorem noSpace_append (a b : Str) : noSpace (a ++ b) = noSpace a ++ noSpace b := by
  simp [noSpace]

theorem noSpace_dropWhile (l : Str) : noSpace (l.dropWhile (· == space)) = noSpace l := by
  induction l with
  | nil => rfl
  | cons c cs ih =>
    by_cases h : c = space
    · subst h
      simpa [List.dropWhile_cons, noSpace, space_eq] using ih
    · simp [h]

theorem noSpace_after (rest : Str) (k : Nat) :
    noSpace (rest.take k) ++ noSpace (after rest k) = noSpace rest := by
  unfold after
  rw [noSpace_dropWhile, ← noSpace_append, List.take_append_drop]

theorem lines_content (n : Nat) (rest : Str) (bs : List Str) (hl : Lines n rest bs) :
    noSpace bs.flatten = noSpace rest := by
  induction hl with
  | nil => rfl
  | step rest k bs _ _ _ _ _ _ ih =>
    rw [List.flatten_cons, noSpace_append, ih, noSpace_after]

/-! ### splitting the output into lines -/

theorem splitLinesAux_line (l : Str) (hl : nl ∉ l) (r cur : Str) :
    splitLinesAux (l ++ nl :: r) cur = (splitLinesAux r []).map ((cur ++ l) :: ·) := by
  induction l generalizing cur with
  | nil => simp [splitLinesAux, nl_eq]
  | cons c cs ih =>
    have hc : c ≠ nl := fun e => hl (by simp [e])
    have hcs : nl ∉ cs := fun e => hl (by simp [e])
    simp only [List.cons_append, splitLinesAux, nl_eq, hc, if_false]
    rw [ih hcs]
    simp

theorem splitLines_render (tabs : Nat) (bs : List Str) (h : ∀ b ∈ bs, nl ∉ b) :
    splitLines (render tabs bs) = some (bs.map (List.replicate tabs tab ++ ·)) := by
  unfold splitLines
  induction bs with
  | nil => simp [render, splitLinesAux]
  | cons b bs ih =>
    have hb : nl ∉ List.replicate tabs tab ++ b := by
      intro hm
      rcases List.mem_append.1 hm with hm | hm
      · have := List.eq_of_mem_replicate hm
        exact absurd this (by decide)
      · exact h b (by simp) hm
    have ih' := ih (fun b' hb' => h b' (by simp [hb']))
    have : render tabs (b :: bs) = (List.replicate tabs tab ++ b) ++ nl :: render tabs bs := by
      simp [render, List.append_assoc]
    rw [this, splitLinesAux_line _ hb, ih']
    simp

theorem lineOK_tabs (tabs n : Nat) (b : Str) (h1 : 1 ≤ b.length) (h2 : b.length ≤ n) :
    LineOK tabs n (List.replicate tabs tab ++ b) := by
  unfold LineOK
  have e1 : (List.replicate tabs tab ++ b).take tabs = List.replicate tabs tab :=
    List.take_left' (by simp)
  have e2 : (List.replicate tabs tab ++ b).drop tabs = b := List.drop_left' (by simp)
  rw [e1, e2, tab_eq]
  exact ⟨rfl, h1, h2⟩

theorem body_tabs (tabs : Nat) (b : Str) : body tabs (List.replicate tabs tab ++ b) = b := by
  unfold body
  exact List.drop_left' (by simp)

theorem map_body_tabs (tabs : Nat) (bs : List Str) :
    (bs.map (List.replicate tabs tab ++ ·)).map (body tabs) = bs := by
  induction bs with
  | nil => rfl
  | cons b bs ih => simp only [List.map_cons, body_tabs, ih]

/-! ### words -/

theorem wordsAux_append_space (a b cur : Str) :
    wordsAux (a ++ space :: b) cur = wordsAux a cur ++ words b := by
  induction a generalizing cur with
  | nil =>
    simp only [List.nil_append, wordsAux, space_eq, if_true, words]
    split <;> simp
  | cons c cs ih =>
    simp only [List.cons_append, wordsAux]
    split
    · split
      · rw [ih]
      · rw [ih]; simp
    · rw [ih]

theorem words_append_space (a b : Str) : words (a ++ space :: b) = words a ++ words b :=
  wordsAux_append_space a b []

theorem wordsAux_nonspace (w : Str) (hw : ∀ c ∈ w, c ≠ space) (b cur : Str) :
    wordsAux (w ++ b) cur = wordsAux b (cur ++ w) := by
  induction w generalizing cur with
  | nil => simp
  | cons c cs ih =>
    have hc : c ≠ Spec.Format.space := hw c (by simp)
    simp only [List.cons_append, wordsAux, hc, if_false]
    rw [ih (fun c' hc' => hw c' (by simp [hc']))]
    simp

theorem words_nonspace (w : Str) (hw : ∀ c ∈ w, c ≠ space) (hne : w ≠ []) : words w = [w] := by
  have := wordsAux_nonspace w hw [] []
  simp only [List.append_nil, List.nil_append] at this
  unfold words
  rw [this]
  simp [wordsAux, hne]

theorem words_dropWhile (l : Str) : words (l.dropWhile (· == space)) = words l := by
  induction l with
  | nil => rfl
  | cons c cs ih =>
    by_cases h : c = space
    · subst h
      simp only [List.dropWhile_cons, beq_self_eq_true, if_true]
      rw [ih]
      simp [words, wordsAux, space_eq]
    · simp [h]

/-- a text starting with a non-space byte: its first word continues whatever word is being read -/
theorem wordsAux_cons_nonspace (b : Str) : ∀ (c : UInt8), c ≠ space →
    ∃ (w : Str) (ws : List Str), ∀ cur, wordsAux (c :: b) cur = (cur ++ c :: w) :: ws := by
  induction b with
  | nil =>
    intro c hc
    refine ⟨[], [], fun cur => ?_⟩
    have hc' : c ≠ Spec.Format.space := hc
    simp [wordsAux, hc']
  | cons d b ih =>
    intro c hc
    have hc' : c ≠ Spec.Format.space := hc
    by_cases hd : d = space
    · subst hd
      refine ⟨[], words b, fun cur => ?_⟩
      simp [wordsAux, hc, space_eq, words]
    · obtain ⟨w, ws, h⟩ := ih d hd
      refine ⟨d :: w, ws, fun cur => ?_⟩
      have := h (cur ++ [c])
      simp only [wordsAux, hc', if_false]
      simp only [wordsAux] at this
      rw [this]
      simp

/-! ### the executable word check -/

theorem splitOK_append (n : Nat) (ws1 ws2 ps2 : List Str) :
    splitOK n (ws1 ++ ws2) (ws1 ++ ps2) = splitOK n ws2 ps2 := by
  induction ws1 with
  | nil => rfl
  | cons w ws ih => simp [splitOK, takeWord, ih]

theorem splitOK_glue (n : Nat) (p v : Str) (ws ps : List Str) (hp : p ≠ []) (hv : v ≠ [])
    (h : splitOK n (v :: ws) ps = true) (hlen : n < (p ++ v).length) :
    splitOK n ((p ++ v) :: ws) (p :: ps) = true := by
  have h1 : ¬ (p = p ++ v) := by
    intro e
    have : (p ++ v).length = p.length := by rw [← e]
    have : v.length = 0 := by rw [List.length_append] at this; omega
    exact hv (List.eq_nil_of_length_eq_zero this)
  have hvl : 0 < v.length := List.length_pos_iff.2 hv
  have h2 : p ≠ [] ∧ p.length < (p ++ v).length ∧ (p ++ v).take p.length = p :=
    ⟨hp, by rw [List.length_append]; omega, List.take_left' rfl⟩
  have h3 : (p ++ v).drop p.length = v := List.drop_left' rfl
  unfold splitOK at h ⊢
  unfold takeWord
  rw [if_neg h1, if_pos h2, h3]
  cases ht : takeWord v ps with
  | none => rw [ht] at h; simp at h
  | some mr =>
    obtain ⟨m, r⟩ := mr
    rw [ht] at h
    simp only [Option.map_some]
    simp only [Bool.and_eq_true] at h ⊢
    refine ⟨?_, h.2⟩
    rw [List.length_append] at hlen
    simp [hlen]

/-! ### a word is split only if it is longer than the line -/

theorem getD_eq_getElem (l : Str) (k : Nat) (h : k < l.length) : l.getD k 0 = l[k] := by
  simp [List.getD_eq_getElem?_getD, h]

theorem drop_of_getD (l : Str) (k : Nat) (h : k < l.length) :
    l.drop k = l.getD k 0 :: l.drop (k + 1) := by
  rw [getD_eq_getElem l k h]
  exact List.drop_eq_getElem_cons h

theorem take_nonspace (l : Str) (n : Nat) (hn : n < l.length) (hh : l.head? ≠ some space)
    (h : ∀ j, 1 ≤ j → j ≤ n → l.getD j 0 ≠ space) : ∀ c ∈ l.take n, c ≠ space := by
  intro c hc
  obtain ⟨i, hi, rfl⟩ := List.getElem_of_mem hc
  have hi' : i < n := by
    have := hi
    rw [List.length_take] at this
    omega
  rw [List.getElem_take]
  cases i with
  | zero =>
    intro e
    apply hh
    cases l with
    | nil => simp at hn
    | cons a as => simp at e; simp [e]
  | succ i =>
    have := h (i + 1) (by omega) (by omega)
    rwa [getD_eq_getElem l (i + 1) (by omega)] at this

theorem lines_words (n : Nat) (rest : Str) (bs : List Str) (hl : Lines n rest bs) (hg : Good rest) :
    splitOK n (words rest) (pieces bs) = true := by
  induction hl with
  | nil => rfl
  | step rest k bs hne hk1 hk2 hk3 hcut _ ih =>
    have ih := ih (good_after _ _ hg)
    have hp : pieces (rest.take k :: bs) = words (rest.take k) ++ pieces bs := by simp [pieces]
    rw [hp]
    rcases hcut with ⟨_, h2⟩ | ⟨h1, h2⟩ | ⟨h1, h2, h3⟩
    · -- the last line: everything that remains
      subst h2
      have ha : after rest rest.length = [] := by simp [after]
      rw [ha] at ih
      rw [List.take_length]
      have := splitOK_append n (words rest) [] (pieces bs)
      rw [List.append_nil] at this
      rw [this]
      exact ih
    · -- cut at a space: no word is touched
      have hk : k < rest.length := by omega
      have hd := drop_of_getD rest k hk
      rw [h2] at hd
      have hw : words rest = words (rest.take k) ++ words (after rest k) := by
        unfold after
        rw [hd]
        simp only [List.dropWhile_cons, beq_self_eq_true, if_true]
        rw [words_dropWhile, ← words_append_space, ← hd, List.take_append_drop]
      rw [hw, splitOK_append]
      exact ih
    · -- no space in `rest[1..n]`: the first word is longer than `n` and is split after `n` bytes
      subst h2
      have hns := take_nonspace rest k h1 hg.1 h3
      have hd := drop_of_getD rest k h1
      have hc : rest.getD k 0 ≠ space := h3 k hk1 (Nat.le_refl _)
      generalize rest.getD k 0 = c at hd hc
      have haf : after rest k = c :: rest.drop (k + 1) := by
        unfold after
        rw [hd]
        simp [hc]
      obtain ⟨w', ws, hW⟩ := wordsAux_cons_nonspace (rest.drop (k + 1)) c hc
      have hlen : (rest.take k).length = k := by rw [List.length_take]; omega
      have hne' : rest.take k ≠ [] := by
        intro e
        rw [e] at hlen
        simp at hlen
        omega
      have hw1 : words (after rest k) = (c :: w') :: ws := by
        rw [haf]
        simpa [words] using hW []
      have hw2 : words rest = (rest.take k ++ c :: w') :: ws := by
        have e : rest = rest.take k ++ c :: rest.drop (k + 1) := by
          rw [← hd, List.take_append_drop]
        have := wordsAux_nonspace (rest.take k) hns (c :: rest.drop (k + 1)) []
        rw [← e] at this
        unfold words
        rw [this, hW]
        simp
      rw [hw1] at ih
      rw [hw2, words_nonspace _ hns hne']
      exact splitOK_glue k (rest.take k) (c :: w') ws (pieces bs) hne' (by simp) ih
        (by rw [List.length_append, hlen]; simp)

/-! ### the executable word check implies the stated grouping -/

theorem takeWord_spec (ps : List Str) : ∀ (w : Str) (m : Nat) (r : List Str),
    takeWord w ps = some (m, r) → ∃ g : List Str, ps = g ++ r ∧ g.flatten = w ∧ g.length = m := by
  induction ps with
  | nil => intro w m r h; simp [takeWord] at h
  | cons p ps ih =>
    intro w m r h
    unfold takeWord at h
    by_cases h1 : p = w
    · rw [if_pos h1] at h
      simp only [Option.some.injEq, Prod.mk.injEq] at h
      exact ⟨[p], by simp [h.2], by simp [h1], h.1⟩
    · rw [if_neg h1] at h
      by_cases h2 : p ≠ [] ∧ p.length < w.length ∧ w.take p.length = p
      · rw [if_pos h2] at h
        cases ht : takeWord (w.drop p.length) ps with
        | none => rw [ht] at h; simp at h
        | some mr =>
          obtain ⟨m', r'⟩ := mr
          rw [ht] at h
          simp only [Option.map_some, Option.some.injEq, Prod.mk.injEq] at h
          obtain ⟨g, hg1, hg2, hg3⟩ := ih _ _ _ ht
          refine ⟨p :: g, by simp [hg1, h.2], ?_, by simp [hg3, h.1]⟩
          rw [List.flatten_cons, hg2]
          have e := List.take_append_drop p.length w
          rw [h2.2.2] at e
          exact e
      · rw [if_neg h2] at h
        simp at h

theorem splitOK_sound (n : Nat) (ws : List Str) : ∀ ps : List Str, splitOK n ws ps = true →
    ∃ groups : List (List Str), groups.flatten = ps ∧ groups.map List.flatten = ws ∧
      ∀ g ∈ groups, g.length = 1 ∨ n < g.flatten.length := by
  induction ws with
  | nil =>
    intro ps h
    simp only [splitOK, List.isEmpty_iff] at h
    exact ⟨[], by simp [h], rfl, fun g hg => by cases hg⟩
  | cons w ws ih =>
    intro ps h
    unfold splitOK at h
    cases ht : takeWord w ps with
    | none => rw [ht] at h; simp at h
    | some mr =>
      obtain ⟨m, r⟩ := mr
      rw [ht] at h
      simp only [Bool.and_eq_true, Bool.or_eq_true, beq_iff_eq, decide_eq_true_eq] at h
      obtain ⟨g, hg1, hg2, hg3⟩ := takeWord_spec ps w m r ht
      obtain ⟨groups, hG1, hG2, hG3⟩ := ih r h.2
      refine ⟨g :: groups, by simp [hG1, hg1], by simp [hG2, hg2], ?_⟩
      intro g' hg'
      rcases List.mem_cons.1 hg' with rfl | hg'
      · rcases h.1 with h | h
        · left; omega
        · right; rw [hg2]; exact h
      · exact hG3 g' hg'

theorem lines_wordsKept (n : Nat) (s : Str) (bs : List Str) (hl : Lines n s bs) (hg : Good s) :
    WordsKept n s bs :=
  splitOK_sound n (words s) (pieces bs) (lines_words n s bs hl hg)

/-! ### the property, assembled -/

theorem format_lines (s : Str) (indent width : Int) (n : Nat) (hn : 1 ≤ n)
    (hc : width - indent * tabWidth = (n : Int)) :
    ∃ bs, Lines n s bs ∧ format s indent width = .ok (render indent.toNat bs) := by
  obtain ⟨bs, h1, h2⟩ := formatLoop_ok indent n hn (s.length + 1) s [] (Nat.lt_succ_self _)
  refine ⟨bs, h1, ?_⟩
  unfold format
  rw [hc, h2]
  simp

/-- for `chars ≥ 1` the wrapping ends normally on *every* text (no panic, no endless loop) -/
theorem format_terminates (s : Str) (indent width : Int) (hc : 1 ≤ width - indent * tabWidth) :
    ∃ out, format s indent width = .ok out := by
  obtain ⟨bs, _, h⟩ := format_lines s indent width (width - indent * tabWidth).toNat (by omega) (by omega)
  exact ⟨_, h⟩

/-- the whole property on the output bytes -/
theorem format_wrapped (s : Str) (indent width : Int) (hc : 1 ≤ width - indent * tabWidth) (hs : Pre s)
    (out : Str) (h : format s indent width = .ok out) :
    Wrapped s indent.toNat (width - indent * tabWidth).toNat out := by
  obtain ⟨bs, hl, hf⟩ := format_lines s indent width (width - indent * tabWidth).toNat (by omega) (by omega)
  rw [hf] at h
  injection h with h
  subst h
  have hg : Good s := hs
  have hb := lines_bodies _ s bs hl hg
  refine ⟨bs.map (List.replicate indent.toNat tab ++ ·),
    splitLines_render _ bs (fun b hb' => (hb b hb').2.2.1), ?_, ?_, ?_⟩
  · intro l hl'
    obtain ⟨b, hb', rfl⟩ := List.mem_map.1 hl'
    exact lineOK_tabs _ _ b (hb b hb').1 (hb b hb').2.1
  · rw [map_body_tabs]
    exact lines_content _ s bs hl
  · rw [map_body_tabs]
    exact lines_wordsKept _ s bs hl hg

/-- additionally: no line body starts with a space -/
theorem format_bodies_nonspace (s : Str) (indent width : Int) (hc : 1 ≤ width - indent * tabWidth)
    (hs : Pre s) (out : Str) (h : format s indent width = .ok out) :
    ∃ ls, splitLines out = some ls ∧ ∀ l ∈ ls, (body indent.toNat l).head? ≠ some space := by
  obtain ⟨bs, hl, hf⟩ := format_lines s indent width (width - indent * tabWidth).toNat (by omega) (by omega)
  rw [hf] at h
  injection h with h
  subst h
  have hg : Good s := hs
  have hb := lines_bodies _ s bs hl hg
  refine ⟨_, splitLines_render _ bs (fun b hb' => (hb b hb').2.2.1), ?_⟩
  intro l hl'
  obtain ⟨b, hb', rfl⟩ := List.mem_map.1 hl'
  rw [body_tabs]
  exact (hb b hb').2.2.2

/-! ### what happens outside the precondition -/

theorem format_nil (indent width : Int) : format [] indent width = .ok [] := rfl

theorem cutLine_neg (chars : Int) (hc : chars < 0) (rest : Str) : cutLine chars rest = none := by
  unfold cutLine
  have h1 : (rest.length : Int) > chars := by omega
  simp only [h1, if_true]
  by_cases h2 : chars + 1 < 0
  · simp [h2]
  · have h3 : chars = -1 := by omega
    subst h3
    simp [findWordDelimSpace, findFrom]

/-- `chars < 0`: a slice-bounds panic in the first round, unless the text is empty -/
theorem format_panics (s : Str) (indent width : Int) (hc : width - indent * tabWidth < 0) (hs : s ≠ []) :
    format s indent width = .panic := by
  unfold format formatLoop
  have h0 : ¬ s.length = 0 := fun e => hs (List.eq_nil_of_length_eq_zero e)
  simp [h0, cutLine_neg _ hc]

theorem cutLine_zero (rest : Str) (hne : rest ≠ []) : cutLine 0 rest = some [] := by
  unfold cutLine
  have hpos : 0 < rest.length := List.length_pos_iff.2 hne
  have h1 : (rest.length : Int) > 0 := by omega
  have h2 : (rest.take 1).length - 1 = 0 := by rw [List.length_take]; omega
  have h3 : findWordDelimSpace (rest.take 1) = -1 := by
    unfold findWordDelimSpace
    rw [h2]
    rfl
  simp only [h1, if_true]
  simp [h3]

theorem dropWhile_nonspace (l : Str) (h : ∃ c ∈ l, c ≠ space) :
    ∃ d ds, l.dropWhile (· == space) = d :: ds ∧ d ≠ space := by
  induction l with
  | nil => obtain ⟨c, hc, _⟩ := h; cases hc
  | cons a as ih =>
    by_cases ha : a = space
    · subst ha
      obtain ⟨c, hc, hcs⟩ := h
      rcases List.mem_cons.1 hc with rfl | hc
      · exact absurd rfl hcs
      · simpa using ih ⟨c, hc, hcs⟩
    · exact ⟨a, as, by simp [ha], ha⟩

theorem formatLoop_zero_head (indent : Int) (fuel : Nat) (c : UInt8) (cs sb : Str) (hc : c ≠ space) :
    formatLoop indent 0 (fuel + 1) (c :: cs) sb = .diverges := by
  unfold formatLoop
  simp [cutLine_zero, hc]

/-- `chars = 0`: the loop never ends as soon as the text has a byte other than a space -/
theorem format_diverges (s : Str) (indent width : Int) (hc : width - indent * tabWidth = 0)
    (hs : ∃ c ∈ s, c ≠ space) : format s indent width = .diverges := by
  unfold format
  rw [hc]
  cases s with
  | nil => obtain ⟨c, h, _⟩ := hs; cases h
  | cons a as =>
    by_cases ha : a = space
    · subst ha
      obtain ⟨d, ds, hd, hdn⟩ := dropWhile_nonspace (space :: as) hs
      have hle := length_dropWhile_le (· == space) as
      simp only [List.dropWhile_cons, beq_self_eq_true, if_true] at hd
      have hlen : List.length (space :: as) + 1 = as.length + 1 + 1 := by simp
      rw [hlen]
      unfold formatLoop
      simp only [List.length_cons, Nat.add_one_ne_zero, if_false, cutLine_zero (space :: as) (by simp),
        List.length_nil, List.drop_zero, List.dropWhile_cons, beq_self_eq_true, if_true, hd]
      have hne : ¬ (d :: ds).length = as.length + 1 := by
        rw [← hd]; omega
      rw [List.length_cons] at hne
      rw [if_neg hne]
      exact formatLoop_zero_head indent as.length d ds _ hdn
    · exact formatLoop_zero_head indent _ a as [] ha

theorem dropWhile_all_space (l : Str) (h : ∀ c ∈ l, c = space) : l.dropWhile (· == space) = [] := by
  induction l with
  | nil => rfl
  | cons a as ih =>
    have ha : a = space := h a (by simp)
    subst ha
    simpa using ih (fun c hc => h c (by simp [hc]))

/-- `chars = 0` on a non-empty text of spaces only: one round, one empty line -/
theorem format_zero_spaces (s : Str) (indent width : Int) (hc : width - indent * tabWidth = 0)
    (hne : s ≠ []) (hs : ∀ c ∈ s, c = space) :
    format s indent width = .ok (List.replicate indent.toNat tab ++ [nl]) := by
  unfold format
  rw [hc]
  have hpos : 0 < s.length := List.length_pos_iff.2 hne
  have h0 : ¬ s.length = 0 := by omega
  obtain ⟨m, hm⟩ : ∃ m, s.length = m + 1 := ⟨s.length - 1, by omega⟩
  unfold formatLoop
  simp only [h0, if_false, cutLine_zero s hne, List.length_nil, List.drop_zero, dropWhile_all_space s hs]
  simp only [hm]
  unfold formatLoop
  simp

/-! ### the executable oracle -/

open Mltwist.Spec.Format (check wordsKeptB) in
/-- what the oracle accepts is a correct wrapping in the sense of `Wrapped` -/
theorem check_sound (s : Str) (indent chars : Nat) (out : Str) (h : check s indent chars out = none) :
    Wrapped s indent chars out := by
  unfold check at h
  cases hsp : splitLines out with
  | none => rw [hsp] at h; simp at h
  | some ls =>
    rw [hsp] at h
    simp only at h
    split at h
    · cases h
    · rename_i h1
      split at h
      · cases h
      · rename_i h2
        split at h
        · cases h
        · rename_i h3
          split at h
          · cases h
          · rename_i h4
            split at h
            · cases h
            · rename_i h5
              have h1 := Classical.not_not.1 h1
              have h2 := Classical.not_not.1 h2
              have h3 := Classical.not_not.1 h3
              have h4 := Classical.not_not.1 h4
              have h5 : wordsKeptB chars s (ls.map (body indent)) = true := by simpa using h5
              refine ⟨ls, hsp, ?_, h4, splitOK_sound _ _ _ h5⟩
              intro l hl
              exact ⟨h1 l hl, h2 _ (List.mem_map.2 ⟨l, hl, rfl⟩), h3 _ (List.mem_map.2 ⟨l, hl, rfl⟩)⟩

open Mltwist.Spec.Format (check wordsKeptB) in
/-- the oracle accepts every output of the model within the precondition -/
theorem format_check (s : Str) (indent width : Int) (hc : 1 ≤ width - indent * tabWidth) (hs : Pre s)
    (out : Str) (h : format s indent width = .ok out) :
    check s indent.toNat (width - indent * tabWidth).toNat out = none := by
  obtain ⟨bs, hl, hf⟩ := format_lines s indent width (width - indent * tabWidth).toNat (by omega) (by omega)
  rw [hf] at h
  injection h with h
  subst h
  have hg : Good s := hs
  have hb := lines_bodies _ s bs hl hg
  unfold check
  rw [splitLines_render _ bs (fun b hb' => (hb b hb').2.2.1)]
  simp only [map_body_tabs]
  have h1 : ∀ l ∈ bs.map (List.replicate indent.toNat tab ++ ·),
      l.take indent.toNat = List.replicate indent.toNat Spec.Format.tab := by
    intro l hl'
    obtain ⟨b, _, rfl⟩ := List.mem_map.1 hl'
    exact List.take_left' (by simp)
  have h2 : ∀ b ∈ bs, 1 ≤ b.length := fun b hb' => (hb b hb').1
  have h3 : ∀ b ∈ bs, b.length ≤ (width - indent * tabWidth).toNat := fun b hb' => (hb b hb').2.1
  have h4 := lines_content _ s bs hl
  have h5 : wordsKeptB (width - indent * tabWidth).toNat s bs = true := lines_words _ s bs hl hg
  rw [if_neg (fun hn => hn h1), if_neg (fun hn => hn h2), if_neg (fun hn => hn h3),
    if_neg (fun hn => hn h4), if_neg (fun hn => hn h5)]

end Mltwist.Lemmas.Format
