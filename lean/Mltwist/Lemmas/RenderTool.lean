import Mltwist.Lemmas.RenderComp
/-
Proofs for C24, part 4: the views of the tool are good views, and so are the composites it builds.
-/
namespace Mltwist.Lemmas.Render
open Mltwist.Render

/-! ### the leaf views are good -/

theorem linesRows_le (L n : Nat) : Spec.Render.linesRows L n ≤ n := by
  unfold Spec.Render.linesRows; split <;> omega

theorem memRows_le (R b n : Nat) (h : b ≤ R) : Spec.Render.memRows R b n ≤ n := by
  unfold Spec.Render.memRows; split <;> omega

theorem linesView_good (L c : Nat) : Good (linesView L c) := by
  refine ⟨by show (0 : Int) ≤ 5; omega, fun n _ => ?_⟩
  show (linesPrint L c n).status ≠ .panic ∧ (linesPrint L c n).status ≠ .outOfFuel ∧
    ((linesPrint L c n).out.used : Int) ≤ n
  rw [linesPrint_eq]
  refine ⟨by simp, by simp, ?_⟩
  have := linesRows_le L n
  simp [Out.used]; omega

theorem memView_good (R c : Nat) (h : R = 0 ∨ c < R) : Good (memView R c) := by
  refine ⟨by show (0 : Int) ≤ 5; omega, fun n hn => ?_⟩
  have hn : (5 : Int) ≤ n := hn
  show (memPrint R c n).status ≠ .panic ∧ (memPrint R c n).status ≠ .outOfFuel ∧
    ((memPrint R c n).out.used : Int) ≤ n
  by_cases hR : R = 0
  · subst hR
    rw [memPrint_nocursor]
    refine ⟨by simp, by simp, ?_⟩
    simp [Out.used]; omega
  · have hc : c < R := by rcases h with h | h; exact absurd h hR; exact h
    rw [memPrint_eq R c n hR hc]
    refine ⟨by simp, by simp, ?_⟩
    have := memRows_le R (c - phiCut n) n (by omega)
    simp [Out.used]; omega

theorem regView_good (regs : List Reg) (h : OneIP regs) : Good (regView regs) := by
  refine ⟨by show (0 : Int) ≤ (regLines regs : Int); omega, fun n hn => ?_⟩
  have hn : (regLines regs : Int) ≤ n := hn
  show (regPrint true regs n).status ≠ .panic ∧ (regPrint true regs n).status ≠ .outOfFuel ∧
    ((regPrint true regs n).out.used : Int) ≤ n
  rcases regPrint_spec regs h n with ⟨h1, h2⟩ | ⟨h1, h2, h3⟩
  · rw [h1, h2]; refine ⟨by simp, by simp, ?_⟩; simp [Out.used]; omega
  · rw [h1]; refine ⟨by simp, by simp, ?_⟩
    simp only [Out.used, h2]; simp; omega

theorem promptView_good : Good promptView := by
  refine ⟨by show (0 : Int) ≤ 2; omega, fun n hn => ?_⟩
  have hn : (2 : Int) ≤ n := hn
  show (Status.ok ≠ .panic) ∧ (Status.ok ≠ .outOfFuel) ∧ ((Out.text.used : Nat) : Int) ≤ n
  refine ⟨by simp, by simp, ?_⟩
  have : Out.text.used = 2 := rfl
  omega

/-! ### the composites of the tool -/

theorem emuViewDec_good (L c : Nat) (regs : List Reg) (h : OneIP regs) : Good (emuViewDec L c regs) :=
  comp_good _ (by simp) (fun e he => by
    rcases List.mem_cons.mp he with h1 | h1
    · subst h1; exact linesView_good L c
    · simp at h1; subst h1; exact regView_good regs h)

theorem uiScreenDec_good (v : View) (h : Good v) : Good (uiScreenDec v) :=
  comp_good _ (by simp) (fun e he => by
    rcases List.mem_cons.mp he with h1 | h1
    · subst h1; exact h
    · simp at h1; subst h1; exact promptView_good)

/-! ### closed output -/

theorem app_closed (a b : Out) (ha : a.op = false) (hb : b.op = false) : (a.app b).op = false := by
  simp only [Out.app]; split <;> simp [ha, hb]

theorem printEls_closed (els : List View) (gs : List Int) (first : Bool) (acc : Out) (hacc : acc.op = false)
    (h : ∀ e ∈ els, ∀ n, (e.print n).out.op = false) : (printEls els gs first acc).out.op = false := by
  induction els generalizing gs first acc with
  | nil => simpa [printEls] using hacc
  | cons e es ih =>
    unfold printEls
    simp only
    have h1 : (if first = true then acc else acc.app .row).op = false := by
      cases first <;> simp [hacc]
    generalize (if first = true then acc else acc.app .row) = acc1 at h1
    have h2 := app_closed acc1 _ h1 (h e (by simp) (gs.headD 0).toNat)
    cases hs : (e.print (gs.headD 0).toNat).status with
    | ok => exact ih _ _ _ h2 (fun x hx => h x (by simp [hx]))
    | err => exact h2
    | panic => exact h2
    | outOfFuel => exact h2

theorem compPrint_closed (els : List View) (n : Int) (h : ∀ e ∈ els, ∀ n, (e.print n).out.op = false) :
    (compPrint true els n).out.op = false := by
  unfold compPrint
  simp only
  split
  · rfl
  · split
    · rfl
    · exact printEls_closed _ _ _ _ rfl h

theorem linesView_closed (L c n : Nat) : ((linesView L c).print n).out.op = false := by
  show (linesPrint L c n).out.op = false
  rw [linesPrint_eq]

theorem regView_closed (regs : List Reg) (h : OneIP regs) (n : Nat) : ((regView regs).print n).out.op = false := by
  show (regPrint true regs n).out.op = false
  rcases regPrint_spec regs h n with ⟨_, h2⟩ | ⟨_, h2, _⟩
  · rw [h2]
  · exact h2

/-! ### exactness of the views of the tool -/

/-- a listing of exactly five lines declares the fixed height 5 and writes exactly 5 rows -/
theorem linesView_exact (c : Nat) :
    (linesView 5 c).minLines = 5 ∧ (linesView 5 c).maxLines = 5 ∧
    (linesView 5 c).print 5 = ⟨.ok, ⟨5, false⟩⟩ := by
  refine ⟨rfl, rfl, ?_⟩
  show linesPrint 5 c 5 = _
  rw [linesPrint_eq]; simp [Spec.Render.linesRows]

/-- the register view writes exactly its fixed height whenever it returns without error -/
theorem regView_exact (regs : List Reg) (h : OneIP regs) (n : Nat)
    (hok : ((regView regs).print n).status = .ok) : ((regView regs).print n).out = ⟨regLines regs, false⟩ := by
  have hok : (regPrint true regs n).status = .ok := hok
  show (regPrint true regs n).out = _
  rcases regPrint_spec regs h n with ⟨_, h2⟩ | ⟨h1, _, _⟩
  · exact h2
  · rw [hok] at h1; exact absurd h1 (by simp)

/-- the emulation view with a listing of exactly five lines: fixed height, and granted it, exactly that
many complete rows whenever it returns without error -/
theorem emuViewDec_exact (L c : Nat) (regs : List Reg) (h : OneIP regs) (hL : L = 5) :
    (emuViewDec L c regs).maxLines = (emuViewDec L c regs).minLines ∧
    (((emuViewDec L c regs).print (emuViewDec L c regs).minLines.toNat).status = .ok →
      ((emuViewDec L c regs).print (emuViewDec L c regs).minLines.toNat).out =
        ⟨(emuViewDec L c regs).minLines.toNat, false⟩) := by
  subst hL
  obtain ⟨l1, l2, l3⟩ := linesView_exact c
  have hex : ExactList [linesView 5 c, regView regs] := by
    refine ⟨by rw [l1]; omega, fun _ => ?_, by show (0 : Int) ≤ (regLines regs : Int); omega, fun hok => ?_⟩
    · rw [l1]; exact congrArg Res.out l3
    · rw [regView_exact regs h _ hok]
      show ((Out.used ⟨regLines regs, false⟩ : Nat) : Int) = (regLines regs : Int)
      simp [Out.used]
  have hfix : compMaxLines [linesView 5 c, regView regs] = compMinLines [linesView 5 c, regView regs] :=
    comp_fixed _ (fun e he => by
      rcases List.mem_cons.mp he with h1 | h1
      · subst h1; rw [l1, l2]; exact ⟨rfl, by omega⟩
      · simp at h1; subst h1
        exact ⟨rfl, by show (0 : Int) ≤ (regLines regs : Int); omega⟩)
  refine ⟨hfix, ?_⟩
  have hmin0 : 0 ≤ compMinLines [linesView 5 c, regView regs] :=
    (emuViewDec_good 5 c regs h).min_nonneg
  have hcl := compPrint_closed [linesView 5 c, regView regs]
    (compMinLines [linesView 5 c, regView regs]) (fun e he n => by
      rcases List.mem_cons.mp he with h1 | h1
      · subst h1; exact linesView_closed 5 c n
      · simp at h1; subst h1; exact regView_closed regs h n)
  show (compPrint true [linesView 5 c, regView regs]
      ((compMinLines [linesView 5 c, regView regs]).toNat : Int)).status = .ok →
    (compPrint true [linesView 5 c, regView regs]
      ((compMinLines [linesView 5 c, regView regs]).toNat : Int)).out =
      ⟨(compMinLines [linesView 5 c, regView regs]).toNat, false⟩
  rw [Int.toNat_of_nonneg hmin0]
  intro hok
  have e2 := comp_exact [linesView 5 c, regView regs] (by simp) hex hok
  cases hr : (compPrint true [linesView 5 c, regView regs]
      (compMinLines [linesView 5 c, regView regs])).out with
  | mk nl op =>
    rw [hr] at e2 hcl
    simp only at hcl; subst hcl
    simp only [Out.used, Bool.false_eq_true, if_false, Nat.add_zero] at e2
    have : nl = (compMinLines [linesView 5 c, regView regs]).toNat := by omega
    rw [this]

theorem uiScreenDec_min (v : View) : (uiScreenDec v).minLines = v.minLines + 3 := by
  show compMinLines [v, promptView] = _
  unfold compMinLines elementSpaces
  simp only [List.map_cons, List.map_nil, sumInts, List.length_cons, List.length_nil]
  have : promptView.minLines = 2 := rfl
  omega

theorem uiScreenDec_max (v : View) : (uiScreenDec v).maxLines = if v.maxLines < 0 then -1 else v.maxLines + 3 := by
  show compMaxLines [v, promptView] = _
  unfold compMaxLines elementSpaces
  simp only [compMaxLoop, List.length_cons, List.length_nil]
  have : promptView.maxLines = 2 := rfl
  split
  · rfl
  · rw [if_neg (by omega)]; omega

/-- **The screen of a mode view**: if the view of the mode writes exactly its minimum in complete rows
when granted it, the screen (view, separator, prompt) granted exactly its minimum uses exactly that
many rows whenever it returns without error — counting the prompt as two. -/
theorem uiScreenDec_exact (v : View) (h0 : 0 ≤ v.minLines)
    (hex : (v.print v.minLines.toNat).status = .ok → (v.print v.minLines.toNat).out = ⟨v.minLines.toNat, false⟩) :
    ((uiScreenDec v).print (uiScreenDec v).minLines.toNat).status = .ok →
    (((uiScreenDec v).print (uiScreenDec v).minLines.toNat).out.used : Int) = (uiScreenDec v).minLines := by
  have hexl : ExactList [v, promptView] :=
    ⟨h0, hex, by show (0 : Int) ≤ 2; omega, fun _ => rfl⟩
  have hmin0 : 0 ≤ compMinLines [v, promptView] := by
    have := uiScreenDec_min v
    have e : (uiScreenDec v).minLines = compMinLines [v, promptView] := rfl
    omega
  show (compPrint true [v, promptView] ((compMinLines [v, promptView]).toNat : Int)).status = .ok →
    ((compPrint true [v, promptView] ((compMinLines [v, promptView]).toNat : Int)).out.used : Int) = _
  rw [Int.toNat_of_nonneg hmin0]
  exact comp_exact [v, promptView] (by simp) hexl

/-! ### screen.go -/

/-- The height `view.Print` (screen.go) hands to a view that declares consistent bounds lies between
the minimum of the view and the height of the terminal. -/
theorem screenHeight_spec (e : View) (screenLines : Int) (hwf : e.maxLines < 0 ∨ e.minLines ≤ e.maxLines)
    (h : e.minLines ≤ screenLines) :
    ∃ n, screenHeight e screenLines = some n ∧ e.minLines ≤ n ∧ n ≤ screenLines := by
  unfold screenHeight
  rw [if_neg (by omega)]
  simp only
  split
  · exact ⟨_, rfl, h, Int.le_refl _⟩
  · exact ⟨_, rfl, by omega, by omega⟩

theorem screenHeight_none (e : View) (screenLines : Int) (h : screenLines < e.minLines) :
    screenHeight e screenLines = none := by
  unfold screenHeight; rw [if_pos h]

/-- the bounds of a composite of consistent views are consistent -/
theorem compMaxLoop_ge (spaces : Int) (els : List View)
    (h : ∀ e ∈ els, e.maxLines < 0 ∨ e.minLines ≤ e.maxLines) (acc : Int) :
    compMaxLoop spaces els acc < 0 ∨ acc + sumInts (els.map (·.minLines)) + spaces ≤ compMaxLoop spaces els acc := by
  induction els generalizing acc with
  | nil => right; simp [compMaxLoop, sumInts]
  | cons e es ih =>
    unfold compMaxLoop
    by_cases hm : e.maxLines < 0
    · left; rw [if_pos hm]; omega
    · rw [if_neg hm]
      rcases ih (fun x hx => h x (by simp [hx])) (acc + e.maxLines) with h1 | h1
      · left; exact h1
      · right
        have := h e (by simp)
        simp only [List.map_cons, sumInts]; omega

theorem comp_consistent (els : List View) (h : ∀ e ∈ els, e.maxLines < 0 ∨ e.minLines ≤ e.maxLines) :
    compMaxLines els < 0 ∨ compMinLines els ≤ compMaxLines els := by
  unfold compMaxLines compMinLines
  rcases compMaxLoop_ge (elementSpaces els) els h 0 with h1 | h1
  · left; exact h1
  · right; omega

end Mltwist.Lemmas.Render
