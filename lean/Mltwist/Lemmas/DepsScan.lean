import Mltwist.Lemmas.DepsView
/-
The scans of the dependency finders (`Model/Deps.lean`), in "split" form: for a sequence
`A ++ x :: (B ++ y :: C)` the edge `(x.id, y.id)` is produced when the instructions of `B` do
not touch the auxiliary state the scan keeps for `x` / `y`.  Monotonicity of every finder.
-/
namespace Mltwist.Lemmas.Deps.Paths
open Mltwist Mltwist.Deps Mltwist.Deps.Spec

/-! ### generic folds -/

theorem foldl_state_mono {σ α : Type} (step : σ → α → σ) (e : σ → Edges)
    (H2 : ∀ s a ed, ed ∈ e s → ed ∈ e (step s a)) (l : List α) (s : σ) (ed : Nat × Nat)
    (h : ed ∈ e s) : ed ∈ e (l.foldl step s) := by
  induction l generalizing s with
  | nil => exact h
  | cons a l ih => exact ih _ (H2 _ _ _ h)

theorem foldr_state_mono {σ α : Type} (step : α → σ → σ) (e : σ → Edges)
    (H2 : ∀ s a ed, ed ∈ e s → ed ∈ e (step a s)) (l : List α) (s : σ) (ed : Nat × Nat)
    (h : ed ∈ e s) : ed ∈ e (l.foldr step s) := by
  induction l with
  | nil => exact h
  | cons a l ih => exact H2 _ _ _ ih

theorem foldl_state_mem {σ α : Type} (step : σ → α → σ) (e : σ → Edges)
    (H2 : ∀ s a ed, ed ∈ e s → ed ∈ e (step s a)) (l : List α) (a : α) (ha : a ∈ l)
    (ed : Nat × Nat) (hadd : ∀ s, ed ∈ e (step s a)) (s : σ) : ed ∈ e (l.foldl step s) := by
  induction l generalizing s with
  | nil => cases ha
  | cons b l ih =>
    rcases List.mem_cons.1 ha with rfl | h
    · exact foldl_state_mono step e H2 l _ ed (hadd s)
    · exact ih h _

/-- forward scan: `v` is the slot of the auxiliary state that `x` fills and `B` leaves alone -/
theorem fwd_scan {σ : Type} (step : σ → Ins → σ) (v : σ → Option Nat) (e : σ → Edges)
    (x y : Ins) (A B C : List Ins) (s0 : σ)
    (H2 : ∀ s a ed, ed ∈ e s → ed ∈ e (step s a))
    (Hx : ∀ s, v (step s x) = some x.id)
    (HB : ∀ b ∈ B, ∀ s, v (step s b) = v s)
    (H3 : ∀ s, v s = some x.id → (x.id, y.id) ∈ e (step s y)) :
    (x.id, y.id) ∈ e ((A ++ x :: (B ++ y :: C)).foldl step s0) := by
  rw [List.foldl_append, List.foldl_cons, List.foldl_append, List.foldl_cons]
  apply foldl_state_mono step e H2
  apply H3
  have : ∀ (B : List Ins) (s : σ), (∀ b ∈ B, ∀ s, v (step s b) = v s) →
      v s = some x.id → v (B.foldl step s) = some x.id := by
    intro B
    induction B with
    | nil => intro s _ h; exact h
    | cons b B ih =>
      intro s hB h
      rw [List.foldl_cons]
      apply ih
      · intro b' hb'; exact hB b' (List.mem_cons_of_mem _ hb')
      · rw [hB b (List.mem_cons_self ..)]; exact h
  exact this B _ HB (Hx _)

/-- backward scan -/
theorem back_scan {σ : Type} (step : Ins → σ → σ) (v : σ → Option Nat) (e : σ → Edges)
    (x y : Ins) (A B C : List Ins) (s0 : σ)
    (H2 : ∀ s a ed, ed ∈ e s → ed ∈ e (step a s))
    (Hy : ∀ s, v (step y s) = some y.id)
    (HB : ∀ b ∈ B, ∀ s, v (step b s) = v s)
    (H3 : ∀ s, v s = some y.id → (x.id, y.id) ∈ e (step x s)) :
    (x.id, y.id) ∈ e ((A ++ x :: (B ++ y :: C)).foldr step s0) := by
  rw [List.foldr_append, List.foldr_cons, List.foldr_append, List.foldr_cons]
  apply foldr_state_mono step e H2
  apply H3
  have : ∀ (B : List Ins) (s : σ), (∀ b ∈ B, ∀ s, v (step b s) = v s) →
      v s = some y.id → v (B.foldr step s) = some y.id := by
    intro B
    induction B with
    | nil => intro s _ h; exact h
    | cons b B ih =>
      intro s hB h
      rw [List.foldr_cons, hB b (List.mem_cons_self ..)]
      exact ih s (fun b' hb' => hB b' (List.mem_cons_of_mem _ hb')) h
  exact this B _ HB (Hy _)

/-! ### key maps -/

theorem lookup_setAll (keys : List String) (id : Nat) (m : KeyMap) (r : String) :
    (setAll keys id m).lookup r = if r ∈ keys then some id else m.lookup r := by
  unfold setAll
  induction keys generalizing m with
  | nil => simp
  | cons k ks ih =>
    simp only [List.foldl_cons, ih, List.mem_cons]
    by_cases h1 : r ∈ ks
    · simp [h1]
    · by_cases h2 : r = k
      · subst h2; simp [h1]
      · have : (r == k) = false := by simpa using h2
        simp [h1, h2, List.lookup_cons, this]

theorem depsFromMap_mono (keys : List String) (m : KeyMap) (ins : Nat) (E : Edges) (ed : Nat × Nat)
    (h : ed ∈ E) : ed ∈ depsFromMap keys m ins E := by
  unfold depsFromMap
  apply foldl_state_mono _ (fun E => E) _ _ _ _ h
  intro s a ed h
  split
  · exact List.mem_cons_of_mem _ h
  · exact h

theorem depsFromMap_mem (keys : List String) (m : KeyMap) (ins : Nat) (E : Edges) (r : String)
    (d : Nat) (hr : r ∈ keys) (hl : m.lookup r = some d) : (d, ins) ∈ depsFromMap keys m ins E := by
  unfold depsFromMap
  apply foldl_state_mem _ (fun E => E) _ _ r hr
  · intro s; rw [hl]; exact List.mem_cons_self ..
  · intro s a ed h
    split
    · exact List.mem_cons_of_mem _ h
    · exact h

theorem depsToMap_mono (sk : Bool) (keys : List String) (m : KeyMap) (ins : Nat) (E : Edges)
    (ed : Nat × Nat) (h : ed ∈ E) : ed ∈ depsToMap sk keys m ins E := by
  unfold depsToMap
  apply foldl_state_mono _ (fun E => E) _ _ _ _ h
  intro s a ed h
  split
  · split
    · exact h
    · exact List.mem_cons_of_mem _ h
  · exact h

theorem depsToMap_mem (sk : Bool) (keys : List String) (m : KeyMap) (ins : Nat) (E : Edges)
    (r : String) (d : Nat) (hr : r ∈ keys) (hl : m.lookup r = some d) (hne : sk = false ∨ d ≠ ins) :
    (ins, d) ∈ depsToMap sk keys m ins E := by
  unfold depsToMap
  apply foldl_state_mem _ (fun E => E) _ _ r hr
  · intro s; rw [hl]
    have : (sk && d == ins) = false := by
      rcases hne with h | h
      · simp [h]
      · simp [h]
    simp only [this]
    exact List.mem_cons_self ..
  · intro s a ed h
    split
    · split
      · exact h
      · exact List.mem_cons_of_mem _ h
    · exact h

/-! ### true dependencies -/

theorem trueStep_mono (s : KeyMap × KeyMap × Edges) (a : Ins) (ed : Nat × Nat) (h : ed ∈ s.2.2) :
    ed ∈ (trueStep s a).2.2 :=
  depsFromMap_mono _ _ _ _ _ (depsFromMap_mono _ _ _ _ _ h)

theorem findTrueDeps_mono (seq : List Ins) (E : Edges) (ed : Nat × Nat) (h : ed ∈ E) :
    ed ∈ findTrueDeps seq E :=
  foldl_state_mono trueStep (·.2.2) trueStep_mono seq _ ed h

theorem true_reg_split (A B C : List Ins) (x y : Ins) (E : Edges) (r : String)
    (hx : r ∈ x.outRegs) (hy : r ∈ y.inRegs) (hB : ∀ b ∈ B, r ∉ b.outRegs) :
    (x.id, y.id) ∈ findTrueDeps (A ++ x :: (B ++ y :: C)) E := by
  unfold findTrueDeps
  apply fwd_scan trueStep (fun s => s.1.lookup r) (·.2.2) x y A B C _ trueStep_mono
  · intro s
    show (setAll x.outRegs x.id s.1).lookup r = _
    rw [lookup_setAll]; simp [hx]
  · intro b hb s
    show (setAll b.outRegs b.id s.1).lookup r = _
    rw [lookup_setAll]; simp [hB b hb]
  · intro s hs
    exact depsFromMap_mono _ _ _ _ _ (depsFromMap_mem _ _ _ _ r _ hy hs)

theorem true_mem_split (A B C : List Ins) (x y : Ins) (E : Edges) (r : String)
    (hx : r ∈ x.stores) (hy : r ∈ y.loads) (hB : ∀ b ∈ B, r ∉ b.stores) :
    (x.id, y.id) ∈ findTrueDeps (A ++ x :: (B ++ y :: C)) E := by
  unfold findTrueDeps
  apply fwd_scan trueStep (fun s => s.2.1.lookup r) (·.2.2) x y A B C _ trueStep_mono
  · intro s
    show (setAll x.stores x.id s.2.1).lookup r = _
    rw [lookup_setAll]; simp [hx]
  · intro b hb s
    show (setAll b.stores b.id s.2.1).lookup r = _
    rw [lookup_setAll]; simp [hB b hb]
  · intro s hs
    exact depsFromMap_mem _ _ _ _ r _ hy hs

/-! ### anti dependencies -/

theorem antiStep_mono (s : KeyMap × KeyMap × Edges) (a : Ins) (ed : Nat × Nat) (h : ed ∈ s.2.2) :
    ed ∈ (antiStep a s).2.2 :=
  depsToMap_mono _ _ _ _ _ _ (depsToMap_mono _ _ _ _ _ _ h)

theorem findAntiDeps_mono (seq : List Ins) (E : Edges) (ed : Nat × Nat) (h : ed ∈ E) :
    ed ∈ findAntiDeps seq E :=
  foldr_state_mono antiStep (·.2.2) antiStep_mono seq _ ed h

theorem anti_reg_split (A B C : List Ins) (x y : Ins) (E : Edges) (r : String)
    (hne : x.id ≠ y.id)
    (hx : r ∈ x.inRegs) (hx' : r ∉ x.outRegs) (hy : r ∈ y.outRegs) (hB : ∀ b ∈ B, r ∉ b.outRegs) :
    (x.id, y.id) ∈ findAntiDeps (A ++ x :: (B ++ y :: C)) E := by
  unfold findAntiDeps
  apply back_scan antiStep (fun s => s.1.lookup r) (·.2.2) x y A B C _ antiStep_mono
  · intro s
    show (setAll y.outRegs y.id s.1).lookup r = _
    rw [lookup_setAll]; simp [hy]
  · intro b hb s
    show (setAll b.outRegs b.id s.1).lookup r = _
    rw [lookup_setAll]; simp [hB b hb]
  · intro s hs
    apply depsToMap_mono
    apply depsToMap_mem _ _ _ _ _ r _ hx
    · rw [lookup_setAll]; simp [hx', hs]
    · exact Or.inr (Ne.symm hne)

theorem anti_mem_split (A B C : List Ins) (x y : Ins) (E : Edges) (r : String)
    (hne : x.id ≠ y.id)
    (hx : r ∈ x.loads) (hx' : r ∉ x.stores) (hy : r ∈ y.stores) (hB : ∀ b ∈ B, r ∉ b.stores) :
    (x.id, y.id) ∈ findAntiDeps (A ++ x :: (B ++ y :: C)) E := by
  unfold findAntiDeps
  apply back_scan antiStep (fun s => s.2.1.lookup r) (·.2.2) x y A B C _ antiStep_mono
  · intro s
    show (setAll y.stores y.id s.2.1).lookup r = _
    rw [lookup_setAll]; simp [hy]
  · intro b hb s
    show (setAll b.stores b.id s.2.1).lookup r = _
    rw [lookup_setAll]; simp [hB b hb]
  · intro s hs
    apply depsToMap_mem _ _ _ _ _ r _ hx
    · rw [lookup_setAll]; simp [hx', hs]
    · exact Or.inr (Ne.symm hne)

/-! ### output dependencies -/

/-- the loop body of `findOutputDepsReg` -/
def outBody (id : Nat) (st : KeyMap × Edges) (r : String) : KeyMap × Edges :=
  match st.1.lookup r with
  | none => ((r, id) :: st.1, st.2)
  | some dep => ((r, id) :: st.1, addDep id dep st.2)

theorem findOutputDepsReg_eq (ins : Ins) (regs : KeyMap) (E : Edges) :
    findOutputDepsReg ins regs E = ins.outRegs.foldl (outBody ins.id) (regs, E) := rfl

theorem outBody_fst (id : Nat) (st : KeyMap × Edges) (r : String) :
    (outBody id st r).1 = (r, id) :: st.1 := by
  unfold outBody; split <;> rfl

theorem outBody_mono (id : Nat) (st : KeyMap × Edges) (r : String) (ed : Nat × Nat)
    (h : ed ∈ st.2) : ed ∈ (outBody id st r).2 := by
  unfold outBody; split
  · exact h
  · exact List.mem_cons_of_mem _ h

theorem outFold_lookup (id : Nat) (ks : List String) (st : KeyMap × Edges) (r : String) :
    ((ks.foldl (outBody id) st).1).lookup r = if r ∈ ks then some id else st.1.lookup r := by
  induction ks generalizing st with
  | nil => simp
  | cons k ks ih =>
    rw [List.foldl_cons, ih, outBody_fst]
    by_cases h1 : r ∈ ks
    · simp [h1]
    · by_cases h2 : r = k
      · subst h2; simp [h1]
      · have : (r == k) = false := by simpa using h2
        simp [h1, h2, List.lookup_cons, this]

theorem outFold_mem (id : Nat) (ks : List String) (st : KeyMap × Edges) (r : String) (d : Nat)
    (hr : r ∈ ks) (hl : st.1.lookup r = some d) : (id, d) ∈ (ks.foldl (outBody id) st).2 := by
  induction ks generalizing st with
  | nil => cases hr
  | cons k ks ih =>
    rw [List.foldl_cons]
    by_cases h2 : r = k
    · subst h2
      apply foldl_state_mono (outBody id) (·.2) (outBody_mono id)
      unfold outBody; rw [hl]; exact List.mem_cons_self ..
    · have hr' : r ∈ ks := by
        rcases List.mem_cons.1 hr with h | h
        · exact absurd h h2
        · exact h
      apply ih _ hr'
      rw [outBody_fst]
      have : (r == k) = false := by simpa using h2
      simp [List.lookup_cons, this, hl]

theorem outputStep_mono (s : KeyMap × KeyMap × Edges) (a : Ins) (ed : Nat × Nat) (h : ed ∈ s.2.2) :
    ed ∈ (outputStep a s).2.2 := by
  apply depsToMap_mono
  show ed ∈ (findOutputDepsReg a s.1 s.2.2).2
  rw [findOutputDepsReg_eq]
  exact foldl_state_mono (outBody a.id) (·.2) (outBody_mono a.id) _ _ _ h

theorem findOutputDeps_mono (seq : List Ins) (E : Edges) (ed : Nat × Nat) (h : ed ∈ E) :
    ed ∈ findOutputDeps seq E :=
  foldr_state_mono outputStep (·.2.2) outputStep_mono seq _ ed h

theorem out_reg_split (A B C : List Ins) (x y : Ins) (E : Edges) (r : String)
    (hx : r ∈ x.outRegs) (hy : r ∈ y.outRegs) (hB : ∀ b ∈ B, r ∉ b.outRegs) :
    (x.id, y.id) ∈ findOutputDeps (A ++ x :: (B ++ y :: C)) E := by
  unfold findOutputDeps
  apply back_scan outputStep (fun s => s.1.lookup r) (·.2.2) x y A B C _ outputStep_mono
  · intro s
    show (findOutputDepsReg y s.1 s.2.2).1.lookup r = _
    rw [findOutputDepsReg_eq, outFold_lookup]; simp [hy]
  · intro b hb s
    show (findOutputDepsReg b s.1 s.2.2).1.lookup r = _
    rw [findOutputDepsReg_eq, outFold_lookup]; simp [hB b hb]
  · intro s hs
    apply depsToMap_mono
    show _ ∈ (findOutputDepsReg x s.1 s.2.2).2
    rw [findOutputDepsReg_eq]
    exact outFold_mem _ _ _ r _ hx hs

theorem out_mem_split (A B C : List Ins) (x y : Ins) (E : Edges) (r : String)
    (hx : r ∈ x.stores) (hy : r ∈ y.stores) (hB : ∀ b ∈ B, r ∉ b.stores) :
    (x.id, y.id) ∈ findOutputDeps (A ++ x :: (B ++ y :: C)) E := by
  unfold findOutputDeps
  apply back_scan outputStep (fun s => s.2.1.lookup r) (·.2.2) x y A B C _ outputStep_mono
  · intro s
    show (setAll y.stores y.id s.2.1).lookup r = _
    rw [lookup_setAll]; simp [hy]
  · intro b hb s
    show (setAll b.stores b.id s.2.1).lookup r = _
    rw [lookup_setAll]; simp [hB b hb]
  · intro s hs
    exact depsToMap_mem _ _ _ _ _ r _ hx hs (Or.inl rfl)

end Mltwist.Lemmas.Deps.Paths
