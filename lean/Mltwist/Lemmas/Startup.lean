import Mltwist.Model.Startup
import Mltwist.Props.C20
import Mltwist.Props.C21
import Mltwist.Props.C02
import Mltwist.Props.C08
import Mltwist.Props.C15
/-
C26: composition of the no-panic theorems of the components.
-/
namespace Mltwist.Lemmas.Startup
open Mltwist Mltwist.Elf Mltwist.Parse Mltwist.Startup

/-- `riscv.NewParser(Variant64, ExtM, ExtA)` does not panic: the matcher over the regenerated table
can be built (C02 `parseM_eq_parse`, which rests on C19) -/
theorem newMatcher_ok : ∃ M, Opcode.newMatcher (Riscv.patsOf rv64Table) = .ok M := by
  have h := Props.C02.parseM_eq_parse 64 (Or.inr rfl) true true 0 []
  unfold Riscv.parseM at h
  unfold rv64Table
  cases hm : Opcode.newMatcher (Riscv.patsOf (Riscv.instructionSet 64 true true)) with
  | error e => rw [hm] at h; cases h
  | ok M => exact ⟨M, rfl⟩

/-- a tidy block list has no overlap in the sense of the byte memory (C15) -/
theorem not_overlap_of_tidy (l : List Block) (ht : Elf.Spec.Tidy l) : ¬ BytesSpec.Overlap l := by
  rintro ⟨i, j, hij, bi, bj, hi, hj, a, ⟨_, h2⟩, ⟨h3, _⟩⟩
  obtain ⟨hil, rfl⟩ := List.getElem?_eq_some_iff.1 hi
  obtain ⟨hjl, rfl⟩ := List.getElem?_eq_some_iff.1 hj
  have := List.pairwise_iff_getElem.1 ht.2 i j hil hjl hij
  omega

theorem runIU_total (mem : List Block) : runIU mem ≠ .panic := by
  unfold runIU
  cases h : BytesMem.newBytes mem with
  | ok _ => simp
  | error e =>
    have := Props.C15.newBytes_no_panic mem e h
    subst this
    simp

/-- with a tidy program memory `NewBytes` cannot even fail -/
theorem runIU_ui (mem : List Block) (ht : Elf.Spec.Tidy mem) : runIU mem = .ui := by
  unfold runIU
  cases h : BytesMem.newBytes mem with
  | ok _ => rfl
  | error e =>
    have := Props.C15.newBytes_no_panic mem e h
    subst this
    exact absurd ((Props.C15.newBytes_error_iff mem).1 h) (not_overlap_of_tidy mem ht)

theorem runLoaded_total (entry : Nat) (code mem : List Block) (hc : Elf.Spec.Fits code) :
    runLoaded entry code mem ≠ .panic := by
  unfold runLoaded
  obtain ⟨M, hM⟩ := newMatcher_ok
  rw [hM]
  simp only
  cases hp : parseRv64 code with
  | error f =>
    obtain ⟨h1, h2, h3⟩ := Props.C21.parse_never_panics (rvDecoder rv64Table) (Props.C21.rv_honest _) code hc
    unfold parseRv64 at hp
    cases f with
    | parse a e => simp
    | invalid a => simp
    | panic => exact absurd hp h1
    | slice => exact absurd hp h2
    | fuel => exact absurd hp h3
  | ok is =>
    simp only
    cases hn : BasicBlock.newCode entry (codeInput is) with
    | ok _ => simp only; exact runIU_total mem
    | error e =>
      cases e with
      | panic => exact absurd hn (Props.C08.newCode_never_panics _ _)
      | jumpTarget c => simp
      | entry c => simp

theorem load_some (lim : Nat) (w : View) (l : Loaded) (h : load lim (some w) = .ok l) :
    l = ⟨w.entry, machineCode w, memory lim w⟩ := by
  simp only [load] at h
  cases hp : newParser w with
  | error e => rw [hp] at h; cases h
  | ok u => rw [hp] at h; cases h; rfl

theorem run_total (lim nargs : Nat) (v : Option View) (hv : ∀ w, v = some w → Elf.Spec.ViewOK w)
    (hlim : ∀ w, v = some w → ∀ p ∈ w.progs, p.typ = 1 → p.memsz ≤ lim) : run lim nargs v ≠ .panic := by
  unfold run
  by_cases hn : nargs + 1 ≠ 2
  · rw [if_pos hn]; simp
  · rw [if_neg hn]
    cases hl : load lim v with
    | error e => simp
    | ok l =>
      simp only
      cases v with
      | none => simp [load] at hl
      | some w =>
        have hl' := load_some lim w l hl
        subst hl'
        have hvw := hv w rfl
        simp only
        cases hc : machineCode w with
        | error e =>
          rcases Props.C20.machineCode_errors w hvw e hc with h | h | h | h | h <;> subst h <;> simp
        | ok code =>
          simp only
          have hcf : Elf.Spec.Fits code := (Props.C20.machineCode_ok w hvw code hc).2.2.2.1.1
          cases hm : memory lim w with
          | error e =>
            obtain ⟨h1, h2⟩ := Props.C20.memory_no_crash lim w hvw (hlim w rfl)
            cases e with
            | panic => exact absurd hm h2
            | alloc => exact absurd hm h1
            | _ => simp
          | ok mem =>
            simp only
            exact runLoaded_total w.entry code mem hcf

end Mltwist.Lemmas.Startup
