import Mltwist.Model.Exprtools
import Mltwist.Spec.Gadgets
/-
Helper lemmas for C11: each gadget evaluates to its documented function.  (Proofs to be supplied.)
-/
namespace Mltwist.Lemmas.Gadgets
open Mltwist

theorem eval_negate (ρ : Env) (e : Expr) (w : Nat) :
    (Tools.negate e w).eval ρ = Spec.neg w (e.eval ρ) := by
  sorry

theorem eval_sub (ρ : Env) (a b : Expr) (w : Nat) :
    (Tools.sub a b w).eval ρ = Spec.sub w (trunc w (a.eval ρ)) (trunc w (b.eval ρ)) := by
  sorry

theorem eval_abs (ρ : Env) (e : Expr) (w : Nat) (hw : 1 ≤ w) (hw' : w ≤ 255) :
    (Tools.abs e w).eval ρ = Spec.abs w (e.eval ρ) := by
  sorry

theorem eval_ones (ρ : Env) (w : Nat) :
    (Tools.ones w).eval ρ = Spec.ones w := by
  sorry

theorem eval_mod (ρ : Env) (a b : Expr) (w : Nat) :
    (Tools.mod a b w).eval ρ = Spec.umod w (a.eval ρ) (b.eval ρ) := by
  sorry

theorem eval_signedMul (ρ : Env) (a b : Expr) (w : Nat) (hw : w ≤ 127)
    (ha : 1 ≤ a.width ∧ a.width ≤ 2 * w) (hb : 1 ≤ b.width ∧ b.width ≤ 2 * w) :
    (Tools.signedMul a b w).eval ρ = Spec.smul w a.width b.width (a.eval ρ) (b.eval ρ) := by
  sorry

theorem eval_signedDiv (ρ : Env) (a b : Expr) (w : Nat) (hw : 1 ≤ w) (hw' : w ≤ 255)
    (ha : a.width = w) (hb : b.width = w) :
    (Tools.signedDiv a b w).eval ρ = Spec.sdiv w (a.eval ρ) (b.eval ρ) := by
  sorry

theorem eval_signedMod (ρ : Env) (a b : Expr) (w : Nat) (hw : 1 ≤ w) (hw' : w ≤ 255)
    (ha : a.width = w) (hb : b.width = w) :
    (Tools.signedMod a b w).eval ρ = Spec.smod w (a.eval ρ) (b.eval ρ) := by
  sorry

theorem eval_signExtend (ρ : Env) (e sb : Expr) (w : Nat)
    (hbit : trunc w (sb.eval ρ) < 8 * w) :
    (Tools.signExtend e sb w).eval ρ = Spec.sext w (trunc w (e.eval ρ)) (trunc w (sb.eval ρ)) := by
  sorry

theorem eval_rshA (ρ : Env) (e s : Expr) (w : Nat) (hw : 1 ≤ w) (hw' : w ≤ 255) :
    (Tools.rshA e s w).eval ρ = Spec.rsha w (e.eval ρ) (trunc w (s.eval ρ)) := by
  sorry

theorem eval_bitNot (ρ : Env) (e : Expr) (w : Nat) :
    (Tools.bitNot e w).eval ρ = Spec.bnot w (e.eval ρ) := by
  sorry

theorem eval_bitAnd (ρ : Env) (a b : Expr) (w : Nat) :
    (Tools.bitAnd a b w).eval ρ = Spec.band w (a.eval ρ) (b.eval ρ) := by
  sorry

theorem eval_bitOr (ρ : Env) (a b : Expr) (w : Nat) :
    (Tools.bitOr a b w).eval ρ = Spec.bor w (a.eval ρ) (b.eval ρ) := by
  sorry

theorem eval_bitXor (ρ : Env) (a b : Expr) (w : Nat) :
    (Tools.bitXor a b w).eval ρ = Spec.bxor w (a.eval ρ) (b.eval ρ) := by
  sorry

theorem eval_bool (ρ : Env) (e : Expr) (he : 1 ≤ e.width) :
    (Tools.bool e).eval ρ = if e.eval ρ = 0 then 0 else 1 := by
  sorry

theorem eval_not (ρ : Env) (e : Expr) (he : 1 ≤ e.width) :
    (Tools.not e).eval ρ = if e.eval ρ = 0 then 1 else 0 := by
  sorry

theorem eval_boolCond (ρ : Env) (c t f : Expr) (w : Nat) :
    (Tools.boolCond c t f w).eval ρ =
      if trunc w (c.eval ρ) ≠ 0 then trunc w (t.eval ρ) else trunc w (f.eval ρ) := by
  sorry

theorem eval_eq (ρ : Env) (a b t f : Expr) (w : Nat) (hw : 1 ≤ w) :
    (Tools.eq a b t f w).eval ρ =
      if trunc w (a.eval ρ) = trunc w (b.eval ρ) then trunc w (t.eval ρ) else trunc w (f.eval ρ) := by
  sorry

theorem eval_lts (ρ : Env) (a b t f : Expr) (w : Nat) (hw : 1 ≤ w) (hw' : w ≤ 255) :
    (Tools.lts a b t f w).eval ρ =
      if toInt w (trunc w (a.eval ρ)) < toInt w (trunc w (b.eval ρ))
      then trunc w (t.eval ρ) else trunc w (f.eval ρ) := by
  sorry

theorem eval_leu (ρ : Env) (a b t f : Expr) (w : Nat) (hw : 1 ≤ w) :
    (Tools.leu a b t f w).eval ρ =
      if trunc w (a.eval ρ) ≤ trunc w (b.eval ρ) then trunc w (t.eval ρ) else trunc w (f.eval ρ) := by
  sorry

theorem eval_les (ρ : Env) (a b t f : Expr) (w : Nat) (hw : 1 ≤ w) (hw' : w ≤ 255) :
    (Tools.les a b t f w).eval ρ =
      if toInt w (trunc w (a.eval ρ)) ≤ toInt w (trunc w (b.eval ρ))
      then trunc w (t.eval ρ) else trunc w (f.eval ρ) := by
  sorry

theorem eval_maskBits (ρ : Env) (e : Expr) (cnt w : Nat) (hw : w ≤ 255) (hc : cnt ≤ 65535)
    (hok : Tools.bitMaskOk cnt w = true) (h1 : w = 1 → cnt < 256) :
    (Tools.maskBits e cnt w).eval ρ = Spec.mask w (e.eval ρ) cnt := by
  sorry

theorem eval_intNegative (ρ : Env) (e : Expr) (w : Nat) (hw : 1 ≤ w) (hw' : w ≤ 255) :
    (Tools.intNegative e w).eval ρ =
      if toInt w (trunc w (e.eval ρ)) < 0 then 2 ^ (8 * w - 1) else 0 := by
  sorry

theorem eval_widthGadget (ρ : Env) (e : Expr) (w : Nat) :
    (newWidthGadget e w).eval ρ = trunc w (e.eval ρ) := by
  sorry

theorem widthGadgetArg_newWidthGadget (e : Expr) (w : Nat) :
    widthGadgetArg (newWidthGadget e w) = some e := by
  sorry

end Mltwist.Lemmas.Gadgets
