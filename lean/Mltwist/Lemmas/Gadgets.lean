import Mltwist.Model.Exprtools
import Mltwist.Spec.Gadgets
import Mltwist.Lemmas.EvalBasic
/-
Helper lemmas for C11: each gadget evaluates to its documented function.
-/
namespace Mltwist.Lemmas.Gadgets
open Mltwist Mltwist.Lemmas.EvalBasic

theorem eval_ones (ρ : Env) (w : Nat) :
    (Tools.ones w).eval ρ = Spec.ones w := by
  simp [Tools.ones, evalBin, nandW_zero_zero, Spec.ones, Spec.M]

theorem eval_bitNot (ρ : Env) (e : Expr) (w : Nat) :
    (Tools.bitNot e w).eval ρ = Spec.bnot w (e.eval ρ) := by
  have h : trunc w (2 ^ (8 * w) - 1) = 2 ^ (8 * w) - 1 :=
    trunc_of_lt (by have := M_pos w; omega)
  simp only [Tools.bitNot, eval_binary, evalBin, eval_ones, Spec.ones, Spec.M, h, Spec.bnot]
  exact nandW_ones (trunc_lt _ _)

theorem eval_bitAnd (ρ : Env) (a b : Expr) (w : Nat) :
    (Tools.bitAnd a b w).eval ρ = Spec.band w (a.eval ρ) (b.eval ρ) := by
  simp only [Tools.bitAnd, eval_bitNot, Spec.bnot, eval_binary, evalBin, Spec.M, Spec.band]
  rw [trunc_of_lt (nandW_lt _ _ _), cpl_nandW _ (trunc_lt _ _)]

theorem eval_bitOr (ρ : Env) (a b : Expr) (w : Nat) :
    (Tools.bitOr a b w).eval ρ = Spec.bor w (a.eval ρ) (b.eval ρ) := by
  have hM := M_pos w
  simp only [Tools.bitOr, eval_bitNot, Spec.bnot, eval_binary, evalBin, Spec.M, Spec.bor]
  have ha := trunc_lt w (a.eval ρ)
  have hb := trunc_lt w (b.eval ρ)
  rw [trunc_of_lt (x := _ - _ - trunc w (a.eval ρ)) (by omega),
    trunc_of_lt (x := _ - _ - trunc w (b.eval ρ)) (by omega), nandW_cpl_cpl ha hb]

theorem eval_bitXor (ρ : Env) (a b : Expr) (w : Nat) :
    (Tools.bitXor a b w).eval ρ = Spec.bxor w (a.eval ρ) (b.eval ρ) := by
  simp only [Tools.bitXor, eval_binary, evalBin, Spec.bxor]
  rw [trunc_of_lt (nandW_lt _ _ _), trunc_of_lt (nandW_lt _ _ _), trunc_of_lt (nandW_lt _ _ _),
    nandW_xor (trunc_lt _ _) (trunc_lt _ _)]

theorem eval_widthGadget (ρ : Env) (e : Expr) (w : Nat) :
    (newWidthGadget e w).eval ρ = trunc w (e.eval ρ) := by
  simp only [newWidthGadget, eval_binary, evalBin, eval_zero, trunc_zero, Nat.add_zero]
  exact trunc_trunc w _

theorem widthGadgetArg_newWidthGadget (e : Expr) (w : Nat) :
    widthGadgetArg (newWidthGadget e w) = some e := by
  simp [newWidthGadget, widthGadgetArg, Expr.zero]

theorem eval_boolCond (ρ : Env) (c t f : Expr) (w : Nat) :
    (Tools.boolCond c t f w).eval ρ =
      if trunc w (c.eval ρ) ≠ 0 then trunc w (t.eval ρ) else trunc w (f.eval ρ) := by
  simp only [Tools.boolCond, eval_less, eval_zero, trunc_zero, Nat.pos_iff_ne_zero]

theorem eval_bool (ρ : Env) (e : Expr) (he : 1 ≤ e.width) :
    (Tools.bool e).eval ρ = if e.eval ρ = 0 then 0 else 1 := by
  simp only [Tools.bool, eval_widthGadget, eval_less, eval_zero, eval_one, trunc_zero,
    trunc_one he, trunc_eval_width]
  by_cases h : e.eval ρ = 0
  · simp [h]
  · have : ¬ e.eval ρ < 1 := by omega
    simp [h, this, trunc_one]

theorem eval_not (ρ : Env) (e : Expr) (he : 1 ≤ e.width) :
    (Tools.not e).eval ρ = if e.eval ρ = 0 then 1 else 0 := by
  simp only [Tools.not, eval_widthGadget, eval_less, eval_zero, eval_one, trunc_zero,
    trunc_one he, trunc_eval_width]
  by_cases h : e.eval ρ = 0
  · simp [h, trunc_one]
  · have : ¬ e.eval ρ < 1 := by omega
    simp [h, this]

theorem eval_negate (ρ : Env) (e : Expr) (w : Nat) :
    (Tools.negate e w).eval ρ = Spec.neg w (e.eval ρ) := by
  have hM := M_pos w
  have hx := trunc_lt w (e.eval ρ)
  simp only [Tools.negate, eval_binary, evalBin, eval_bitNot, Spec.bnot, Spec.M, eval_one]
  rcases Nat.eq_zero_or_pos w with h0 | h0
  · subst h0
    exact eq_of_lt_of_M_one (Nat.mod_lt _ hM) (ofInt_lt _ _) (by simp)
  · rw [trunc_one h0, trunc_of_lt (x := _ - _ - _) (by omega), neg_eq,
      mod_cases (by omega)]
    split <;> split <;> omega

theorem eval_sub (ρ : Env) (a b : Expr) (w : Nat) :
    (Tools.sub a b w).eval ρ = Spec.sub w (trunc w (a.eval ρ)) (trunc w (b.eval ρ)) := by
  have hM := M_pos w
  have ha := trunc_lt w (a.eval ρ)
  have hb := trunc_lt w (b.eval ρ)
  simp only [Tools.sub, eval_binary, evalBin, eval_negate]
  rw [sub_eq ha hb, neg_eq, trunc_of_lt (x := ite _ _ _) (by split <;> omega),
    mod_cases (by split <;> omega)]
  split <;> split <;> split <;> omega

theorem eval_eq (ρ : Env) (a b t f : Expr) (w : Nat) (hw : 1 ≤ w) :
    (Tools.eq a b t f w).eval ρ =
      if trunc w (a.eval ρ) = trunc w (b.eval ρ) then trunc w (t.eval ρ) else trunc w (f.eval ρ) := by
  have ha := trunc_lt w (a.eval ρ)
  have hb := trunc_lt w (b.eval ρ)
  simp only [Tools.eq, eval_less, eval_sub, eval_one, trunc_one hw]
  rw [sub_eq ha hb, trunc_of_lt (x := ite _ _ _) (by split <;> omega)]
  have : (if trunc w (b.eval ρ) ≤ trunc w (a.eval ρ) then trunc w (a.eval ρ) - trunc w (b.eval ρ)
      else trunc w (a.eval ρ) + 2 ^ (8 * w) - trunc w (b.eval ρ)) < 1
      ↔ trunc w (a.eval ρ) = trunc w (b.eval ρ) := by
    split <;> omega
  simp only [this]

theorem eval_leu (ρ : Env) (a b t f : Expr) (w : Nat) (hw : 1 ≤ w) :
    (Tools.leu a b t f w).eval ρ =
      if trunc w (a.eval ρ) ≤ trunc w (b.eval ρ) then trunc w (t.eval ρ) else trunc w (f.eval ρ) := by
  simp only [Tools.leu, eval_less, eval_eq _ _ _ _ _ _ hw]
  split
  · next h => rw [if_pos (Nat.le_of_lt h)]
  · next h =>
    split
    · next h' => rw [if_pos (Nat.le_of_eq h'), trunc_trunc]
    · next h' => rw [if_neg (by omega), trunc_trunc]

theorem eval_mod (ρ : Env) (a b : Expr) (w : Nat) :
    (Tools.mod a b w).eval ρ = Spec.umod w (a.eval ρ) (b.eval ρ) := by
  have hM := M_pos w
  have ha := trunc_lt w (a.eval ρ)
  have hb := trunc_lt w (b.eval ρ)
  simp only [Tools.mod, eval_sub, eval_binary, evalBin, Spec.umod]
  by_cases h0 : trunc w (b.eval ρ) = 0
  · simp only [h0, if_true, Nat.mul_zero, Nat.zero_mod, trunc_zero]
    rw [sub_eq ha hM]; simp
  · simp only [h0, if_false]
    have hdiv : trunc w (a.eval ρ) / trunc w (b.eval ρ) * trunc w (b.eval ρ) ≤ trunc w (a.eval ρ) :=
      Nat.div_mul_le_self _ _
    have hdm := Nat.div_add_mod (trunc w (a.eval ρ)) (trunc w (b.eval ρ))
    have hle : trunc w (a.eval ρ) / trunc w (b.eval ρ) ≤ trunc w (a.eval ρ) := Nat.div_le_self _ _
    rw [trunc_of_lt (x := _ / _) (by omega), Nat.mod_eq_of_lt (by omega),
      trunc_of_lt (x := _ * _) (by omega), sub_eq ha (by omega), if_pos hdiv]
    rw [Nat.mul_comm] at hdm
    omega

theorem width_signBitMask (w : Nat) : (Tools.signBitMask w).width = w := by
  simp only [Tools.signBitMask]
  split
  · exact width_constUint _ _
  · rfl

theorem H_lt_M {w : Nat} (hw : 1 ≤ w) : 2 ^ (8 * w - 1) < 2 ^ (8 * w) :=
  Nat.pow_lt_pow_right (by decide) (by omega)

theorem eval_signBitMask (ρ : Env) {w : Nat} (hw : 1 ≤ w) (hw' : w ≤ 255) :
    (Tools.signBitMask w).eval ρ = 2 ^ (8 * w - 1) := by
  have hHM := H_lt_M hw
  simp only [Tools.signBitMask]
  split
  · rw [eval_constUint, Nat.mod_eq_of_lt hHM]
  · have h1 : (8 * w - 1) % 2 ^ (8 * 2) = 8 * w - 1 := Nat.mod_eq_of_lt (by simp; omega)
    have h2 : 8 * w - 1 < 2 ^ (8 * w) :=
      Nat.lt_of_le_of_lt (Nat.sub_le _ _) Nat.lt_two_pow_self
    simp only [eval_binary, eval_one, eval_constUint, h1, trunc_one hw, trunc_of_lt h2, evalBin]
    rw [if_neg (by omega), Nat.one_mul, Nat.mod_eq_of_lt hHM]

theorem eval_intNegative (ρ : Env) (e : Expr) (w : Nat) (hw : 1 ≤ w) (hw' : w ≤ 255) :
    (Tools.intNegative e w).eval ρ =
      if toInt w (trunc w (e.eval ρ)) < 0 then 2 ^ (8 * w - 1) else 0 := by
  have hx := trunc_lt w (e.eval ρ)
  have hMH := M_eq_two_H hw
  simp only [Tools.intNegative, eval_bitAnd, Spec.band, eval_signBitMask ρ hw hw',
    trunc_of_lt (H_lt_M hw)]
  rw [and_H (by omega)]
  simp only [toInt_neg_iff hx]
  split <;> split <;> omega

theorem eval_abs (ρ : Env) (e : Expr) (w : Nat) (hw : 1 ≤ w) (hw' : w ≤ 255) :
    (Tools.abs e w).eval ρ = Spec.abs w (e.eval ρ) := by
  have hx := trunc_lt w (e.eval ρ)
  have hMH := M_eq_two_H hw
  simp only [Tools.abs, Tools.absMask, width_signBitMask, eval_less, eval_signBitMask ρ hw hw',
    trunc_of_lt (H_lt_M hw), eval_negate]
  rw [abs_eq hw, neg_eq]
  split
  · rfl
  · rw [trunc_of_lt (by split <;> omega)]
    split <;> omega

theorem eval_maskBitsRaw (ρ : Env) (e : Expr) (cnt w : Nat) (hw : w ≤ 255) (hc : cnt ≤ 65535)
    (hok : Tools.bitMaskOk cnt w = true) (h1 : w = 1 → cnt < 256) :
    (Tools.bitAnd e (Tools.bitMaskRaw cnt w) w).eval ρ = Spec.mask w (e.eval ρ) cnt := by
  have hM := M_pos w
  have hx := trunc_lt w (e.eval ρ)
  simp only [eval_bitAnd, Spec.band, Spec.mask]
  rcases Nat.eq_zero_or_pos w with h0 | h0
  · subst h0
    have : trunc 0 (e.eval ρ) = 0 := by simp [trunc, Nat.mod_one]
    simp [this]
  · simp only [Tools.bitMaskRaw]
    split
    · next hle =>
      have hlt : 2 ^ cnt - 1 < 2 ^ (8 * w) := by
        simp only [Tools.bitMaskOk, Bool.or_eq_true, decide_eq_true_eq] at hok
        omega
      rw [eval_constUint, Nat.mod_eq_of_lt hlt, trunc_of_lt hlt, Nat.and_two_pow_sub_one_eq_mod]
    · next hgt =>
      have hc1 : cnt % 2 ^ (8 * 2) = cnt := Nat.mod_eq_of_lt (by simp; omega)
      have hc2 : cnt < 2 ^ (8 * w) := by
        by_cases hw1 : w = 1
        · have := h1 hw1; subst hw1; simpa using this
        · have : 2 ^ 16 ≤ 2 ^ (8 * w) := Nat.pow_le_pow_right (by decide) (by omega)
          have : (2:Nat) ^ 16 = 65536 := by decide
          omega
      simp only [eval_sub, eval_binary, eval_one, eval_constUint, hc1, trunc_one h0,
        trunc_of_lt hc2, evalBin]
      by_cases hge : cnt ≥ 8 * w
      · rw [if_pos hge, trunc_zero, sub_eq hM (by omega), if_neg (by omega)]
        have h2 : 0 + 2 ^ (8 * w) - 1 = 2 ^ (8 * w) - 1 := by omega
        have h3 : 2 ^ (8 * w) ≤ 2 ^ cnt := Nat.pow_le_pow_right (by decide) hge
        rw [h2, trunc_of_lt (x := 2 ^ (8 * w) - 1) (by omega), Nat.and_two_pow_sub_one_eq_mod,
          Nat.mod_eq_of_lt hx,
          Nat.mod_eq_of_lt (by omega)]
      · rw [if_neg hge, Nat.one_mul]
        have h3 : 2 ^ cnt < 2 ^ (8 * w) := Nat.pow_lt_pow_right (by decide) (by omega)
        have h4 : 0 < 2 ^ cnt := Nat.two_pow_pos _
        rw [Nat.mod_eq_of_lt h3, trunc_of_lt h3, sub_eq h3 (by omega), if_pos (by omega),
          trunc_of_lt (x := 2 ^ cnt - 1) (by omega), Nat.and_two_pow_sub_one_eq_mod]

theorem bitMaskOk_clamp (cnt w : Nat) : Tools.bitMaskOk (if cnt > 8 * w then 8 * w else cnt) w = true := by
  simp only [Tools.bitMaskOk, Bool.or_eq_true, decide_eq_true_eq]
  by_cases h : (if cnt > 8 * w then 8 * w else cnt) > 64
  · exact Or.inl h
  · right
    have hle : (if cnt > 8 * w then 8 * w else cnt) ≤ 8 * w := by split <;> omega
    have := Nat.pow_le_pow_right (n := 2) (by decide) hle
    have := Nat.two_pow_pos (if cnt > 8 * w then 8 * w else cnt)
    omega

/-- `MaskBits` for EVERY bit count (the count is clamped to the width since the F34 repair) -/
theorem eval_maskBits (ρ : Env) (e : Expr) (cnt w : Nat) (hw : w ≤ 255) :
    (Tools.maskBits e cnt w).eval ρ = Spec.mask w (e.eval ρ) cnt := by
  have hle : (if cnt > 8 * w then 8 * w else cnt) ≤ 8 * w := by split <;> omega
  simp only [Tools.maskBits, Tools.bitMask]
  rw [eval_maskBitsRaw ρ e _ w hw (by omega) (bitMaskOk_clamp cnt w) (by intro h; subst h; omega)]
  split
  · next hgt =>
    have hx := trunc_lt w (e.eval ρ)
    have h3 : 2 ^ (8 * w) ≤ 2 ^ cnt := Nat.pow_le_pow_right (by decide) (by omega)
    simp only [Spec.mask]
    rw [Nat.mod_eq_of_lt hx, Nat.mod_eq_of_lt (by omega)]
  · rfl

theorem eval_absMask_sign (ρ : Env) (e : Expr) {w : Nat} (hw : 1 ≤ w) (hw' : w ≤ 255) :
    (Tools.absMask e (Tools.signBitMask w)).eval ρ = Spec.abs w (e.eval ρ) :=
  eval_abs ρ e w hw hw'

theorem eval_lts (ρ : Env) (a b t f : Expr) (w : Nat) (hw : 1 ≤ w) (hw' : w ≤ 255) :
    (Tools.lts a b t f w).eval ρ =
      if toInt w (trunc w (a.eval ρ)) < toInt w (trunc w (b.eval ρ))
      then trunc w (t.eval ρ) else trunc w (f.eval ρ) := by
  have hx := trunc_lt w (a.eval ρ)
  have hy := trunc_lt w (b.eval ρ)
  have hMH := M_eq_two_H hw
  have hH := H_pos w
  have hHt := trunc_of_lt (H_lt_M hw)
  simp only [Tools.lts, eval_less, eval_zero, trunc_zero, eval_bitAnd, eval_bitXor, Spec.band,
    Spec.bxor, eval_signBitMask ρ hw hw', hHt, eval_absMask_sign ρ _ hw hw', abs_eq hw]
  rw [and_H (x := trunc w (a.eval ρ)) (by omega), and_H (x := trunc w (b.eval ρ)) (by omega)]
  rw [toInt_eq, toInt_eq]
  generalize trunc w (a.eval ρ) = x at *
  generalize trunc w (b.eval ρ) = y at *
  by_cases h1 : x < 2 ^ (8 * w - 1) <;> by_cases h2 : y < 2 ^ (8 * w - 1) <;>
    simp only [h1, h2, if_true, if_false, trunc_zero, hHt, Nat.xor_self, Nat.zero_xor, Nat.xor_zero,
      Nat.lt_irrefl, hH, trunc_trunc]
  · rw [trunc_ite, trunc_of_lt hx, trunc_of_lt hy]
    exact ite_congr_prop (by omega) _ _
  · rw [if_neg (by omega)]
  · rw [trunc_ite, if_neg (by omega), if_pos (by omega)]
  · rw [trunc_ite, trunc_of_lt (x := 2 ^ (8 * w) - y) (by omega),
      trunc_of_lt (x := 2 ^ (8 * w) - x) (by omega)]
    exact ite_congr_prop (by omega) _ _

theorem eval_les (ρ : Env) (a b t f : Expr) (w : Nat) (hw : 1 ≤ w) (hw' : w ≤ 255) :
    (Tools.les a b t f w).eval ρ =
      if toInt w (trunc w (a.eval ρ)) ≤ toInt w (trunc w (b.eval ρ))
      then trunc w (t.eval ρ) else trunc w (f.eval ρ) := by
  have hx := trunc_lt w (a.eval ρ)
  have hy := trunc_lt w (b.eval ρ)
  simp only [Tools.les, eval_lts _ _ _ _ _ _ hw hw', eval_eq _ _ _ _ _ _ hw]
  split
  · next h => rw [if_pos (Int.le_of_lt h)]
  · next h =>
    split
    · next h' => rw [if_pos (by rw [h']; exact Int.le_refl _), trunc_trunc]
    · next h' =>
      have : toInt w (trunc w (a.eval ρ)) ≠ toInt w (trunc w (b.eval ρ)) :=
        fun hh => h' (toInt_inj hw hx hy hh)
      rw [if_neg (by omega), trunc_trunc]

theorem eval_signExtend (ρ : Env) (e sb : Expr) (w : Nat)
    (hbit : trunc w (sb.eval ρ) < 8 * w) :
    (Tools.signExtend e sb w).eval ρ = Spec.sext w (trunc w (e.eval ρ)) (trunc w (sb.eval ρ)) := by
  have hw : 1 ≤ w := by omega
  have hM := M_pos w
  have hx := trunc_lt w (e.eval ρ)
  generalize hs : trunc w (sb.eval ρ) = s at *
  have hS : 2 ^ s < 2 ^ (8 * w) := Nat.pow_lt_pow_right (by decide) hbit
  have hSpos := Nat.two_pow_pos s
  have hmask : evalBin .lsh w (trunc w 1) s = 2 ^ s := by
    simp only [evalBin, trunc_one hw]
    rw [if_neg (by omega), Nat.one_mul, Nat.mod_eq_of_lt hS]
  have hvm : Spec.sub w (trunc w (2 ^ s)) (trunc w 1) = 2 ^ s - 1 := by
    rw [trunc_one hw, trunc_of_lt hS, sub_eq hS (by omega), if_pos (by omega)]
  simp only [Tools.signExtend, eval_boolCond, eval_bitAnd, eval_bitOr, eval_bitNot, eval_sub,
    eval_binary, eval_one, hs, hmask, hvm, Spec.band, Spec.bor, Spec.bnot, Spec.M, Spec.sext]
  generalize trunc w (e.eval ρ) = x at *
  rw [trunc_of_lt hS, trunc_of_lt (x := 2 ^ s - 1) (by omega),
    trunc_of_lt (x := 2 ^ (8 * w) - 1 - (2 ^ s - 1)) (by omega), and_two_pow,
    Nat.and_two_pow_sub_one_eq_mod, or_high_mask hx (Nat.le_of_lt hbit)]
  have hlo : x % 2 ^ s < 2 ^ s := Nat.mod_lt _ hSpos
  cases hb : x.testBit s
  · simp only [if_false, Bool.false_eq_true, trunc_zero, ne_eq, not_true]
    exact trunc_of_lt (by omega)
  · simp only [if_true, trunc_of_lt hS]
    rw [if_pos (by omega)]
    rfl

theorem eval_rshA (ρ : Env) (e s : Expr) (w : Nat) (hw : 1 ≤ w) (hw' : w ≤ 255) :
    (Tools.rshA e s w).eval ρ = Spec.rsha w (e.eval ρ) (trunc w (s.eval ρ)) := by
  have hM := M_pos w
  have hx := trunc_lt w (e.eval ρ)
  have hMH := M_eq_two_H hw
  have hH := H_pos w
  have hones : trunc w (2 ^ (8 * w) - 1) = 2 ^ (8 * w) - 1 := trunc_of_lt (by omega)
  simp only [Tools.rshA, eval_less, eval_bitOr, eval_sub, eval_binary, eval_ones, Spec.ones, Spec.M,
    eval_signBitMask ρ hw hw', trunc_of_lt (H_lt_M hw), Spec.bor, Spec.rsha, hones, evalBin]
  generalize trunc w (e.eval ρ) = x at *
  generalize trunc w (s.eval ρ) = sh at *
  rw [toInt_eq]
  by_cases h1 : x < 2 ^ (8 * w - 1)
  · simp only [h1, if_true]
    by_cases h2 : sh ≥ 8 * w
    · simp only [h2, if_true, trunc_zero]
      rw [if_neg (by omega)]
      exact (ofInt_natCast w 0).symm
    · simp only [h2, if_false]
      rw [← Int.natCast_ediv, ofInt_natCast]
  · simp only [h1, if_false]
    by_cases h2 : sh ≥ 8 * w
    · simp only [h2, if_true, trunc_zero, Nat.zero_or]
      rw [sub_eq (by omega) hM, if_pos (Nat.zero_le _), if_pos (by omega),
        ofInt_of_neg (by omega) (by omega), Nat.sub_zero, hones, hones]
      omega
    · simp only [h2, if_false]
      have hPpos := Nat.two_pow_pos sh
      have hQpos := Nat.two_pow_pos (8 * w - sh)
      have hMQP : 2 ^ (8 * w) = 2 ^ (8 * w - sh) * 2 ^ sh := by
        rw [← Nat.pow_add]; congr 1; omega
      generalize hP : 2 ^ sh = P at *
      generalize hQ : 2 ^ (8 * w - sh) = Q at *
      have hr : x / P < Q := by
        rw [Nat.div_lt_iff_lt_mul hPpos]; omega
      have hsm : (2 ^ (8 * w) - 1) / P = Q - 1 := by rw [hMQP]; exact pred_div hQpos hPpos
      have hQM : Q ≤ 2 ^ (8 * w) := by
        rw [hMQP]; exact Nat.le_mul_of_pos_right _ hPpos
      have hadd : 2 ^ (8 * w) - 1 - (Q - 1) = Q * (P - 1) := by
        rw [Nat.mul_sub, Nat.mul_one, ← hMQP]; omega
      rw [hsm, trunc_of_lt (x := x / P) (by omega), trunc_of_lt (x := Q - 1) (by omega),
        sub_eq (by omega) (by omega), if_pos (by omega), trunc_of_lt (x := _ - _ - _) (by omega),
        hadd, Nat.or_comm, ← hQ, ← Nat.two_pow_add_eq_or_of_lt (by rw [hQ]; exact hr), hQ, ← hadd]
      have hdiv : ((x : Int) - ((2 ^ (8 * w) : Nat) : Int)) / ((P : Nat) : Int)
          = ((x / P : Nat) : Int) - (Q : Int) := by
        have : (x : Int) - ((2 ^ (8 * w) : Nat) : Int) = (x : Int) + (-(Q : Int)) * (P : Int) := by
          rw [hMQP]; push_cast; rw [Int.neg_mul]; omega
        rw [this, Int.add_mul_ediv_right _ _ (by omega), Int.natCast_ediv]; omega
      rw [hdiv]
      have hr0 : (0 : Int) ≤ ((x / P : Nat) : Int) := Int.natCast_nonneg _
      rw [ofInt_of_neg (by omega) (by omega)]
      rw [trunc_of_lt (by omega)]
      omega

/-- sign extension of a whole `e.width`-byte value to `W` bytes -/
theorem eval_signExtend_const (ρ : Env) (e : Expr) (W : Nat) (h1 : 1 ≤ e.width) (h2 : e.width ≤ W)
    (hW : W ≤ 254) :
    (Tools.signExtend e (Tools.constUint (8 * e.width - 1) 2) W).eval ρ
      = Spec.ofInt W (toInt e.width (e.eval ρ)) := by
  have hlt := eval_lt ρ e
  generalize e.width = w1 at *
  have hMM : 2 ^ (8 * w1) ≤ 2 ^ (8 * W) := Nat.pow_le_pow_right (by decide) (by omega)
  have hMH := M_eq_two_H h1
  have hH := H_pos w1
  have hb1 : (8 * w1 - 1) % 2 ^ (8 * 2) = 8 * w1 - 1 := Nat.mod_eq_of_lt (by simp; omega)
  have hb2 : 8 * w1 - 1 < 2 ^ (8 * W) :=
    Nat.lt_of_le_of_lt (by omega : 8 * w1 - 1 ≤ 8 * W) Nat.lt_two_pow_self
  have hsb : trunc W ((Tools.constUint (8 * w1 - 1) 2).eval ρ) = 8 * w1 - 1 := by
    rw [eval_constUint, hb1, trunc_of_lt hb2]
  rw [eval_signExtend ρ e _ W (by rw [hsb]; omega), hsb, trunc_of_lt (by omega)]
  generalize e.eval ρ = x at *
  simp only [Spec.sext, Spec.M]
  rw [testBit_top (by omega), toInt_eq]
  by_cases hx : x < 2 ^ (8 * w1 - 1)
  · simp only [hx, Nat.not_le.mpr hx, decide_false, if_true, Bool.false_eq_true, if_false]
    rw [Nat.mod_eq_of_lt hx, ofInt_natCast, trunc_of_lt (by omega)]
  · simp only [hx, Nat.le_of_not_lt hx, decide_true, if_true, if_false]
    rw [mod_cases (a := x) (M := 2 ^ (8 * w1 - 1)) (by omega), if_neg hx,
      Nat.mod_eq_of_lt (by omega),
      ofInt_of_neg (by omega) (by omega)]
    omega

theorem eval_signedMul (ρ : Env) (a b : Expr) (w : Nat) (hw : w ≤ 127)
    (ha : 1 ≤ a.width ∧ a.width ≤ 2 * w) (hb : 1 ≤ b.width ∧ b.width ≤ 2 * w) :
    (Tools.signedMul a b w).eval ρ = Spec.smul w a.width b.width (a.eval ρ) (b.eval ρ) := by
  simp only [Tools.signedMul, eval_binary, evalBin,
    eval_signExtend_const ρ a (2 * w) ha.1 ha.2 (by omega),
    eval_signExtend_const ρ b (2 * w) hb.1 hb.2 (by omega), Spec.smul, trunc_eval_width]
  rw [trunc_of_lt (ofInt_lt _ _), trunc_of_lt (ofInt_lt _ _), ofInt_mul]

theorem eval_negativeSignJoin (ρ : Env) (a b : Expr) (w : Nat) (hw : 1 ≤ w) (hw' : w ≤ 255)
    (ha : a.width = w) (hb : b.width = w) :
    (Tools.negativeSignJoin a b).eval ρ =
      if (decide (toInt w (trunc w (a.eval ρ)) < 0) != decide (toInt w (trunc w (b.eval ρ)) < 0))
      then 1 else 0 := by
  have hH := H_pos w
  have hwi : ∀ e : Expr, 1 ≤ (Tools.intNegative e w).width := fun e => hw
  simp only [Tools.negativeSignJoin, ha, hb, eval_bitXor, Spec.bxor, eval_bool _ _ (hwi _),
    eval_intNegative _ _ _ hw hw']
  by_cases h1 : toInt w (trunc w (a.eval ρ)) < 0 <;> by_cases h2 : toInt w (trunc w (b.eval ρ)) < 0
    <;> simp [h1, h2, trunc_one (Nat.le_refl 1)]

theorem eval_signedOp (ρ : Env) (a b : Expr) (w : Nat) (f : Expr → Expr → Nat → Expr)
    (hw : 1 ≤ w) (hw' : w ≤ 255) (ha : a.width = w) (hb : b.width = w) :
    (Tools.signedOp a b w f).eval ρ =
      if (decide (toInt w (trunc w (a.eval ρ)) < 0) != decide (toInt w (trunc w (b.eval ρ)) < 0))
      then Spec.neg w ((f (Tools.abs a w) (Tools.abs b w) w).eval ρ)
      else trunc w ((f (Tools.abs a w) (Tools.abs b w) w).eval ρ) := by
  simp only [Tools.signedOp, eval_boolCond, eval_negativeSignJoin ρ a b w hw hw' ha hb, ha, hb,
    eval_negate]
  split
  · simp only [trunc_one hw]; exact trunc_of_lt (ofInt_lt _ _)
  · simp only [trunc_zero]; simp

theorem eval_signedDiv (ρ : Env) (a b : Expr) (w : Nat) (hw : 1 ≤ w) (hw' : w ≤ 255)
    (ha : a.width = w) (hb : b.width = w) :
    (Tools.signedDiv a b w).eval ρ = Spec.sdiv w (a.eval ρ) (b.eval ρ) := by
  have hM := M_pos w
  have hx := trunc_lt w (a.eval ρ)
  have hy := trunc_lt w (b.eval ρ)
  simp only [Tools.signedDiv, eval_boolCond, eval_signedOp ρ a b w _ hw hw' ha hb, eval_ones,
    eval_binary, evalBin, eval_abs _ _ _ hw hw', abs_eq_natAbs hw, Spec.sdiv, Spec.ones, Spec.M]
  generalize trunc w (a.eval ρ) = x at *
  generalize trunc w (b.eval ρ) = y at *
  have hA := natAbs_toInt_lt hw hx
  have hB := natAbs_toInt_lt hw hy
  rw [trunc_of_lt hA, trunc_of_lt hB]
  by_cases hy0 : y = 0
  · subst hy0
    have : toInt w 0 = 0 := (toInt_eq_zero_iff hw hy).mpr rfl
    simp only [this, if_true, ne_eq, not_true, if_false]
    exact trunc_of_lt (by omega)
  · have hb0 : toInt w y ≠ 0 := fun h => hy0 ((toInt_eq_zero_iff hw hy).mp h)
    have hB0 : (toInt w y).natAbs ≠ 0 := by omega
    simp only [hb0, hy0, hB0, if_false, ne_eq, not_false_eq_true, if_true]
    have hU : (toInt w x).natAbs / (toInt w y).natAbs < 2 ^ (8 * w) :=
      Nat.lt_of_le_of_lt (Nat.div_le_self _ _) hA
    rw [tdiv_eq]
    split
    · rw [trunc_of_lt (x := Spec.neg w _) (ofInt_lt _ _)]; rfl
    · rw [trunc_trunc, ofInt_natCast]

theorem eval_signedMod (ρ : Env) (a b : Expr) (w : Nat) (hw : 1 ≤ w) (hw' : w ≤ 255)
    (ha : a.width = w) (hb : b.width = w) :
    (Tools.signedMod a b w).eval ρ = Spec.smod w (a.eval ρ) (b.eval ρ) := by
  have hx := trunc_lt w (a.eval ρ)
  have hy := trunc_lt w (b.eval ρ)
  simp only [Tools.signedMod, eval_signedOp ρ a b w _ hw hw' ha hb, eval_mod,
    eval_abs _ _ _ hw hw', abs_eq_natAbs hw, Spec.smod, Spec.umod]
  generalize trunc w (a.eval ρ) = x at *
  generalize trunc w (b.eval ρ) = y at *
  have hA := natAbs_toInt_lt hw hx
  have hB := natAbs_toInt_lt hw hy
  rw [trunc_of_lt hA, trunc_of_lt hB]
  have hm : ((if (toInt w y).natAbs = 0 then (toInt w x).natAbs
        else (toInt w x).natAbs % (toInt w y).natAbs : Nat) : Int)
      = if toInt w y = 0 then ((toInt w x).natAbs : Int)
        else (((toInt w x).natAbs % (toInt w y).natAbs : Nat) : Int) := by
    by_cases h : toInt w y = 0
    · simp [h]
    · have : (toInt w y).natAbs ≠ 0 := by omega
      simp [h, this]
  rw [← hm]
  split
  · rfl
  · rw [ofInt_natCast]

end Mltwist.Lemmas.Gadgets
