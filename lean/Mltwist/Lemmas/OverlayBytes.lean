import Mltwist.Lemmas.SparseOr
/-
C16, part 1: bytes of little-endian sums, of shifted sums and of bitwise ors.
-/
namespace Mltwist.Lemmas.Overlay
open Mltwist Mltwist.Spec.Sparse
open Mltwist.Lemmas.Sparse (byteOf sumBytes_lt sumBytes_add sumBytes_congr slice_eq_sum pow8_eq)
open Mltwist.Lemmas.Bytes (pow256_pos pow256_succ pow256_add)

theorem byteOf_of_lt {v j : Nat} (h : v < 256 ^ j) : byteOf v j = 0 := by
  unfold byteOf
  rw [Nat.div_eq_of_lt h]

/-- byte `j` of `A + c * 256^n` for `A < 256^n` -/
theorem byteOf_add_top {A c n : Nat} (hA : A < 256 ^ n) (hc : c < 256) (j : Nat) :
    byteOf (A + c * 256 ^ n) j = if j < n then byteOf A j else if j = n then c else 0 := by
  by_cases h1 : j < n
  · rw [if_pos h1]
    unfold byteOf
    obtain ⟨d, rfl⟩ : ∃ d, n = j + (d + 1) := ⟨n - j - 1, by omega⟩
    have e : c * (256 ^ j * 256 ^ (d + 1)) = 256 ^ j * (c * 256 ^ (d + 1)) := Nat.mul_left_comm _ _ _
    have e2 : c * (256 * 256 ^ d) = 256 * (c * 256 ^ d) := Nat.mul_left_comm _ _ _
    rw [pow256_add, e, Nat.add_mul_div_left _ _ (pow256_pos j), pow256_succ, e2, Nat.add_mul_mod_self_left]
  · rw [if_neg h1]
    by_cases h2 : j = n
    · rw [if_pos h2, h2]
      unfold byteOf
      rw [Nat.add_mul_div_right _ _ (pow256_pos n), Nat.div_eq_of_lt hA, Nat.zero_add, Nat.mod_eq_of_lt hc]
    · rw [if_neg h2]
      apply byteOf_of_lt
      have h3 : A + c * 256 ^ n < 256 ^ (n + 1) := by
        rw [pow256_succ]
        have : c * 256 ^ n ≤ 255 * 256 ^ n := Nat.mul_le_mul_right _ (by omega)
        omega
      exact Nat.lt_of_lt_of_le h3 (Nat.pow_le_pow_right (by decide) (by omega))

/-- the bytes of a little-endian sum of bytes -/
theorem byteOf_sumBytes (f : Nat → Nat) (hf : ∀ i, f i < 256) : ∀ n j,
    byteOf (sumBytes f n) j = if j < n then f j else 0
  | 0, j => by simp [sumBytes, byteOf]
  | n + 1, j => by
    rw [sumBytes, byteOf_add_top (sumBytes_lt f hf n) (hf n), byteOf_sumBytes f hf n j]
    by_cases h1 : j < n
    · simp [h1, Nat.lt_succ_of_lt h1]
    · by_cases h2 : j = n
      · simp [h2]
      · have h3 : ¬ j < n + 1 := by omega
        simp [h1, h2, h3]

/-- a number below `256^w` is the sum of its bytes -/
theorem eq_sum_of_bytes {v w : Nat} (hv : v < 256 ^ w) : v = sumBytes (fun j => byteOf v j) w := by
  have := slice_eq_sum v 0 w
  simp only [Nat.pow_zero, Nat.div_one, Nat.zero_add] at this
  rw [← this, Nat.mod_eq_of_lt hv]

/-- a sum of `m` bytes shifted up by `k` bytes is the sum of `k` zero bytes followed by these bytes -/
theorem shift_sumBytes (g : Nat → Nat) (k m : Nat) :
    sumBytes g m * 256 ^ k = sumBytes (fun i => if i < k then 0 else g (i - k)) (k + m) := by
  rw [sumBytes_add]
  have h0 : sumBytes (fun i => if i < k then 0 else g (i - k)) k = 0 := by
    have : ∀ n, n ≤ k → sumBytes (fun i => if i < k then 0 else g (i - k)) n = 0 := by
      intro n
      induction n with
      | zero => intro _; rfl
      | succ n ih =>
        intro hn
        rw [sumBytes, ih (by omega), if_pos (by omega)]
        simp
    exact this k (Nat.le_refl k)
  rw [h0, Nat.zero_add, Nat.mul_comm]
  congr 1
  apply sumBytes_congr
  intro i _
  rw [if_neg (by omega), Nat.add_sub_cancel_left]

theorem byteOf_or (x y j : Nat) : byteOf (x ||| y) j = byteOf x j ||| byteOf y j := by
  unfold byteOf
  have h256 : (256 : Nat) = 2 ^ 8 := by decide
  have hp : (256 : Nat) ^ j = 2 ^ (8 * j) := by rw [h256, ← Nat.pow_mul]
  rw [hp, h256, ← Nat.shiftRight_eq_div_pow, ← Nat.shiftRight_eq_div_pow, ← Nat.shiftRight_eq_div_pow,
    Nat.shiftRight_or_distrib, Nat.or_mod_two_pow]

theorem or_lt_pow256 {x y w : Nat} (hx : x < 256 ^ w) (hy : y < 256 ^ w) : x ||| y < 256 ^ w := by
  rw [← pow8_eq] at hx hy ⊢
  exact Nat.or_lt_two_pow hx hy

end Mltwist.Lemmas.Overlay
