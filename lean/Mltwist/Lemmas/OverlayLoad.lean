import Mltwist.Lemmas.OverlayBytes
import Mltwist.Lemmas.Interval
import Mltwist.Spec.OverlayAbs
/-
C16, part 2: `Overlay.Load` over two views that satisfy the memory laws.
-/
namespace Mltwist.Lemmas.Overlay
open Mltwist Mltwist.Overlay Mltwist.Interval Mltwist.Spec.Overlay
open Mltwist.Spec.Sparse (sumBytes)
open Mltwist.Lemmas.Sparse (sumBytes_lt sumBytes_congr pow8_eq eval_bitOr' bitOr_width)
open Mltwist.Lemmas.Bytes (pow256_pos pow256_add)

/-- byte `j` of a number -/
abbrev nbyte (v j : Nat) : Nat := Lemmas.Sparse.byteOf v j

/-! ### abstract byte maps -/

theorem layer_none {u b : AbsMem} {x : Nat} : layer u b x = none ↔ u x = none ∧ b x = none := by
  unfold layer
  cases u x <;> simp

theorem layer_of_some {u b : AbsMem} {x : Nat} (h : u x ≠ none) : layer u b x = u x := by
  unfold layer
  cases hu : u x with
  | none => exact absurd hu h
  | some v => rfl

theorem layer_of_none {u b : AbsMem} {x : Nat} (h : u x = none) : layer u b x = b x := by
  unfold layer
  rw [h]

theorem bytewise_layer {u b : AbsMem} (hu : Bytewise u) (hb : Bytewise b) : Bytewise (layer u b) := by
  intro x v hv ρ
  by_cases h : u x = none
  · rw [layer_of_none h] at hv
    exact hb x v hv ρ
  · rw [layer_of_some h] at hv
    exact hu x v hv ρ

theorem byteOf_lt {m : AbsMem} (hm : Bytewise m) (ρ : Env) (x : Nat) : byteOf ρ (m x) < 256 := by
  cases h : m x with
  | none => simp [byteOf]
  | some v => exact hm x v h ρ

theorem loadVal_congr {m m' : AbsMem} {a w : Nat} (h : ∀ i, i < w → m (a + i) = m' (a + i)) (ρ : Env) :
    loadVal ρ m a w = loadVal ρ m' a w := by
  unfold loadVal
  exact sumBytes_congr w (fun i hi => by rw [h i hi])

theorem loadVal_lt {m : AbsMem} (hm : Bytewise m) (ρ : Env) (a w : Nat) : loadVal ρ m a w < 256 ^ w :=
  sumBytes_lt _ (fun i => byteOf_lt hm ρ (a + i)) w

/-- the load law of a view transported to a byte map that agrees on the range -/
theorem load_transfer {v : View} {m L : AbsMem} {a w : Nat} (hl : MemLaws v m) (hd : InDom a w)
    (heq : ∀ i, i < w → L (a + i) = m (a + i)) :
    ∃ r, v.load a w = .ok r ∧ (r ≠ none ↔ ∀ i, i < w → L (a + i) ≠ none) ∧
      ∀ e, r = some e → e.width = w ∧ ∀ ρ, e.eval ρ = loadVal ρ L a w := by
  obtain ⟨r, h1, h2, h3⟩ := hl.load a w hd
  refine ⟨r, h1, ?_, fun e he => ⟨(h3 e he).1, fun ρ => ?_⟩⟩
  · rw [h2]
    constructor
    · intro h i hi; rw [heq i hi]; exact h i hi
    · intro h i hi; rw [← heq i hi]; exact h i hi
  · rw [(h3 e he).2 ρ]
    exact (loadVal_congr heq ρ).symm

/-! ### sub-intervals of the loaded range -/

/-- a non-empty interval inside `[a, a+w)` -/
def Sub (a w : Nat) (i : Intv) : Prop := (a : Int) ≤ i.1 ∧ i.1 < i.2 ∧ i.2 ≤ ((a + w : Nat) : Int)

theorem sub_facts {a w : Nat} {i : Intv} (h : Sub a w i) (hw : w ≤ 255) :
    a ≤ ibegin i ∧ 1 ≤ ilen i ∧ ibegin i + ilen i ≤ a + w ∧ i.1 = (ibegin i : Int) ∧
      i.2 = ((ibegin i + ilen i : Nat) : Int) := by
  obtain ⟨h1, h2, h3⟩ := h
  unfold ibegin ilen
  omega

theorem sub_inDom {a w : Nat} {i : Intv} (h : Sub a w i) (hd : InDom a w) : InDom (ibegin i) (ilen i) := by
  obtain ⟨h1, h2, h3⟩ := hd
  have := sub_facts h h2
  exact ⟨by omega, by omega, by omega⟩

/-- a read of the interval `intv` that denotes the bytes of `L` -/
def GoodRead (L : AbsMem) (a w : Nat) (rd : RangeRead) : Prop :=
  Sub a w rd.intv ∧ rd.ex.width = ilen rd.intv ∧
    ∀ ρ, rd.ex.eval ρ = loadVal ρ L (ibegin rd.intv) (ilen rd.intv)

/-- `x` lies in the interval `i` -/
def In (x : Nat) (i : Intv) : Prop := i.1 ≤ (x : Int) ∧ (x : Int) < i.2

instance (x : Nat) (i : Intv) : Decidable (In x i) := by unfold In; infer_instance

/-- the loop over the missing intervals: it never panics, fails exactly when the base lacks a byte, and
otherwise returns one good read per interval -/
theorem readBase_spec {b : View} {mb L : AbsMem} (hb : MemLaws b mb) {a w : Nat} (hd : InDom a w) :
    ∀ l : List Intv, (∀ i ∈ l, Sub a w i) → (∀ i ∈ l, ∀ x : Nat, In x i → L x = mb x) →
      ∃ r, readBase b l = .ok r ∧ (r ≠ none ↔ ∀ i ∈ l, ∀ x : Nat, In x i → mb x ≠ none) ∧
        ∀ rs, r = some rs → rs.map (·.intv) = l ∧ ∀ rd ∈ rs, GoodRead L a w rd
  | [], _, _ => ⟨some [], rfl, by simp, fun rs h => by cases h; simp⟩
  | i :: is, hsub, hL => by
    have hi := hsub i List.mem_cons_self
    have hf := sub_facts hi hd.2.1
    obtain ⟨r0, h1, h2, h3⟩ := load_transfer (L := L) hb (sub_inDom hi hd) (fun k hk =>
      hL i List.mem_cons_self (ibegin i + k) (by unfold In; omega))
    obtain ⟨r', g1, g2, g3⟩ := readBase_spec hb hd is (fun j hj => hsub j (List.mem_cons_of_mem _ hj))
      (fun j hj => hL j (List.mem_cons_of_mem _ hj))
    have hpres : r0 ≠ none ↔ ∀ x : Nat, In x i → mb x ≠ none := by
      rw [h2]
      constructor
      · intro h x hx
        unfold In at hx
        have := h (x - ibegin i) (by omega)
        rw [hL i List.mem_cons_self _ (by unfold In; omega)] at this
        rwa [show ibegin i + (x - ibegin i) = x by omega] at this
      · intro h k hk
        rw [hL i List.mem_cons_self _ (by unfold In; omega)]
        exact h (ibegin i + k) (by unfold In; omega)
    cases r0 with
    | none =>
      refine ⟨none, by simp [readBase, h1], ?_, fun rs h => by cases h⟩
      simp only [ne_eq, not_true_eq_false, false_iff]
      intro hall
      exact (hpres.2 (fun x hx => hall i List.mem_cons_self x hx)) rfl
    | some ex =>
      have hall0 := hpres.1 (by simp)
      cases r' with
      | none =>
        refine ⟨none, by simp [readBase, h1, g1], ?_, fun rs h => by cases h⟩
        simp only [ne_eq, not_true_eq_false, false_iff]
        intro hall
        exact (g2.2 (fun j hj x hx => hall j (List.mem_cons_of_mem _ hj) x hx)) rfl
      | some rs' =>
        refine ⟨some (⟨i, ex⟩ :: rs'), by simp [readBase, h1, g1], ?_, ?_⟩
        · simp only [ne_eq, reduceCtorEq, not_false_eq_true, true_iff]
          intro j hj x hx
          rcases List.mem_cons.1 hj with rfl | hj
          · exact hall0 x hx
          · exact g2.1 (by simp) j hj x hx
        · intro rs hrs
          simp only [Option.some.injEq] at hrs
          subst hrs
          obtain ⟨q1, q2⟩ := g3 rs' rfl
          refine ⟨by simp [q1], fun rd hrd => ?_⟩
          rcases List.mem_cons.1 hrd with rfl | hrd
          · exact ⟨hi, (h3 ex rfl).1, (h3 ex rfl).2⟩
          · exact q2 rd hrd

/-- the loop over the other intervals: all their bytes are in the overlay, so the
`bug: read from overlay memory range` panic is not reached -/
theorem readOver_spec {o : View} {mo L : AbsMem} (ho : MemLaws o mo) {a w : Nat} (hd : InDom a w) :
    ∀ l : List Intv, (∀ i ∈ l, Sub a w i) → (∀ i ∈ l, ∀ x : Nat, In x i → mo x ≠ none ∧ L x = mo x) →
      ∃ rs, readOver o l = .ok rs ∧ rs.map (·.intv) = l ∧ ∀ rd ∈ rs, GoodRead L a w rd
  | [], _, _ => ⟨[], rfl, rfl, by simp⟩
  | i :: is, hsub, hL => by
    have hi := hsub i List.mem_cons_self
    have hf := sub_facts hi hd.2.1
    obtain ⟨r0, h1, h2, h3⟩ := load_transfer (L := L) ho (sub_inDom hi hd) (fun k hk =>
      (hL i List.mem_cons_self (ibegin i + k) (by unfold In; omega)).2)
    obtain ⟨rs', g1, g2, g3⟩ := readOver_spec ho hd is (fun j hj => hsub j (List.mem_cons_of_mem _ hj))
      (fun j hj => hL j (List.mem_cons_of_mem _ hj))
    have hne : r0 ≠ none := h2.2 (fun k hk => by
      have := hL i List.mem_cons_self (ibegin i + k) (by unfold In; omega)
      rw [this.2]; exact this.1)
    cases r0 with
    | none => exact absurd rfl hne
    | some ex =>
      refine ⟨⟨i, ex⟩ :: rs', by simp [readOver, h1, g1], by simp [g2], fun rd hrd => ?_⟩
      rcases List.mem_cons.1 hrd with rfl | hrd
      · exact ⟨hi, (h3 ex rfl).1, (h3 ex rfl).2⟩
      · exact g3 rd hrd

/-! ### `sort.Slice` -/

theorem mem_insertRead (x y : RangeRead) : ∀ l : List RangeRead, y ∈ insertRead x l ↔ y = x ∨ y ∈ l
  | [] => by simp [insertRead]
  | z :: zs => by
    unfold insertRead
    split
    · simp
    · simp only [List.mem_cons, mem_insertRead x y zs]
      constructor
      · rintro (h | h | h) <;> simp [h]
      · rintro (h | h | h) <;> simp [h]

theorem mem_sortReads (y : RangeRead) (l : List RangeRead) : y ∈ sortReads l ↔ y ∈ l := by
  unfold sortReads
  have : ∀ (l acc : List RangeRead), y ∈ l.foldl (fun acc x => insertRead x acc) acc ↔ y ∈ l ∨ y ∈ acc := by
    intro l
    induction l with
    | nil => intro acc; simp
    | cons x xs ih =>
      intro acc
      rw [List.foldl_cons, ih, mem_insertRead, List.mem_cons]
      constructor
      · rintro (h | h | h) <;> simp [h]
      · rintro ((h | h) | h) <;> simp [h]
  simpa using this l []

/-- the head of a list is a least element -/
def HeadMin : List RangeRead → Prop
  | [] => True
  | x :: xs => (∀ y ∈ xs, x.intv.1 ≤ y.intv.1) ∧ HeadMin xs

theorem headMin_insert (x : RangeRead) : ∀ l : List RangeRead, HeadMin l → HeadMin (insertRead x l)
  | [], _ => ⟨by simp, trivial⟩
  | z :: zs, h => by
    unfold insertRead
    split
    · rename_i hlt
      refine ⟨fun y hy => ?_, h⟩
      rcases List.mem_cons.1 hy with rfl | hy
      · omega
      · have := h.1 y hy; omega
    · rename_i hge
      refine ⟨fun y hy => ?_, headMin_insert x zs h.2⟩
      rcases (mem_insertRead x y zs).1 hy with rfl | hy
      · omega
      · exact h.1 y hy

theorem headMin_sortReads (l : List RangeRead) : HeadMin (sortReads l) := by
  unfold sortReads
  have : ∀ (l acc : List RangeRead), HeadMin acc → HeadMin (l.foldl (fun acc x => insertRead x acc) acc) := by
    intro l
    induction l with
    | nil => intro acc h; exact h
    | cons x xs ih => intro acc h; exact ih _ (headMin_insert x acc h)
  exact this l [] trivial

/-! ### the composition loop -/

/-- some read of `S` covers the address `a + j` -/
def Cov (a : Nat) (S : List RangeRead) (j : Nat) : Prop := ∃ rd ∈ S, In (a + j) rd.intv

/-- the accumulated value `V` holds the right byte wherever a read of `S` covers it and zero elsewhere -/
def BInv (ρ : Env) (L : AbsMem) (a w V : Nat) (S : List RangeRead) : Prop :=
  V < 256 ^ w ∧ ∀ j, j < w →
    (Cov a S j → nbyte V j = byteOf ρ (L (a + j))) ∧ (¬ Cov a S j → nbyte V j = 0)

/-- the value of a good read shifted to its place, byte by byte -/
theorem piece_bytes {L : AbsMem} (hL : Bytewise L) {a w : Nat} (hw : w ≤ 255) {rd : RangeRead}
    (hg : GoodRead L a w rd) (ρ : Env) :
    let P := rd.ex.eval ρ * 256 ^ (ibegin rd.intv - a)
    P < 256 ^ w ∧ ∀ j, nbyte P j = if In (a + j) rd.intv then byteOf ρ (L (a + j)) else 0 := by
  obtain ⟨hs, _, he⟩ := hg
  have hf := sub_facts hs hw
  intro P
  have hP : P = sumBytes (fun i => if i < ibegin rd.intv - a then 0
      else byteOf ρ (L (ibegin rd.intv + (i - (ibegin rd.intv - a))))) ((ibegin rd.intv - a) + ilen rd.intv) := by
    show rd.ex.eval ρ * 256 ^ (ibegin rd.intv - a) = _
    rw [he ρ]
    unfold loadVal
    exact shift_sumBytes _ _ _
  have hlt : ∀ i, (fun i => if i < ibegin rd.intv - a then 0
      else byteOf ρ (L (ibegin rd.intv + (i - (ibegin rd.intv - a))))) i < 256 := by
    intro i
    simp only
    split
    · omega
    · exact byteOf_lt hL ρ _
  constructor
  · rw [hP]
    exact Nat.lt_of_lt_of_le (sumBytes_lt _ hlt _) (Nat.pow_le_pow_right (by decide) (by omega))
  · intro j
    unfold nbyte
    rw [hP, byteOf_sumBytes _ hlt]
    have hin : In (a + j) rd.intv ↔
        (ibegin rd.intv - a ≤ j ∧ j < ibegin rd.intv - a + ilen rd.intv) := by
      unfold In; omega
    by_cases h1 : j < ibegin rd.intv - a + ilen rd.intv
    · rw [if_pos h1]
      by_cases h2 : j < ibegin rd.intv - a
      · rw [if_pos h2, if_neg (fun h => by have := hin.1 h; omega)]
      · rw [if_neg h2, if_pos (hin.2 ⟨by omega, h1⟩)]
        rw [show ibegin rd.intv + (j - (ibegin rd.intv - a)) = a + j by omega]
    · rw [if_neg h1, if_neg (fun h => by have := hin.1 h; omega)]

/-- evaluation of `offsetExpr` for a good read -/
theorem offset_eval {L : AbsMem} (hL : Bytewise L) {a w : Nat} (hw : w ≤ 255) (ha : a + w < 2 ^ 64)
    {rd : RangeRead} (hg : GoodRead L a w rd) (ρ : Env) :
    (offsetExpr rd.ex (Sparse.sub64 (ibegin rd.intv) a % 256) w).eval ρ
      = rd.ex.eval ρ * 256 ^ (ibegin rd.intv - a) := by
  have hpb := (piece_bytes hL hw hg ρ).1
  obtain ⟨hs, _, he⟩ := hg
  have hf := sub_facts hs hw
  generalize hk : ibegin rd.intv - a = k at hpb
  have hsub : Sparse.sub64 (ibegin rd.intv) a % 256 = k := by
    unfold Sparse.sub64
    omega
  have hC : rd.ex.eval ρ < 256 ^ w := by
    rw [he ρ]
    exact Nat.lt_of_lt_of_le (loadVal_lt hL ρ _ _) (Nat.pow_le_pow_right (by decide) (by omega))
  have hCw : rd.ex.eval ρ < 2 ^ (8 * w) := by rw [pow8_eq]; exact hC
  have hk8 : k * 8 < 2 ^ (8 * w) := by
    rw [pow8_eq]
    rcases Nat.eq_zero_or_pos k with h0 | h0
    · rw [h0]; exact pow256_pos w
    · have h16 : (256 : Nat) ^ 2 ≤ 256 ^ w := Nat.pow_le_pow_right (by decide) (by omega)
      omega
  have hk16 : k % 256 * 8 % 256 ^ 2 = k * 8 := by omega
  rw [hsub]
  simp only [offsetExpr, Expr.eval, Tools.constUint, Bytes.leToNat_natToLE_pow256, hk16]
  rw [Transform.trunc_of_lt hCw, Transform.trunc_of_lt hk8]
  unfold evalBin
  simp only
  rw [if_neg (by omega), Nat.mul_comm k 8, pow8_eq, pow8_eq, Nat.mod_eq_of_lt hpb]

/-- one step of the loop: or-ing in a good read extends the covered set -/
theorem binv_step {L : AbsMem} (hL : Bytewise L) {a w : Nat} (hw : w ≤ 255) {rd : RangeRead}
    (hg : GoodRead L a w rd) (ρ : Env) {V : Nat} {S : List RangeRead} (hV : BInv ρ L a w V S) :
    BInv ρ L a w (V ||| rd.ex.eval ρ * 256 ^ (ibegin rd.intv - a)) (rd :: S) := by
  obtain ⟨hP1, hP2⟩ := piece_bytes hL hw hg ρ
  refine ⟨or_lt_pow256 hV.1 hP1, fun j hj => ?_⟩
  have hcov : Cov a (rd :: S) j ↔ In (a + j) rd.intv ∨ Cov a S j := by
    unfold Cov
    constructor
    · rintro ⟨r, hr, hin⟩
      rcases List.mem_cons.1 hr with rfl | hr
      · exact Or.inl hin
      · exact Or.inr ⟨r, hr, hin⟩
    · rintro (h | ⟨r, hr, hin⟩)
      · exact ⟨rd, List.mem_cons_self, h⟩
      · exact ⟨r, List.mem_cons_of_mem _ hr, hin⟩
  have hb := hV.2 j hj
  simp only [nbyte] at hb hP2 ⊢
  rw [byteOf_or, hP2 j]
  by_cases h1 : In (a + j) rd.intv <;> by_cases h2 : Cov a S j
  · refine ⟨fun _ => ?_, fun h => absurd (hcov.2 (Or.inl h1)) h⟩
    rw [hb.1 h2, if_pos h1, Nat.or_self]
  · refine ⟨fun _ => ?_, fun h => absurd (hcov.2 (Or.inl h1)) h⟩
    rw [hb.2 h2, if_pos h1, Nat.zero_or]
  · refine ⟨fun _ => ?_, fun h => absurd (hcov.2 (Or.inr h2)) h⟩
    rw [hb.1 h2, if_neg h1, Nat.or_zero]
  · refine ⟨fun h => ?_, fun _ => ?_⟩
    · rcases hcov.1 h with h | h
      · exact absurd h h1
      · exact absurd h h2
    · rw [hb.2 h2, if_neg h1, Nat.or_zero]

/-- the whole loop -/
theorem combine_spec {L : AbsMem} (hL : Bytewise L) {a w : Nat} (hw : w ≤ 255) (ha : a + w < 2 ^ 64)
    (ρ : Env) : ∀ (rs : List RangeRead) (acc : Expr) (S : List RangeRead),
      (∀ rd ∈ rs, GoodRead L a w rd) → BInv ρ L a w (acc.eval ρ) S →
      BInv ρ L a w ((combine a w rs acc).eval ρ) (rs.reverse ++ S)
  | [], acc, S, _, h => by simpa [combine] using h
  | r :: rs, acc, S, hg, h => by
    have hr := hg r List.mem_cons_self
    have hstep := binv_step hL hw hr ρ h
    have hev : (Tools.bitOr acc (offsetExpr r.ex (Sparse.sub64 (ibegin r.intv) a % 256) w) w).eval ρ
        = acc.eval ρ ||| r.ex.eval ρ * 256 ^ (ibegin r.intv - a) := by
      rw [eval_bitOr', offset_eval hL hw ha hr ρ]
      have h1 : acc.eval ρ < 2 ^ (8 * w) := by rw [pow8_eq]; exact h.1
      have h2 : r.ex.eval ρ * 256 ^ (ibegin r.intv - a) < 2 ^ (8 * w) := by
        rw [pow8_eq]; exact (piece_bytes hL hw hr ρ).1
      rw [Transform.trunc_of_lt h1, Transform.trunc_of_lt h2]
    have := combine_spec hL hw ha ρ rs _ (r :: S) (fun rd hrd => hg rd (List.mem_cons_of_mem _ hrd))
      (by rw [hev]; exact hstep)
    simpa [combine] using this

theorem combine_width (a w : Nat) : ∀ (rs : List RangeRead) (acc : Expr), rs ≠ [] →
    (combine a w rs acc).width = w
  | [], _, h => absurd rfl h
  | [r], acc, _ => by simp [combine, bitOr_width]
  | r :: r2 :: rs, acc, _ => by
    rw [combine]
    exact combine_width a w (r2 :: rs) _ (by simp)

end Mltwist.Lemmas.Overlay
