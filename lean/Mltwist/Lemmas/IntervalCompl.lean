import Mltwist.Lemmas.IntervalInter
/-
`complement` / `mapComplementLoop`: accumulator-free description of the single-interval step,
its properties, and the loop invariant.
-/
namespace Mltwist.Lemmas.Interval
open Mltwist.Interval

/-! ### the single-interval step -/

/-- pieces produced by `complement` -/
def compPieces (intv : Intv) : List Intv → List Intv
  | [] => [intv]
  | s :: rest =>
    if s.2 ≤ intv.1 then compPieces intv rest
    else if intv.2 ≤ s.1 then [intv]
    else
      (if intv.1 < s.1 then [(intv.1, s.1)] else []) ++
        (if s.2 < intv.2 then compPieces (s.2, intv.2) rest else [])

/-- index (relative to the start of `sub`) reported by `complement` -/
def compIdx (intv : Intv) : List Intv → Int
  | [] => -1
  | s :: rest =>
    if s.2 ≤ intv.1 then 1 + compIdx intv rest
    else if intv.2 ≤ s.1 then 0
    else if s.2 < intv.2 then 1 + compIdx (s.2, intv.2) rest else 0

theorem complement_eq (l : List Intv) :
    ∀ (intv : Intv) (acc : List Intv) (cnt : Nat),
      complement intv l acc cnt = (acc ++ compPieces intv l, (cnt : Int) + compIdx intv l) := by
  induction l with
  | nil => intro intv acc cnt; simp [complement, compPieces, compIdx]; omega
  | cons s rest ih =>
    intro intv acc cnt
    simp only [complement, compPieces, compIdx]
    by_cases h1 : s.2 ≤ intv.1
    · simp only [h1, if_true, ih]
      simp only [Prod.mk.injEq, true_and]
      omega
    · simp only [h1, if_false]
      by_cases h2 : intv.2 ≤ s.1
      · simp [h2]
      · simp only [h2, if_false]
        by_cases h3 : s.2 < intv.2
        · simp only [h3, if_true, ih]
          by_cases h4 : intv.1 < s.1
          · simp only [h4, if_true, List.append_assoc, Prod.mk.injEq, true_and]
            omega
          · simp only [h4, if_false, List.nil_append, Prod.mk.injEq, true_and]
            omega
        · simp only [h3, if_false]
          by_cases h4 : intv.1 < s.1 <;> simp [h4]

theorem compPieces_props (l : List Intv) (hl : Normal l) :
    ∀ (intv : Intv), intv.1 < intv.2 →
      ∀ p ∈ compPieces intv l, p.1 < p.2 ∧ intv.1 ≤ p.1 ∧ p.2 ≤ intv.2 := by
  induction l with
  | nil =>
    intro intv hne p hp
    simp only [compPieces, List.mem_singleton] at hp
    subst hp
    omega
  | cons s rest ih =>
    have hs := (normal_head_lt hl).1
    have ih := ih (normal_tail hl)
    intro intv hne p hp
    simp only [compPieces] at hp
    split at hp
    · exact ih intv hne p hp
    · next h1 =>
      split at hp
      · simp only [List.mem_singleton] at hp
        subst hp
        omega
      · next h2 =>
        rcases List.mem_append.1 hp with hp | hp
        · split at hp
          · simp only [List.mem_singleton] at hp
            subst hp
            simp only
            omega
          · simp at hp
        · split at hp
          · next h3 =>
            have := ih (s.2, intv.2) h3 p hp
            simp only at this
            omega
          · simp at hp

theorem compPieces_pairwise (l : List Intv) (hl : Normal l) :
    ∀ (intv : Intv), intv.1 < intv.2 →
      (compPieces intv l).Pairwise (fun i j : Intv => i.2 < j.1) := by
  induction l with
  | nil => intro intv _; simp [compPieces]
  | cons s rest ih =>
    have hs := (normal_head_lt hl).1
    have ih := ih (normal_tail hl)
    intro intv hne
    simp only [compPieces]
    split
    · exact ih intv hne
    · next h1 =>
      split
      · simp
      · next h2 =>
        rw [List.pairwise_append]
        refine ⟨?_, ?_, ?_⟩
        · split <;> simp
        · split
          · next h3 => exact ih (s.2, intv.2) h3
          · exact List.Pairwise.nil
        · intro a ha b hb
          split at ha
          · simp only [List.mem_singleton] at ha
            subst ha
            split at hb
            · next h3 =>
              have := compPieces_props rest (normal_tail hl) (s.2, intv.2) h3 b hb
              simp only at this ⊢
              omega
            · simp at hb
          · simp at ha

theorem compPieces_normal (l : List Intv) (hl : Normal l) (intv : Intv) (hne : intv.1 < intv.2) :
    Normal (compPieces intv l) := by
  rw [normal_iff]
  exact ⟨fun p hp => (compPieces_props l hl intv hne p hp).1, compPieces_pairwise l hl intv hne⟩

theorem compPieces_mem (l : List Intv) (hl : Normal l) (x : Int) :
    ∀ (intv : Intv), intv.1 < intv.2 →
      (Mem x (compPieces intv l) ↔ (intv.1 ≤ x ∧ x < intv.2) ∧ ¬ Mem x l) := by
  induction l with
  | nil => intro intv _; simp [compPieces, mem_nil, mem_singleton]
  | cons s rest ih =>
    have hs := normal_head_lt hl
    have ih := ih (normal_tail hl)
    intro intv hne
    have hrest : x < s.2 → ¬ Mem x rest := by
      rintro hx ⟨k, hk, h1, h2⟩
      have := hs.2 k hk
      omega
    simp only [compPieces]
    split
    · next h1 =>
      rw [ih intv hne, mem_cons]
      constructor
      · rintro ⟨a, b⟩
        refine ⟨a, ?_⟩
        rintro (c | c)
        · omega
        · exact b c
      · rintro ⟨a, b⟩
        exact ⟨a, fun c => b (Or.inr c)⟩
    · next h1 =>
      split
      · next h2 =>
        rw [mem_singleton, mem_cons]
        constructor
        · intro a
          refine ⟨a, ?_⟩
          rintro (c | c)
          · omega
          · exact hrest (by omega) c
        · exact fun a => a.1
      · next h2 =>
        rw [mem_append, mem_cons]
        constructor
        · rintro (a | a)
          · split at a
            · rw [mem_singleton] at a
              simp only at a
              refine ⟨by omega, ?_⟩
              rintro (c | c)
              · omega
              · exact hrest (by omega) c
            · exact absurd a (mem_nil x)
          · split at a
            · next h3 =>
              rw [ih (s.2, intv.2) h3] at a
              simp only at a
              refine ⟨by omega, ?_⟩
              rintro (c | c)
              · omega
              · exact a.2 c
            · exact absurd a (mem_nil x)
        · rintro ⟨a, b⟩
          by_cases hx : x < s.1
          · left
            rw [if_pos (by omega), mem_singleton]
            simp only
            omega
          · right
            have hx2 : s.2 ≤ x := by
              by_cases h : x < s.2
              · exact absurd (Or.inl ⟨by omega, h⟩) b
              · omega
            have h3 : s.2 < intv.2 := by omega
            rw [if_pos h3, ih (s.2, intv.2) h3]
            exact ⟨⟨hx2, a.2⟩, fun c => b (Or.inr c)⟩

theorem compIdx_ge (l : List Intv) : ∀ intv : Intv, -1 ≤ compIdx intv l := by
  induction l with
  | nil => intro intv; simp [compIdx]
  | cons s rest ih =>
    intro intv
    simp only [compIdx]
    split
    · have := ih intv; omega
    · split
      · omega
      · split
        · have := ih (s.2, intv.2); omega
        · omega

theorem compIdx_take (l : List Intv) :
    ∀ intv : Intv, intv.1 < intv.2 → ∀ k ∈ l.take (compIdx intv l).toNat, k.2 ≤ intv.2 := by
  induction l with
  | nil => intro intv _; simp
  | cons s rest ih =>
    intro intv hne
    simp only [compIdx]
    split
    · next h1 =>
      have hge := compIdx_ge rest intv
      have : (1 + compIdx intv rest).toNat = if compIdx intv rest = -1 then 0
          else (compIdx intv rest).toNat + 1 := by
        split <;> omega
      rw [this]
      split
      · simp
      · rw [List.take_succ_cons]
        intro k hk
        rcases List.mem_cons.1 hk with rfl | hk
        · omega
        · exact ih intv hne k hk
    · next h1 =>
      split
      · simp
      · next h2 =>
        split
        · next h3 =>
          have hge := compIdx_ge rest (s.2, intv.2)
          have : (1 + compIdx (s.2, intv.2) rest).toNat = if compIdx (s.2, intv.2) rest = -1 then 0
              else (compIdx (s.2, intv.2) rest).toNat + 1 := by
            split <;> omega
          rw [this]
          split
          · simp
          · rw [List.take_succ_cons]
            intro k hk
            rcases List.mem_cons.1 hk with rfl | hk
            · omega
            · exact ih (s.2, intv.2) h3 k hk
        · simp

/-! ### the loop -/

theorem mapComplementLoop_cons (i2 : List Intv) (i : Intv) (is : List Intv) (j : Nat)
    (acc : List Intv) :
    mapComplementLoop i2 (i :: is) j acc =
      mapComplementLoop i2 is (j + (compIdx i (i2.drop j)).toNat)
        (acc ++ compPieces i (i2.drop j)) := by
  have hsub : (if j < i2.length then i2.drop j else []) = i2.drop j := by
    split
    · rfl
    · exact (List.drop_eq_nil_of_le (by omega)).symm
  simp only [mapComplementLoop, hsub, complement_eq, List.nil_append]
  congr 1
  split <;> omega

theorem mapComplementLoop_spec (i2 : List Intv) (hi2 : Normal i2) (is : List Intv) :
    ∀ (j : Nat) (acc : List Intv), Normal is → Normal acc →
      (∀ p ∈ acc, ∀ i ∈ is, p.2 < i.1) →
      (∀ k ∈ i2.take j, ∀ i ∈ is, k.2 ≤ i.1) →
      Normal (mapComplementLoop i2 is j acc) ∧
        ∀ x, Mem x (mapComplementLoop i2 is j acc) ↔ Mem x acc ∨ (Mem x is ∧ ¬ Mem x i2) := by
  induction is with
  | nil =>
    intro j acc _ hacc _ _
    simp [mapComplementLoop, hacc, mem_nil]
  | cons i is ih =>
    intro j acc his hacc hai hki
    have hi := normal_head_lt his
    rw [mapComplementLoop_cons]
    have hd := normal_drop hi2 j
    have hpp := compPieces_props (i2.drop j) hd i hi.1
    obtain ⟨h1, h2⟩ := ih (j + (compIdx i (i2.drop j)).toNat) (acc ++ compPieces i (i2.drop j))
      (normal_tail his)
      (normal_append hacc (compPieces_normal _ hd i hi.1) (by
        intro a ha p hp
        have := hai a ha i List.mem_cons_self
        have := (hpp p hp).2.1
        omega))
      (by
        intro p hp i' hi'
        rcases List.mem_append.1 hp with hp | hp
        · exact hai p hp i' (List.mem_cons_of_mem _ hi')
        · have := (hpp p hp).2.2
          have := hi.2 i' hi'
          omega)
      (by
        intro k hk i' hi'
        rw [List.take_add, List.mem_append] at hk
        rcases hk with hk | hk
        · exact hki k hk i' (List.mem_cons_of_mem _ hi')
        · have := compIdx_take _ i hi.1 k hk
          have := hi.2 i' hi'
          omega)
    refine ⟨h1, ?_⟩
    intro x
    rw [h2, mem_append, compPieces_mem _ hd x i hi.1, mem_cons]
    have hmd : i.1 ≤ x → (Mem x (i2.drop j) ↔ Mem x i2) := fun hx =>
      mem_drop_of_take_le (fun k hk => hki k hk i List.mem_cons_self) hx
    constructor
    · rintro ((h | ⟨a, b⟩) | ⟨a, b⟩)
      · exact Or.inl h
      · exact Or.inr ⟨Or.inl a, fun c => b ((hmd a.1).2 c)⟩
      · exact Or.inr ⟨Or.inr a, b⟩
    · rintro (h | ⟨a | a, b⟩)
      · exact Or.inl (Or.inl h)
      · exact Or.inl (Or.inr ⟨a, fun c => b ((hmd a.1).1 c)⟩)
      · exact Or.inr ⟨a, b⟩

end Mltwist.Lemmas.Interval
