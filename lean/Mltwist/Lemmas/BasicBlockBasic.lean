import Mltwist.Spec.BasicBlock
import Mltwist.Lemmas.Const
/-
Basic lemmas for C08: the sort, the binary search, the splitting stages as `groups`,
the insertion shift, and `jumps`.
-/
namespace Mltwist.Lemmas.BasicBlock
open Mltwist Mltwist.BasicBlock Mltwist.BasicBlock.Spec

/-! ### `sortIns` -/

theorem insertSorted_perm (x : Ins) (l : List Ins) : (insertSorted x l).Perm (x :: l) := by
  induction l with
  | nil => simp [insertSorted]
  | cons y ys ih =>
    simp only [insertSorted]
    split
    · exact List.Perm.refl _
    · exact (List.Perm.cons y ih).trans (List.Perm.swap x y ys)

theorem insertSorted_sorted (x : Ins) (l : List Ins)
    (h : l.Pairwise fun a b => a.addr ≤ b.addr) :
    (insertSorted x l).Pairwise fun a b => a.addr ≤ b.addr := by
  induction l with
  | nil => simp [insertSorted]
  | cons y ys ih =>
    simp only [insertSorted]
    rw [List.pairwise_cons] at h
    split
    · rename_i hlt
      refine List.pairwise_cons.2 ⟨?_, List.pairwise_cons.2 h⟩
      intro b hb
      rcases List.mem_cons.1 hb with rfl | hb
      · omega
      · have := h.1 b hb; omega
    · rename_i hlt
      refine List.pairwise_cons.2 ⟨?_, ih h.2⟩
      intro b hb
      rcases List.mem_cons.1 ((insertSorted_perm x ys).mem_iff.1 hb) with rfl | hb
      · omega
      · exact h.1 b hb

theorem foldl_insertSorted (l acc : List Ins) (h : acc.Pairwise fun a b => a.addr ≤ b.addr) :
    (l.foldl (fun acc x => insertSorted x acc) acc).Perm (acc ++ l) ∧
    (l.foldl (fun acc x => insertSorted x acc) acc).Pairwise fun a b => a.addr ≤ b.addr := by
  induction l generalizing acc with
  | nil => simpa using h
  | cons x xs ih =>
    have := ih (insertSorted x acc) (insertSorted_sorted x acc h)
    refine ⟨this.1.trans ?_, this.2⟩
    have h1 : (insertSorted x acc ++ xs).Perm ((x :: acc) ++ xs) :=
      List.Perm.append_right xs (insertSorted_perm x acc)
    refine h1.trans ?_
    simpa using (List.perm_middle (a := x) (l₁ := acc) (l₂ := xs)).symm

theorem sortIns_perm (l : List Ins) : (sortIns l).Perm l := by
  simpa [sortIns] using (foldl_insertSorted l [] List.Pairwise.nil).1

theorem sortIns_sorted (l : List Ins) : (sortIns l).Pairwise fun a b => a.addr ≤ b.addr :=
  (foldl_insertSorted l [] List.Pairwise.nil).2

/-! ### `sort.Search` -/

/-- the search never fails and stays in range when the predicate is defined on `[0, n)` -/
theorem searchLoop_total (f : Nat → Except Fail Bool) (n : Nat)
    (hf : ∀ i, i < n → ∃ v, f i = .ok v) (fuel i j : Nat) (hij : i ≤ j) (hj : j ≤ n) :
    ∃ k, searchLoop f fuel i j = .ok k ∧ i ≤ k ∧ k ≤ j := by
  induction fuel generalizing i j with
  | zero => exact ⟨i, rfl, Nat.le_refl _, hij⟩
  | succ fuel ih =>
    unfold searchLoop
    by_cases hlt : i < j
    · simp only [hlt, if_true]
      have hh : (i + j) / 2 < n := by omega
      obtain ⟨v, hv⟩ := hf _ hh
      simp only [hv, bind, Except.bind]
      cases v
      · obtain ⟨k, hk, h1, h2⟩ := ih ((i + j) / 2 + 1) j (by omega) hj
        exact ⟨k, by simpa using hk, by omega, h2⟩
      · obtain ⟨k, hk, h1, h2⟩ := ih i ((i + j) / 2) (by omega) (by omega)
        exact ⟨k, by simpa using hk, h1, by omega⟩
    · simp only [hlt, if_false]
      exact ⟨i, rfl, Nat.le_refl _, hij⟩

theorem search_total (f : Nat → Except Fail Bool) (n : Nat)
    (hf : ∀ i, i < n → ∃ v, f i = .ok v) : ∃ k, search n f = .ok k ∧ k ≤ n := by
  obtain ⟨k, hk, _, h2⟩ := searchLoop_total f n hf n 0 n (Nat.zero_le _) (Nat.le_refl _)
  exact ⟨k, hk, h2⟩

/-- for a monotone predicate the binary search returns the least index satisfying it (or `n`) -/
theorem searchLoop_spec (f : Nat → Except Fail Bool) (p : Nat → Bool) (n : Nat)
    (hf : ∀ i, i < n → f i = .ok (p i))
    (hmono : ∀ s t, s ≤ t → t < n → p s = true → p t = true)
    (fuel i j : Nat) (hij : i ≤ j) (hj : j ≤ n) (hfuel : j - i ≤ fuel)
    (hlo : ∀ t, t < i → p t = false) (hhi : ∀ t, j ≤ t → t < n → p t = true) :
    ∃ k, searchLoop f fuel i j = .ok k ∧ k ≤ n ∧ (∀ t, t < k → p t = false) ∧
      (∀ t, k ≤ t → t < n → p t = true) := by
  induction fuel generalizing i j with
  | zero =>
    have : i = j := by omega
    subst this
    exact ⟨i, rfl, hj, hlo, hhi⟩
  | succ fuel ih =>
    unfold searchLoop
    by_cases hlt : i < j
    · simp only [hlt, if_true]
      have hh : (i + j) / 2 < n := by omega
      simp only [hf _ hh, bind, Except.bind]
      cases hp : p ((i + j) / 2)
      · simp only [Bool.not_false, if_true]
        refine ih ((i + j) / 2 + 1) j (by omega) hj (by omega) ?_ hhi
        intro t ht
        cases hpt : p t
        · rfl
        · have := hmono t ((i + j) / 2) (by omega) hh hpt
          rw [hp] at this; cases this
      · simp only [Bool.not_true, Bool.false_eq_true, if_false]
        refine ih i ((i + j) / 2) (by omega) (by omega) (by omega) hlo ?_
        intro t ht htn
        exact hmono _ t ht htn hp
    · simp only [hlt, if_false]
      have : i = j := by omega
      subst this
      exact ⟨i, rfl, hj, hlo, hhi⟩

theorem search_spec (f : Nat → Except Fail Bool) (p : Nat → Bool) (n : Nat)
    (hf : ∀ i, i < n → f i = .ok (p i))
    (hmono : ∀ s t, s ≤ t → t < n → p s = true → p t = true) :
    ∃ k, search n f = .ok k ∧ k ≤ n ∧ (∀ t, t < k → p t = false) ∧ (k < n → p k = true) := by
  obtain ⟨k, hk, h1, h2, h3⟩ := searchLoop_spec f p n hf hmono n 0 n (Nat.zero_le _) (Nat.le_refl _)
    (by omega) (by intro t ht; omega) (by intro t h1 h2; omega)
  exact ⟨k, hk, h1, h2, fun h => h3 k (Nat.le_refl _) h⟩

/-! ### `groups` -/

theorem groups_cons_head (cut : Ins → Ins → Bool) (b : Ins) (rest : List Ins) :
    ∃ g gs, groups cut (b :: rest) = (b :: g) :: gs := by
  induction rest generalizing b with
  | nil => exact ⟨[], [], rfl⟩
  | cons c rest ih =>
    obtain ⟨g, gs, h⟩ := ih c
    by_cases hc : cut b c = true
    · exact ⟨[], groups cut (c :: rest), by simp [groups, hc]⟩
    · exact ⟨c :: g, gs, by simp [groups, hc, h]⟩

theorem groups_flatten (cut : Ins → Ins → Bool) (l : List Ins) : (groups cut l).flatten = l := by
  induction l with
  | nil => rfl
  | cons a rest ih =>
    cases rest with
    | nil => rfl
    | cons b rest =>
      obtain ⟨g, gs, h⟩ := groups_cons_head cut b rest
      by_cases hc : cut a b = true
      · simp [groups, hc, ih]
      · rw [h] at ih
        simp only [groups, hc, h]
        simpa using ih

theorem groups_ne_nil (cut : Ins → Ins → Bool) (l : List Ins) : ∀ g ∈ groups cut l, g ≠ [] := by
  induction l with
  | nil => simp [groups]
  | cons a rest ih =>
    cases rest with
    | nil => simp [groups]
    | cons b rest =>
      obtain ⟨g, gs, h⟩ := groups_cons_head cut b rest
      by_cases hc : cut a b = true
      · simp only [groups, hc, if_true]
        intro g' hg'
        rcases List.mem_cons.1 hg' with rfl | hg'
        · simp
        · exact ih g' hg'
      · simp only [groups, hc, h]
        intro g' hg'
        rcases List.mem_cons.1 hg' with rfl | hg'
        · simp
        · exact ih g' (by rw [h]; exact List.mem_cons_of_mem _ hg')

/-- adjacent instructions: `a.End() == b.Begin()` -/
def Contig : List Ins → Prop
  | a :: b :: rest => a.end_ = b.addr ∧ Contig (b :: rest)
  | _ => True

/-- a cut relation that cuts at every address gap -/
def CutsGaps (cut : Ins → Ins → Bool) : Prop := ∀ a b, a.end_ ≠ b.addr → cut a b = true

theorem groups_contig (cut : Ins → Ins → Bool) (hc : CutsGaps cut) (l : List Ins) :
    ∀ g ∈ groups cut l, Contig g := by
  induction l with
  | nil => simp [groups]
  | cons a rest ih =>
    cases rest with
    | nil => simp [groups, Contig]
    | cons b rest =>
      obtain ⟨g, gs, h⟩ := groups_cons_head cut b rest
      by_cases hcut : cut a b = true
      · simp only [groups, hcut, if_true]
        intro g' hg'
        rcases List.mem_cons.1 hg' with rfl | hg'
        · simp [Contig]
        · exact ih g' hg'
      · simp only [groups, hcut, h]
        intro g' hg'
        rw [h] at ih
        rcases List.mem_cons.1 hg' with rfl | hg'
        · refine ⟨?_, ih _ (List.mem_cons_self ..)⟩
          apply Classical.byContradiction
          intro hne
          exact hcut (hc a b hne)
        · exact ih g' (List.mem_cons_of_mem _ hg')

/-- two splitting stages in a row cut wherever one of them cuts -/
theorem groups_flatMap_groups (c1 c2 : Ins → Ins → Bool) (l : List Ins) :
    (groups c1 l).flatMap (groups c2) = groups (fun a b => c1 a b || c2 a b) l := by
  induction l with
  | nil => rfl
  | cons a rest ih =>
    cases rest with
    | nil => rfl
    | cons b rest =>
      obtain ⟨g, gs, h⟩ := groups_cons_head c1 b rest
      by_cases h1 : c1 a b = true
      · simp [groups, h1, ← ih]
      · rw [h] at ih
        simp only [List.flatMap_cons] at ih
        obtain ⟨g2, gs2, h2⟩ := groups_cons_head c2 b g
        by_cases h2c : c2 a b = true
        · simp [groups, h1, h2c, h, ← ih]
        · rw [h2] at ih
          have e : groups c2 (a :: b :: g) = (a :: b :: g2) :: gs2 := by simp [groups, h2c, h2]
          have e' : groups (fun a b => c1 a b || c2 a b) (a :: b :: rest) =
              (a :: b :: g2) :: (gs2 ++ List.flatMap (groups c2) gs) := by
            simp [groups, h1, h2c, ← ih]
          rw [e']
          have e'' : groups c1 (a :: b :: rest) = (a :: b :: g) :: gs := by simp [groups, h1, h]
          rw [e'', List.flatMap_cons, e]
          simp

/-- `groups` with the only cut before the instruction at address `A` -/
def atAddr (A : Nat) : Ins → Ins → Bool := fun _ b => b.addr == A

theorem groups_atAddr_none (A : Nat) (h : List Ins) (hne : h ≠ [])
    (hA : ∀ b ∈ h.tail, b.addr ≠ A) : groups (atAddr A) h = [h] := by
  induction h with
  | nil => exact absurd rfl hne
  | cons a rest ih =>
    cases rest with
    | nil => rfl
    | cons b rest =>
      have hb : b.addr ≠ A := hA b (by simp)
      have := ih (by simp) (fun c hc => hA c (by simp at hc ⊢; exact Or.inr hc))
      have e : atAddr A a b = false := by simp [atAddr, hb]
      simp [groups, e, this]

theorem groups_atAddr_split (A : Nat) (s : List Ins) (x : Ins) (t : List Ins) (hs : s ≠ [])
    (hx : x.addr = A) (hs' : ∀ b ∈ s.tail, b.addr ≠ A) (ht : ∀ b ∈ t, b.addr ≠ A) :
    groups (atAddr A) (s ++ x :: t) = [s, x :: t] := by
  induction s with
  | nil => exact absurd rfl hs
  | cons a rest ih =>
    cases rest with
    | nil =>
      have := groups_atAddr_none A (x :: t) (by simp) (by simpa using ht)
      simp [groups, atAddr, hx, this]
    | cons b rest =>
      have hb : b.addr ≠ A := hs' b (by simp)
      have := ih (by simp) (fun c hc => hs' c (by simp at hc ⊢; exact Or.inr hc))
      simp only [List.cons_append] at this ⊢
      simp [groups, atAddr, hb, this]

/-! ### the two splitting stages are `groups` -/

def gapB : Ins → Ins → Bool := fun a b => decide (a.end_ ≠ b.addr)
def jmpB : Ins → Ins → Bool := fun a _ => decide (a.jumps.length > 0)

theorem splitByAddressLoop_cons (cur : List Ins) (a : Ins) (rest g : List Ins) (gs : List (List Ins))
    (h : groups gapB (a :: rest) = (a :: g) :: gs) :
    splitByAddressLoop cur (a :: rest) = (cur ++ a :: g) :: gs := by
  induction rest generalizing cur a g gs with
  | nil =>
    simp [groups] at h
    simp [splitByAddressLoop, h]
  | cons b rest ih =>
    obtain ⟨g', gs', h'⟩ := groups_cons_head gapB b rest
    by_cases hc : a.end_ = b.addr
    · have e : gapB a b = false := by simp [gapB, hc]
      simp [groups, e, h'] at h
      obtain ⟨rfl, rfl⟩ := h
      simp [splitByAddressLoop, hc, ih (cur ++ [a]) b g' gs' h']
    · have e : gapB a b = true := by simp [gapB, hc]
      simp [groups, e] at h
      obtain ⟨rfl, rfl⟩ := h
      simp [splitByAddressLoop, hc, ih [] b g' gs' h', h']

theorem splitByAddress_eq (l : List Ins) : splitByAddress l = groups gapB l := by
  cases l with
  | nil => rfl
  | cons a rest =>
    obtain ⟨g, gs, h⟩ := groups_cons_head gapB a rest
    rw [splitByAddress, splitByAddressLoop_cons [] a rest g gs h, h]
    rfl

theorem splitByJumpsLoop_cons (cur : List Ins) (a : Ins) (rest g : List Ins) (gs : List (List Ins))
    (h : groups jmpB (a :: rest) = (a :: g) :: gs) :
    splitByJumpsLoop cur (a :: rest) = (cur ++ a :: g) :: gs := by
  induction rest generalizing cur a g gs with
  | nil =>
    simp [groups] at h
    by_cases hj : a.jumps.length > 0
    · simp [splitByJumpsLoop, hj, h]
    · simp [splitByJumpsLoop, hj, h]
  | cons b rest ih =>
    obtain ⟨g', gs', h'⟩ := groups_cons_head jmpB b rest
    by_cases hj : a.jumps.length > 0
    · have e : jmpB a b = true := by simp [jmpB, hj]
      simp [groups, e] at h
      obtain ⟨rfl, rfl⟩ := h
      rw [splitByJumpsLoop]
      simp [hj, ih [] b g' gs' h', h']
    · have e : jmpB a b = false := by simp [jmpB, hj]
      simp [groups, e, h'] at h
      obtain ⟨rfl, rfl⟩ := h
      rw [splitByJumpsLoop]
      simp [hj, ih (cur ++ [a]) b g' gs' h']

theorem splitByJumps_eq (l : List Ins) : splitByJumps l = groups jmpB l := by
  cases l with
  | nil => rfl
  | cons a rest =>
    obtain ⟨g, gs, h⟩ := groups_cons_head jmpB a rest
    rw [splitByJumps, splitByJumpsLoop_cons [] a rest g gs h, h]
    rfl

/-- the cut relation after the first two stages -/
def cut0 : Ins → Ins → Bool := fun a b => gapB a b || jmpB a b

theorem pipeline_eq (l : List Ins) :
    pipelineStage splitByJumps (pipelineStage splitByAddress [l]) = groups cut0 l := by
  have : splitByJumps = groups jmpB := funext splitByJumps_eq
  simp only [pipelineStage, List.flatMap_cons, List.flatMap_nil, List.append_nil, splitByAddress_eq, this]
  exact groups_flatMap_groups gapB jmpB l

/-! ### the insertion shift -/

theorem shiftLoop_lt (lo i : Nat) (l : List Block) (h : i < lo) : shiftLoop lo i l = l := by
  cases i with
  | zero => rfl
  | succ i =>
    rw [shiftLoop]
    have : ¬ (i + 1 ≥ lo) := by omega
    simp [this]

theorem shiftLoop_spec (n : Nat) (P Q R : List Block) (z : Block) (hn : Q.length = n) :
    shiftLoop (P.length + 1) (P.length + Q.length) (P ++ Q ++ z :: R) =
      Q.head?.elim (P ++ z :: R) (fun q => P ++ q :: Q ++ R) := by
  induction n generalizing Q R z with
  | zero =>
    have : Q = [] := List.length_eq_zero_iff.1 hn
    subst this
    rw [shiftLoop_lt _ _ _ (by simp)]
    simp
  | succ n ih =>
    rcases List.eq_nil_or_concat Q with rfl | ⟨Q', y, rfl⟩
    · simp at hn
    · rw [List.concat_eq_append] at hn ⊢
      have hn' : Q'.length = n := by simpa using hn
      have e1 : P.length + (Q' ++ [y]).length = (P.length + Q'.length) + 1 := by simp; omega
      rw [e1, shiftLoop]
      have hge : P.length + Q'.length + 1 ≥ P.length + 1 := by omega
      simp only [hge, if_true]
      have e2 : ((P ++ (Q' ++ [y]) ++ z :: R).set (P.length + Q'.length + 1)
          ((P ++ (Q' ++ [y]) ++ z :: R).getD (P.length + Q'.length) default)) =
          P ++ Q' ++ y :: (y :: R) := by
        have a1 : P ++ (Q' ++ [y]) ++ z :: R = (P ++ Q') ++ y :: z :: R := by simp
        rw [a1]
        have a2 : ((P ++ Q') ++ y :: z :: R).getD (P.length + Q'.length) default = y := by
          rw [List.getD_eq_getElem?_getD, List.getElem?_append_right (by simp)]
          simp
        rw [a2]
        have a3 : (P ++ Q' ++ y :: z :: R) = (P ++ Q' ++ [y]) ++ z :: R := by simp
        rw [a3, List.set_append_right _ _ (by simp; omega)]
        have : P.length + Q'.length + 1 - (P ++ Q' ++ [y]).length = 0 := by simp; omega
        rw [this]
        simp
      rw [e2, ih Q' (y :: R) y hn']
      cases Q' with
      | nil => simp
      | cons q Q'' => simp

/-- the insertion shift of `blocks.split` replaces `bs[idx]` by `b1, b2` -/
theorem insertShift_eq (bs : List Block) (idx : Nat) (b1 b2 : Block) (h : idx < bs.length) :
    insertShift bs idx b1 b2 = bs.take idx ++ b1 :: b2 :: bs.drop (idx + 1) := by
  unfold insertShift
  simp only [List.length_append, List.length_cons, List.length_nil, Nat.add_sub_cancel]
  have hP : (bs.take (idx + 1)).length = idx + 1 := by simp; omega
  have hsplit : bs = bs.take (idx + 1) ++ bs.drop (idx + 1) := (List.take_append_drop _ _).symm
  have hlen : bs.length = (bs.take (idx + 1)).length + (bs.drop (idx + 1)).length := by
    simp; omega
  have e : shiftLoop (idx + 2) bs.length (bs ++ [default]) =
      shiftLoop ((bs.take (idx + 1)).length + 1) ((bs.take (idx + 1)).length + (bs.drop (idx + 1)).length)
        (bs.take (idx + 1) ++ bs.drop (idx + 1) ++ default :: []) := by
    rw [← hlen, hP, List.take_append_drop]
  rw [e, shiftLoop_spec _ _ _ _ _ rfl]
  have hT : bs.take (idx + 1) = bs.take idx ++ [bs[idx]] := by
    rw [List.take_succ_eq_append_getElem h]
  cases hd : bs.drop (idx + 1) with
  | nil =>
    simp only [List.head?_nil, Option.elim_none]
    rw [hT]
    have l1 : (bs.take idx).length = idx := by simp; omega
    rw [List.append_assoc, List.set_append_right _ _ (by omega)]
    simp [l1]
  | cons q Q =>
    simp only [List.head?_cons, Option.elim_some]
    rw [hT]
    have l1 : (bs.take idx).length = idx := by simp; omega
    simp only [List.append_assoc]
    rw [List.set_append_right _ _ (by omega)]
    simp [l1]

/-! ### `jumps` -/

theorem constUint8 (bs : List UInt8) :
    Const.constUint 8 bs = (leToNat bs % 2 ^ 64, decide (leToNat bs < 2 ^ 64)) := by
  cases bs with
  | nil => decide
  | cons b bs => exact Lemmas.Const.constUint_spec 8 (b :: bs) (by omega) (by simp)

theorem filterJumps_eq (endA : Nat) (es : List Expr) :
    filterJumps endA es = (es.map constFold).filter fun e => !isAddr endA e := by
  induction es with
  | nil => rfl
  | cons e es ih =>
    simp only [filterJumps, List.map_cons, List.filter_cons]
    cases h : constFold e with
    | const bs =>
      simp only [constUint8, isAddr, ih]
      by_cases hh : leToNat bs % 2 ^ 64 = endA
      · simp [hh]
      · simp [hh]
    | _ => simp [isAddr, ih]

theorem jumps_spec (addr len : Nat) (efs : List Effect) :
    jumps addr len efs = realTargets addr len efs := by
  unfold realTargets
  induction efs with
  | nil => rfl
  | cons ef efs ih =>
    cases ef with
    | memStore v k a w => simpa [jumps, ipValues] using ih
    | regStore v k w =>
      simp only [jumps, ipValues, List.filter_append, ih]
      by_cases hk : k = ipKey
      · have hk' : k = "#r:w:ip" := hk
        simp [hk, filterJumps_eq, M, ipKey]
      · have hk' : ¬ k = "#r:w:ip" := hk
        simp [hk, hk']

theorem constTarget_eq (e : Expr) : constTarget e = constAddr e := by
  cases e with
  | const bs =>
    simp only [constTarget, constAddr, constUint8]
    by_cases h : leToNat bs < 2 ^ 64
    · simp [h, Nat.mod_eq_of_lt h]
    · simp [h]
  | _ => rfl

end Mltwist.Lemmas.BasicBlock
