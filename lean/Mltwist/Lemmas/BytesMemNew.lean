import Mltwist.Lemmas.BytesMemDedup
/-
C15, part 2: `NewBytes` = filter, stable sort, `dedupBlocks`.
-/
namespace Mltwist.Lemmas.BytesMem
open Mltwist Mltwist.BytesMem Mltwist.BytesSpec

/-! ### `sortByBegin` -/

theorem insertByBegin_perm (x : Block) (l : List Block) : (insertByBegin x l).Perm (x :: l) := by
  induction l with
  | nil => exact List.Perm.refl _
  | cons y ys ih =>
    unfold insertByBegin
    by_cases h : x.1 < y.1
    · rw [if_pos h]
    · rw [if_neg h]
      exact ((List.Perm.cons y ih).trans (List.Perm.swap x y ys))

theorem foldl_insertByBegin_perm (l : List Block) : ∀ acc : List Block,
    (l.foldl (fun acc x => insertByBegin x acc) acc).Perm (l ++ acc) := by
  induction l with
  | nil => intro acc; exact List.Perm.refl _
  | cons x l ih =>
    intro acc
    rw [List.foldl_cons]
    refine (ih _).trans ?_
    refine (List.Perm.append_left l (insertByBegin_perm x acc)).trans ?_
    exact List.perm_middle

theorem sortByBegin_perm (l : List Block) : (sortByBegin l).Perm l := by
  have := foldl_insertByBegin_perm l []
  simpa [sortByBegin] using this

theorem insertByBegin_sorted (x : Block) (l : List Block)
    (h : l.Pairwise (fun a b : Block => a.1 ≤ b.1)) :
    (insertByBegin x l).Pairwise (fun a b : Block => a.1 ≤ b.1) := by
  induction l with
  | nil => simp [insertByBegin]
  | cons y ys ih =>
    rw [List.pairwise_cons] at h
    unfold insertByBegin
    by_cases hx : x.1 < y.1
    · rw [if_pos hx]
      refine List.pairwise_cons.2 ⟨fun z hz => ?_, List.pairwise_cons.2 h⟩
      rcases List.mem_cons.1 hz with rfl | hz'
      · omega
      · have := h.1 z hz'; omega
    · rw [if_neg hx]
      refine List.pairwise_cons.2 ⟨fun z hz => ?_, ih h.2⟩
      rcases List.mem_cons.1 ((insertByBegin_perm x ys).mem_iff.1 hz) with rfl | hz'
      · omega
      · exact h.1 z hz'

theorem foldl_insertByBegin_sorted (l : List Block) : ∀ acc : List Block,
    acc.Pairwise (fun a b : Block => a.1 ≤ b.1) →
    (l.foldl (fun acc x => insertByBegin x acc) acc).Pairwise (fun a b : Block => a.1 ≤ b.1) := by
  induction l with
  | nil => intro acc h; exact h
  | cons x l ih => intro acc h; exact ih _ (insertByBegin_sorted x acc h)

theorem sortByBegin_sorted (l : List Block) :
    (sortByBegin l).Pairwise (fun a b : Block => a.1 ≤ b.1) :=
  foldl_insertByBegin_sorted l [] List.Pairwise.nil

/-! ### overlap -/

theorem not_covers_of_empty {b : Block} (h : b.2 = []) (a : Nat) : ¬ Covers b a := by
  unfold Covers; rw [h]; simp

theorem nonempty_of_covers {b : Block} {a : Nat} (h : Covers b a) : b.2 ≠ [] := fun he =>
  not_covers_of_empty he a h

theorem not_overlap_iff (l : List Block) : ¬ Overlap l ↔ l.Pairwise Disj := by
  rw [List.pairwise_iff_getElem]
  constructor
  · intro hno i j hi hj hij a hab
    exact hno ⟨i, j, hij, l[i], l[j], List.getElem?_eq_getElem hi, List.getElem?_eq_getElem hj, a, hab⟩
  · rintro hp ⟨i, j, hij, bi, bj, hbi, hbj, a, hab⟩
    obtain ⟨hi, rfl⟩ := List.getElem?_eq_some_iff.1 hbi
    obtain ⟨hj, rfl⟩ := List.getElem?_eq_some_iff.1 hbj
    exact hp i j hi hj hij a hab

theorem pairwise_disj_filter (l : List Block) :
    (l.filter fun b => !b.2.isEmpty).Pairwise Disj ↔ l.Pairwise Disj := by
  induction l with
  | nil => simp
  | cons b l ih =>
    by_cases hb : b.2 = []
    · have : (!b.2.isEmpty) = false := by simp [hb]
      rw [List.filter_cons_of_neg (by simp [hb]), List.pairwise_cons, ih]
      constructor
      · intro h; exact ⟨fun x _ a hab => not_covers_of_empty hb a hab.1, h⟩
      · intro h; exact h.2
    · rw [List.filter_cons_of_pos (by simp [hb]), List.pairwise_cons, List.pairwise_cons, ih]
      constructor
      · rintro ⟨h1, h2⟩
        refine ⟨fun x hx a hab => ?_, h2⟩
        have hxn : x.2 ≠ [] := nonempty_of_covers hab.2
        exact h1 x (List.mem_filter.2 ⟨hx, by simp [hxn]⟩) a hab
      · rintro ⟨h1, h2⟩
        exact ⟨fun x hx => h1 x (List.mem_filter.1 hx).1, h2⟩

/-! ### `newBytes` -/

theorem newBytes_spec (l : List Block) :
    (newBytes l = .error .overlap ∧ Overlap l) ∨
    (∃ bs, newBytes l = .ok bs ∧ ¬ Overlap l ∧ Inv bs ∧ ∀ a, ofBlocks bs a = ofBlocks l a) := by
  have hperm := sortByBegin_perm (l.filter fun b => !b.2.isEmpty)
  have hsorted := sortByBegin_sorted (l.filter fun b => !b.2.isEmpty)
  have hmem : ∀ b, b ∈ sortByBegin (l.filter fun b => !b.2.isEmpty) ↔ b ∈ l ∧ b.2 ≠ [] := by
    intro b
    rw [hperm.mem_iff, List.mem_filter]
    simp
  have hdisj : (sortByBegin (l.filter fun b => !b.2.isEmpty)).Pairwise Disj ↔ ¬ Overlap l := by
    rw [not_overlap_iff]
    exact (List.Perm.pairwise_iff (R := Disj) (fun h => Disj.symm h) hperm).trans
      (pairwise_disj_filter l)
  have hmap : (sortByBegin (l.filter fun b => !b.2.isEmpty)).Pairwise Disj →
      ∀ a, ofBlocks (sortByBegin (l.filter fun b => !b.2.isEmpty)) a = ofBlocks l a := by
    intro hd a
    have hd' : l.Pairwise Disj := (not_overlap_iff l).1 (hdisj.1 hd)
    apply Option.ext
    intro v
    rw [ofBlocks_some_iff hd, ofBlocks_some_iff hd']
    constructor
    · rintro ⟨b, hb, hc, hv⟩; exact ⟨b, ((hmem b).1 hb).1, hc, hv⟩
    · rintro ⟨b, hb, hc, hv⟩; exact ⟨b, (hmem b).2 ⟨hb, nonempty_of_covers hc⟩, hc, hv⟩
  unfold newBytes
  rw [dedupBlocks_eq]
  generalize sortByBegin (l.filter fun b => !b.2.isEmpty) = s at *
  match s, hsorted, hmem, hdisj, hmap with
  | [], _, _, hdisj, hmap =>
    right
    refine ⟨[], rfl, hdisj.1 List.Pairwise.nil, ⟨List.Pairwise.nil, by simp⟩, hmap List.Pairwise.nil⟩
  | p :: rest, hsorted, hmem, hdisj, hmap =>
    rw [List.pairwise_cons] at hsorted
    have := dedupF_spec rest p ((hmem p).1 (List.mem_cons_self ..)).2
      (fun c hc => ⟨((hmem c).1 (List.mem_cons_of_mem _ hc)).2, hsorted.1 c hc⟩) hsorted.2
    rcases this with ⟨he, hnd⟩ | ⟨r, hr, hd, hinv, _, hm⟩
    · left
      refine ⟨he, ?_⟩
      exact Classical.byContradiction fun hno => hnd (hdisj.2 hno)
    · right
      exact ⟨r, hr, hdisj.1 hd, hinv, fun a => (hm a).trans (hmap hd a)⟩

end Mltwist.Lemmas.BytesMem
