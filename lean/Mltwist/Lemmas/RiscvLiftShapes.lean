import Mltwist.Lemmas.RiscvLiftFields
import Mltwist.Lemmas.RiscvLiftExec
/-
C01 library, part 4: effect-list SHAPES.

`StepOK xlen name w s ρ efs` is the body of `LiftOK` for one word / state / valuation, with the raw
(optional) effect list `efs = e.effects ⟨s.pc, w⟩` made explicit.  For every shape of effect list
that occurs in the tables there is one lemma that reduces `StepOK` to

* the closed form of the reference (`exec_<mnemonic>`, by `rfl`, from `RiscvLiftExec`), and
* one equation about the VALUE of the lifted expression (`Ctx.val_…`, from `RiscvLiftValues`).

Shapes: `StepOK.of_wr` (`[regStore val i W]`), `StepOK.of_br` (`[branchCmp f b i W]`), `StepOK.of_jump`
(`[IP := target, regStore following i W]`), `StepOK.of_store` (`[memStore val addr n]`), `StepOK.of_nop`
(`[]`), `StepOK.of_csr` (`[regStore (csr) i W, csr := new]`), `StepOK.of_amo` (`[regStore r i W,
memStore v addr n]`), `StepOK.of_sc` (`[memStore v addr n, regStore r i W]`).

A new shape is proved the same way: `StepOK.intro` + the `Rel.*`, `ipOpt_*`, `St.WF.*` lemmas of
`RiscvLiftBasic`.
-/
namespace Mltwist.Lemmas.RiscvLift
open Mltwist Mltwist.Riscv Mltwist.Spec.Rv Mltwist.Spec.Lift
open Mltwist.Lemmas.EvalBasic

/-- `LiftOK` for one word, state and valuation; `efs` is the raw effect list `e.effects ⟨s.pc, w⟩`
(`LiftOK xlen e` unfolds to `∀ w s ρ, … → StepOK xlen e.name w s ρ (e.effects ⟨s.pc, w⟩)`). -/
def StepOK (xlen : Nat) (name : String) (w : Nat) (s : St) (ρ : Env) (efs : List (Option Effect)) :
    Prop :=
  ∃ s', exec xlen name w s = some s' ∧
    Rel (Env.applyEffects ρ (efs.filterMap id)) s' ∧
    nextIp ρ (efs.filterMap id) ((s.pc + 4) % 2 ^ xlen) = s'.pc ∧ St.WF xlen s'

variable {xlen W : Nat} {ρ : Env} {s : St} {w : Nat} {name : String}

/-- introduction rule in terms of the folds over the raw list -/
theorem StepOK.intro {efs : List (Option Effect)} {s' : St}
    (hexec : exec xlen name w s = some s')
    (hrel : Rel (efs.foldl (applyOpt ρ) ρ) s')
    (hip : efs.foldl (ipOpt ρ) ((s.pc + 4) % 2 ^ xlen) = s'.pc)
    (hwf : St.WF xlen s') : StepOK xlen name w s ρ efs :=
  ⟨s', hexec, by rw [applyEffects_filterMap]; exact hrel, by rw [nextIp_filterMap]; exact hip, hwf⟩

theorem next_lt (xlen : Nat) (s : St) : (s.pc + 4) % 2 ^ xlen < 2 ^ xlen := Nat.mod_lt _ (pow_pos' _)

/-- closes the side goal `v' % 2^xlen = v % 2^xlen` of the shape lemmas when the evaluated value `v'`
is the reference value `v` or `v % 2^xlen` (the default; give the argument explicitly otherwise).
The cheap syntactic attempts come first: a full `rfl` on terms containing `St.load … 8`, `min`, `%`
can make the unifier evaluate them symbolically (exponential). -/
macro "mod_tac" : tactic =>
  `(tactic| first
    | with_reducible rfl
    | with_reducible exact Nat.mod_mod _ _
    | with_reducible exact (Nat.mod_mod _ _).symm
    | rfl)

theorem Ctx.val (h : Ctx xlen W ρ s w) {e : Expr} {v' v : Nat} (he : e.eval ρ = v')
    (hv : v' % 2 ^ xlen = v % 2 ^ xlen) : trunc W (e.eval ρ) = v % 2 ^ xlen := by
  rw [h.trunc_eq, he, hv]

/-- SHAPE `[regStore val i W]` against `wr v`: one register write, fall through.
`hval`: the value of the lifted expression (an `Ctx.eval_*` lemma); `hv`: it is the reference's value
mod `2^xlen` (default `mod_tac`: `v' = v` or `v' = v % 2^xlen`). -/
theorem StepOK.of_wr (h : Ctx xlen W ρ s w) {val : Expr} {v v' : Nat}
    (hexec : exec xlen name w s = wr xlen w s v)
    (hval' : val.eval ρ = v')
    (hv : v' % 2 ^ xlen = v % 2 ^ xlen := by mod_tac) :
    StepOK xlen name w s ρ [regStore val ⟨s.pc, w⟩ W] := by
  have hval := h.val hval' hv
  refine StepOK.intro hexec ?_ ?_ ?_
  · exact (h.rel.regStore val s.pc w W hval).withPc _
  · simp [fall]
  · exact (h.wf.set _ (Nat.mod_lt _ (pow_pos' _))).withPc (next_lt _ _)

/-- SHAPE `[]` against `some (fall s)`: `fence`, `fence.i`, `ecall`, `ebreak` -/
theorem StepOK.of_nop (h : Ctx xlen W ρ s w)
    (hexec : exec xlen name w s = some (fall xlen s s)) :
    StepOK xlen name w s ρ [] :=
  StepOK.intro hexec (h.rel.withPc _) rfl (h.wf.withPc (next_lt _ _))

/-- SHAPE `[branchCmp f bt i W]` against `br c`.
`hf`: how the condition gadget `f` evaluates on the two source registers (see `Ctx.cond_*`);
`hc`: the reference's condition is `p` (`bt = true`) or its negation. -/
theorem StepOK.of_br (h : Ctx xlen W ρ s w) {f : CondF} {bt c : Bool} {p : Prop} [Decidable p]
    (hexec : exec xlen name w s = br xlen w s c)
    (hf : ∀ t e : Expr, (f (regLoad .rs1 ⟨s.pc, w⟩ W) (regLoad .rs2 ⟨s.pc, w⟩ W) t e W).eval ρ
      = if p then trunc W (t.eval ρ) else trunc W (e.eval ρ))
    (hc : c = if bt then decide p else !decide p) :
    StepOK xlen name w s ρ [some (branchCmp f bt ⟨s.pc, w⟩ W)] := by
  have hT : trunc W ((addrImmConst .B ⟨s.pc, w⟩ W).eval ρ) = wrap xlen ((s.pc : Int) + immB w) := by
    rw [h.eval_addrImmConst_B, h.trunc_of_lt (wrap_lt _ _)]
  have hN : trunc W ((addrConst (s.pc + 4) W).eval ρ) = (s.pc + 4) % 2 ^ xlen := by
    rw [h.eval_addrConst_next, h.trunc_of_lt (next_lt _ _)]
  refine StepOK.intro hexec ?_ ?_ ?_
  · have key : ∀ e : Expr, Rel (applyOpt ρ ρ (some (Effect.regStore e Riscv.ipKey W)))
        (if c = true then { s with pc := wrap xlen ((s.pc : Int) + immB w) } else fall xlen s s) := by
      intro e
      cases c
      · exact (h.rel.ipWrite e W).withPc _
      · exact (h.rel.ipWrite e W).withPc _
    exact key _
  · subst hc
    simp only [List.foldl_cons, List.foldl_nil, branchCmp, ipOpt_ip]
    cases bt <;> by_cases hp : p <;>
      simp [hf, hp, hT, hN, fall, h.trunc_of_lt (next_lt _ _), h.trunc_of_lt (wrap_lt _ _)]
  · split
    · exact h.wf.withPc (wrap_lt _ _)
    · exact h.wf.withPc (next_lt _ _)

/-- SHAPE `[IP := target, regStore following i W]` against
`some { s.set rd next with pc := T }`: `jal`, `jalr` -/
theorem StepOK.of_jump (h : Ctx xlen W ρ s w) {target following : Expr} {T : Nat}
    (hexec : exec xlen name w s = some { s.set (rd w) ((s.pc + 4) % 2 ^ xlen) with pc := T })
    (hT' : target.eval ρ = T) (hTlt : T < 2 ^ xlen)
    (hF' : following.eval ρ = (s.pc + 4) % 2 ^ xlen) :
    StepOK xlen name w s ρ
      [some (Effect.regStore target Riscv.ipKey W), regStore following ⟨s.pc, w⟩ W] := by
  have hT : trunc W (target.eval ρ) = T := by rw [hT', h.trunc_of_lt hTlt]
  have hF : trunc W (following.eval ρ) = (s.pc + 4) % 2 ^ xlen := by
    rw [hF', h.trunc_of_lt (next_lt _ _)]
  refine StepOK.intro hexec ?_ ?_ ?_
  · simp only [List.foldl_cons, List.foldl_nil]
    exact ((h.rel.ipWrite target W).regStore following s.pc w W hF).withPc _
  · simp [hT]
  · exact (h.wf.set _ (next_lt _ _)).withPc hTlt

/-- SHAPE `[memStore val addr n]` against `some (fall (s.store A b n))`: `sb`, `sh`, `sw`, `sd`.
`hA`: value of the address expression; `hn`: no wrap (from `noWrap`); `hv`: the low `n` bytes. -/
theorem StepOK.of_store (h : Ctx xlen W ρ s w) {val addr : Expr} {n A b : Nat}
    (hexec : exec xlen name w s = some (fall xlen s (s.store A b n)))
    (hA : addr.eval ρ = A) (hlt : A < 2 ^ xlen) (hn : A + n ≤ 2 ^ xlen)
    (hv : trunc n (val.eval ρ) = b % 2 ^ (8 * n)) :
    StepOK xlen name w s ρ [some (Riscv.memStore val addr n)] := by
  have hp := h.pow_le
  refine StepOK.intro hexec ?_ ?_ ?_
  · exact (h.rel.memStore val addr n hA (by omega) (by omega) hv).withPc _
  · simp [fall]
  · exact (h.wf.store _ _ _).withPc (next_lt _ _)

/-- SHAPE `[regStore (csr) i W, csr := new]` against `csrOp f`: the six CSR instructions.
`hnew`: the value of the new-CSR-value expression; `hv` as in `of_wr`. -/
theorem StepOK.of_csr (h : Ctx xlen W ρ s w) {new : Expr} {f : Nat → Nat} {v' : Nat}
    (hexec : exec xlen name w s = csrOp xlen w s f)
    (hnew' : new.eval ρ = v')
    (hv : v' % 2 ^ xlen = f (s.csr (csrNum w)) % 2 ^ xlen := by mod_tac) :
    StepOK xlen name w s ρ
      [regStore (Expr.regLoad (csrKey ⟨s.pc, w⟩) W) ⟨s.pc, w⟩ W,
       some (Effect.regStore new (csrKey ⟨s.pc, w⟩) W)] := by
  have hnew := h.val hnew' hv
  have hold : trunc W ((Expr.regLoad (csrKey ⟨s.pc, w⟩) W).eval ρ) = s.csr (csrNum w) := by
    rw [h.eval_csr, h.trunc_of_lt (h.csr_lt _)]
  refine StepOK.intro hexec ?_ ?_ ?_
  · simp only [List.foldl_cons, List.foldl_nil, csrKey_eq' h.hw]
    rw [csrKey_eq' h.hw] at hold
    have := ((h.rel.regStore _ s.pc w W hold).csrWrite (csrNum_lt w) new W hnew)
    rw [St.set_setCsr] at this
    exact this.withPc _
  · simp [csrKey_eq' h.hw, fall]
  · exact ((h.wf.setCsr _ (Nat.mod_lt _ (pow_pos' _))).set _ (h.csr_lt _)).withPc (next_lt _ _)

/-- SHAPE `[regStore r i W, memStore v addr n]` against
`some (fall ((s.store A b n).set rd R))`: AMOs (`amo xlen w s n f` unfolds to this by `rfl`).
Both expressions are evaluated in the pre-state.  `hR`: the value written to `rd` (`Ctx.amo_rd`);
`hA/hlt/hn`: the address (`h.eval_rs1 _`, `h.get_lt _`, `le_of_noWrap_<amo> _ _ _ hnw`);
`hv'`: the value of the stored expression (`Ctx.amo_*`); `hvb`: it is the reference's stored value
mod `2^(8n)` (default `mod_tac`). -/
theorem StepOK.of_amo (h : Ctx xlen W ρ s w) {r v addr : Expr} {n A b R : Nat}
    (hexec : exec xlen name w s = some (fall xlen s ((s.store A b n).set (rd w) R)))
    (hR : trunc W (r.eval ρ) = R) (hA : addr.eval ρ = A) (hlt : A < 2 ^ xlen)
    (hn : A + n ≤ 2 ^ xlen) {v' : Nat} (hv' : v.eval ρ = v')
    (hvb : v' % 2 ^ (8 * n) = b % 2 ^ (8 * n) := by mod_tac) :
    StepOK xlen name w s ρ [regStore r ⟨s.pc, w⟩ W, some (Riscv.memStore v addr n)] := by
  have hv : trunc n (v.eval ρ) = b % 2 ^ (8 * n) := by rw [hv']; exact hvb
  have hp := h.pow_le
  have hRlt : R < 2 ^ xlen := by rw [← hR, h.trunc_eq]; exact Nat.mod_lt _ (pow_pos' _)
  refine StepOK.intro hexec ?_ ?_ ?_
  · simp only [List.foldl_cons, List.foldl_nil]
    have := (h.rel.regStore r s.pc w W hR).memStore v addr n hA (by omega) (by omega) hv
    rw [St.set_store] at this
    exact this.withPc _
  · simp [fall]
  · exact ((h.wf.store _ _ _).set _ hRlt).withPc (next_lt _ _)

/-- SHAPE `[memStore v addr n, regStore r i W]` against the same reference form: `sc.w`, `sc.d` -/
theorem StepOK.of_sc (h : Ctx xlen W ρ s w) {r v addr : Expr} {n A b R : Nat}
    (hexec : exec xlen name w s = some (fall xlen s ((s.store A b n).set (rd w) R)))
    (hR : trunc W (r.eval ρ) = R) (hA : addr.eval ρ = A) (hlt : A < 2 ^ xlen)
    (hn : A + n ≤ 2 ^ xlen) (hv : trunc n (v.eval ρ) = b % 2 ^ (8 * n)) :
    StepOK xlen name w s ρ [some (Riscv.memStore v addr n), regStore r ⟨s.pc, w⟩ W] := by
  have hp := h.pow_le
  have hRlt : R < 2 ^ xlen := by rw [← hR, h.trunc_eq]; exact Nat.mod_lt _ (pow_pos' _)
  refine StepOK.intro hexec ?_ ?_ ?_
  · simp only [List.foldl_cons, List.foldl_nil]
    exact ((h.rel.memStore v addr n hA (by omega) (by omega) hv).regStore r s.pc w W hR).withPc _
  · simp [fall]
  · exact ((h.wf.store _ _ _).set _ hRlt).withPc (next_lt _ _)

end Mltwist.Lemmas.RiscvLift
