import Mltwist.Model.Deps
/-
"Every edge points forward" for a list of ids and a set of edges, and its preservation when one
element is moved over a segment that contains no dependent / no dependency of it.
-/
namespace Mltwist.Lemmas.Deps
open Mltwist Mltwist.Deps

/-- every edge of `E` joins two members of `L`, the first standing before the second -/
def Fwd (L : List Nat) (E : Edges) : Prop :=
  ∀ e ∈ E, e.1 ∈ L ∧ e.2 ∈ L ∧ L.idxOf e.1 < L.idxOf e.2

/-- position of `x` in `A ++ m :: Q ++ S` -/
theorem idxOf_amqs (A Q S : List Nat) (m x : Nat) (hnd : (A ++ m :: Q ++ S).Nodup) :
    (x ∈ A → (A ++ m :: Q ++ S).idxOf x = A.idxOf x ∧ A.idxOf x < A.length) ∧
    (x = m → (A ++ m :: Q ++ S).idxOf x = A.length) ∧
    (x ∈ Q → (A ++ m :: Q ++ S).idxOf x = A.length + 1 + Q.idxOf x ∧ Q.idxOf x < Q.length) ∧
    (x ∈ S → (A ++ m :: Q ++ S).idxOf x = A.length + 1 + Q.length + S.idxOf x) := by
  have hnd' : (A ++ (m :: (Q ++ S))).Nodup := by simpa using hnd
  rw [List.nodup_append] at hnd'
  obtain ⟨_, h2, h3⟩ := hnd'
  rw [List.nodup_cons] at h2
  obtain ⟨h4, h5⟩ := h2
  rw [List.nodup_append] at h5
  obtain ⟨_, _, h8⟩ := h5
  have e : A ++ m :: Q ++ S = A ++ (m :: (Q ++ S)) := by simp
  refine ⟨?_, ?_, ?_, ?_⟩
  · intro hx
    rw [e, List.idxOf_append, if_pos hx]
    exact ⟨rfl, List.idxOf_lt_length_of_mem hx⟩
  · intro hx
    subst hx
    have : x ∉ A := fun h => h3 x h x (by simp) rfl
    rw [e, List.idxOf_append, if_neg this]
    simp
  · intro hx
    have hA : x ∉ A := fun h => h3 x h x (by simp [hx]) rfl
    have hm : ¬ (m = x) := by
      intro h; subst h; exact h4 (by simp [hx])
    rw [e, List.idxOf_append, if_neg hA, List.idxOf_cons]
    have : (m == x) = false := by simpa using hm
    rw [this, cond_false, List.idxOf_append, if_pos hx]
    exact ⟨by omega, List.idxOf_lt_length_of_mem hx⟩
  · intro hx
    have hA : x ∉ A := fun h => h3 x h x (by simp [hx]) rfl
    have hm : ¬ (m = x) := by
      intro h; subst h; exact h4 (by simp [hx])
    have hQ : x ∉ Q := fun h => h8 x h x hx rfl
    rw [e, List.idxOf_append, if_neg hA, List.idxOf_cons]
    have : (m == x) = false := by simpa using hm
    rw [this, cond_false, List.idxOf_append, if_neg hQ]
    omega

/-- position of `x` in `A ++ Q ++ m :: S` -/
theorem idxOf_aqms (A Q S : List Nat) (m x : Nat) (hnd : (A ++ Q ++ m :: S).Nodup) :
    (x ∈ A → (A ++ Q ++ m :: S).idxOf x = A.idxOf x ∧ A.idxOf x < A.length) ∧
    (x = m → (A ++ Q ++ m :: S).idxOf x = A.length + Q.length) ∧
    (x ∈ Q → (A ++ Q ++ m :: S).idxOf x = A.length + Q.idxOf x ∧ Q.idxOf x < Q.length) ∧
    (x ∈ S → (A ++ Q ++ m :: S).idxOf x = A.length + 1 + Q.length + S.idxOf x) := by
  have hnd' : (A ++ (Q ++ (m :: S))).Nodup := by simpa using hnd
  rw [List.nodup_append] at hnd'
  obtain ⟨_, h2, h3⟩ := hnd'
  rw [List.nodup_append] at h2
  obtain ⟨_, h5, h6⟩ := h2
  rw [List.nodup_cons] at h5
  obtain ⟨h7, _⟩ := h5
  have e : A ++ Q ++ m :: S = A ++ (Q ++ (m :: S)) := by simp
  refine ⟨?_, ?_, ?_, ?_⟩
  · intro hx
    rw [e, List.idxOf_append, if_pos hx]
    exact ⟨rfl, List.idxOf_lt_length_of_mem hx⟩
  · intro hx
    subst hx
    have hA : x ∉ A := fun h => h3 x h x (by simp) rfl
    have hQ : x ∉ Q := fun h => h6 x h x (by simp) rfl
    rw [e, List.idxOf_append, if_neg hA, List.idxOf_append, if_neg hQ]
    simp
    omega
  · intro hx
    have hA : x ∉ A := fun h => h3 x h x (by simp [hx]) rfl
    rw [e, List.idxOf_append, if_neg hA, List.idxOf_append, if_pos hx]
    exact ⟨by omega, List.idxOf_lt_length_of_mem hx⟩
  · intro hx
    have hA : x ∉ A := fun h => h3 x h x (by simp [hx]) rfl
    have hQ : x ∉ Q := fun h => h6 x h x (by simp [hx]) rfl
    have hm : ¬ (m = x) := by
      intro h; subst h; exact h7 hx
    rw [e, List.idxOf_append, if_neg hA, List.idxOf_append, if_neg hQ, List.idxOf_cons]
    have : (m == x) = false := by simpa using hm
    rw [this, cond_false]
    omega

theorem mem_amqs {A Q S : List Nat} {m x : Nat} :
    x ∈ A ++ m :: Q ++ S ↔ x ∈ A ∨ x = m ∨ x ∈ Q ∨ x ∈ S := by
  simp

theorem mem_aqms {A Q S : List Nat} {m x : Nat} :
    x ∈ A ++ Q ++ m :: S ↔ x ∈ A ∨ x = m ∨ x ∈ Q ∨ x ∈ S := by
  simp only [List.mem_append, List.mem_cons]
  constructor
  · rintro ((h | h) | h | h) <;> simp [h]
  · rintro (h | h | h | h) <;> simp [h]

theorem nodup_amqs_iff (A Q S : List Nat) (m : Nat) :
    (A ++ Q ++ m :: S).Nodup ↔ (A ++ m :: Q ++ S).Nodup := by
  have : (A ++ Q ++ m :: S).Perm (A ++ m :: Q ++ S) := by
    have h1 : (Q ++ m :: S).Perm (m :: Q ++ S) := by
      have := (List.perm_middle (a := m) (l₁ := Q) (l₂ := S))
      simpa using this
    have := List.Perm.append_left A h1
    simpa using this
  exact this.nodup_iff

/-- moving `m` forward over `Q` keeps all edges forward when no edge goes from `m` into `Q` -/
theorem fwd_move_fwd (A Q S : List Nat) (m : Nat) (E : Edges) (hnd : (A ++ m :: Q ++ S).Nodup)
    (h : Fwd (A ++ m :: Q ++ S) E) (hb : ∀ e ∈ E, e.1 = m → e.2 ∉ Q) :
    Fwd (A ++ Q ++ m :: S) E := by
  have hnd' := (nodup_amqs_iff A Q S m).2 hnd
  intro e he
  obtain ⟨h1, h2, h3⟩ := h e he
  refine ⟨mem_aqms.2 (mem_amqs.1 h1), mem_aqms.2 (mem_amqs.1 h2), ?_⟩
  obtain ⟨a1, a2, a3, a4⟩ := idxOf_amqs A Q S m e.1 hnd
  obtain ⟨b1, b2, b3, b4⟩ := idxOf_amqs A Q S m e.2 hnd
  obtain ⟨c1, c2, c3, c4⟩ := idxOf_aqms A Q S m e.1 hnd'
  obtain ⟨d1, d2, d3, d4⟩ := idxOf_aqms A Q S m e.2 hnd'
  have hb' := hb e he
  rcases mem_amqs.1 h1 with x1 | x1 | x1 | x1 <;> rcases mem_amqs.1 h2 with y1 | y1 | y1 | y1
  all_goals
    first
      | (exact absurd y1 (hb' x1))
      | (have p1 := a1 x1; have p2 := b1 y1; have q1 := c1 x1; have q2 := d1 y1; omega)
      | (have p1 := a1 x1; have p2 := b2 y1; have q1 := c1 x1; have q2 := d2 y1; omega)
      | (have p1 := a1 x1; have p2 := b3 y1; have q1 := c1 x1; have q2 := d3 y1; omega)
      | (have p1 := a1 x1; have p2 := b4 y1; have q1 := c1 x1; have q2 := d4 y1; omega)
      | (have p1 := a2 x1; have p2 := b1 y1; have q1 := c2 x1; have q2 := d1 y1; omega)
      | (have p1 := a2 x1; have p2 := b2 y1; have q1 := c2 x1; have q2 := d2 y1; omega)
      | (have p1 := a2 x1; have p2 := b4 y1; have q1 := c2 x1; have q2 := d4 y1; omega)
      | (have p1 := a3 x1; have p2 := b1 y1; have q1 := c3 x1; have q2 := d1 y1; omega)
      | (have p1 := a3 x1; have p2 := b2 y1; have q1 := c3 x1; have q2 := d2 y1; omega)
      | (have p1 := a3 x1; have p2 := b3 y1; have q1 := c3 x1; have q2 := d3 y1; omega)
      | (have p1 := a3 x1; have p2 := b4 y1; have q1 := c3 x1; have q2 := d4 y1; omega)
      | (have p1 := a4 x1; have p2 := b1 y1; have q1 := c4 x1; have q2 := d1 y1; omega)
      | (have p1 := a4 x1; have p2 := b2 y1; have q1 := c4 x1; have q2 := d2 y1; omega)
      | (have p1 := a4 x1; have p2 := b3 y1; have q1 := c4 x1; have q2 := d3 y1; omega)
      | (have p1 := a4 x1; have p2 := b4 y1; have q1 := c4 x1; have q2 := d4 y1; omega)

/-- moving `m` backward over `Q` keeps all edges forward when no edge goes from `Q` to `m` -/
theorem fwd_move_back (A Q S : List Nat) (m : Nat) (E : Edges) (hnd : (A ++ Q ++ m :: S).Nodup)
    (h : Fwd (A ++ Q ++ m :: S) E) (hb : ∀ e ∈ E, e.2 = m → e.1 ∉ Q) :
    Fwd (A ++ m :: Q ++ S) E := by
  have hnd' := (nodup_amqs_iff A Q S m).1 hnd
  intro e he
  obtain ⟨h1, h2, h3⟩ := h e he
  refine ⟨mem_amqs.2 (mem_aqms.1 h1), mem_amqs.2 (mem_aqms.1 h2), ?_⟩
  obtain ⟨a1, a2, a3, a4⟩ := idxOf_aqms A Q S m e.1 hnd
  obtain ⟨b1, b2, b3, b4⟩ := idxOf_aqms A Q S m e.2 hnd
  obtain ⟨c1, c2, c3, c4⟩ := idxOf_amqs A Q S m e.1 hnd'
  obtain ⟨d1, d2, d3, d4⟩ := idxOf_amqs A Q S m e.2 hnd'
  have hb' := hb e he
  rcases mem_aqms.1 h1 with x1 | x1 | x1 | x1 <;> rcases mem_aqms.1 h2 with y1 | y1 | y1 | y1
  all_goals
    first
      | (exact absurd x1 (hb' y1))
      | (have p1 := a1 x1; have p2 := b1 y1; have q1 := c1 x1; have q2 := d1 y1; omega)
      | (have p1 := a1 x1; have p2 := b2 y1; have q1 := c1 x1; have q2 := d2 y1; omega)
      | (have p1 := a1 x1; have p2 := b3 y1; have q1 := c1 x1; have q2 := d3 y1; omega)
      | (have p1 := a1 x1; have p2 := b4 y1; have q1 := c1 x1; have q2 := d4 y1; omega)
      | (have p1 := a2 x1; have p2 := b1 y1; have q1 := c2 x1; have q2 := d1 y1; omega)
      | (have p1 := a2 x1; have p2 := b2 y1; have q1 := c2 x1; have q2 := d2 y1; omega)
      | (have p1 := a2 x1; have p2 := b3 y1; have q1 := c2 x1; have q2 := d3 y1; omega)
      | (have p1 := a2 x1; have p2 := b4 y1; have q1 := c2 x1; have q2 := d4 y1; omega)
      | (have p1 := a3 x1; have p2 := b1 y1; have q1 := c3 x1; have q2 := d1 y1; omega)
      | (have p1 := a3 x1; have p2 := b3 y1; have q1 := c3 x1; have q2 := d3 y1; omega)
      | (have p1 := a3 x1; have p2 := b4 y1; have q1 := c3 x1; have q2 := d4 y1; omega)
      | (have p1 := a4 x1; have p2 := b1 y1; have q1 := c4 x1; have q2 := d1 y1; omega)
      | (have p1 := a4 x1; have p2 := b2 y1; have q1 := c4 x1; have q2 := d2 y1; omega)
      | (have p1 := a4 x1; have p2 := b3 y1; have q1 := c4 x1; have q2 := d3 y1; omega)
      | (have p1 := a4 x1; have p2 := b4 y1; have q1 := c4 x1; have q2 := d4 y1; omega)

end Mltwist.Lemmas.Deps
