import Mltwist.Lemmas.Overlay
import Mltwist.Lemmas.SparseHistory
import Mltwist.Lemmas.BytesMemRead
import Mltwist.Lemmas.State
/-
C16, part 4: `Sparse` (C14) and `Bytes` (C15) satisfy the memory laws; hence every stack of memories
does; `Store`; `MemMap`.
-/
namespace Mltwist.Lemmas.Overlay
open Mltwist Mltwist.Overlay Mltwist.Interval Mltwist.Spec.Overlay
open Mltwist.Spec.Sparse (sumBytes SpecMem byteAt byteVal)
open Mltwist.Lemmas.Sparse (sumBytes_congr sumBytes_add)

/-! ### the sparse memory -/

theorem ofSparse_none (s : SpecMem) (x : Nat) : ofSparse s x = none ↔ s x = none := by
  unfold ofSparse
  cases s x <;> simp

theorem byteOf_ofSparse (ρ : Env) (s : SpecMem) (x : Nat) : byteOf ρ (ofSparse s x) = byteAt ρ (s x) := by
  unfold ofSparse
  cases s x <;> rfl

theorem bytewise_ofSparse (s : SpecMem) : Bytewise (ofSparse s) := by
  intro x v hv ρ
  unfold ofSparse at hv
  cases hs : s x with
  | none => rw [hs] at hv; cases hv
  | some c =>
    rw [hs] at hv
    simp only [Option.some.injEq] at hv
    subst hv
    exact Nat.mod_lt _ (by decide)

theorem sparse_laws (t : Sparse.Tree) (hinv : Sparse.Inv t) :
    MemLaws (sparseView t) (ofSparse (Sparse.abs t)) where
  bytewise := bytewise_ofSparse _
  load := by
    intro a w hd
    obtain ⟨r, h1, h2, h3⟩ := Lemmas.Sparse.load_ok t hinv a w hd
    refine ⟨r, by simp [sparseView, liftS, h1], ?_, fun e he => ⟨(h3 e he).1, fun ρ => ?_⟩⟩
    · rw [h2]
      exact forall_congr' fun i => imp_congr_right fun _ => not_congr (ofSparse_none _ _).symm
    · rw [(h3 e he).2 ρ]
      unfold loadVal
      exact sumBytes_congr w (fun i _ => (byteOf_ofSparse ρ _ _).symm)
  missing := by
    intro a w hd
    obtain ⟨l, h1, h2, h3⟩ := Lemmas.Sparse.missing_ok t hinv a w hd
    refine ⟨l, by simp [sparseView, liftS, h1], h2, fun x => ?_⟩
    rw [h3 x, ofSparse_none]
  blocks := by
    obtain ⟨l, h1, h2, h3⟩ := Lemmas.Sparse.blocks_ok t hinv
    refine ⟨l, by simp [sparseView, liftS, h1], h2, fun x => ?_⟩
    rw [h3 x, Ne, Ne, ofSparse_none]

/-- equal cells denote equal abstract bytes -/
theorem ofSparse_congr {s s' : SpecMem} (h : Sparse.SpecEq s s') : ofSparse s = ofSparse s' := by
  funext x
  have hx := h x
  unfold ofSparse
  cases hs : s x with
  | none =>
    cases hs' : s' x with
    | none => rfl
    | some d => rw [hs, hs'] at hx; exact absurd hx (by simp [Sparse.CellEq])
  | some c =>
    cases hs' : s' x with
    | none => rw [hs, hs'] at hx; exact absurd hx (by simp [Sparse.CellEq])
    | some d =>
      simp only [Option.some.injEq]
      funext ρ
      have := Lemmas.Sparse.cellEq_byteAt hx ρ
      rw [hs, hs'] at this
      exact this

theorem ofSparse_store (s : SpecMem) (a : Nat) (e : Expr) (w : Nat) :
    ofSparse (s.store a e w) = (ofSparse s).store a e w := by
  funext x
  unfold ofSparse Spec.Sparse.SpecMem.store AbsMem.store
  by_cases hx : a ≤ x ∧ x < a + w
  · simp only [if_pos hx]; rfl
  · simp only [if_neg hx]

/-! ### the byte memory -/

theorem ofBytes_none (m : BytesSpec.ByteMap) (x : Nat) : ofBytes m x = none ↔ m x = none := by
  unfold ofBytes
  cases m x <;> simp

theorem bytewise_ofBytes (m : BytesSpec.ByteMap) : Bytewise (ofBytes m) := by
  intro x v hv ρ
  unfold ofBytes at hv
  cases hs : m x with
  | none => rw [hs] at hv; cases hv
  | some c =>
    rw [hs] at hv
    simp only [Option.some.injEq] at hv
    subst hv
    exact c.toNat_lt

/-- the value of a byte string is the little-endian sum of its bytes -/
theorem leToNat_eq_sum : ∀ v : List UInt8,
    leToNat v = sumBytes (fun i => match v[i]? with | some b => b.toNat | none => 0) v.length
  | [] => rfl
  | b :: bs => by
    rw [List.length_cons, Nat.add_comm, sumBytes_add _ 1 bs.length, leToNat, leToNat_eq_sum bs]
    simp [sumBytes]
    congr 1
    apply sumBytes_congr
    intro i _
    rw [Nat.add_comm 1 i]
    simp

theorem bytes_laws (bs : List BytesMem.Block) (hinv : BytesSpec.Inv bs) :
    MemLaws (bytesView bs) (ofBytes (BytesSpec.ofBlocks bs)) where
  bytewise := bytewise_ofBytes _
  load := by
    intro a w hd
    obtain ⟨r, h1, h2, h3⟩ := Lemmas.BytesMem.load_spec bs hinv a w hd.1
    refine ⟨r.map Expr.const, by simp [bytesView, bytesLoad, h1], ?_, ?_⟩
    · have : (r.map Expr.const ≠ none) ↔ r.isSome = true := by cases r <;> simp
      rw [this, h2]
      exact forall_congr' fun i => imp_congr_right fun _ => not_congr (ofBytes_none _ _).symm
    · intro e he
      cases r with
      | none => simp at he
      | some v =>
        simp only [Option.map_some, Option.some.injEq] at he
        subst he
        obtain ⟨q1, q2⟩ := h3 v rfl
        refine ⟨q1, fun ρ => ?_⟩
        show leToNat v = _
        rw [leToNat_eq_sum, q1]
        unfold loadVal
        apply sumBytes_congr
        intro i hi
        rw [q2 i hi]
        unfold ofBytes byteOf
        cases BytesSpec.ofBlocks bs (a + i) <;> rfl
  missing := by
    intro a w hd
    obtain ⟨h2, h3⟩ := Lemmas.BytesMem.missing_spec bs hinv a w hd.1
    refine ⟨BytesMem.missing bs a w, rfl, h2, fun x => ?_⟩
    rw [h3 x, ofBytes_none]
    constructor
    · rintro ⟨q1, q2, q3⟩; exact ⟨q1, by omega, q3⟩
    · rintro ⟨q1, q2, q3⟩; exact ⟨q1, by omega, q3⟩
  blocks := by
    obtain ⟨h2, h3⟩ := Lemmas.BytesMem.blocks_spec bs hinv
    refine ⟨BytesMem.blocks bs, rfl, h2, fun x => ?_⟩
    rw [h3 x, Ne, Ne, ofBytes_none]

theorem natToLE_getElem? : ∀ (w v i : Nat), i < w →
    (natToLE w v)[i]? = some (UInt8.ofNat (v / 256 ^ i % 256))
  | 0, _, _, h => absurd h (by omega)
  | w + 1, v, 0, _ => by simp [natToLE]
  | w + 1, v, i + 1, h => by
    rw [natToLE, List.getElem?_cons_succ, natToLE_getElem? w (v / 256) i (by omega),
      Nat.div_div_eq_div_mul, Nat.pow_succ, Nat.mul_comm]

theorem ofBytes_write (m : BytesSpec.ByteMap) (a w : Nat) (c : List UInt8) :
    ofBytes (BytesSpec.write m a (BytesSpec.storeBytes c w)) = (ofBytes m).store a (.const c) w := by
  funext x
  unfold ofBytes BytesSpec.write AbsMem.store BytesSpec.storeBytes
  rw [Lemmas.Bytes.natToLE_length]
  by_cases hx : a ≤ x ∧ x < a + w
  · simp only [if_pos hx]
    rw [natToLE_getElem? w _ (x - a) (by omega)]
    simp only [Option.some.injEq]
    funext ρ
    have h1 : (UInt8.ofNat (leToNat c / 256 ^ (x - a) % 256)).toNat = leToNat c / 256 ^ (x - a) % 256 := by
      rw [UInt8.toNat_ofNat']
      exact Nat.mod_eq_of_lt (Nat.mod_lt _ (by decide))
    rw [h1]
    exact (Lemmas.Sparse.byteOf_trunc (w := w) (i := x - a) (by omega) (leToNat c)).symm
  · simp only [if_neg hx]

/-! ### stacks of memories -/

/-- every stack of memories whose layers satisfy their invariants obeys the memory laws for its
layered byte map -/
theorem mem_laws : ∀ m : Mem, m.Inv → MemLaws m.view m.abs
  | .bytes bs, h => bytes_laws bs h
  | .sparse t, h => sparse_laws t h
  | .overlay b o, h => overlay_laws (mem_laws b h.1) (mem_laws o h.2)

/-- `Store`: no panic, the invariant is kept, the byte map is updated, and the base component of an
overlay is the old base -/
theorem mem_store : ∀ (m : Mem) (a : Nat) (e : Expr) (w : Nat), m.Inv → m.Storable e → InDom a w →
    ∃ m', m.store a e w = .ok m' ∧ m'.Inv ∧ m'.abs = m.abs.store a e w ∧ m'.base = m.base ∧
      ∀ e', m'.Storable e' ↔ m.Storable e'
  | .bytes bs, a, e, w, hinv, hst, _ => by
    cases e with
    | const c =>
      obtain ⟨bs', h1, h2, h3⟩ := Lemmas.BytesMem.storeConst_spec bs hinv a w c
      refine ⟨.bytes bs', by simp [Mem.store, BytesMem.storeExpr, h1], h2, ?_, rfl, fun _ => Iff.rfl⟩
      show ofBytes (BytesSpec.ofBlocks bs') = _
      rw [show BytesSpec.ofBlocks bs' = BytesSpec.write (BytesSpec.ofBlocks bs) a (BytesSpec.storeBytes c w)
        from funext h3]
      exact ofBytes_write _ a w c
    | _ => simp [Mem.Storable, Expr.isConst] at hst
  | .sparse t, a, e, w, hinv, _, hd => by
    obtain ⟨t', h1, h2, h3⟩ := Lemmas.Sparse.store_ok t hinv a e w hd
    refine ⟨.sparse t', by simp [Mem.store, h1], h2, ?_, rfl, fun _ => Iff.rfl⟩
    show ofSparse (Sparse.abs t') = _
    rw [ofSparse_congr h3]
    exact ofSparse_store _ a e w
  | .overlay b o, a, e, w, hinv, hst, hd => by
    obtain ⟨o', h1, h2, h3, _, h5⟩ := mem_store o a e w hinv.2 hst hd
    refine ⟨.overlay b o', by simp [Mem.store, h1], ⟨hinv.1, h2⟩, ?_, rfl, fun e' => h5 e'⟩
    show layer o'.abs b.abs = _
    rw [h3]
    funext x
    unfold layer AbsMem.store
    by_cases hx : a ≤ x ∧ x < a + w
    · simp only [if_pos hx]
    · simp only [if_neg hx]
      rfl

/-- any history of supported in-domain stores: no panic, invariants kept, the byte map is the replayed
one, the base is the old base -/
theorem history_ok : ∀ (hist : List Sparse.StoreReq) (m : Mem), m.Inv →
    (∀ r ∈ hist, m.Storable r.ex) → (∀ r ∈ hist, InDom r.addr r.w) →
    ∃ m', runStores m hist = .ok m' ∧ m'.Inv ∧ m'.abs = absStores m.abs hist ∧ m'.base = m.base
  | [], m, hinv, _, _ => ⟨m, rfl, hinv, rfl, rfl⟩
  | r :: rs, m, hinv, hst, hd => by
    obtain ⟨m1, h1, h2, h3, h4, h5⟩ :=
      mem_store m r.addr r.ex r.w hinv (hst r List.mem_cons_self) (hd r List.mem_cons_self)
    obtain ⟨m', g1, g2, g3, g4⟩ := history_ok rs m1 h2
      (fun x hx => (h5 x.ex).2 (hst x (List.mem_cons_of_mem _ hx)))
      (fun x hx => hd x (List.mem_cons_of_mem _ hx))
    refine ⟨m', ?_, g2, ?_, g4.trans h4⟩
    · simp only [runStores, h1]
      exact g1
    · rw [g3, h3]
      rfl

/-- a history of stores to an overlay is the same history on its overlay layer over the same base -/
theorem runStores_overlay (b : Mem) : ∀ (hist : List Sparse.StoreReq) (o : Mem),
    runStores (.overlay b o) hist =
      match runStores o hist with
      | .ok o' => .ok (.overlay b o')
      | .error f => .error f
  | [], o => rfl
  | r :: rs, o => by
    simp only [runStores, Mem.store]
    cases ho : o.store r.addr r.ex r.w with
    | ok o' => simp only; exact runStores_overlay b rs o'
    | error f => rfl

/-! ### `MemMap` -/

theorem laws_empty_sparse : MemLaws (sparseView []) AbsMem.empty := by
  have := sparse_laws [] ⟨List.Pairwise.nil, fun _ h => nomatch h⟩
  have h0 : ofSparse (Sparse.abs []) = AbsMem.empty := by
    funext x
    rfl
  rwa [h0] at this

/-- an unknown key reads as an empty memory -/
theorem memmap_laws (m : MemMap) (hinv : m.Inv) (key : String) : MemLaws (m.view key) (m.abs key) := by
  unfold MemMap.abs
  cases hk : assocGet key m with
  | some mem =>
    have := mem_laws mem (hinv key mem hk)
    have hv : m.view key = mem.view := by
      unfold MemMap.view MemMap.load MemMap.missing MemMap.blocks
      simp only [hk]
      rfl
    rw [hv]
    exact this
  | none =>
    have hl := laws_empty_sparse
    refine ⟨hl.bytewise, fun a w hd => ?_, fun a w hd => ?_, ?_⟩
    · refine ⟨none, by simp [MemMap.view, MemMap.load, hk], ?_, fun e he => by cases he⟩
      simp only [ne_eq, not_true_eq_false, false_iff]
      intro h
      exact h 0 hd.1 rfl
    · have hend : Sparse.endAddr a w = a + w := by unfold Sparse.endAddr; have := hd.2.2; omega
      refine ⟨[((a : Int), ((a + w : Nat) : Int))], ?_, ?_, fun x => ?_⟩
      · simp only [MemMap.view, MemMap.missing, hk, hend, newIntv]
        rw [if_neg (by omega)]
        simp [newMap, sortByBegin, insertByBegin, addInterval]
      · show (a : Int) < ((a + w : Nat) : Int)
        have := hd.1
        omega
      · rw [Lemmas.Interval.mem_singleton]
        simp only [AbsMem.empty, and_true]
        omega
    · refine ⟨[], by simp [MemMap.view, MemMap.blocks, hk, newMap, sortByBegin], trivial, fun x => ?_⟩
      simp [Lemmas.Interval.mem_nil, AbsMem.empty]

theorem memmap_store_eq (m : MemMap) (key : String) (a : Nat) (e : Expr) (w : Nat) :
    m.store key a e w =
      match ((assocGet key m).getD (Mem.sparse [])).store a e w with
      | .ok mem' => .ok (assocSet key mem' m)
      | .error f => .error f := by
  unfold MemMap.store
  cases assocGet key m <;> rfl

/-- `MemMap.Store`: only the address space `key` changes, by the store -/
theorem memmap_store (m : MemMap) (hinv : m.Inv) (key : String) (a : Nat) (e : Expr) (w : Nat)
    (hst : m.Storable key e) (hd : InDom a w) :
    ∃ m', m.store key a e w = .ok m' ∧ m'.Inv ∧ m'.abs key = (m.abs key).store a e w ∧
      (∀ key', key' ≠ key → assocGet key' m' = assocGet key' m) ∧
      ∀ e', m'.Storable key e' ↔ m.Storable key e' ∨ assocGet key m = none := by
  rw [memmap_store_eq]
  have hmem : ∃ mem, (assocGet key m).getD (Mem.sparse []) = mem ∧
      mem.Inv ∧ mem.Storable e ∧ mem.abs = m.abs key ∧
      ∀ e', mem.Storable e' ↔ m.Storable key e' ∨ assocGet key m = none := by
    unfold MemMap.abs MemMap.Storable at *
    cases hk : assocGet key m with
    | none =>
      refine ⟨_, rfl, ⟨List.Pairwise.nil, fun _ h => nomatch h⟩, trivial, ?_, fun _ => by simp [Mem.Storable]⟩
      funext x; rfl
    | some mem =>
      rw [hk] at hst
      exact ⟨mem, rfl, hinv key mem hk, hst, rfl, fun _ => by simp⟩
  obtain ⟨mem, hm0, hm1, hm2, hm3, hm4⟩ := hmem
  rw [hm0]
  obtain ⟨mem', h1, h2, h3, _, h5⟩ := mem_store mem a e w hm1 hm2 hd
  rw [h1]
  refine ⟨_, rfl, ?_, ?_, fun key' hne => Lemmas.State.assocGet_set_other key key' mem' hne m, fun e' => ?_⟩
  · intro k2 mem2 hk2
    by_cases hkk : k2 = key
    · subst hkk
      rw [Lemmas.State.assocGet_set_same] at hk2
      cases hk2
      exact h2
    · rw [Lemmas.State.assocGet_set_other key k2 mem' hkk m] at hk2
      exact hinv k2 mem2 hk2
  · unfold MemMap.abs
    rw [Lemmas.State.assocGet_set_same]
    simp only
    rw [h3, hm3]
    rfl
  · unfold MemMap.Storable
    rw [Lemmas.State.assocGet_set_same]
    simp only
    rw [h5 e', hm4 e']
    rfl

end Mltwist.Lemmas.Overlay
