import Mltwist.Lemmas.EmulatorAgree
/-
Emulator (C03), part 11: one step of the emulator implements the reference semantics of the effect list
of the instruction (`Spec.Lift.Env.applyEffects`, `Spec.Lift.nextIp`): if the state (with the provider)
represents the valuation `ρ`, then after the step it represents `ρ` with the effects applied (all
evaluated under the pre-state valuation, applied in order) and the instruction pointer set to the last
instruction-pointer write, or to the end of the instruction if there is none.
-/
namespace Mltwist.Lemmas.Emulator
open Mltwist Mltwist.State Mltwist.Overlay Mltwist.Emulator Mltwist.Spec.Overlay Mltwist.Interval
open Mltwist.Lemmas.State (Good assocGet_set_same assocGet_set_other)
open Mltwist.Lemmas.Transform (trunc_trunc_of_le trunc_of_lt trunc_lt)
open Mltwist.Spec.Lift (applyEffect storeMem nextIp)

/-! ### a byte-wise description of `storeMem` -/

theorem storeMem_get : ∀ (w : Nat) (mem : Nat → Nat) (a v x : Nat), a + w ≤ 2 ^ 64 →
    storeMem mem a v w x = if a ≤ x ∧ x < a + w then v / 256 ^ (x - a) % 256 else mem x
  | 0, mem, a, v, x, _ => by
    simp only [storeMem]
    rw [if_neg (by omega)]
  | w + 1, mem, a, v, x, h => by
    have ha : a % 2 ^ 64 = a := Nat.mod_eq_of_lt (by omega)
    rw [storeMem, storeMem_get w _ (a + 1) (v / 256) x (by omega), ha]
    by_cases h1 : a + 1 ≤ x ∧ x < a + 1 + w
    · rw [if_pos h1, if_pos (by omega)]
      have : x - a = (x - (a + 1)) + 1 := by omega
      rw [this, Nat.pow_succ, Nat.mul_comm, Nat.div_div_eq_div_mul]
    · rw [if_neg h1]
      by_cases h2 : x = a
      · subst h2
        rw [if_pos rfl, if_pos (by omega)]
        simp
      · rw [if_neg h2, if_neg (by omega)]

/-! ### `Agree` only looks at the valuation pointwise -/

theorem Agree.congr {p : Provider} {code : CodeView} {ρ ρ2 : Env} {s : State} (h : Agree p code ρ s)
    (hr : ∀ k, ρ2.reg k = ρ.reg k) (hm : ∀ key x, ρ2.mem key x = ρ.mem key x) : Agree p code ρ2 s :=
  ⟨fun k c hk w hw => by rw [hr]; exact h.regKnown k c hk w hw,
   fun k hk => by rw [hr]; exact h.regUnknown k hk,
   fun key x b hb ρ' => by rw [hm]; exact h.memKnown key x b hb ρ',
   fun key a w i hi hb => by rw [hm]; exact h.memUnknown key a w i hi hb⟩

/-! ### the evaluated effects, applied, are `applyEffects` -/

/-- the constants the effect was evaluated to are the values of its expressions under `ρ` -/
def EvalsTo (ρ : Env) (s1 : State) : Effect → Prop
  | .regStore v _ _ => leToNat (valBytes s1 v) = v.eval ρ
  | .memStore v _ a _ => leToNat (valBytes s1 v) = v.eval ρ ∧ leToNat (valBytes s1 a) = a.eval ρ

theorem agree_regStore {p : Provider} {code : CodeView} {cur : Env} {s : State} (ha : Agree p code cur s)
    (vb : List UInt8) (k : String) (w val : Nat) (hv : leToNat vb = val) :
    Agree p code { cur with reg := fun k' => if k' = k then trunc w val else cur.reg k' }
      { s with regs := s.regs.store k (.const vb) w } := by
  have hst : ∀ k', assocGet k' (s.regs.store k (.const vb) w) =
      if k' = k then some (.const (cw vb w)) else assocGet k' s.regs := by
    intro k'
    unfold RegMap.store
    by_cases hk : k' = k
    · subst hk; rw [assocGet_set_same, if_pos rfl, setWidth_const]
    · rw [assocGet_set_other k k' _ hk, if_neg hk]
  refine ⟨fun k' c hk w' hw' => ?_, fun k' hk => ?_, ha.memKnown, ha.memUnknown⟩
  · simp only at hk ⊢
    rw [hst] at hk
    by_cases hkk : k' = k
    · rw [if_pos hkk] at hk ⊢
      cases hk
      rw [cw_value, hv]
    · rw [if_neg hkk] at hk ⊢
      exact ha.regKnown k' c hk w' hw'
  · simp only at hk ⊢
    rw [hst] at hk
    by_cases hkk : k' = k
    · rw [if_pos hkk] at hk; cases hk
    · rw [if_neg hkk] at hk ⊢
      exact ha.regUnknown k' hk

theorem agree_memStore {p : Provider} {code : CodeView} {cur : Env} {s : State} (hi : Inv s)
    (ha : Agree p code cur s) (vb : List UInt8) (key : String) (addr w val : Nat) (m' : MemMap)
    (hd : InDom addr w) (hs : s.mems.store key addr (.const vb) w = .ok m') (hv : leToNat vb = val) :
    Agree p code { cur with mem := fun k' => if k' = key then storeMem (cur.mem key) addr (trunc w val) w
                                              else cur.mem k' }
      { s with mems := m' } := by
  obtain ⟨m2, g1, _, g3, g4⟩ := good_store hi.good key addr (.const vb) w hd
  rw [hs] at g1
  cases g1
  have hsm : ∀ x, storeMem (cur.mem key) addr (trunc w val) w x =
      if addr ≤ x ∧ x < addr + w then trunc w val / 256 ^ (x - addr) % 256 else cur.mem key x :=
    fun x => storeMem_get w _ addr _ x (by have := hd.2.2; omega)
  have habs : ∀ key' x, m'.abs key' x =
      if key' = key ∧ addr ≤ x ∧ x < addr + w
      then some (fun _ => trunc w val / 256 ^ (x - addr) % 256) else s.mems.abs key' x := by
    intro key' x
    by_cases hk : key' = key
    · subst hk
      rw [g3]
      unfold AbsMem.store
      by_cases hr : addr ≤ x ∧ x < addr + w
      · rw [if_pos hr, if_pos ⟨rfl, hr⟩]
        simp only [Expr.eval, hv]
      · rw [if_neg hr, if_neg (fun h => hr h.2)]
    · rw [g4 key' hk, if_neg (fun h => hk h.1)]
  refine ⟨ha.regKnown, ha.regUnknown, fun key' x b hb ρ' => ?_, fun key' a' w' i hi' hb => ?_⟩
  · simp only at hb ⊢
    rw [habs] at hb
    by_cases hk : key' = key
    · subst hk
      rw [if_pos rfl, hsm]
      by_cases hr : addr ≤ x ∧ x < addr + w
      · rw [if_pos ⟨rfl, hr⟩] at hb
        cases hb
        rw [if_pos hr, Nat.mod_mod]
      · rw [if_neg (fun h => hr h.2)] at hb
        rw [if_neg hr]
        exact ha.memKnown key' x b hb ρ'
    · rw [if_neg (fun h => hk h.1)] at hb
      rw [if_neg hk]
      exact ha.memKnown key' x b hb ρ'
  · simp only at hb ⊢
    rw [habs] at hb
    by_cases hk : key' = key
    · subst hk
      rw [if_pos rfl, hsm]
      by_cases hr : addr ≤ a' + i ∧ a' + i < addr + w
      · rw [if_pos ⟨rfl, hr⟩] at hb; cases hb
      · rw [if_neg (fun h => hr h.2)] at hb
        rw [if_neg hr]
        exact ha.memUnknown key' a' w' i hi' hb
    · rw [if_neg (fun h => hk h.1)] at hb
      rw [if_neg hk]
      exact ha.memUnknown key' a' w' i hi' hb

/-- applying the evaluated effects to a state that represents `cur` yields a state that represents `cur`
with the effects applied (each evaluated under `ρ`) -/
theorem applied_agree {p : Provider} {code : CodeView} {ρ : Env} (s1 : State) : ∀ (efs : List Effect)
    (s s' : State) (cur : Env), Applied s (efs.map (evalEff s1)) s' → Inv s → Agree p code cur s →
    (∀ ef ∈ efs, EvalsTo ρ s1 ef) → Agree p code (efs.foldl (applyEffect ρ) cur) s'
  | [], s, s', cur, hap, _, ha, _ => by
    cases hap
    exact ha
  | .regStore v k w :: efs, s, s', cur, hap, hi, ha, hev => by
    have h0 := hev _ (List.mem_cons_self ..)
    simp only [List.map_cons, evalEff] at hap
    cases hap with
    | reg vb k' w' hap' =>
      simp only [List.foldl_cons]
      refine applied_agree s1 efs _ s' _ hap' (inv_regStore hi _ k w) ?_
        (fun ef h => hev ef (List.mem_cons_of_mem _ h))
      exact agree_regStore ha _ k w _ h0
  | .memStore v key a w :: efs, s, s', cur, hap, hi, ha, hev => by
    have h0 := hev _ (List.mem_cons_self ..)
    simp only [List.map_cons, evalEff] at hap
    cases hap with
    | mem vb key' ab w' m' hd hvl hs hap' =>
      simp only [List.foldl_cons]
      refine applied_agree s1 efs _ s' _ hap' (inv_store hi hd hvl hs) ?_
        (fun ef h => hev ef (List.mem_cons_of_mem _ h))
      have haddr : leToNat (valBytes s1 a) % 2 ^ 64 = a.eval ρ % 2 ^ 64 := by rw [h0.2]
      rw [haddr] at hd hs
      exact agree_memStore hi ha _ key _ w _ m' hd hs h0.1

/-! ### the instruction pointer -/

/-- `nextIp` as a fold -/
def ipStep (ρ : Env) (ip : Nat) : Effect → Nat
  | .regStore v k w => if k = Spec.Lift.ipKey then trunc w (v.eval ρ) else ip
  | _ => ip

theorem nextIp_eq (ρ : Env) (efs : List Effect) (fall : Nat) : nextIp ρ efs fall = efs.foldl (ipStep ρ) fall := by
  unfold nextIp
  congr 1

/-- after the writes: if some effect is a jump, the state's instruction pointer and the valuation's
instruction-pointer register are the last instruction-pointer write; if none is, neither was touched -/
theorem jump_inv {ρ : Env} (s1 : State) : ∀ (efs : List Effect) (s s' : State) (cur : Env) (ip : Nat) (j : Bool),
    Applied s (efs.map (evalEff s1)) s' → (∀ ef ∈ efs, EvalsTo ρ s1 ef) →
    (j = true → cur.reg ipKey = ip ∧ ∃ c, assocGet ipKey s.regs = some (.const c) ∧ leToNat c = ip) →
    ((j || efs.any isJump) = true →
      (efs.foldl (applyEffect ρ) cur).reg ipKey = efs.foldl (ipStep ρ) ip ∧
      ∃ c, assocGet ipKey s'.regs = some (.const c) ∧ leToNat c = efs.foldl (ipStep ρ) ip) ∧
    ((j || efs.any isJump) = false →
      efs.foldl (ipStep ρ) ip = ip ∧ (efs.foldl (applyEffect ρ) cur).reg ipKey = cur.reg ipKey ∧
      assocGet ipKey s'.regs = assocGet ipKey s.regs)
  | [], s, s', cur, ip, j, hap, _, hj => by
    cases hap
    simp only [List.any_nil, Bool.or_false, List.foldl_nil]
    exact ⟨hj, by simp⟩
  | .memStore v key a w :: efs, s, s', cur, ip, j, hap, hev, hj => by
    simp only [List.map_cons, evalEff] at hap
    cases hap with
    | mem vb key' ab w' m' hd hvl hs hap' =>
      have ih := jump_inv s1 efs _ s' (applyEffect ρ cur (.memStore v key a w)) ip j hap'
        (fun ef h => hev ef (List.mem_cons_of_mem _ h)) hj
      simp only [List.any_cons, isJump, Bool.false_or, List.foldl_cons, ipStep] at ih ⊢
      exact ih
  | .regStore v k w :: efs, s, s', cur, ip, j, hap, hev, hj => by
    have h0 : leToNat (valBytes s1 v) = v.eval ρ := hev _ (List.mem_cons_self ..)
    simp only [List.map_cons, evalEff] at hap
    cases hap with
    | reg vb k' w' hap' =>
      by_cases hk : k = ipKey
      · subst hk
        have ih := jump_inv s1 efs _ s' (applyEffect ρ cur (.regStore v ipKey w)) (trunc w (v.eval ρ)) true hap'
          (fun ef h => hev ef (List.mem_cons_of_mem _ h)) (fun _ => by
            refine ⟨by simp [applyEffect], cw (valBytes s1 v) w, ?_, by rw [cw_value, h0]⟩
            show assocGet ipKey (RegMap.store _ _ _ _) = _
            unfold RegMap.store
            rw [assocGet_set_same, setWidth_const])
        have hstep : ipStep ρ ip (.regStore v ipKey w) = trunc w (v.eval ρ) := by
          simp [ipStep, ipKey, Spec.Lift.ipKey]
        have hjmp : isJump (.regStore v ipKey w) = true := by simp [isJump]
        simp only [List.any_cons, hjmp, Bool.true_or, Bool.or_true, List.foldl_cons, hstep] at ih ⊢
        exact ⟨fun _ => ih.1 trivial, fun h => by cases h⟩
      · have hne : ¬ (k = Spec.Lift.ipKey) := hk
        have hstep : ipStep ρ ip (.regStore v k w) = ip := by simp [ipStep, hne]
        have hjmp : isJump (.regStore v k w) = false := by
          simp only [isJump, beq_eq_false_iff_ne, ne_eq]; exact hk
        have ih := jump_inv s1 efs _ s' (applyEffect ρ cur (.regStore v k w)) ip j hap'
          (fun ef h => hev ef (List.mem_cons_of_mem _ h)) (fun hjt => by
            obtain ⟨h1, c, h2, h3⟩ := hj hjt
            refine ⟨by simp only [applyEffect]; rw [if_neg (Ne.symm hk)]; exact h1, c, ?_, h3⟩
            show assocGet ipKey (RegMap.store _ _ _ _) = _
            unfold RegMap.store
            rw [assocGet_set_other k ipKey _ (Ne.symm hk)]
            exact h2)
        simp only [List.any_cons, hjmp, Bool.false_or, List.foldl_cons, hstep] at ih ⊢
        refine ⟨ih.1, fun h => ?_⟩
        obtain ⟨g1, g2, g3⟩ := ih.2 h
        refine ⟨g1, ?_, ?_⟩
        · rw [g2]; simp only [applyEffect]; rw [if_neg (Ne.symm hk)]
        · rw [g3]
          show assocGet ipKey (RegMap.store _ _ _ _) = _
          unfold RegMap.store
          exact assocGet_set_other k ipKey _ (Ne.symm hk) _

/-! ### one step implements the effect list -/

/-- the valuation with the instruction-pointer register set -/
def withIp (ρ : Env) (v : Nat) : Env := { ρ with reg := fun k => if k = ipKey then v else ρ.reg k }

theorem end_lt (ins : Ins) : ins.end_ < 2 ^ 64 := Nat.mod_lt _ (by decide)

theorem mem_evalOrders {efs : List Effect} {e : Expr} (h : e ∈ evalOrders efs) :
    ∃ ef ∈ efs, e ∈ evalOrder ef := by
  unfold evalOrders at h
  exact List.mem_flatMap.1 h

/-- If the state and the provider represent `ρ`, a step at an instruction of the code succeeds, and the new
state represents `ρ` with the effects of the instruction applied and the instruction pointer at
`nextIp ρ effects (end of the instruction)`; the new state's instruction pointer is exactly that value. -/
theorem step_sound (p : Provider) (code : CodeView) {s : State} {ρ : Env} {c : List UInt8} {ins : Ins}
    (hr : Ready s) (ha : Agree p code ρ s) (hip : assocGet ipKey s.regs = some (.const c))
    (hl : code.lookup (leToNat c % 2 ^ 64) = some ins) (hw : InsWF ins) (hd : StepDom p code s ins) :
    ∃ s1 s' rep log, step p code s = .ok s' rep log ∧ Ready s' ∧
      Fill p s log s1 ∧ Agree p code ρ s1 ∧ PresentAll s1 (evalOrders ins.effects) ∧ Inv s1 ∧
      recordAll (noteExprs s1 {} (evalOrders ins.effects)) (ins.effects.map (evalEff s1)) = some rep ∧
      Agree p code (withIp (Spec.Lift.Env.applyEffects ρ ins.effects) (nextIp ρ ins.effects ins.end_)) s' ∧
      ∃ c', assocGet ipKey s'.regs = some (.const c') ∧ leToNat c' = nextIp ρ ins.effects ins.end_ := by
  obtain ⟨s1, s2, log, rep, h1, hf, hi1, hap, hi2, hpres, hrec, hq⟩ := step_ok p code hr.inv hip hl hw hd
  have hmem := lookup_mem hl
  -- the register requests are at the code's width
  have hatw : AtCodeWidth code log := by
    intro k w hk
    rcases hq _ hk with ⟨e, he, kw, hkw, heq⟩ | ⟨k', a', w', heq⟩
    · cases heq
      obtain ⟨ef, hef, he'⟩ := mem_evalOrders he
      have := regsLe_of_code hmem hef he' kw hkw
      exact Nat.max_eq_right this
    · cases heq
  have ha1 : Agree p code ρ s1 := hf.agree hr.inv ha hatw
  have hev : ∀ ef ∈ ins.effects, EvalsTo ρ s1 ef := by
    intro ef hef
    have hp : ∀ e ∈ evalOrder ef, leToNat (valBytes s1 e) = e.eval ρ := by
      intro e he
      have hin : e ∈ evalOrders ins.effects := List.mem_flatMap.2 ⟨ef, hef, he⟩
      exact valBytes_eval hi1 ha1 (hpres e hin) (regsLe_of_code hmem hef he)
    cases ef with
    | regStore v k w => exact hp v (by simp [evalOrder])
    | memStore v k a w => exact ⟨hp v (by simp [evalOrder]), hp a (by simp [evalOrder])⟩
  have ha2 : Agree p code (Spec.Lift.Env.applyEffects ρ ins.effects) s2 :=
    applied_agree s1 ins.effects s1 s2 ρ hap hi1 ha1 hev
  have hjmp := jump_inv (ρ := ρ) s1 ins.effects s1 s2 ρ ins.end_ false hap hev (fun h => by cases h)
  have hrdy : Ready (finish ins (ins.effects.any isJump) s2) := by
    refine ⟨inv_finish hi2, ip_finish (hap.reg_known ipKey ?_)⟩
    rw [hf.rext ipKey _ hip]; simp
  refine ⟨s1, _, rep, log, h1, hrdy, hf, ha1, hpres, hi1, hrec, ?_, ?_⟩
  · cases hj : ins.effects.any isJump with
    | true =>
      obtain ⟨g1, _⟩ := hjmp.1 (by simp [hj])
      have hfin : finish ins true s2 = s2 := by simp [finish]
      rw [hfin]
      refine ha2.congr (fun k => ?_) (fun _ _ => rfl)
      show (if k = ipKey then nextIp ρ ins.effects ins.end_ else _) = _
      by_cases hk : k = ipKey
      · subst hk
        rw [if_pos rfl, nextIp_eq]
        exact g1.symm
      · rw [if_neg hk]
    | false =>
      obtain ⟨g1, g2, _⟩ := hjmp.2 (by simp [hj])
      have hnext : nextIp ρ ins.effects ins.end_ = ins.end_ := by rw [nextIp_eq]; exact g1
      rw [hnext]
      have hle : leToNat (natToLE 8 ins.end_) = ins.end_ := by
        rw [Lemmas.Bytes.leToNat_natToLE]
        exact Nat.mod_eq_of_lt (end_lt ins)
      have := agree_regStore ha2 (natToLE 8 ins.end_) ipKey 8 ins.end_ hle
      have hfin : finish ins false s2 = { s2 with regs := s2.regs.store ipKey (.const (natToLE 8 ins.end_)) 8 } := by
        simp [finish, addrConst, addrWidth]
      rw [hfin]
      refine this.congr (fun k => ?_) (fun _ _ => rfl)
      show (if k = ipKey then ins.end_ else _) = (if k = ipKey then trunc 8 ins.end_ else _)
      by_cases hk : k = ipKey
      · rw [if_pos hk, if_pos hk]
        exact (trunc_of_lt (end_lt ins)).symm
      · rw [if_neg hk, if_neg hk]
  · cases hj : ins.effects.any isJump with
    | true =>
      obtain ⟨_, c', g2, g3⟩ := hjmp.1 (by simp [hj])
      have hfin : finish ins true s2 = s2 := by simp [finish]
      rw [hfin, nextIp_eq]
      exact ⟨c', g2, g3⟩
    | false =>
      obtain ⟨g1, _, _⟩ := hjmp.2 (by simp [hj])
      have hnext : nextIp ρ ins.effects ins.end_ = ins.end_ := by rw [nextIp_eq]; exact g1
      rw [hnext]
      refine ⟨cw (natToLE 8 ins.end_) 8, ?_, ?_⟩
      · show assocGet ipKey (finish ins false s2).regs = _
        simp only [finish, addrConst, addrWidth]
        show assocGet ipKey (RegMap.store _ _ _ _) = _
        unfold RegMap.store
        rw [assocGet_set_same, setWidth_const]
      · rw [cw_value, Lemmas.Bytes.leToNat_natToLE, trunc_of_lt]
        · exact Nat.mod_eq_of_lt (end_lt ins)
        · exact Nat.lt_of_le_of_lt (Nat.mod_le _ _) (end_lt ins)

end Mltwist.Lemmas.Emulator
