import Mltwist.Spec.Deps
/-
Execution side of C05 (`Spec/Deps.lean`): the frame property of expression evaluation and of an
effect list, commutation of two non-conflicting instructions, and invariance of `runFrom` under
swapping two adjacent non-conflicting instructions of a contiguously laid out block.
-/
namespace Mltwist.Lemmas.Deps
open Mltwist Mltwist.Spec.Lift Mltwist.Deps.Spec

/-- lay the instructions out contiguously from address `a` (no wrap-around: see `bytes`) -/
def layout : Nat → List SIns → List SIns
  | _, [] => []
  | a, i :: rest => { i with addr := a } :: layout (a + i.len) rest

/-- total length -/
def bytes (l : List SIns) : Nat := (l.map (·.len)).sum

/-- (b) frame of evaluation: an expression only looks at the registers and memories it names -/
theorem eval_congr (e : Expr) (ρ ρ' : Env)
    (hr : ∀ k ∈ regReads e, ρ.reg k = ρ'.reg k) (hm : ∀ k ∈ memReads e, ρ.mem k = ρ'.mem k) :
    e.eval ρ = e.eval ρ' := by
  induction e with
  | const bs => rfl
  | binary op a b w iha ihb =>
    simp only [regReads, memReads, List.mem_append] at hr hm
    simp only [Expr.eval]
    rw [iha (fun k hk => hr k (Or.inl hk)) (fun k hk => hm k (Or.inl hk)),
      ihb (fun k hk => hr k (Or.inr hk)) (fun k hk => hm k (Or.inr hk))]
  | less a b t f w iha ihb iht ihf =>
    simp only [regReads, memReads, List.mem_append] at hr hm
    simp only [Expr.eval]
    rw [iha (fun k hk => hr k (Or.inl (Or.inl (Or.inl hk))))
        (fun k hk => hm k (Or.inl (Or.inl (Or.inl hk)))),
      ihb (fun k hk => hr k (Or.inl (Or.inl (Or.inr hk))))
        (fun k hk => hm k (Or.inl (Or.inl (Or.inr hk)))),
      iht (fun k hk => hr k (Or.inl (Or.inr hk))) (fun k hk => hm k (Or.inl (Or.inr hk))),
      ihf (fun k hk => hr k (Or.inr hk)) (fun k hk => hm k (Or.inr hk))]
  | memLoad k a w iha =>
    simp only [regReads, memReads, List.mem_cons] at hr hm
    simp only [Expr.eval]
    rw [iha hr (fun k hk => hm k (Or.inr hk)), hm k (Or.inl rfl)]
  | regLoad k w =>
    simp only [Expr.eval]
    rw [hr k (by simp [regReads])]

/-! ### frame of a fold of effects -/

/-- the fold behind `Env.applyEffects`, any start valuation: unwritten registers stay -/
theorem foldl_reg_of_not_mem (pre : Env) (efs : List Effect) (k : String) (cur : Env)
    (h : k ∉ efs.flatMap effRegWrites) :
    (efs.foldl (applyEffect pre) cur).reg k = cur.reg k := by
  induction efs generalizing cur with
  | nil => rfl
  | cons ef rest ih =>
    simp only [List.flatMap_cons, List.mem_append, not_or] at h
    rw [List.foldl_cons, ih _ h.2]
    cases ef with
    | regStore v k' w =>
      simp only [effRegWrites, List.mem_singleton] at h
      simp [applyEffect, h.1]
    | memStore v k' a w => rfl

/-- the fold behind `Env.applyEffects`, any start valuation: unwritten memories stay -/
theorem foldl_mem_of_not_mem (pre : Env) (efs : List Effect) (k : String) (cur : Env)
    (h : k ∉ efs.flatMap effMemWrites) :
    (efs.foldl (applyEffect pre) cur).mem k = cur.mem k := by
  induction efs generalizing cur with
  | nil => rfl
  | cons ef rest ih =>
    simp only [List.flatMap_cons, List.mem_append, not_or] at h
    rw [List.foldl_cons, ih _ h.2]
    cases ef with
    | regStore v k' w => rfl
    | memStore v k' a w =>
      simp only [effMemWrites, List.mem_singleton] at h
      simp [applyEffect, h.1]

/-- (b) frame of an effect list: registers that are not written keep their value -/
theorem applyEffects_reg_of_not_mem (ρ : Env) (efs : List Effect) (k : String)
    (h : k ∉ efs.flatMap effRegWrites) : (Env.applyEffects ρ efs).reg k = ρ.reg k :=
  foldl_reg_of_not_mem ρ efs k ρ h

/-- (b) frame of an effect list: memories that are not written keep their contents -/
theorem applyEffects_mem_of_not_mem (ρ : Env) (efs : List Effect) (k : String)
    (h : k ∉ efs.flatMap effMemWrites) : (Env.applyEffects ρ efs).mem k = ρ.mem k :=
  foldl_mem_of_not_mem ρ efs k ρ h

/-! ### commutation -/

/-- one effect only looks at the part of the pre-state it reads -/
theorem applyEffect_pre_congr (ρ ρ' cur : Env) (ef : Effect)
    (hr : ∀ k ∈ effRegReads ef, ρ.reg k = ρ'.reg k)
    (hm : ∀ k ∈ effMemReads ef, ρ.mem k = ρ'.mem k) :
    applyEffect ρ cur ef = applyEffect ρ' cur ef := by
  cases ef with
  | regStore v k w =>
    simp only [effRegReads, effMemReads] at hr hm
    simp only [applyEffect]
    rw [eval_congr v ρ ρ' hr hm]
  | memStore v k a w =>
    simp only [effRegReads, effMemReads, List.mem_append] at hr hm
    simp only [applyEffect]
    rw [eval_congr v ρ ρ' (fun k hk => hr k (Or.inr hk)) (fun k hk => hm k (Or.inr hk)),
      eval_congr a ρ ρ' (fun k hk => hr k (Or.inl hk)) (fun k hk => hm k (Or.inl hk))]

/-- a fold of effects only looks at the part of the pre-state the effects read -/
theorem foldl_pre_congr (ρ ρ' : Env) (efs : List Effect) (cur : Env)
    (hr : ∀ k ∈ efs.flatMap effRegReads, ρ.reg k = ρ'.reg k)
    (hm : ∀ k ∈ efs.flatMap effMemReads, ρ.mem k = ρ'.mem k) :
    efs.foldl (applyEffect ρ) cur = efs.foldl (applyEffect ρ') cur := by
  induction efs generalizing cur with
  | nil => rfl
  | cons ef rest ih =>
    simp only [List.flatMap_cons, List.mem_append] at hr hm
    rw [List.foldl_cons, List.foldl_cons,
      applyEffect_pre_congr ρ ρ' cur ef (fun k hk => hr k (Or.inl hk)) (fun k hk => hm k (Or.inl hk)),
      ih _ (fun k hk => hr k (Or.inr hk)) (fun k hk => hm k (Or.inr hk))]

/-- two effects (same pre-state) that write different registers and different memories commute -/
theorem applyEffect_comm (pre cur : Env) (e1 e2 : Effect)
    (hr : ∀ k ∈ effRegWrites e1, k ∉ effRegWrites e2)
    (hm : ∀ k ∈ effMemWrites e1, k ∉ effMemWrites e2) :
    applyEffect pre (applyEffect pre cur e1) e2 = applyEffect pre (applyEffect pre cur e2) e1 := by
  cases e1 with
  | regStore v1 k1 w1 =>
    cases e2 with
    | regStore v2 k2 w2 =>
      have hne : k1 ≠ k2 := by
        have := hr k1 (by simp [effRegWrites])
        simpa [effRegWrites] using this
      simp only [applyEffect, Env.mk.injEq, and_true]
      funext k'
      by_cases h2 : k' = k2
      · subst h2
        have : ¬ k' = k1 := fun h => hne h.symm
        simp [this]
      · simp [h2]
    | memStore v2 k2 a2 w2 => rfl
  | memStore v1 k1 a1 w1 =>
    cases e2 with
    | regStore v2 k2 w2 => rfl
    | memStore v2 k2 a2 w2 =>
      have hne : k1 ≠ k2 := by
        have := hm k1 (by simp [effMemWrites])
        simpa [effMemWrites] using this
      simp only [applyEffect, Env.mk.injEq, true_and]
      funext k'
      by_cases h2 : k' = k2
      · subst h2
        have : ¬ k' = k1 := fun h => hne h.symm
        simp [this]
      · have hne' : ¬ k2 = k1 := fun h => hne h.symm
        by_cases h1 : k' = k1
        · subst h1; simp [h2]
        · simp [h2, h1]

/-- a single effect moves over a fold of effects it commutes with -/
theorem foldl_comm_one (pre : Env) (B : List Effect) (a : Effect) (cur : Env)
    (hr : ∀ k ∈ effRegWrites a, k ∉ B.flatMap effRegWrites)
    (hm : ∀ k ∈ effMemWrites a, k ∉ B.flatMap effMemWrites) :
    B.foldl (applyEffect pre) (applyEffect pre cur a) =
      applyEffect pre (B.foldl (applyEffect pre) cur) a := by
  induction B generalizing cur with
  | nil => rfl
  | cons b B' ih =>
    simp only [List.flatMap_cons, List.mem_append, not_or] at hr hm
    rw [List.foldl_cons, List.foldl_cons,
      applyEffect_comm pre cur a b (fun k hk => (hr k hk).1) (fun k hk => (hm k hk).1),
      ih _ (fun k hk => (hr k hk).2) (fun k hk => (hm k hk).2)]

/-- for a fixed pre-state two effect lists with disjoint write sets commute -/
theorem foldl_comm (pre : Env) (A B : List Effect) (cur : Env)
    (hr : ∀ k ∈ A.flatMap effRegWrites, k ∉ B.flatMap effRegWrites)
    (hm : ∀ k ∈ A.flatMap effMemWrites, k ∉ B.flatMap effMemWrites) :
    B.foldl (applyEffect pre) (A.foldl (applyEffect pre) cur) =
      A.foldl (applyEffect pre) (B.foldl (applyEffect pre) cur) := by
  induction A generalizing cur with
  | nil => rfl
  | cons a A' ih =>
    simp only [List.flatMap_cons, List.mem_append] at hr hm
    rw [List.foldl_cons, List.foldl_cons,
      ih _ (fun k hk => hr k (Or.inr hk)) (fun k hk => hm k (Or.inr hk)),
      foldl_comm_one pre B a cur (fun k hk => hr k (Or.inl hk)) (fun k hk => hm k (Or.inl hk))]

/-- effects that read nothing written by `A` do the same after `A` -/
theorem applyEffects_after (ρ : Env) (A B : List Effect)
    (hr : ∀ k ∈ A.flatMap effRegWrites, k ∉ B.flatMap effRegReads)
    (hm : ∀ k ∈ A.flatMap effMemWrites, k ∉ B.flatMap effMemReads) :
    Env.applyEffects (Env.applyEffects ρ A) B =
      B.foldl (applyEffect ρ) (A.foldl (applyEffect ρ) ρ) := by
  unfold Env.applyEffects
  apply foldl_pre_congr
  · intro k hk
    exact foldl_reg_of_not_mem ρ A k ρ (fun h => hr k h hk)
  · intro k hk
    exact foldl_mem_of_not_mem ρ A k ρ (fun h => hm k h hk)

/-- (c) two non-conflicting instructions commute on valuations -/
theorem applyEffects_comm (x y : SIns) (h : ¬ Conflict x y) (ρ : Env) :
    Env.applyEffects (Env.applyEffects ρ x.effects) y.effects =
      Env.applyEffects (Env.applyEffects ρ y.effects) x.effects := by
  simp only [Conflict, not_or, Meets, not_exists, not_and] at h
  obtain ⟨h1, h2, h3, h4, h5, h6, -⟩ := h
  rw [applyEffects_after ρ x.effects y.effects h1 h4,
    applyEffects_after ρ y.effects x.effects (fun k hk hk' => h3 k hk' hk)
      (fun k hk hk' => h6 k hk' hk)]
  exact foldl_comm ρ x.effects y.effects ρ h2 h5

/-! ### the instruction pointer -/

theorem nextIp_foldl_of_not_mem (ρ : Env) (efs : List Effect) (fall : Nat)
    (h : ipKey ∉ efs.flatMap effRegWrites) : nextIp ρ efs fall = fall := by
  unfold nextIp
  induction efs generalizing fall with
  | nil => rfl
  | cons ef rest ih =>
    simp only [List.flatMap_cons, List.mem_append, not_or] at h
    rw [List.foldl_cons]
    cases ef with
    | regStore v k w =>
      have hk : ¬ k = ipKey := by
        have := h.1
        simp only [effRegWrites, List.mem_singleton] at this
        exact fun e => this e.symm
      simp only [hk, if_false]
      exact ih fall h.2
    | memStore v k a w => exact ih fall h.2

/-- an instruction that does not write the instruction pointer falls through -/
theorem nextIp_of_not_writesIp (x : SIns) (h : x.writesIp = false) (ρ : Env) (fall : Nat) :
    nextIp ρ x.effects fall = fall := by
  apply nextIp_foldl_of_not_mem
  simpa [SIns.writesIp, SIns.regOut] using h

/-! ### running a contiguous layout -/

theorem bytes_nil : bytes [] = 0 := rfl

theorem bytes_cons (i : SIns) (l : List SIns) : bytes (i :: l) = i.len + bytes l := by
  simp [bytes]

theorem bytes_append (A B : List SIns) : bytes (A ++ B) = bytes A + bytes B := by
  simp [bytes]

/-- a common prefix `P` can be ignored when the two continuations behave alike from every
valuation and every instruction pointer (no hypothesis on wrap-around is needed) -/
theorem runFrom_layout_prefix (P L₁ L₂ : List SIns) (a : Nat)
    (hL : ∀ ρ' ip', runFrom (layout (a + bytes P) L₁) ρ' ip' =
      runFrom (layout (a + bytes P) L₂) ρ' ip')
    (ρ : Env) (ip : Nat) :
    runFrom (layout a (P ++ L₁)) ρ ip = runFrom (layout a (P ++ L₂)) ρ ip := by
  induction P generalizing a ρ ip with
  | nil => simpa [bytes] using hL ρ ip
  | cons p P' ih =>
    simp only [List.cons_append, layout, runFrom]
    split
    · apply ih
      intro ρ' ip'
      have := hL ρ' ip'
      rw [bytes_cons, ← Nat.add_assoc] at this
      exact this
    · rfl

/-- the two-instruction core of `runFrom_swap`, from any instruction pointer -/
theorem runFrom_swap_core (S : List SIns) (x y : SIns) (h : ¬ Conflict x y) (b : Nat)
    (hx : 0 < x.len) (hy : 0 < y.len) (htop : b + x.len + y.len ≤ 2 ^ 64) (ρ : Env) (ip : Nat) :
    runFrom (layout b (y :: x :: S)) ρ ip = runFrom (layout b (x :: y :: S)) ρ ip := by
  have hxip : x.writesIp = false := by
    cases hw : x.writesIp with
    | false => rfl
    | true => exact absurd (by simp [Conflict, hw]) h
  have hyip : y.writesIp = false := by
    cases hw : y.writesIp with
    | false => rfl
    | true => exact absurd (by simp [Conflict, hw]) h
  simp only [layout, runFrom, step]
  by_cases hip : ip = b
  · subst hip
    have h1 : (ip + x.len) % 2 ^ 64 = ip + x.len := Nat.mod_eq_of_lt (by omega)
    have h2 : (ip + y.len) % 2 ^ 64 = ip + y.len := Nat.mod_eq_of_lt (by omega)
    simp only [nextIp_of_not_writesIp x hxip, nextIp_of_not_writesIp y hyip, h1, h2, if_true]
    rw [applyEffects_comm x y h ρ, Nat.add_right_comm ip y.len x.len]
  · simp only [hip, if_false]

/-- (c)/(d) swapping two adjacent non-conflicting instructions of a contiguous layout does not
change the behaviour.  The hypothesis `hpos` (positive lengths; only those of `x` and `y` are
used) is necessary: see `runFrom_swap'`. -/
theorem runFrom_swap' (P S : List SIns) (x y : SIns) (h : ¬ Conflict x y) (a : Nat)
    (htop : a + bytes (P ++ x :: y :: S) ≤ 2 ^ 64) (ρ : Env)
    (hx : 0 < x.len) (hy : 0 < y.len) :
    runFrom (layout a (P ++ y :: x :: S)) ρ a = runFrom (layout a (P ++ x :: y :: S)) ρ a := by
  apply runFrom_layout_prefix
  intro ρ' ip'
  apply runFrom_swap_core S x y h _ hx hy
  rw [bytes_append, bytes_cons, bytes_cons] at htop
  omega

theorem runFrom_swap (P S : List SIns) (x y : SIns) (h : ¬ Conflict x y) (a : Nat)
    (htop : a + bytes (P ++ x :: y :: S) ≤ 2 ^ 64) (ρ : Env)
    (hpos : ∀ i ∈ P ++ x :: y :: S, 0 < i.len) :
    runFrom (layout a (P ++ y :: x :: S)) ρ a = runFrom (layout a (P ++ x :: y :: S)) ρ a :=
  runFrom_swap' P S x y h a htop ρ (hpos x (by simp)) (hpos y (by simp))

/-- (d) moving an instruction forward over instructions it does not conflict with -/
theorem runFrom_move_fwd (P Q S : List SIns) (m : SIns) (h : ∀ z ∈ Q, ¬ Conflict m z) (a : Nat)
    (htop : a + bytes (P ++ m :: Q ++ S) ≤ 2 ^ 64) (ρ : Env)
    (hpos : ∀ i ∈ P ++ m :: Q ++ S, 0 < i.len) :
    runFrom (layout a (P ++ Q ++ m :: S)) ρ a = runFrom (layout a (P ++ m :: Q ++ S)) ρ a := by
  induction Q generalizing P with
  | nil => simp
  | cons z Q' ih =>
    have hsw := runFrom_swap P (Q' ++ S) m z (h z (by simp)) a
      (by simpa [bytes_append, bytes_cons, Nat.add_assoc] using htop) ρ
      (by intro i hi; apply hpos i; simpa using hi)
    have hih := ih (P ++ [z]) (fun w hw => h w (by simp [hw]))
      (by
        simp only [bytes_append, bytes_cons, bytes_nil] at htop ⊢
        omega)
      (by
        intro i hi; apply hpos i
        simp only [List.mem_append, List.mem_cons, List.not_mem_nil, or_false] at hi ⊢
        rcases hi with ((hi | hi) | hi | hi) | hi <;> simp [hi])
    have e1 : P ++ z :: Q' ++ m :: S = P ++ [z] ++ Q' ++ m :: S := by simp
    have e2 : P ++ [z] ++ m :: Q' ++ S = P ++ z :: m :: (Q' ++ S) := by simp
    have e3 : P ++ m :: z :: Q' ++ S = P ++ m :: z :: (Q' ++ S) := by simp
    rw [e1, hih, e2, hsw, e3]

/-- (d) moving an instruction backward over instructions that do not conflict with it -/
theorem runFrom_move_back (P Q S : List SIns) (m : SIns) (h : ∀ z ∈ Q, ¬ Conflict z m) (a : Nat)
    (htop : a + bytes (P ++ Q ++ m :: S) ≤ 2 ^ 64) (ρ : Env)
    (hpos : ∀ i ∈ P ++ Q ++ m :: S, 0 < i.len) :
    runFrom (layout a (P ++ m :: Q ++ S)) ρ a = runFrom (layout a (P ++ Q ++ m :: S)) ρ a := by
  induction Q generalizing P with
  | nil => simp
  | cons z Q' ih =>
    have hsw := runFrom_swap P (Q' ++ S) z m (h z (by simp)) a
      (by
        simp only [bytes_append, bytes_cons] at htop ⊢
        omega) ρ
      (by
        intro i hi; apply hpos i
        simp only [List.mem_append, List.mem_cons] at hi ⊢
        rcases hi with hi | hi | hi | hi | hi <;> simp [hi])
    have hih := ih (P ++ [z]) (fun w hw => h w (by simp [hw]))
      (by
        simp only [bytes_append, bytes_cons, bytes_nil] at htop ⊢
        omega)
      (by intro i hi; apply hpos i; simpa using hi)
    have e1 : P ++ m :: z :: Q' ++ S = P ++ m :: z :: (Q' ++ S) := by simp
    have e2 : P ++ z :: m :: (Q' ++ S) = P ++ [z] ++ m :: Q' ++ S := by simp
    have e3 : P ++ [z] ++ Q' ++ m :: S = P ++ z :: Q' ++ m :: S := by simp
    rw [e1, hsw, e2, hih, e3]

end Mltwist.Lemmas.Deps
