import Mltwist.Lemmas.MemViewRender
import Mltwist.Lemmas.SparseHistory
/-
C32, part 3: a sparse memory (C14) in its invariant whose stored expressions are closed and
well-formed (constants: what the emulator stores) is coherent with its byte map.
-/
namespace Mltwist.Lemmas.MemView
open Mltwist Mltwist.MemView Mltwist.Sparse Mltwist.Spec.Sparse Mltwist.Lemmas.Sparse
open Mltwist.Lemmas.Transform

/-- closed and well-formed -/
def CW (e : Expr) : Prop := e.closed = true ∧ e.wf = true

theorem wf_width {e : Expr} (h : e.wf = true) : 1 ≤ e.width ∧ e.width ≤ 255 := by
  cases e <;> simp only [Expr.wf, Bool.and_eq_true, decide_eq_true_eq] at h <;>
    simp only [Expr.width] <;> omega

theorem cw_const {bs : List UInt8} (h1 : 1 ≤ bs.length) (h2 : bs.length ≤ 255) : CW (.const bs) := by
  simp [CW, Expr.closed, Expr.wf, h1, h2]

theorem cw_binary {op : BinOp} {a b : Expr} {w : Nat} (ha : CW a) (hb : CW b) (h1 : 1 ≤ w)
    (h2 : w ≤ 255) : CW (.binary op a b w) := by
  simp [CW, Expr.closed, Expr.wf, ha.1, ha.2, hb.1, hb.2, h1, h2]

theorem cw_zero : CW Expr.zero := cw_const (by simp) (by simp)

theorem cw_constUint (v w : Nat) (h1 : 1 ≤ w) (h2 : w ≤ 255) : CW (Tools.constUint v w) := by
  unfold Tools.constUint
  exact cw_const (by rw [Const.natToLE_length]; exact h1) (by rw [Const.natToLE_length]; exact h2)

theorem cw_setWidth {e : Expr} (h : CW e) {w : Nat} (h1 : 1 ≤ w) (h2 : w ≤ 255) :
    CW (setWidth e w) := by
  unfold setWidth
  by_cases hw : e.width = w
  · simp only [hw, if_true]; exact h
  · simp only [hw, if_false]
    cases e with
    | const bs =>
      apply cw_const <;> simp only [Bytes.setWidth_length] <;> assumption
    | regLoad k we => simp [CW, Expr.closed] at h
    | binary op a b x => exact cw_binary h cw_zero h1 h2
    | less a b t f x => exact cw_binary h cw_zero h1 h2
    | memLoad k a x => exact cw_binary h cw_zero h1 h2

theorem cw_bitNot {e : Expr} (h : CW e) {w : Nat} (h1 : 1 ≤ w) (h2 : w ≤ 255) :
    CW (Tools.bitNot e w) := by
  unfold Tools.bitNot Tools.ones
  exact cw_binary h (cw_binary cw_zero cw_zero h1 h2) h1 h2

theorem cw_bitOr {a b : Expr} (ha : CW a) (hb : CW b) {w : Nat} (h1 : 1 ≤ w) (h2 : w ≤ 255) :
    CW (Tools.bitOr a b w) := by
  unfold Tools.bitOr
  exact cw_binary (cw_bitNot ha h1 h2) (cw_bitNot hb h1 h2) h1 h2

/-- `expr()` of a cut of a closed well-formed expression -/
theorem expr_cw (c : CutExpr) (hex : CW c.ex) (h1 : c.begin < c.end_) (h2 : c.end_ ≤ 255) (e : Expr)
    (he : c.expr = .ok e) : CW e := by
  unfold CutExpr.expr at he
  rw [if_neg (by omega)] at he
  have hlen1 : 1 ≤ c.end_ - c.begin := by omega
  have hlen2 : c.end_ - c.begin ≤ 255 := by omega
  by_cases hz : c.begin ≥ c.ex.width
  · rw [if_pos hz] at he
    cases he
    exact cw_constUint _ _ hlen1 hlen2
  · rw [if_neg hz] at he
    cases he
    apply cw_setWidth _ hlen1 hlen2
    by_cases hb : c.begin > 0
    · rw [if_pos hb]
      obtain ⟨w1, w2⟩ := wf_width hex.2
      exact cw_binary hex (cw_constUint _ _ (by omega) (by omega)) w1 w2
    · rw [if_neg hb]; exact hex

theorem cut_cw {a e : Nat} (he : e < 2 ^ 64) (hae : a < e) (o : KV) (hg : o.Good) (hex : CW o.val.ex)
    (h1 : o.low < e) (h2 : a < o.high) (c : Expr) (hc : cut a e o = .ok c) : CW c := by
  rw [cut_eq_clip a e he o hg h1 h2 hae] at hc
  have hg' := hg
  unfold KV.Good at hg'
  exact expr_cw (clip a e o) hex (by simp only [clip]; omega) (by simp only [clip]; omega) c hc

theorem loadLoop_cw (a e w : Nat) (h1 : 1 ≤ w) (h2 : w ≤ 255) : ∀ (os : List KV) (acc r : Expr),
    loadLoop a e w os acc = .ok r → CW acc → (∀ o ∈ os, ∀ c, cut a e o = .ok c → CW c) → CW r
  | [], acc, r, h, hacc, _ => by
    simp only [loadLoop] at h
    cases h; exact hacc
  | o :: os, acc, r, h, hacc, hos => by
    unfold loadLoop at h
    cases hc : cut a e o with
    | error p => rw [hc] at h; cases h
    | ok c =>
      rw [hc] at h
      simp only [bind, Except.bind] at h
      have hcw := hos o (List.mem_cons_self ..) c hc
      exact loadLoop_cw a e w h1 h2 os _ r h
        (cw_bitOr hacc (cw_binary hcw (cw_constUint _ _ (by omega) (by omega)) h1 h2) h1 h2)
        (fun o' ho' => hos o' (List.mem_cons_of_mem _ ho'))

/-- `Load` of a memory of closed well-formed expressions returns one -/
theorem load_cw (t : Tree) (hinv : Inv t) (hex : ∀ kv ∈ t, CW kv.val.ex) (a w : Nat)
    (hd : InDom a w) (e : Expr) (he : load t a w = .ok (some e)) : CW e := by
  obtain ⟨hw1, hw2, hlt⟩ := hd
  unfold load at he
  rw [endAddr_eq hlt] at he
  dsimp only at he
  rw [overlaps_eq t (by omega)] at he
  simp only [bind, Except.bind] at he
  have hcut : ∀ o ∈ ovl t a (a + w), ∀ c, cut a (a + w) o = .ok c → CW c := by
    intro o ho c hc
    obtain ⟨hot, hl, hh⟩ := mem_ovl.1 ho
    exact cut_cw hlt (by omega) o (hinv.2 o hot) (hex o hot) hl hh c hc
  by_cases hwi : wholeInterval a (a + w) (ovl t a (a + w)) = true
  · rw [hwi] at he
    simp only [Bool.not_true, Bool.false_eq_true, if_false] at he
    cases hints : ovl t a (a + w) with
    | nil => rw [hints] at he; simp only [pure, Except.pure] at he; cases he
    | cons i0 rest =>
      rw [hints] at he hcut
      simp only at he
      cases hc0 : cut a (a + w) i0 with
      | error p => rw [hc0] at he; cases he
      | ok c0 =>
        rw [hc0] at he
        simp only at he
        cases hl : loadLoop a (a + w) w rest c0 with
        | error p => rw [hl] at he; cases he
        | ok r =>
          rw [hl] at he
          simp only [pure, Except.pure, Except.ok.injEq, Option.some.injEq] at he
          subst he
          exact loadLoop_cw a (a + w) w hw1 hw2 rest c0 r hl
            (hcut i0 (List.mem_cons_self ..) c0 hc0)
            (fun o ho => hcut o (List.mem_cons_of_mem _ ho))
  · have hwi' : wholeInterval a (a + w) (ovl t a (a + w)) = false := by
      cases h : wholeInterval a (a + w) (ovl t a (a + w)) with
      | true => exact absurd h hwi
      | false => rfl
    rw [hwi'] at he
    simp only [Bool.not_false, if_true, pure, Except.pure] at he
    cases he

/-- the valuation used to read off the (constant) bytes -/
def ρ0 : Env := ⟨fun _ => 0, fun _ _ => 0⟩

/-- the byte map of a sparse memory of closed expressions -/
def sparseBytes (t : Tree) : Nat → Option UInt8 := fun a =>
  match Sparse.abs t a with
  | none => none
  | some c => some (UInt8.ofNat (byteVal ρ0 c))

theorem normal_pos : ∀ (m : List Interval.Intv), Interval.Normal m → ∀ j ∈ m, j.1 < j.2 := by
  intro m
  induction m with
  | nil => intro _ j hj; cases hj
  | cons x r ih =>
    intro hN j hj
    cases r with
    | nil =>
      rcases List.mem_cons.mp hj with rfl | hj
      · exact hN
      · cases hj
    | cons y r =>
      rcases List.mem_cons.mp hj with rfl | hj
      · exact hN.1
      · exact ih hN.2.2 j hj

/-- a sparse memory in its invariant that stores closed well-formed expressions (constants) is
coherent with its byte map -/
theorem ofSparse_coh (t : Tree) (hinv : Inv t) (hex : ∀ kv ∈ t, CW kv.val.ex) :
    ∃ bl, NormalR bl ∧ Bounded bl ∧ Coh (ofSparse t) bl (sparseBytes t) ∧
      ∀ a, MemR a bl ↔ Sparse.abs t a ≠ none := by
  obtain ⟨m, hm, hn, hmem⟩ := blocks_ok t hinv
  have h0 : ∀ i ∈ m, 0 ≤ i.1 := by
    intro i hi
    exact ((hmem i.1).mp ⟨i, hi, Int.le_refl _, normal_pos m hn i hi⟩).1
  have hmemR : ∀ a, MemR a (m.map toRange) ↔ Sparse.abs t a ≠ none := by
    intro a
    rw [memR_map_toRange h0, hmem]
    simp
  -- a stored address lies in an interval of the tree, whose end is an address
  have hstoredlt : ∀ a, Sparse.abs t a ≠ none → a + 1 < 2 ^ 64 := by
    intro a ha
    unfold Sparse.abs at ha
    cases hf : t.find? (fun kv => decide (kv.low ≤ a) && decide (a < kv.high)) with
    | none => simp [hf] at ha
    | some kv =>
      have hkv := List.mem_of_find?_eq_some hf
      have hp := List.find?_some hf
      simp only [Bool.and_eq_true, decide_eq_true_eq] at hp
      have hg := hinv.2 kv hkv
      unfold KV.Good at hg
      omega
  refine ⟨m.map toRange, normalR_of_normal m hn h0, ?_, ⟨?_, ?_, ?_⟩, hmemR⟩
  · -- Bounded
    intro b hb
    obtain ⟨i, hi, rfl⟩ := List.mem_map.mp hb
    have hpos := normal_pos m hn i hi
    have hi0 := h0 i hi
    have hlast : Interval.Mem (i.2 - 1) m := ⟨i, hi, by omega, by omega⟩
    have := ((hmem (i.2 - 1)).mp hlast).2
    have hlt := hstoredlt _ this
    simp only [toRange]
    omega
  · simp only [ofSparse, hm]
  · intro a ha
    have hpres := (hmemR a).mp ha
    have hd : InDom a 1 := ⟨Nat.le_refl _, by omega, hstoredlt a hpres⟩
    obtain ⟨r, hr, hiff, hval⟩ := load_ok t hinv a 1 hd
    have hsome : r ≠ none := hiff.mpr (by
      intro i hi
      have : i = 0 := by omega
      subst this; simpa using hpres)
    cases r with
    | none => exact absurd rfl hsome
    | some e =>
      obtain ⟨hw, hev⟩ := hval e rfl
      have hcw := load_cw t hinv hex a 1 hd e hr
      obtain ⟨bs, hbs⟩ := isConst_iff.mp (constFold_closed e hcw.1)
      have hlen : bs.length = 1 := by
        have := constFold_width e
        rw [hbs, hw] at this
        exact this
      have hevc := constFold_eval ρ0 e hcw.2
      rw [hbs, hev ρ0] at hevc
      match bs, hlen with
      | [b], _ =>
        refine ⟨b, [], ?_, ?_⟩
        · simp only [ofSparse, hr, hbs]
        · unfold sparseBytes
          cases hc : Sparse.abs t a with
          | none => exact absurd hc hpres
          | some c =>
            simp only [Expr.eval, leToNat, Nat.mul_zero, Nat.add_zero, loadVal, sumBytes, hc, byteAt,
              Nat.pow_zero, Nat.mul_one, Nat.zero_add] at hevc
            simp only [← hevc, UInt8.ofNat_toNat]
  · intro a ha
    unfold sparseBytes
    cases hc : Sparse.abs t a with
    | none => rfl
    | some c => exact absurd ((hmemR a).mpr (by rw [hc]; simp)) ha

end Mltwist.Lemmas.MemView
