import Mltwist.Props.C07
import Mltwist.Lemmas.ListingRun
import Mltwist.Lemmas.ListingRef
import Mltwist.Model.Compose
/-
COMPOSITION, part 4: the disassembler listing (C23/C31, `Model/Listing.lean`) over the REAL dependency model
(C05/C06/C07, `Model/Deps.lean`).

The listing slice sees the code through an abstract state `Listing.Code` (what `Blocks()`, `Instructions()`,
`String()`, `Bytes()`, `Idx()`, `Begin()`, `End()`, `LowerBound`, `UpperBound` return) and two abstract operations
`Listing.CodeOps` on that state, assumed `Listing.Spec.Lawful`.  Here:

* `listingOf info c`     the `Listing.Code` that the real `Deps.Code` `c` shows (`info`: text and bytes of the
                         instruction with a given ORIGINAL address — `Instruction.String()` and `Bytes()` never
                         change);
* `realMoveIns`, `realMoveBlock`   `code.Index(k).Move(s, d)` and `code.Move(s, d)` on the real model;
* `listingOf_wf`, `realMoveIns_*`, `realMoveBlock_*`   every clause of `Spec.Lawful` holds for the real operations
                         between the views of states satisfying C07's invariant (`CInv`);
* `opsAt info c`         a total `CodeOps` that IS the real operation on the view of `c` (and the reference
                         transcription `refOps` elsewhere, so that it is lawful on all inputs: `opsAt_lawful`).

Why not one fixed `CodeOps` for the real model: `CodeOps` are functions of the VIEW, and the view does not
determine the `Deps.Code` (two instructions of a block with the same text and bytes are indistinguishable in the
view but carry different dependency edges), so "the real move" is not a function of `Listing.Code`.  The
composition therefore threads the real state: at `Deps.Code` `c` the operations are `opsAt info c`, which agree
with the real ones on the only argument the listing ever passes (`st.code = listingOf info c`), and the next real
state is `nextDeps` (`Lemmas/ComposeListingRun.lean`).
-/
namespace Mltwist.Lemmas.Compose
open Mltwist Mltwist.Deps Mltwist.Lemmas.Deps
open Mltwist.Listing.Spec (Lawful WF sameBlock content)

-- `Info`, `boundNat`, `lIns`, `lInsList`, `lBlock`, `curBlocks`, `listingOf`, `realMoveIns`, `realMoveBlock`:
-- `Model/Compose.lean`

/-! ### the current blocks -/

theorem blocks_lt {c : Deps.Code} (hc : CInv c) : ∀ p ∈ c.blocks, p < c.store.length := by
  intro p hp
  have := hc.perm.mem_iff.1 hp
  simpa using this

theorem blocks_nodup {c : Deps.Code} (hc : CInv c) : c.blocks.Nodup :=
  hc.perm.nodup_iff.2 List.nodup_range

theorem curBlocks_eq {c : Deps.Code} (hc : CInv c) :
    curBlocks c = c.blocks.map fun p => c.store.getD p default :=
  filterMap_getElem? c.store c.blocks (blocks_lt hc)

theorem curBlocks_length {c : Deps.Code} (hc : CInv c) : (curBlocks c).length = c.blocks.length := by
  rw [curBlocks_eq hc, List.length_map]

theorem curBlocks_get {c : Deps.Code} (hc : CInv c) (k : Nat) (hk : k < c.blocks.length) :
    (curBlocks c)[k]? = some (c.store[c.blocks[k]]'(hc.ptr_lt k hk)) := by
  have hp := hc.ptr_lt k hk
  rw [curBlocks_eq hc, List.getElem?_map, List.getElem?_eq_getElem hk]
  simp [List.getD_eq_getElem?_getD, List.getElem?_eq_getElem hp]

theorem curBlocks_mem {c : Deps.Code} (b : Deps.Block) (h : b ∈ curBlocks c) : b ∈ c.store := by
  obtain ⟨p, _, hp⟩ := List.mem_filterMap.1 h
  exact List.mem_of_getElem? hp

/-! ### `WF` of the view -/

theorem lInsList_get (info : Info) (b : Deps.Block) (i : Nat) :
    (lInsList info b)[i]? = (b.seq[i]?).map (lIns info b i) := by
  simp [lInsList, List.getElem?_mapIdx]

theorem lInsList_length (info : Info) (b : Deps.Block) : (lInsList info b).length = b.seq.length := by
  simp [lInsList]

/-- the view of a state satisfying C07's invariant is well formed in the sense of the listing (C23):
`Idx()` is the position for blocks and instructions, the bounds are instruction positions -/
theorem listingOf_wf (info : Info) {c : Deps.Code} (hc : CInv c) : WF (listingOf info c) where
  blockIdx := by
    intro i lb h
    simp only [listingOf, List.getElem?_map] at h
    cases hb : (curBlocks c)[i]? with
    | none => rw [hb] at h; cases h
    | some b =>
      rw [hb] at h
      cases h
      have hi : i < c.blocks.length := by
        have := List.getElem?_eq_some_iff.1 hb
        obtain ⟨hlt, _⟩ := this
        rwa [curBlocks_length hc] at hlt
      rw [curBlocks_get hc i hi] at hb
      cases hb
      exact hc.idx i hi (hc.ptr_lt i hi)
  insIdx := by
    intro lb hlb i x h
    simp only [listingOf, List.mem_map] at hlb
    obtain ⟨b, hb, rfl⟩ := hlb
    have hbi := hc.blocks b (curBlocks_mem b hb)
    simp only [lBlock, lInsList_get] at h
    cases hy : b.seq[i]? with
    | none => rw [hy] at h; cases h
    | some y =>
      rw [hy] at h
      cases h
      obtain ⟨hi, rfl⟩ := List.getElem?_eq_some_iff.1 hy
      exact (Props.C07.addresses_contiguous b hbi i hi).2
  bounds := by
    intro lb hlb x hx
    simp only [listingOf, List.mem_map] at hlb
    obtain ⟨b, hb, rfl⟩ := hlb
    have hbi := hc.blocks b (curBlocks_mem b hb)
    obtain ⟨i, hi⟩ := List.getElem?_of_mem hx
    simp only [lBlock, lInsList_get] at hi
    cases hy : b.seq[i]? with
    | none => rw [hy] at hi; cases hi
    | some y =>
      rw [hy] at hi
      cases hi
      obtain ⟨hlt, _⟩ := List.getElem?_eq_some_iff.1 hy
      obtain ⟨lo, hlo, hle, _⟩ := hbi.lowerBound_spec i hlt
      obtain ⟨up, hup, _, hul, _⟩ := hbi.upperBound_spec i hlt
      simp only [lBlock, lIns, lInsList_length, hlo, hup, boundNat, Option.getD_some, Int.toNat_natCast]
      omega

/-! ### an accepted instruction move, seen through the view -/

/-- what an accepted `code.Index(k).Move(s, d)` is -/
theorem realMoveIns_some {c c' : Deps.Code} (hc : CInv c) {k s d : Nat} (h : realMoveIns c k s d = some c') :
    ∃ (hk : k < c.blocks.length) (b' : Deps.Block),
      (c.store[c.blocks[k]]'(hc.ptr_lt k hk)).move s d = .ok b' ∧ c' = c.put b' ∧ CInv c' ∧
      b'.ptr = c.blocks[k] := by
  unfold realMoveIns at h
  cases hi : c.index k with
  | none => rw [hi] at h; cases h
  | some b =>
    rw [hi] at h
    simp only at h
    obtain ⟨k', hk', hk, hb⟩ := index_some hi
    have hkk : k' = k := by omega
    subst hkk
    have hp := hc.ptr_lt k' hk
    rw [List.getElem?_eq_getElem hp] at hb
    cases hb
    cases hm : (c.store[c.blocks[k']]).move s d with
    | error e => rw [hm] at h; cases h
    | ok b' =>
      rw [hm] at h
      cases h
      have hbi : BInv c.store[c.blocks[k']] := hc.blocks _ (List.getElem_mem hp)
      obtain ⟨b'', h'', h1, h2, _, _, h5, h6, _, h8, _⟩ := hbi.move_ok s d (move_ok_check hm)
      rw [hm] at h''
      cases h''
      have hptr : b'.ptr = c.blocks[k'] := by rw [h6]; exact hc.ptr _ hp
      refine ⟨hk, b', hm, rfl, ?_, hptr⟩
      exact hc.put c.blocks[k'] hp b' h1 hptr h2 h8 h5

theorem put_blocks (c : Deps.Code) (b : Deps.Block) : (c.put b).blocks = c.blocks := rfl
theorem put_entry (c : Deps.Code) (b : Deps.Block) : (c.put b).entry = c.entry := rfl

/-- after an accepted instruction move the current blocks are the old ones with block `k` replaced -/
theorem curBlocks_put {c : Deps.Code} (hc : CInv c) (k : Nat) (hk : k < c.blocks.length) (b' : Deps.Block)
    (hptr : b'.ptr = c.blocks[k]) (hc' : CInv (c.put b')) :
    curBlocks (c.put b') = (curBlocks c).set k b' := by
  apply List.ext_getElem?
  intro j
  by_cases hj : j < c.blocks.length
  · rw [curBlocks_get hc' j (by rw [put_blocks]; exact hj)]
    have hp := hc.ptr_lt j hj
    by_cases hjk : j = k
    · subst hjk
      rw [List.getElem?_set_self (by rw [curBlocks_length hc]; exact hj)]
      simp [Code.put, hptr]
    · rw [List.getElem?_set_ne (fun h => hjk h.symm), curBlocks_get hc j hj]
      have hne : c.blocks[k] ≠ c.blocks[j] := by
        intro he
        exact hjk ((List.getElem_inj (blocks_nodup hc)).1 he.symm)
      simp [Code.put, hptr, List.getElem_set_ne hne]
  · have h1 : (curBlocks (c.put b')).length ≤ j := by
      rw [curBlocks_length hc', put_blocks]; omega
    have h2 : ((curBlocks c).set k b').length ≤ j := by
      rw [List.length_set, curBlocks_length hc]; omega
    rw [List.getElem?_eq_none h1, List.getElem?_eq_none h2]

theorem content_lIns (info : Info) (b : Deps.Block) (pos : Nat) (i : Deps.Ins) :
    content (lIns info b pos i) = info i.origAddr := rfl

theorem lInsList_content (info : Info) (b : Deps.Block) :
    (lInsList info b).map content = b.seq.map fun i => info i.origAddr := by
  apply List.ext_getElem?
  intro j
  simp only [List.getElem?_map, lInsList_get]
  cases b.seq[j]? <;> rfl

/-- the clauses of `Spec.Lawful` for an accepted instruction move of the real model -/
theorem realMoveIns_lawful (info : Info) {c c' : Deps.Code} (hc : CInv c) {k s d : Nat}
    (h : realMoveIns c k s d = some c') :
    CInv c' ∧ (listingOf info c').entry = (listingOf info c).entry ∧
    (listingOf info c').blocks.length = (listingOf info c).blocks.length ∧
    (∀ j, j ≠ k → (listingOf info c').blocks[j]? = (listingOf info c).blocks[j]?) ∧
    ∀ lb lb', (listingOf info c).blocks[k]? = some lb → (listingOf info c').blocks[k]? = some lb' →
      lb'.idx = lb.idx ∧ sameBlock lb lb' := by
  obtain ⟨hk, b', hm, rfl, hc', hptr⟩ := realMoveIns_some hc h
  have hcb := curBlocks_put hc k hk b' hptr hc'
  refine ⟨hc', rfl, ?_, ?_, ?_⟩
  · simp only [listingOf, List.length_map, hcb, List.length_set]
  · intro j hj
    simp only [listingOf, List.getElem?_map, hcb, List.getElem?_set_ne (fun h => hj h.symm)]
  · intro lb lb' h1 h2
    have hp := hc.ptr_lt k hk
    simp only [listingOf, List.getElem?_map, curBlocks_get hc k hk, Option.map_some, Option.some.injEq] at h1
    simp only [listingOf, List.getElem?_map, hcb,
      List.getElem?_set_self (by rw [curBlocks_length hc]; exact hk), Option.map_some, Option.some.injEq] at h2
    subst h1 h2
    have hbi : BInv c.store[c.blocks[k]] := hc.blocks _ (List.getElem_mem hp)
    obtain ⟨b'', h'', _, h2, h3, _, h5, _, _, _, hperm⟩ := hbi.move_ok s d (move_ok_check hm)
    rw [hm] at h''
    cases h''
    refine ⟨h5, h2, h3, ?_⟩
    show ((lInsList info b').map content).Perm ((lInsList info c.store[c.blocks[k]]).map content)
    rw [lInsList_content, lInsList_content]
    have := hperm.map (fun (st : Nat × Nat × Nat × Nat × List Effect × List Expr) => info st.2.2.1)
    rw [List.map_map, List.map_map] at this
    exact this

/-! ### an accepted block move, seen through the view -/

/-- what the listing shows of a block apart from its index depends on the frozen part only -/
theorem lBlock_frozen (info : Info) (b b' : Deps.Block) (h : frozen b = frozen b') :
    ((lBlock info b).begin, (lBlock info b).stop, (lBlock info b).ins) =
      ((lBlock info b').begin, (lBlock info b').stop, (lBlock info b').ins) := by
  cases b; cases b'
  simp only [frozen, Prod.mk.injEq] at h
  obtain ⟨rfl, rfl, rfl, rfl, rfl⟩ := h
  rfl

theorem realMoveBlock_lawful (info : Info) {c c' : Deps.Code} (hc : CInv c) {s d : Nat}
    (h : realMoveBlock c s d = some c') :
    CInv c' ∧ (listingOf info c').entry = (listingOf info c).entry ∧
    ((listingOf info c').blocks.map fun b => (b.begin, b.stop, b.ins)).Perm
      ((listingOf info c).blocks.map fun b => (b.begin, b.stop, b.ins)) := by
  unfold realMoveBlock at h
  cases hm : c.move s d with
  | error e => rw [hm] at h; cases h
  | ok c'' =>
    rw [hm] at h
    cases h
    obtain ⟨hc', _, hfr, hent⟩ := hc.move_ok s d hm
    refine ⟨hc', hent, ?_⟩
    have hlen : c'.store.length = c.store.length := by
      have := congrArg List.length hfr
      simpa using this
    have hperm : c'.blocks.Perm c.blocks := by
      have h1 := hc'.perm
      rw [hlen] at h1
      exact h1.trans hc.perm.symm
    have hfro : ∀ p, p < c.store.length →
        frozen (c'.store.getD p default) = frozen (c.store.getD p default) := by
      intro p hp
      have h1 : (c'.store.map frozen)[p]? = (c.store.map frozen)[p]? := by rw [hfr]
      simp only [List.getElem?_map, List.getElem?_eq_getElem hp, List.getElem?_eq_getElem (hlen ▸ hp),
        Option.map_some, Option.some.injEq] at h1
      simp only [List.getD_eq_getElem?_getD, List.getElem?_eq_getElem hp, List.getElem?_eq_getElem (hlen ▸ hp),
        Option.getD_some]
      exact h1
    simp only [listingOf, List.map_map, curBlocks_eq hc, curBlocks_eq hc']
    have e1 : c'.blocks.map ((fun b : Listing.Block => (b.begin, b.stop, b.ins)) ∘ lBlock info ∘
          fun p => c'.store.getD p default) =
        c'.blocks.map ((fun b : Listing.Block => (b.begin, b.stop, b.ins)) ∘ lBlock info ∘
          fun p => c.store.getD p default) := by
      apply List.map_congr_left
      intro p hp
      have hpl : p < c.store.length := by rw [← hlen]; exact blocks_lt hc' p hp
      exact lBlock_frozen info _ _ (hfro p hpl)
    rw [e1]
    exact hperm.map _

/-! ### the operations at a real state -/

-- `opsAt info c` (the code operations at the real state `c`): `Model/Compose.lean`

theorem opsAt_moveIns (info : Info) (c : Deps.Code) (k s d : Nat) :
    (opsAt info c).moveIns (listingOf info c) k s d = (realMoveIns c k s d).map (listingOf info) := by
  simp [opsAt]

theorem opsAt_moveBlock (info : Info) (c : Deps.Code) (s d : Nat) :
    (opsAt info c).moveBlock (listingOf info c) s d = (realMoveBlock c s d).map (listingOf info) := by
  simp [opsAt]

/-- THE REAL OPERATIONS ARE LAWFUL: `Spec.Lawful` (the assumption of C22/C23/C31 on the code model) holds for the
operations at every real state satisfying C07's invariant -/
theorem opsAt_lawful (info : Info) {c : Deps.Code} (hc : CInv c) : Lawful (opsAt info c) := by
  have hr := Lemmas.Listing.refOps_lawful
  refine ⟨?_, ?_, ?_, ?_, ?_, ?_, ?_, ?_⟩
  · intro lc k s d lc' hwf h
    simp only [opsAt] at h
    split at h
    · cases hm : realMoveIns c k s d with
      | none => rw [hm] at h; cases h
      | some c' =>
        rw [hm] at h
        cases h
        exact listingOf_wf info (realMoveIns_lawful info hc hm).1
    · exact hr.moveIns_wf lc k s d lc' hwf h
  · intro lc k s d lc' h
    simp only [opsAt] at h
    split at h
    · next he =>
      cases hm : realMoveIns c k s d with
      | none => rw [hm] at h; cases h
      | some c' =>
        rw [hm] at h
        cases h
        rw [he]
        exact (realMoveIns_lawful info hc hm).2.1
    · exact hr.moveIns_entry lc k s d lc' h
  · intro lc k s d lc' h
    simp only [opsAt] at h
    split at h
    · next he =>
      cases hm : realMoveIns c k s d with
      | none => rw [hm] at h; cases h
      | some c' =>
        rw [hm] at h
        cases h
        rw [he]
        exact (realMoveIns_lawful info hc hm).2.2.1
    · exact hr.moveIns_length lc k s d lc' h
  · intro lc k s d lc' h
    simp only [opsAt] at h
    split at h
    · next he =>
      cases hm : realMoveIns c k s d with
      | none => rw [hm] at h; cases h
      | some c' =>
        rw [hm] at h
        cases h
        rw [he]
        exact (realMoveIns_lawful info hc hm).2.2.2.1
    · exact hr.moveIns_other lc k s d lc' h
  · intro lc k s d lc' h
    simp only [opsAt] at h
    split at h
    · next he =>
      cases hm : realMoveIns c k s d with
      | none => rw [hm] at h; cases h
      | some c' =>
        rw [hm] at h
        cases h
        rw [he]
        exact (realMoveIns_lawful info hc hm).2.2.2.2
    · exact hr.moveIns_block lc k s d lc' h
  · intro lc s d lc' hwf h
    simp only [opsAt] at h
    split at h
    · cases hm : realMoveBlock c s d with
      | none => rw [hm] at h; cases h
      | some c' =>
        rw [hm] at h
        cases h
        exact listingOf_wf info (realMoveBlock_lawful info hc hm).1
    · exact hr.moveBlock_wf lc s d lc' hwf h
  · intro lc s d lc' h
    simp only [opsAt] at h
    split at h
    · next he =>
      cases hm : realMoveBlock c s d with
      | none => rw [hm] at h; cases h
      | some c' =>
        rw [hm] at h
        cases h
        rw [he]
        exact (realMoveBlock_lawful info hc hm).2.1
    · exact hr.moveBlock_entry lc s d lc' h
  · intro lc s d lc' h
    simp only [opsAt] at h
    split at h
    · next he =>
      cases hm : realMoveBlock c s d with
      | none => rw [hm] at h; cases h
      | some c' =>
        rw [hm] at h
        cases h
        rw [he]
        exact (realMoveBlock_lawful info hc hm).2.2
    · exact hr.moveBlock_perm lc s d lc' h

end Mltwist.Lemmas.Compose
