import Mltwist.Lemmas.Parse
import Mltwist.Lemmas.RiscvDecode
/-
C21, RISC-V part: the decoder `riscv.NewParser(Variant64, ExtM, ExtA)` honours the parser contract,
its instructions are always valid, instruction positions are `begin + 4k`, the tiling in closed form.
-/
namespace Mltwist.Lemmas.Parse
open Mltwist Mltwist.Elf Mltwist.Parse Mltwist.Parse.Spec Mltwist.Riscv

/-- every entry of the regenerated RV64IMA table has a proper instruction type (re-checked by kernel
evaluation on every run) -/
theorem rv64_types : (rv64Table.all fun e => decide (e.typ < 8)) = true := by decide +kernel

theorem cfg64 : Lemmas.RiscvDecode.Cfg 64 := Or.inr rfl

theorem rv_honest (tbl : List Entry) : Honest (rvDecoder tbl) := by
  intro a bytes r h
  unfold rvDecoder Riscv.parse at h
  by_cases hl : bytes.length < 4
  · rw [if_pos hl] at h; cases h
  · rw [if_neg hl] at h
    cases hf : tbl.find? (fun e => patMatches e.bytes e.mask bytes) with
    | none => rw [hf] at h; cases h
    | some e =>
      rw [hf] at h
      cases h
      simp only
      omega

/-- the shape of a successful decoding -/
theorem rvDecoder_ok {tbl : List Entry} {a : Nat} {bytes : List UInt8} {r : RawIns (Entry × Ins)}
    (h : rvDecoder tbl a bytes = .ok r) :
    4 ≤ bytes.length ∧ ∃ e, e ∈ tbl ∧ Riscv.parse tbl a bytes = .ok e ⟨a, wordOf bytes⟩ ∧
      r = ⟨e.typ, 4, (e.validEffects ⟨a, wordOf bytes⟩).map some, some (e, ⟨a, wordOf bytes⟩)⟩ := by
  unfold rvDecoder at h
  have hp : Riscv.parse tbl a bytes = Riscv.parse tbl a bytes := rfl
  unfold Riscv.parse at h hp
  by_cases hl : bytes.length < 4
  · rw [if_pos hl] at h; cases h
  · rw [if_neg hl] at h
    cases hf : tbl.find? (fun e => patMatches e.bytes e.mask bytes) with
    | none => rw [hf] at h; cases h
    | some e =>
      rw [hf] at h
      cases h
      refine ⟨by omega, e, List.mem_of_find?_eq_some hf, ?_, rfl⟩
      unfold Riscv.parse
      rw [if_neg hl, hf]

theorem rv_valid {a : Nat} {bytes : List UInt8} {r : RawIns (Entry × Ins)}
    (h : rvDecoder rv64Table a bytes = .ok r) : Valid r := by
  obtain ⟨_, e, he, _, rfl⟩ := rvDecoder_ok h
  refine ⟨?_, by simp, ?_, by simp⟩
  · have := List.all_eq_true.1 rv64_types e he
    simpa using this
  · intro x hx
    obtain ⟨y, _, rfl⟩ := List.mem_map.1 hx
    simp

/-- a position is bad for the front end iff the word is truncated or undefined in RV64IMA -/
theorem rv_bad_iff (a : Nat) (bytes : List UInt8) :
    Bad (rvDecoder rv64Table) a bytes ↔
      bytes.length < 4 ∨ Spec.Rv.decode 64 true true (wordOf bytes) = none := by
  unfold Bad
  cases hd : rvDecoder rv64Table a bytes with
  | ok r =>
    simp only
    obtain ⟨h4, e, he, hp, _⟩ := rvDecoder_ok hd
    constructor
    · intro hnv; exact absurd (rv_valid hd) hnv
    · rintro (h | h)
      · omega
      · have := (Lemmas.RiscvDecode.parse_unknown_iff 64 cfg64 true true a bytes h4).2 h
        unfold rv64Table at hp
        rw [hp] at this; cases this
  | error e =>
    simp only [true_iff]
    by_cases hl : bytes.length < 4
    · exact Or.inl hl
    · right
      have h4 : 4 ≤ bytes.length := by omega
      apply (Lemmas.RiscvDecode.parse_unknown_iff 64 cfg64 true true a bytes h4).1
      unfold rvDecoder rv64Table at hd
      cases hp : Riscv.parse (instructionSet 64 true true) a bytes with
      | short =>
        unfold Riscv.parse at hp
        rw [if_neg hl] at hp
        cases hf : (instructionSet 64 true true).find? (fun e => patMatches e.bytes e.mask bytes) with
        | none => rw [hf] at hp; cases hp
        | some _ => rw [hf] at hp; cases hp
      | unknown => rfl
      | ok e i => rw [hp] at hd; cases hd

/-! ### instruction positions are `begin + 4k` -/

theorem rvBadAt_zero (bytes : List UInt8) (hne : bytes ≠ []) (a : Nat) :
    RvBadAt bytes 0 ↔ Bad (rvDecoder rv64Table) a bytes := by
  rw [rv_bad_iff]
  unfold RvBadAt
  have : 0 < bytes.length := List.length_pos_iff.2 hne
  simp only [Nat.mul_zero, Nat.zero_add, List.drop_zero]
  constructor
  · rintro ⟨_, h⟩; exact h
  · intro h; exact ⟨this, h⟩

theorem rvBadAt_succ (bytes : List UInt8) (k : Nat) :
    RvBadAt bytes (k + 1) ↔ RvBadAt (bytes.drop 4) k := by
  unfold RvBadAt
  rw [List.drop_drop, List.length_drop]
  have h1 : 4 * (k + 1) = 4 + 4 * k := by omega
  rw [h1]
  constructor
  · rintro ⟨h, h'⟩
    refine ⟨by omega, ?_⟩
    rcases h' with h' | h'
    · left; omega
    · right; exact h'
  · rintro ⟨h, h'⟩
    refine ⟨by omega, ?_⟩
    rcases h' with h' | h'
    · left; omega
    · right; exact h'

theorem stuck_rv_bad {a : Nat} {bytes : List UInt8} {pos : Nat}
    (h : Stuck (rvDecoder rv64Table) a bytes pos) : ∃ k, RvBadAt bytes k ∧ pos = a + 4 * k := by
  induction h with
  | here a bytes hne hb => exact ⟨0, (rvBadAt_zero bytes hne a).2 hb, rfl⟩
  | later a bytes r pos hne hd hv hle _ ih =>
    obtain ⟨k, hk, hp⟩ := ih
    obtain ⟨_, e, _, _, rfl⟩ := rvDecoder_ok hd
    simp only at hk hp
    exact ⟨k + 1, (rvBadAt_succ bytes k).2 hk, by omega⟩

theorem bad_rv_stuck : ∀ (k : Nat) (a : Nat) (bytes : List UInt8), RvBadAt bytes k →
    ∃ pos, Stuck (rvDecoder rv64Table) a bytes pos := by
  intro k
  induction k with
  | zero =>
    intro a bytes hk
    have hne : bytes ≠ [] := by
      intro h; subst h; unfold RvBadAt at hk; simp at hk
    exact ⟨a, Stuck.here _ _ hne ((rvBadAt_zero bytes hne a).1 hk)⟩
  | succ k ih =>
    intro a bytes hk
    have hne : bytes ≠ [] := by
      intro h; subst h; unfold RvBadAt at hk; simp at hk
    cases hd : rvDecoder rv64Table a bytes with
    | error e => exact ⟨a, Stuck.here _ _ hne (by unfold Bad; rw [hd]; trivial)⟩
    | ok r =>
      have hv := rv_valid hd
      obtain ⟨h4, e, _, _, hr⟩ := rvDecoder_ok hd
      have hbl : r.byteLen = 4 := by rw [hr]
      obtain ⟨pos, hs⟩ := ih (a + 4) (bytes.drop 4) ((rvBadAt_succ bytes k).1 hk)
      refine ⟨pos, Stuck.later _ _ r pos hne hd hv (by omega) ?_⟩
      rw [hbl]; exact hs

/-! ### the tiling in closed form -/

theorem filterMap_id_map_some {α : Type} (l : List α) : (l.map some).filterMap id = l := by
  induction l with
  | nil => rfl
  | cons x xs ih => simp [ih]

theorem tiling_rv {a : Nat} {bytes : List UInt8} {is : List (Parse.Ins (Entry × Ins))}
    (h : Tiling (rvDecoder rv64Table) a bytes is) :
    is = rvTile rv64Table a bytes ∧ bytes.length % 4 = 0 := by
  induction h with
  | done a => exact ⟨rfl, rfl⟩
  | step a bytes r ins rest hne hd hv hle hins _ ih =>
    obtain ⟨h4, e, he, hp, hr⟩ := rvDecoder_ok hd
    have hbl : r.byteLen = 4 := by rw [hr]
    rw [hbl] at ih
    obtain ⟨ih1, ih2⟩ := ih
    match bytes, h4 with
    | b0 :: b1 :: b2 :: b3 :: tl, _ =>
      have htr := Lemmas.RiscvDecode.parse_trailing 64 cfg64 true true a (b0 :: b1 :: b2 :: b3 :: tl) (by simp)
      have hw : wordOf (b0 :: b1 :: b2 :: b3 :: tl) = wordOf [b0, b1, b2, b3] := by
        unfold wordOf; simp
      have hp4 : Riscv.parse rv64Table a [b0, b1, b2, b3] = .ok e ⟨a, wordOf [b0, b1, b2, b3]⟩ := by
        have h := htr
        unfold rv64Table at hp ⊢
        rw [hp, hw] at h
        simpa using h.symm
      obtain ⟨i1, i2, i3, i4, i5⟩ := hins
      have hins' : ins = ⟨e.typ, a, [b0, b1, b2, b3],
          (e.validEffects ⟨a, wordOf [b0, b1, b2, b3]⟩).map (Effect.apply constFold),
          (e, ⟨a, wordOf [b0, b1, b2, b3]⟩)⟩ := by
        cases ins
        rw [hr] at i1 i3 i4 i5
        simp only [filterMap_id_map_some, Option.some.injEq, List.take_succ_cons, List.take_zero] at i1 i2 i3 i4 i5
        rw [hw] at i4 i5
        subst i1 i2 i3 i4
        rw [← i5]
      refine ⟨?_, ?_⟩
      · unfold rvTile rvIns
        rw [hp4]
        simp only [Option.toList_some, List.singleton_append]
        simp only [List.drop_succ_cons, List.drop_zero] at ih1
        rw [hins', ih1]
      · simp only [List.drop_succ_cons, List.drop_zero] at ih2
        simp only [List.length_cons]
        omega

/-- length and elements of `rvTile` when every word is accepted -/
theorem rvTile_getElem (tbl : List Entry) : ∀ (n : Nat) (a : Nat) (bytes : List UInt8), bytes.length ≤ n →
    (∀ j, 4 * j + 4 ≤ bytes.length → (rvIns tbl (a + 4 * j) ((bytes.drop (4 * j)).take 4)).isSome) →
    (rvTile tbl a bytes).length = bytes.length / 4 ∧
    ∀ k, 4 * k + 4 ≤ bytes.length →
      (rvTile tbl a bytes)[k]? = rvIns tbl (a + 4 * k) ((bytes.drop (4 * k)).take 4) := by
  intro n
  induction n using Nat.strongRecOn with
  | _ n ih =>
    intro a bytes hn hall
    match bytes with
    | b0 :: b1 :: b2 :: b3 :: tl =>
      have h0 := hall 0 (by simp)
      simp only [Nat.mul_zero, Nat.add_zero, List.drop_zero, List.take_succ_cons, List.take_zero] at h0
      obtain ⟨i0, hi0⟩ := Option.isSome_iff_exists.1 h0
      have hall' : ∀ j, 4 * j + 4 ≤ tl.length →
          (rvIns tbl (a + 4 + 4 * j) ((tl.drop (4 * j)).take 4)).isSome := by
        intro j hj
        have := hall (j + 1) (by simp only [List.length_cons]; omega)
        have h1 : 4 * (j + 1) = (4 * j) + 4 := by omega
        rw [h1] at this
        simp only [List.drop_succ_cons] at this
        have h2 : a + (4 * j + 4) = a + 4 + 4 * j := by omega
        rw [h2] at this
        exact this
      obtain ⟨ihl, ihe⟩ := ih tl.length (by simp only [List.length_cons] at hn; omega) (a + 4) tl (Nat.le_refl _) hall'
      unfold rvTile
      rw [hi0]
      simp only [Option.toList_some, List.singleton_append, List.length_cons]
      refine ⟨by rw [ihl]; omega, ?_⟩
      intro k hk
      cases k with
      | zero =>
        simp only [Nat.mul_zero, Nat.add_zero, List.drop_zero, List.take_succ_cons, List.take_zero,
          List.getElem?_cons_zero]
        exact hi0.symm
      | succ k =>
        rw [List.getElem?_cons_succ, ihe k (by omega)]
        have h1 : 4 * (k + 1) = (4 * k) + 4 := by omega
        rw [h1]
        simp only [List.drop_succ_cons]
        have h2 : a + (4 * k + 4) = a + 4 + 4 * k := by omega
        rw [h2]
    | [] => exact ⟨rfl, fun k hk => by simp at hk⟩
    | [_] => exact ⟨by simp [rvTile], fun k hk => by simp at hk⟩
    | [_, _] => exact ⟨by simp [rvTile], fun k hk => by simp at hk⟩
    | [_, _, _] => exact ⟨by simp [rvTile], fun k hk => by simp at hk⟩

end Mltwist.Lemmas.Parse
