import Mltwist.Lemmas.ComposeMem
import Mltwist.Lemmas.ComposeDeps
import Mltwist.Props.C04
import Mltwist.Props.C18
import Mltwist.Props.C22
/-
COMPOSITION, part 7: the emulator parameter of the console UI (C22 `EmuOps`/`EmuLawful`, `Model/UI.lean`,
`Lemmas/UIInv.lean`) instantiated with the REAL emulator (C03/C04 `Model/Emulator.lean`) on the real state
(C18 registers, C14/C15/C16 memories).

* `ESt`              the emulator object: the code view it was created on and its `state.State`;
* `provOf ans`       the `StateProvider` of the console after the answers `ans` were typed in;
* `stepTree`         `Emulator.Step()` with the console as state provider, as the interaction tree C22 expects: the
                     step is replayed with the answers typed so far; the first request not yet answered is the
                     next prompt.  The tree is `Emulator.step` AS IT IS — since the repair of F45 a memory access
                     that leaves the address space (`addr + w ≥ 2^64`) is an ordinary error of `Step`, after the
                     prompts that precede it (there is no "scoped" variant any more);
* `emuOps bs cv`     the operations `emulate.New`, `MustIP`, `Step`, `Regs.Values()[key].Width()`,
                     `Regs.Store`, `State.Mems[key]`, the register file for the register view;
* `EGood`            the emulator states that arise: well-formed code (C03 `CodeWF`, `CodeSW`), `Ready` (C04), a
                     register MAP (distinct keys, C18), no byte at the top of the address space;
* `emu_lawful`       EVERY FIELD OF `EmuLawful` for the real emulator: `step_safe` from C03 `never_panics_step`
                     (unconditional in the accesses), `ip_some` from C03/C04 (`Ready`, `mustIP_spec`), `regs_oneIP`
                     from the map invariant (C18), `mem_ok` from `ofMem_coh` (C14 + C15 + C16 ⇒ C32), `width_byte`
                     from `expr.Width = uint8`;
* `top_access_fails` the former obstacle (F45): `lb x3,-1(x0)` — a one-byte load from `2^64 - 1` — used to panic;
                     now the step tree of the real emulator is the error leaf.
-/
namespace Mltwist.Lemmas.Compose
open Mltwist Mltwist.State Mltwist.Overlay Mltwist.Emulator Mltwist.UI
open Mltwist.Lemmas.Emulator Mltwist.Lemmas.UI Mltwist.Lemmas.State
open Mltwist.Spec.Overlay (AbsMem)

/-! ### the emulator object -/

-- `ESt` (the emulator object), `strOf`: `Model/Compose.lean`

/-! ### the register map is a map -/

def KeysNodup (m : RegMap) : Prop := (m.map (·.1)).Nodup

theorem mem_keys_assocSet {α : Type} (k : String) (v : α) (x : String) :
    ∀ m : List (String × α), x ∈ (assocSet k v m).map (·.1) → x = k ∨ x ∈ m.map (·.1)
  | [], h => by simp [assocSet] at h; exact Or.inl h
  | (k', v') :: rest, h => by
    unfold assocSet at h
    by_cases hk : k' = k
    · rw [if_pos hk] at h
      simp only [List.map_cons, List.mem_cons] at h ⊢
      rcases h with h | h
      · exact Or.inl h
      · exact Or.inr (Or.inr h)
    · rw [if_neg hk] at h
      simp only [List.map_cons, List.mem_cons] at h ⊢
      rcases h with h | h
      · exact Or.inr (Or.inl h)
      · rcases mem_keys_assocSet k v x rest h with h | h
        · exact Or.inl h
        · exact Or.inr (Or.inr h)

theorem keys_assocSet {α : Type} (k : String) (v : α) :
    ∀ m : List (String × α), (m.map (·.1)).Nodup → ((assocSet k v m).map (·.1)).Nodup
  | [], _ => by simp [assocSet]
  | (k', v') :: rest, h => by
    unfold assocSet
    simp only [List.map_cons, List.nodup_cons] at h
    by_cases hk : k' = k
    · rw [if_pos hk]
      simp only [List.map_cons, List.nodup_cons]
      exact ⟨hk ▸ h.1, h.2⟩
    · rw [if_neg hk]
      simp only [List.map_cons, List.nodup_cons]
      refine ⟨fun hm => ?_, keys_assocSet k v rest h.2⟩
      rcases mem_keys_assocSet k v k' rest hm with h1 | h1
      · exact hk h1
      · exact h.1 h1

theorem keys_store (m : RegMap) (k : String) (e : Expr) (w : Nat) (h : KeysNodup m) : KeysNodup (m.store k e w) :=
  keys_assocSet k _ m h

/-! ### what the steps of the emulator keep (beyond `Inv`/`Ready` of C03/C04) -/

/-- the register file is a map and no address space has a byte at `2^64 - 1` -/
structure Extra (s : State.State) : Prop where
  keys : KeysNodup s.regs
  bounded : ∀ key, PresentBounded (s.mems.abs key)

theorem bounded_store {s : State.State} (h : Inv s) (hb : ∀ key, PresentBounded (s.mems.abs key))
    {key : String} {a w : Nat} {e : Expr} {mems' : MemMap} (hd : InDom a w)
    (hs : s.mems.store key a e w = .ok mems') : ∀ key', PresentBounded (mems'.abs key') := by
  obtain ⟨m', h1, _, h3, h4⟩ := good_store h.good key a e w hd
  rw [hs] at h1
  cases h1
  intro key' x hx
  by_cases hk : key' = key
  · subst hk
    rw [h3] at hx
    unfold AbsMem.store at hx
    split at hx
    · have := hd.2.2; omega
    · exact hb key' x hx
  · rw [h4 key' hk] at hx
    exact hb key' x hx

theorem Fill.extra {p : Provider} {s s' : State.State} {l : List Req} (hf : Fill p s l s') (h : Inv s)
    (hx : Extra s) : Extra s' := by
  induction hf with
  | nil s => exact hx
  | reg key w _ _ ih =>
    exact ih (inv_fillReg h key w) ⟨keys_store _ _ _ _ hx.keys, hx.bounded⟩
  | mem key a w mems' hd _ hs _ ih =>
    exact ih (inv_store h hd (withWidth_byteConst _ hd) hs) ⟨hx.keys, bounded_store h hx.bounded hd hs⟩

theorem Applied.extra {s s' : State.State} {efs : List Effect} (ha : Applied s efs s') (h : Inv s)
    (hx : Extra s) : Extra s' := by
  induction ha with
  | nil s => exact hx
  | reg v k w _ ih => exact ih (inv_regStore h v k w) ⟨keys_store _ _ _ _ hx.keys, hx.bounded⟩
  | mem v key a w m' hd hv hs _ ih =>
    exact ih (inv_store h hd hv hs) ⟨hx.keys, bounded_store h hx.bounded hd hs⟩

theorem extra_finish {ins : Emulator.Ins} {j : Bool} {s : State.State} (hx : Extra s) : Extra (finish ins j s) := by
  unfold finish
  split
  · exact hx
  · exact ⟨keys_store _ _ _ _ hx.keys, hx.bounded⟩

/-! ### the console as state provider -/

-- `Answers`, `provOf`, `reqWidth`, `firstOpen`, `stepTree`, `stepFuel`, `regsOf`, `startState`, `emuOps`:
-- `Model/Compose.lean`

/-- the start state of `emulF` is C04's `toolState` without pre-set registers -/
theorem startState_eq (bs : List BytesMem.Block) : startState bs = toolState [] bs := rfl

/-! ### the good states -/

structure EGood (e : ESt) : Prop where
  wf : CodeWF e.code
  sw : CodeSW e.code
  ready : Ready e.st
  extra : Extra e.st

theorem filter_ip_le_one : ∀ m : RegMap, KeysNodup m →
    ((m.map fun p => (⟨p.1, p.2.width⟩ : Render.Reg)).filter Lemmas.Render.isIP).length ≤ 1
  | [], _ => by simp
  | (k, e) :: rest, h => by
    simp only [KeysNodup, List.map_cons, List.nodup_cons] at h
    simp only [List.map_cons, List.filter_cons]
    by_cases hk : k = Render.ipKey
    · have hnone : (rest.map fun p => (⟨p.1, p.2.width⟩ : Render.Reg)).filter Lemmas.Render.isIP = [] := by
        rw [List.filter_eq_nil_iff]
        intro r hr
        obtain ⟨p, hp, rfl⟩ := List.mem_map.1 hr
        simp only [Lemmas.Render.isIP, beq_iff_eq]
        intro he
        exact h.1 (List.mem_map.2 ⟨p, hp, he.trans hk.symm⟩)
      simp [Lemmas.Render.isIP, hk, hnone]
    · have := filter_ip_le_one rest h.2
      simp only [Lemmas.Render.isIP, beq_iff_eq, hk, if_false]
      exact this

theorem regsOf_oneIP (m : RegMap) (h : KeysNodup m) : Lemmas.Render.OneIP (regsOf m) := by
  unfold Lemmas.Render.OneIP regsOf
  have hp := (List.mergeSort_perm (m.map fun p => (⟨p.1, p.2.width⟩ : Render.Reg))
    (fun a b => !decide (b.key < a.key))).filter Lemmas.Render.isIP
  rw [hp.length_eq]
  exact filter_ip_le_one m h

theorem toolState_extra (bs : List BytesMem.Block)
    (hbb : ∀ x, BytesSpec.ofBlocks bs x ≠ none → x + 1 < 2 ^ 64) (ip : Nat) :
    Extra (Emulator.new ip (toolState [] bs)) := by
  refine ⟨?_, ?_⟩
  · show KeysNodup (RegMap.store _ _ _ _)
    exact keys_store _ _ _ _ (by simp [toolState, KeysNodup, RegMap.empty])
  · intro key x hx
    have : (Emulator.new ip (toolState [] bs)).mems = (toolState [] bs).mems := rfl
    rw [this, abs_toolState] at hx
    split at hx
    · cases hb : BytesSpec.ofBlocks bs x with
      | none => simp [hb] at hx
      | some v => exact hbb x (by rw [hb]; simp)
    · exact absurd rfl hx

theorem TreeSafe.mono {σ : Type} {G G' : σ → Prop} (h : ∀ s, G s → G' s) {t : StepTree σ}
    (ht : TreeSafe G t) : TreeSafe G' t := by
  induction ht with
  | done hs => exact TreeSafe.done (h _ hs)
  | fail hs => exact TreeSafe.fail (h _ hs)
  | ask hw _ ih => exact TreeSafe.ask hw ih

/-- the step tree of the real emulator never panics, ends in good states ON THE SAME CODE and asks for `uint8`
widths — whatever is typed at the prompts, whatever the instruction accesses (C03 `never_panics_step`) -/
theorem stepTree_safe' (e : ESt) (hg : EGood e) : ∀ (fuel : Nat) (ans : Answers),
    TreeSafe (fun s => EGood s ∧ s.code = e.code) (stepTree e fuel ans)
  | 0, _ => TreeSafe.fail ⟨hg, rfl⟩
  | fuel + 1, ans => by
    unfold stepTree
    obtain ⟨c, hip, hm⟩ := Props.C03.never_panics_step (provOf ans) e.code hg.ready hg.wf hg.sw
    cases hl : e.code.lookup (leToNat c % 2 ^ 64) with
    | none =>
      rw [hl] at hm
      simp only at hm
      rw [hm]
      exact TreeSafe.fail ⟨hg, rfl⟩
    | some ins =>
      rw [hl] at hm
      rcases hm with ⟨s1, s2, log, rep, hstep, hfill, happ, hready⟩ | ⟨s1, log, a, w, hstep, hfill, hready, _⟩
      · rw [hstep]
        simp only
        cases hf : firstOpen ans log with
        | none =>
          simp only
          refine TreeSafe.done ⟨⟨hg.wf, hg.sw, hready, ?_⟩, rfl⟩
          exact extra_finish (Applied.extra happ (hfill.inv hg.ready.inv) (Fill.extra hfill hg.ready.inv hg.extra))
        | some r =>
          simp only
          exact TreeSafe.ask (by omega) fun c => stepTree_safe' e hg fuel _
      · -- the access error (REPAIR F45): the state after the provider fills of the failed step is good again
        rw [hstep]
        simp only
        cases hf : firstOpen ans log with
        | none =>
          simp only
          exact TreeSafe.fail ⟨⟨hg.wf, hg.sw, hready, Fill.extra hfill hg.ready.inv hg.extra⟩, rfl⟩
        | some r =>
          simp only
          exact TreeSafe.ask (by omega) fun c => stepTree_safe' e hg fuel _

theorem stepTree_safe (e : ESt) (hg : EGood e) (fuel : Nat) (ans : Answers) :
    TreeSafe EGood (stepTree e fuel ans) :=
  TreeSafe.mono (fun _ h => h.1) (stepTree_safe' e hg fuel ans)

/-- ALL THE ASSUMPTIONS OF C22 ON THE EMULATOR, for the real emulator model AS IT IS (REPAIR F45):
`bs` is the byte memory `memory.NewBytes` made of an image that does not reach the top of the address space, `cv`
any well-formed code view -/
theorem emu_lawful {image bs : List BytesMem.Block} (hnb : BytesMem.newBytes image = .ok bs)
    (hbb : ∀ x, BytesSpec.ofBlocks bs x ≠ none → x + 1 < 2 ^ 64) (cv : Emulator.CodeView) (hwf : CodeWF cv)
    (hsw : CodeSW cv) :
    EmuLawful (emuOps bs cv) EGood where
  init_good _ ip := ⟨hwf, hsw, Props.C04.tool_start_ready [] hnb ip, toolState_extra bs hbb ip⟩
  ip_some e hg := by
    obtain ⟨c, hc⟩ := hg.ready.ipConst
    show (match mustIP e.st with | .ok a => some a | .error _ => none).isSome = true
    rw [mustIP_spec hc]
    rfl
  step_safe e hg := stepTree_safe e hg stepFuel []
  store_good e k v hg := by
    show EGood (match assocGet (strOf k) e.st.regs with
      | some x => { e with st := { e.st with regs := e.st.regs.store (strOf k) (.const v) (x.width % 256) } }
      | none => e)
    cases hk : assocGet (strOf k) e.st.regs with
    | none => exact hg
    | some x =>
      simp only
      refine ⟨hg.wf, hg.sw, ⟨inv_regStore hg.ready.inv v (strOf k) _, ?_⟩, ⟨keys_store _ _ _ _ hg.extra.keys, hg.extra.bounded⟩⟩
      show assocGet Emulator.ipKey (RegMap.store _ _ _ _) ≠ none
      unfold RegMap.store
      by_cases hkk : Emulator.ipKey = strOf k
      · rw [hkk, assocGet_set_same]; simp
      · rw [assocGet_set_other _ _ _ hkk]; exact hg.ready.ip
  width_byte e k w _ h := by
    simp only [emuOps] at h
    cases hk : assocGet (strOf k) e.st.regs with
    | none => rw [hk] at h; cases h
    | some x =>
      rw [hk] at h
      simp only [Option.map_some, Option.some.injEq] at h
      omega
  regs_oneIP e hg := regsOf_oneIP e.st.regs hg.extra.keys
  mem_ok e k m hg h := by
    simp only [emuOps] at h
    cases hk : assocGet (strOf k) e.st.mems with
    | none => rw [hk] at h; cases h
    | some mem =>
      rw [hk] at h
      simp only [Option.map_some, Option.some.injEq] at h
      subst h
      have habs : e.st.mems.abs (strOf k) = mem.abs := by simp only [MemMap.abs, hk]
      exact ofMem_ok mem (hg.ready.inv.good.1 _ _ hk) (hg.ready.inv.mems _ _ hk)
        (habs ▸ hg.extra.bounded (strOf k))

/-! ### the former obstacle (F45) -/

/-- `lb x3,-1(x0)` at 0x1000: a one-byte load from address `2^64 - 1` -/
def topBlocks : List (Nat × List UInt8) := [(4096, [0x83, 0x01, 0xf0, 0xff])]

set_option maxRecDepth 100000 in
/-- before the repair of F45 `Emulator.Step` panicked on it (the interval `[2^64 - 1, 0)` handed to the interval
tree) and C22's `StepNeverPanics` was false for the emulator as it was; now the step is the access error, the
step tree of the console is the error leaf, and the emulator stays where it was (instruction pointer 0x1000) -/
theorem top_access_fails :
    (Emulator.liftCode topBlocks).map (fun code =>
      match stepTree ⟨code, Emulator.new 4096 (toolState [] [])⟩ stepFuel [] with
      | .fail e => (match mustIP e.st with | .ok ip => some ip | .error _ => none)
      | _ => none) = some (some 4096) := by decide +kernel

end Mltwist.Lemmas.Compose
