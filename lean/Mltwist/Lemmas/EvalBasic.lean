import Mltwist.Model.Exprtools
import Mltwist.Spec.Gadgets
/-
Basic facts about the reference evaluator used by the gadget proofs (C11):
value bounds, truncation, constants, NAND algebra on naturals, two's complement encoding.
-/
namespace Mltwist.Lemmas.EvalBasic
open Mltwist

/-! ### powers of two -/

theorem M_pos (w : Nat) : 0 < 2 ^ (8 * w) := Nat.two_pow_pos _

theorem M_ge_256 {w : Nat} (hw : 1 ≤ w) : 256 ≤ 2 ^ (8 * w) := by
  have : 2 ^ 8 ≤ 2 ^ (8 * w) := Nat.pow_le_pow_right (by decide) (by omega)
  simpa using this

/-- `M = 2 * H` -/
theorem M_eq_two_H {w : Nat} (hw : 1 ≤ w) : 2 ^ (8 * w) = 2 * 2 ^ (8 * w - 1) := by
  have : 8 * w = (8 * w - 1) + 1 := by omega
  conv => lhs; rw [this, Nat.pow_succ]
  omega

theorem H_pos (w : Nat) : 0 < 2 ^ (8 * w - 1) := Nat.two_pow_pos _

/-! ### trunc -/

theorem trunc_lt (w x : Nat) : trunc w x < 2 ^ (8 * w) := Nat.mod_lt _ (M_pos w)

theorem trunc_of_lt {w x : Nat} (h : x < 2 ^ (8 * w)) : trunc w x = x := Nat.mod_eq_of_lt h

@[simp] theorem trunc_trunc (w x : Nat) : trunc w (trunc w x) = trunc w x :=
  trunc_of_lt (trunc_lt w x)

@[simp] theorem trunc_zero (w : Nat) : trunc w 0 = 0 := by simp [trunc]

theorem trunc_one {w : Nat} (hw : 1 ≤ w) : trunc w 1 = 1 :=
  trunc_of_lt (by have := M_ge_256 hw; omega)

theorem trunc_le (w x : Nat) : trunc w x ≤ x := Nat.mod_le _ _

/-- if the modulus is 1 everything below it is 0 -/
theorem eq_of_lt_of_M_one {M a b : Nat} (ha : a < M) (hb : b < M) (hM : M = 1) : a = b := by
  omega

/-! ### constants -/

theorem leToNat_lt (bs : List UInt8) : leToNat bs < 2 ^ (8 * bs.length) := by
  induction bs with
  | nil => simp [leToNat]
  | cons b bs ih =>
    have hb : b.toNat < 256 := by have := b.toNat_lt; simpa using this
    have : 2 ^ (8 * (bs.length + 1)) = 256 * 2 ^ (8 * bs.length) := by
      rw [Nat.mul_add, Nat.pow_add]; simp [Nat.mul_comm]
    simp only [leToNat, List.length_cons, this]
    omega

theorem leToNat_natToLE (w x : Nat) : leToNat (natToLE w x) = x % 2 ^ (8 * w) := by
  induction w generalizing x with
  | zero => simp [natToLE, leToNat, Nat.mod_one]
  | succ w ih =>
    have : 2 ^ (8 * (w + 1)) = 256 * 2 ^ (8 * w) := by
      rw [Nat.mul_add, Nat.pow_add]; simp [Nat.mul_comm]
    simp only [natToLE, leToNat, ih, this, UInt8.toNat_ofNat']
    rw [Nat.mod_mul]
    simp

theorem length_natToLE (w x : Nat) : (natToLE w x).length = w := by
  induction w generalizing x with
  | zero => simp [natToLE]
  | succ w ih => simp [natToLE, ih]

@[simp] theorem eval_constUint (ρ : Env) (v w : Nat) :
    (Tools.constUint v w).eval ρ = v % 2 ^ (8 * w) := by
  simp [Tools.constUint, Expr.eval, leToNat_natToLE]

@[simp] theorem width_constUint (v w : Nat) : (Tools.constUint v w).width = w := by
  simp [Tools.constUint, Expr.width, length_natToLE]

@[simp] theorem eval_zero (ρ : Env) : Expr.zero.eval ρ = 0 := by
  simp [Expr.zero, Expr.eval, leToNat]

@[simp] theorem eval_one (ρ : Env) : Expr.one.eval ρ = 1 := by
  simp [Expr.one, Expr.eval, leToNat]

@[simp] theorem eval_binary (ρ : Env) (op : BinOp) (a b : Expr) (w : Nat) :
    (Expr.binary op a b w).eval ρ = evalBin op w (trunc w (a.eval ρ)) (trunc w (b.eval ρ)) := rfl

@[simp] theorem eval_less (ρ : Env) (a b t f : Expr) (w : Nat) :
    (Expr.less a b t f w).eval ρ =
      if trunc w (a.eval ρ) < trunc w (b.eval ρ) then trunc w (t.eval ρ) else trunc w (f.eval ρ) :=
  rfl

/-! ### bounds -/

theorem nandW_lt (w x y : Nat) : nandW w x y < 2 ^ (8 * w) := by
  have := M_pos w
  unfold nandW; omega

theorem evalBin_lt (op : BinOp) (w x y : Nat) (hx : x < 2 ^ (8 * w)) :
    evalBin op w x y < 2 ^ (8 * w) := by
  have hM := M_pos w
  cases op <;> simp only [evalBin]
  · exact Nat.mod_lt _ hM
  · split
    · exact hM
    · exact Nat.mod_lt _ hM
  · split
    · exact hM
    · exact Nat.lt_of_le_of_lt (Nat.div_le_self _ _) hx
  · exact Nat.mod_lt _ hM
  · split
    · omega
    · exact Nat.lt_of_le_of_lt (Nat.div_le_self _ _) hx
  · exact nandW_lt w x y

theorem loadBytes_lt (mem : Nat → Nat) (a w : Nat) : loadBytes mem a w < 2 ^ (8 * w) := by
  induction w generalizing a with
  | zero => simp [loadBytes]
  | succ w ih =>
    have : 2 ^ (8 * (w + 1)) = 256 * 2 ^ (8 * w) := by
      rw [Nat.mul_add, Nat.pow_add]; simp [Nat.mul_comm]
    have h1 := ih (a + 1)
    have h2 : mem (a % 2 ^ 64) % 256 < 256 := Nat.mod_lt _ (by decide)
    simp only [loadBytes, this]
    omega

/-- values stay below `2^(8*width)` -/
theorem eval_lt (ρ : Env) (e : Expr) : e.eval ρ < 2 ^ (8 * e.width) := by
  cases e with
  | const bs => exact leToNat_lt bs
  | binary op a b w => exact evalBin_lt op w _ _ (trunc_lt _ _)
  | less a b t f w =>
    simp only [eval_less, Expr.width]
    split <;> exact trunc_lt _ _
  | memLoad k a w => exact loadBytes_lt _ _ _
  | regLoad k w => exact trunc_lt _ _

theorem trunc_eval_width (ρ : Env) (e : Expr) : trunc e.width (e.eval ρ) = e.eval ρ :=
  trunc_of_lt (eval_lt ρ e)

/-! ### NAND algebra on naturals -/

theorem testBit_cpl {n x : Nat} (h : x < 2 ^ n) (i : Nat) :
    (2 ^ n - 1 - x).testBit i = (decide (i < n) && !x.testBit i) := by
  have : 2 ^ n - 1 - x = 2 ^ n - (x + 1) := by omega
  rw [this, Nat.testBit_two_pow_sub_succ h]

theorem testBit_of_lt {n x i : Nat} (h : x < 2 ^ n) (hi : n ≤ i) : x.testBit i = false :=
  Nat.testBit_lt_two_pow (Nat.lt_of_lt_of_le h (Nat.pow_le_pow_right (by decide) hi))

theorem testBit_nandW {w x : Nat} (y : Nat) (hx : x < 2 ^ (8 * w)) (i : Nat) :
    (nandW w x y).testBit i = (decide (i < 8 * w) && !(x.testBit i && y.testBit i)) := by
  have : x &&& y < 2 ^ (8 * w) := Nat.lt_of_le_of_lt Nat.and_le_left hx
  unfold nandW
  rw [testBit_cpl this, Nat.testBit_and]

theorem nandW_ones {w x : Nat} (hx : x < 2 ^ (8 * w)) :
    nandW w x (2 ^ (8 * w) - 1) = 2 ^ (8 * w) - 1 - x := by
  unfold nandW
  rw [Nat.and_two_pow_sub_one_eq_mod, Nat.mod_eq_of_lt hx]

theorem nandW_zero_zero (w : Nat) : nandW w 0 0 = 2 ^ (8 * w) - 1 := by
  simp [nandW]

theorem cpl_nandW {w x : Nat} (y : Nat) (hx : x < 2 ^ (8 * w)) :
    2 ^ (8 * w) - 1 - nandW w x y = x &&& y := by
  have : x &&& y < 2 ^ (8 * w) := Nat.lt_of_le_of_lt Nat.and_le_left hx
  unfold nandW; omega

theorem nandW_cpl_cpl {w x y : Nat} (hx : x < 2 ^ (8 * w)) (hy : y < 2 ^ (8 * w)) :
    nandW w (2 ^ (8 * w) - 1 - x) (2 ^ (8 * w) - 1 - y) = x ||| y := by
  apply Nat.eq_of_testBit_eq
  intro i
  have h1 : 2 ^ (8 * w) - 1 - x < 2 ^ (8 * w) := by have := M_pos w; omega
  rw [testBit_nandW _ h1, testBit_cpl hx, testBit_cpl hy, Nat.testBit_or]
  by_cases hi : i < 8 * w
  · simp [hi]
  · simp [hi, testBit_of_lt hx (Nat.le_of_not_lt hi), testBit_of_lt hy (Nat.le_of_not_lt hi)]

theorem nandW_xor {w x y : Nat} (hx : x < 2 ^ (8 * w)) (hy : y < 2 ^ (8 * w)) :
    nandW w (nandW w x (nandW w x y)) (nandW w y (nandW w x y)) = x ^^^ y := by
  apply Nat.eq_of_testBit_eq
  intro i
  rw [testBit_nandW _ (nandW_lt _ _ _), testBit_nandW _ hx, testBit_nandW _ hy,
    testBit_nandW _ hx, Nat.testBit_xor]
  by_cases hi : i < 8 * w
  · simp [hi]
    cases x.testBit i <;> cases y.testBit i <;> rfl
  · simp [hi, testBit_of_lt hx (Nat.le_of_not_lt hi), testBit_of_lt hy (Nat.le_of_not_lt hi)]

/-! ### modular arithmetic helpers (omega-friendly normal forms) -/

theorem mod_cases {a M : Nat} (h : a < 2 * M) : a % M = if a < M then a else a - M := by
  split
  · next h1 => exact Nat.mod_eq_of_lt h1
  · next h1 =>
    rw [Nat.mod_eq_sub_mod (Nat.le_of_not_lt h1)]
    exact Nat.mod_eq_of_lt (by omega)

theorem ofInt_lt (w : Nat) (i : Int) : Spec.ofInt w i < 2 ^ (8 * w) := by
  have hM : (0 : Int) < ((2 ^ (8 * w) : Nat) : Int) := Int.natCast_pos.mpr (M_pos w)
  have h1 := Int.emod_lt_of_pos i hM
  have h2 := Int.emod_nonneg i (Int.ne_of_gt hM)
  unfold Spec.ofInt Spec.M
  omega

theorem ofInt_add_mul (w : Nat) (i k : Int) :
    Spec.ofInt w (i + k * ((2 ^ (8 * w) : Nat) : Int)) = Spec.ofInt w i := by
  unfold Spec.ofInt Spec.M
  rw [Int.add_mul_emod_self_right]

theorem ofInt_of_nonneg {w : Nat} {i : Int} (h0 : 0 ≤ i) (h1 : i < ((2 ^ (8 * w) : Nat) : Int)) :
    Spec.ofInt w i = i.toNat := by
  unfold Spec.ofInt Spec.M
  rw [Int.emod_eq_of_lt h0 h1]

theorem ofInt_of_neg {w : Nat} {i : Int} (h0 : -((2 ^ (8 * w) : Nat) : Int) ≤ i) (h1 : i < 0) :
    Spec.ofInt w i = (i + ((2 ^ (8 * w) : Nat) : Int)).toNat := by
  have := ofInt_add_mul w i 1
  rw [Int.one_mul] at this
  rw [← this]
  exact ofInt_of_nonneg (by omega) (by omega)

theorem ofInt_natCast (w x : Nat) : Spec.ofInt w (x : Int) = trunc w x := by
  unfold Spec.ofInt Spec.M trunc
  rw [← Int.natCast_emod, Int.toNat_natCast]

theorem ofInt_neg_natCast (w x : Nat) :
    Spec.ofInt w (-(x : Int)) = Spec.ofInt w (-((trunc w x : Nat) : Int)) := by
  have h := Nat.div_add_mod x (2 ^ (8 * w))
  have : -(x : Int) = -((trunc w x : Nat) : Int)
      + (-((x / 2 ^ (8 * w) : Nat) : Int)) * ((2 ^ (8 * w) : Nat) : Int) := by
    unfold trunc
    have h' : ((2 ^ (8 * w) : Nat) : Int) * ((x / 2 ^ (8 * w) : Nat) : Int)
        + ((x % 2 ^ (8 * w) : Nat) : Int) = (x : Int) := by exact_mod_cast h
    rw [Int.neg_mul, Int.mul_comm]
    omega
  rw [this, ofInt_add_mul]

theorem neg_eq (w X : Nat) :
    Spec.neg w X = if trunc w X = 0 then 0 else 2 ^ (8 * w) - trunc w X := by
  have hx := trunc_lt w X
  unfold Spec.neg
  rw [ofInt_neg_natCast]
  split
  · next h => rw [h]; simp [Spec.ofInt]
  · next h =>
    rw [ofInt_of_neg (by omega) (by omega)]
    omega

theorem sub_eq {w x y : Nat} (hx : x < 2 ^ (8 * w)) (hy : y < 2 ^ (8 * w)) :
    Spec.sub w x y = if y ≤ x then x - y else x + 2 ^ (8 * w) - y := by
  unfold Spec.sub
  split
  · next h => rw [ofInt_of_nonneg (by omega) (by omega)]; omega
  · next h => rw [ofInt_of_neg (by omega) (by omega)]; omega

/-! ### sign bit, signed reading -/

theorem testBit_top {x k : Nat} (h : x < 2 * 2 ^ k) : x.testBit k = decide (2 ^ k ≤ x) := by
  by_cases hx : x < 2 ^ k
  · simp [Nat.testBit_lt_two_pow hx, Nat.not_le.mpr hx]
  · have hx' : 2 ^ k ≤ x := Nat.le_of_not_lt hx
    have : x = 2 ^ k + (x - 2 ^ k) := by omega
    rw [this, Nat.testBit_two_pow_add_eq, Nat.testBit_lt_two_pow (by omega)]
    simp

theorem and_two_pow (x k : Nat) : x &&& 2 ^ k = if x.testBit k then 2 ^ k else 0 := by
  apply Nat.eq_of_testBit_eq
  intro i
  rw [Nat.testBit_and, Nat.testBit_two_pow]
  by_cases hi : k = i
  · subst hi
    cases h : x.testBit k <;> simp
  · cases h : x.testBit k <;> simp [hi]

theorem and_H {x k : Nat} (h : x < 2 * 2 ^ k) : x &&& 2 ^ k = if x < 2 ^ k then 0 else 2 ^ k := by
  rw [and_two_pow, testBit_top h]
  by_cases hx : x < 2 ^ k
  · simp [hx, Nat.not_le.mpr hx]
  · simp [hx, Nat.le_of_not_lt hx]

theorem toInt_eq (w x : Nat) :
    toInt w x = if x < 2 ^ (8 * w - 1) then (x : Int) else (x : Int) - ((2 ^ (8 * w) : Nat) : Int) :=
  rfl

theorem toInt_neg_iff {w x : Nat} (hx : x < 2 ^ (8 * w)) : toInt w x < 0 ↔ 2 ^ (8 * w - 1) ≤ x := by
  rw [toInt_eq]
  split <;> omega

theorem abs_eq {w : Nat} (hw : 1 ≤ w) (X : Nat) :
    Spec.abs w X =
      if trunc w X < 2 ^ (8 * w - 1) then trunc w X else 2 ^ (8 * w) - trunc w X := by
  have hx := trunc_lt w X
  have hMH := M_eq_two_H hw
  have hH := H_pos w
  unfold Spec.abs
  rw [toInt_eq]
  split
  · rw [Int.natAbs_natCast, ofInt_natCast, trunc_trunc]
  · have : (((trunc w X : Nat) : Int) - ((2 ^ (8 * w) : Nat) : Int)).natAbs
        = 2 ^ (8 * w) - trunc w X := by omega
    rw [this, ofInt_natCast, trunc_of_lt (by omega)]

/-! ### further helpers -/

theorem trunc_ite (w : Nat) (c : Prop) [Decidable c] (a b : Nat) :
    trunc w (if c then trunc w a else trunc w b) = if c then trunc w a else trunc w b := by
  split <;> exact trunc_trunc _ _

theorem ite_congr_prop {α : Type} {p q : Prop} [Decidable p] [Decidable q] (h : p ↔ q) (a b : α) :
    (if p then a else b) = if q then a else b := by
  by_cases hp : p
  · rw [if_pos hp, if_pos (h.mp hp)]
  · rw [if_neg hp, if_neg (fun hq => hp (h.mpr hq))]

theorem toInt_inj {w x y : Nat} (hw : 1 ≤ w) (hx : x < 2 ^ (8 * w)) (hy : y < 2 ^ (8 * w))
    (h : toInt w x = toInt w y) : x = y := by
  have hMH := M_eq_two_H hw
  rw [toInt_eq, toInt_eq] at h
  split at h <;> split at h <;> omega

theorem or_high_mask {x n s : Nat} (hx : x < 2 ^ n) (hs : s ≤ n) :
    x ||| (2 ^ n - 1 - (2 ^ s - 1)) = 2 ^ n - 2 ^ s + x % 2 ^ s := by
  have hS : 2 ^ s ≤ 2 ^ n := Nat.pow_le_pow_right (by decide) hs
  have hSpos := Nat.two_pow_pos s
  have e1 : 2 ^ n - 2 ^ s = 2 ^ s * (2 ^ (n - s) - 1) := by
    rw [Nat.mul_sub, ← Nat.pow_add, Nat.mul_one]; congr 2; omega
  have e2 : 2 ^ n - 1 - (2 ^ s - 1) = 2 ^ n - 2 ^ s := by omega
  rw [e1, Nat.two_pow_add_eq_or_of_lt (Nat.mod_lt _ hSpos), ← e1, ← e2]
  apply Nat.eq_of_testBit_eq; intro i
  rw [Nat.testBit_or, Nat.testBit_or, testBit_cpl (by omega), Nat.testBit_two_pow_sub_one,
    Nat.testBit_mod_two_pow]
  by_cases h1 : i < s
  · have : i < n := by omega
    simp [h1, this]
  · by_cases h2 : i < n
    · simp [h1, h2]
    · simp [h1, h2, testBit_of_lt hx (Nat.le_of_not_lt h2)]

theorem pred_div {Q P : Nat} (hQ : 0 < Q) (hP : 0 < P) : (Q * P - 1) / P = Q - 1 := by
  obtain ⟨k, rfl⟩ : ∃ k, Q = k + 1 := ⟨Q - 1, by omega⟩
  have h : (k + 1) * P = k * P + P := Nat.succ_mul k P
  apply Nat.div_eq_of_lt_le
  · simp only [Nat.add_sub_cancel]; rw [h]; omega
  · simp only [Nat.add_sub_cancel]; omega

theorem ofInt_cast (w : Nat) (i : Int) :
    ((Spec.ofInt w i : Nat) : Int) = i % ((2 ^ (8 * w) : Nat) : Int) := by
  unfold Spec.ofInt Spec.M
  exact Int.toNat_of_nonneg (Int.emod_nonneg _ (by have := M_pos w; omega))

theorem ofInt_mul (w : Nat) (i j : Int) :
    (Spec.ofInt w i * Spec.ofInt w j) % 2 ^ (8 * w) = Spec.ofInt w (i * j) := by
  apply Int.ofNat.inj
  show (((Spec.ofInt w i * Spec.ofInt w j) % 2 ^ (8 * w) : Nat) : Int) = ((Spec.ofInt w (i * j) : Nat) : Int)
  rw [Int.natCast_emod, Int.natCast_mul, ofInt_cast, ofInt_cast, ofInt_cast, ← Int.mul_emod]

theorem tdiv_eq (a b : Int) :
    Int.tdiv a b = if (decide (a < 0) != decide (b < 0)) then -((a.natAbs / b.natAbs : Nat) : Int)
      else ((a.natAbs / b.natAbs : Nat) : Int) := by
  obtain ⟨n, rfl | rfl⟩ := Int.eq_nat_or_neg a <;> obtain ⟨m, rfl | rfl⟩ := Int.eq_nat_or_neg b
  · have h1 : ¬ ((n : Int) < 0) := by omega
    have h2 : ¬ ((m : Int) < 0) := by omega
    simp only [h1, h2, decide_false, bne_self_eq_false, Bool.false_eq_true, if_false,
      Int.natAbs_natCast, Int.ofNat_tdiv]
  · have h1 : ¬ ((n : Int) < 0) := by omega
    simp only [Int.tdiv_neg, Int.natAbs_neg, Int.natAbs_natCast, ← Int.ofNat_tdiv, h1]
    by_cases hm : m = 0
    · subst hm; simp
    · simp [hm]
  · have h2 : ¬ ((m : Int) < 0) := by omega
    simp only [Int.neg_tdiv, Int.natAbs_neg, Int.natAbs_natCast, ← Int.ofNat_tdiv, h2]
    by_cases hn : n = 0
    · subst hn; simp
    · simp [hn]
  · simp only [Int.neg_tdiv, Int.tdiv_neg, Int.natAbs_neg, Int.natAbs_natCast, ← Int.ofNat_tdiv,
      Int.neg_neg]
    by_cases hn : n = 0
    · subst hn; simp
    · by_cases hm : m = 0
      · subst hm; simp
      · simp [Nat.pos_of_ne_zero hn, Nat.pos_of_ne_zero hm]

theorem abs_eq_natAbs {w : Nat} (hw : 1 ≤ w) (X : Nat) :
    Spec.abs w X = (toInt w (trunc w X)).natAbs := by
  have hx := trunc_lt w X
  have hMH := M_eq_two_H hw
  unfold Spec.abs
  rw [ofInt_natCast, trunc_of_lt]
  rw [toInt_eq]
  split <;> omega

theorem natAbs_toInt_lt {w : Nat} (hw : 1 ≤ w) {x : Nat} (hx : x < 2 ^ (8 * w)) :
    (toInt w x).natAbs < 2 ^ (8 * w) := by
  have hMH := M_eq_two_H hw
  rw [toInt_eq]
  split <;> omega

theorem toInt_eq_zero_iff {w : Nat} (hw : 1 ≤ w) {x : Nat} (hx : x < 2 ^ (8 * w)) :
    toInt w x = 0 ↔ x = 0 := by
  have hMH := M_eq_two_H hw
  have hH := H_pos w
  rw [toInt_eq]
  split <;> omega

end Mltwist.Lemmas.EvalBasic
