import Mltwist.Lemmas.ListingBasic
/-
The invariant of the disassembler mode (C23): the listing shows the fresh rendering of the current
code, `blockStarts` are the header lines, marks and cursor are within the listing — and its
preservation by marks, `Reload` after an instruction move and the rebuild after a block move.
-/
namespace Mltwist.Lemmas.Listing
open Mltwist.Listing Mltwist.Listing.Spec

/-! ### marks do not change what is shown -/

theorem rowOf_setMark (ln : Line) (m : Mark) : rowOf { ln with mark := m } = rowOf ln := rfl

theorem map_rowOf_set (ls : List Line) (i : Nat) (ln : Line) (m : Mark) (h : ls[i]? = some ln) :
    (ls.set i { ln with mark := m }).map rowOf = ls.map rowOf := by
  apply List.ext_getElem?
  intro j
  simp only [List.getElem?_map, List.getElem?_set]
  split
  · next hij =>
    subst hij
    have := getElem?_lt h
    have hl : ls[i] = ln := by rw [List.getElem?_eq_getElem this] at h; exact Option.some.inj h
    simp [this, hl, rowOf_setMark]
  · rfl

theorem setMark_spec (l : Lines) (i : Nat) (m : Mark) (hi : i < l.lines.length) :
    ∃ l', l.setMark i m = some l' ∧ shown l' = shown l ∧ l'.blockStarts = l.blockStarts ∧
      l'.lines.length = l.lines.length ∧ (∀ j ∈ l'.marks, j ∈ l.marks ∨ j = i) := by
  have h : l.lines[i]? = some l.lines[i] := List.getElem?_eq_getElem hi
  refine ⟨{ l with lines := l.lines.set i { l.lines[i] with mark := m },
                   marks := if i ∈ l.marks then l.marks else i :: l.marks },
    by simp only [Lines.setMark, h], ?_, rfl, by simp, ?_⟩
  · simp only [shown]; exact map_rowOf_set _ _ _ _ h
  · intro j hj
    simp only at hj
    split at hj
    · left; exact hj
    · rcases List.mem_cons.mp hj with h | h
      · right; exact h
      · left; exact h

theorem setMark_none (l : Lines) (i : Nat) (m : Mark) (hi : l.lines.length ≤ i) : l.setMark i m = none := by
  simp [Lines.setMark, List.getElem?_eq_none hi]

theorem clearMarks_spec (is : List Nat) (ls : List Line) (h : ∀ i ∈ is, i < ls.length) :
    ∃ ls', clearMarks is ls = some ls' ∧ ls'.map rowOf = ls.map rowOf ∧ ls'.length = ls.length := by
  induction is generalizing ls with
  | nil => exact ⟨ls, rfl, rfl, rfl⟩
  | cons i is ih =>
    have hi : i < ls.length := h i (by simp)
    have hget : ls[i]? = some ls[i] := List.getElem?_eq_getElem hi
    simp only [clearMarks, hget]
    obtain ⟨ls', h1, h2, h3⟩ := ih (ls.set i { ls[i] with mark := markNone })
      (fun j hj => by simpa using h j (by simp [hj]))
    refine ⟨ls', h1, ?_, by simpa using h3⟩
    rw [h2, map_rowOf_set _ _ _ _ hget]

theorem unmarkAll_spec (l : Lines) (h : ∀ i ∈ l.marks, i < l.lines.length) :
    ∃ l', l.unmarkAll = some l' ∧ shown l' = shown l ∧ l'.blockStarts = l.blockStarts ∧
      l'.lines.length = l.lines.length ∧ l'.marks = [] := by
  obtain ⟨ls', h1, h2, h3⟩ := clearMarks_spec l.marks l.lines h
  exact ⟨{ l with lines := ls', marks := [] }, by simp only [Lines.unmarkAll, h1], h2, rfl, h3, rfl⟩

/-! ### `Reload` after a change of one block that keeps its size -/

theorem startsOf_congr (bs bs' : List Block) (off : Nat) (first : Bool)
    (h : bs.map (·.ins.length) = bs'.map (·.ins.length)) : startsOf bs off first = startsOf bs' off first := by
  induction bs generalizing bs' off first with
  | nil => cases bs' with
    | nil => rfl
    | cons _ _ => simp at h
  | cons b bs ih =>
    cases bs' with
    | nil => simp at h
    | cons b' bs' =>
      simp only [List.map_cons, List.cons.injEq] at h
      simp only [startsOf, h.1]
      rw [ih bs' _ _ h.2]

theorem shown_length (l l' : Lines) (h : shown l = shown l') : l.lines.length = l'.lines.length := by
  have := congrArg List.length h
  simpa [shown] using this

theorem overwrite_rows (ls new : List Line) (A B C : List Row) (h : ls.map rowOf = A ++ B ++ C)
    (hB : B.length = new.length) :
    (overwrite ls A.length new).map rowOf = A ++ new.map rowOf ++ C := by
  have hlen : ls.length = A.length + B.length + C.length := by
    have := congrArg List.length h
    simp at this; omega
  simp only [overwrite, List.map_take, List.map_append, List.map_drop, h]
  have h1 : List.take A.length (A ++ B ++ C) = A := by
    rw [List.append_assoc, List.take_left']
    rfl
  have h2 : List.drop (A.length + new.length) (A ++ B ++ C) = C := by
    rw [← hB, ← List.length_append, List.drop_left']
    rfl
  rw [h1, h2]
  apply List.take_of_length_le
  simp [hlen, hB]; omega

/-- the effect of `Reload(k)` when block `k` is replaced by a block with as many instructions -/
theorem reload_spec (l : Lines) (c c' : Code) (k : Nat) (b b' : Block)
    (hrows : shown l = shown (newLines c)) (hstarts : l.blockStarts = (newLines c).blockStarts)
    (hb : c.blocks[k]? = some b) (hc' : c'.blocks = c.blocks.set k b')
    (hlen : b'.ins.length = b.ins.length) :
    ∃ l', l.reload c' k = some l' ∧ shown l' = shown (newLines c') ∧
      l'.blockStarts = (newLines c').blockStarts ∧ l'.lines.length = l.lines.length ∧
      l'.marks = l.marks := by
  have hk := getElem?_lt hb
  have hb' : c'.blocks[k]? = some b' := by simp [hc', hk]
  -- decomposition of both fresh listings
  have hP : prefixLines c'.blocks k = prefixLines c.blocks k := by
    simp [prefixLines, hc', List.take_set_of_le (Nat.le_refl k)]
  have hR : c'.blocks.drop (k + 1) = c.blocks.drop (k + 1) := by
    rw [hc', List.drop_set_of_lt (Nat.lt_succ_self k)]
  have hL : (newLines c).lines =
      prefixLines c.blocks k ++ blockToLines b ++ (linesOf (c.blocks.drop (k + 1)) false ++ [newEmptyLine]) := by
    rw [newLines_lines, linesOf_split _ _ _ hb]; simp
  have hL' : (newLines c').lines =
      prefixLines c.blocks k ++ blockToLines b' ++ (linesOf (c.blocks.drop (k + 1)) false ++ [newEmptyLine]) := by
    rw [newLines_lines, linesOf_split _ _ _ hb', hP, hR]; simp
  have hS : (newLines c').blockStarts = (newLines c).blockStarts := by
    rw [newLines_starts, newLines_starts]
    apply startsOf_congr
    rw [hc', List.map_set]
    apply List.ext_getElem?
    intro j
    simp only [List.getElem?_set, List.getElem?_map]
    split
    · next h =>
      subst h
      have hbk : c.blocks[k] = b := by rw [List.getElem?_eq_getElem hk] at hb; exact Option.some.inj hb
      simp [hk, hbk, hlen]
    · rfl
  have hstart : l.blockStarts[k]? = some (prefixLines c.blocks k).length := by
    rw [hstarts, newLines_starts]; exact prefixLines_length _ _ hk
  have hll : l.lines.length = (newLines c).lines.length := shown_length _ _ hrows
  have hsh : l.lines.map rowOf = (prefixLines c.blocks k).map rowOf ++ (blockToLines b).map rowOf ++
      (linesOf (c.blocks.drop (k + 1)) false ++ [newEmptyLine]).map rowOf := by
    have := hrows
    simp only [shown, hL, List.map_append] at this
    simpa using this
  have hnb : (blockToLines b').length = (blockToLines b).length := by
    simp [blockToLines_length, hlen]
  have hlt : (prefixLines c.blocks k).length + (blockToLines b).length + 1 ≤ l.lines.length := by
    rw [hll, hL]; simp; omega
  refine ⟨{ l with lines := overwrite l.lines (prefixLines c.blocks k).length (blockToLines b') }, ?_, ?_, ?_, ?_, rfl⟩
  · simp only [Lines.reload, hb', hstart]
    rw [if_neg (by omega), if_neg (by omega)]
  · have := overwrite_rows l.lines (blockToLines b') _ _ _ hsh (by simp [hnb])
    simp only [List.length_map] at this
    simp only [shown, this, hL', List.map_append]
  · simp [hS, hstarts]
  · simp [overwrite]; omega

/-! ### the invariant -/

structure Inv (st : St) : Prop where
  wf : WF st.code
  rows : shown st.lines = shown (newLines st.code)
  starts : st.lines.blockStarts = (newLines st.code).blockStarts
  marks : ∀ i ∈ st.lines.marks, i < st.lines.lines.length
  curMax : st.cursor.maxValue = st.lines.lines.length
  curVal : st.cursor.value < st.cursor.maxValue

theorem newLines_pos (c : Code) : 0 < (newLines c).lines.length := by
  rw [newLines_lines]; simp

theorem inv_init (c : Code) (hwf : WF c) : Inv (St.init c) where
  wf := hwf
  rows := rfl
  starts := rfl
  marks := by simp [St.init, newLines_marks]
  curMax := rfl
  curVal := by simpa [St.init, Lines.len] using newLines_pos c

/-- a line of a listing that shows the fresh rendering has the block/instruction of a fresh line -/
theorem line_of_shown (l : Lines) (c : Code) (hrows : shown l = shown (newLines c)) (i : Nat) (ln : Line)
    (h : l.lines[i]? = some ln) :
    ∃ ln' ∈ (newLines c).lines, ln.block = ln'.block ∧ ln.instr = ln'.instr := by
  have hi := getElem?_lt h
  have hlen := shown_length _ _ hrows
  have h' : (newLines c).lines[i]? = some (newLines c).lines[i] := List.getElem?_eq_getElem (by omega)
  have := congrArg (fun r => r[i]?) hrows
  simp only [shown, List.getElem?_map, h, h', Option.map_some] at this
  have hr := Option.some.inj this
  have hi' : i < (newLines c).lines.length := by omega
  refine ⟨(newLines c).lines[i], List.getElem_mem hi', ?_, ?_⟩
  · exact congrArg Row.block hr
  · exact congrArg Row.instr hr

theorem wf_getElem? (c : Code) (hwf : WF c) (b : Block) (hb : b ∈ c.blocks) : c.blocks[b.idx]? = some b := by
  obtain ⟨i, hi⟩ := List.mem_iff_getElem?.mp hb
  rw [hwf.blockIdx i b hi]; exact hi

theorem wf_ins_getElem? (c : Code) (hwf : WF c) (b : Block) (hb : b ∈ c.blocks) (x : Ins) (hx : x ∈ b.ins) :
    b.ins[x.idx]? = some x := by
  obtain ⟨i, hi⟩ := List.mem_iff_getElem?.mp hx
  rw [hwf.insIdx b hb i x hi]; exact hi

/-- the header line of block `k` and the room behind it -/
theorem start_bound (c : Code) (k : Nat) (b : Block) (hb : c.blocks[k]? = some b) :
    ∃ s, (newLines c).blockStarts[k]? = some s ∧ s + b.ins.length + 2 ≤ (newLines c).lines.length := by
  refine ⟨(prefixLines c.blocks k).length, ?_, ?_⟩
  · rw [newLines_starts]; exact prefixLines_length _ _ (getElem?_lt hb)
  · rw [newLines_lines, linesOf_split _ _ _ hb]; simp [blockToLines_length]; omega

theorem set_of_agree {α} (l l' : List α) (k : Nat) (a : α) (hlen : l'.length = l.length)
    (hk : l'[k]? = some a) (hother : ∀ j, j ≠ k → l'[j]? = l[j]?) : l' = l.set k a := by
  apply List.ext_getElem?
  intro j
  rw [List.getElem?_set]
  split
  · next h =>
    subst h
    have := getElem?_lt hk
    rw [hk]; simp [← hlen, this]
  · next h => exact hother j (fun e => h e.symm)

theorem perm_sizes {c c' : Code}
    (h : (c'.blocks.map fun b => (b.begin, b.stop, b.ins)).Perm (c.blocks.map fun b => (b.begin, b.stop, b.ins))) :
    (newLines c').lines.length = (newLines c).lines.length := by
  have h1 : sizeSum c'.blocks = sizeSum c.blocks := by
    have := (h.map (fun t : Nat × Nat × List Ins => t.2.2.length + 2)).sum_nat
    simpa [sizeSum, List.map_map, Function.comp_def] using this
  have h2 : c'.blocks.isEmpty = c.blocks.isEmpty := by
    have := h.length_eq
    simp only [List.length_map] at this
    cases hc : c.blocks <;> cases hc' : c'.blocks <;> simp_all
  have a := newLines_length c
  have b := newLines_length c'
  rw [h1, h2] at b
  omega

/-- result of `Lines.Move` on a listing that shows the code -/
theorem move_spec (ops : CodeOps) (hl : Lawful ops) (l : Lines) (c : Code) (hwf : WF c)
    (hrows : shown l = shown (newLines c)) (hstarts : l.blockStarts = (newLines c).blockStarts)
    (f t : Nat) (hf : f < l.lines.length) (ht : t < l.lines.length) :
    ∃ r, l.move ops c f t = some r ∧
      ((r.err ≠ none ∧ r.lines = l ∧ r.code = c) ∨
       (r.err = none ∧ WF r.code ∧ shown r.lines = shown (newLines r.code) ∧
        r.lines.blockStarts = (newLines r.code).blockStarts ∧
        r.lines.lines.length = l.lines.length ∧ r.lines.marks = l.marks ∧ r.code.entry = c.entry)) := by
  have hF : l.lines[f]? = some l.lines[f] := List.getElem?_eq_getElem hf
  have hT : l.lines[t]? = some l.lines[t] := List.getElem?_eq_getElem ht
  obtain ⟨lf, hlf, hfb, hfi⟩ := line_of_shown l c hrows f _ hF
  obtain ⟨lt, hlt, htb, hti⟩ := line_of_shown l c hrows t _ hT
  simp only [Lines.move, Lines.moveWith, hF, hT]
  cases hb1 : l.lines[f].block with
  | none => exact ⟨_, rfl, Or.inl ⟨by simp, rfl, rfl⟩⟩
  | some fb =>
    cases hb2 : l.lines[t].block with
    | none => exact ⟨_, rfl, Or.inl ⟨by simp, rfl, rfl⟩⟩
    | some tb =>
      cases hi1 : l.lines[f].instr with
      | none =>
        cases hi2 : l.lines[t].instr with
        | some ti => exact ⟨_, rfl, Or.inl ⟨by simp, rfl, rfl⟩⟩
        | none =>
          simp only
          cases hm : ops.moveBlock c fb tb with
          | none => exact ⟨_, rfl, Or.inl ⟨by simp, rfl, rfl⟩⟩
          | some c' =>
            refine ⟨_, rfl, Or.inr ⟨rfl, hl.moveBlock_wf _ _ _ _ hwf hm, rfl, rfl, ?_, rfl, hl.moveBlock_entry _ _ _ _ hm⟩⟩
            rw [perm_sizes (hl.moveBlock_perm _ _ _ _ hm), shown_length _ _ hrows]
      | some fi =>
        cases hi2 : l.lines[t].instr with
        | none => exact ⟨_, rfl, Or.inl ⟨by simp, rfl, rfl⟩⟩
        | some ti =>
          simp only
          by_cases hne : fb ≠ tb
          · rw [if_pos hne]; exact ⟨_, rfl, Or.inl ⟨by simp, rfl, rfl⟩⟩
          · rw [if_neg hne]
            -- the block exists
            have hblk : ∃ b, c.blocks[fb]? = some b := by
              rcases mem_newLines hlf with ⟨h1, _⟩ | ⟨b, hb, h⟩
              · rw [hb1] at hfb; rw [h1] at hfb; cases hfb
              · refine ⟨b, ?_⟩
                have hidx : lf.block = some b.idx := by rcases h with ⟨h, _⟩ | ⟨_, _, h, _⟩ <;> exact h
                rw [hb1, hidx] at hfb
                rw [Option.some.inj hfb]; exact wf_getElem? c hwf b hb
            obtain ⟨b, hb⟩ := hblk
            have hk := getElem?_lt hb
            rw [if_neg (by omega)]
            cases hm : ops.moveIns c fb fi ti with
            | none => exact ⟨_, rfl, Or.inl ⟨by simp, rfl, rfl⟩⟩
            | some c' =>
              have hlen := hl.moveIns_length _ _ _ _ _ hm
              have hb' : c'.blocks[fb]? = some c'.blocks[fb] := List.getElem?_eq_getElem (by omega)
              have hset := set_of_agree c.blocks c'.blocks fb _ hlen hb' (hl.moveIns_other _ _ _ _ _ hm)
              obtain ⟨_, _, _, hperm⟩ := hl.moveIns_block _ _ _ _ _ hm b _ hb hb'
              have hil : (c'.blocks[fb]).ins.length = b.ins.length := by
                simpa using hperm.length_eq
              obtain ⟨l', h1, h2, h3, h4, h5⟩ := reload_spec l c c' fb b _ hrows hstarts hb hset hil
              simp only [h1]
              exact ⟨_, rfl, Or.inr ⟨rfl, hl.moveIns_wf _ _ _ _ _ hwf hm, h2, h3, h4, h5, hl.moveIns_entry _ _ _ _ _ hm⟩⟩

end Mltwist.Lemmas.Listing
