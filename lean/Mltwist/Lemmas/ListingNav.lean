import Mltwist.Lemmas.ListingStep
/-
The navigation commands of the disassembler mode (C31): `up`, `down`, `goto`, `find`, `entrypoint`.
-/
namespace Mltwist.Lemmas.Listing
open Mltwist.Listing Mltwist.Listing.Spec

/-- a navigation command keeps everything but the cursor -/
structure NavKeeps (st st' : St) : Prop where
  keeps : Keeps st st'
  lines : st'.lines = st.lines
  code : st'.code = st.code

theorem setCursor_lands (st : St) (hinv : Inv st) (v : Int) (e : Expect)
    (he : e = if 0 ≤ v ∧ v < st.lines.lines.length then .moved v.toNat else .failed) :
    NavKeeps st (setCursor st v).2 ∧
      Lands e ((setCursor st v).1 = .ok) st.cursor.value (setCursor st v).2.cursor.value := by
  obtain ⟨k, l, c, h⟩ := setCursor_spec st hinv v
  refine ⟨⟨k, l, c⟩, ?_⟩
  rcases h with ⟨h0, h1, hs, hv⟩ | ⟨hn, ⟨e', hs⟩, hst⟩
  · rw [he, if_pos ⟨h0, h1⟩]
    exact ⟨hs, by omega⟩
  · rw [he, if_neg hn]
    exact ⟨by rw [hs]; simp, by rw [hst]⟩

theorem wrap_small (x : Int) (h0 : -9223372036854775808 ≤ x) (h1 : x < 9223372036854775808) : wrap64 x = x := by
  unfold wrap64; omega
theorem wrap_big (x : Int) (h0 : 9223372036854775808 ≤ x) (h1 : x < 18446744073709551616) : wrap64 x < 0 := by
  unfold wrap64; omega

theorem down_arith (c n len : Nat) (hc : c < len) (hlen : len ≤ maxInt) (hn : n ≤ maxInt) :
    expectDown len c n =
      if 0 ≤ wrap64 ((c : Int) + n) ∧ wrap64 ((c : Int) + n) < len then .moved (wrap64 ((c : Int) + n)).toNat
      else .failed := by
  unfold maxInt at hlen hn
  unfold expectDown
  by_cases h : (c : Int) + n < 9223372036854775808
  · rw [wrap_small _ (by omega) h]
    by_cases h2 : c + n < len
    · rw [if_pos h2, if_pos (by omega)]; congr 1
    · rw [if_neg h2, if_neg (by omega)]
  · have hw := wrap_big ((c : Int) + n) (by omega) (by omega)
    rw [if_neg (by omega), if_neg (by omega)]

theorem up_arith (c n len : Nat) (hc : c < len) (hlen : len ≤ maxInt) (hn : n ≤ maxInt) :
    expectUp c n =
      if 0 ≤ wrap64 ((c : Int) + -(n : Int)) ∧ wrap64 ((c : Int) + -(n : Int)) < len then
        .moved (wrap64 ((c : Int) + -(n : Int))).toNat
      else .failed := by
  unfold maxInt at hlen hn
  unfold expectUp
  rw [wrap_small _ (by omega) (by omega)]
  by_cases h : n ≤ c
  · rw [if_pos h, if_pos (by omega)]; congr 1; omega
  · rw [if_neg h, if_neg (by omega)]

theorem nav_of_setCursor (ops : CodeOps) (st : St) (hinv : Inv st) (cmd : Cmd) (v : Int) (e : Expect)
    (hstep : step ops st cmd = some (setCursor st v))
    (he : e = if 0 ≤ v ∧ v < st.lines.lines.length then .moved v.toNat else .failed) :
    ∃ s st', step ops st cmd = some (s, st') ∧ NavKeeps st st' ∧
      Lands e (s = .ok) st.cursor.value st'.cursor.value := by
  obtain ⟨hk, hl⟩ := setCursor_lands st hinv v e he
  exact ⟨(setCursor st v).1, (setCursor st v).2, hstep, hk, hl⟩

theorem down_spec (ops : CodeOps) (st : St) (hinv : Inv st) (n : Nat) (hn : n ≤ maxInt)
    (hfit : st.lines.lines.length ≤ maxInt) :
    ∃ s st', step ops st (.down n) = some (s, st') ∧ NavKeeps st st' ∧
      Lands (expectDown st.lines.lines.length st.cursor.value n) (s = .ok) st.cursor.value st'.cursor.value :=
  nav_of_setCursor ops st hinv (.down n) _ _ rfl
    (down_arith _ _ _ (by have := hinv.curVal; have := hinv.curMax; omega) hfit hn)

theorem up_spec (ops : CodeOps) (st : St) (hinv : Inv st) (n : Nat) (hn : n ≤ maxInt)
    (hfit : st.lines.lines.length ≤ maxInt) :
    ∃ s st', step ops st (.up n) = some (s, st') ∧ NavKeeps st st' ∧
      Lands (expectUp st.cursor.value n) (s = .ok) st.cursor.value st'.cursor.value :=
  nav_of_setCursor ops st hinv (.up n) _ _ rfl
    (up_arith _ _ _ (by have := hinv.curVal; have := hinv.curMax; omega) hfit hn)

theorem goto_spec (ops : CodeOps) (st : St) (hinv : Inv st) (n : Nat) :
    ∃ s st', step ops st (.goto n) = some (s, st') ∧ NavKeeps st st' ∧
      Lands (expectGoto st.lines.lines.length n) (s = .ok) st.cursor.value st'.cursor.value := by
  refine ⟨(cmdGoto st n).1, (cmdGoto st n).2, rfl, ?_⟩
  unfold cmdGoto expectGoto
  by_cases h : n > st.lines.len
  · rw [if_pos h]
    simp only [Lines.len] at h
    rw [if_neg (by omega)]
    exact ⟨⟨⟨hinv, rfl, rfl⟩, rfl, rfl⟩, by simp, rfl⟩
  · rw [if_neg h]
    apply setCursor_lands st hinv
    by_cases h2 : n < st.lines.lines.length
    · rw [if_pos h2, if_pos (by omega)]; congr 1
    · rw [if_neg h2, if_neg (by omega)]

/-! ### `find` -/

theorem succ_mod_ne (len off k : Nat) (hoff : off < len) (hk : k + 1 < len) : (off + 1 + k) % len ≠ off := by
  by_cases h : off + 1 + k < len
  · rw [Nat.mod_eq_of_lt h]; omega
  · rw [Nat.mod_eq_sub_mod (by omega), Nat.mod_eq_of_lt (by omega)]; omega

theorem findLoop_spec (ms : List Bool) (len off : Nat) (hoff : off < len) (hms : ms.length = len) :
    ∀ (d k fuel : Nat), k + d + 1 = len → d + 1 ≤ fuel →
      findLoop ms len off fuel ((off + 1 + k) % len) =
        match ((List.range' k d).map (fun j => (off + 1 + j) % len)).find? (fun i => ms.getD i false) with
        | some i => .found i
        | none => .notFound := by
  intro d
  induction d with
  | zero =>
    intro k fuel hk hf
    obtain ⟨f, rfl⟩ : ∃ f, fuel = f + 1 := ⟨fuel - 1, by omega⟩
    have : (off + 1 + k) % len = off := by
      have : off + 1 + k = off + len := by omega
      rw [this, Nat.add_mod_right, Nat.mod_eq_of_lt hoff]
    simp [findLoop, this]
  | succ d ih =>
    intro k fuel hk hf
    obtain ⟨f, rfl⟩ : ∃ f, fuel = f + 1 := ⟨fuel - 1, by omega⟩
    have hne := succ_mod_ne len off k hoff (by omega)
    have hlt : (off + 1 + k) % len < ms.length := by rw [hms]; exact Nat.mod_lt _ (by omega)
    have hget : ms[(off + 1 + k) % len]? = some (ms.getD ((off + 1 + k) % len) false) := by
      rw [List.getD_eq_getElem?_getD, List.getElem?_eq_getElem hlt]; simp
    simp only [findLoop, if_neg hne, hget, List.range'_succ, List.map_cons, List.find?_cons]
    cases hb : ms.getD ((off + 1 + k) % len) false with
    | true => simp
    | false =>
      simp only
      rw [Nat.mod_add_mod]
      have := ih (k + 1) f (by omega) (by omega)
      rw [show off + 1 + (k + 1) = off + 1 + k + 1 by omega] at this
      rw [this]

theorem find_spec (ops : CodeOps) (st : St) (hinv : Inv st) (ms : Option (List Bool))
    (hms : ∀ v, ms = some v → v.length = st.lines.lines.length) :
    ∃ s st', step ops st (.find ms) = some (s, st') ∧ NavKeeps st st' ∧
      Lands (expectFind ms st.lines.lines.length st.cursor.value) (s = .ok) st.cursor.value st'.cursor.value := by
  cases ms with
  | none => exact ⟨_, _, rfl, ⟨⟨hinv, rfl, rfl⟩, rfl, rfl⟩, by simp [expectFind, Lands]⟩
  | some v =>
    have hv := hms v rfl
    have hc := hinv.curVal
    have hm := hinv.curMax
    have hpos : st.lines.lines.length ≠ 0 := by omega
    simp only [step, cmdFind, Lines.len, if_neg hpos, findStart, if_true, expectFind, cyclicAfter]
    have := findLoop_spec v st.lines.lines.length st.cursor.value (by omega) hv
      (st.lines.lines.length - 1) 0 (st.lines.lines.length + 1) (by omega) (by omega)
    rw [Nat.add_zero] at this
    rw [this, List.range_eq_range']
    cases hf : List.find? (fun i => v.getD i false)
        (List.map (fun j => (st.cursor.value + 1 + j) % st.lines.lines.length)
          (List.range' 0 (st.lines.lines.length - 1))) with
    | none => exact ⟨_, _, rfl, ⟨⟨hinv, rfl, rfl⟩, rfl, rfl⟩, by simp [Lands]⟩
    | some i =>
      refine ⟨_, _, rfl, ?_⟩
      apply setCursor_lands st hinv
      have hmem := List.mem_of_find?_eq_some hf
      simp only [List.mem_map] at hmem
      obtain ⟨j, _, hj⟩ := hmem
      have : i < st.lines.lines.length := by rw [← hj]; exact Nat.mod_lt _ (by omega)
      rw [if_pos (by omega)]; simp

/-! ### `entrypoint` -/

theorem mem_insertByBegin (b x : Block) (l : List Block) : x ∈ insertByBegin b l ↔ x = b ∨ x ∈ l := by
  induction l with
  | nil => simp [insertByBegin]
  | cons c cs ih =>
    simp only [insertByBegin]
    split
    · simp
    · simp only [List.mem_cons, ih]
      constructor <;> (intro h; rcases h with h | h | h <;> simp [h])

theorem mem_sortByBegin (x : Block) (l : List Block) : x ∈ sortByBegin l ↔ x ∈ l := by
  induction l with
  | nil => simp [sortByBegin]
  | cons b bs ih => simp [sortByBegin, mem_insertByBegin, ih]

theorem code_address_mem (c : Code) (a : Nat) (b : Block) (h : c.address a = some b) : b ∈ c.blocks := by
  unfold Code.address at h
  split at h
  · cases h
  · next b' hb' =>
    split at h
    · cases h
    · cases h; exact (mem_sortByBegin _ _).mp (List.mem_of_find?_eq_some hb')

theorem block_address_mem (b : Block) (a : Nat) (x : Ins) (h : b.address a = some x) : x ∈ b.ins ∧ x.addr = a := by
  unfold Block.address at h
  split at h
  · cases h
  · next x' hx' =>
    split at h
    · cases h
    · next hne =>
      cases h
      exact ⟨List.mem_of_find?_eq_some hx', by simpa using hne⟩

/-- what `entrypoint` reports as success is the row of an instruction at the entry address -/
def AtEntry (c : Code) (line : Nat) : Prop :=
  ∃ (k j : Nat) (b : Block) (x : Ins), c.blocks[k]? = some b ∧ b.ins[j]? = some x ∧ x.addr = c.entry ∧
    line = lineOf c k j

theorem entry_sound (ops : CodeOps) (st : St) (hinv : Inv st) :
    ∃ s st', step ops st .entrypoint = some (s, st') ∧ NavKeeps st st' ∧
      ((s = .ok ∧ AtEntry st.code st'.cursor.value ∧
          (∃ b x, st.code.address st.code.entry = some b ∧ b.address st.code.entry = some x)) ∨
       (s ≠ .ok ∧ st' = st ∧
          ¬ ∃ b x, st.code.address st.code.entry = some b ∧ b.address st.code.entry = some x)) := by
  simp only [step, cmdEntrypoint]
  cases hb : st.code.address st.code.entry with
  | none => exact ⟨_, _, rfl, ⟨⟨hinv, rfl, rfl⟩, rfl, rfl⟩, Or.inr ⟨by simp, rfl, by simp⟩⟩
  | some b =>
    simp only
    cases hx : b.address st.code.entry with
    | none => exact ⟨_, _, rfl, ⟨⟨hinv, rfl, rfl⟩, rfl, rfl⟩, Or.inr ⟨by simp, rfl, by simp [hx]⟩⟩
    | some x =>
      simp only
      have hbm := code_address_mem _ _ _ hb
      obtain ⟨hxm, hxa⟩ := block_address_mem _ _ _ hx
      have hbget := wf_getElem? st.code hinv.wf b hbm
      have hxget := wf_ins_getElem? st.code hinv.wf b hbm x hxm
      obtain ⟨s, hs, hroom⟩ := start_bound st.code b.idx b hbget
      have hst : st.lines.blockStarts[b.idx]? = some s := by rw [hinv.starts]; exact hs
      have hline : s + 1 + x.idx = lineOf st.code b.idx x.idx := by
        have := line_newLines st.code b.idx b hbget rfl x.idx
        simp only [Lines.line, hs] at this
        exact Option.some.inj this
      have hxlt : x.idx < b.ins.length := getElem?_lt hxget
      have hlen : (newLines st.code).lines.length = st.lines.lines.length := (shown_length _ _ hinv.rows).symm
      simp only [Lines.line, hst]
      obtain ⟨k, l, c, h⟩ := setCursor_spec st hinv ((s + 1 + x.idx : Nat) : Int)
      refine ⟨_, _, rfl, ⟨k, l, c⟩, Or.inl ⟨rfl, ?_, ⟨b, x, rfl, hx⟩⟩⟩
      rcases h with ⟨_, _, _, hv⟩ | ⟨hn, _, _⟩
      · refine ⟨b.idx, x.idx, b, x, hbget, hxget, hxa, ?_⟩
        rw [← hline]; omega
      · exfalso; apply hn; omega

end Mltwist.Lemmas.Listing
