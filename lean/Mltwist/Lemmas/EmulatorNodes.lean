import Mltwist.Lemmas.EmulatorDom
/-
Emulator (C03), part 17: the memory-load nodes of a constant-folded expression come from load nodes of the
original expression with the same key, the same width and an address of the same value (folding may drop
nodes — a conditional whose condition folds — but never invents or moves one).
-/
namespace Mltwist.Lemmas.Emulator
open Mltwist Mltwist.Lemmas.Transform

/-- every load node of `e'` corresponds to a load node of `e`: same key, same width, equal address value -/
def NodesSub (e' e : Expr) : Prop :=
  ∀ n ∈ memNodes e', ∃ n' ∈ memNodes e, n'.1 = n.1 ∧ n'.2.2 = n.2.2 ∧ ∀ ρ, n'.2.1.eval ρ = n.2.1.eval ρ

theorem NodesSub.refl (e : Expr) : NodesSub e e := fun n hn => ⟨n, hn, rfl, rfl, fun _ => rfl⟩

theorem NodesSub.trans {a b c : Expr} (h1 : NodesSub a b) (h2 : NodesSub b c) : NodesSub a c := by
  intro n hn
  obtain ⟨n1, g1, g2, g3, g4⟩ := h1 n hn
  obtain ⟨n2, k1, k2, k3, k4⟩ := h2 n1 g1
  exact ⟨n2, k1, k2.trans g2, k3.trans g3, fun ρ => (k4 ρ).trans (g4 ρ)⟩

theorem NodesSub.of_nil {e' e : Expr} (h : memNodes e' = []) : NodesSub e' e := by
  intro n hn; rw [h] at hn; cases hn

/-- nodes of a sub-list of the nodes -/
theorem NodesSub.of_subset {e' e : Expr} (h : ∀ n ∈ memNodes e', n ∈ memNodes e) : NodesSub e' e :=
  fun n hn => ⟨n, h n hn, rfl, rfl, fun _ => rfl⟩

theorem nodesSub_binary {a a' b b' : Expr} (op : BinOp) (w : Nat) (ha : NodesSub a' a) (hb : NodesSub b' b) :
    NodesSub (.binary op a' b' w) (.binary op a b w) := by
  intro n hn
  simp only [memNodes, List.mem_append] at hn
  rcases hn with h | h
  · obtain ⟨n', g1, g2⟩ := ha n h
    exact ⟨n', by simp [memNodes, g1], g2⟩
  · obtain ⟨n', g1, g2⟩ := hb n h
    exact ⟨n', by simp [memNodes, g1], g2⟩

theorem nodesSub_less {a a' b b' t t' f f' : Expr} (w : Nat) (ha : NodesSub a' a) (hb : NodesSub b' b)
    (ht : NodesSub t' t) (hf : NodesSub f' f) : NodesSub (.less a' b' t' f' w) (.less a b t f w) := by
  intro n hn
  simp only [memNodes, List.mem_append] at hn
  rcases hn with ((h | h) | h) | h
  · obtain ⟨n', g1, g2⟩ := ha n h
    exact ⟨n', by simp [memNodes, g1], g2⟩
  · obtain ⟨n', g1, g2⟩ := hb n h
    exact ⟨n', by simp [memNodes, g1], g2⟩
  · obtain ⟨n', g1, g2⟩ := ht n h
    exact ⟨n', by simp [memNodes, g1], g2⟩
  · obtain ⟨n', g1, g2⟩ := hf n h
    exact ⟨n', by simp [memNodes, g1], g2⟩

theorem nodesSub_memLoad {a a' : Expr} (k : String) (w : Nat) (ha : NodesSub a' a)
    (hv : ∀ ρ, a.eval ρ = a'.eval ρ) : NodesSub (.memLoad k a' w) (.memLoad k a w) := by
  intro n hn
  simp only [memNodes, List.mem_cons] at hn
  rcases hn with rfl | h
  · exact ⟨(k, a, w), by simp [memNodes], rfl, rfl, hv⟩
  · obtain ⟨n', g1, g2⟩ := ha n h
    exact ⟨n', by simp [memNodes, g1], g2⟩

theorem memNodes_setWidth (e : Expr) (w : Nat) : memNodes (setWidth e w) = memNodes e := by
  unfold setWidth
  split
  · rfl
  · cases e with
    | const bs => rfl
    | regLoad k we => simp only; split <;> simp [newWidthGadget, memNodes, Expr.zero]
    | memLoad k a we => simp [newWidthGadget, memNodes, Expr.zero]
    | binary op a b we => simp [newWidthGadget, memNodes, Expr.zero]
    | less a b t f we => simp [newWidthGadget, memNodes, Expr.zero]

theorem nodesSub_cfr : ∀ e : Expr, e.wf = true → NodesSub (constFoldRaw e) e
  | .const bs, _ => by rw [cfr_const]; exact NodesSub.refl _
  | .regLoad k w, _ => by rw [cfr_regLoad]; exact NodesSub.refl _
  | .memLoad k a w, h => by
    rw [wf_memLoad_iff] at h
    rw [cfr_memLoad]
    exact nodesSub_memLoad k w (nodesSub_cfr a h.2) (fun ρ => (cfr_eval ρ a h.2).symm)
  | .binary op a b w, h => by
    rw [wf_binary_iff] at h
    rcases cfr_binary_cases op a b w with ⟨c1, c2, _, _, hh⟩ | ⟨_, hh⟩
    · rw [hh]; exact NodesSub.of_nil rfl
    · rw [hh]; exact nodesSub_binary op w (nodesSub_cfr a h.2.1) (nodesSub_cfr b h.2.2)
  | .less a b t f w, h => by
    rw [wf_less_iff] at h
    rcases cfr_less_cases a b t f w with ⟨c1, c2, _, _, hh⟩ | ⟨_, hh⟩
    · rw [hh]
      intro n hn
      rw [memNodes_setWidth] at hn
      split at hn
      · obtain ⟨n', g1, g2⟩ := nodesSub_cfr t h.2.2.2.1 n hn
        exact ⟨n', by simp [memNodes, g1], g2⟩
      · obtain ⟨n', g1, g2⟩ := nodesSub_cfr f h.2.2.2.2 n hn
        exact ⟨n', by simp [memNodes, g1], g2⟩
    · rw [hh]
      exact nodesSub_less w (nodesSub_cfr a h.2.1) (nodesSub_cfr b h.2.2.1) (nodesSub_cfr t h.2.2.2.1)
        (nodesSub_cfr f h.2.2.2.2)

theorem nodesSub_prune (e : Expr) (w : Nat) : NodesSub (prune e w) e := by
  induction e with
  | binary op a b x iha ihb =>
    rw [prune_binary]
    split
    · intro n hn
      obtain ⟨n', g1, g2⟩ := iha n hn
      exact ⟨n', by simp [memNodes, g1], g2⟩
    · exact NodesSub.refl _
  | _ => simp only [prune]; exact NodesSub.refl _

theorem nodesSub_stripSame (e : Expr) : NodesSub (stripSame e) e := by
  induction e with
  | binary op a b x iha ihb =>
    rw [stripSame_binary]
    split
    · intro n hn
      obtain ⟨n', g1, g2⟩ := iha n hn
      exact ⟨n', by simp [memNodes, g1], g2⟩
    · exact NodesSub.refl _
  | _ => simp only [stripSame]; exact NodesSub.refl _

theorem nodesSub_purge : ∀ e : Expr, NodesSub (purge e) e
  | .const bs => by simp only [purge]; exact NodesSub.refl _
  | .regLoad k w => by simp only [purge]; exact NodesSub.refl _
  | .memLoad k a w => by
    simp only [purge]
    exact nodesSub_memLoad k w ((nodesSub_stripSame _).trans (nodesSub_purge a))
      (fun ρ => by rw [stripSame_eval, purge_eval'])
  | .binary op a b w => by
    simp only [purge]
    exact nodesSub_binary op w ((nodesSub_prune _ _).trans (nodesSub_purge a))
      ((nodesSub_prune _ _).trans (nodesSub_purge b))
  | .less a b t f w => by
    simp only [purge]
    exact nodesSub_less w ((nodesSub_prune _ _).trans (nodesSub_purge a))
      ((nodesSub_prune _ _).trans (nodesSub_purge b)) ((nodesSub_prune _ _).trans (nodesSub_purge t))
      ((nodesSub_prune _ _).trans (nodesSub_purge f))

/-- the load nodes of `ConstFold(e)` come from load nodes of `e` -/
theorem nodesSub_constFold (e : Expr) (h : e.wf = true) : NodesSub (constFold e) e := by
  unfold constFold purgeWidthGadgets
  exact ((nodesSub_stripSame _).trans (nodesSub_purge _)).trans (nodesSub_cfr e h)

/-- a property of (key, address value, width) that holds for all load nodes of `e` holds for all load
nodes of `ConstFold(e)` -/
theorem loadsDom_constFold {ρ : Env} {e : Expr} (hw : e.wf = true) (h : LoadsDom ρ e) : LoadsDom ρ (constFold e) := by
  intro n hn
  obtain ⟨n', g1, _, g3, g4⟩ := nodesSub_constFold e hw n hn
  rw [← g3, ← g4 ρ]
  exact h n' g1

end Mltwist.Lemmas.Emulator
