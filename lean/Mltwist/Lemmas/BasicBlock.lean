import Mltwist.Lemmas.BasicBlockSplit
/-
C08: the behaviour of `Parse` on well-formed code, absence of panics, and the
characterisation of `groups` as the unique partition with given cuts.
-/
namespace Mltwist.Lemmas.BasicBlock
open Mltwist Mltwist.BasicBlock Mltwist.BasicBlock.Spec

/-! ### iterated splitting -/

theorem splitAtJumps_eq (es : List Expr) (bs : List Block) :
    splitAtJumps es bs = (es.filterMap constTarget).foldlM blocksSplit bs := by
  induction es generalizing bs with
  | nil => rfl
  | cons e es ih =>
    simp only [splitAtJumps, List.filterMap_cons]
    cases constTarget e with
    | none => exact ih bs
    | some a =>
      simp only [List.foldlM_cons, bind, Except.bind]
      cases blocksSplit bs a with
      | error e => rfl
      | ok bs' => exact ih bs'

/-- the constant 64-bit jump targets, in the order `splitByJumpTargets` visits them -/
def targetsOf (l : List Ins) : List Nat := l.flatMap fun i => i.jumps.filterMap constTarget

theorem foldlM_splitAtJumps (l : List Ins) (bs : List Block) :
    l.foldlM (fun bs ins => splitAtJumps ins.jumps bs) bs = (targetsOf l).foldlM blocksSplit bs := by
  induction l generalizing bs with
  | nil => rfl
  | cons i l ih =>
    simp only [List.foldlM_cons, targetsOf, List.flatMap_cons, List.foldlM_append, splitAtJumps_eq]
    simp only [bind, Except.bind]
    cases (i.jumps.filterMap constTarget).foldlM blocksSplit bs with
    | error e => rfl
    | ok bs' =>
      have := ih bs'
      simp only [splitAtJumps_eq, targetsOf] at this
      exact this

theorem splitByJumpTargets_eq (orig : List Block) :
    splitByJumpTargets orig = (targetsOf (orig.flatMap (·.seq))).foldlM blocksSplit orig :=
  foldlM_splitAtJumps _ _

theorem ginv_groups (cut : Ins → Ins → Bool) (hc : CutsGaps cut) (l : List Ins) (hl : SortedWF l) :
    GInv (groups cut l) :=
  ⟨by rw [groups_flatten]; exact hl, groups_ne_nil cut l, groups_contig cut hc l⟩

/-- iterated `blocks.split` over a list of addresses, on well-formed code -/
theorem foldlM_blocksSplit (l : List Ins) (hl : SortedWF l) (ts : List Nat) (cut : Ins → Ins → Bool)
    (hc : CutsGaps cut) :
    ((∀ t ∈ ts, t ∈ l.map (·.addr)) →
      ts.foldlM blocksSplit ((groups cut l).map newBlock) =
        .ok ((groups (fun a b => cut a b || ts.contains b.addr) l).map newBlock)) ∧
    ((∃ t ∈ ts, t ∉ l.map (·.addr)) →
      ∃ c, ts.foldlM blocksSplit ((groups cut l).map newBlock) = .error (.err c)) := by
  induction ts generalizing cut with
  | nil =>
    constructor
    · intro _
      have : (fun a b => cut a b || ([] : List Nat).contains b.addr) = cut := by
        funext a b; simp
      rw [this]; rfl
    · rintro ⟨t, ht, _⟩; cases ht
  | cons t ts ih =>
    obtain ⟨hok, herr⟩ := blocksSplit_groups (groups cut l) (ginv_groups cut hc l hl) t
    rw [groups_flatten] at hok herr
    simp only [List.foldlM_cons, bind, Except.bind]
    by_cases ht : t ∈ l.map (·.addr)
    · rw [hok ht, groups_flatMap_groups]
      have hc' : CutsGaps (fun a b => cut a b || atAddr t a b) := by
        intro a b hab; simp [hc a b hab]
      obtain ⟨ih1, ih2⟩ := ih (fun a b => cut a b || atAddr t a b) hc'
      constructor
      · intro hall
        simp only
        rw [ih1 (fun t' ht' => hall t' (List.mem_cons_of_mem _ ht'))]
        have : (fun a b => (cut a b || atAddr t a b) || ts.contains b.addr) =
            (fun a b => cut a b || (t :: ts).contains b.addr) := by
          funext a b
          simp only [atAddr, List.contains_cons, Bool.or_assoc]
        rw [this]
      · rintro ⟨t', ht', hn⟩
        rcases List.mem_cons.1 ht' with rfl | ht'
        · exact absurd ht hn
        · exact ih2 ⟨t', ht', hn⟩
    · obtain ⟨c, hcE⟩ := herr ht
      rw [hcE]
      constructor
      · intro hall
        exact absurd (hall t (List.mem_cons_self ..)) ht
      · intro _
        exact ⟨c, rfl⟩

/-- iterated `blocks.split` never panics and keeps all blocks non-empty -/
theorem foldlM_blocksSplit_nopanic (ts : List Nat) (bs : List Block) (hne : ∀ b ∈ bs, b.seq ≠ []) :
    ts.foldlM blocksSplit bs ≠ .error .panic ∧
    ∀ bs', ts.foldlM blocksSplit bs = .ok bs' → ∀ b ∈ bs', b.seq ≠ [] := by
  induction ts generalizing bs with
  | nil =>
    refine ⟨(by intro h; cases h), ?_⟩
    intro bs' h
    cases h
    exact hne
  | cons t ts ih =>
    obtain ⟨h1, h2⟩ := blocksSplit_nopanic bs hne t
    simp only [List.foldlM_cons, bind, Except.bind]
    cases hs : blocksSplit bs t with
    | error e =>
      refine ⟨?_, by intro bs' h; cases h⟩
      intro he
      cases he
      exact h1 hs
    | ok bs1 => exact ih bs1 (h2 bs1 hs)


/-! ### from `WF` to the sorted list -/

theorem sortedWF_sortIns (ins : List Ins) (h : WF ins) : SortedWF (sortIns ins) := by
  have hp := sortIns_perm ins
  have hs := sortIns_sorted ins
  constructor
  · intro i hi
    exact h.1 i (hp.mem_iff.1 hi)
  · have h2 : (sortIns ins).Pairwise fun a b => a.addr + a.len ≤ b.addr ∨ b.addr + b.len ≤ a.addr :=
      (hp.pairwise_iff (fun {x y} hxy => hxy.symm)).2 h.2
    refine List.Pairwise.imp_of_mem ?_ (hs.and h2)
    intro a b ha hb hab
    have := (h.1 b (hp.mem_iff.1 hb)).1
    omega

theorem sortIns_eq_sortByAddr (ins : List Ins) (h : WF ins) : sortIns ins = sortByAddr ins := by
  have h1 := (sortedWF_sortIns ins h).addr_lt
  have hle : (sortByAddr ins).Pairwise fun a b => (decide (a.addr ≤ b.addr) : Bool) = true :=
    List.pairwise_mergeSort (le := fun a b => decide (a.addr ≤ b.addr))
      (fun a b c hab hbc => by simp only [decide_eq_true_eq] at *; omega)
      (fun a b => by simp only [Bool.or_eq_true, decide_eq_true_eq]; omega) ins
  have hperm : (sortByAddr ins).Perm ins := List.mergeSort_perm ins _
  -- the merge-sorted list is strictly sorted as well, because the addresses are distinct
  have hnd : (sortByAddr ins).Pairwise fun a b => a.addr ≠ b.addr := by
    have : (sortIns ins).Pairwise fun a b => a.addr ≠ b.addr :=
      h1.imp (fun hab => by omega)
    exact ((hperm.trans (sortIns_perm ins).symm).pairwise_iff (fun {x y} hxy => Ne.symm hxy)).2 this
  have h2 : (sortByAddr ins).Pairwise fun a b => a.addr < b.addr := by
    refine (hle.and hnd).imp ?_
    intro a b hab
    have := hab.1
    simp only [decide_eq_true_eq] at this
    have := hab.2
    omega
  exact List.Perm.eq_of_pairwise (le := fun a b => a.addr < b.addr)
    (fun a b _ _ hab hba => by omega) h1 h2 ((sortIns_perm ins).trans hperm.symm)

theorem mem_targetsOf_sortIns (ins : List Ins) (t : Nat) :
    t ∈ targetsOf (sortIns ins) ↔ t ∈ constTargets ins := by
  simp only [targetsOf, constTargets, List.mem_flatMap]
  have : constTarget = constAddr := funext constTarget_eq
  rw [this]
  constructor
  · rintro ⟨i, hi, ht⟩; exact ⟨i, (sortIns_perm ins).mem_iff.1 hi, ht⟩
  · rintro ⟨i, hi, ht⟩; exact ⟨i, (sortIns_perm ins).mem_iff.2 hi, ht⟩

theorem mem_starts_sortIns (ins : List Ins) (a : Nat) :
    a ∈ (sortIns ins).map (·.addr) ↔ a ∈ starts ins := by
  simp only [starts, List.mem_map]
  constructor
  · rintro ⟨i, hi, ht⟩; exact ⟨i, (sortIns_perm ins).mem_iff.1 hi, ht⟩
  · rintro ⟨i, hi, ht⟩; exact ⟨i, (sortIns_perm ins).mem_iff.2 hi, ht⟩

/-- the cut relation the implementation ends up with -/
def cutF (entry : Nat) (l : List Ins) : Ins → Ins → Bool :=
  fun a b => (cut0 a b || (targetsOf l).contains b.addr) || atAddr entry a b

theorem cutF_eq (entry : Nat) (ins : List Ins) :
    cutF entry (sortIns ins) = fun a b => decide (Cut entry ins a b) := by
  funext a b
  have hm := mem_targetsOf_sortIns ins b.addr
  simp only [cutF, cut0, gapB, jmpB, atAddr, Cut, Ins.end_, M]
  by_cases h1 : a.jumps = []
  · by_cases h2 : (a.addr + a.len) % 2 ^ 64 = b.addr
    · by_cases h3 : b.addr ∈ constTargets ins
      · have := hm.2 h3
        simp [h1, h2, h3, this]
      · have : ¬ b.addr ∈ targetsOf (sortIns ins) := fun h => h3 (hm.1 h)
        by_cases h4 : b.addr = entry <;> simp [h1, h2, h3, this, h4]
    · simp [h1, h2]
  · have : a.jumps.length > 0 := List.length_pos_iff.2 h1
    simp [h1, this]

theorem cutsGaps_cut0 : CutsGaps cut0 := by
  intro a b h
  simp [cut0, gapB, h]

theorem map_seq_map_newBlock (gs : List (List Ins)) : (gs.map newBlock).map (·.seq) = gs := by
  induction gs with
  | nil => rfl
  | cons g gs ih => simp only [List.map_cons, ih]; rfl

theorem flatMap_seq_map_newBlock (gs : List (List Ins)) :
    (gs.map newBlock).flatMap (·.seq) = gs.flatten := by
  induction gs with
  | nil => rfl
  | cons g gs ih => simp [newBlock, ih]

/-- `Parse` written with the iterated split -/
theorem parse_unfold (entry : Nat) (ins : List Ins) :
    parse entry ins =
      match (targetsOf (sortIns ins)).foldlM blocksSplit ((groups cut0 (sortIns ins)).map newBlock) with
      | .error .panic => .error .panic
      | .error (.err c) => .error (.jumpTarget c)
      | .ok bs =>
        match blocksSplit bs entry with
        | .error .panic => .error .panic
        | .error (.err c) => .error (.entry c)
        | .ok bs' => .ok (bs'.map (·.seq)) := by
  simp only [parse, pipeline_eq, splitByJumpTargets_eq, flatMap_seq_map_newBlock, groups_flatten,
    bind, Except.bind, pure, Except.pure]
  cases (targetsOf (sortIns ins)).foldlM blocksSplit ((groups cut0 (sortIns ins)).map newBlock) with
  | error e => cases e <;> rfl
  | ok bs =>
    simp only [liftStage]
    cases blocksSplit bs entry with
    | error e => cases e <;> rfl
    | ok bs' => rfl

/-- the behaviour of `Parse` on well-formed code -/
theorem parse_wf (entry : Nat) (ins : List Ins) (h : WF ins) :
    ((∃ t ∈ constTargets ins, t ∉ starts ins) → ∃ c, parse entry ins = .error (.jumpTarget c)) ∧
    ((∀ t ∈ constTargets ins, t ∈ starts ins) → entry ∉ starts ins →
      ∃ c, parse entry ins = .error (.entry c)) ∧
    ((∀ t ∈ constTargets ins, t ∈ starts ins) → entry ∈ starts ins →
      parse entry ins = .ok (blocks entry ins)) := by
  have hl := sortedWF_sortIns ins h
  obtain ⟨hok, herr⟩ := foldlM_blocksSplit (sortIns ins) hl (targetsOf (sortIns ins)) cut0 cutsGaps_cut0
  rw [parse_unfold]
  refine ⟨?_, ?_, ?_⟩
  · rintro ⟨t, ht, hn⟩
    obtain ⟨c, hc⟩ := herr ⟨t, (mem_targetsOf_sortIns ins t).2 ht,
      fun hm => hn ((mem_starts_sortIns ins t).1 hm)⟩
    exact ⟨c, by rw [hc]⟩
  · intro hall hentry
    rw [hok (fun t ht => (mem_starts_sortIns ins t).2 (hall t ((mem_targetsOf_sortIns ins t).1 ht)))]
    simp only
    have hc1 : CutsGaps (fun a b => cut0 a b || (targetsOf (sortIns ins)).contains b.addr) := by
      intro a b hab; simp [cutsGaps_cut0 a b hab]
    obtain ⟨_, he⟩ := blocksSplit_groups _ (ginv_groups _ hc1 (sortIns ins) hl) entry
    rw [groups_flatten] at he
    obtain ⟨c, hc⟩ := he (fun hm => hentry ((mem_starts_sortIns ins entry).1 hm))
    exact ⟨c, by rw [hc]⟩
  · intro hall hentry
    rw [hok (fun t ht => (mem_starts_sortIns ins t).2 (hall t ((mem_targetsOf_sortIns ins t).1 ht)))]
    simp only
    have hc1 : CutsGaps (fun a b => cut0 a b || (targetsOf (sortIns ins)).contains b.addr) := by
      intro a b hab; simp [cutsGaps_cut0 a b hab]
    obtain ⟨ho, _⟩ := blocksSplit_groups _ (ginv_groups _ hc1 (sortIns ins) hl) entry
    rw [groups_flatten] at ho
    rw [ho ((mem_starts_sortIns ins entry).2 hentry), groups_flatMap_groups]
    simp only [map_seq_map_newBlock]
    have : (fun a b => (cut0 a b || (targetsOf (sortIns ins)).contains b.addr) || atAddr entry a b) =
        fun a b => decide (Cut entry ins a b) := cutF_eq entry ins
    rw [this, blocks, ← sortIns_eq_sortByAddr ins h]

/-- `Parse` never panics, whatever the instructions are -/
theorem parse_nopanic (entry : Nat) (ins : List Ins) :
    parse entry ins ≠ .error .panic ∧ ∀ bs, parse entry ins = .ok bs → ∀ b ∈ bs, b ≠ [] := by
  have hne0 : ∀ b ∈ (groups cut0 (sortIns ins)).map newBlock, b.seq ≠ [] := by
    intro b hb
    obtain ⟨g, hg, rfl⟩ := List.mem_map.1 hb
    exact groups_ne_nil cut0 _ g hg
  obtain ⟨h1, h2⟩ := foldlM_blocksSplit_nopanic (targetsOf (sortIns ins)) _ hne0
  rw [parse_unfold]
  cases hs : (targetsOf (sortIns ins)).foldlM blocksSplit ((groups cut0 (sortIns ins)).map newBlock) with
  | error e =>
    cases e with
    | panic => exact absurd hs h1
    | err c => exact ⟨(by intro h; cases h), (by intro bs h; cases h)⟩
  | ok bs =>
    simp only
    obtain ⟨h3, h4⟩ := blocksSplit_nopanic bs (h2 bs hs) entry
    cases hs2 : blocksSplit bs entry with
    | error e =>
      cases e with
      | panic => exact absurd hs2 h3
      | err c => exact ⟨(by intro h; cases h), (by intro bs h; cases h)⟩
    | ok bs' =>
      refine ⟨(by intro h; cases h), ?_⟩
      intro bs'' h
      simp only [Except.ok.injEq] at h
      subst h
      intro b hb
      obtain ⟨b', hb', rfl⟩ := List.mem_map.1 hb
      exact h4 bs' hs2 b' hb'


/-! ### `groups` is the partition with exactly the cuts of `cut` -/

theorem boundaryAt_cons (g : List Ins) (gs : List (List Ins)) (n : Nat) :
    BoundaryAt (g :: gs) n ↔ n = 0 ∨ ∃ n', n = g.length + n' ∧ BoundaryAt gs n' := by
  constructor
  · rintro ⟨m, hm⟩
    cases m with
    | zero => left; simpa using hm.symm
    | succ m =>
      right
      simp only [List.take_succ_cons, List.map_cons, List.sum_cons] at hm
      exact ⟨_, hm.symm, m, rfl⟩
  · rintro (rfl | ⟨n', rfl, m, hm⟩)
    · exact ⟨0, rfl⟩
    · exact ⟨m + 1, by simp only [List.take_succ_cons, List.map_cons, List.sum_cons, hm]⟩

theorem groups_boundary (cut : Ins → Ins → Bool) (l : List Ins) (k : Nat) (a b : Ins)
    (ha : l[k]? = some a) (hb : l[k + 1]? = some b) :
    BoundaryAt (groups cut l) (k + 1) ↔ cut a b = true := by
  induction l generalizing k with
  | nil => simp at ha
  | cons a0 rest ih =>
    cases rest with
    | nil => simp at hb
    | cons b0 rest =>
      obtain ⟨g, gs, hG⟩ := groups_cons_head cut b0 rest
      by_cases hc : cut a0 b0 = true
      · have e : groups cut (a0 :: b0 :: rest) = [a0] :: groups cut (b0 :: rest) := by
          simp [groups, hc]
        rw [e, boundaryAt_cons]
        simp only [List.length_cons, List.length_nil]
        cases k with
        | zero =>
          simp only [List.getElem?_cons_zero, List.getElem?_cons_succ, Option.some.injEq] at ha hb
          subst ha hb
          simp only [hc, iff_true]
          right
          exact ⟨0, by omega, 0, rfl⟩
        | succ k =>
          have := ih k (by simpa using ha) (by simpa using hb)
          rw [← this]
          constructor
          · rintro (h | ⟨n', hn, hB⟩)
            · omega
            · have : n' = k + 1 := by omega
              subst this; exact hB
          · intro hB
            exact Or.inr ⟨k + 1, by omega, hB⟩
      · have e : groups cut (a0 :: b0 :: rest) = (a0 :: b0 :: g) :: gs := by
          simp [groups, hc, hG]
        rw [e, boundaryAt_cons]
        simp only [List.length_cons]
        cases k with
        | zero =>
          simp only [List.getElem?_cons_zero, List.getElem?_cons_succ, Option.some.injEq] at ha hb
          subst ha hb
          simp only [hc]
          constructor
          · rintro (h | ⟨n', hn, _⟩) <;> omega
          · intro h; cases h
        | succ k =>
          have := ih k (by simpa using ha) (by simpa using hb)
          rw [← this, hG, boundaryAt_cons]
          simp only [List.length_cons]
          constructor
          · rintro (h | ⟨n', hn, hB⟩)
            · omega
            · exact Or.inr ⟨n', by omega, hB⟩
          · rintro (h | ⟨n', hn, hB⟩)
            · omega
            · exact Or.inr ⟨n', by omega, hB⟩

theorem groups_isPartition (cut : Ins → Ins → Bool) (l : List Ins) :
    IsPartition (fun a b => cut a b = true) l (groups cut l) :=
  ⟨groups_flatten cut l, groups_ne_nil cut l, fun k a b ha hb => groups_boundary cut l k a b ha hb⟩

theorem contiguous_of_contig (g : List Ins) (hc : Contig g) (hw : SortedWF g) : Contiguous g := by
  induction g with
  | nil => trivial
  | cons a rest ih =>
    cases rest with
    | nil => trivial
    | cons b rest =>
      have hab : a.addr + a.len ≤ b.addr := (List.pairwise_cons.1 hw.2).1 b (List.mem_cons_self ..)
      have hb := hw.1 b (by simp)
      have he : a.end_ = b.addr := hc.1
      refine ⟨?_, ih hc.2 hw.tail⟩
      unfold Ins.end_ M at he; unfold M at hb; omega


theorem boundaryAt_le (bs : List (List Ins)) (n : Nat) (h : BoundaryAt bs n) : n ≤ bs.flatten.length := by
  induction bs generalizing n with
  | nil =>
    obtain ⟨m, hm⟩ := h
    simp at hm; omega
  | cons g gs ih =>
    rcases (boundaryAt_cons g gs n).1 h with rfl | ⟨n', rfl, hB⟩
    · omega
    · have := ih n' hB
      rw [List.flatten_cons, List.length_append]; omega

/-- partitions into non-empty runs with the same boundaries are equal -/
theorem eq_of_boundaries (bs bs' : List (List Ins)) (hf : bs.flatten = bs'.flatten)
    (hne : ∀ b ∈ bs, b ≠ []) (hne' : ∀ b ∈ bs', b ≠ [])
    (hB : ∀ n, BoundaryAt bs n ↔ BoundaryAt bs' n) : bs = bs' := by
  induction bs generalizing bs' with
  | nil =>
    cases bs' with
    | nil => rfl
    | cons g' gs' =>
      have := hne' g' (List.mem_cons_self ..)
      simp at hf
      exact absurd hf.1 this
  | cons g gs ih =>
    cases bs' with
    | nil =>
      have := hne g (List.mem_cons_self ..)
      simp at hf
      exact absurd hf.1 this
    | cons g' gs' =>
      have hg := hne g (List.mem_cons_self ..)
      have hg' := hne' g' (List.mem_cons_self ..)
      have hpos : 0 < g.length := List.length_pos_iff.2 hg
      have hpos' : 0 < g'.length := List.length_pos_iff.2 hg'
      have h1 : g.length ≥ g'.length := by
        have : BoundaryAt (g :: gs) g.length := (boundaryAt_cons g gs _).2 (Or.inr ⟨0, rfl, 0, rfl⟩)
        rcases (boundaryAt_cons g' gs' _).1 ((hB _).1 this) with h | ⟨n', hn, _⟩ <;> omega
      have h2 : g'.length ≥ g.length := by
        have : BoundaryAt (g' :: gs') g'.length := (boundaryAt_cons g' gs' _).2 (Or.inr ⟨0, rfl, 0, rfl⟩)
        rcases (boundaryAt_cons g gs _).1 ((hB _).2 this) with h | ⟨n', hn, _⟩ <;> omega
      have hlen : g.length = g'.length := by omega
      simp only [List.flatten_cons] at hf
      have hgg : g = g' := List.append_inj_left hf hlen
      subst hgg
      have hf' : gs.flatten = gs'.flatten := List.append_cancel_left hf
      congr 1
      apply ih gs' hf' (fun b hb => hne b (List.mem_cons_of_mem _ hb))
        (fun b hb => hne' b (List.mem_cons_of_mem _ hb))
      intro n
      have e1 := boundaryAt_cons g gs (g.length + n)
      have e2 := boundaryAt_cons g gs' (g.length + n)
      have e := hB (g.length + n)
      constructor
      · intro h
        rcases e2.1 (e.1 (e1.2 (Or.inr ⟨n, rfl, h⟩))) with h0 | ⟨n', hn, hB'⟩
        · omega
        · have : n' = n := by omega
          subst this; exact hB'
      · intro h
        rcases e1.1 (e.2 (e2.2 (Or.inr ⟨n, rfl, h⟩))) with h0 | ⟨n', hn, hB'⟩
        · omega
        · have : n' = n := by omega
          subst this; exact hB'


/-- the partition with given cuts is unique -/
theorem isPartition_unique (cut : Ins → Ins → Prop) (l : List Ins) (bs bs' : List (List Ins))
    (h : IsPartition cut l bs) (h' : IsPartition cut l bs') : bs = bs' := by
  obtain ⟨hf, hne, hb⟩ := h
  obtain ⟨hf', hne', hb'⟩ := h'
  apply eq_of_boundaries bs bs' (hf.trans hf'.symm) hne hne'
  intro n
  cases n with
  | zero => exact ⟨fun _ => ⟨0, rfl⟩, fun _ => ⟨0, rfl⟩⟩
  | succ k =>
    by_cases hk : k + 1 < l.length
    · have ha : l[k]? = some l[k] := List.getElem?_eq_getElem (by omega)
      have hbb : l[k + 1]? = some l[k + 1] := List.getElem?_eq_getElem hk
      rw [hb k _ _ ha hbb, hb' k _ _ ha hbb]
    · by_cases hk' : k + 1 = l.length
      · constructor
        · intro _
          exact ⟨bs'.length, by rw [List.take_length, ← List.length_flatten, hf', hk']⟩
        · intro _
          exact ⟨bs.length, by rw [List.take_length, ← List.length_flatten, hf, hk']⟩
      · constructor
        · intro hB
          have := boundaryAt_le bs _ hB
          rw [hf] at this; omega
        · intro hB
          have := boundaryAt_le bs' _ hB
          rw [hf'] at this; omega


/-! ### the final statements -/

theorem cutsGaps_cut (entry : Nat) (ins : List Ins) :
    CutsGaps fun a b => decide (Cut entry ins a b) := by
  intro a b h
  have h' : (a.addr + a.len) % 2 ^ 64 ≠ b.addr := h
  exact decide_eq_true (Or.inr (Or.inl h'))

/-- every block of the specified partition is contiguous -/
theorem blocks_contiguous (entry : Nat) (ins : List Ins) (h : WF ins) :
    ∀ b ∈ blocks entry ins, Contiguous b := by
  intro b hb
  have hl := sortedWF_sortIns ins h
  rw [blocks, ← sortIns_eq_sortByAddr ins h] at hb
  have hI := ginv_groups _ (cutsGaps_cut entry ins) (sortIns ins) hl
  exact contiguous_of_contig b (hI.contig b hb) (hI.wf_mem hb)

theorem blocks_isPartition (entry : Nat) (ins : List Ins) :
    IsPartition (Cut entry ins) (sortByAddr ins) (blocks entry ins) := by
  have := groups_isPartition (fun a b => decide (Cut entry ins a b)) (sortByAddr ins)
  simpa [IsPartition, blocks] using this

/-- `deps.NewCode` + `Code.Blocks()`: the emptiness check of `newBlock` never fires -/
theorem newCode_eq (entry : Nat) (raw : List (Nat × Nat × List Effect)) :
    newCode entry raw = parse entry (raw.map fun (a, l, efs) => mkIns a l efs) := by
  obtain ⟨_, h2⟩ := parse_nopanic entry (raw.map fun (a, l, efs) => mkIns a l efs)
  simp only [newCode, bind, Except.bind]
  cases hp : parse entry (raw.map fun (a, l, efs) => mkIns a l efs) with
  | error e => rfl
  | ok bs =>
    have hne := h2 bs hp
    have : bs.any (·.isEmpty) = false := by
      rw [List.any_eq_false]
      intro b hb
      have := hne b hb
      cases b with
      | nil => exact absurd rfl this
      | cons _ _ => simp
    simp [this, pure, Except.pure]

end Mltwist.Lemmas.BasicBlock
