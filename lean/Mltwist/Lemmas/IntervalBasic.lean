import Mltwist.Spec.IntervalSet
/-
Basic lemmas about `Mem` and `Normal`, the `addInterval` invariant, `sortByBegin`,
and the derived facts for `newMap` and `unionMerge`.
-/
namespace Mltwist.Lemmas.Interval
open Mltwist.Interval

/-! ### `Mem` -/

theorem mem_nil (x : Int) : ¬ Mem x [] := by simp [Mem]

theorem mem_cons (x : Int) (i : Intv) (m : List Intv) :
    Mem x (i :: m) ↔ (i.1 ≤ x ∧ x < i.2) ∨ Mem x m := by
  simp [Mem]

theorem mem_append (x : Int) (l r : List Intv) : Mem x (l ++ r) ↔ Mem x l ∨ Mem x r := by
  simp only [Mem, List.mem_append]
  constructor
  · rintro ⟨i, hi | hi, h⟩
    · exact Or.inl ⟨i, hi, h⟩
    · exact Or.inr ⟨i, hi, h⟩
  · rintro (⟨i, hi, h⟩ | ⟨i, hi, h⟩)
    · exact ⟨i, Or.inl hi, h⟩
    · exact ⟨i, Or.inr hi, h⟩

theorem mem_congr (x : Int) {l r : List Intv} (h : ∀ i, i ∈ l ↔ i ∈ r) : Mem x l ↔ Mem x r := by
  simp only [Mem]
  constructor
  · rintro ⟨i, hi, hx⟩; exact ⟨i, (h i).1 hi, hx⟩
  · rintro ⟨i, hi, hx⟩; exact ⟨i, (h i).2 hi, hx⟩

theorem mem_reverse (x : Int) (l : List Intv) : Mem x l.reverse ↔ Mem x l :=
  mem_congr x (fun _ => List.mem_reverse)

theorem mem_singleton (x : Int) (i : Intv) : Mem x [i] ↔ (i.1 ≤ x ∧ x < i.2) := by
  simp [Mem]

/-! ### `Normal` -/

theorem normal_iff (l : List Intv) :
    Normal l ↔ (∀ i ∈ l, i.1 < i.2) ∧ l.Pairwise (fun i j => i.2 < j.1) := by
  induction l with
  | nil => simp [Normal]
  | cons i t ih =>
    cases t with
    | nil => simp [Normal]
    | cons j rest =>
      simp only [Normal, ih, List.pairwise_cons, List.mem_cons, forall_eq_or_imp]
      constructor
      · rintro ⟨h1, h2, ⟨h3, h4⟩, h5, h6⟩
        refine ⟨⟨h1, h3, h4⟩, ⟨h2, ?_⟩, h5, h6⟩
        intro k hk
        have := h5 k hk
        omega
      · rintro ⟨⟨h1, h3, h4⟩, ⟨h2, _⟩, h5, h6⟩
        exact ⟨h1, h2, ⟨h3, h4⟩, h5, h6⟩

/-- normal form of a reversed accumulator -/
def RNormal (acc : List Intv) : Prop :=
  (∀ i ∈ acc, i.1 < i.2) ∧ acc.Pairwise (fun i j => j.2 < i.1)

theorem normal_reverse (acc : List Intv) : Normal acc.reverse ↔ RNormal acc := by
  simp only [normal_iff, RNormal, List.pairwise_reverse, List.mem_reverse]

/-- the head of the reversed accumulator begins at or before `b` -/
def HeadLe (acc : List Intv) (b : Int) : Prop := ∀ h ∈ acc.head?, h.1 ≤ b

theorem headLe_nil (b : Int) : HeadLe [] b := by simp [HeadLe]

theorem headLe_mono {acc : List Intv} {b c : Int} (h : HeadLe acc b) (hbc : b ≤ c) :
    HeadLe acc c := by
  intro k hk
  have := h k hk
  omega

/-! ### `addInterval` -/

theorem addInterval_spec (acc : List Intv) (i : Intv) (hn : RNormal acc) (hh : HeadLe acc i.1)
    (hi : i.1 < i.2) :
    RNormal (addInterval acc i) ∧ HeadLe (addInterval acc i) i.1 ∧
      ∀ x, Mem x (addInterval acc i) ↔ Mem x acc ∨ (i.1 ≤ x ∧ x < i.2) := by
  obtain ⟨ib, ie⟩ := i
  cases acc with
  | nil =>
    simp [addInterval, RNormal, HeadLe, mem_cons, mem_nil]
    exact hi
  | cons last rest =>
    obtain ⟨lb, le⟩ := last
    simp only [RNormal, List.mem_cons, forall_eq_or_imp, List.pairwise_cons] at hn
    obtain ⟨⟨hl, hrne⟩, hlr, hrp⟩ := hn
    simp only [HeadLe, List.head?_cons, Option.mem_def, Option.some.injEq, forall_eq'] at hh
    simp only at hi hl hh
    simp only [addInterval]
    split
    · next h1 =>
      refine ⟨?_, ?_, ?_⟩
      · simp only [RNormal, List.mem_cons, forall_eq_or_imp, List.pairwise_cons]
        refine ⟨⟨hi, hl, hrne⟩, ⟨h1, ?_⟩, hlr, hrp⟩
        intro k hk
        have := hlr k hk
        omega
      · simp [HeadLe]
      · intro x
        simp only [mem_cons]
        constructor
        · rintro (h | h | h)
          · exact Or.inr h
          · exact Or.inl (Or.inl h)
          · exact Or.inl (Or.inr h)
        · rintro ((h | h) | h)
          · exact Or.inr (Or.inl h)
          · exact Or.inr (Or.inr h)
          · exact Or.inl h
    · next h1 =>
      split
      · next h2 =>
        try simp only at h1 h2
        refine ⟨?_, ?_, ?_⟩
        · simp only [RNormal, List.mem_cons, forall_eq_or_imp, List.pairwise_cons]
          refine ⟨⟨?_, hrne⟩, hlr, hrp⟩
          omega
        · simp [HeadLe]; exact hh
        · intro x
          simp only [mem_cons]
          constructor
          · rintro (h | h)
            · by_cases hx : x < le
              · exact Or.inl (Or.inl ⟨h.1, hx⟩)
              · exact Or.inr ⟨by omega, h.2⟩
            · exact Or.inl (Or.inr h)
          · rintro ((h | h) | h)
            · exact Or.inl ⟨h.1, by omega⟩
            · exact Or.inr h
            · exact Or.inl ⟨by omega, h.2⟩
      · next h2 =>
        try simp only at h1 h2
        refine ⟨?_, ?_, ?_⟩
        · simp only [RNormal, List.mem_cons, forall_eq_or_imp, List.pairwise_cons]
          exact ⟨⟨hl, hrne⟩, hlr, hrp⟩
        · simp [HeadLe]; exact hh
        · intro x
          simp only [mem_cons]
          constructor
          · intro h; exact Or.inl h
          · rintro (h | h)
            · exact h
            · exact Or.inl ⟨by omega, by omega⟩

/-- folding `addInterval` over a begin-sorted list of non-empty intervals -/
theorem foldl_addInterval_spec (l : List Intv) :
    ∀ (acc : List Intv), RNormal acc → (∀ i ∈ l, HeadLe acc i.1) → (∀ i ∈ l, i.1 < i.2) →
      l.Pairwise (fun i j => i.1 ≤ j.1) →
      RNormal (l.foldl addInterval acc) ∧
        ∀ x, Mem x (l.foldl addInterval acc) ↔ Mem x acc ∨ Mem x l := by
  induction l with
  | nil =>
    intro acc hn _ _ _
    simp [mem_nil, hn]
  | cons i t ih =>
    intro acc hn hh hne hs
    simp only [List.mem_cons, forall_eq_or_imp] at hh hne
    simp only [List.pairwise_cons] at hs
    obtain ⟨h1, h2, h3⟩ := addInterval_spec acc i hn hh.1 hne.1
    simp only [List.foldl_cons]
    obtain ⟨h4, h5⟩ := ih (addInterval acc i) h1 (fun k hk => headLe_mono h2 (hs.1 k hk)) hne.2 hs.2
    refine ⟨h4, ?_⟩
    intro x
    rw [h5, h3, mem_cons, or_assoc]

/-! ### `sortByBegin` -/

theorem mem_insertByBegin (x : Intv) (l : List Intv) (i : Intv) :
    i ∈ insertByBegin x l ↔ i = x ∨ i ∈ l := by
  induction l with
  | nil => simp [insertByBegin]
  | cons y ys ih =>
    simp only [insertByBegin]
    split
    · simp
    · simp only [List.mem_cons, ih]
      constructor
      · rintro (h | h | h)
        · exact Or.inr (Or.inl h)
        · exact Or.inl h
        · exact Or.inr (Or.inr h)
      · rintro (h | h | h)
        · exact Or.inr (Or.inl h)
        · exact Or.inl h
        · exact Or.inr (Or.inr h)

theorem sorted_insertByBegin (x : Intv) (l : List Intv)
    (h : l.Pairwise (fun i j : Intv => i.1 ≤ j.1)) :
    (insertByBegin x l).Pairwise (fun i j : Intv => i.1 ≤ j.1) := by
  induction l with
  | nil => simp [insertByBegin]
  | cons y ys ih =>
    simp only [List.pairwise_cons] at h
    simp only [insertByBegin]
    split
    · next hlt =>
      simp only [List.pairwise_cons, List.mem_cons, forall_eq_or_imp]
      refine ⟨⟨by omega, ?_⟩, h.1, h.2⟩
      intro k hk
      have := h.1 k hk
      omega
    · next hge =>
      simp only [List.pairwise_cons]
      refine ⟨?_, ih h.2⟩
      intro k hk
      rw [mem_insertByBegin] at hk
      rcases hk with rfl | hk
      · omega
      · exact h.1 k hk

theorem foldl_insertByBegin_spec (l : List Intv) :
    ∀ acc : List Intv, acc.Pairwise (fun i j : Intv => i.1 ≤ j.1) →
      (l.foldl (fun acc x => insertByBegin x acc) acc).Pairwise (fun i j : Intv => i.1 ≤ j.1) ∧
      ∀ i, i ∈ l.foldl (fun acc x => insertByBegin x acc) acc ↔ i ∈ acc ∨ i ∈ l := by
  induction l with
  | nil => intro acc h; simp [h]
  | cons y ys ih =>
    intro acc h
    simp only [List.foldl_cons]
    obtain ⟨h1, h2⟩ := ih (insertByBegin y acc) (sorted_insertByBegin y acc h)
    refine ⟨h1, ?_⟩
    intro i
    rw [h2, mem_insertByBegin, List.mem_cons]
    constructor
    · rintro ((h | h) | h)
      · exact Or.inr (Or.inl h)
      · exact Or.inl h
      · exact Or.inr (Or.inr h)
    · rintro (h | h | h)
      · exact Or.inl (Or.inr h)
      · exact Or.inl (Or.inl h)
      · exact Or.inr h

theorem sortByBegin_sorted (l : List Intv) :
    (sortByBegin l).Pairwise (fun i j : Intv => i.1 ≤ j.1) :=
  (foldl_insertByBegin_spec l [] List.Pairwise.nil).1

theorem mem_sortByBegin (l : List Intv) (i : Intv) : i ∈ sortByBegin l ↔ i ∈ l := by
  have := (foldl_insertByBegin_spec l [] List.Pairwise.nil).2 i
  simpa [sortByBegin] using this

theorem rnormal_nil : RNormal [] := by simp [RNormal]

/-! ### `unionMerge` -/

theorem normal_sorted {l : List Intv} (h : Normal l) : l.Pairwise (fun i j : Intv => i.1 ≤ j.1) := by
  rw [normal_iff] at h
  obtain ⟨hne, hp⟩ := h
  induction l with
  | nil => exact List.Pairwise.nil
  | cons i t ih =>
    simp only [List.pairwise_cons, List.mem_cons, forall_eq_or_imp] at hp hne ⊢
    refine ⟨?_, ih hne.2 hp.2⟩
    intro k hk
    have := hp.1 k hk
    omega

theorem normal_nonempty {l : List Intv} (h : Normal l) : ∀ i ∈ l, i.1 < i.2 :=
  ((normal_iff l).1 h).1

theorem normal_tail {i : Intv} {l : List Intv} (h : Normal (i :: l)) : Normal l := by
  rw [normal_iff] at h ⊢
  simp only [List.pairwise_cons, List.mem_cons, forall_eq_or_imp] at h
  exact ⟨h.1.2, h.2.2⟩

theorem unionMerge_spec (as bs acc : List Intv) :
    Normal as → Normal bs → RNormal acc →
      (∀ i ∈ as, HeadLe acc i.1) → (∀ i ∈ bs, HeadLe acc i.1) →
      RNormal (unionMerge as bs acc) ∧
        ∀ x, Mem x (unionMerge as bs acc) ↔ Mem x acc ∨ Mem x as ∨ Mem x bs := by
  fun_induction unionMerge as bs acc with
  | case1 a as b bs acc hlt ih =>
    intro ha hb hn hha hhb
    have hsa := normal_sorted ha
    simp only [List.pairwise_cons] at hsa
    have hane := normal_nonempty ha
    simp only [List.mem_cons, forall_eq_or_imp] at hha hane
    obtain ⟨h1, h2, h3⟩ := addInterval_spec acc a hn hha.1 hane.1
    obtain ⟨h4, h5⟩ := ih (normal_tail ha) hb h1
      (fun k hk => headLe_mono h2 (hsa.1 k hk))
      (fun k hk => by
        have hsb := normal_sorted hb
        simp only [List.pairwise_cons] at hsb
        rcases List.mem_cons.1 hk with rfl | hk
        · exact headLe_mono h2 (by omega)
        · have := hsb.1 k hk
          exact headLe_mono h2 (by omega))
    refine ⟨h4, ?_⟩
    intro x
    rw [h5, h3, mem_cons x a as]
    constructor
    · rintro ((h | h) | h | h)
      · exact Or.inl h
      · exact Or.inr (Or.inl (Or.inl h))
      · exact Or.inr (Or.inl (Or.inr h))
      · exact Or.inr (Or.inr h)
    · rintro (h | (h | h) | h)
      · exact Or.inl (Or.inl h)
      · exact Or.inl (Or.inr h)
      · exact Or.inr (Or.inl h)
      · exact Or.inr (Or.inr h)
  | case2 a as b bs acc hge ih =>
    intro ha hb hn hha hhb
    have hsb := normal_sorted hb
    simp only [List.pairwise_cons] at hsb
    have hbne := normal_nonempty hb
    simp only [List.mem_cons, forall_eq_or_imp] at hhb hbne
    obtain ⟨h1, h2, h3⟩ := addInterval_spec acc b hn hhb.1 hbne.1
    obtain ⟨h4, h5⟩ := ih ha (normal_tail hb) h1
      (fun k hk => by
        have hsa := normal_sorted ha
        simp only [List.pairwise_cons] at hsa
        rcases List.mem_cons.1 hk with rfl | hk
        · exact headLe_mono h2 (by omega)
        · have := hsa.1 k hk
          exact headLe_mono h2 (by omega))
      (fun k hk => headLe_mono h2 (hsb.1 k hk))
    refine ⟨h4, ?_⟩
    intro x
    rw [h5, h3, mem_cons x b bs]
    constructor
    · rintro ((h | h) | h | h)
      · exact Or.inl h
      · exact Or.inr (Or.inr (Or.inl h))
      · exact Or.inr (Or.inl h)
      · exact Or.inr (Or.inr (Or.inr h))
    · rintro (h | h | (h | h))
      · exact Or.inl (Or.inl h)
      · exact Or.inr (Or.inl h)
      · exact Or.inl (Or.inr h)
      · exact Or.inr (Or.inr h)
  | case3 bs acc =>
    intro _ hb hn _ hhb
    obtain ⟨h1, h2⟩ := foldl_addInterval_spec bs acc hn hhb (normal_nonempty hb) (normal_sorted hb)
    refine ⟨h1, ?_⟩
    intro x
    rw [h2]
    simp [mem_nil]
  | case4 as acc _ =>
    intro ha _ hn hha _
    obtain ⟨h1, h2⟩ := foldl_addInterval_spec as acc hn hha (normal_nonempty ha) (normal_sorted ha)
    refine ⟨h1, ?_⟩
    intro x
    rw [h2]
    simp [mem_nil]

end Mltwist.Lemmas.Interval
