import Mltwist.Lemmas.Expreval
import Mltwist.Model.Transform
import Mltwist.Spec.Checks
/-
Helper lemmas for C09, C12, C13: semantics of SetWidth, PurgeWidthGadgets, ConstFold,
Possibilities.  (Proofs to be supplied.)
-/
namespace Mltwist.Lemmas.Transform
open Mltwist

/-- values stay below `2^(8*width)` -/
theorem eval_lt (ρ : Env) (e : Expr) : e.eval ρ < 2 ^ (8 * e.width) := by
  sorry

theorem setWidth_width (e : Expr) (w : Nat) : (setWidth e w).width = w := by
  sorry

theorem setWidth_eval (ρ : Env) (e : Expr) (w : Nat) :
    (setWidth e w).eval ρ = trunc w (e.eval ρ) := by
  sorry

/-- the `panic("unreachable")` of `dropUselessWidthGadget` is unreachable -/
theorem dropDecision_total (w x a : Nat) : dropDecision w x a ≠ none := by
  sorry

theorem purge_width (e : Expr) : (purgeWidthGadgets e).width = e.width := by
  sorry

theorem purge_eval (ρ : Env) (e : Expr) : (purgeWidthGadgets e).eval ρ = e.eval ρ := by
  sorry

theorem constFold_width (e : Expr) : (constFold e).width = e.width := by
  sorry

theorem constFold_eval (ρ : Env) (e : Expr) (h : e.wf = true) :
    (constFold e).eval ρ = e.eval ρ := by
  sorry

theorem constFold_closed (e : Expr) (h : e.closed = true) : (constFold e).isConst = true := by
  sorry

theorem constFold_noConstOp (e : Expr) : (constFold e).noConstOp = true := by
  sorry

theorem constFold_idem (e : Expr) : constFold (constFold e) = constFold e := by
  sorry

theorem possibilities_cover (ρ : Env) (e : Expr) :
    ∃ p ∈ possibilities e, p.eval ρ = e.eval ρ := by
  sorry

theorem possibilities_shape (e : Expr) :
    ∀ p ∈ possibilities e, p.width = e.width ∧ p.noLess = true := by
  sorry

end Mltwist.Lemmas.Transform
