import Mltwist.Lemmas.Expreval
import Mltwist.Lemmas.TransformBasic
import Mltwist.Lemmas.TransformFold
import Mltwist.Model.Transform
import Mltwist.Spec.Checks
/-
Helper lemmas for C09, C12, C13: semantics of SetWidth, PurgeWidthGadgets, ConstFold,
Possibilities.  The supporting lemmas live in `TransformBasic` (arithmetic, `SetWidth`,
`prune`/`stripSame`/`purge`) and `TransformFold` (`constFoldRaw`, normal forms).
-/
namespace Mltwist.Lemmas.Transform
open Mltwist

/-- values stay below `2^(8*width)` -/
theorem eval_lt (ρ : Env) (e : Expr) : e.eval ρ < 2 ^ (8 * e.width) :=
  eval_lt' ρ e

theorem setWidth_width (e : Expr) (w : Nat) : (setWidth e w).width = w :=
  setWidth_width' e w

theorem setWidth_eval (ρ : Env) (e : Expr) (w : Nat) :
    (setWidth e w).eval ρ = trunc w (e.eval ρ) :=
  setWidth_eval' ρ e w

/-- the `panic("unreachable")` of `dropUselessWidthGadget` is unreachable -/
theorem dropDecision_total (w x a : Nat) : dropDecision w x a ≠ none :=
  dropDecision_total' w x a

theorem purge_width (e : Expr) : (purgeWidthGadgets e).width = e.width := by
  unfold purgeWidthGadgets
  rw [stripSame_width, purge_width']

theorem purge_eval (ρ : Env) (e : Expr) : (purgeWidthGadgets e).eval ρ = e.eval ρ := by
  unfold purgeWidthGadgets
  rw [stripSame_eval, purge_eval']

theorem constFold_width (e : Expr) : (constFold e).width = e.width := by
  unfold constFold
  rw [purge_width, cfr_width]

theorem constFold_eval (ρ : Env) (e : Expr) (h : e.wf = true) :
    (constFold e).eval ρ = e.eval ρ := by
  unfold constFold
  rw [purge_eval, cfr_eval ρ e h]

theorem constFold_closed (e : Expr) (h : e.closed = true) : (constFold e).isConst = true := by
  obtain ⟨bs, hbs⟩ := isConst_iff.1 (cfr_closed e h)
  unfold constFold
  rw [hbs]
  simp [purgeWidthGadgets, purge, stripSame, Expr.isConst]

theorem constFold_noConstOp (e : Expr) : (constFold e).noConstOp = true :=
  purgeWidthGadgets_noConstOp _ (cfr_noConstOp e)

theorem constFold_idem (e : Expr) : constFold (constFold e) = constFold e := by
  have h := constFold_noConstOp e
  show purgeWidthGadgets (constFoldRaw (constFold e)) = constFold e
  rw [cfr_of_noConstOp _ h]
  exact purgeWidthGadgets_idem (constFoldRaw e)

theorem possibilities_cover (ρ : Env) (e : Expr) :
    ∃ p ∈ possibilities e, p.eval ρ = e.eval ρ := by
  induction e with
  | const bs => exact ⟨_, by simp [possibilities], rfl⟩
  | regLoad k w => exact ⟨_, by simp [possibilities], rfl⟩
  | memLoad k a w iha =>
    obtain ⟨p, hp, he⟩ := iha
    refine ⟨.memLoad k p w, ?_, ?_⟩
    · simp only [possibilities, List.mem_map]
      exact ⟨p, hp, rfl⟩
    · simp only [Expr.eval, he]
  | binary op a b w iha ihb =>
    obtain ⟨p, hp, hpe⟩ := iha
    obtain ⟨q, hq, hqe⟩ := ihb
    refine ⟨.binary op p q w, ?_, ?_⟩
    · simp only [possibilities, List.mem_flatMap, List.mem_map]
      exact ⟨p, hp, q, hq, rfl⟩
    · simp only [Expr.eval, hpe, hqe]
  | less a b t f w _ _ iht ihf =>
    obtain ⟨p, hp, hpe⟩ := iht
    obtain ⟨q, hq, hqe⟩ := ihf
    by_cases hc : trunc w (a.eval ρ) < trunc w (b.eval ρ)
    · refine ⟨setWidth p w, ?_, ?_⟩
      · simp only [possibilities, List.mem_append, List.mem_map]
        exact Or.inl ⟨p, hp, rfl⟩
      · simp only [Expr.eval, if_pos hc, setWidth_eval, hpe]
    · refine ⟨setWidth q w, ?_, ?_⟩
      · simp only [possibilities, List.mem_append, List.mem_map]
        exact Or.inr ⟨q, hq, rfl⟩
      · simp only [Expr.eval, if_neg hc, setWidth_eval, hqe]

theorem possibilities_shape (e : Expr) :
    ∀ p ∈ possibilities e, p.width = e.width ∧ p.noLess = true := by
  induction e with
  | const bs =>
    intro p hp
    simp only [possibilities, List.mem_singleton] at hp
    subst hp; exact ⟨rfl, rfl⟩
  | regLoad k w =>
    intro p hp
    simp only [possibilities, List.mem_singleton] at hp
    subst hp; exact ⟨rfl, rfl⟩
  | memLoad k a w iha =>
    intro p hp
    simp only [possibilities, List.mem_map] at hp
    obtain ⟨q, hq, rfl⟩ := hp
    exact ⟨rfl, by simpa [Expr.noLess] using (iha q hq).2⟩
  | binary op a b w iha ihb =>
    intro p hp
    simp only [possibilities, List.mem_flatMap, List.mem_map] at hp
    obtain ⟨q, hq, r, hr, rfl⟩ := hp
    exact ⟨rfl, by simp [Expr.noLess, (iha q hq).2, (ihb r hr).2]⟩
  | less a b t f w _ _ iht ihf =>
    intro p hp
    simp only [possibilities, List.mem_append, List.mem_map] at hp
    rcases hp with ⟨q, hq, rfl⟩ | ⟨q, hq, rfl⟩
    · exact ⟨setWidth_width _ _, setWidth_noLess _ _ (iht q hq).2⟩
    · exact ⟨setWidth_width _ _, setWidth_noLess _ _ (ihf q hq).2⟩

end Mltwist.Lemmas.Transform
