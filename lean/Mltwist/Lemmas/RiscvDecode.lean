import Mltwist.Model.RiscvTables
import Mltwist.Spec.Riscv
import Mltwist.Lemmas.Opcode
/-
Helper lemmas for C02.  (Proofs to be supplied.)
-/
namespace Mltwist.Lemmas.RiscvDecode
open Mltwist Mltwist.Riscv

def Cfg (xlen : Nat) : Prop := xlen = 32 ∨ xlen = 64

theorem table_eq_spec (xlen : Nat) (hx : Cfg xlen) (m a : Bool) (r : String × Nat × Nat) :
    r ∈ (instructionSet xlen m a).map (fun e => (e.name, e.wordMatch, e.wordMask)) ↔
    r ∈ (Spec.Rv.rows xlen m a).map (fun e => (e.name, e.mtch, e.mask)) := by
  sorry

theorem names_nodup (xlen : Nat) (hx : Cfg xlen) (m a : Bool) :
    ((instructionSet xlen m a).map (·.name)).Nodup := by
  sorry

theorem parse_short (tbl : List Entry) (addr : Nat) (bs : List UInt8) (h : bs.length < 4) :
    parse tbl addr bs = .short := by
  sorry

theorem parse_unknown_iff (xlen : Nat) (hx : Cfg xlen) (m a : Bool) (addr : Nat) (bs : List UInt8)
    (h : 4 ≤ bs.length) :
    parse (instructionSet xlen m a) addr bs = .unknown ↔ Spec.Rv.decode xlen m a (wordOf bs) = none := by
  sorry

theorem parse_ok_iff (xlen : Nat) (hx : Cfg xlen) (m a : Bool) (addr : Nat) (bs : List UInt8)
    (h : 4 ≤ bs.length) (n : String) :
    (∃ e, e ∈ instructionSet xlen m a ∧ e.name = n ∧
        parse (instructionSet xlen m a) addr bs = .ok e ⟨addr, wordOf bs⟩) ↔
      Spec.Rv.decode xlen m a (wordOf bs) = some n := by
  sorry

theorem parse_trailing (xlen : Nat) (hx : Cfg xlen) (m a : Bool) (addr : Nat) (bs : List UInt8)
    (h : 4 ≤ bs.length) :
    parse (instructionSet xlen m a) addr bs = parse (instructionSet xlen m a) addr (bs.take 4) := by
  sorry

theorem parseM_eq_parse (xlen : Nat) (hx : Cfg xlen) (m a : Bool) (addr : Nat) (bs : List UInt8) :
    parseM (instructionSet xlen m a) addr bs = some (parse (instructionSet xlen m a) addr bs) := by
  sorry

end Mltwist.Lemmas.RiscvDecode
