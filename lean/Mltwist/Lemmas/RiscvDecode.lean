import Mltwist.Model.RiscvTables
import Mltwist.Spec.Riscv
import Mltwist.Lemmas.Opcode
import Mltwist.Lemmas.RiscvDecodeGen
/-
Helper lemmas for C02.

The table-independent reasoning is in `RiscvDecodeBits.lean` (little-endian words vs. byte
patterns) and `RiscvDecodeGen.lean` (`parse`/`parseM` over any table satisfying a few decidable
facts).  Here those facts are RE-CHECKED for the regenerated tables (`Generated/Riscv*.lean`) in all
eight configurations by kernel evaluation (`decide +kernel`; no native code, no copied constants),
and the C02 statements are instantiated.
-/
namespace Mltwist.Lemmas.RiscvDecode
open Mltwist Mltwist.Riscv

def Cfg (xlen : Nat) : Prop := xlen = 32 ∨ xlen = 64

/-! ### the decidable facts, per configuration -/

/-- table and reference have the same (name, match, mask) rows; patterns are at most four bytes
with as many bytes as mask bytes; reference rows matched by a common word have the same name;
mnemonics are distinct -/
def RowFacts (xlen : Nat) (m a : Bool) : Prop :=
  subB (triT (instructionSet xlen m a)) (triR (Spec.Rv.rows xlen m a)) = true ∧
  subB (triR (Spec.Rv.rows xlen m a)) (triT (instructionSet xlen m a)) = true ∧
  shapeB (instructionSet xlen m a) = true ∧
  rowsUniqueB (triR (Spec.Rv.rows xlen m a)) = true ∧
  ((instructionSet xlen m a).map (·.name)).Nodup

instance (xlen : Nat) (m a : Bool) : Decidable (RowFacts xlen m a) := by
  unfold RowFacts; infer_instance

set_option maxRecDepth 100000 in
theorem rowFacts32 : ∀ m a : Bool, RowFacts 32 m a := by decide +kernel

set_option maxRecDepth 100000 in
theorem rowFacts64 : ∀ m a : Bool, RowFacts 64 m a := by decide +kernel

set_option maxRecDepth 100000 in
theorem matcherFacts32 : ∀ m a : Bool, MatcherFacts (instructionSet 32 m a) := by decide +kernel

set_option maxRecDepth 100000 in
theorem matcherFacts64 : ∀ m a : Bool, MatcherFacts (instructionSet 64 m a) := by decide +kernel

theorem rowFacts (xlen : Nat) (hx : Cfg xlen) (m a : Bool) : RowFacts xlen m a := by
  rcases hx with rfl | rfl
  · exact rowFacts32 m a
  · exact rowFacts64 m a

theorem matcherFacts (xlen : Nat) (hx : Cfg xlen) (m a : Bool) :
    MatcherFacts (instructionSet xlen m a) := by
  rcases hx with rfl | rfl
  · exact matcherFacts32 m a
  · exact matcherFacts64 m a

/-! ### the statements of C02 -/

theorem table_eq_spec (xlen : Nat) (hx : Cfg xlen) (m a : Bool) (r : String × Nat × Nat) :
    r ∈ (instructionSet xlen m a).map (fun e => (e.name, e.wordMatch, e.wordMask)) ↔
    r ∈ (Spec.Rv.rows xlen m a).map (fun e => (e.name, e.mtch, e.mask)) := by
  obtain ⟨h1, h2, -⟩ := rowFacts xlen hx m a
  exact ⟨(subB_iff _ _).1 h1 r, (subB_iff _ _).1 h2 r⟩

theorem names_nodup (xlen : Nat) (hx : Cfg xlen) (m a : Bool) :
    ((instructionSet xlen m a).map (·.name)).Nodup :=
  (rowFacts xlen hx m a).2.2.2.2

theorem parse_short (tbl : List Entry) (addr : Nat) (bs : List UInt8) (h : bs.length < 4) :
    parse tbl addr bs = .short := by
  simp [parse, h]

theorem parse_unknown_iff (xlen : Nat) (hx : Cfg xlen) (m a : Bool) (addr : Nat) (bs : List UInt8)
    (h : 4 ≤ bs.length) :
    parse (instructionSet xlen m a) addr bs = .unknown ↔ Spec.Rv.decode xlen m a (wordOf bs) = none :=
  parse_unknown_gen _ _ (rowFacts xlen hx m a).2.2.1 (table_eq_spec xlen hx m a) addr bs h

theorem parse_ok_iff (xlen : Nat) (hx : Cfg xlen) (m a : Bool) (addr : Nat) (bs : List UInt8)
    (h : 4 ≤ bs.length) (n : String) :
    (∃ e, e ∈ instructionSet xlen m a ∧ e.name = n ∧
        parse (instructionSet xlen m a) addr bs = .ok e ⟨addr, wordOf bs⟩) ↔
      Spec.Rv.decode xlen m a (wordOf bs) = some n :=
  parse_ok_gen _ _ (rowFacts xlen hx m a).2.2.1 (table_eq_spec xlen hx m a)
    (rowFacts xlen hx m a).2.2.2.1 addr bs h n

theorem parse_trailing (xlen : Nat) (hx : Cfg xlen) (m a : Bool) (addr : Nat) (bs : List UInt8)
    (h : 4 ≤ bs.length) :
    parse (instructionSet xlen m a) addr bs = parse (instructionSet xlen m a) addr (bs.take 4) :=
  parse_trailing_gen _ (rowFacts xlen hx m a).2.2.1 addr bs h

theorem parseM_eq_parse (xlen : Nat) (hx : Cfg xlen) (m a : Bool) (addr : Nat) (bs : List UInt8) :
    parseM (instructionSet xlen m a) addr bs = some (parse (instructionSet xlen m a) addr bs) :=
  parseM_gen _ (matcherFacts xlen hx m a) addr bs

end Mltwist.Lemmas.RiscvDecode
