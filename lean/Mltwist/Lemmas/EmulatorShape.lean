import Mltwist.Lemmas.EmulatorFill
import Mltwist.Lemmas.OverlayLoad
/-
Emulator (C03, C04), part 4: the SHAPE of what a memory returns.  A memory that stores constants only
returns, for every successful load in the domain of C14, a closed well-formed expression: a constant,
or a tree of shifts, width gadgets and `BitOr`s over constants (a cut piece of a wider store, several
stores, image bytes + written bytes).  By C09 such an expression folds to a constant whose value is the
value of the expression — this is why the repaired `memValue` (F03) cannot panic.
-/
namespace Mltwist.Lemmas.Emulator
open Mltwist Mltwist.State Mltwist.Overlay Mltwist.Emulator Mltwist.Spec.Overlay Mltwist.Interval
open Mltwist.Lemmas.Overlay (Sub sub_inDom)

/-- closed and well formed -/
def Shape (e : Expr) : Prop := e.closed = true ∧ e.wf = true

theorem shape_const {c : List UInt8} (h1 : 1 ≤ c.length) (h2 : c.length ≤ 255) : Shape (.const c) := by
  simp [Shape, Expr.closed, Expr.wf, h1, h2]

theorem shape_of_byteConst {e : Expr} (h : IsByteConst e) : Shape e := by
  obtain ⟨c, rfl, h1, h2⟩ := h
  exact shape_const h1 h2

theorem shape_binary {a b : Expr} (ha : Shape a) (hb : Shape b) (op : BinOp) {w : Nat} (h1 : 1 ≤ w) (h2 : w ≤ 255) :
    Shape (.binary op a b w) := by
  simp [Shape, Expr.closed, Expr.wf, ha.1, ha.2, hb.1, hb.2, h1, h2]

theorem shape_constUint (v : Nat) {n : Nat} (h1 : 1 ≤ n) (h2 : n ≤ 255) : Shape (Tools.constUint v n) := by
  unfold Tools.constUint
  exact shape_const (by rw [Lemmas.Const.natToLE_length]; exact h1) (by rw [Lemmas.Const.natToLE_length]; exact h2)

theorem shape_zero : Shape Expr.zero := shape_const (by decide) (by decide)

theorem shape_setWidth {e : Expr} (h : Shape e) {n : Nat} (h1 : 1 ≤ n) (h2 : n ≤ 255) : Shape (setWidth e n) := by
  unfold setWidth
  split
  · exact h
  · cases e with
    | const bs =>
      exact shape_const (by rw [Lemmas.Transform.exprevalSetWidth_length]; exact h1)
        (by rw [Lemmas.Transform.exprevalSetWidth_length]; exact h2)
    | regLoad k w => simp [Shape, Expr.closed] at h
    | memLoad k a w => simp [Shape, Expr.closed] at h
    | binary op a b w => exact shape_binary h shape_zero .add h1 h2
    | less a b t f w => exact shape_binary h shape_zero .add h1 h2

theorem shape_bitOr {a b : Expr} (ha : Shape a) (hb : Shape b) {w : Nat} (h1 : 1 ≤ w) (h2 : w ≤ 255) :
    Shape (Tools.bitOr a b w) := by
  unfold Tools.bitOr Tools.bitNot Tools.ones
  have hz := shape_zero
  exact shape_binary (shape_binary ha (shape_binary hz hz .nand h1 h2) .nand h1 h2)
    (shape_binary hb (shape_binary hz hz .nand h1 h2) .nand h1 h2) .nand h1 h2

/-! ### the sparse memory -/

theorem expr_shape {c : Sparse.CutExpr} {e : Expr} (hc : IsByteConst c.ex) (he : c.end_ ≤ 255)
    (h : c.expr = .ok e) : Shape e := by
  obtain ⟨bs, hbs, hb1, hb2⟩ := hc
  unfold Sparse.CutExpr.expr at h
  split at h
  · cases h
  · rename_i hlt
    have h1 : 1 ≤ c.end_ - c.begin := by omega
    have h2 : c.end_ - c.begin ≤ 255 := by omega
    split at h
    · cases h; exact shape_constUint 0 h1 h2
    · cases h
      have hex : Shape c.ex := by rw [hbs]; exact shape_const hb1 hb2
      have hw : c.ex.width = bs.length := by rw [hbs]; rfl
      apply shape_setWidth _ h1 h2
      split
      · exact shape_binary hex (shape_constUint _ (by decide) (by decide)) .rsh (by omega) (by omega)
      · exact hex

theorem cutTail_shape {e_ high low : Nat} {c : Sparse.CutExpr} {e : Expr} (hc : IsByteConst c.ex)
    (he : c.end_ ≤ 255) (h : Sparse.cutTail e_ high c low = .ok e) : Shape e := by
  unfold Sparse.cutTail at h
  split at h
  · generalize Sparse.sub64 e_ low % 256 = n at h
    cases hce : c.cutEnd n with
    | error x => rw [hce] at h; cases h
    | ok c' =>
      rw [hce] at h
      have hex := cutEnd_ex hce
      have hend : c'.end_ ≤ 255 := by
        unfold Sparse.CutExpr.cutEnd at hce
        split at hce
        · cases hce
        · cases hce; simp only; omega
      exact expr_shape (by rw [hex]; exact hc) hend h
  · exact expr_shape hc he h

theorem cut_shape {addr e_ : Nat} {o : Sparse.KV} {e : Expr} (hc : IsByteConst o.val.ex)
    (he : o.val.end_ ≤ 255) (h : Sparse.cut addr e_ o = .ok e) : Shape e := by
  unfold Sparse.cut at h
  split at h
  · generalize Sparse.sub64 o.high addr % 256 = n at h
    cases hcb : o.val.cutBegin n with
    | error x => rw [hcb] at h; cases h
    | ok c' =>
      rw [hcb] at h
      have hex := cutBegin_ex hcb
      have hend : c'.end_ ≤ 255 := by
        unfold Sparse.CutExpr.cutBegin at hcb
        split at hcb
        · cases hcb
        · cases hcb; exact he
      exact cutTail_shape (by rw [hex]; exact hc) hend h
  · exact cutTail_shape hc he h

theorem loadLoop_shape (addr e_ w : Nat) (h1 : 1 ≤ w) (h2 : w ≤ 255) : ∀ (os : List Sparse.KV) (acc e : Expr),
    (∀ o ∈ os, IsByteConst o.val.ex ∧ o.val.end_ ≤ 255) → Shape acc →
    Sparse.loadLoop addr e_ w os acc = .ok e → Shape e
  | [], acc, e, _, ha, h => by
    simp only [Sparse.loadLoop] at h
    cases h
    exact ha
  | o :: os, acc, e, hos, ha, h => by
    have ho := hos o (List.mem_cons_self ..)
    unfold Sparse.loadLoop at h
    cases hc : Sparse.cut addr e_ o with
    | error x => rw [hc] at h; cases h
    | ok c =>
      rw [hc] at h
      generalize Sparse.sub64 o.low addr * 8 % 2 ^ 64 = sh at h
      refine loadLoop_shape addr e_ w h1 h2 os _ e (fun x hx => hos x (List.mem_cons_of_mem _ hx)) ?_ h
      exact shape_bitOr ha
        (shape_binary (cut_shape ho.1 ho.2 hc) (shape_constUint _ (by decide) (by decide)) .lsh h1 h2) h1 h2

theorem sparse_load_shape {t : Sparse.Tree} (hinv : Sparse.Inv t) (hc : TreeConst t) {a w : Nat} {e : Expr}
    (h1 : 1 ≤ w) (h2 : w ≤ 255) (h : Sparse.load t a w = .ok (some e)) : Shape e := by
  unfold Sparse.load at h
  dsimp only at h
  generalize Sparse.endAddr a w = e_ at h
  cases hov : Sparse.overlaps t a e_ with
  | error x => rw [hov] at h; cases h
  | ok ints =>
    rw [hov] at h
    have hints : ∀ o ∈ ints, IsByteConst o.val.ex ∧ o.val.end_ ≤ 255 := by
      intro o ho
      unfold Sparse.overlaps at hov
      split at hov
      · cases hov
      · cases hov
        have hm := (List.mem_filter.1 ho).1
        exact ⟨hc o hm, (hinv.2 o hm).2.2.2.1⟩
    change (if (!Sparse.wholeInterval a e_ ints) = true then pure none else _) = _ at h
    split at h
    · cases h
    · cases ints with
      | nil => cases h
      | cons i rest =>
        change (do let first ← Sparse.cut a e_ i; let e ← Sparse.loadLoop a e_ w rest first; pure (some e)) = _ at h
        cases hcut : Sparse.cut a e_ i with
        | error x => rw [hcut] at h; cases h
        | ok first =>
          rw [hcut] at h
          cases hl : Sparse.loadLoop a e_ w rest first with
          | error x =>
            have : (Except.error x : Except Sparse.Panic (Option Expr)) = .ok (some e) := by
              rw [← h]; show _ = (Sparse.loadLoop a e_ w rest first >>= fun e => pure (some e)); rw [hl]; rfl
            cases this
          | ok e' =>
            have : (Except.ok (some e') : Except Sparse.Panic (Option Expr)) = .ok (some e) := by
              rw [← h]; show _ = (Sparse.loadLoop a e_ w rest first >>= fun e => pure (some e)); rw [hl]; rfl
            cases this
            have hi := hints i (List.mem_cons_self ..)
            exact loadLoop_shape a e_ w h1 h2 rest first e
              (fun x hx => hints x (List.mem_cons_of_mem _ hx)) (cut_shape hi.1 hi.2 hcut) hl

/-! ### the overlay -/

/-- a view returns shaped expressions for every successful load in the domain -/
def ShapeLaw (v : View) : Prop := ∀ a w e, InDom a w → v.load a w = .ok (some e) → Shape e

theorem readBase_shape {b : View} (hb : ShapeLaw b) : ∀ (l : List Intv) (rs : List RangeRead),
    (∀ i ∈ l, InDom (ibegin i) (ilen i)) → readBase b l = .ok (some rs) → ∀ rd ∈ rs, Shape rd.ex
  | [], rs, _, h => by
    simp only [readBase] at h
    cases h
    intro rd hrd; cases hrd
  | i :: is, rs, hd, h => by
    unfold readBase at h
    cases hl : b.load (ibegin i) (ilen i) with
    | error f => rw [hl] at h; cases h
    | ok r =>
      cases r with
      | none => rw [hl] at h; cases h
      | some ex =>
        rw [hl] at h
        simp only at h
        cases hr : readBase b is with
        | error f => rw [hr] at h; cases h
        | ok r2 =>
          cases r2 with
          | none => rw [hr] at h; cases h
          | some rs' =>
            rw [hr] at h
            cases h
            intro rd hrd
            rcases List.mem_cons.1 hrd with h1 | h1
            · subst h1
              exact hb _ _ _ (hd i (List.mem_cons_self ..)) hl
            · exact readBase_shape hb is rs' (fun x hx => hd x (List.mem_cons_of_mem _ hx)) hr rd h1

theorem readOver_shape {o : View} (ho : ShapeLaw o) : ∀ (l : List Intv) (rs : List RangeRead),
    (∀ i ∈ l, InDom (ibegin i) (ilen i)) → readOver o l = .ok rs → ∀ rd ∈ rs, Shape rd.ex
  | [], rs, _, h => by
    simp only [readOver] at h
    cases h
    intro rd hrd; cases hrd
  | i :: is, rs, hd, h => by
    unfold readOver at h
    cases hl : o.load (ibegin i) (ilen i) with
    | error f => rw [hl] at h; cases h
    | ok r =>
      cases r with
      | none => rw [hl] at h; cases h
      | some ex =>
        rw [hl] at h
        simp only at h
        cases hr : readOver o is with
        | error f => rw [hr] at h; cases h
        | ok rs' =>
          rw [hr] at h
          cases h
          intro rd hrd
          rcases List.mem_cons.1 hrd with h1 | h1
          · subst h1
            exact ho _ _ _ (hd i (List.mem_cons_self ..)) hl
          · exact readOver_shape ho is rs' (fun x hx => hd x (List.mem_cons_of_mem _ hx)) hr rd h1

theorem combine_shape (addr w : Nat) (h1 : 1 ≤ w) (h2 : w ≤ 255) : ∀ (rs : List RangeRead) (acc : Expr),
    (∀ rd ∈ rs, Shape rd.ex) → Shape acc → Shape (combine addr w rs acc)
  | [], acc, _, ha => ha
  | r :: rs, acc, hrs, ha => by
    unfold combine
    apply combine_shape addr w h1 h2 rs _ (fun x hx => hrs x (List.mem_cons_of_mem _ hx))
    apply shape_bitOr ha _ h1 h2
    unfold offsetExpr
    exact shape_binary (hrs r (List.mem_cons_self ..)) (shape_constUint _ (by decide) (by decide)) .lsh h1 h2

theorem overlay_shape {b o : View} {mb mo : AbsMem} (_hb : MemLaws b mb) (ho : MemLaws o mo)
    (sb : ShapeLaw b) (so : ShapeLaw o) : ShapeLaw (Overlay.view b o) := by
  intro a w e hd h
  obtain ⟨miss, hm1, hm2, hm3⟩ := ho.missing a w hd
  obtain ⟨hw1, hw, h64⟩ := hd
  have hd : InDom a w := ⟨hw1, hw, h64⟩
  change Overlay.load b o a w = .ok (some e) at h
  unfold Overlay.load at h
  rw [hm1] at h
  simp only at h
  by_cases h0 : miss.length = 0
  · rw [if_pos h0] at h
    exact so a w e hd h
  · rw [if_neg h0] at h
    have hend : Sparse.endAddr a w = a + w := by unfold Sparse.endAddr; omega
    have hnew : newIntv a (Sparse.endAddr a w) = .ok ((a : Int), ((a + w : Nat) : Int)) := by
      rw [hend]; unfold newIntv; rw [if_neg (by omega)]
    rw [hnew] at h
    simp only at h
    have hwhole : newMap [((a : Int), ((a + w : Nat) : Int))] = [((a : Int), ((a + w : Nat) : Int))] := by
      simp [newMap, sortByBegin, insertByBegin, addInterval]
    rw [hwhole] at h
    by_cases heq : [((a : Int), ((a + w : Nat) : Int))] = miss
    · rw [if_pos heq] at h
      exact sb a w e hd h
    · rw [if_neg heq] at h
      have hNw : Normal [((a : Int), ((a + w : Nat) : Int))] := by
        show (a : Int) < ((a + w : Nat) : Int)
        omega
      have hov1 := Lemmas.Interval.complement_normal _ miss hNw hm2
      have hov2 := Lemmas.Interval.complement_mem _ miss hNw hm2
      generalize mapComplement [((a : Int), ((a + w : Nat) : Int))] miss = ov at hov1 hov2 h
      have hsubM : ∀ i ∈ miss, Sub a w i :=
        Lemmas.Overlay.sub_of_normal hm2 (fun x hx => ⟨((hm3 x).1 hx).1, ((hm3 x).1 hx).2.1⟩)
      have hsubO : ∀ i ∈ ov, Sub a w i := by
        apply Lemmas.Overlay.sub_of_normal hov1
        intro x hx
        have := ((hov2 x).1 hx).1
        rw [Lemmas.Interval.mem_singleton] at this
        simp only at this
        omega
      cases hr1 : readBase b miss with
      | error f => rw [hr1] at h; cases h
      | ok r1o =>
        cases r1o with
        | none => rw [hr1] at h; cases h
        | some r1 =>
          rw [hr1] at h
          simp only at h
          cases hr2 : readOver o ov with
          | error f => rw [hr2] at h; cases h
          | ok r2 =>
            rw [hr2] at h
            simp only at h
            have hs1 := readBase_shape sb miss r1 (fun i hi => sub_inDom (hsubM i hi) hd) hr1
            have hs2 := readOver_shape so ov r2 (fun i hi => sub_inDom (hsubO i hi) hd) hr2
            have hall : ∀ rd ∈ sortReads (r1 ++ r2), Shape rd.ex := by
              intro rd hrd
              rw [Lemmas.Overlay.mem_sortReads] at hrd
              rcases List.mem_append.1 hrd with h' | h'
              · exact hs1 rd h'
              · exact hs2 rd h'
            cases hsr : sortReads (r1 ++ r2) with
            | nil => rw [hsr] at h; cases h
            | cons r0 rest =>
              rw [hsr] at h hall
              simp only at h
              cases h
              exact combine_shape a w hw1 hw rest r0.ex (fun x hx => hall x (List.mem_cons_of_mem _ hx))
                (hall r0 (List.mem_cons_self ..))

theorem bytes_shape (bs : List BytesMem.Block) : ShapeLaw (bytesView bs) := by
  intro a w e hd h
  change bytesLoad bs a w = .ok (some e) at h
  unfold bytesLoad at h
  split at h
  · rename_i r hr
    cases r with
    | none => cases h
    | some v =>
      simp only [Option.map] at h
      cases h
      unfold BytesMem.load at hr
      dsimp only at hr
      split at hr
      · cases hr
      · split at hr
        · cases hr
        · split at hr
          · cases hr
          · split at hr
            · cases hr
            · rename_i s hs
              cases hr
              have : (Const.newConst s w).length = w := Lemmas.Transform.exprevalSetWidth_length s w
              exact shape_const (by rw [this]; exact hd.1) (by rw [this]; exact hd.2.1)
  · cases h

theorem sparse_shape {t : Sparse.Tree} (hinv : Sparse.Inv t) (hc : TreeConst t) : ShapeLaw (sparseView t) := by
  intro a w e hd h
  change liftS (Sparse.load t a w) = .ok (some e) at h
  cases hl : Sparse.load t a w with
  | error x => rw [hl] at h; cases h
  | ok r =>
    rw [hl] at h
    cases h
    exact sparse_load_shape hinv hc hd.1 hd.2.1 hl

theorem mem_shape : ∀ m : Mem, m.Inv → AllConst m → ShapeLaw m.view
  | .bytes bs, _, _ => bytes_shape bs
  | .sparse _, hi, hc => sparse_shape hi hc
  | .overlay b o, hi, hc =>
    overlay_shape (Lemmas.Overlay.mem_laws b hi.1) (Lemmas.Overlay.mem_laws o hi.2)
      (mem_shape b hi.1 hc.1) (mem_shape o hi.2 hc.2)

/-- every successful load (in the domain) from a memory map that stores constants only is closed and
well formed -/
theorem memmap_shape {m : MemMap} (hi : m.Inv) (hc : MemsConst m) {key : String} {a w : Nat} {e : Expr}
    (hd : InDom a w) (h : m.load key a w = .ok (some e)) : Shape e := by
  unfold MemMap.load at h
  cases hg : assocGet key m with
  | none => rw [hg] at h; cases h
  | some mem =>
    rw [hg] at h
    exact mem_shape mem (hi key mem hg) (hc key mem hg) a w e hd h

end Mltwist.Lemmas.Emulator
