import Mltwist.Lemmas.ComposeListingRun
import Mltwist.Lemmas.ComposeDeps
import Mltwist.Lemmas.ListingEntry
/-
COMPOSITION, part 9: the address assumptions of C31 (`Spec.AddrWF`, "concerns the code model underneath") over the
REAL dependency model.

`Props.C31.entrypoint_lands` assumes of the code the listing sees: current addresses ascend strictly inside every
block and lie inside the block, the address ranges of the blocks are pairwise disjoint.  For the view of a real
`Deps.Code` this is a consequence of C07's invariant (instructions tile their block, block objects are sorted and
disjoint) — provided no block ends exactly at `2^64` (`NoTop`: the listing compares with the exclusive end
`End()`, which is 0 for such a block; images loaded from a file never reach `2^64`: C20 `Fits`).

* `addrWF_listingOf`   `CInv c → NoTop c → AddrWF (listingOf info c)`;
* `noTop_sameCode`     `NoTop` is kept by every history of moves;
* `noTop_of_parse`     `NoTop` holds for the code `deps.NewCode` builds from the parser's instructions of a tidy image.
-/
namespace Mltwist.Lemmas.Compose
open Mltwist Mltwist.Deps Mltwist.Lemmas.Deps
open Mltwist.Listing.Spec (AddrWF)

/-- no block of the code ends at the very top of the address space -/
def NoTop (c : Deps.Code) : Prop := ∀ b ∈ c.store, b.begin + bytesI b.seq < Deps.M

theorem tilesI_ascending (a : Nat) (l : List Deps.Ins) (h : TilesI a l) :
    l.Pairwise fun x y => x.currAddr < y.currAddr := by
  induction l generalizing a with
  | nil => exact List.Pairwise.nil
  | cons x xs ih =>
    refine List.Pairwise.cons ?_ (ih (a + x.len) h.2.2)
    intro y hy
    obtain ⟨g1, _, _⟩ := tilesI_mem (a + x.len) xs h.2.2 y hy
    have := h.1
    have := h.2.1
    omega

theorem lInsList_getElem (info : Info) (b : Deps.Block) (i : Nat) (h : i < (lInsList info b).length) :
    (lInsList info b)[i] = lIns info b i (b.seq[i]'(by rw [lInsList_length] at h; exact h)) := by
  have := lInsList_get info b i
  rw [List.getElem?_eq_getElem h, List.getElem?_eq_getElem (by rw [lInsList_length] at h; exact h)] at this
  simpa using this

/-- C07 ⇒ the address assumptions of C31 on the view of the real code -/
theorem addrWF_listingOf (info : Info) {c : Deps.Code} (hc : CInv c) (hn : NoTop c) : AddrWF (listingOf info c) where
  inside := by
    intro lb hlb x hx
    simp only [listingOf, List.mem_map] at hlb
    obtain ⟨b, hb, rfl⟩ := hlb
    have hbs := curBlocks_mem b hb
    have hbi := hc.blocks b hbs
    obtain ⟨i, hi⟩ := List.getElem?_of_mem hx
    simp only [lBlock, lInsList_get] at hi
    cases hy : b.seq[i]? with
    | none => rw [hy] at hi; cases hi
    | some y =>
      rw [hy] at hi
      cases hi
      obtain ⟨g1, g2, g3⟩ := tilesI_mem _ _ hbi.tiles y (List.mem_of_getElem? hy)
      have hend : b.end_ = b.begin + bytesI b.seq := by
        rw [hbi.end_]; exact Nat.mod_eq_of_lt (hn b hbs)
      simp only [lBlock, lIns, hend]
      omega
  ascending := by
    intro lb hlb
    simp only [listingOf, List.mem_map] at hlb
    obtain ⟨b, hb, rfl⟩ := hlb
    have hbi := hc.blocks b (curBlocks_mem b hb)
    have hasc := tilesI_ascending _ _ hbi.tiles
    show (lInsList info b).Pairwise _
    rw [List.pairwise_iff_getElem]
    intro i j hi hj hij
    rw [lInsList_getElem info b i hi, lInsList_getElem info b j hj]
    simp only [lIns]
    exact (List.pairwise_iff_getElem.1 hasc) i j _ _ hij
  disjoint := by
    show ((curBlocks c).map (lBlock info)).Pairwise _
    rw [curBlocks_eq hc, List.map_map, List.pairwise_map]
    have hnd := blocks_nodup hc
    refine List.Pairwise.imp_of_mem ?_ hnd
    intro p q hp hq hpq
    have hpl := blocks_lt hc p hp
    have hql := blocks_lt hc q hq
    have e1 : c.store.getD p default = c.store[p] := by
      simp [List.getD_eq_getElem?_getD, List.getElem?_eq_getElem hpl]
    have e2 : c.store.getD q default = c.store[q] := by
      simp [List.getD_eq_getElem?_getD, List.getElem?_eq_getElem hql]
    simp only [Function.comp, e1, e2, lBlock]
    have h1 := hc.blocks _ (List.getElem_mem hpl)
    have h2 := hc.blocks _ (List.getElem_mem hql)
    have n1 := hn _ (List.getElem_mem hpl)
    have n2 := hn _ (List.getElem_mem hql)
    rw [h1.end_, h2.end_, Nat.mod_eq_of_lt n1, Nat.mod_eq_of_lt n2]
    rcases Nat.lt_or_gt_of_ne hpq with hlt | hgt
    · exact Or.inl ((List.pairwise_iff_getElem.1 hc.sorted) p q hpl hql hlt)
    · exact Or.inr ((List.pairwise_iff_getElem.1 hc.sorted) q p hql hpl hgt)

theorem bytesI_pos {b : Deps.Block} (hb : BInv b) : 0 < bytesI b.seq := by
  cases hs : b.seq with
  | nil => exact absurd hs hb.ne
  | cons x xs =>
    have := hb.tiles
    rw [hs] at this
    rw [bytesI_cons]
    have := this.2.1
    omega

/-- `NoTop` is kept by every history of moves (blocks keep their `Begin()` and `End()`) -/
theorem noTop_sameCode {c0 c : Deps.Code} (h0 : CInv c0) (hc : CInv c) (hs : SameCode c0 c) (hn : NoTop c0) :
    NoTop c := by
  intro b hb
  obtain ⟨p, hp, rfl⟩ := List.mem_iff_getElem.1 hb
  have hp0 : p < c0.store.length := by rw [← hs.len]; exact hp
  have sb := hs.blocks p hp0 hp
  have b0 := h0.blocks _ (List.getElem_mem hp0)
  have b1 := hc.blocks _ (List.getElem_mem hp)
  have n0 := hn _ (List.getElem_mem hp0)
  have e0 : (c0.store[p]).end_ = (c0.store[p]).begin + bytesI (c0.store[p]).seq := by
    rw [b0.end_]; exact Nat.mod_eq_of_lt n0
  have pos0 := bytesI_pos b0
  have pos1 := bytesI_pos b1
  have htop := b1.top
  have he := b1.end_
  rw [sb.end_, sb.begin, e0] at he
  rw [sb.begin] at htop ⊢
  by_cases hlt : (c0.store[p]).begin + bytesI (c.store[p]).seq < Deps.M
  · exact hlt
  · have : (c0.store[p]).begin + bytesI (c.store[p]).seq = Deps.M := by omega
    rw [this, Nat.mod_self] at he
    omega

/-- the code `deps.NewCode` builds from the parser's instructions of a tidy image has no block at the top of the
address space -/
theorem noTop_of_parse {bs : List Elf.Block} (ht : Elf.Spec.Tidy bs)
    {is : List (Parse.Ins (Riscv.Entry × Riscv.Ins))} (h : Parse.parseRv64 bs = .ok is) (entry : Nat) (c : Deps.Code)
    (hc : newCode entry (rawOf is) = .ok c) : NoTop c := by
  obtain ⟨hwf, _⟩ := wf_of_parse ht h
  have hta := (Props.C21.parse_ok_iff _ (Props.C21.rv_honest _) bs ht.1 is).1 h
  obtain ⟨l1, _⟩ := tilingAll_layout hta ht
  have hlt : ∀ z ∈ toBB (rawOf is), z.addr + z.len < Deps.M := by
    intro z hz
    rw [toBB_rawOf'] at hz
    obtain ⟨i, hi, rfl⟩ := List.mem_map.1 hz
    obtain ⟨g1, g2, _⟩ := l1 i hi
    show i.addr + i.bytes.length < 2 ^ 64
    rw [g1]; exact g2
  rw [newCode_unfold] at hc
  cases hp : BasicBlock.parse entry (toBB (rawOf is)) with
  | error e => rw [hp] at hc; cases hc
  | ok seqs =>
    rw [hp] at hc
    simp only [Except.bind] at hc
    cases hnb : newBlocks 0 (seqs.map fun s => s.filterMap (findRaw (rawIns (rawOf is)))) with
    | none => rw [hnb] at hc; cases hc
    | some blks =>
      rw [hnb] at hc
      simp only [Except.ok.injEq] at hc
      subst hc
      obtain ⟨_, _, _, hmem⟩ := parse_facts entry (rawOf is) hwf seqs hp
      obtain ⟨hlen, key⟩ := newBlocks_parsed entry (rawOf is) hwf seqs hp blks hnb
      intro b hb
      obtain ⟨j, hj, rfl⟩ := List.mem_iff_getElem.1 hb
      have hj' : j < seqs.length := by rw [← hlen]; exact hj
      obtain ⟨_, _, _, _, _, ⟨z, hz, hzb⟩⟩ := key j hj hj'
      rw [hzb]
      exact hlt z (hmem _ (List.getElem_mem hj') z hz)

end Mltwist.Lemmas.Compose
