import Mltwist.Lemmas.SparseMissing
/-
C14, part 7: transport along `SpecEq` and the history-level statements.
-/
namespace Mltwist.Lemmas.Sparse
open Mltwist Mltwist.Sparse Mltwist.Spec.Sparse Mltwist.Interval

theorem cellEq_none_iff {p q : Option Cell} (h : CellEq p q) : p = none ↔ q = none := by
  cases p <;> cases q <;> simp_all [CellEq]

theorem cellEq_byteAt {p q : Option Cell} (h : CellEq p q) (ρ : Env) : byteAt ρ p = byteAt ρ q := by
  cases p with
  | none => cases q with
    | none => rfl
    | some d => exact absurd h (by simp [CellEq])
  | some c => cases q with
    | none => exact absurd h (by simp [CellEq])
    | some d =>
      obtain ⟨h1, h2, h3, h4⟩ := h
      simp only [byteAt]
      rw [byteVal_eq ρ c h3, byteVal_eq ρ d h4, h1, h2]

theorem cellEq_trans {p q r : Option Cell} (h1 : CellEq p q) (h2 : CellEq q r) : CellEq p r := by
  cases p <;> cases q <;> cases r <;> simp_all [CellEq]

theorem SpecEq.trans {s1 s2 s3 : SpecMem} (h1 : SpecEq s1 s2) (h2 : SpecEq s2 s3) : SpecEq s1 s3 :=
  fun x => cellEq_trans (h1 x) (h2 x)

theorem SpecEq.store {s s' : SpecMem} (h : SpecEq s s') (a : Nat) (ex : Expr) (w : Nat) :
    SpecEq (s.store a ex w) (s'.store a ex w) := by
  intro x
  unfold SpecMem.store
  by_cases hx : a ≤ x ∧ x < a + w
  · rw [if_pos hx, if_pos hx]
    exact ⟨rfl, rfl, by simp only; omega, by simp only; omega⟩
  · rw [if_neg hx, if_neg hx]
    exact h x

theorem SpecEq.loadVal {s s' : SpecMem} (h : SpecEq s s') (ρ : Env) (a w : Nat) :
    loadVal ρ s a w = loadVal ρ s' a w := by
  unfold Spec.Sparse.loadVal
  exact sumBytes_congr w (fun i _ => cellEq_byteAt (h (a + i)) ρ)

/-- every history of in-domain stores runs without panic, keeps the invariant, and the tree denotes
the byte map obtained by replaying the history on the specification -/
theorem history_ok : ∀ (h : List StoreReq), (∀ r ∈ h, InDom r.addr r.w) →
    ∃ t, implOf h = .ok t ∧ Inv t ∧ SpecEq (abs t) (specOf h)
  | [], _ => ⟨[], rfl, ⟨List.Pairwise.nil, fun _ h => by cases h⟩, fun _ => trivial⟩
  | r :: rs, hd => by
    obtain ⟨t, h1, h2, h3⟩ := history_ok rs (fun r' h' => hd r' (List.mem_cons_of_mem _ h'))
    obtain ⟨t', h4, h5, h6⟩ := store_ok t h2 r.addr r.ex r.w (hd r List.mem_cons_self)
    refine ⟨t', ?_, h5, SpecEq.trans h6 (SpecEq.store h3 _ _ _)⟩
    unfold implOf
    rw [h1]
    exact h4

end Mltwist.Lemmas.Sparse
