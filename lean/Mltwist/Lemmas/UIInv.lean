import Mltwist.Lemmas.UIParse
import Mltwist.Lemmas.ListingRun
import Mltwist.Lemmas.MemViewRender
import Mltwist.Lemmas.RenderFits
/-
C22, part 2: the assumptions on the emulator (`EmuLawful`), the invariant of the UI state (`UIInv`),
value prompts and `Emulator.Step` over the console, `refreshCursor`, `emulate.New`.
-/
namespace Mltwist.Lemmas.UI
open Mltwist Mltwist.UI
open Mltwist.Listing.Spec (Lawful WF)
open Mltwist.Lemmas.MemView (NormalR Coh viewLines)

abbrev LInv := Mltwist.Lemmas.Listing.Inv

/-! ### assumptions on the emulator (discharged by other properties) -/

/-- the interaction tree of a step has no panic leaf, every state it ends in is good, and value widths
are `expr.Width` values (`uint8`) -/
inductive TreeSafe {σ : Type} (Good : σ → Prop) : StepTree σ → Prop where
  | done {s : σ} : Good s → TreeSafe Good (.done s)
  | fail {s : σ} : Good s → TreeSafe Good (.fail s)
  | ask {w : Nat} {k : Str → StepTree σ} : w ≤ 255 → (∀ c, TreeSafe Good (k c)) → TreeSafe Good (.ask w k)

/-- the memory handed to the memory view is what C32 calls coherent: `Blocks()` is a normal interval
list and every stored byte loads as a constant -/
def MemOK (m : MemView.Mem) : Prop := ∃ bl σ, NormalR bl ∧ Coh m bl σ

/-- What C22 takes from the emulator (`Good` = the emulator states that can arise):

* `step_safe` — **StepNeverPanics**: `Emulator.Step` never panics, whatever values the provider is
  given (C03; open finding F03 `memValue` concerns exactly this);
* `ip_some` — `MustIP` never panics: the instruction pointer register always holds a constant that
  fits an address (C03/C04: `emulator.New` stores it, `Step` stores constants of address width);
* `width_byte` — register widths are `expr.Width` values;
* `regs_oneIP` — the register file is a map: the instruction pointer key occurs at most once (C18);
* `mem_ok` — the memories of the emulator state are coherent in the sense of C32 (C14/C15/C16: the
  overlay of the program image and the sparse memory of constants). -/
structure EmuLawful {σ : Type} (ops : EmuOps σ) (Good : σ → Prop) : Prop where
  init_good : ∀ c ip, Good (ops.init c ip)
  ip_some : ∀ s, Good s → (ops.ip s).isSome = true
  step_safe : ∀ s, Good s → TreeSafe Good (ops.step s)
  store_good : ∀ s k v, Good s → Good (ops.regStore s k v)
  width_byte : ∀ s k w, Good s → ops.regWidth s k = some w → w ≤ 255
  regs_oneIP : ∀ s, Good s → Lemmas.Render.OneIP (ops.regs s)
  mem_ok : ∀ s k m, Good s → ops.mem s k = some m → MemOK m

/-! ### the invariant -/

/-- memory mode: the view was built from the memory it shows; the cursor is on a row -/
def MemInv (m : Option MemView.Mem) (v : MemView.View) : Prop :=
  ((m = none ∧ v.lines = []) ∨ ∃ mem bl σ, m = some mem ∧ NormalR bl ∧ Coh mem bl σ ∧ v.lines = viewLines bl) ∧
  (v.lines = [] ∨ v.cursor < v.lines.length)

def ModeInv {σ : Type} (Good : σ → Prop) : Mode σ → Prop
  | .dis st => LInv st
  | .emu e => LInv e.view ∧ Good e.emu
  | .mem m v => MemInv m v

/-- a mode on the stack: its command map is the map of its command table -/
def NMInv {σ : Type} (Good : σ → Prop) (nm : NamedMode σ) : Prop :=
  newCmdMap (commandsOf nm.mode.kind) = some nm.cmdMap ∧ ModeInv Good nm.mode

def UIInv {σ : Type} (Good : σ → Prop) (ui : UI σ) : Prop := ui.stack ≠ [] ∧ ∀ nm ∈ ui.stack, NMInv Good nm

theorem uiinv_cons {σ : Type} {Good : σ → Prop} {top : NamedMode σ} {below : List (NamedMode σ)}
    (h : UIInv Good ⟨top :: below⟩) : NMInv Good top ∧ ∀ nm ∈ below, NMInv Good nm :=
  ⟨h.2 top (by simp), fun nm hnm => h.2 nm (by simp [hnm])⟩

theorem uiinv_set_top {σ : Type} {Good : σ → Prop} {top : NamedMode σ} {below : List (NamedMode σ)}
    (h : UIInv Good ⟨top :: below⟩) (m' : Mode σ) (hk : m'.kind = top.mode.kind) (hm : ModeInv Good m') :
    UIInv Good ⟨{ top with mode := m' } :: below⟩ := by
  obtain ⟨ht, hb⟩ := uiinv_cons h
  refine ⟨by simp, fun nm hnm => ?_⟩
  simp only [List.mem_cons] at hnm
  rcases hnm with rfl | hnm
  · exact ⟨by simpa [hk] using ht.1, hm⟩
  · exact hb nm hnm

theorem addMode_safe {σ : Type} {Good : σ → Prop} (ui : UI σ) (h : UIInv Good ui) (name : Str) (m : Mode σ)
    (hm : ModeInv Good m) : ∃ ui', addMode ui name m = some ui' ∧ UIInv Good ui' := by
  have hs := newCmdMap_isSome m.kind
  cases hc : newCmdMap (commandsOf m.kind) with
  | none => simp [hc] at hs
  | some cm =>
    refine ⟨⟨⟨name, m, cm⟩ :: ui.stack⟩, by simp [addMode, hc], by simp, fun nm hnm => ?_⟩
    simp only [List.mem_cons] at hnm
    rcases hnm with rfl | hnm
    · exact ⟨hc, hm⟩
    · exact h.2 nm hnm

/-- the UI right after `consoleui.New(disassemble.New(code, emulF))` -/
theorem init_inv {σ : Type} (Good : σ → Prop) (code : Listing.Code) (hwf : WF code) :
    ∃ ui : UI σ, UI.init code = some ui ∧ UIInv Good ui := by
  have hs := newCmdMap_isSome .dis
  cases hc : newCmdMap (commandsOf .dis) with
  | none => simp [hc] at hs
  | some cm =>
    refine ⟨⟨[⟨b "app", .dis (Listing.St.init code), cm⟩]⟩, ?_, by simp, fun nm hnm => ?_⟩
    · simp [UI.init, addMode, Mode.kind, hc]
    · simp only [List.mem_singleton] at hnm
      subst hnm
      exact ⟨hc, Lemmas.Listing.inv_init code hwf⟩

/-! ### value prompts -/

/-- a value prompt never panics; it returns a value having consumed at least the value line, or it
starves at the end of the input -/
theorem readValueNoErr_safe (w : Nat) (hw : w ≤ 255) : ∀ inp : Input,
    match readValueNoErr w inp with
    | .value _ rest => rest.length < inp.length
    | .hang => True
    | .panic => False
  | [] => by simp [readValueNoErr]
  | [line] => by
    simp only [readValueNoErr]
    cases h : NumParse.readValue w line with
    | ok c => simp
    | err => simp
    | panic => exact absurd h (Lemmas.NumParse.readValue_no_panic w hw line)
  | line :: ack :: rest => by
    simp only [readValueNoErr]
    cases h : NumParse.readValue w line with
    | ok c => simp
    | err =>
      simp only
      have := readValueNoErr_safe w hw rest
      cases hr : readValueNoErr w rest with
      | value c r2 => simp only [hr] at this; simp only [List.length_cons]; omega
      | hang => trivial
      | panic => simp [hr] at this
    | panic => exact absurd h (Lemmas.NumParse.readValue_no_panic w hw line)

/-- the input at a value prompt holds no acceptable value: every line shown to `readValue` (every
second line: a rejected line is followed by an acknowledgement) is rejected -/
def Starved (w : Nat) : Input → Prop
  | [] => True
  | [l] => NumParse.readValue w l = .err
  | l :: _ :: r => NumParse.readValue w l = .err ∧ Starved w r

/-- a value prompt hangs exactly when the input ends before an acceptable value arrives -/
theorem readValueNoErr_hang_iff (w : Nat) : ∀ inp : Input, readValueNoErr w inp = .hang ↔ Starved w inp
  | [] => by simp [readValueNoErr, Starved]
  | [line] => by
    simp only [readValueNoErr, Starved]
    cases h : NumParse.readValue w line <;> simp
  | line :: ack :: rest => by
    simp only [readValueNoErr, Starved]
    cases h : NumParse.readValue w line with
    | ok c => simp
    | err => simpa using readValueNoErr_hang_iff w rest
    | panic => simp

/-- `Emulator.Step` over the console: no panic, the emulator ends in a good state, input is only consumed -/
theorem runTree_safe {σ : Type} {Good : σ → Prop} {t : StepTree σ} (ht : TreeSafe Good t) : ∀ inp : Input,
    match runTree t inp with
    | .done s rest => Good s ∧ rest.length ≤ inp.length
    | .fail s rest => Good s ∧ rest.length ≤ inp.length
    | .hang => True
    | .panic => False := by
  induction ht with
  | done hs => intro inp; simp [runTree, hs]
  | fail hs => intro inp; simp [runTree, hs]
  | @ask w k hw _ ih =>
    intro inp
    simp only [runTree]
    have hp := readValueNoErr_safe w hw inp
    cases hr : readValueNoErr w inp with
    | value c rest =>
      simp only [hr] at hp
      simp only
      have := ih c rest
      cases hq : runTree (k c) rest with
      | done s r2 => simp only [hq] at this; exact ⟨this.1, by omega⟩
      | fail s r2 => simp only [hq] at this; exact ⟨this.1, by omega⟩
      | hang => trivial
      | panic => simp [hq] at this
    | hang => simp
    | panic => simp [hr] at hp

/-! ### `refreshCursor`, `emulate.New` -/

theorem refreshCursor_safe {σ : Type} {Good : σ → Prop} (eops : EmuOps σ) (he : EmuLawful eops Good)
    (view : Listing.St) (hinv : LInv view) (s : σ) (hs : Good s) :
    match refreshCursor eops view s with
    | .ok v' => LInv v'
    | .err => True
    | .panic => False := by
  unfold refreshCursor
  have hip := he.ip_some s hs
  cases h1 : eops.ip s with
  | none => simp [h1] at hip
  | some ip =>
    simp only
    cases hb : view.code.address ip with
    | none => simp
    | some blk =>
      simp only
      cases hx : blk.address ip with
      | none => simp
      | some x =>
        simp only
        have hbm := Lemmas.Listing.code_address_mem _ _ _ hb
        have hbget := Lemmas.Listing.wf_getElem? view.code hinv.wf blk hbm
        obtain ⟨st, hst, _⟩ := Lemmas.Listing.start_bound view.code blk.idx blk hbget
        have hst' : view.lines.blockStarts[blk.idx]? = some st := by rw [hinv.starts]; exact hst
        simp only [Listing.Lines.line, hst']
        exact (Lemmas.Listing.setCursor_spec view hinv _).1.inv

theorem newEmu_safe {σ : Type} {Good : σ → Prop} (eops : EmuOps σ) (he : EmuLawful eops Good)
    (code : Listing.Code) (hwf : WF code) (ip : Nat) :
    match newEmu eops code ip with
    | .ok e => ModeInv Good (.emu e)
    | .err => True
    | .panic => False := by
  unfold newEmu
  have hg := he.init_good code ip
  have := refreshCursor_safe eops he (Listing.St.init code) (Lemmas.Listing.inv_init code hwf) _ hg
  simp only
  cases hq : refreshCursor eops (Listing.St.init code) (eops.init code ip) with
  | ok v => simp only [hq] at this; exact ⟨this, hg⟩
  | err => trivial
  | panic => simp [hq] at this

end Mltwist.Lemmas.UI
