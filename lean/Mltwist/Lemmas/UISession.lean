import Mltwist.Lemmas.UI
/-
C22, part 4: `UI.processCommand` (`uiStep`) never panics and keeps the invariant; whole sessions;
the view of the current mode prints without a panic.
-/
namespace Mltwist.Lemmas.UI
open Mltwist Mltwist.UI
open Mltwist.Listing.Spec (Lawful WF)
open Mltwist.Lemmas.MemView (NormalR Coh viewLines)

/-- what one call of `processCommand` may do: it never panics; when it returns nil the state satisfies
the invariant again, at least the command line was consumed, and the answer is `skipped` exactly for the
empty line -/
def StepOK {σ : Type} (Good : σ → Prop) (inp : Input) : Out σ → Prop
  | .cont a ui' rest => UIInv Good ui' ∧ rest.length < inp.length ∧ (a = .skipped ↔ inp.head? = some [])
  | .exited rest => rest.length < inp.length
  | .eof _ => True
  | .hang => True
  | .panic => False

theorem ack_ok {σ : Type} {Good : σ → Prop} (ui : UI σ) (h : UIInv Good ui) (line : Str) (hne : line ≠ [])
    (rest inp' : Input) (hlen : inp'.length ≤ rest.length) : StepOK Good (line :: rest) (ack ui inp') := by
  cases inp' with
  | nil => trivial
  | cons l r =>
    refine ⟨h, by simp only [List.length_cons] at hlen ⊢; omega, ?_⟩
    simp [hne]

theorem quitMode_ok {σ : Type} {Good : σ → Prop} (ui : UI σ) (h : UIInv Good ui) (line : Str) (hne : line ≠ [])
    (rest inp' : Input) (hlen : inp'.length ≤ rest.length) : StepOK Good (line :: rest) (quitMode ui inp') := by
  unfold quitMode
  cases hs : ui.stack with
  | nil => exact absurd hs h.1
  | cons top below =>
    simp only
    cases hb : below with
    | nil =>
      simp only [List.isEmpty_nil, ↓reduceIte]
      cases inp' with
      | nil => trivial
      | cons l r => show r.length < (line :: rest).length; simp only [List.length_cons] at hlen ⊢; omega
    | cons nm more =>
      simp only [List.isEmpty_cons, Bool.false_eq_true, ↓reduceIte]
      cases inp' with
      | nil => trivial
      | cons l r =>
        refine ⟨⟨by simp, fun x hx => h.2 x ?_⟩, by simp only [List.length_cons] at hlen ⊢; omega, by simp [hne]⟩
        rw [hs, hb]
        exact List.mem_cons_of_mem _ hx

/-- **`processCommand` never panics** — for every state satisfying the invariant and every input -/
theorem uiStep_safe {σ : Type} {Good : σ → Prop} (p : Params σ) (hl : Lawful p.cops)
    (he : EmuLawful p.eops Good) (ui : UI σ) (h : UIInv Good ui) (inp : Input) :
    StepOK Good inp (uiStep p ui inp) := by
  unfold uiStep uiStepWith
  cases inp with
  | nil => trivial
  | cons line rest =>
    simp only
    by_cases hl0 : line.isEmpty = true
    · rw [if_pos hl0]
      have : line = [] := List.isEmpty_iff.mp hl0
      exact ⟨h, by simp, by simp [this]⟩
    · rw [if_neg hl0]
      have hne : line ≠ [] := fun hc => hl0 (by simp [hc])
      cases hs : ui.stack with
      | nil => exact absurd hs h.1
      | cons top below =>
        simp only
        have hui : UIInv Good ⟨top :: below⟩ := by
          have : ui = ⟨top :: below⟩ := by cases ui; simp_all
          rw [← this]; exact h
        have hnm := (uiinv_cons hui).1
        cases hp : parseCommandWith false top.cmdMap line with
        | panic => exact absurd hp (parseCommand_no_panic top.cmdMap line)
        | err => exact ack_ok ui h line hne rest rest (Nat.le_refl _)
        | ok cmd args =>
          simp only
          obtain ⟨⟨k, hfind⟩, hfit⟩ := parseCommand_ok top.cmdMap line cmd args hp
          have hmem := find_mem (commandsOf top.mode.kind) top.cmdMap hnm.1 k cmd hfind
          have hact := runAct_safe p hl he top below hui cmd hmem args hfit rest
          cases hr : runAct p top below cmd.act args rest with
          | panic => simp [hr, OutOK] at hact
          | hang => trivial
          | ok ui' rest' =>
            simp only [hr, OutOK] at hact
            exact ⟨hact.1, by simp only [List.length_cons]; omega, by simp [hne]⟩
          | err ui' rest' =>
            simp only [hr, OutOK] at hact
            exact ack_ok ui' hact.1 line hne rest rest' hact.2
          | quit ui' rest' =>
            simp only [hr, OutOK] at hact
            exact quitMode_ok ui' hact.1 line hne rest rest' hact.2

/-- a call hangs only in the value prompts of `step` and `regmod` -/
theorem uiStep_hang {σ : Type} {Good : σ → Prop} (p : Params σ) (hl : Lawful p.cops)
    (he : EmuLawful p.eops Good) (ui : UI σ) (h : UIInv Good ui) (inp : Input)
    (hh : uiStep p ui inp = .hang) :
    ∃ top below line rest cmd args, ui.stack = top :: below ∧ inp = line :: rest ∧
      parseCommand top.cmdMap line = .ok cmd args ∧ (cmd.act = .eStep ∨ cmd.act = .eRegmod) ∧
      runAct p top below cmd.act args rest = .hang := by
  unfold uiStep uiStepWith at hh
  cases inp with
  | nil => simp at hh
  | cons line rest =>
    simp only at hh
    by_cases hl0 : line.isEmpty = true
    · rw [if_pos hl0] at hh; cases hh
    · rw [if_neg hl0] at hh
      cases hs : ui.stack with
      | nil => exact absurd hs h.1
      | cons top below =>
        simp only [hs] at hh
        have hui : UIInv Good ⟨top :: below⟩ := by
          have : ui = ⟨top :: below⟩ := by cases ui; simp_all
          rw [← this]; exact h
        have hnm := (uiinv_cons hui).1
        cases hp : parseCommandWith false top.cmdMap line with
        | panic => simp [hp] at hh
        | err =>
          simp only [hp] at hh
          cases rest <;> simp [ack] at hh
        | ok cmd args =>
          simp only [hp] at hh
          obtain ⟨⟨k, hfind⟩, hfit⟩ := parseCommand_ok top.cmdMap line cmd args hp
          have hmem := find_mem (commandsOf top.mode.kind) top.cmdMap hnm.1 k cmd hfind
          have hact := runAct_safe p hl he top below hui cmd hmem args hfit rest
          cases hr : runAct p top below cmd.act args rest with
          | panic => simp [hr, OutOK] at hact
          | hang =>
            simp only [hr, OutOK] at hact
            exact ⟨top, below, line, rest, cmd, args, rfl, rfl, hp, hact, hr⟩
          | ok ui' rest' => simp [hr] at hh
          | err ui' rest' =>
            simp only [hr] at hh
            cases rest' <;> simp [ack] at hh
          | quit ui' rest' =>
            simp only [hr, OutOK] at hact
            simp only [hr, quitMode] at hh
            cases hs' : ui'.stack with
            | nil => exact absurd hs' hact.1.1
            | cons t bl =>
              simp only [hs'] at hh
              split at hh <;> cases rest' <;> simp at hh

/-- **whole sessions**: with fuel beyond the number of input lines the loop of `UI.Run` neither panics nor
runs out of fuel -/
theorem runWith_safe {σ : Type} {Good : σ → Prop} (p : Params σ) (hl : Lawful p.cops)
    (he : EmuLawful p.eops Good) : ∀ (fuel : Nat) (ui : UI σ) (inp : Input), UIInv Good ui → inp.length < fuel →
      runWith false p fuel ui inp ≠ .panic ∧ runWith false p fuel ui inp ≠ .outOfFuel
  | 0, _, _, _, hf => by omega
  | fuel + 1, ui, inp, h, hf => by
    have hs := uiStep_safe p hl he ui h inp
    unfold uiStep at hs
    simp only [runWith]
    cases hr : uiStepWith false p ui inp with
    | cont a ui' rest =>
      simp only [hr, StepOK] at hs
      exact runWith_safe p hl he fuel ui' rest hs.1 (by omega)
    | exited rest => simp
    | eof a => simp
    | hang => simp
    | panic => simp [hr, StepOK] at hs

theorem session_safe {σ : Type} {Good : σ → Prop} (p : Params σ) (hl : Lawful p.cops)
    (he : EmuLawful p.eops Good) (ui : UI σ) (h : UIInv Good ui) (inp : Input) :
    session p ui inp = .exited ∨ (∃ a, session p ui inp = .eof a) ∨ session p ui inp = .hang := by
  have := runWith_safe p hl he (inp.length + 1) ui inp h (by omega)
  unfold session
  cases hr : runWith false p (inp.length + 1) ui inp with
  | exited => exact Or.inl rfl
  | eof a => exact Or.inr (Or.inl ⟨a, rfl⟩)
  | hang => exact Or.inr (Or.inr rfl)
  | panic => simp [hr] at this
  | outOfFuel => simp [hr] at this

/-! ### rendering -/

theorem renderMode_safe {σ : Type} {Good : σ → Prop} (eops : EmuOps σ) (he : EmuLawful eops Good)
    (m : Mode σ) (hm : ModeInv Good m) (n : Nat) :
    (renderMode eops m n).status ≠ .panic ∧ (renderMode eops m n).status ≠ .outOfFuel := by
  cases m with
  | dis st =>
    show (Render.linesPrint _ _ n).status ≠ .panic ∧ (Render.linesPrint _ _ n).status ≠ .outOfFuel
    rw [Lemmas.Render.linesPrint_eq]
    simp
  | emu e =>
    have hg := Lemmas.Render.emuView_good e.view.lines.len e.view.cursor.value (eops.regs e.emu)
      (he.regs_oneIP e.emu hm.2)
    by_cases hn : (Render.emuView e.view.lines.len e.view.cursor.value (eops.regs e.emu)).minLines ≤ (n : Int)
    · exact ⟨(hg.fits n hn).1, (hg.fits n hn).2.1⟩
    · show (Render.compPrint false _ (n : Int)).status ≠ .panic ∧ (Render.compPrint false _ (n : Int)).status ≠ .outOfFuel
      rw [Lemmas.Render.comp_below_min false _ (n : Int) (by
        have : (Render.emuView e.view.lines.len e.view.cursor.value (eops.regs e.emu)).minLines =
          Render.compMinLines [Render.linesView e.view.lines.len e.view.cursor.value,
            Render.regView (eops.regs e.emu)] := rfl
        omega)]
      simp
  | mem mm v =>
    obtain ⟨hsrc, hcur⟩ := hm
    have hprint : ∃ out, MemView.print mm v n = some out := by
      rcases hsrc with ⟨rfl, hl⟩ | ⟨mem, bl, σ', rfl, hn, hc, hl⟩
      · exact ⟨MemView.noMemory, by simp [MemView.print, hl]⟩
      · have := Lemmas.MemView.print_eq hc hn v.cursor n
        have hv : v = ⟨viewLines bl, v.cursor⟩ := by cases v; simp_all
        rw [hv]
        exact ⟨_, this⟩
    obtain ⟨out, hout⟩ := hprint
    simp only [renderMode, hout]
    show (Render.memPrint v.lines.length v.cursor n).status ≠ .panic ∧
      (Render.memPrint v.lines.length v.cursor n).status ≠ .outOfFuel
    rcases hcur with hl | hc
    · rw [hl]
      simp [Lemmas.Render.memPrint_nocursor]
    · rw [Lemmas.Render.memPrint_eq _ _ n (by omega) hc]
      simp

/-- **the view of the current mode prints without a panic**, for every height -/
theorem renderTop_safe {σ : Type} {Good : σ → Prop} (eops : EmuOps σ) (he : EmuLawful eops Good)
    (ui : UI σ) (h : UIInv Good ui) (n : Nat) :
    (renderTop eops ui n).status ≠ .panic ∧ (renderTop eops ui n).status ≠ .outOfFuel := by
  unfold renderTop
  cases hs : ui.stack with
  | nil => exact absurd hs h.1
  | cons top below =>
    simp only
    exact renderMode_safe eops he top.mode (h.2 top (by simp [hs])).2 n

end Mltwist.Lemmas.UI
