import Mltwist.Lemmas.DepsMove
import Mltwist.Lemmas.DepsFwd
import Mltwist.Lemmas.DepsView
/-
The bookkeeping invariant of a block of the model (`BInv`), its consequences (bounds contain the
position, exact lookups) and its preservation by `Block.move` (C07).
-/
namespace Mltwist.Lemmas.Deps
open Mltwist Mltwist.Deps Mltwist.Deps.Spec

/-! ### recursive forms of the invariant's clauses -/

/-- indices are `k, k+1, …` -/
def IdxFrom : Nat → List Ins → Prop
  | _, [] => True
  | k, i :: rest => i.blockIdx = k ∧ IdxFrom (k + 1) rest

/-- the instructions have positive lengths and tile the addresses from `a` on -/
def TilesI : Nat → List Ins → Prop
  | _, [] => True
  | a, i :: rest => i.currAddr = a ∧ 0 < i.len ∧ TilesI (a + i.len) rest

def bytesI (l : List Ins) : Nat := (l.map (·.len)).sum

def idsOf (l : List Ins) : List Nat := l.map (·.id)

/-- the invariant of one block -/
structure BInv (b : Block) : Prop where
  ne : b.seq ≠ []
  idx : IdxFrom 0 b.seq
  ids : (idsOf b.seq).Perm (List.range b.seq.length)
  tiles : TilesI b.begin b.seq
  top : b.begin + bytesI b.seq ≤ M
  end_ : b.end_ = (b.begin + bytesI b.seq) % M
  fwd : Fwd (idsOf b.seq) b.edges

theorem idxFrom_append (k : Nat) (l1 l2 : List Ins) :
    IdxFrom k (l1 ++ l2) ↔ IdxFrom k l1 ∧ IdxFrom (k + l1.length) l2 := by
  induction l1 generalizing k with
  | nil => simp [IdxFrom]
  | cons x xs ih =>
    simp only [List.cons_append, IdxFrom, ih, List.length_cons]
    rw [show k + 1 + xs.length = k + (xs.length + 1) by omega]
    exact and_assoc.symm

theorem bytesI_append (l1 l2 : List Ins) : bytesI (l1 ++ l2) = bytesI l1 + bytesI l2 := by
  simp [bytesI]

theorem bytesI_cons (x : Ins) (l : List Ins) : bytesI (x :: l) = x.len + bytesI l := by
  simp [bytesI]

theorem tilesI_append (a : Nat) (l1 l2 : List Ins) :
    TilesI a (l1 ++ l2) ↔ TilesI a l1 ∧ TilesI (a + bytesI l1) l2 := by
  induction l1 generalizing a with
  | nil => simp [TilesI, bytesI]
  | cons x xs ih =>
    simp only [List.cons_append, TilesI, ih, bytesI_cons]
    rw [show a + x.len + bytesI xs = a + (x.len + bytesI xs) by omega]
    constructor
    · rintro ⟨h1, h2, h3, h4⟩; exact ⟨⟨h1, h2, h3⟩, h4⟩
    · rintro ⟨⟨h1, h2, h3⟩, h4⟩; exact ⟨h1, h2, h3, h4⟩

theorem idxFrom_getElem (k : Nat) (l : List Ins) (h : IdxFrom k l) (j : Nat) (hj : j < l.length) :
    l[j].blockIdx = k + j := by
  induction l generalizing k j with
  | nil => simp at hj
  | cons x xs ih =>
    cases j with
    | zero => simpa using h.1
    | succ j =>
      have := ih (k + 1) h.2 j (by simpa using hj)
      simp only [List.getElem_cons_succ, this]
      omega

theorem tilesI_pos (a : Nat) (l : List Ins) (h : TilesI a l) : ∀ i ∈ l, 0 < i.len := by
  induction l generalizing a with
  | nil => simp
  | cons x xs ih =>
    intro i hi
    rcases List.mem_cons.1 hi with rfl | hi
    · exact h.2.1
    · exact ih _ h.2.2 i hi

theorem tilesI_getElem (a : Nat) (l : List Ins) (h : TilesI a l) (j : Nat) (hj : j < l.length) :
    l[j].currAddr = a + bytesI (l.take j) := by
  induction l generalizing a j with
  | nil => simp at hj
  | cons x xs ih =>
    cases j with
    | zero => simpa [bytesI] using h.1
    | succ j =>
      have := ih (a + x.len) h.2.2 j (by simpa using hj)
      simp only [List.getElem_cons_succ, this, List.take_succ_cons, bytesI_cons]
      omega

/-! ### `readdr` on instructions -/

theorem readdr_static (k a : Nat) (l : List Ins) :
    (readdr insMovable k a l).map Ins.static = l.map Ins.static :=
  readdr_map insMovable Ins.static (fun _ _ => rfl) (fun _ _ => rfl) k a l

theorem readdr_ids (k a : Nat) (l : List Ins) : idsOf (readdr insMovable k a l) = idsOf l :=
  readdr_map insMovable (·.id) (fun _ _ => rfl) (fun _ _ => rfl) k a l

theorem readdr_lens (k a : Nat) (l : List Ins) :
    (readdr insMovable k a l).map (·.len) = l.map (·.len) :=
  readdr_map insMovable (·.len) (fun _ _ => rfl) (fun _ _ => rfl) k a l

theorem readdr_bytes (k a : Nat) (l : List Ins) : bytesI (readdr insMovable k a l) = bytesI l := by
  simp [bytesI, readdr_lens]

theorem readdr_idx (k a : Nat) (l : List Ins) : IdxFrom k (readdr insMovable k a l) := by
  induction l generalizing k a with
  | nil => simp [readdr, IdxFrom]
  | cons x xs ih =>
    simp only [readdr, IdxFrom]
    exact ⟨rfl, ih _ _⟩

theorem readdr_tiles (k a : Nat) (l : List Ins) (hpos : ∀ i ∈ l, 0 < i.len)
    (htop : a + bytesI l ≤ M) : TilesI a (readdr insMovable k a l) := by
  induction l generalizing k a with
  | nil => simp [readdr, TilesI]
  | cons x xs ih =>
    simp only [readdr, TilesI]
    refine ⟨rfl, hpos x (by simp), ?_⟩
    cases xs with
    | nil => simp [readdr, TilesI]
    | cons y ys =>
      have hy : 0 < y.len := hpos y (by simp)
      have hb : a + x.len + (y.len + bytesI ys) ≤ M := by
        have := htop; simp only [bytesI_cons] at this; omega
      have he : insMovable.end_ (insMovable.setAddr (insMovable.setIndex x k) a) = a + x.len := by
        show (a + x.len) % M = a + x.len
        exact Nat.mod_eq_of_lt (by omega)
      rw [he]
      exact ih (k + 1) (a + x.len) (fun i hi => hpos i (by simp [hi]))
        (by simp only [bytesI_cons]; omega)

/-! ### positions, `blockIdxOf`, `findBound` -/

theorem blockIdxOf_eq (k : Nat) (l : List Ins) (h : IdxFrom k l) (id : Nat) (hm : id ∈ idsOf l) :
    blockIdxOf l id = some (k + (idsOf l).idxOf id) := by
  induction l generalizing k with
  | nil => simp [idsOf] at hm
  | cons x xs ih =>
    by_cases hx : x.id = id
    · simp [blockIdxOf, idsOf, hx, h.1]
    · have hm' : id ∈ idsOf xs := by
        simp only [idsOf, List.map_cons, List.mem_cons] at hm
        rcases hm with hm | hm
        · exact absurd hm.symm hx
        · exact hm
      have := ih (k + 1) h.2 hm'
      have hb : (x.id == id) = false := by simpa using hx
      simp only [blockIdxOf, List.find?_cons, hb] at this ⊢
      rw [this]
      simp only [idsOf, List.map_cons, List.idxOf_cons, hb, cond_false]
      congr 1; omega

theorem blockIdxOf_none (l : List Ins) (id : Nat) (hm : id ∉ idsOf l) : blockIdxOf l id = none := by
  induction l with
  | nil => simp [blockIdxOf]
  | cons x xs ih =>
    simp only [idsOf, List.map_cons, List.mem_cons, not_or] at hm
    have hb : (x.id == id) = false := by simpa using fun h => hm.1 h.symm
    have := ih hm.2
    simp only [blockIdxOf, List.find?_cons, hb] at this ⊢
    exact this

/-- the values `findBound` looks at -/
def boundVals (seq : List Ins) (set : List Nat) : List Nat := set.filterMap (blockIdxOf seq)

/-- `r` is a best element of `vals` (none iff there is no element) -/
def BestOf (cmpF : Nat → Nat → Bool) (vals : List Nat) : Option Nat → Prop
  | none => vals = []
  | some c => c ∈ vals ∧ ∀ p ∈ vals, cmpF p c = false

theorem findBound_foldl (cmpF : Nat → Nat → Bool)
    (htr : ∀ p c b, cmpF p c = false → cmpF b c = true → cmpF p b = false)
    (hirr : ∀ b, cmpF b b = false)
    (seq : List Ins) (set : List Nat) (done : List Nat) (curr : Option Nat)
    (hc : BestOf cmpF done curr) :
    BestOf cmpF (done ++ boundVals seq set) (set.foldl (fun curr id =>
        match blockIdxOf seq id with
        | none => curr
        | some bi =>
          match curr with
          | none => some bi
          | some c => if cmpF bi c then some bi else curr) curr) := by
  induction set generalizing done curr with
  | nil =>
    simp only [List.foldl_nil, boundVals, List.filterMap_nil, List.append_nil]
    exact hc
  | cons id rest ih =>
    simp only [List.foldl_cons]
    cases hb : blockIdxOf seq id with
    | none =>
      have : boundVals seq (id :: rest) = boundVals seq rest := by simp [boundVals, hb]
      rw [this]
      exact ih done curr hc
    | some bi =>
      have : done ++ boundVals seq (id :: rest) = (done ++ [bi]) ++ boundVals seq rest := by
        simp [boundVals, hb]
      rw [this]
      cases curr with
      | none =>
        simp only [BestOf] at hc
        apply ih (done ++ [bi]) (some bi)
        subst hc
        simp [BestOf, hirr]
      | some c =>
        simp only [BestOf] at hc
        by_cases hcmp : cmpF bi c = true
        · simp only [hcmp, if_true]
          apply ih (done ++ [bi]) (some bi)
          refine ⟨by simp, ?_⟩
          intro p hp
          rcases List.mem_append.1 hp with hp | hp
          · exact htr p c bi (hc.2 p hp) hcmp
          · simp only [List.mem_singleton] at hp; subst hp; exact hirr _
        · have hcmp' : cmpF bi c = false := by simpa using hcmp
          simp only [hcmp', Bool.false_eq_true, if_false]
          apply ih (done ++ [bi]) (some c)
          refine ⟨by simp [hc.1], ?_⟩
          intro p hp
          rcases List.mem_append.1 hp with hp | hp
          · exact hc.2 p hp
          · simp only [List.mem_singleton] at hp; subst hp; exact hcmp'

theorem findBound_spec (cmpF : Nat → Nat → Bool)
    (htr : ∀ p c b, cmpF p c = false → cmpF b c = true → cmpF p b = false)
    (hirr : ∀ b, cmpF b b = false) (seq : List Ins) (set : List Nat) :
    BestOf cmpF (boundVals seq set) (findBound cmpF seq set) := by
  have := findBound_foldl cmpF htr hirr seq set [] none rfl
  rw [List.nil_append] at this
  exact this

theorem findBound_max (seq : List Ins) (set : List Nat) :
    (findBound (fun x y => decide (x > y)) seq set = none → boundVals seq set = []) ∧
    ∀ c, findBound (fun x y => decide (x > y)) seq set = some c →
      c ∈ boundVals seq set ∧ ∀ p ∈ boundVals seq set, p ≤ c := by
  have := findBound_spec (fun x y => decide (x > y))
    (by intro p c b h1 h2; simp at h1 h2 ⊢; omega) (by intro b; simp) seq set
  constructor
  · intro h; rw [h] at this; exact this
  · intro c h
    rw [h] at this
    exact ⟨this.1, fun p hp => by have := this.2 p hp; simpa using this⟩

theorem findBound_min (seq : List Ins) (set : List Nat) :
    (findBound (fun x y => decide (x < y)) seq set = none → boundVals seq set = []) ∧
    ∀ c, findBound (fun x y => decide (x < y)) seq set = some c →
      c ∈ boundVals seq set ∧ ∀ p ∈ boundVals seq set, c ≤ p := by
  have := findBound_spec (fun x y => decide (x < y))
    (by intro p c b h1 h2; simp at h1 h2 ⊢; omega) (by intro b; simp) seq set
  constructor
  · intro h; rw [h] at this; exact this
  · intro c h
    rw [h] at this
    exact ⟨this.1, fun p hp => by have := this.2 p hp; simpa using this⟩

/-! ### the bounds of a block that satisfies the invariant -/

theorem BInv.nodup {b : Block} (hb : BInv b) : (idsOf b.seq).Nodup :=
  (hb.ids.nodup_iff).2 List.nodup_range

theorem idsOf_length (l : List Ins) : (idsOf l).length = l.length := by simp [idsOf]

theorem idsOf_getElem (l : List Ins) (i : Nat) (hi : i < l.length) :
    (idsOf l)[i]'(by simpa [idsOf] using hi) = l[i].id := by simp [idsOf]

theorem BInv.idxOf_id {b : Block} (hb : BInv b) (i : Nat) (hi : i < b.seq.length) :
    (idsOf b.seq).idxOf b.seq[i].id = i := by
  have := hb.nodup.idxOf_getElem i (by simpa [idsOf] using hi)
  rwa [idsOf_getElem] at this

theorem BInv.mem_back {b : Block} (hb : BInv b) (id p : Nat) :
    p ∈ boundVals b.seq (b.depsBack id) ↔ ∃ e ∈ b.edges, e.2 = id ∧ p = (idsOf b.seq).idxOf e.1 := by
  simp only [boundVals, Block.depsBack, List.mem_filterMap]
  constructor
  · rintro ⟨x, ⟨e, he, hx⟩, hp⟩
    by_cases h2 : e.2 = id
    · simp only [h2, if_true, Option.some.injEq] at hx
      subst hx
      have hm := (hb.fwd e he).1
      rw [blockIdxOf_eq 0 b.seq hb.idx e.1 hm] at hp
      exact ⟨e, he, h2, by simp at hp; omega⟩
    · simp [h2] at hx
  · rintro ⟨e, he, h2, hp⟩
    refine ⟨e.1, ⟨e, he, by simp [h2]⟩, ?_⟩
    rw [blockIdxOf_eq 0 b.seq hb.idx e.1 (hb.fwd e he).1, hp]
    simp

theorem BInv.mem_fwd {b : Block} (hb : BInv b) (id p : Nat) :
    p ∈ boundVals b.seq (b.depsFwd id) ↔ ∃ e ∈ b.edges, e.1 = id ∧ p = (idsOf b.seq).idxOf e.2 := by
  simp only [boundVals, Block.depsFwd, List.mem_filterMap]
  constructor
  · rintro ⟨x, ⟨e, he, hx⟩, hp⟩
    by_cases h2 : e.1 = id
    · simp only [h2, if_true, Option.some.injEq] at hx
      subst hx
      have hm := (hb.fwd e he).2.1
      rw [blockIdxOf_eq 0 b.seq hb.idx e.2 hm] at hp
      exact ⟨e, he, h2, by simp at hp; omega⟩
    · simp [h2] at hx
  · rintro ⟨e, he, h2, hp⟩
    refine ⟨e.2, ⟨e, he, by simp [h2]⟩, ?_⟩
    rw [blockIdxOf_eq 0 b.seq hb.idx e.2 (hb.fwd e he).2.1, hp]
    simp

theorem index_nat (b : Block) (i : Nat) (hi : i < b.seq.length) : b.index (i : Int) = some b.seq[i] := by
  simp [Block.index, hi]

/-- `LowerBound i` is at most `i` and lies behind every instruction `i` depends on -/
theorem BInv.lowerBound_spec {b : Block} (hb : BInv b) (i : Nat) (hi : i < b.seq.length) :
    ∃ lo : Nat, b.lowerBound (i : Int) = some (lo : Int) ∧ lo ≤ i ∧
      (∀ e ∈ b.edges, e.2 = b.seq[i].id → (idsOf b.seq).idxOf e.1 < lo) ∧
      (lo = 0 ∨ ∃ e ∈ b.edges, e.2 = b.seq[i].id ∧ (idsOf b.seq).idxOf e.1 + 1 = lo) := by
  have hmax := findBound_max b.seq (b.depsBack b.seq[i].id)
  have hpos : ∀ p ∈ boundVals b.seq (b.depsBack b.seq[i].id), p < i := by
    intro p hp
    obtain ⟨e, he, h2, rfl⟩ := (hb.mem_back _ _).1 hp
    have := (hb.fwd e he).2.2
    rw [h2, hb.idxOf_id i hi] at this
    exact this
  simp only [Block.lowerBound, index_nat b i hi, Option.map_some]
  cases h : findBound (fun x y => decide (x > y)) b.seq (b.depsBack b.seq[i].id) with
  | none =>
    refine ⟨0, by simp, Nat.zero_le _, ?_, Or.inl rfl⟩
    intro e he h2
    have hnil := hmax.1 h
    have : (idsOf b.seq).idxOf e.1 ∈ boundVals b.seq (b.depsBack b.seq[i].id) :=
      (hb.mem_back _ _).2 ⟨e, he, h2, rfl⟩
    rw [hnil] at this
    simp at this
  | some c =>
    obtain ⟨hc, hle⟩ := hmax.2 c h
    refine ⟨c + 1, by simp, hpos c hc, ?_, Or.inr ?_⟩
    · intro e he h2
      have := hle _ ((hb.mem_back _ _).2 ⟨e, he, h2, rfl⟩)
      omega
    · obtain ⟨e, he, h2, h3⟩ := (hb.mem_back _ _).1 hc
      exact ⟨e, he, h2, by omega⟩

/-- `UpperBound i` is at least `i` and lies before every instruction that depends on `i` -/
theorem BInv.upperBound_spec {b : Block} (hb : BInv b) (i : Nat) (hi : i < b.seq.length) :
    ∃ up : Nat, b.upperBound (i : Int) = some (up : Int) ∧ i ≤ up ∧ up < b.seq.length ∧
      (∀ e ∈ b.edges, e.1 = b.seq[i].id → up < (idsOf b.seq).idxOf e.2) ∧
      (up + 1 = b.seq.length ∨ ∃ e ∈ b.edges, e.1 = b.seq[i].id ∧ (idsOf b.seq).idxOf e.2 = up + 1) := by
  have hmin := findBound_min b.seq (b.depsFwd b.seq[i].id)
  have hpos : ∀ p ∈ boundVals b.seq (b.depsFwd b.seq[i].id), i < p ∧ p < b.seq.length := by
    intro p hp
    obtain ⟨e, he, h2, rfl⟩ := (hb.mem_fwd _ _).1 hp
    have := (hb.fwd e he).2.2
    rw [h2, hb.idxOf_id i hi] at this
    refine ⟨this, ?_⟩
    have := List.idxOf_lt_length_of_mem (hb.fwd e he).2.1
    rwa [idsOf_length] at this
  simp only [Block.upperBound, index_nat b i hi, Option.map_some]
  cases h : findBound (fun x y => decide (x < y)) b.seq (b.depsFwd b.seq[i].id) with
  | none =>
    refine ⟨b.seq.length - 1, ?_, by omega, by omega, ?_, Or.inl (by omega)⟩
    · simp only [Option.some.injEq]; omega
    · intro e he h2
      have hnil := hmin.1 h
      have : (idsOf b.seq).idxOf e.2 ∈ boundVals b.seq (b.depsFwd b.seq[i].id) :=
        (hb.mem_fwd _ _).2 ⟨e, he, h2, rfl⟩
      rw [hnil] at this
      simp at this
  | some c =>
    obtain ⟨hc, hle⟩ := hmin.2 c h
    have hc' := hpos c hc
    refine ⟨c - 1, ?_, by omega, by omega, ?_, Or.inr ?_⟩
    · simp only [Option.some.injEq]; omega
    · intro e he h2
      have := hle _ ((hb.mem_fwd _ _).2 ⟨e, he, h2, rfl⟩)
      omega
    · obtain ⟨e, he, h2, h3⟩ := (hb.mem_fwd _ _).1 hc
      exact ⟨e, he, h2, by omega⟩

/-! ### `checkMove` -/

theorem checkFromToIndex_ok (f t : Int) (n : Nat) :
    checkFromToIndex f t n = .ok () ↔ 0 ≤ f ∧ f < n ∧ 0 ≤ t ∧ t < n := by
  unfold checkFromToIndex
  by_cases h1 : f < 0
  · simp [h1]; omega
  · by_cases h2 : f ≥ (n : Int)
    · simp [h1, h2]; omega
    · by_cases h3 : t < 0
      · simp [h1, h2, h3]; omega
      · by_cases h4 : t ≥ (n : Int)
        · simp [h1, h2, h3, h4]
        · simp [h1, h2, h3, h4]; omega

theorem checkFromToIndex_cases (f t : Int) (n : Nat) :
    checkFromToIndex f t n = .ok () ∨ ∃ e, checkFromToIndex f t n = .error e ∧ e ≠ .panic := by
  unfold checkFromToIndex
  split
  · exact Or.inr ⟨_, rfl, by simp⟩
  · split
    · exact Or.inr ⟨_, rfl, by simp⟩
    · split
      · exact Or.inr ⟨_, rfl, by simp⟩
      · split
        · exact Or.inr ⟨_, rfl, by simp⟩
        · exact Or.inl rfl

/-- a move is accepted exactly when both positions are valid and the target lies within the bounds
the tool reports -/
theorem BInv.checkMove_iff {b : Block} (hb : BInv b) (f t : Int) :
    b.checkMove f t = .ok () ↔
      0 ≤ f ∧ f < b.seq.length ∧ 0 ≤ t ∧ t < b.seq.length ∧
      ∃ lo up : Int, b.lowerBound f = some lo ∧ b.upperBound f = some up ∧ lo ≤ t ∧ t ≤ up := by
  unfold Block.checkMove
  rcases checkFromToIndex_cases f t b.seq.length with hok | ⟨e, he, _⟩
  · have hv := (checkFromToIndex_ok f t b.seq.length).1 hok
    obtain ⟨h0, h1, h2, h3⟩ := hv
    obtain ⟨i, rfl⟩ := Int.eq_ofNat_of_zero_le h0
    have hi : i < b.seq.length := by omega
    obtain ⟨lo, hlo, hlo1, _, _⟩ := hb.lowerBound_spec i hi
    obtain ⟨up, hup, hup1, _, _, _⟩ := hb.upperBound_spec i hi
    simp only [hok, hlo, hup, bind, Except.bind]
    constructor
    · intro h
      refine ⟨h0, h1, h2, h3, lo, up, rfl, rfl, ?_, ?_⟩
      · by_cases c1 : (i : Int) < t
        · omega
        · by_cases c2 : (i : Int) > t
          · simp only [c1, if_false, c2, if_true] at h
            by_cases c3 : (lo : Int) > t
            · simp [c3] at h
            · omega
          · omega
      · by_cases c1 : (i : Int) < t
        · simp only [c1, if_true] at h
          by_cases c3 : (up : Int) < t
          · simp [c3] at h
          · omega
        · omega
    · rintro ⟨_, _, _, _, lo', up', e1, e2, h5, h6⟩
      cases e1; cases e2
      by_cases c1 : (i : Int) < t
      · simp only [c1, if_true]
        have : ¬ (up : Int) < t := by omega
        simp [this]; rfl
      · by_cases c2 : (i : Int) > t
        · simp only [c1, if_false, c2, if_true]
          have : ¬ (lo : Int) > t := by omega
          simp [this]; rfl
        · simp only [c1, if_false, c2]; rfl
  · simp only [he, bind, Except.bind]
    constructor
    · intro h; cases h
    · rintro ⟨h0, h1, h2, h3, _⟩
      have := (checkFromToIndex_ok f t b.seq.length).2 ⟨h0, h1, h2, h3⟩
      rw [he] at this; cases this

/-! ### the moved sequence -/

theorem split3 {α : Type} (l : List α) (lo hi : Nat) (h : lo ≤ hi) :
    l = l.take lo ++ (l.drop lo).take (hi - lo + 1) ++ l.drop (hi + 1) := by
  have h1 : l = l.take lo ++ l.drop lo := (List.take_append_drop _ _).symm
  have h2 : l.drop lo = (l.drop lo).take (hi - lo + 1) ++ (l.drop lo).drop (hi - lo + 1) :=
    (List.take_append_drop _ _).symm
  have h3 : (l.drop lo).drop (hi - lo + 1) = l.drop (hi + 1) := by
    rw [List.drop_drop]; congr 1; omega
  conv => lhs; rw [h1, h2, h3]
  simp

theorem rotSeg_map {α β : Type} (g : α → β) (arr : List α) (f t : Nat) (x : α) :
    (rotSeg arr f t x).map g = rotSeg (arr.map g) f t (g x) := by
  unfold rotSeg
  split <;> simp [List.map_take, List.map_drop]

/-- the sequence after `move from to` (`from ≠ to`) -/
def movedSeq (seq : List Ins) (f t : Nat) (hf : f < seq.length) (ht : t < seq.length) : List Ins :=
  seq.take (min f t) ++
    readdr insMovable (min f t) (seq[min f t]'(by omega)).currAddr (rotSeg seq f t seq[f]) ++
    seq.drop (max f t + 1)

theorem move_ins (seq : List Ins) (f t : Nat) (hf : f < seq.length) (ht : t < seq.length) (hne : f ≠ t) :
    Deps.move insMovable seq f t = some (movedSeq seq f t hf ht) :=
  move_eq insMovable seq f t hf ht hne

theorem rotSeg_length {α : Type} (arr : List α) (f t : Nat) (hf : f < arr.length) (ht : t < arr.length)
    (hne : f ≠ t) : (rotSeg arr f t arr[f]).length = max f t - min f t + 1 := by
  have := (rotSeg_perm arr f t hf ht hne).length_eq
  rw [this, List.length_take, List.length_drop]
  omega

theorem movedSeq_map {β : Type} (g : Ins → β) (hi : ∀ x k, g (insMovable.setIndex x k) = g x)
    (ha : ∀ x a, g (insMovable.setAddr x a) = g x)
    (seq : List Ins) (f t : Nat) (hf : f < seq.length) (ht : t < seq.length) (hne : f ≠ t) :
    (movedSeq seq f t hf ht).map g = rotate (seq.map g) f t := by
  rw [rotate_eq (seq.map g) f t (by simpa using hf) (by simpa using ht) hne]
  simp only [movedSeq, List.map_append, readdr_map insMovable g hi ha, rotSeg_map, List.map_take,
    List.map_drop, List.getElem_map]

theorem movedSeq_static (seq : List Ins) (f t : Nat) (hf : f < seq.length) (ht : t < seq.length)
    (hne : f ≠ t) : (movedSeq seq f t hf ht).map Ins.static = rotate (seq.map Ins.static) f t :=
  movedSeq_map Ins.static (fun _ _ => rfl) (fun _ _ => rfl) seq f t hf ht hne

theorem movedSeq_ids (seq : List Ins) (f t : Nat) (hf : f < seq.length) (ht : t < seq.length)
    (hne : f ≠ t) : idsOf (movedSeq seq f t hf ht) = rotate (idsOf seq) f t :=
  movedSeq_map (·.id) (fun _ _ => rfl) (fun _ _ => rfl) seq f t hf ht hne

theorem rotate_perm {α : Type} (l : List α) (f t : Nat) (hf : f < l.length) (ht : t < l.length)
    (hne : f ≠ t) : (rotate l f t).Perm l := by
  rw [rotate_eq l f t hf ht hne]
  have h := split3 l (min f t) (max f t) (by omega)
  conv => rhs; rw [h]
  exact List.Perm.append_right _ (List.Perm.append_left _ (rotSeg_perm l f t hf ht hne))

theorem movedSeq_perm_lens (seq : List Ins) (f t : Nat) (hf : f < seq.length) (ht : t < seq.length)
    (hne : f ≠ t) : ((movedSeq seq f t hf ht).map (·.len)).Perm (seq.map (·.len)) := by
  rw [movedSeq_map (·.len) (fun _ _ => rfl) (fun _ _ => rfl) seq f t hf ht hne]
  exact rotate_perm _ f t (by simpa using hf) (by simpa using ht) hne

theorem movedSeq_length (seq : List Ins) (f t : Nat) (hf : f < seq.length) (ht : t < seq.length)
    (hne : f ≠ t) : (movedSeq seq f t hf ht).length = seq.length := by
  have := (movedSeq_perm_lens seq f t hf ht hne).length_eq
  simpa using this

theorem movedSeq_bytes (seq : List Ins) (f t : Nat) (hf : f < seq.length) (ht : t < seq.length)
    (hne : f ≠ t) : bytesI (movedSeq seq f t hf ht) = bytesI seq :=
  (movedSeq_perm_lens seq f t hf ht hne).sum_nat

/-! ### the invariant after a move -/

theorem bytesI_perm {l1 l2 : List Ins} (h : l1.Perm l2) : bytesI l1 = bytesI l2 := by
  unfold bytesI
  exact (List.Perm.map (fun (i : Ins) => i.len) h).sum_nat

theorem rotate_self {α : Type} (l : List α) (i : Nat) : rotate l i i = l := by
  induction l generalizing i with
  | nil => simp [rotate]
  | cons a l ih =>
    cases i with
    | zero => simp [rotate]
    | succ i =>
      have := ih i
      unfold rotate at this ⊢
      simp only [List.getElem?_cons_succ]
      cases h : l[i]? with
      | none => rfl
      | some x =>
        rw [h] at this
        simp only [List.eraseIdx_cons_succ, List.insertIdx_succ_cons]
        simp only at this
        rw [this]

theorem fwd_rotate (L : List Nat) (E : Edges) (hnd : L.Nodup) (h : Fwd L E) (f t : Nat)
    (hf : f < L.length) (ht : t < L.length) (hne : f ≠ t)
    (h1 : f < t → ∀ e ∈ E, e.1 = L[f] → t < L.idxOf e.2)
    (h2 : t < f → ∀ e ∈ E, e.2 = L[f] → L.idxOf e.1 < t) :
    Fwd (rotate L f t) E := by
  by_cases hft : f < t
  · obtain ⟨P, Q, S, harr, hP, hQ, _, _, _⟩ := split_seg L f (t - f) (by omega)
    have hb := h1 hft
    generalize L[f] = m at harr hb
    subst harr
    have hr := rotate_fwd_split P Q S m
    rw [hP, hQ, show f + (t - f) = t by omega] at hr
    rw [hr]
    apply fwd_move_fwd P Q S m E hnd h
    intro e he h1e hq
    have := hb e he h1e
    have hpos := (idxOf_amqs P Q S m e.2 hnd).2.2.1 hq
    omega
  · have htf : t < f := by omega
    obtain ⟨P, Q, S, harr, hP, hQ, _, _, _⟩ := split_at2 L t f (by omega) hf
    have hb := h2 htf
    generalize L[f] = m at harr hb
    subst harr
    have hr := rotate_back_split P Q S m
    rw [hP, hQ, show t + (f - t) = f by omega] at hr
    rw [hr]
    apply fwd_move_back P Q S m E hnd h
    intro e he h2e hq
    have := hb e he h2e
    have hpos := (idxOf_aqms P Q S m e.1 hnd).2.2.1 hq
    omega

theorem BInv.moved {b : Block} (hb : BInv b) (f t : Nat) (hf : f < b.seq.length)
    (ht : t < b.seq.length) (hne : f ≠ t)
    (h1 : f < t → ∀ e ∈ b.edges, e.1 = b.seq[f].id → t < (idsOf b.seq).idxOf e.2)
    (h2 : t < f → ∀ e ∈ b.edges, e.2 = b.seq[f].id → (idsOf b.seq).idxOf e.1 < t) :
    BInv { b with seq := movedSeq b.seq f t hf ht } := by
  have hlen := movedSeq_length b.seq f t hf ht hne
  have hsp := split3 b.seq (min f t) (max f t) (by omega)
  have hlo : (b.seq.take (min f t)).length = min f t := by
    rw [List.length_take]; omega
  have hseglen : ((b.seq.drop (min f t)).take (max f t - min f t + 1)).length = max f t - min f t + 1 := by
    rw [List.length_take, List.length_drop]; omega
  have hrl := rotSeg_length b.seq f t hf ht hne
  have hperm := rotSeg_perm b.seq f t hf ht hne
  -- decompose the old invariants along the split
  have hidx := hb.idx
  rw [hsp, idxFrom_append, idxFrom_append] at hidx
  have htl := hb.tiles
  rw [hsp, tilesI_append, tilesI_append] at htl
  have hbytes : bytesI b.seq = bytesI (b.seq.take (min f t)) +
      bytesI ((b.seq.drop (min f t)).take (max f t - min f t + 1)) + bytesI (b.seq.drop (max f t + 1)) := by
    conv => lhs; rw [hsp]
    rw [bytesI_append, bytesI_append]
  have ha0 : (b.seq[min f t]'(by omega)).currAddr = b.begin + bytesI (b.seq.take (min f t)) :=
    tilesI_getElem b.begin b.seq hb.tiles (min f t) (by omega)
  have hbr : bytesI (rotSeg b.seq f t b.seq[f]) =
      bytesI ((b.seq.drop (min f t)).take (max f t - min f t + 1)) := bytesI_perm hperm
  refine ⟨?_, ?_, ?_, ?_, ?_, ?_, ?_⟩
  · intro h
    have h' : movedSeq b.seq f t hf ht = [] := h
    have : (movedSeq b.seq f t hf ht).length = 0 := by rw [h']; rfl
    rw [hlen] at this
    exact hb.ne (List.eq_nil_of_length_eq_zero this)
  · show IdxFrom 0 (movedSeq b.seq f t hf ht)
    unfold movedSeq
    rw [idxFrom_append, idxFrom_append]
    refine ⟨⟨hidx.1.1, ?_⟩, ?_⟩
    · rw [hlo, Nat.zero_add]; exact readdr_idx _ _ _
    · have := hidx.2
      rw [List.length_append, hlo, hseglen] at this
      rw [List.length_append, hlo, readdr_length, hrl]
      exact this
  · show (idsOf (movedSeq b.seq f t hf ht)).Perm (List.range (movedSeq b.seq f t hf ht).length)
    rw [hlen, movedSeq_ids b.seq f t hf ht hne]
    exact (rotate_perm _ f t (by simpa [idsOf] using hf) (by simpa [idsOf] using ht) hne).trans hb.ids
  · show TilesI b.begin (movedSeq b.seq f t hf ht)
    unfold movedSeq
    rw [tilesI_append, tilesI_append]
    refine ⟨⟨htl.1.1, ?_⟩, ?_⟩
    · rw [ha0]
      apply readdr_tiles
      · intro i hi
        exact tilesI_pos _ _ htl.1.2 i (hperm.mem_iff.1 hi)
      · have := hb.top; rw [hbr]; omega
    · have := htl.2
      rw [bytesI_append] at this
      rw [bytesI_append, readdr_bytes, hbr]
      exact this
  · show b.begin + bytesI (movedSeq b.seq f t hf ht) ≤ M
    rw [movedSeq_bytes b.seq f t hf ht hne]; exact hb.top
  · show b.end_ = (b.begin + bytesI (movedSeq b.seq f t hf ht)) % M
    rw [movedSeq_bytes b.seq f t hf ht hne]; exact hb.end_
  · show Fwd (idsOf (movedSeq b.seq f t hf ht)) b.edges
    rw [movedSeq_ids b.seq f t hf ht hne]
    have hf' : f < (idsOf b.seq).length := by simpa [idsOf] using hf
    have ht' : t < (idsOf b.seq).length := by simpa [idsOf] using ht
    apply fwd_rotate (idsOf b.seq) b.edges hb.nodup hb.fwd f t hf' ht' hne
    · intro hft e he h; apply h1 hft e he; rw [h, idsOf_getElem]
    · intro htf e he h; apply h2 htf e he; rw [h, idsOf_getElem]

/-- `Block.Move` on a block that satisfies the invariant: it is accepted exactly when `checkMove`
accepts, it never panics, and the result satisfies the invariant again -/
theorem BInv.move_ok {b : Block} (hb : BInv b) (f t : Int) (hc : b.checkMove f t = .ok ()) :
    ∃ b', b.move f t = .ok b' ∧ BInv b' ∧ b'.begin = b.begin ∧ b'.end_ = b.end_ ∧ b'.edges = b.edges ∧
      b'.idx = b.idx ∧ b'.ptr = b.ptr ∧
      b'.seq.map Ins.static = rotate (b.seq.map Ins.static) f.toNat t.toNat ∧
      bytesI b'.seq = bytesI b.seq ∧ (b'.seq.map Ins.static).Perm (b.seq.map Ins.static) := by
  obtain ⟨h0, h1, h2, h3, lo, up, hlo, hup, hlt, htu⟩ := (hb.checkMove_iff f t).1 hc
  obtain ⟨i, rfl⟩ := Int.eq_ofNat_of_zero_le h0
  obtain ⟨j, rfl⟩ := Int.eq_ofNat_of_zero_le h2
  have hi : i < b.seq.length := by omega
  have hj : j < b.seq.length := by omega
  simp only [Block.move, hc, bind, Except.bind, Int.toNat_natCast]
  by_cases hne : i = j
  · subst hne
    rw [move_self]
    refine ⟨_, rfl, hb, rfl, rfl, rfl, rfl, rfl, ?_, rfl, List.Perm.refl _⟩
    rw [rotate_self]
  · rw [move_ins b.seq i j hi hj hne]
    obtain ⟨lo', hlo', _, hlo3, _⟩ := hb.lowerBound_spec i hi
    obtain ⟨up', hup', _, _, hup3, _⟩ := hb.upperBound_spec i hi
    rw [hlo] at hlo'; rw [hup] at hup'
    cases hlo'; cases hup'
    refine ⟨_, rfl, ?_, rfl, rfl, rfl, rfl, rfl, movedSeq_static b.seq i j hi hj hne,
      movedSeq_bytes b.seq i j hi hj hne, ?_⟩
    rotate_left
    · show ((movedSeq b.seq i j hi hj).map Ins.static).Perm _
      rw [movedSeq_static b.seq i j hi hj hne]
      exact rotate_perm _ i j (by simpa using hi) (by simpa using hj) hne
    apply hb.moved i j hi hj hne
    · intro hij e he h; have := hup3 e he h; omega
    · intro hji e he h; have := hlo3 e he h; omega

theorem move_ok_check {b b' : Block} {f t : Int} (h : b.move f t = .ok b') :
    b.checkMove f t = .ok () := by
  unfold Block.move at h
  cases hc : b.checkMove f t with
  | ok u => rfl
  | error e => rw [hc] at h; simp [bind, Except.bind] at h

/-- a rejected move is an index or bound error, never a panic -/
theorem BInv.move_err {b : Block} (hb : BInv b) (f t : Int) (e : MoveErr) (h : b.move f t = .error e) :
    e ≠ .panic := by
  cases hc : b.checkMove f t with
  | ok u =>
    obtain ⟨b', hb', _⟩ := hb.move_ok f t hc
    rw [hb'] at h; cases h
  | error e' =>
    have he : e = e' := by
      unfold Block.move at h
      rw [hc] at h
      simp [bind, Except.bind] at h
      exact h.symm
    subst he
    unfold Block.checkMove at hc
    rcases checkFromToIndex_cases f t b.seq.length with hok | ⟨e2, he2, hne2⟩
    · have hv := (checkFromToIndex_ok f t b.seq.length).1 hok
      obtain ⟨h0, h1, h2, h3⟩ := hv
      obtain ⟨i, rfl⟩ := Int.eq_ofNat_of_zero_le h0
      have hi : i < b.seq.length := by omega
      obtain ⟨lo, hlo, _, _, _⟩ := hb.lowerBound_spec i hi
      obtain ⟨up, hup, _, _, _, _⟩ := hb.upperBound_spec i hi
      simp only [hok, hlo, hup, bind, Except.bind] at hc
      split at hc
      · split at hc
        · cases hc; simp
        · cases hc
      · split at hc
        · split at hc
          · cases hc; simp
          · cases hc
        · cases hc
    · simp only [he2, bind, Except.bind] at hc
      cases hc
      exact hne2

end Mltwist.Lemmas.Deps
