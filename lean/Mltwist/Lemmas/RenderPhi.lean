import Mltwist.Lemmas.RenderViews
import Mathlib.NumberTheory.Real.GoldenRatio
import Mathlib.Algebra.Order.Floor.Ring
/-
Proofs for C24: the meaning of the integer cut `phiCut` over the real numbers,
`phiCut n = ⌊n / (φ + 1)⌋` with `φ` the golden ratio (`math.Phi` of Go).
-/
namespace Mltwist.Lemmas.Render
open Mltwist.Render Real

/-- the integer condition of the model is `k·(φ+1) ≤ n` -/
theorem phiOK_iff_real (n k : Nat) : phiOK n k = true ↔ (k : ℝ) * (goldenRatio + 1) ≤ n := by
  have hs : √5 * √5 = 5 := Real.mul_self_sqrt (by norm_num)
  have hs0 : 0 ≤ √5 := Real.sqrt_nonneg 5
  have hk : (0 : ℝ) ≤ k := Nat.cast_nonneg k
  have hn : (0 : ℝ) ≤ n := Nat.cast_nonneg n
  simp only [phiOK, Bool.and_eq_true, decide_eq_true_eq]
  unfold goldenRatio
  constructor
  · rintro ⟨h1, h2⟩
    have h1' : (3 : ℝ) * k ≤ 2 * n := by exact_mod_cast h1
    have h2' : (3 : ℝ) * n * k ≤ k * k + n * n := by exact_mod_cast h2
    by_contra hlt
    have hlt := not_le.mp hlt
    -- k√5 > 2n − 3k ≥ 0, so 5k² > (2n − 3k)²
    have h3 : (2 * (n : ℝ) - 3 * k) < k * √5 := by linarith
    have h4 : (2 * (n : ℝ) - 3 * k) * (2 * n - 3 * k) < (k * √5) * (k * √5) := by
      apply mul_self_lt_mul_self (by linarith) h3
    have h5 : (k * √5) * (k * √5) = 5 * (k * k) := by
      calc (k * √5) * (k * √5) = (k * k) * (√5 * √5) := by ring
        _ = 5 * (k * k) := by rw [hs]; ring
    nlinarith
  · intro h
    have h3 : (k : ℝ) * √5 ≤ 2 * n - 3 * k := by linarith
    have h0 : (0 : ℝ) ≤ k * √5 := mul_nonneg hk hs0
    have h4 : (k * √5) * (k * √5) ≤ (2 * (n : ℝ) - 3 * k) * (2 * n - 3 * k) :=
      mul_self_le_mul_self h0 h3
    have h5 : (k * √5) * (k * √5) = 5 * (k * k) := by
      calc (k * √5) * (k * √5) = (k * k) * (√5 * √5) := by ring
        _ = 5 * (k * k) := by rw [hs]; ring
    constructor
    · have : (3 : ℝ) * k ≤ 2 * n := by linarith
      exact_mod_cast this
    · have : (3 : ℝ) * n * k ≤ k * k + n * n := by nlinarith
      exact_mod_cast this

/-- **`phiCut n` is the integer part of `n / (φ + 1)`** -/
theorem phiCut_eq_floor (n : Nat) : (phiCut n : ℤ) = ⌊(n : ℝ) / (goldenRatio + 1)⌋ := by
  have hpos : (0 : ℝ) < goldenRatio + 1 := by have := goldenRatio_pos; linarith
  have h1 := (phiOK_iff_real n (phiCut n)).mp (phiCut_ok n)
  have h2 : ¬ ((phiCut n + 1 : Nat) : ℝ) * (goldenRatio + 1) ≤ n := by
    intro h
    have := (phiOK_iff_real n (phiCut n + 1)).mpr h
    rw [phiCut_succ_not] at this
    exact absurd this (by simp)
  symm
  rw [Int.floor_eq_iff]
  constructor
  · rw [le_div_iff₀ hpos]; exact_mod_cast h1
  · rw [div_lt_iff₀ hpos]
    have h2 := not_le.mp h2
    have : ((phiCut n + 1 : Nat) : ℝ) = ((phiCut n : ℤ) : ℝ) + 1 := by push_cast; ring
    rw [← this]; exact h2

end Mltwist.Lemmas.Render
