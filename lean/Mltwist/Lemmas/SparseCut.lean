import Mltwist.Spec.SparseAbs
import Mltwist.Lemmas.Bytes
import Mltwist.Lemmas.TransformBasic
/-
C14, part 1: arithmetic of `cutExpr` — `cutBegin`, `cutEnd`, `expr` on well-formed cuts — and the
little-endian byte sums.
-/
namespace Mltwist.Lemmas.Sparse
open Mltwist Mltwist.Sparse Mltwist.Spec.Sparse
open Mltwist.Lemmas.Bytes (pow256_pos pow256_succ pow256_add two_pow_eight_mul)

/-! ### bytes of a number -/

/-- byte `i` of `v` -/
def byteOf (v i : Nat) : Nat := v / 256 ^ i % 256

theorem byteOf_trunc {w i : Nat} (h : i < w) (v : Nat) : byteOf (trunc w v) i = byteOf v i := by
  unfold byteOf
  rw [Bytes.trunc_eq]
  obtain ⟨k, rfl⟩ : ∃ k, w = i + (k + 1) := ⟨w - i - 1, by omega⟩
  rw [pow256_add, Nat.mod_mul_right_div_self, pow256_succ, Nat.mod_mul_right_mod]

theorem byteVal_eq (ρ : Env) (c : Cell) (h : c.2.1 < c.2.2) :
    byteVal ρ c = byteOf (c.1.eval ρ) c.2.1 := by
  unfold byteVal
  exact byteOf_trunc h _

/-- a slice of `n` bytes starting at byte `b` is the sum of its bytes -/
theorem slice_eq_sum (v b : Nat) : ∀ n, v / 256 ^ b % 256 ^ n = sumBytes (fun j => byteOf v (b + j)) n
  | 0 => by simp [sumBytes, Nat.mod_one]
  | n + 1 => by
    rw [sumBytes, ← slice_eq_sum v b n]
    unfold byteOf
    rw [pow256_add b n, ← Nat.div_div_eq_div_mul]
    generalize v / 256 ^ b = u
    rw [Nat.pow_succ, Nat.mod_mul, Nat.mul_comm (256 ^ n)]

theorem sumBytes_congr {f g : Nat → Nat} : ∀ n, (∀ i, i < n → f i = g i) → sumBytes f n = sumBytes g n
  | 0, _ => rfl
  | n + 1, h => by
    rw [sumBytes, sumBytes, sumBytes_congr n (fun i hi => h i (by omega)), h n (by omega)]

theorem sumBytes_add (f : Nat → Nat) (n : Nat) : ∀ m,
    sumBytes f (n + m) = sumBytes f n + 256 ^ n * sumBytes (fun j => f (n + j)) m
  | 0 => by simp [sumBytes]
  | m + 1 => by
    rw [← Nat.add_assoc, sumBytes, sumBytes_add f n m, sumBytes, pow256_add, Nat.mul_add]
    rw [Nat.add_assoc]
    congr 1
    rw [Nat.mul_comm (f (n + m)), Nat.mul_assoc, Nat.mul_comm (f (n + m))]

theorem sumBytes_lt (f : Nat → Nat) (hf : ∀ i, f i < 256) : ∀ n, sumBytes f n < 256 ^ n
  | 0 => by simp [sumBytes]
  | n + 1 => by
    have := sumBytes_lt f hf n
    have := hf n
    rw [sumBytes, pow256_succ]
    have : f n * 256 ^ n ≤ 255 * 256 ^ n := Nat.mul_le_mul_right _ (by omega)
    omega

theorem byteOf_lt (v i : Nat) : byteOf v i < 256 := Nat.mod_lt _ (by decide)

/-! ### `cutExpr` -/

theorem width_eq (c : CutExpr) (h1 : c.begin ≤ c.end_) (h2 : c.end_ ≤ 255) :
    c.width = c.end_ - c.begin := by
  unfold CutExpr.width; omega

theorem cutBegin_ok (c : CutExpr) (h1 : c.begin ≤ c.end_) (h2 : c.end_ ≤ 255) (n : Nat)
    (hn : n ≤ c.end_ - c.begin) :
    c.cutBegin (n % 256) = .ok { ex := c.ex, begin := c.end_ - n, end_ := c.end_ } := by
  have hn' : n % 256 = n := by omega
  unfold CutExpr.cutBegin
  rw [width_eq c h1 h2, hn', if_neg (by omega)]
  have : (c.end_ + 256 - n) % 256 = c.end_ - n := by omega
  rw [this]

theorem cutEnd_ok (c : CutExpr) (h1 : c.begin ≤ c.end_) (h2 : c.end_ ≤ 255) (n : Nat)
    (hn : n ≤ c.end_ - c.begin) :
    c.cutEnd (n % 256) = .ok { ex := c.ex, begin := c.begin, end_ := c.begin + n } := by
  have hn' : n % 256 = n := by omega
  unfold CutExpr.cutEnd
  rw [width_eq c h1 h2, hn', if_neg (by omega)]
  have : (c.begin + n) % 256 = c.begin + n := by omega
  rw [this]

theorem pow8_eq (n : Nat) : 2 ^ (8 * n) = 256 ^ n := two_pow_eight_mul n

/-- `expr()` of a well-formed cut succeeds and is the slice `[begin, end)` of the value -/
theorem expr_ok (c : CutExpr) (h1 : c.begin < c.end_) (h2 : c.end_ ≤ 255) :
    ∃ e, c.expr = .ok e ∧ e.width = c.end_ - c.begin ∧
      ∀ ρ, e.eval ρ = c.ex.eval ρ / 256 ^ c.begin % 256 ^ (c.end_ - c.begin) := by
  unfold CutExpr.expr
  rw [if_neg (by omega)]
  by_cases hz : c.begin ≥ c.ex.width
  · rw [if_pos hz]
    refine ⟨_, rfl, ?_, ?_⟩
    · simp [Tools.constUint, Expr.width]
    · intro ρ
      have hlt := Transform.eval_lt' ρ c.ex
      rw [pow8_eq] at hlt
      have : c.ex.eval ρ < 256 ^ c.begin :=
        Nat.lt_of_lt_of_le hlt (Nat.pow_le_pow_right (by decide) hz)
      rw [Nat.div_eq_of_lt this, Nat.zero_mod]
      simp [Tools.constUint, Expr.eval, Bytes.leToNat_natToLE_pow256]
  · rw [if_neg hz]
    refine ⟨_, rfl, Transform.setWidth_width' _ _, ?_⟩
    intro ρ
    rw [Transform.setWidth_eval', Bytes.trunc_eq]
    congr 1
    by_cases hb : c.begin > 0
    · rw [if_pos hb]
      have hw : 2 ≤ c.ex.width := by omega
      have hs : c.begin % 65536 * 8 % 65536 = c.begin * 8 := by omega
      simp only [Expr.eval, Tools.constUint, hs, Bytes.leToNat_natToLE_pow256]
      rw [Transform.trunc_eval_self]
      have h16 : (256:Nat) ^ 2 ≤ 2 ^ (8 * c.ex.width) := by
        rw [pow8_eq]; exact Nat.pow_le_pow_right (by decide) hw
      have hv : c.begin * 8 % 256 ^ 2 = c.begin * 8 := Nat.mod_eq_of_lt (by omega)
      rw [hv, Transform.trunc_of_lt (by omega)]
      unfold evalBin
      simp only
      rw [if_neg (by omega), Nat.mul_comm, pow8_eq]
    · rw [if_neg hb]
      have : c.begin = 0 := by omega
      rw [this, Nat.pow_zero, Nat.div_one]

end Mltwist.Lemmas.Sparse
