import Mltwist.Lemmas.EmulatorReport
import Mltwist.Lemmas.RiscvLiftWF
import Mltwist.Lemmas.RiscvLiftStoreW
/-
Emulator (C03), part 15: the code view of an image.  Every instruction of `liftCode blocks` is the lifting
of a word by an entry of the RV64IMA tables, and all its expressions — before and after constant folding —
are well formed (`RiscvLiftWF.lean`, `EmulatorFoldWF.lean`).  Hence the refinement theorems hold for the code
view of every image without well-formedness hypotheses.
-/
namespace Mltwist.Lemmas.Emulator
open Mltwist Mltwist.State Mltwist.Overlay Mltwist.Emulator Mltwist.Riscv
open Mltwist.Spec.Rv Mltwist.Spec.Lift
open Mltwist.Lemmas.RiscvLift (EntryWF EffWF OWF AllOWF mem_instructionSet wf_integer64 wf_mul64 wf_atomic64)
open Mltwist.Lemmas.RiscvLift (EntrySW OSW AllOSW sw_integer64 sw_mul64 sw_atomic64)

theorem entryWF_of_mem {e : Entry} (he : e ∈ instructionSet 64 true true) : EntryWF e := by
  rcases mem_instructionSet (Or.inr rfl) he with ⟨h, _⟩ | ⟨_, h | h | h⟩
  · cases h
  · exact wf_integer64 e h
  · exact wf_mul64 e h
  · exact wf_atomic64 e h

theorem effWF_iff (ef : Effect) : EffWF ef ↔ Effect.wfE ef := by cases ef <;> rfl

theorem validEffects_wf {e : Entry} (h : EntryWF e) (i : Riscv.Ins) : ∀ ef ∈ e.validEffects i, Effect.wfE ef := by
  intro ef hef
  unfold Entry.validEffects at hef
  rw [List.mem_filterMap] at hef
  obtain ⟨o, ho, hid⟩ := hef
  exact (effWF_iff ef).1 (h i o ho ef hid)

theorem wfE_fold {ef : Effect} (h : Effect.wfE ef) : Effect.wfE (Effect.apply constFold ef) := by
  cases ef with
  | regStore v k w => exact constFold_wf v h
  | memStore v k a w => exact ⟨constFold_wf v h.1, constFold_wf a h.2⟩

/-- an instruction lifted from the tables is well formed, before and after constant folding -/
theorem LiftedFrom.wf {ins : Emulator.Ins} {e : Entry} {word : Nat} (h : LiftedFrom ins e word) :
    (∀ ef ∈ e.validEffects ⟨ins.addr, word⟩, Effect.wfE ef) ∧ InsWF ins := by
  have hraw := validEffects_wf (entryWF_of_mem h.mem) ⟨ins.addr, word⟩
  refine ⟨hraw, ?_⟩
  intro ef hef
  rw [h.effects] at hef
  obtain ⟨ef0, h0, rfl⟩ := List.mem_map.1 hef
  exact wfE_fold (hraw ef0 h0)

theorem entrySW_of_mem {e : Entry} (he : e ∈ instructionSet 64 true true) : EntrySW e := by
  rcases mem_instructionSet (Or.inr rfl) he with ⟨h, _⟩ | ⟨_, h | h | h⟩
  · cases h
  · exact sw_integer64 e h
  · exact sw_mul64 e h
  · exact sw_atomic64 e h

/-- every store of an instruction lifted from the tables has a width between 1 and 255 (REPAIR F45: the
unconditional never-panics theorems need the width of the stores as well) -/
theorem LiftedFrom.sw {ins : Emulator.Ins} {e : Entry} {word : Nat} (h : LiftedFrom ins e word) : InsSW ins := by
  intro v k a w hm
  rw [h.effects] at hm
  obtain ⟨ef0, h0, he0⟩ := List.mem_map.1 hm
  unfold Entry.validEffects at h0
  rw [List.mem_filterMap] at h0
  obtain ⟨o, ho, hid⟩ := h0
  cases ef0 with
  | regStore v0 k0 w0 => simp [Effect.apply] at he0
  | memStore v0 k0 a0 w0 =>
    simp only [Effect.apply, Effect.memStore.injEq] at he0
    obtain ⟨_, _, _, rfl⟩ := he0
    exact entrySW_of_mem h.mem ⟨ins.addr, word⟩ o ho v0 k0 a0 w0 hid

/-- every instruction of the code view of an image is lifted from the tables -/
def AllLifted (code : CodeView) : Prop := ∀ ins ∈ code, ∃ e word, LiftedFrom ins e word

theorem liftBlock_lifted : ∀ (fuel addr : Nat) (bs : List UInt8) (is : List Emulator.Ins),
    liftBlock fuel addr bs = some is → AllLifted is
  | 0, _, _, is, h => by
    simp only [liftBlock] at h
    cases h
    intro _ hx; cases hx
  | fuel + 1, addr, bs, is, h => by
    unfold liftBlock at h
    split at h
    · cases h
      intro _ hx; cases hx
    · cases hi : liftIns addr bs with
      | none => rw [hi] at h; cases h
      | some i =>
        rw [hi] at h
        simp only at h
        cases hr : liftBlock fuel ((addr + 4) % 2 ^ 64) (bs.drop 4) with
        | none => rw [hr] at h; cases h
        | some rest =>
          rw [hr] at h
          cases h
          intro x hx
          rcases List.mem_cons.1 hx with rfl | hx'
          · obtain ⟨e, he, _⟩ := liftedFrom_of_liftIns hi
            exact ⟨e, _, he⟩
          · exact liftBlock_lifted fuel _ _ rest hr x hx'

theorem liftCode_lifted : ∀ (blocks : List (Nat × List UInt8)) (code : CodeView),
    liftCode blocks = some code → AllLifted code
  | [], code, h => by
    simp only [liftCode] at h
    cases h
    intro _ hx; cases hx
  | (b, bs) :: rest, code, h => by
    unfold liftCode at h
    cases h1 : liftBlock (bs.length / 4 + 1) b bs with
    | none => rw [h1] at h; cases h
    | some is =>
      rw [h1] at h
      simp only at h
      cases h2 : liftCode rest with
      | none => rw [h2] at h; cases h
      | some js =>
        rw [h2] at h
        cases h
        intro x hx
        rcases List.mem_append.1 hx with hx' | hx'
        · exact liftBlock_lifted _ _ _ is h1 x hx'
        · exact liftCode_lifted rest js h2 x hx'

/-- the code view of every image is well formed: `CodeWF` is a THEOREM for the code the tool runs on -/
theorem codeWF_of_liftCode {blocks : List (Nat × List UInt8)} {code : CodeView} (h : liftCode blocks = some code) :
    CodeWF code := by
  intro ins hins
  obtain ⟨e, word, hl⟩ := liftCode_lifted blocks code h ins hins
  exact hl.wf.2

/-- … and so is `CodeSW` (the widths of its stores) -/
theorem codeSW_of_liftCode {blocks : List (Nat × List UInt8)} {code : CodeView} (h : liftCode blocks = some code) :
    CodeSW code := by
  intro ins hins
  obtain ⟨e, word, hl⟩ := liftCode_lifted blocks code h ins hins
  exact hl.sw

/-! ### refinement without well-formedness hypotheses -/

theorem refine_step' (p : Provider) (code : CodeView) {σ : St} {s : State} {ins : Emulator.Ins} {e : Entry}
    {word : Nat} (hR : R p code σ s) (hl : code.lookup σ.pc = some ins) (hlift : LiftedFrom ins e word)
    (hnw : noWrap 64 e.name word σ = true) (hd : StepDom p code s ins) :
    ∃ σ', exec 64 e.name word σ = some σ' ∧
      ∃ s' rep log, step p code s = .ok s' rep log ∧ R p code σ' s' :=
  refine_step p code hR hl hlift hlift.wf.1 hlift.wf.2 hnw hd

/-- the side conditions that remain: the reference's access does not wrap, the emulator's accesses lie in
the domain of C14 -/
def Scope' (p : Provider) (code : CodeView) : Nat → St → State → Prop
  | 0, _, _ => True
  | n + 1, σ, s => ∀ ins e word, code.lookup σ.pc = some ins → LiftedFrom ins e word →
      noWrap 64 e.name word σ = true ∧ StepDom p code s ins ∧
      ∀ σ' s' rep log, exec 64 e.name word σ = some σ' → step p code s = .ok s' rep log →
        Scope' p code n σ' s'

theorem scope_of_scope' (p : Provider) (code : CodeView) : ∀ (n : Nat) (σ : St) (s : State),
    Scope' p code n σ s → Scope p code n σ s
  | 0, _, _, _ => trivial
  | n + 1, σ, s, h => by
    intro ins e word hl hlift
    obtain ⟨h1, h2, h3⟩ := h ins e word hl hlift
    exact ⟨hlift.wf.1, hlift.wf.2, h1, h2, fun σ' s' rep log he hs =>
      scope_of_scope' p code n σ' s' (h3 σ' s' rep log he hs)⟩

theorem refine_run' (p : Provider) (code : CodeView) (n : Nat) (σ σn : St) (s : State) (hR : R p code σ s)
    (hs : Scope' p code n σ s) (hrun : RefSteps code n σ σn) :
    ∃ sn, stateAfter p code n s = some sn ∧ R p code σn sn :=
  refine_run p code n σ σn s hR (scope_of_scope' p code n σ s hs) hrun

end Mltwist.Lemmas.Emulator
