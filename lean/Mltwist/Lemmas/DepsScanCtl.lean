import Mltwist.Lemmas.DepsScan
/-
`findControlDeps` and `findSpecialDeps` in split form; monotonicity.
-/
namespace Mltwist.Lemmas.Deps.Paths
open Mltwist Mltwist.Deps Mltwist.Deps.Spec

/-! ### control dependencies -/

theorem addFold_mono {α : Type} (f : α → Nat × Nat) (l : List α) (E : Edges) (ed : Nat × Nat)
    (h : ed ∈ E) : ed ∈ l.foldl (fun E a => addDep (f a).1 (f a).2 E) E :=
  foldl_state_mono (fun (E : Edges) a => addDep (f a).1 (f a).2 E) (fun E => E)
    (fun _ _ _ h => List.mem_cons_of_mem _ h) l E ed h

theorem addFold_mem {α : Type} (f : α → Nat × Nat) (l : List α) (E : Edges) (a : α) (ha : a ∈ l) :
    f a ∈ l.foldl (fun E a => addDep (f a).1 (f a).2 E) E :=
  foldl_state_mem (fun (E : Edges) a => addDep (f a).1 (f a).2 E) (fun E => E)
    (fun _ _ _ h => List.mem_cons_of_mem _ h) l a ha (f a) (fun _ => List.mem_cons_self ..) E

theorem pinLoop_mono (before after : List Ins) (E : Edges) (ed : Nat × Nat) (h : ed ∈ E) :
    ed ∈ pinLoop before after E := by
  induction after generalizing before E with
  | nil => exact h
  | cons k after ih =>
    rw [pinLoop]
    apply ih
    split
    · exact addFold_mono (fun (next : Ins) => (k.id, next.id)) _ _ _
        (addFold_mono (fun (prev : Ins) => (prev.id, k.id)) _ _ _ h)
    · exact h

theorem pinLoop_mem (before A after : List Ins) (k : Ins) (E : Edges) (hk : ipKey ∈ k.outRegs) :
    (∀ p ∈ before ++ A, (p.id, k.id) ∈ pinLoop before (A ++ k :: after) E) ∧
    (∀ q ∈ after, (k.id, q.id) ∈ pinLoop before (A ++ k :: after) E) := by
  induction A generalizing before E with
  | nil =>
    rw [List.nil_append, pinLoop, if_pos hk, List.append_nil]
    constructor
    · intro p hp
      apply pinLoop_mono
      exact addFold_mono (fun (next : Ins) => (k.id, next.id)) _ _ _
        (addFold_mem (fun (prev : Ins) => (prev.id, k.id)) _ _ p hp)
    · intro q hq
      apply pinLoop_mono
      exact addFold_mem (fun (next : Ins) => (k.id, next.id)) _ _ q hq
  | cons a A ih =>
    rw [List.cons_append, pinLoop]
    have := ih (before ++ [a]) (if ipKey ∈ a.outRegs then
        (A ++ k :: after).foldl (fun E next => addDep a.id next.id E)
          (before.foldl (fun E prev => addDep prev.id a.id E) E)
      else E)
    refine ⟨fun p hp => this.1 p ?_, this.2⟩
    simpa using hp

theorem ctrl_cases (seq : List Ins) (E E' : Edges) (h : findControlDeps seq E = some E') :
    (∀ ed ∈ pinLoop [] seq E, ed ∈ E') ∧
    (∀ l y, seq = l ++ [y] → y.jumpTargets ≠ [] → ∀ x ∈ l, (x.id, y.id) ∈ E') := by
  unfold findControlDeps at h
  simp only at h
  split at h
  · cases h
  · rename_i last hlast
    split at h
    · rename_i hz
      injection h with h; subst h
      refine ⟨fun ed h => h, ?_⟩
      intro l y hs hy
      subst hs
      rw [List.getLast?_concat] at hlast
      injection hlast with hl; subst hl
      exact absurd (List.eq_nil_of_length_eq_zero hz) hy
    · injection h with h; subst h
      refine ⟨fun ed h => addFold_mono (fun (ins : Ins) => (ins.id, last.id)) _ _ _ h, ?_⟩
      intro l y hs hy x hx
      subst hs
      rw [List.getLast?_concat] at hlast
      injection hlast with hl; subst hl
      rw [List.dropLast_concat]
      exact addFold_mem (fun (ins : Ins) => (ins.id, y.id)) _ _ x hx

theorem ctrl_mono (seq : List Ins) (E E' : Edges) (h : findControlDeps seq E = some E')
    (ed : Nat × Nat) (hed : ed ∈ E) : ed ∈ E' :=
  (ctrl_cases seq E E' h).1 ed (pinLoop_mono _ _ _ _ hed)

theorem ctrl_pin (A B C : List Ins) (x y : Ins) (E E' : Edges)
    (h : findControlDeps (A ++ x :: (B ++ y :: C)) E = some E')
    (hk : ipKey ∈ x.outRegs ∨ ipKey ∈ y.outRegs) : (x.id, y.id) ∈ E' := by
  apply (ctrl_cases _ E E' h).1
  rcases hk with hk | hk
  · exact (pinLoop_mem [] A (B ++ y :: C) x E hk).2 y (by simp)
  · have := (pinLoop_mem [] (A ++ x :: B) C y E hk).1 x (by simp)
    simpa using this

theorem ctrl_term (A B : List Ins) (x y : Ins) (E E' : Edges)
    (h : findControlDeps (A ++ x :: (B ++ [y])) E = some E')
    (hy : y.jumpTargets ≠ []) : (x.id, y.id) ∈ E' :=
  (ctrl_cases _ E E' h).2 (A ++ x :: B) y (by simp) hy x (by simp)

/-! ### special dependencies -/

theorem specialUpdate_edges (ins : Ins) (st : SpecialState) :
    (specialUpdate ins st).edges = st.edges := by
  unfold specialUpdate; dsimp only; split <;> rfl

theorem specialUpdate_ls (ins : Ins) (st : SpecialState) :
    (specialUpdate ins st).lastSpecial = if insSpecial ins then some ins.id else st.lastSpecial := by
  unfold specialUpdate; dsimp only; split <;> simp [*]

theorem specialUpdate_lm (ins : Ins) (st : SpecialState) :
    (specialUpdate ins st).lastMemOrder =
      if insSpecial ins then none else if insMemOrder ins then some ins.id else st.lastMemOrder := by
  unfold specialUpdate; dsimp only; split <;> simp [*]

theorem fwd_ls (st : SpecialState) (ins : Ins) :
    (specialFwdStep st ins).lastSpecial = if insSpecial ins then some ins.id else st.lastSpecial := by
  unfold specialFwdStep; rw [specialUpdate_ls]

theorem fwd_lm (st : SpecialState) (ins : Ins) :
    (specialFwdStep st ins).lastMemOrder =
      if insSpecial ins then none else if insMemOrder ins then some ins.id else st.lastMemOrder := by
  unfold specialFwdStep; rw [specialUpdate_lm]

theorem back_ls (st : SpecialState) (ins : Ins) :
    (specialBackStep ins st).lastSpecial = if insSpecial ins then some ins.id else st.lastSpecial := by
  unfold specialBackStep; rw [specialUpdate_ls]

theorem back_lm (st : SpecialState) (ins : Ins) :
    (specialBackStep ins st).lastMemOrder =
      if insSpecial ins then none else if insMemOrder ins then some ins.id else st.lastMemOrder := by
  unfold specialBackStep; rw [specialUpdate_lm]

theorem fwd_mono (st : SpecialState) (ins : Ins) (ed : Nat × Nat) (h : ed ∈ st.edges) :
    ed ∈ (specialFwdStep st ins).edges := by
  unfold specialFwdStep; rw [specialUpdate_edges]
  dsimp only
  have h1 : ed ∈ (match st.lastMemOrder with
      | some m => if isMemAccess ins then addDep m ins.id st.edges else st.edges
      | none => st.edges) := by
    split
    · split
      · exact List.mem_cons_of_mem _ h
      · exact h
    · exact h
  split
  · exact List.mem_cons_of_mem _ h1
  · exact h1

theorem back_mono (st : SpecialState) (ins : Ins) (ed : Nat × Nat) (h : ed ∈ st.edges) :
    ed ∈ (specialBackStep ins st).edges := by
  unfold specialBackStep; rw [specialUpdate_edges]
  dsimp only
  have h1 : ed ∈ (match st.lastMemOrder with
      | some m => if isMemAccess ins || insMemOrder ins then addDep ins.id m st.edges else st.edges
      | none => st.edges) := by
    split
    · split
      · exact List.mem_cons_of_mem _ h
      · exact h
    · exact h
  split
  · exact List.mem_cons_of_mem _ h1
  · exact h1

theorem fwd_special_edge (st : SpecialState) (ins : Ins) (d : Nat) (h : st.lastSpecial = some d) :
    (d, ins.id) ∈ (specialFwdStep st ins).edges := by
  unfold specialFwdStep; rw [specialUpdate_edges]
  dsimp only
  rw [h]
  exact List.mem_cons_self ..

theorem back_special_edge (st : SpecialState) (ins : Ins) (d : Nat) (h : st.lastSpecial = some d) :
    (ins.id, d) ∈ (specialBackStep ins st).edges := by
  unfold specialBackStep; rw [specialUpdate_edges]
  dsimp only
  rw [h]
  exact List.mem_cons_self ..

theorem fwd_mo_edge (st : SpecialState) (ins : Ins) (d : Nat) (h : st.lastMemOrder = some d)
    (ha : isMemAccess ins = true) : (d, ins.id) ∈ (specialFwdStep st ins).edges := by
  unfold specialFwdStep; rw [specialUpdate_edges]
  dsimp only
  have h1 : (d, ins.id) ∈ (match st.lastMemOrder with
      | some m => if isMemAccess ins then addDep m ins.id st.edges else st.edges
      | none => st.edges) := by
    rw [h]; dsimp only; rw [if_pos ha]; exact List.mem_cons_self ..
  split
  · exact List.mem_cons_of_mem _ h1
  · exact h1

theorem back_mo_edge (st : SpecialState) (ins : Ins) (d : Nat) (h : st.lastMemOrder = some d)
    (ha : isMemAccess ins = true ∨ insMemOrder ins = true) :
    (ins.id, d) ∈ (specialBackStep ins st).edges := by
  unfold specialBackStep; rw [specialUpdate_edges]
  dsimp only
  have h1 : (ins.id, d) ∈ (match st.lastMemOrder with
      | some m => if isMemAccess ins || insMemOrder ins then addDep ins.id m st.edges else st.edges
      | none => st.edges) := by
    rw [h]; dsimp only; rw [if_pos (by simpa using ha)]; exact List.mem_cons_self ..
  split
  · exact List.mem_cons_of_mem _ h1
  · exact h1

/-- after an instruction that orders memory or is special, one of the two slots is filled -/
def Touched (st : SpecialState) : Prop := st.lastMemOrder.isSome = true ∨ st.lastSpecial.isSome = true

theorem fwd_touched (st : SpecialState) (a : Ins)
    (h : Touched st ∨ insSpecial a = true ∨ insMemOrder a = true) :
    Touched (specialFwdStep st a) := by
  unfold Touched
  rw [fwd_ls, fwd_lm]
  by_cases hs : insSpecial a = true
  · simp [hs]
  · by_cases hm : insMemOrder a = true
    · simp [hs, hm]
    · rcases h with h | h | h
      · unfold Touched at h; simpa [hs, hm] using h
      · exact absurd h hs
      · exact absurd h hm

theorem fwd_touched_fold (l : List Ins) (st : SpecialState)
    (h : Touched st ∨ ∃ a ∈ l, insSpecial a = true ∨ insMemOrder a = true) :
    Touched (l.foldl specialFwdStep st) := by
  induction l generalizing st with
  | nil =>
    rcases h with h | ⟨a, ha, _⟩
    · exact h
    · cases ha
  | cons b l ih =>
    rw [List.foldl_cons]
    apply ih
    rcases h with h | ⟨a, ha, h⟩
    · exact Or.inl (fwd_touched _ _ (Or.inl h))
    · rcases List.mem_cons.1 ha with rfl | ha
      · exact Or.inl (fwd_touched _ _ (Or.inr h))
      · exact Or.inr ⟨a, ha, h⟩

theorem special_first (seq : List Ins) (E : Edges) (ed : Nat × Nat)
    (h : ed ∈ (seq.foldl specialFwdStep ⟨none, none, E⟩).edges) : ed ∈ findSpecialDeps seq E := by
  unfold findSpecialDeps
  dsimp only
  split
  · exact h
  · exact foldr_state_mono specialBackStep (·.edges) back_mono seq _ ed h

theorem special_mono (seq : List Ins) (E : Edges) (ed : Nat × Nat) (h : ed ∈ E) :
    ed ∈ findSpecialDeps seq E :=
  special_first seq E ed (foldl_state_mono specialFwdStep (·.edges) fwd_mono seq ⟨none, none, E⟩ ed h)

theorem special_second (seq : List Ins) (E : Edges)
    (h : ∃ a ∈ seq, insSpecial a = true ∨ insMemOrder a = true) :
    findSpecialDeps seq E =
      (seq.foldr specialBackStep ⟨none, none, (seq.foldl specialFwdStep ⟨none, none, E⟩).edges⟩).edges := by
  have ht := fwd_touched_fold seq ⟨none, none, E⟩ (Or.inr h)
  unfold findSpecialDeps
  dsimp only
  rw [if_neg]
  unfold Touched at ht
  intro hc
  simp only [Bool.and_eq_true, Option.isNone_iff_eq_none] at hc
  rw [hc.1, hc.2] at ht
  simp at ht

theorem special_fwd_split (A B C : List Ins) (x y : Ins) (E : Edges)
    (hx : insSpecial x = true) (hB : ∀ b ∈ B, insSpecial b = false) :
    (x.id, y.id) ∈ findSpecialDeps (A ++ x :: (B ++ y :: C)) E := by
  apply special_first
  apply fwd_scan specialFwdStep (·.lastSpecial) (·.edges) x y A B C _ fwd_mono
  · intro s; show (specialFwdStep s x).lastSpecial = _; rw [fwd_ls, if_pos hx]
  · intro b hb s; show (specialFwdStep s b).lastSpecial = _; rw [fwd_ls, hB b hb]; simp
  · intro s hs; exact fwd_special_edge s y _ hs

theorem special_back_split (A B C : List Ins) (x y : Ins) (E : Edges)
    (hy : insSpecial y = true) (hB : ∀ b ∈ B, insSpecial b = false) :
    (x.id, y.id) ∈ findSpecialDeps (A ++ x :: (B ++ y :: C)) E := by
  rw [special_second _ _ ⟨y, by simp, Or.inl hy⟩]
  apply back_scan specialBackStep (·.lastSpecial) (·.edges) x y A B C _ back_mono
  · intro s; show (specialBackStep y s).lastSpecial = _; rw [back_ls, if_pos hy]
  · intro b hb s; show (specialBackStep b s).lastSpecial = _; rw [back_ls, hB b hb]; simp
  · intro s hs; exact back_special_edge s x _ hs

theorem mo_fwd_split (A B C : List Ins) (x y : Ins) (E : Edges)
    (hx : insMemOrder x = true) (hx' : insSpecial x = false) (hy : isMemAccess y = true)
    (hB : ∀ b ∈ B, insSpecial b = false ∧ insMemOrder b = false) :
    (x.id, y.id) ∈ findSpecialDeps (A ++ x :: (B ++ y :: C)) E := by
  apply special_first
  apply fwd_scan specialFwdStep (·.lastMemOrder) (·.edges) x y A B C _ fwd_mono
  · intro s; show (specialFwdStep s x).lastMemOrder = _; rw [fwd_lm, hx', hx]; simp
  · intro b hb s; show (specialFwdStep s b).lastMemOrder = _
    rw [fwd_lm, (hB b hb).1, (hB b hb).2]; simp
  · intro s hs; exact fwd_mo_edge s y _ hs hy

theorem mo_back_split (A B C : List Ins) (x y : Ins) (E : Edges)
    (hy : insMemOrder y = true) (hy' : insSpecial y = false)
    (hx : isMemAccess x = true ∨ insMemOrder x = true)
    (hB : ∀ b ∈ B, insSpecial b = false ∧ insMemOrder b = false) :
    (x.id, y.id) ∈ findSpecialDeps (A ++ x :: (B ++ y :: C)) E := by
  rw [special_second _ _ ⟨y, by simp, Or.inr hy⟩]
  apply back_scan specialBackStep (·.lastMemOrder) (·.edges) x y A B C _ back_mono
  · intro s; show (specialBackStep y s).lastMemOrder = _; rw [back_lm, hy', hy]; simp
  · intro b hb s; show (specialBackStep b s).lastMemOrder = _
    rw [back_lm, (hB b hb).1, (hB b hb).2]; simp
  · intro s hs; exact back_mo_edge s x _ hs hx

end Mltwist.Lemmas.Deps.Paths
