import Mltwist.Lemmas.DepsCodeInv
import Mltwist.Lemmas.DepsFinders
import Mltwist.Lemmas.BasicBlock
import Mltwist.Props.C08
/-
`NewCode` establishes the invariant: for well-formed instruction lists every successfully built
code satisfies `CInv`; the edges of every block are the result of the finders on the block in
its original order.
-/
namespace Mltwist.Lemmas.Deps
open Mltwist Mltwist.Deps Mltwist.Deps.Spec

/-- the instructions as `basicblock` sees them -/
def toBB (raw : List (Nat × Nat × Nat × List Effect)) : List BasicBlock.Ins :=
  raw.map fun (_, a, l, efs) => BasicBlock.mkIns a l efs

/-- a block in its original state: ids and indices are positions, current = original addresses,
the edges are those of the finders -/
structure Fresh (b : Block) : Prop where
  ids : IdsArePositions b.seq
  orig : ∀ i ∈ b.seq, i.currAddr = i.origAddr
  jumps : ∀ i ∈ b.seq, i.jumpTargets = BasicBlock.jumps i.origAddr i.len i.effects
  edges : findAllDeps b.seq = some b.edges

/-- a `deps` instruction as `basicblock` sees it -/
def proj (i : Ins) : BasicBlock.Ins := ⟨i.origAddr, i.len, i.jumpTargets⟩

/-! ### `indexFrom` -/

theorem indexFrom_length (k : Nat) (l : List Ins) : (indexFrom k l).length = l.length := by
  induction l generalizing k with
  | nil => rfl
  | cons x xs ih => simp [indexFrom, ih]

theorem indexFrom_ne_nil (k : Nat) (l : List Ins) (h : l ≠ []) : indexFrom k l ≠ [] := by
  cases l with
  | nil => exact absurd rfl h
  | cons x xs => simp [indexFrom]

theorem idxFrom_indexFrom (k : Nat) (l : List Ins) : IdxFrom k (indexFrom k l) := by
  induction l generalizing k with
  | nil => simp [indexFrom, IdxFrom]
  | cons x xs ih => exact ⟨rfl, ih _⟩

theorem idsOf_indexFrom (k : Nat) (l : List Ins) : idsOf (indexFrom k l) = List.range' k l.length := by
  induction l generalizing k with
  | nil => simp [indexFrom, idsOf]
  | cons x xs ih =>
    have := ih (k + 1)
    simp only [idsOf] at this
    simp [indexFrom, idsOf, this, List.range'_succ]

theorem idsOf_indexFrom_zero (l : List Ins) : idsOf (indexFrom 0 l) = List.range l.length := by
  rw [idsOf_indexFrom, List.range_eq_range']

theorem mem_indexFrom (k : Nat) (l : List Ins) (i : Ins) (h : i ∈ indexFrom k l) :
    ∃ i0 ∈ l, ∃ a b, i = { i0 with id := a, blockIdx := b } := by
  induction l generalizing k with
  | nil => simp [indexFrom] at h
  | cons x xs ih =>
    simp only [indexFrom, List.mem_cons] at h
    rcases h with rfl | h
    · exact ⟨x, by simp, _, _, rfl⟩
    · obtain ⟨i0, h0, a, b, e⟩ := ih _ h
      exact ⟨i0, List.mem_cons_of_mem _ h0, a, b, e⟩

theorem tilesI_indexFrom (a k : Nat) (l : List Ins) : TilesI a (indexFrom k l) ↔ TilesI a l := by
  induction l generalizing a k with
  | nil => simp [indexFrom, TilesI]
  | cons x xs ih => simp only [indexFrom, TilesI, ih]

theorem lens_indexFrom (k : Nat) (l : List Ins) : (indexFrom k l).map (·.len) = l.map (·.len) := by
  induction l generalizing k with
  | nil => rfl
  | cons x xs ih => simp [indexFrom, ih]

theorem bytesI_indexFrom (k : Nat) (l : List Ins) : bytesI (indexFrom k l) = bytesI l := by
  simp [bytesI, lens_indexFrom]

theorem idsArePositions_indexFrom (l : List Ins) : IdsArePositions (indexFrom 0 l) := by
  intro k hk
  have h1 := idsOf_indexFrom_zero l
  have hk' : k < l.length := by simpa [indexFrom_length] using hk
  have h2 : (idsOf (indexFrom 0 l))[k]'(by simpa [idsOf] using hk) = (indexFrom 0 l)[k].id :=
    idsOf_getElem _ _ hk
  rw [← h2]
  simp [h1]

/-! ### `seqLength` -/

theorem seqLength_foldl (l : List Ins) (acc : Nat) :
    l.foldl (fun l ins => (l + ins.len) % M) (acc % M) = (acc + bytesI l) % M := by
  induction l generalizing acc with
  | nil => simp [bytesI]
  | cons x xs ih =>
    simp only [List.foldl_cons, bytesI_cons, Nat.mod_add_mod]
    rw [ih, Nat.add_assoc]

theorem seqLength_eq (l : List Ins) : seqLength l = bytesI l % M := by
  have := seqLength_foldl l 0
  simpa [seqLength] using this

/-! ### positions in `range` -/

theorem idxOf_range (n k : Nat) (h : k < n) : (List.range n).idxOf k = k := by
  have := (List.nodup_range (n := n)).idxOf_getElem k (by simpa using h)
  simpa using this

/-! ### tiles from contiguity -/

theorem tilesI_of_contiguous (x : Ins) (xs : List Ins)
    (h1 : ∀ i ∈ x :: xs, i.currAddr = i.origAddr ∧ 0 < i.len)
    (hc : BasicBlock.Spec.Contiguous ((x :: xs).map proj)) : TilesI x.currAddr (x :: xs) := by
  induction xs generalizing x with
  | nil => exact ⟨rfl, (h1 x (by simp)).2, trivial⟩
  | cons y ys ih =>
    have hxy : x.origAddr + x.len = y.origAddr := hc.1
    have hy := ih y (fun i hi => h1 i (List.mem_cons_of_mem _ hi)) hc.2
    refine ⟨rfl, (h1 x (by simp)).2, ?_⟩
    have e : x.currAddr + x.len = y.currAddr := by
      rw [(h1 x (by simp)).1, (h1 y (by simp)).1]; exact hxy
    rw [e]; exact hy

theorem tilesI_last (a : Nat) (l : List Ins) (h : TilesI a l) (hne : l ≠ []) :
    ∃ z ∈ l, a + bytesI l = z.currAddr + z.len := by
  induction l generalizing a with
  | nil => exact absurd rfl hne
  | cons x xs ih =>
    cases xs with
    | nil => exact ⟨x, by simp, by simp [bytesI, h.1]⟩
    | cons y ys =>
      obtain ⟨z, hz, e⟩ := ih (a + x.len) h.2.2 (by simp)
      refine ⟨z, List.mem_cons_of_mem _ hz, ?_⟩
      rw [bytesI_cons, ← e]; omega

/-! ### `newBlock` -/

theorem newBlock_some (k : Nat) (l : List Ins) (hne : l ≠ []) : ∃ b, newBlock k l = some b := by
  obtain ⟨E, hE⟩ := findAllDeps_isSome (indexFrom 0 l) (indexFrom_ne_nil 0 l hne)
  cases l with
  | nil => exact absurd rfl hne
  | cons x xs =>
    simp only [indexFrom] at hE
    simp only [newBlock, indexFrom, hE]
    exact ⟨_, rfl⟩

theorem newBlock_eq (k : Nat) (l : List Ins) (b : Block) (h : newBlock k l = some b) :
    ∃ x xs E, l = x :: xs ∧ findAllDeps (indexFrom 0 l) = some E ∧
      b = { ptr := k, begin := x.currAddr, end_ := (x.currAddr + seqLength (indexFrom 0 l)) % M,
            seq := indexFrom 0 l, edges := E, idx := k } := by
  cases l with
  | nil =>
    simp only [newBlock, indexFrom] at h
    split at h <;> simp_all
  | cons x xs =>
    cases hE : findAllDeps (indexFrom 0 (x :: xs)) with
    | none =>
      simp only [indexFrom] at hE
      simp [newBlock, indexFrom, hE] at h
    | some E =>
      refine ⟨x, xs, E, rfl, rfl, ?_⟩
      simp only [indexFrom] at hE
      simp only [newBlock, indexFrom, hE, Option.some.injEq] at h
      rw [← h]
      simp [indexFrom]

/-- a block built from raw instructions that are contiguous and inside the address space -/
theorem newBlock_inv (k : Nat) (l : List Ins) (b : Block) (h : newBlock k l = some b)
    (hraw : ∀ i ∈ l, i.currAddr = i.origAddr ∧
      i.jumpTargets = BasicBlock.jumps i.origAddr i.len i.effects)
    (hwf : ∀ i ∈ l, 0 < i.len ∧ i.origAddr + i.len ≤ M)
    (hc : BasicBlock.Spec.Contiguous (l.map proj)) :
    BInv b ∧ Fresh b ∧ b.ptr = k ∧ b.idx = k ∧ (∃ f ∈ l, b.begin = f.origAddr) ∧
      ∃ z ∈ l, b.begin + bytesI b.seq = z.origAddr + z.len := by
  obtain ⟨x, xs, E, rfl, hE, rfl⟩ := newBlock_eq k l b h
  have htl : TilesI x.currAddr (x :: xs) :=
    tilesI_of_contiguous x xs (fun i hi => ⟨(hraw i hi).1, (hwf i hi).1⟩) hc
  obtain ⟨z, hz, hzE⟩ := tilesI_last _ _ htl (by simp)
  have hzE' : x.currAddr + bytesI (x :: xs) = z.origAddr + z.len := by rw [hzE, (hraw z hz).1]
  have hids := idsOf_indexFrom_zero (x :: xs)
  have hpos := idsArePositions_indexFrom (x :: xs)
  refine ⟨⟨?_, ?_, ?_, ?_, ?_, ?_, ?_⟩, ⟨?_, ?_, ?_, ?_⟩, rfl, rfl, ?_, ?_⟩
  · exact indexFrom_ne_nil 0 _ (by simp)
  · exact idxFrom_indexFrom 0 _
  · show (idsOf (indexFrom 0 (x :: xs))).Perm (List.range (indexFrom 0 (x :: xs)).length)
    rw [hids, indexFrom_length]
  · exact (tilesI_indexFrom _ _ _).2 htl
  · show x.currAddr + bytesI (indexFrom 0 (x :: xs)) ≤ M
    rw [bytesI_indexFrom, hzE']; exact (hwf z hz).2
  · show (x.currAddr + seqLength (indexFrom 0 (x :: xs))) % M
      = (x.currAddr + bytesI (indexFrom 0 (x :: xs))) % M
    rw [seqLength_eq, Nat.add_mod_mod]
  · show Fwd (idsOf (indexFrom 0 (x :: xs))) E
    intro e he
    have := edges_forward _ hpos E hE e he
    rw [indexFrom_length] at this
    rw [hids]
    refine ⟨List.mem_range.2 (by omega), List.mem_range.2 this.2, ?_⟩
    rw [idxOf_range _ _ this.2, idxOf_range _ _ (by omega)]
    exact this.1
  · exact hpos
  · intro i hi
    obtain ⟨i0, h0, a, c, rfl⟩ := mem_indexFrom _ _ _ hi
    exact (hraw i0 h0).1
  · intro i hi
    obtain ⟨i0, h0, a, c, rfl⟩ := mem_indexFrom _ _ _ hi
    exact (hraw i0 h0).2
  · exact hE
  · exact ⟨x, by simp, (hraw x (by simp)).1⟩
  · refine ⟨z, hz, ?_⟩
    show x.currAddr + bytesI (indexFrom 0 (x :: xs)) = _
    rw [bytesI_indexFrom, hzE']

/-! ### `newBlocks` -/

theorem newBlocks_some (k : Nat) (ls : List (List Ins)) (hne : ∀ l ∈ ls, l ≠ []) :
    ∃ bs, newBlocks k ls = some bs := by
  induction ls generalizing k with
  | nil => exact ⟨[], rfl⟩
  | cons l rest ih =>
    obtain ⟨b, hb⟩ := newBlock_some k l (hne l (by simp))
    obtain ⟨bs, hbs⟩ := ih (k + 1) (fun l hl => hne l (List.mem_cons_of_mem _ hl))
    exact ⟨b :: bs, by simp [newBlocks, hb, hbs]⟩

theorem newBlocks_spec (k : Nat) (ls : List (List Ins)) (bs : List Block)
    (h : newBlocks k ls = some bs) :
    bs.length = ls.length ∧
      ∀ j (h1 : j < ls.length) (h2 : j < bs.length), newBlock (k + j) ls[j] = some bs[j] := by
  induction ls generalizing k bs with
  | nil =>
    simp only [newBlocks, Option.some.injEq] at h
    subst h
    simp
  | cons l rest ih =>
    cases hb : newBlock k l with
    | none => simp [newBlocks, hb] at h
    | some b =>
      cases hbs : newBlocks (k + 1) rest with
      | none => simp [newBlocks, hb, hbs] at h
      | some bs' =>
        simp only [newBlocks, hb, hbs, Option.some.injEq] at h
        subst h
        obtain ⟨hl, hj⟩ := ih (k + 1) bs' hbs
        refine ⟨by simp [hl], ?_⟩
        intro j h1 h2
        cases j with
        | zero => simpa using hb
        | succ j =>
          have := hj j (by simpa using h1) (by simpa using h2)
          simp only [List.getElem_cons_succ]
          rw [← this]; congr 1; omega

/-! ### `findRaw` -/

theorem findRaw_spec (ins : List Ins)
    (hd : (ins.map proj).Pairwise fun a b => a.addr ≠ b.addr) (x : BasicBlock.Ins)
    (hx : x ∈ ins.map proj) : ∃ i ∈ ins, findRaw ins x = some i ∧ proj i = x := by
  induction ins with
  | nil => simp at hx
  | cons i0 rest ih =>
    simp only [List.map_cons, List.pairwise_cons] at hd
    simp only [List.map_cons, List.mem_cons] at hx
    rcases hx with rfl | hx
    · exact ⟨i0, by simp, by simp [findRaw, proj], rfl⟩
    · have hne : i0.origAddr ≠ x.addr := hd.1 x hx
      obtain ⟨i, hi, hf, hp⟩ := ih hd.2 hx
      refine ⟨i, List.mem_cons_of_mem _ hi, ?_, hp⟩
      have hb : (i0.origAddr == x.addr) = false := by simpa using hne
      simp only [findRaw, List.find?_cons, hb] at hf ⊢
      exact hf

theorem filterMap_findRaw (ins : List Ins)
    (hd : (ins.map proj).Pairwise fun a b => a.addr ≠ b.addr) (s : List BasicBlock.Ins)
    (hs : ∀ x ∈ s, x ∈ ins.map proj) :
    (s.filterMap (findRaw ins)).map proj = s ∧ ∀ i ∈ s.filterMap (findRaw ins), i ∈ ins := by
  induction s with
  | nil => simp
  | cons x xs ih =>
    obtain ⟨i, hi, hf, hp⟩ := findRaw_spec ins hd x (hs x (by simp))
    obtain ⟨h1, h2⟩ := ih (fun y hy => hs y (List.mem_cons_of_mem _ hy))
    rw [List.filterMap_cons, hf]
    refine ⟨by simp [hp, h1], ?_⟩
    intro j hj
    rcases List.mem_cons.1 hj with rfl | hj
    · exact hi
    · exact h2 j hj

/-! ### `newCode` -/

/-- the instruction objects `NewCode` creates -/
def rawIns (raw : List (Nat × Nat × Nat × List Effect)) : List Ins :=
  raw.map fun (t, a, l, efs) => newInstruction t a l efs

theorem rawIns_proj (raw : List (Nat × Nat × Nat × List Effect)) :
    (rawIns raw).map proj = toBB raw := by
  simp only [rawIns, toBB, List.map_map]
  apply List.map_congr_left
  rintro ⟨t, a, l, efs⟩ _
  rfl

theorem rawIns_raw (raw : List (Nat × Nat × Nat × List Effect)) :
    ∀ i ∈ rawIns raw, i.currAddr = i.origAddr ∧
      i.jumpTargets = BasicBlock.jumps i.origAddr i.len i.effects := by
  intro i hi
  obtain ⟨⟨t, a, l, efs⟩, _, rfl⟩ := List.mem_map.1 hi
  exact ⟨rfl, rfl⟩

theorem newCode_unfold (entry : Nat) (raw : List (Nat × Nat × Nat × List Effect)) :
    newCode entry raw =
      (BasicBlock.parse entry (toBB raw)).bind fun seqs =>
        match newBlocks 0 (seqs.map fun s => s.filterMap (findRaw (rawIns raw))) with
        | none => .error .panic
        | some bs => .ok { entry, store := bs, blocks := List.range bs.length } := by
  rw [← rawIns_proj]
  rfl

/-- what `Parse` returns on well-formed code -/
theorem parse_facts (entry : Nat) (raw : List (Nat × Nat × Nat × List Effect))
    (hwf : BasicBlock.Spec.WF (toBB raw)) (seqs : List (List BasicBlock.Ins))
    (hp : BasicBlock.parse entry (toBB raw) = .ok seqs) :
    Lemmas.BasicBlock.SortedWF seqs.flatten ∧ (∀ s ∈ seqs, s ≠ []) ∧
      (∀ s ∈ seqs, BasicBlock.Spec.Contiguous s) ∧ ∀ s ∈ seqs, ∀ x ∈ s, x ∈ toBB raw := by
  obtain ⟨⟨hfl, hne, _⟩, hc⟩ := Props.C08.parse_partition entry (toBB raw) hwf seqs hp
  rw [← Lemmas.BasicBlock.sortIns_eq_sortByAddr _ hwf] at hfl
  refine ⟨?_, hne, hc, ?_⟩
  · rw [hfl]; exact Lemmas.BasicBlock.sortedWF_sortIns _ hwf
  · intro s hs x hx
    have : x ∈ seqs.flatten := List.mem_flatten.2 ⟨s, hs, hx⟩
    rw [hfl] at this
    exact (Lemmas.BasicBlock.sortIns_perm _).mem_iff.1 this

theorem wf_addr_distinct (l : List BasicBlock.Ins) (hwf : BasicBlock.Spec.WF l) :
    l.Pairwise fun a b => a.addr ≠ b.addr := by
  refine List.Pairwise.imp_of_mem ?_ hwf.2
  intro a b ha hb hab
  have := (hwf.1 a ha).1
  have := (hwf.1 b hb).1
  omega

/-- the per-block facts about the result of `newBlocks` on the parsed sequences -/
theorem newBlocks_parsed (entry : Nat) (raw : List (Nat × Nat × Nat × List Effect))
    (hwf : BasicBlock.Spec.WF (toBB raw)) (seqs : List (List BasicBlock.Ins))
    (hp : BasicBlock.parse entry (toBB raw) = .ok seqs) (bs : List Block)
    (hnb : newBlocks 0 (seqs.map fun s => s.filterMap (findRaw (rawIns raw))) = some bs) :
    bs.length = seqs.length ∧
    ∀ j (h2 : j < bs.length) (h1 : j < seqs.length),
      BInv bs[j] ∧ Fresh bs[j] ∧ bs[j].ptr = j ∧ bs[j].idx = j ∧
        (∃ f ∈ seqs[j], bs[j].begin = f.addr) ∧
        ∃ z ∈ seqs[j], bs[j].begin + bytesI bs[j].seq = z.addr + z.len := by
  obtain ⟨_, _, hcont, hmem⟩ := parse_facts entry raw hwf seqs hp
  have hd : ((rawIns raw).map proj).Pairwise fun a b => a.addr ≠ b.addr := by
    rw [rawIns_proj]; exact wf_addr_distinct _ hwf
  obtain ⟨hlen, hj⟩ := newBlocks_spec 0 _ bs hnb
  rw [List.length_map] at hlen
  refine ⟨hlen, ?_⟩
  intro j h2 h1
  have hnbj := hj j (by simpa using h1) h2
  rw [List.getElem_map, Nat.zero_add] at hnbj
  obtain ⟨hm1, hm2⟩ := filterMap_findRaw (rawIns raw) hd seqs[j]
    (fun x hx => by rw [rawIns_proj]; exact hmem _ (List.getElem_mem h1) x hx)
  have hwf' : ∀ i ∈ seqs[j].filterMap (findRaw (rawIns raw)), 0 < i.len ∧ i.origAddr + i.len ≤ M := by
    intro i hi
    have : proj i ∈ toBB raw := by
      rw [← rawIns_proj]; exact List.mem_map_of_mem (hm2 i hi)
    exact hwf.1 (proj i) this
  obtain ⟨hB, hF, hptr, hidx, ⟨f, hf, hfb⟩, ⟨z, hz, hzb⟩⟩ :=
    newBlock_inv j _ bs[j] hnbj (fun i hi => rawIns_raw raw i (hm2 i hi)) hwf'
      (by rw [hm1]; exact hcont _ (List.getElem_mem h1))
  refine ⟨hB, hF, hptr, hidx, ⟨proj f, ?_, hfb⟩, ⟨proj z, ?_, hzb⟩⟩
  · rw [← hm1]; exact List.mem_map_of_mem hf
  · rw [← hm1]; exact List.mem_map_of_mem hz

theorem newCode_inv (entry : Nat) (raw : List (Nat × Nat × Nat × List Effect))
    (hwf : BasicBlock.Spec.WF (toBB raw)) (c : Code) (h : newCode entry raw = .ok c) :
    CInv c ∧ c.blocks = List.range c.store.length ∧ c.entry = entry ∧ ∀ b ∈ c.store, Fresh b := by
  rw [newCode_unfold] at h
  cases hp : BasicBlock.parse entry (toBB raw) with
  | error e => rw [hp] at h; cases h
  | ok seqs =>
    rw [hp] at h
    simp only [Except.bind] at h
    cases hnb : newBlocks 0 (seqs.map fun s => s.filterMap (findRaw (rawIns raw))) with
    | none => rw [hnb] at h; cases h
    | some bs =>
      rw [hnb] at h
      simp only [Except.ok.injEq] at h
      subst h
      obtain ⟨hsw, _, _, _⟩ := parse_facts entry raw hwf seqs hp
      obtain ⟨hlen, key⟩ := newBlocks_parsed entry raw hwf seqs hp bs hnb
      have hpw := (List.pairwise_flatten.1 hsw.2).2
      refine ⟨⟨?_, ?_, ?_, ?_, ?_⟩, rfl, rfl, ?_⟩
      · intro b hb
        obtain ⟨j, hj, rfl⟩ := List.getElem_of_mem hb
        exact (key j hj (Nat.lt_of_lt_of_eq hj hlen)).1
      · intro p hpl
        exact (key p hpl (Nat.lt_of_lt_of_eq hpl hlen)).2.2.1
      · exact List.Perm.refl _
      · intro k hk hkp
        show (bs[(List.range bs.length)[k]]'hkp).idx = k
        have hk' : k < bs.length := by simpa using hk
        have e : (List.range bs.length)[k] = k := List.getElem_range _
        have := (key k hk' (by omega)).2.2.2.1
        simp only [e]
        exact this
      · show bs.Pairwise _
        rw [List.pairwise_iff_getElem]
        intro i j hi hj hij
        obtain ⟨_, _, _, _, _, ⟨z, hz, hzb⟩⟩ := key i hi (by omega)
        obtain ⟨_, _, _, _, ⟨f, hf, hfb⟩, _⟩ := key j hj (by omega)
        rw [hzb, hfb]
        exact (List.pairwise_iff_getElem.1 hpw) i j (by omega) (by omega) hij z hz f hf
      · intro b hb
        obtain ⟨j, hj, rfl⟩ := List.getElem_of_mem hb
        exact (key j hj (Nat.lt_of_lt_of_eq hj hlen)).2.1

/-- `NewCode` never panics on well-formed code -/
theorem newCode_nopanic (entry : Nat) (raw : List (Nat × Nat × Nat × List Effect))
    (hwf : BasicBlock.Spec.WF (toBB raw)) : newCode entry raw ≠ .error .panic := by
  rw [newCode_unfold]
  cases hp : BasicBlock.parse entry (toBB raw) with
  | error e =>
    intro h
    simp only [Except.bind] at h
    have := Props.C08.parse_never_panics entry (toBB raw)
    rw [hp] at this
    cases h
    exact this rfl
  | ok seqs =>
    simp only [Except.bind]
    obtain ⟨_, hne, _, hmem⟩ := parse_facts entry raw hwf seqs hp
    have hd : ((rawIns raw).map proj).Pairwise fun a b => a.addr ≠ b.addr := by
      rw [rawIns_proj]; exact wf_addr_distinct _ hwf
    have hne' : ∀ l ∈ seqs.map (fun s => s.filterMap (findRaw (rawIns raw))), l ≠ [] := by
      intro l hl
      obtain ⟨s, hs, rfl⟩ := List.mem_map.1 hl
      obtain ⟨hm1, _⟩ := filterMap_findRaw (rawIns raw) hd s
        (fun x hx => by rw [rawIns_proj]; exact hmem s hs x hx)
      intro hnil
      rw [hnil] at hm1
      exact hne s hs hm1.symm
    obtain ⟨bs, hbs⟩ := newBlocks_some 0 _ hne'
    rw [hbs]
    intro h
    cases h

end Mltwist.Lemmas.Deps
