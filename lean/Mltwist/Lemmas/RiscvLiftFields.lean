import Mltwist.Lemmas.RiscvLiftBasic
/-
C01 library, part 3: instruction-word fields and the evaluation of the lifter's atoms.

* §1 field agreement, model (`regNum`, `immParse`, `csrKey`, `csrImm`) = reference (`rd`, `rs1`,
  `rs2`, `immI/S/B/U/J`, `csrNum`, `zimm`) for words `w < 2^32`, and bounds on the immediates
* §2 `Ctx xlen W ρ s w`: the standing hypotheses of an entry proof bundled in one structure
* §3 evaluation of constants (`constFromInt`, `constFromUint`, `addrConst`, `addrImmConst`,
  `immConst`, `csrImm`), of register reads (`regLoad`, CSR reads) and of `memLoad` under a `Ctx`

Convention: `W` is the register width in BYTES (4 or 8), `xlen = 8 * W` in BITS.
-/
namespace Mltwist.Lemmas.RiscvLift
open Mltwist Mltwist.Riscv Mltwist.Spec.Rv Mltwist.Spec.Lift
open Mltwist.Lemmas.EvalBasic

/-! ## §1 Fields -/

theorem regNum_rd (w : Nat) : regNum .rd w = rd w := rfl
theorem regNum_rs1 (w : Nat) : regNum .rs1 w = rs1 w := rfl
theorem regNum_rs2 (w : Nat) : regNum .rs2 w = rs2 w := rfl

theorem bits_lt (w lo n : Nat) : bits w lo n < 2 ^ n := Nat.mod_lt _ (pow_pos' n)
theorem rd_lt (w : Nat) : rd w < 32 := bits_lt w 7 5
theorem rs1_lt (w : Nat) : rs1 w < 32 := bits_lt w 15 5
theorem rs2_lt (w : Nat) : rs2 w < 32 := bits_lt w 20 5
theorem zimm_lt (w : Nat) : zimm w < 32 := bits_lt w 15 5
theorem csrNum_lt (w : Nat) : csrNum w < 4096 := bits_lt w 20 12

/-- the model's `signExtend(u, k)` is the reference's `sx (k+1) u` -/
theorem signExtendImm_eq_sx {u k : Nat} (hu : u < 2 ^ (k + 1)) :
    signExtendImm u k = sx (k + 1) u := by
  rw [sx_eq hu]
  unfold signExtendImm
  have h2 : 2 ^ (k + 1) = 2 * 2 ^ k := by rw [Nat.pow_succ]; omega
  have hp := Nat.two_pow_pos k
  have hd : u / 2 ^ k < 2 := by rw [Nat.div_lt_iff_lt_mul hp]; omega
  have hiff : u / 2 ^ k % 2 = 0 ↔ u < 2 ^ k := by
    rw [Nat.mod_eq_of_lt hd, Nat.div_eq_zero_iff]; omega
  simp only [hiff, Nat.add_sub_cancel]

theorem immParse_I {w : Nat} (hw : w < 2 ^ 32) : (immParse .I w).1 = immI w := by
  have h : bitRange w 20 32 = bits w 20 12 := by unfold bitRange bits; omega
  show signExtendImm (bitRange w 20 32) 11 = sx 12 (bits w 20 12)
  rw [h]; exact signExtendImm_eq_sx (bits_lt _ _ _)

theorem immParse_S {w : Nat} (hw : w < 2 ^ 32) : (immParse .S w).1 = immS w := by
  have h : bitRange w 25 32 * 32 + bitRange w 7 12 = bits w 25 7 * 32 + bits w 7 5 := by
    unfold bitRange bits; omega
  show signExtendImm (bitRange w 25 32 * 32 + bitRange w 7 12) 11
    = sx 12 (bits w 25 7 * 32 + bits w 7 5)
  rw [h]; exact signExtendImm_eq_sx (by unfold bits; omega)

theorem immParse_B {w : Nat} (hw : w < 2 ^ 32) : (immParse .B w).1 = immB w := by
  have h : bitRange w 8 12 * 2 + bitRange w 25 31 * 32 + bitRange w 7 8 * 2048
        + bitRange w 31 32 * 4096
      = bits w 31 1 * 4096 + bits w 7 1 * 2048 + bits w 25 6 * 32 + bits w 8 4 * 2 := by
    unfold bitRange bits; omega
  show signExtendImm _ 12 = sx 13 _
  rw [h]; exact signExtendImm_eq_sx (by unfold bits; omega)

theorem immParse_U {w : Nat} (hw : w < 2 ^ 32) : (immParse .U w).1 = immU w := by
  have h : bitRange w 12 32 * 4096 = bits w 12 20 * 4096 := by unfold bitRange bits; omega
  show toInt32 _ = sx 32 _
  rw [h, sx_eq (by unfold bits; omega)]
  rfl

theorem immParse_J {w : Nat} (hw : w < 2 ^ 32) : (immParse .J w).1 = immJ w := by
  have h : bitRange w 21 31 * 2 + bitRange w 20 21 * 2048 + bitRange w 12 20 * 4096
        + bitRange w 31 32 * 1048576
      = bits w 31 1 * 1048576 + bits w 12 8 * 4096 + bits w 20 1 * 2048 + bits w 21 10 * 2 := by
    unfold bitRange bits; omega
  show signExtendImm _ 20 = sx 21 _
  rw [h]; exact signExtendImm_eq_sx (by unfold bits; omega)

theorem immParse_shamt {w : Nat} (_hw : w < 2 ^ 32) : (immParse .shamt w).1 = (bits w 20 6 : Nat) := by
  show ((bitRange w 20 26 : Nat) : Int) = _
  congr 1
  unfold bitRange bits; omega

/-- immediates are small: all of them fit 32 signed bits (used for `toInt_wrap`, `sx_wrap`) -/
theorem immI_bounds (w : Nat) : -2048 ≤ immI w ∧ immI w < 2048 :=
  ⟨sx_lower (n := 12) (by decide) _, sx_upper (n := 12) (by decide) _⟩
theorem immS_bounds (w : Nat) : -2048 ≤ immS w ∧ immS w < 2048 :=
  ⟨sx_lower (n := 12) (by decide) _, sx_upper (n := 12) (by decide) _⟩
theorem immB_bounds (w : Nat) : -4096 ≤ immB w ∧ immB w < 4096 :=
  ⟨sx_lower (n := 13) (by decide) _, sx_upper (n := 13) (by decide) _⟩
theorem immU_bounds (w : Nat) : -2147483648 ≤ immU w ∧ immU w < 2147483648 :=
  ⟨sx_lower (n := 32) (by decide) _, sx_upper (n := 32) (by decide) _⟩
theorem immJ_bounds (w : Nat) : -1048576 ≤ immJ w ∧ immJ w < 1048576 :=
  ⟨sx_lower (n := 21) (by decide) _, sx_upper (n := 21) (by decide) _⟩

/-- the low `k ≤ 12` bits of the I-immediate are the bits of the word (shift amounts) -/
theorem immI_mod {w k : Nat} (hk : k ≤ 12) :
    (immI w % ((2 ^ k : Nat) : Int)).toNat = bits w 20 k := by
  have hv : bits w 20 12 < 2 ^ 12 := bits_lt _ _ _
  have hb : bits w 20 k = bits w 20 12 % 2 ^ k := by
    unfold bits
    rw [Nat.mod_mod_of_dvd _ (Nat.pow_dvd_pow 2 hk)]
  have hd : ((2 ^ k : Nat) : Int) ∣ ((2 ^ 12 : Nat) : Int) :=
    Int.natCast_dvd_natCast.mpr (Nat.pow_dvd_pow 2 hk)
  unfold immI
  rw [sx_eq hv, hb]
  split
  · rw [← Int.natCast_emod, Int.toNat_natCast]
  · obtain ⟨c, hc⟩ := hd
    have : ((bits w 20 12 : Nat) : Int) - ((2 ^ 12 : Nat) : Int)
        = ((bits w 20 12 : Nat) : Int) + (-c) * ((2 ^ k : Nat) : Int) := by
      rw [hc, Int.neg_mul, Int.mul_comm]; omega
    rw [this, Int.add_mul_emod_self_right, ← Int.natCast_emod, Int.toNat_natCast]

/-- the key of a CSR instruction is the register of its CSR number -/
theorem csrKey_eq' {a w : Nat} (hw : w < 2 ^ 32) : csrKey ⟨a, w⟩ = csrName (csrNum w) := by
  unfold csrKey csrName
  congr 2
  show ((immParse .I w).1 % 65536).toNat = _
  rw [immParse_I hw]
  have hv : bits w 20 12 < 2 ^ 12 := bits_lt _ _ _
  unfold immI csrNum
  rw [sx_eq hv]
  simp only [Nat.reducePow, Nat.reduceSub] at hv ⊢
  split <;> omega

/-! ## §2 The standing context of an entry proof -/

/-- Standing hypotheses: register width `W` bytes (4 or 8) = `xlen` bits, a 32-bit word `w`,
a well-formed reference state `s` represented by the valuation `ρ`. -/
structure Ctx (xlen W : Nat) (ρ : Env) (s : St) (w : Nat) : Prop where
  hX : xlen = 8 * W
  hW : W = 4 ∨ W = 8
  hw : w < 2 ^ 32
  wf : St.WF xlen s
  rel : Rel ρ s

namespace Ctx
variable {xlen W : Nat} {ρ : Env} {s : St} {w : Nat}

theorem mk32 (hw : w < 2 ^ 32) (wf : St.WF 32 s) (rel : Rel ρ s) : Ctx 32 4 ρ s w :=
  ⟨rfl, Or.inl rfl, hw, wf, rel⟩
theorem mk64 (hw : w < 2 ^ 32) (wf : St.WF 64 s) (rel : Rel ρ s) : Ctx 64 8 ρ s w :=
  ⟨rfl, Or.inr rfl, hw, wf, rel⟩

theorem W_pos (h : Ctx xlen W ρ s w) : 1 ≤ W := by rcases h.hW with h | h <;> omega
theorem W_ge (h : Ctx xlen W ρ s w) : 4 ≤ W := by rcases h.hW with h | h <;> omega
theorem W_le (h : Ctx xlen W ρ s w) : W ≤ 8 := by rcases h.hW with h | h <;> omega
theorem xlen_cases (h : Ctx xlen W ρ s w) : xlen = 32 ∨ xlen = 64 := by
  have := h.hX; rcases h.hW with h | h <;> omega
theorem xlen_le (h : Ctx xlen W ρ s w) : xlen ≤ 64 := by
  rcases h.xlen_cases with h | h <;> omega
theorem xlen_ge (h : Ctx xlen W ρ s w) : 32 ≤ xlen := by
  rcases h.xlen_cases with h | h <;> omega
/-- `2^xlen ≤ 2^64`: addresses below `2^xlen` are not touched by the IR's `mod 2^64` -/
theorem pow_le (h : Ctx xlen W ρ s w) : 2 ^ xlen ≤ 2 ^ 64 :=
  Nat.pow_le_pow_right (by decide) h.xlen_le
theorem pow_ge (h : Ctx xlen W ρ s w) : 2 ^ 32 ≤ 2 ^ xlen :=
  Nat.pow_le_pow_right (by decide) h.xlen_ge

/-- truncation to the register width is reduction mod `2^xlen` -/
theorem trunc_eq (h : Ctx xlen W ρ s w) (x : Nat) : trunc W x = x % 2 ^ xlen := by
  rw [h.hX]; rfl

theorem trunc_of_lt (h : Ctx xlen W ρ s w) {x : Nat} (hx : x < 2 ^ xlen) : trunc W x = x := by
  rw [h.trunc_eq, Nat.mod_eq_of_lt hx]

/-- register values are below `2^xlen` -/
theorem get_lt (h : Ctx xlen W ρ s w) (r : Nat) : s.get r < 2 ^ xlen := h.wf.get_lt r
theorem get_lt' (h : Ctx xlen W ρ s w) (r : Nat) : s.get r < 2 ^ (8 * W) := by
  rw [← h.hX]; exact h.get_lt r
theorem trunc_get (h : Ctx xlen W ρ s w) (r : Nat) : trunc W (s.get r) = s.get r :=
  h.trunc_of_lt (h.get_lt r)
theorem pc_lt (h : Ctx xlen W ρ s w) : s.pc < 2 ^ xlen := h.wf.pc
theorem csr_lt (h : Ctx xlen W ρ s w) (n : Nat) : s.csr n < 2 ^ xlen := h.wf.csr n

end Ctx

/-! ## §3 Evaluation of atoms -/

theorem eval_constFromInt (ρ : Env) (W : Nat) (i : Int) :
    (constFromInt W i).eval ρ = wrap (8 * W) i := by
  show leToNat (natToLE W _) = _
  rw [leToNat_natToLE]
  exact wrap_mod _ _

theorem eval_constFromUint (ρ : Env) (W v : Nat) :
    (constFromUint W v).eval ρ = v % 2 ^ (8 * W) := leToNat_natToLE W v

theorem width_constFromUint (W v : Nat) : (constFromUint W v).width = W := length_natToLE W v
theorem width_constFromInt (W : Nat) (i : Int) : (constFromInt W i).width = W := length_natToLE W _

theorem addrAddImm_eq (a : Nat) (i : Int) : addrAddImm a i = wrap 64 ((a : Int) + i) := rfl

theorem eval_addrConst (ρ : Env) (a W : Nat) (hW : 8 * W ≤ 64) :
    (addrConst a W).eval ρ = a % 2 ^ (8 * W) := by
  show leToNat (natToLE W _) = _
  rw [leToNat_natToLE, Nat.mod_mod_of_dvd _ (Nat.pow_dvd_pow 2 hW)]

/-- the width of the model's atoms (needed by gadget lemmas with width side conditions:
`eval_signedDiv`, `eval_signedMul`, …) -/
theorem width_regLoad (r : Reg) (i : Ins) (W : Nat) (hW : W = 1 ∨ regNum r i.value ≠ 0) :
    (regLoad r i W).width = W := by
  unfold regLoad
  by_cases h : regNum r i.value = 0
  · rcases hW with rfl | h' <;> simp_all [Expr.zero, Expr.width]
  · simp [h, Expr.width]

namespace Ctx
variable {xlen W : Nat} {ρ : Env} {s : St} {w : Nat}

/-- a register read at any width `W'`: the register truncated to `W'` bytes (`x0` reads 0) -/
theorem eval_regLoad' (h : Ctx xlen W ρ s w) (r : Reg) (a W' : Nat) :
    (regLoad r ⟨a, w⟩ W').eval ρ = trunc W' (s.get (regNum r w)) := by
  unfold regLoad
  have h32 : regNum r w < 32 := Nat.mod_lt _ (by decide)
  by_cases h0 : regNum r w = 0
  · simp [h0]
  · simp only [h0, if_false, Expr.eval, regName_eq, h.rel.x _ (by omega) h32, St.get_of_ne h0]

/-- a register read at the full width: the register -/
theorem eval_regLoad (h : Ctx xlen W ρ s w) (r : Reg) (a : Nat) :
    (regLoad r ⟨a, w⟩ W).eval ρ = s.get (regNum r w) := by
  rw [h.eval_regLoad', h.trunc_get]

theorem eval_rs1 (h : Ctx xlen W ρ s w) (a : Nat) :
    (regLoad .rs1 ⟨a, w⟩ W).eval ρ = s.get (rs1 w) := h.eval_regLoad .rs1 a
theorem eval_rs2 (h : Ctx xlen W ρ s w) (a : Nat) :
    (regLoad .rs2 ⟨a, w⟩ W).eval ρ = s.get (rs2 w) := h.eval_regLoad .rs2 a
theorem eval_rs1' (h : Ctx xlen W ρ s w) (a W' : Nat) :
    (regLoad .rs1 ⟨a, w⟩ W').eval ρ = trunc W' (s.get (rs1 w)) := h.eval_regLoad' .rs1 a W'
theorem eval_rs2' (h : Ctx xlen W ρ s w) (a W' : Nat) :
    (regLoad .rs2 ⟨a, w⟩ W').eval ρ = trunc W' (s.get (rs2 w)) := h.eval_regLoad' .rs2 a W'

/-- immediates as constants of any width `W'` -/
theorem eval_immI (h : Ctx xlen W ρ s w) (a W' : Nat) :
    (immConst .I ⟨a, w⟩ W').eval ρ = wrap (8 * W') (immI w) := by
  unfold immConst; rw [eval_constFromInt]; show wrap _ (immParse .I w).1 = _; rw [immParse_I h.hw]
theorem eval_immS (h : Ctx xlen W ρ s w) (a W' : Nat) :
    (immConst .S ⟨a, w⟩ W').eval ρ = wrap (8 * W') (immS w) := by
  unfold immConst; rw [eval_constFromInt]; show wrap _ (immParse .S w).1 = _; rw [immParse_S h.hw]
theorem eval_immU (h : Ctx xlen W ρ s w) (a W' : Nat) :
    (immConst .U ⟨a, w⟩ W').eval ρ = wrap (8 * W') (immU w) := by
  unfold immConst; rw [eval_constFromInt]; show wrap _ (immParse .U w).1 = _; rw [immParse_U h.hw]

/-- `pc + immediate` as an address constant of the register width -/
theorem eval_addrImmConst (h : Ctx xlen W ρ s w) (t : ImmType) :
    (addrImmConst t ⟨s.pc, w⟩ W).eval ρ = wrap xlen ((s.pc : Int) + (immParse t w).1) := by
  unfold addrImmConst
  have h64 : 8 * W ≤ 64 := by have := h.W_le; omega
  rw [eval_addrConst _ _ _ h64, addrAddImm_eq, h.hX]
  exact wrap_mod_of_le h64 _
theorem eval_addrImmConst_B (h : Ctx xlen W ρ s w) :
    (addrImmConst .B ⟨s.pc, w⟩ W).eval ρ = wrap xlen ((s.pc : Int) + immB w) := by
  rw [h.eval_addrImmConst, immParse_B h.hw]
theorem eval_addrImmConst_J (h : Ctx xlen W ρ s w) :
    (addrImmConst .J ⟨s.pc, w⟩ W).eval ρ = wrap xlen ((s.pc : Int) + immJ w) := by
  rw [h.eval_addrImmConst, immParse_J h.hw]

/-- the address of the following instruction -/
theorem eval_addrConst_next (h : Ctx xlen W ρ s w) :
    (addrConst (s.pc + 4) W).eval ρ = (s.pc + 4) % 2 ^ xlen := by
  have h64 : 8 * W ≤ 64 := by have := h.W_le; omega
  rw [eval_addrConst _ _ _ h64, h.hX]

/-- the CSR register read -/
theorem eval_csr (h : Ctx xlen W ρ s w) (a : Nat) :
    (Expr.regLoad (csrKey ⟨a, w⟩) W).eval ρ = s.csr (csrNum w) := by
  show trunc W (ρ.reg (csrKey ⟨a, w⟩)) = _
  rw [csrKey_eq' h.hw, h.rel.csr _ (csrNum_lt w), h.trunc_of_lt (h.csr_lt _)]

theorem eval_csrImm (_h : Ctx xlen W ρ s w) (a : Nat) : (csrImm ⟨a, w⟩).eval ρ = zimm w := by
  unfold csrImm
  rw [eval_constFromUint]
  show (w / 2 ^ 15 % 32) % 2 ^ (8 * 1) = (w / 2 ^ 15) % 2 ^ 5
  omega

/-- a memory read of `n` bytes at an address expression whose value `A` is in range and does not
wrap: the reference's load -/
theorem eval_memLoad (h : Ctx xlen W ρ s w) (addr : Expr) (n : Nat) {A : Nat}
    (hA : addr.eval ρ = A) (hlt : A < 2 ^ xlen) (hn : A + n ≤ 2 ^ xlen) :
    (Riscv.memLoad addr n).eval ρ = s.load A n := by
  have hp := h.pow_le
  show loadBytes (ρ.mem memoryKey) (addr.eval ρ % 2 ^ 64) n = _
  rw [hA, Nat.mod_eq_of_lt (by omega), memoryKey_eq]
  exact loadBytes_eq_load h.rel A n (by omega)

end Ctx

end Mltwist.Lemmas.RiscvLift
