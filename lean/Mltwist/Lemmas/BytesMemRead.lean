import Mltwist.Lemmas.BytesMemStore
import Mltwist.Lemmas.Interval
/-
C15, part 4: `Load`, `Missing`, `Blocks` against the byte map.
-/
namespace Mltwist.Lemmas.BytesMem
open Mltwist Mltwist.BytesMem Mltwist.BytesSpec

theorem pre_disj {l : List Block} (h : Pre l) : l.Pairwise Disj := by
  refine h.1.imp ?_
  intro x y hxy a ⟨ha, hb⟩
  unfold Covers bend at *
  omega

theorem newConst_self (s : List UInt8) (w : Nat) (h : s.length = w) : Const.newConst s w = s := by
  unfold Const.newConst Expreval.setWidth
  rw [if_pos (by omega), List.take_of_length_le (by omega)]

/-- the byte just behind a block is absent -/
theorem absent_at_end {l r : List Block} {b : Block} (h : Inv (l ++ b :: r)) :
    ofBlocks (l ++ b :: r) (bend b) = none := by
  rw [ofBlocks_eq_none_iff]
  intro y hy hc
  have hp := h.1
  rw [List.pairwise_append, List.pairwise_cons] at hp
  have hbpos := block_pos (h.2 b (by simp))
  rcases List.mem_append.1 hy with hy' | hy'
  · have := hp.2.2 y hy' b (List.mem_cons_self ..)
    unfold Covers bend at *
    omega
  · rcases List.mem_cons.1 hy' with rfl | hy''
    · unfold Covers bend at *; omega
    · have := hp.2.1.1 y hy''
      unfold Covers bend at *
      omega

theorem load_spec (bs : List Block) (h : Inv bs) (a w : Nat) (hw : 1 ≤ w) :
    ∃ r, load bs a w = .ok r ∧ (r.isSome = true ↔ Present (ofBlocks bs) a w) ∧
      ∀ v, r = some v → v.length = w ∧ ∀ i, i < w → v[i]? = ofBlocks bs (a + i) := by
  rcases locate bs (inv_pre h) a with ⟨l, b, r, rfl, hb⟩ | ⟨l, r, rfl, hl, hr⟩
  · have hpre := inv_pre h
    have hb' := hb
    unfold Covers at hb'
    unfold load
    rw [address_found hpre hb]
    simp only [List.getElem?_append_right (Nat.le_refl _), Nat.sub_self, List.getElem?_cons_zero]
    by_cases hshort : bend b < a + w
    · rw [if_pos hshort]
      refine ⟨none, rfl, ?_, by simp⟩
      simp only [Option.isSome_none, Bool.false_eq_true, false_iff]
      intro hp
      have hi : bend b - a < w := by unfold bend at *; omega
      have := hp (bend b - a) hi
      have e : a + (bend b - a) = bend b := by unfold bend at *; omega
      rw [e] at this
      exact this (absent_at_end h)
    · rw [if_neg hshort]
      have hk : a - b.1 + w ≤ b.2.length := by unfold bend at hshort; omega
      have hsl : sliceB b.2 (a - b.1) (a - b.1 + w) = some ((b.2.drop (a - b.1)).take w) := by
        unfold sliceB
        rw [if_pos ⟨by omega, hk⟩]
        congr 2
        omega
      rw [hsl]
      have hlen : ((b.2.drop (a - b.1)).take w).length = w := by
        rw [List.length_take, List.length_drop]; omega
      simp only [newConst_self _ w hlen]
      have hval : ∀ i, i < w → ((b.2.drop (a - b.1)).take w)[i]? = ofBlocks (l ++ b :: r) (a + i) := by
        intro i hi
        have hc : Covers b (a + i) := by unfold Covers; omega
        rw [ofBlocks_eq_of_mem (pre_disj hpre) (by simp) hc, List.getElem?_take, if_pos hi,
          List.getElem?_drop]
        congr 1
        omega
      refine ⟨_, rfl, ?_, ?_⟩
      · simp only [Option.isSome_some, true_iff]
        intro i hi
        rw [← hval i hi, List.getElem?_eq_getElem (by omega)]
        simp
      · intro v hv
        cases hv
        exact ⟨hlen, hval⟩
  · unfold load
    rw [address_none hl hr]
    refine ⟨none, rfl, ?_, by simp⟩
    simp only [Option.isSome_none, Bool.false_eq_true, false_iff]
    intro hp
    have := hp 0 (by omega)
    apply this
    rw [Nat.add_zero, ofBlocks_eq_none_iff]
    intro y hy hc
    rcases List.mem_append.1 hy with hy' | hy'
    · have := hl y hy'; unfold Covers bend at *; omega
    · have := hr y hy'; unfold Covers at *; omega

/-! ### `Missing`, `Blocks` -/

theorem intervals_pos (bs : List Block) (h : Inv bs) :
    ∀ i ∈ bs.map (fun b : Block => ((b.1 : Int), (bend b : Int))), i.1 < i.2 := by
  intro i hi
  obtain ⟨b, hb, rfl⟩ := List.mem_map.1 hi
  have := block_pos (h.2 b hb)
  simp only
  omega

theorem mem_intervalMap (bs : List Block) (h : Inv bs) (x : Int) :
    Interval.Mem x (intervalMap bs) ↔ 0 ≤ x ∧ ofBlocks bs x.toNat ≠ none := by
  unfold intervalMap
  rw [Lemmas.Interval.newMap_mem _ (intervals_pos bs h), ofBlocks_ne_none_iff]
  unfold Interval.Mem
  constructor
  · rintro ⟨i, hi, h1, h2⟩
    obtain ⟨b, hb, rfl⟩ := List.mem_map.1 hi
    simp only at h1 h2
    refine ⟨by omega, b, hb, ?_⟩
    unfold Covers bend at *
    omega
  · rintro ⟨h0, b, hb, hc⟩
    refine ⟨((b.1 : Int), (bend b : Int)), List.mem_map.2 ⟨b, hb, rfl⟩, ?_⟩
    unfold Covers bend at *
    simp only
    omega

theorem blocks_spec (bs : List Block) (h : Inv bs) :
    Interval.Normal (blocks bs) ∧
    ∀ x : Int, Interval.Mem x (blocks bs) ↔ 0 ≤ x ∧ ofBlocks bs x.toNat ≠ none :=
  ⟨Lemmas.Interval.newMap_normal _ (intervals_pos bs h), mem_intervalMap bs h⟩

theorem missing_spec (bs : List Block) (h : Inv bs) (a w : Nat) (hw : 1 ≤ w) :
    Interval.Normal (missing bs a w) ∧
    ∀ x : Int, Interval.Mem x (missing bs a w) ↔
      (a : Int) ≤ x ∧ x < ((a + w : Nat) : Int) ∧ ofBlocks bs x.toNat = none := by
  have hq : ∀ i ∈ [((a : Int), ((a + w : Nat) : Int))], i.1 < i.2 := by
    intro i hi
    rw [List.mem_singleton] at hi
    subst hi
    simp only
    omega
  have hn1 := Lemmas.Interval.newMap_normal _ hq
  have hn2 : Interval.Normal (intervalMap bs) := Lemmas.Interval.newMap_normal _ (intervals_pos bs h)
  unfold missing
  refine ⟨Lemmas.Interval.complement_normal _ _ hn1 hn2, fun x => ?_⟩
  rw [Lemmas.Interval.complement_mem _ _ hn1 hn2, Lemmas.Interval.newMap_mem _ hq,
    mem_intervalMap bs h]
  unfold Interval.Mem
  constructor
  · rintro ⟨⟨i, hi, h1, h2⟩, hno⟩
    rw [List.mem_singleton] at hi
    subst hi
    simp only at h1 h2
    refine ⟨h1, h2, ?_⟩
    exact Classical.byContradiction fun hne => hno ⟨by omega, hne⟩
  · rintro ⟨h1, h2, h3⟩
    refine ⟨⟨_, List.mem_singleton.2 rfl, h1, h2⟩, fun hh => hh.2 h3⟩

end Mltwist.Lemmas.BytesMem
