import Mltwist.Lemmas.ComposeDeps
import Mltwist.Props.C26
/-
COMPOSITION, part 3: start-up (C26, `Model/Startup.lean`) over the REAL dependency model.

`Startup.runLoaded` composes C21 `parseRv64`, C15 `newBytes` and — for `deps.NewCode` — C08's
`BasicBlock.newCode` (`basicblock.Parse` + the empty-block panic of `newBlock`), not `Deps.newCode` (C07's model
of the same Go function, which additionally builds the block objects and runs the dependency finders).  Here:

* `newCode_agree`     on the parser's instructions of a tidy image, `Deps.newCode` fails exactly when
                      `BasicBlock.newCode` fails, with the same error, and never panics;
* `runLoadedReal`, `runReal`   start-up with `Deps.newCode` in place of `BasicBlock.newCode`;
* `runReal_eq`        … has the same outcome as C26's `run` on every view `debug/elf` can produce (`ViewOK`);
* `run_ui_inv`        what reaching the UI means: the file was loaded into tidy code/memory images, the code was
                      parsed, the dependency model was built (`Deps.newCode … = .ok c`) and the byte memory was
                      created.
-/
namespace Mltwist.Lemmas.Compose
open Mltwist Mltwist.Elf Mltwist.Parse Mltwist.Startup Mltwist.Lemmas.Deps

/-- `deps.NewCode` as modelled by C07 (`Deps.newCode`) and by C08 (`BasicBlock.newCode`) on well-formed input:
the same errors, success together, no panic -/
theorem newCode_agree {δ : Type} (entry : Nat) (is : List (Parse.Ins δ)) (hwf : Props.C07.WF (rawOf is)) :
    (∀ e, Deps.newCode entry (rawOf is) = .error e ↔ BasicBlock.newCode entry (codeInput is) = .error e) ∧
    ((∃ c, Deps.newCode entry (rawOf is) = .ok c) ↔ ∃ s, BasicBlock.newCode entry (codeInput is) = .ok s) ∧
    Deps.newCode entry (rawOf is) ≠ .error .panic := by
  have hnp := newCode_nopanic entry (rawOf is) hwf
  have hbb : BasicBlock.newCode entry (codeInput is) = BasicBlock.parse entry (toBB (rawOf is)) := by
    rw [Props.C08.newCode_eq, toBB_rawOf]
  have hun := newCode_unfold entry (rawOf is)
  rw [hbb]
  cases hp : BasicBlock.parse entry (toBB (rawOf is)) with
  | error e =>
    rw [hp] at hun
    simp only [Except.bind] at hun
    rw [hun]
    refine ⟨fun e' => ⟨fun h => (by cases h; rfl), fun h => (by cases h; rfl)⟩, ?_, ?_⟩
    · constructor
      · rintro ⟨c, hc⟩; cases hc
      · rintro ⟨s, hs⟩; cases hs
    · intro h
      cases h
      exact Props.C08.parse_never_panics entry _ hp
  | ok seqs =>
    rw [hp] at hun
    simp only [Except.bind] at hun
    cases hnb : Deps.newBlocks 0 (seqs.map fun s => s.filterMap (Deps.findRaw (rawIns (rawOf is)))) with
    | none =>
      rw [hnb] at hun
      exact absurd hun hnp
    | some bs =>
      rw [hnb] at hun
      rw [hun]
      refine ⟨fun e' => ⟨fun h => (by cases h), fun h => (by cases h)⟩, ⟨fun _ => ⟨_, rfl⟩, fun _ => ⟨_, rfl⟩⟩, ?_⟩
      intro h; cases h

/-- `run()` after the argument check and `parseElf`, over the real dependency model: `Startup.runLoaded` with
`Deps.newCode` (C07) in place of `BasicBlock.newCode` (C08) -/
def runLoadedReal (entry : Nat) (code mem : List Elf.Block) : Outcome :=
  match Opcode.newMatcher (Riscv.patsOf rv64Table) with
  | .error _ => .panic
  | .ok _ =>
    match parseRv64 code with
    | .error (.parse _ _) => .exit1 .parse
    | .error (.invalid _) => .exit1 .parse
    | .error _ => .panic
    | .ok is =>
      match Deps.newCode entry (rawOf is) with
      | .error .panic => .panic
      | .error _ => .exit1 .model
      | .ok _ => runIU mem

/-- `Startup.run` over the real dependency model -/
def runReal (lim : Nat) (nargs : Nat) (v : Option View) : Outcome :=
  if nargs + 1 ≠ 2 then .exit1 .args
  else match load lim v with
    | .error _ => .exit1 .elf
    | .ok l =>
      match l.code with
      | .error .panic => .panic
      | .error .alloc => .panic
      | .error _ => .exit1 .code
      | .ok code =>
        match l.mem with
        | .error .panic => .panic
        | .error .alloc => .panic
        | .error _ => .exit1 .memory
        | .ok mem => runLoadedReal l.entry code mem

theorem runLoadedReal_eq (entry : Nat) (code mem : List Elf.Block) (ht : Elf.Spec.Tidy code) :
    runLoadedReal entry code mem = runLoaded entry code mem := by
  unfold runLoadedReal runLoaded
  cases Opcode.newMatcher (Riscv.patsOf rv64Table) with
  | error _ => rfl
  | ok _ =>
    simp only
    cases hp : parseRv64 code with
    | error f => cases f <;> rfl
    | ok is =>
      simp only
      obtain ⟨h1, h2, h3⟩ := newCode_agree entry is (wf_of_parse ht hp).1
      cases hd : Deps.newCode entry (rawOf is) with
      | error e =>
        rw [(h1 e).1 hd]
        cases e <;> rfl
      | ok c =>
        obtain ⟨s, hs⟩ := h2.1 ⟨c, hd⟩
        rw [hs]

/-- C26 over the real dependency model: the same outcome as `Startup.run`, for every view `debug/elf` can produce -/
theorem runReal_eq (lim nargs : Nat) (v : Option View) (hv : ∀ w, v = some w → Elf.Spec.ViewOK w) :
    runReal lim nargs v = run lim nargs v := by
  unfold runReal run
  by_cases hn : nargs + 1 ≠ 2
  · rw [if_pos hn, if_pos hn]
  · rw [if_neg hn, if_neg hn]
    cases hl : load lim v with
    | error e => rfl
    | ok l =>
      simp only
      cases v with
      | none => simp [load] at hl
      | some w =>
        have hl' := Lemmas.Startup.load_some lim w l hl
        subst hl'
        simp only
        cases hc : machineCode w with
        | error e => cases e <;> rfl
        | ok code =>
          simp only
          have ht : Elf.Spec.Tidy code := (Props.C20.machineCode_ok w (hv w rfl) code hc).2.2.2.1
          cases hm : memory lim w with
          | error e => cases e <;> rfl
          | ok mem => exact runLoadedReal_eq _ code mem ht

/-- what reaching the UI means -/
structure Started (lim : Nat) (w : View) (code mem : List Elf.Block)
    (is : List (Parse.Ins (Riscv.Entry × Riscv.Ins))) (c : Deps.Code) (bs : List BytesMem.Block) : Prop where
  code_ok : machineCode w = .ok code
  mem_ok : memory lim w = .ok mem
  code_tidy : Elf.Spec.Tidy code
  mem_tidy : Elf.Spec.Tidy mem
  parsed : parseRv64 code = .ok is
  built : Deps.newCode w.entry (rawOf is) = .ok c
  bytes : BytesMem.newBytes mem = .ok bs

theorem runIU_ui_inv (mem : List Elf.Block) (h : runIU mem = .ui) : ∃ bs, BytesMem.newBytes mem = .ok bs := by
  unfold runIU at h
  cases hb : BytesMem.newBytes mem with
  | ok bs => exact ⟨bs, rfl⟩
  | error e =>
    rw [hb] at h
    cases e <;> cases h

theorem runLoaded_ui_inv (entry : Nat) (code mem : List Elf.Block) (ht : Elf.Spec.Tidy code)
    (h : runLoaded entry code mem = .ui) :
    ∃ is c bs, parseRv64 code = .ok is ∧ Deps.newCode entry (rawOf is) = .ok c ∧ BytesMem.newBytes mem = .ok bs := by
  rw [← runLoadedReal_eq entry code mem ht] at h
  unfold runLoadedReal at h
  cases hm : Opcode.newMatcher (Riscv.patsOf rv64Table) with
  | error e => rw [hm] at h; cases h
  | ok M =>
    rw [hm] at h
    simp only at h
    cases hp : parseRv64 code with
    | error f => rw [hp] at h; cases f <;> cases h
    | ok is =>
      rw [hp] at h
      simp only at h
      cases hd : Deps.newCode entry (rawOf is) with
      | error e => rw [hd] at h; cases e <;> cases h
      | ok c =>
        rw [hd] at h
        simp only at h
        obtain ⟨bs, hbs⟩ := runIU_ui_inv mem h
        exact ⟨is, c, bs, rfl, hd, hbs⟩

/-- C26 ⇒ the premises of everything that runs inside the UI: if start-up reaches the UI, then there was exactly
one argument, the file was opened, and code image, memory image, instructions, dependency model and byte memory
exist as the component models compute them -/
theorem run_ui_inv (lim nargs : Nat) (v : Option View) (hv : ∀ w, v = some w → Elf.Spec.ViewOK w)
    (h : run lim nargs v = .ui) :
    nargs = 1 ∧ ∃ w code mem is c bs, v = some w ∧ Started lim w code mem is c bs := by
  unfold run at h
  by_cases hn : nargs + 1 ≠ 2
  · rw [if_pos hn] at h; cases h
  · rw [if_neg hn] at h
    refine ⟨by omega, ?_⟩
    cases hl : load lim v with
    | error e => rw [hl] at h; cases h
    | ok l =>
      rw [hl] at h
      simp only at h
      cases v with
      | none => simp [load] at hl
      | some w =>
        have hl' := Lemmas.Startup.load_some lim w l hl
        subst hl'
        simp only at h
        cases hc : machineCode w with
        | error e => rw [hc] at h; cases e <;> cases h
        | ok code =>
          rw [hc] at h
          simp only at h
          have htc : Elf.Spec.Tidy code := (Props.C20.machineCode_ok w (hv w rfl) code hc).2.2.2.1
          cases hm : memory lim w with
          | error e => rw [hm] at h; cases e <;> cases h
          | ok mem =>
            rw [hm] at h
            simp only at h
            have htm : Elf.Spec.Tidy mem := (Props.C20.memory_ok lim w (hv w rfl) mem hm).2.2.2.1
            obtain ⟨is, c, bs, h1, h2, h3⟩ := runLoaded_ui_inv w.entry code mem htc h
            exact ⟨w, code, mem, is, c, bs, rfl, ⟨hc, hm, htc, htm, h1, h2, h3⟩⟩

/-- the entry point of a code that could be built is the address of an instruction, in particular a 64-bit value -/
theorem entry_lt {δ : Type} (entry : Nat) (is : List (Parse.Ins δ)) (hwf : Props.C07.WF (rawOf is)) (c : Deps.Code)
    (h : Deps.newCode entry (rawOf is) = .ok c) : entry < 2 ^ 64 := by
  obtain ⟨_, h2, _⟩ := newCode_agree entry is hwf
  obtain ⟨s, hs⟩ := h2.1 ⟨c, h⟩
  rw [Props.C08.newCode_eq, ← toBB_rawOf] at hs
  have hnf : ¬ BasicBlock.Spec.Fails entry (toBB (rawOf is)) := by
    intro hF
    obtain ⟨f, hf⟩ := (Props.C08.parse_fails_iff entry _ hwf).2 hF
    rw [hf] at hs; cases hs
  have he : entry ∈ BasicBlock.Spec.starts (toBB (rawOf is)) := by
    apply Classical.byContradiction
    intro hne
    exact hnf (Or.inl hne)
  obtain ⟨i, hi, rfl⟩ := List.mem_map.1 he
  have := hwf.1 i hi
  omega

end Mltwist.Lemmas.Compose
