import Mltwist.Lemmas.EmulatorScope
import Mltwist.Lemmas.RiscvDecode
/-
Emulator (C03), part 19: the reference machine on its own memory.  As long as the program has not modified
its code (`Intact`), the word the reference fetches at `pc` is the word the instruction of the code view at
`pc` was lifted from, the reference decoder names the same table entry (C02), and so the reference's own
fetch–decode–execute step is a step along the code (`RefSteps`).  With the refinement theorems this gives
the full statement of C03 over the model.
-/
namespace Mltwist.Lemmas.Emulator
open Mltwist Mltwist.State Mltwist.Overlay Mltwist.Emulator Mltwist.Riscv
open Mltwist.Spec.Rv Mltwist.Spec.Lift

/-! ### where the instructions of the code view come from -/

theorem liftIns_parse {addr : Nat} {bs : List UInt8} {ins : Emulator.Ins} (h : liftIns addr bs = some ins) :
    ∃ e, Riscv.parse (instructionSet 64 true true) addr bs = .ok e ⟨addr, wordOf bs⟩ ∧ 4 ≤ bs.length ∧
      LiftedFrom ins e (wordOf bs) ∧ ins.addr = addr := by
  obtain ⟨e, hl, ha⟩ := liftedFrom_of_liftIns h
  unfold liftIns at h
  cases hp : Riscv.parse (instructionSet 64 true true) addr bs with
  | short => rw [hp] at h; cases h
  | unknown => rw [hp] at h; cases h
  | ok e' i =>
    have hlen : 4 ≤ bs.length := by
      unfold Riscv.parse at hp
      by_cases hl4 : bs.length < 4
      · rw [if_pos hl4] at hp; cases hp
      · omega
    have hi : i = ⟨addr, wordOf bs⟩ := by
      unfold Riscv.parse at hp
      rw [if_neg (by omega)] at hp
      split at hp
      · cases hp
      · cases hp; rfl
    subst hi
    rw [hp] at h
    cases h
    -- the entry of `LiftedFrom` is the parsed one
    have hl' : LiftedFrom ⟨addr, 4, (e'.validEffects ⟨addr, wordOf bs⟩).map (Effect.apply constFold)⟩ e'
        (wordOf bs) := by
      unfold Riscv.parse at hp
      rw [if_neg (by omega)] at hp
      cases hf : (instructionSet 64 true true).find? (fun e => patMatches e.bytes e.mask bs) with
      | none => rw [hf] at hp; cases hp
      | some e2 =>
        rw [hf] at hp
        cases hp
        have hmem := List.mem_of_find?_eq_some hf
        have hpm := List.find?_some hf
        have hshape := (Lemmas.RiscvDecode.shapeB_iff _).1
          (Lemmas.RiscvDecode.rowFacts 64 (Or.inr rfl) true true).2.2.1 e' hmem
        have hmw : e'.matchesWord (wordOf bs) = true := by
          rw [← Lemmas.RiscvDecode.patMatches_iff_word e' bs hshape.1 hshape.2 hlen]
          exact hpm
        exact ⟨hmem, wordOf_lt bs, hmw, rfl, rfl⟩
    exact ⟨e', rfl, hlen, hl', rfl⟩

/-- an instruction of a lifted block (that does not wrap around the address space) sits at `addr + 4k` and is
the lifting of the bytes from offset `4k` -/
theorem liftBlock_mem : ∀ (fuel addr : Nat) (bs : List UInt8) (is : List Emulator.Ins),
    addr + bs.length ≤ 2 ^ 64 → liftBlock fuel addr bs = some is → ∀ ins ∈ is, ∃ k, 4 * k + 4 ≤ bs.length ∧
      liftIns (addr + 4 * k) (bs.drop (4 * k)) = some ins
  | 0, _, _, is, _, h, ins, hi => by
    simp only [liftBlock] at h
    cases h
    cases hi
  | fuel + 1, addr, bs, is, hb, h, ins, hi => by
    unfold liftBlock at h
    split at h
    · cases h; cases hi
    · cases hl : liftIns addr bs with
      | none => rw [hl] at h; cases h
      | some i0 =>
        rw [hl] at h
        simp only at h
        cases hr : liftBlock fuel ((addr + 4) % 2 ^ 64) (bs.drop 4) with
        | none => rw [hr] at h; cases h
        | some rest =>
          rw [hr] at h
          cases h
          obtain ⟨e, _, hlen, _, _⟩ := liftIns_parse hl
          rcases List.mem_cons.1 hi with rfl | hi'
          · exact ⟨0, by omega, by simpa using hl⟩
          · -- the rest of the block is not empty, so `addr + 4` does not wrap
            have hne : 4 < bs.length := by
              by_cases h4 : bs.length ≤ 4
              · exfalso
                have hnil : bs.drop 4 = [] := List.drop_eq_nil_of_le h4
                rw [hnil] at hr
                cases fuel with
                | zero => simp only [liftBlock] at hr; cases hr; cases hi'
                | succ f =>
                  unfold liftBlock at hr
                  simp only [List.isEmpty_nil, if_true] at hr
                  cases hr
                  cases hi'
              · omega
            have hmod : (addr + 4) % 2 ^ 64 = addr + 4 := Nat.mod_eq_of_lt (by omega)
            rw [hmod] at hr
            obtain ⟨k, hk1, hk2⟩ := liftBlock_mem fuel _ _ rest (by simp only [List.length_drop]; omega) hr ins hi'
            refine ⟨k + 1, ?_, ?_⟩
            · simp only [List.length_drop] at hk1; omega
            · rw [List.drop_drop] at hk2
              have h1 : addr + 4 + 4 * k = addr + 4 * (k + 1) := by omega
              have h2 : 4 + 4 * k = 4 * (k + 1) := by omega
              rw [h1, h2] at hk2
              exact hk2

/-- the blocks of the image do not wrap around the address space -/
def BlocksOK (blocks : List (Nat × List UInt8)) : Prop := ∀ b ∈ blocks, b.1 + b.2.length ≤ 2 ^ 64

theorem liftCode_mem : ∀ (blocks : List (Nat × List UInt8)) (code : CodeView), BlocksOK blocks →
    liftCode blocks = some code → ∀ ins ∈ code, ∃ b ∈ blocks, ∃ k, 4 * k + 4 ≤ b.2.length ∧
      liftIns (b.1 + 4 * k) (b.2.drop (4 * k)) = some ins
  | [], code, _, h, ins, hi => by
    simp only [liftCode] at h
    cases h
    cases hi
  | (b, bs) :: rest, code, hok, h, ins, hi => by
    unfold liftCode at h
    cases h1 : liftBlock (bs.length / 4 + 1) b bs with
    | none => rw [h1] at h; cases h
    | some is =>
      rw [h1] at h
      simp only at h
      cases h2 : liftCode rest with
      | none => rw [h2] at h; cases h
      | some js =>
        rw [h2] at h
        cases h
        rcases List.mem_append.1 hi with hx | hx
        · obtain ⟨k, g1, g2⟩ := liftBlock_mem _ b bs is (hok (b, bs) (List.mem_cons_self ..)) h1 ins hx
          exact ⟨(b, bs), List.mem_cons_self .., k, g1, g2⟩
        · obtain ⟨b', hb', k, g1, g2⟩ := liftCode_mem rest js (fun x hx' => hok x (List.mem_cons_of_mem _ hx')) h2 ins hx
          exact ⟨b', List.mem_cons_of_mem _ hb', k, g1, g2⟩

/-! ### the reference's fetch -/

theorem load_eq_leToNat (σ : St) : ∀ (l : List UInt8) (a : Nat),
    (∀ i, (h : i < l.length) → σ.mem (a + i) % 256 = (l[i]).toNat) → σ.load a l.length = leToNat l
  | [], _, _ => rfl
  | x :: xs, a, h => by
    have h0 := h 0 (by simp)
    simp only [List.length_cons, St.load, leToNat]
    rw [load_eq_leToNat σ xs (a + 1) (fun i hi => by
      have := h (i + 1) (by simp; omega)
      simpa [Nat.add_assoc, Nat.add_comm 1 i] using this)]
    simp only [Nat.add_zero, List.getElem_cons_zero] at h0
    rw [h0]

/-- the program has not modified the bytes of its code blocks -/
def Intact (blocks : List (Nat × List UInt8)) (σ : St) : Prop :=
  ∀ b ∈ blocks, ∀ i, (h : i < b.2.length) → σ.mem (b.1 + i) % 256 = (b.2[i]).toNat

/-- THE FETCH: with the code intact, at an instruction of the code view the reference fetches the word the
instruction was lifted from, and the reference decoder names the entry it was lifted by -/
theorem fetch_lifted {blocks : List (Nat × List UInt8)} {code : CodeView} (hok : BlocksOK blocks)
    (hc : liftCode blocks = some code) {σ : St} (hint : Intact blocks σ) {ins : Emulator.Ins}
    (hl : code.lookup σ.pc = some ins) :
    ∃ e, LiftedFrom ins e (σ.load σ.pc 4) ∧ decode 64 true true (σ.load σ.pc 4) = some e.name := by
  obtain ⟨b, hb, k, hk, hli⟩ := liftCode_mem blocks code hok hc ins (lookup_mem hl)
  obtain ⟨e, hparse, hlen, hlift, haddr⟩ := liftIns_parse hli
  have hpc : σ.pc = b.1 + 4 * k := by rw [← lookup_addr hl, haddr]
  -- the fetched word
  have hfetch : σ.load σ.pc 4 = wordOf (b.2.drop (4 * k)) := by
    unfold wordOf
    have hl4 : ((b.2.drop (4 * k)).take 4).length = 4 := by
      simp only [List.length_take, List.length_drop]; omega
    have key := load_eq_leToNat σ ((b.2.drop (4 * k)).take 4) (b.1 + 4 * k) (by
      intro i hi
      rw [hl4] at hi
      have := hint b hb (4 * k + i) (by omega)
      rw [Nat.add_assoc, this]
      simp [List.getElem_take, List.getElem_drop])
    rw [hl4] at key
    rw [hpc]
    exact key
  rw [hfetch]
  refine ⟨e, hlift, ?_⟩
  exact (Lemmas.RiscvDecode.parse_ok_iff 64 (Or.inr rfl) true true (b.1 + 4 * k) (b.2.drop (4 * k)) hlen e.name).1
    ⟨e, hlift.mem, rfl, hparse⟩

end Mltwist.Lemmas.Emulator
