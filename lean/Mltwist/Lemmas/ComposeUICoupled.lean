import Mltwist.Lemmas.ComposeUI
/-
COMPOSITION, part 10: COUPLING inside the console UI.  Throughout every session of the instantiated UI the mode
stack is `[disassembler]`, `[emulator, disassembler]` or `[memory view, emulator, disassembler]`, and

* the listing state of the disassembler mode SHOWS THE CURRENT REAL CODE (`st.code = listingOf info d`), so that the
  operations it calls are the real `code.Move` / `code.Index(b).Move` (`opsAt_moveIns`, `opsAt_moveBlock`) and — by
  C23's invariant, part of `UIInv` — its lines are the fresh rendering of the current real code;
* the emulator mode's own listing shows the current real code and its emulator RUNS ON the current real code
  (`e.emu.code = codeViewOf d`): the code cannot change while an emulator exists.
-/
namespace Mltwist.Lemmas.Compose
open Mltwist Mltwist.UI Mltwist.Lemmas.UI Mltwist.Lemmas.Deps Mltwist.Lemmas.Emulator
open Mltwist.Listing.Spec (Lawful WF ValidCmd)

def DisOK (info : Info) (d : Deps.Code) (nm : NamedMode ESt) : Prop :=
  ∃ st, nm.mode = .dis st ∧ st.code = listingOf info d

def EmuOK (info : Info) (d : Deps.Code) (nm : NamedMode ESt) : Prop :=
  ∃ e, nm.mode = .emu e ∧ e.view.code = listingOf info d ∧ e.emu.code = codeViewOf d

def MemModeOK (nm : NamedMode ESt) : Prop := ∃ m v, nm.mode = .mem m v

/-- the shape of the mode stack and its coupling with the real code `d` -/
inductive Shaped (info : Info) (d : Deps.Code) : List (NamedMode ESt) → Prop where
  | dis {nd : NamedMode ESt} : DisOK info d nd → Shaped info d [nd]
  | emu {ne nd : NamedMode ESt} : EmuOK info d ne → DisOK info d nd → Shaped info d [ne, nd]
  | mem {nm ne nd : NamedMode ESt} : MemModeOK nm → EmuOK info d ne → DisOK info d nd →
      Shaped info d [nm, ne, nd]

theorem uiNextDeps_eq (d : Deps.Code) (top : NamedMode ESt) (below : List (NamedMode ESt)) (line : Str)
    (rest : Input) (cmd : Command) (args : List ArgVal) (hp : parseCommand top.cmdMap line = .ok cmd args) :
    uiNextDeps d ⟨top :: below⟩ (line :: rest) = actDeps d top cmd.act args := by
  simp only [uiNextDeps, hp]

/-! ### small facts about the pieces of `processCommand` -/

theorem errMsgf_stack (ui : UI ESt) (inp : Input) :
    (∃ r, errMsgf ui inp = .ok ui r) ∨ (∃ r, errMsgf ui inp = .err ui r) := by
  cases inp with
  | nil => exact Or.inr ⟨[], rfl⟩
  | cons l r => exact Or.inl ⟨r, rfl⟩

/-- what is asked of the outcome of an action -/
def ActShaped (info : Info) (d d' : Deps.Code) (stack : List (NamedMode ESt)) : ActOut ESt → Prop
  | .ok ui1 _ => Shaped info d' ui1.stack
  | .err ui1 _ => Shaped info d' ui1.stack
  | .quit ui1 _ => ui1.stack = stack ∧ d' = d
  | .hang => True
  | .panic => True

theorem errMsgf_shaped (info : Info) (d : Deps.Code) (ui : UI ESt) (h : Shaped info d ui.stack) (inp : Input) :
    ActShaped info d d ui.stack (errMsgf ui inp) := by
  rcases errMsgf_stack ui inp with ⟨r, hr⟩ | ⟨r, hr⟩ <;> rw [hr] <;> exact h

theorem disAnswer_shaped (info : Info) (d d' : Deps.Code) (top : NamedMode ESt) (inp : Input)
    (s : Listing.Status) (st' : Listing.St) (hcode : st'.code = listingOf info d') :
    ActShaped info d d' [top] (disAnswer top [] inp (some (s, st'))) := by
  have hsh : Shaped info d' [{ top with mode := Mode.dis st' }] := Shaped.dis ⟨st', rfl, hcode⟩
  cases s with
  | ok => exact hsh
  | err e => exact hsh
  | noMatch =>
    show ActShaped info d d' [top] (errMsgf ⟨[{ top with mode := Mode.dis st' }]⟩ inp)
    rcases errMsgf_stack ⟨[{ top with mode := Mode.dis st' }]⟩ inp with ⟨r, hr⟩ | ⟨r, hr⟩ <;> rw [hr] <;> exact hsh

/-- a command of the disassembler mode, executed through the listing model with the operations at `d` -/
theorem dis_cmd_shaped (info : Info) {bs : List BytesMem.Block} (rx : Str → Option (String → Bool))
    {d : Deps.Code} (hd : CInv d) (top : NamedMode ESt) (st : Listing.St) (hinv : LInv st)
    (hcode : st.code = listingOf info d) (inp : Input) (cmd : Listing.Cmd)
    (hv : ValidCmd st.lines.lines.length cmd) :
    ActShaped info d (nextDeps d st cmd) [top]
      (disAnswer top [] inp (Listing.step (paramsAt info bs rx d).cops st cmd)) := by
  obtain ⟨s, st', h, _, _, htr⟩ := step_tracks info hd st hinv hcode cmd hv
  show ActShaped info d (nextDeps d st cmd) [top] (disAnswer top [] inp (Listing.step (opsAt info d) st cmd))
  rw [h]
  exact disAnswer_shaped info d _ top inp s st' htr

theorem refreshCursor_code (eops : EmuOps ESt) (view view' : Listing.St) (s : ESt)
    (h : refreshCursor eops view s = .ok view') : view'.code = view.code := by
  unfold refreshCursor at h
  repeat' split at h
  all_goals first
    | (cases h; exact setCursor_code _ _)
    | cases h

/-! ### the actions -/

theorem addMode_stack (ui : UI ESt) (name : Str) (m : Mode ESt) (ui' : UI ESt) (h : addMode ui name m = some ui') :
    ∃ cm, ui'.stack = ⟨name, m, cm⟩ :: ui.stack := by
  unfold addMode at h
  split at h
  · cases h
  · next cm _ => cases h; exact ⟨cm, rfl⟩

theorem newEmu_ok (info : Info) {bs : List BytesMem.Block} (rx : Str → Option (String → Bool)) (d : Deps.Code)
    (code : Listing.Code) (ip : Nat) (e : EmuMode ESt)
    (h : newEmu (paramsAt info bs rx d).eops code ip = .ok e) :
    e.view.code = code ∧ e.emu.code = codeViewOf d := by
  unfold newEmu at h
  simp only at h
  split at h
  · next view hv =>
    cases h
    exact ⟨refreshCursor_code _ _ _ _ hv, rfl⟩
  · cases h
  · cases h

theorem actEmulate_shaped (info : Info) {bs : List BytesMem.Block} (rx : Str → Option (String → Bool))
    (d : Deps.Code) (top : NamedMode ESt) (st : Listing.St) (hm : top.mode = .dis st)
    (hcode : st.code = listingOf info d) (inp : Input) :
    ActShaped info d d [top] (actEmulate (paramsAt info bs rx d) top [] st inp) := by
  have hsh : Shaped info d [top] := Shaped.dis ⟨st, hm, hcode⟩
  unfold actEmulate
  simp only
  cases h1 : st.lines.lines[st.cursor.value]? with
  | none => trivial
  | some line =>
    simp only
    cases h2 : st.lines.block st.code st.cursor.value with
    | none => trivial
    | some ob =>
      cases ob with
      | none => exact hsh
      | some block =>
        simp only
        cases h3 : line.instr with
        | none => exact hsh
        | some insIdx =>
          simp only
          cases h4 : block.ins[insIdx]? with
          | none => trivial
          | some ins =>
            simp only
            cases h5 : newEmu (paramsAt info bs rx d).eops st.code ins.addr with
            | panic => trivial
            | err => exact hsh
            | ok e =>
              simp only
              cases h6 : addMode ⟨[top]⟩ (b "emulate") (.emu e) with
              | none => exact hsh
              | some ui' =>
                obtain ⟨cm, hst⟩ := addMode_stack _ _ _ ui' h6
                obtain ⟨g1, g2⟩ := newEmu_ok info rx d _ _ e h5
                show Shaped info d ui'.stack
                rw [hst]
                exact Shaped.emu ⟨e, rfl, g1.trans hcode, g2⟩ ⟨st, hm, hcode⟩

theorem actStep_shaped (info : Info) {bs : List BytesMem.Block} (rx : Str → Option (String → Bool))
    (d : Deps.Code) (top nd : NamedMode ESt) (e : EmuMode ESt) (hg : EGood e.emu)
    (hv : e.view.code = listingOf info d) (hc : e.emu.code = codeViewOf d) (hnd : DisOK info d nd) (inp : Input) :
    ActShaped info d d [top, nd] (actStep (paramsAt info bs rx d) top [nd] e inp) := by
  have ht := runTree_safe (stepTree_safe' e.emu hg stepFuel []) inp
  unfold actStep
  rw [show (paramsAt info bs rx d).eops.step e.emu = stepTree e.emu stepFuel [] from rfl]
  cases hr : runTree (stepTree e.emu stepFuel []) inp with
  | panic => trivial
  | hang => trivial
  | fail s rest =>
    rw [hr] at ht
    exact Shaped.emu ⟨{ e with emu := s }, rfl, hv, ht.1.2.trans hc⟩ hnd
  | done s rest =>
    rw [hr] at ht
    simp only
    cases hrc : refreshCursor (paramsAt info bs rx d).eops e.view s with
    | panic => trivial
    | err => exact Shaped.emu ⟨{ e with emu := s }, rfl, hv, ht.1.2.trans hc⟩ hnd
    | ok view =>
      exact Shaped.emu ⟨⟨view, s⟩, rfl, (refreshCursor_code _ _ _ _ hrc).trans hv, ht.1.2.trans hc⟩ hnd

theorem actMemory_shaped (info : Info) {bs : List BytesMem.Block} (rx : Str → Option (String → Bool))
    (d : Deps.Code) (top nd : NamedMode ESt) (e : EmuMode ESt) (htop : EmuOK info d top) (hnd : DisOK info d nd)
    (key : Str) (inp : Input) :
    ActShaped info d d [top, nd] (actMemory (paramsAt info bs rx d) top [nd] e key inp) := by
  have hsh : Shaped info d [top, nd] := Shaped.emu htop hnd
  unfold actMemory
  simp only
  cases h1 : MemView.newMemoryView ((paramsAt info bs rx d).eops.mem e.emu key) with
  | none => trivial
  | some v =>
    simp only
    cases h2 : addMode ⟨[top, nd]⟩ (b "memview(" ++ key ++ b ")")
        (.mem ((paramsAt info bs rx d).eops.mem e.emu key) v) with
    | none => exact hsh
    | some ui' =>
      obtain ⟨cm, hst⟩ := addMode_stack _ _ _ ui' h2
      show Shaped info d ui'.stack
      rw [hst]
      exact Shaped.mem ⟨_, _, rfl⟩ htop hnd

theorem regStore_code (bs : List BytesMem.Block) (cv : Emulator.CodeView) (e : ESt) (k c : Str) :
    ((emuOps bs cv).regStore e k c).code = e.code := by
  show (match Overlay.assocGet (strOf k) e.st.regs with
    | some x => ({ e with st := { e.st with regs := e.st.regs.store (strOf k) (.const c) (x.width % 256) } } : ESt)
    | none => e).code = e.code
  split <;> rfl

theorem actRegmod_shaped (info : Info) {bs : List BytesMem.Block} (rx : Str → Option (String → Bool))
    (d : Deps.Code) (top nd : NamedMode ESt) (e : EmuMode ESt) (hm : top.mode = .emu e)
    (hv : e.view.code = listingOf info d) (hc : e.emu.code = codeViewOf d) (hnd : DisOK info d nd)
    (key : Str) (inp : Input) :
    ActShaped info d d [top, nd] (actRegmod (paramsAt info bs rx d) top [nd] e key inp) := by
  unfold actRegmod
  cases h1 : (paramsAt info bs rx d).eops.regWidth e.emu key with
  | none => exact Shaped.emu ⟨e, hm, hv, hc⟩ hnd
  | some w =>
    simp only
    cases h2 : readValueNoErr w inp with
    | hang => trivial
    | panic => trivial
    | value c rest =>
      exact Shaped.emu ⟨_, rfl, hv, (regStore_code bs (codeViewOf d) e.emu key c).trans hc⟩ hnd

theorem memAnswer_shaped (info : Info) (d : Deps.Code) (top ne nd : NamedMode ESt) (m : Option MemView.Mem)
    (hne : EmuOK info d ne) (hnd : DisOK info d nd) (hm : MemModeOK top) (inp : Input) (r : Option MemView.View) :
    ActShaped info d d [top, ne, nd] (memAnswer top [ne, nd] m inp r) := by
  cases r with
  | none => exact Shaped.mem hm hne hnd
  | some v' => exact Shaped.mem ⟨m, v', rfl⟩ hne hnd

theorem actDeps_ne (d : Deps.Code) (top : NamedMode ESt) (act : Act) (args : List ArgVal) (h : act ≠ .dMove) :
    actDeps d top act args = d := by
  unfold actDeps
  split
  · rw [if_neg h]
  · rfl

theorem actDeps_not_dis (d : Deps.Code) (top : NamedMode ESt) (act : Act) (args : List ArgVal)
    (h : ∀ st, top.mode ≠ .dis st) : actDeps d top act args = d := by
  unfold actDeps
  split
  · exact absurd ‹top.mode = Mode.dis _› (h _)
  · rfl

theorem validFind (rx : Str → Option (String → Bool)) (r : Str) (st : Listing.St) :
    ValidCmd st.lines.lines.length (.find ((rx r).map fun f => st.lines.lines.map fun l => f l.value)) := by
  cases rx r with
  | none => trivial
  | some f => simp [ValidCmd]

/-! ### every action keeps the shape and the coupling -/

set_option maxRecDepth 8000 in
theorem runAct_shaped_dis (info : Info) {bs : List BytesMem.Block} (rx : Str → Option (String → Bool))
    {d : Deps.Code} (hd : CInv d) (name : Str) (cm : CmdMap) (st : Listing.St) (hinv : LInv st)
    (hcode : st.code = listingOf info d) (act : Act) (args : List ArgVal) (inp : Input) :
    ActShaped info d (actDeps d ⟨name, .dis st, cm⟩ act args) [⟨name, .dis st, cm⟩]
      (runAct (paramsAt info bs rx d) ⟨name, .dis st, cm⟩ [] act args inp) := by
  have hsh : Shaped info d [(⟨name, .dis st, cm⟩ : NamedMode ESt)] := Shaped.dis ⟨st, rfl, hcode⟩
  have hcmd := fun (c : Listing.Cmd) (hv : ValidCmd st.lines.lines.length c) =>
    dis_cmd_shaped info (bs := bs) rx hd ⟨name, .dis st, cm⟩ st hinv hcode inp c hv
  have hnav : ∀ (c : Listing.Cmd) (r : Option (Listing.Status × Listing.St)),
      Listing.step (paramsAt info bs rx d).cops st c = r → ValidCmd st.lines.lines.length c →
      nextDeps d st c = d →
      ActShaped info d d [⟨name, .dis st, cm⟩] (disAnswer ⟨name, .dis st, cm⟩ [] inp r) := by
    intro c r hr hv hn
    have h := hcmd c hv
    rw [hn, hr] at h
    exact h
  cases act
  case dMove =>
    unfold runAct
    simp only
    split
    · next st' f t heq =>
      cases heq
      have e : actDeps d ⟨name, .dis st, cm⟩ .dMove [.num f, .num t] = nextDeps d st (.move f t) := by
        simp [actDeps]
      rw [e]
      exact hcmd (.move f t) trivial
    · trivial
  case quit => unfold runAct; exact ⟨rfl, actDeps_ne _ _ _ _ (by decide)⟩
  case help =>
    rw [actDeps_ne _ _ _ _ (by decide)]
    unfold runAct
    simp only
    split
    · exact errMsgf_shaped info d ⟨[⟨name, .dis st, cm⟩]⟩ hsh inp
    · trivial
  case dDown =>
    rw [actDeps_ne _ _ _ _ (by decide)]
    unfold runAct
    simp only
    split
    · next st' n heq =>
      cases heq
      generalize hr : Listing.step (paramsAt info bs rx d).cops st (Listing.Cmd.down n) = r
      exact hnav _ r hr trivial rfl
    · trivial
  case dUp =>
    rw [actDeps_ne _ _ _ _ (by decide)]
    unfold runAct
    simp only
    split
    · next st' n heq =>
      cases heq
      generalize hr : Listing.step (paramsAt info bs rx d).cops st (Listing.Cmd.up n) = r
      exact hnav _ r hr trivial rfl
    · trivial
  case dBounds =>
    rw [actDeps_ne _ _ _ _ (by decide)]
    unfold runAct
    simp only
    split
    · next st' n heq =>
      cases heq
      generalize hr : Listing.step (paramsAt info bs rx d).cops st (Listing.Cmd.bounds n) = r
      exact hnav _ r hr trivial rfl
    · trivial
  case dGoto =>
    rw [actDeps_ne _ _ _ _ (by decide)]
    unfold runAct
    simp only
    split
    · next st' n heq =>
      cases heq
      generalize hr : Listing.step (paramsAt info bs rx d).cops st (Listing.Cmd.goto n) = r
      exact hnav _ r hr trivial rfl
    · trivial
  case dEntry =>
    rw [actDeps_ne _ _ _ _ (by decide)]
    unfold runAct
    simp only
    generalize hr : Listing.step (paramsAt info bs rx d).cops st Listing.Cmd.entrypoint = r
    exact hnav _ r hr trivial rfl
  case dFind =>
    rw [actDeps_ne _ _ _ _ (by decide)]
    unfold runAct
    simp only
    split
    · next st' r heq =>
      cases heq
      generalize hr : Listing.step (paramsAt info bs rx d).cops st (Listing.Cmd.find _) = res
      exact hnav _ res hr (validFind rx r st) rfl
    · next st' r o heq =>
      cases heq
      generalize hr : Listing.step (paramsAt info bs rx d).cops st (Listing.Cmd.find _) = res
      exact hnav _ res hr (validFind rx _ st) rfl
    · trivial
  case dAllLines =>
    rw [actDeps_ne _ _ _ _ (by decide)]
    unfold runAct
    simp only
    exact errMsgf_shaped info d ⟨[⟨name, .dis st, cm⟩]⟩ hsh inp
  case dEmulate =>
    rw [actDeps_ne _ _ _ _ (by decide)]
    unfold runAct
    simp only
    exact actEmulate_shaped info rx d ⟨name, .dis st, cm⟩ st rfl hcode inp
  all_goals
    unfold runAct
    simp only
    trivial

set_option maxRecDepth 8000 in
theorem runAct_shaped_emu (info : Info) {bs : List BytesMem.Block} (rx : Str → Option (String → Bool))
    (d : Deps.Code) (name : Str) (cm : CmdMap) (e : EmuMode ESt) (nd : NamedMode ESt) (hg : EGood e.emu)
    (hv : e.view.code = listingOf info d) (hc : e.emu.code = codeViewOf d) (hnd : DisOK info d nd)
    (act : Act) (args : List ArgVal) (inp : Input) :
    ActShaped info d d [⟨name, .emu e, cm⟩, nd]
      (runAct (paramsAt info bs rx d) ⟨name, .emu e, cm⟩ [nd] act args inp) := by
  have htop : EmuOK info d (⟨name, .emu e, cm⟩ : NamedMode ESt) := ⟨e, rfl, hv, hc⟩
  have hsh : Shaped info d [(⟨name, .emu e, cm⟩ : NamedMode ESt), nd] := Shaped.emu htop hnd
  cases act
  case quit => unfold runAct; exact ⟨rfl, rfl⟩
  case help =>
    unfold runAct
    simp only
    split
    · exact errMsgf_shaped info d ⟨[⟨name, .emu e, cm⟩, nd]⟩ hsh inp
    · trivial
  case eStep =>
    unfold runAct
    simp only
    exact actStep_shaped info rx d ⟨name, .emu e, cm⟩ nd e hg hv hc hnd inp
  case eMemories =>
    unfold runAct
    simp only
    cases inp with
    | nil => exact hsh
    | cons l r => exact hsh
  case eMemory =>
    unfold runAct
    simp only
    split
    · next e' key heq => cases heq; exact actMemory_shaped info rx d ⟨name, .emu e, cm⟩ nd e htop hnd key inp
    · trivial
  case eRegmod =>
    unfold runAct
    simp only
    split
    · next e' key heq =>
      cases heq
      exact actRegmod_shaped info rx d ⟨name, .emu e, cm⟩ nd e rfl hv hc hnd key inp
    · trivial
  all_goals
    unfold runAct
    simp only
    trivial

set_option maxRecDepth 8000 in
theorem runAct_shaped_mem (info : Info) {bs : List BytesMem.Block} (rx : Str → Option (String → Bool))
    (d : Deps.Code) (name : Str) (cm : CmdMap) (m : Option MemView.Mem) (v : MemView.View)
    (ne nd : NamedMode ESt) (hne : EmuOK info d ne) (hnd : DisOK info d nd)
    (act : Act) (args : List ArgVal) (inp : Input) :
    ActShaped info d d [⟨name, .mem m v, cm⟩, ne, nd]
      (runAct (paramsAt info bs rx d) ⟨name, .mem m v, cm⟩ [ne, nd] act args inp) := by
  have htop : MemModeOK (⟨name, .mem m v, cm⟩ : NamedMode ESt) := ⟨m, v, rfl⟩
  have hsh : Shaped info d [(⟨name, .mem m v, cm⟩ : NamedMode ESt), ne, nd] := Shaped.mem htop hne hnd
  cases act
  case quit => unfold runAct; exact ⟨rfl, rfl⟩
  case help =>
    unfold runAct
    simp only
    split
    · exact errMsgf_shaped info d ⟨[⟨name, .mem m v, cm⟩, ne, nd]⟩ hsh inp
    · trivial
  case mDown =>
    unfold runAct
    simp only
    split
    · next m' v' n heq => cases heq; exact memAnswer_shaped info d _ ne nd m hne hnd htop inp _
    · trivial
  case mUp =>
    unfold runAct
    simp only
    split
    · next m' v' n heq => cases heq; exact memAnswer_shaped info d _ ne nd m hne hnd htop inp _
    · trivial
  case mGoto =>
    unfold runAct
    simp only
    split
    · next m' v' n heq => cases heq; exact memAnswer_shaped info d _ ne nd m hne hnd htop inp _
    · trivial
  case mAddress =>
    unfold runAct
    simp only
    split
    · next m' v' n heq => cases heq; exact memAnswer_shaped info d _ ne nd m hne hnd htop inp _
    · trivial
  all_goals
    unfold runAct
    simp only
    trivial

/-- EVERY ACTION keeps the shape of the mode stack and its coupling with the real code -/
theorem runAct_shaped (info : Info) {bs : List BytesMem.Block} (rx : Str → Option (String → Bool))
    {d : Deps.Code} (hd : CInv d) (top : NamedMode ESt) (below : List (NamedMode ESt))
    (hui : UIInv EGood ⟨top :: below⟩) (hs : Shaped info d (top :: below)) (act : Act) (args : List ArgVal)
    (inp : Input) :
    ActShaped info d (actDeps d top act args) (top :: below)
      (runAct (paramsAt info bs rx d) top below act args inp) := by
  have hmi := (uiinv_cons hui).1.2
  cases hs with
  | dis hdis =>
    obtain ⟨st, hm, hcode⟩ := hdis
    obtain ⟨name, mode, cm⟩ := top
    simp only at hm
    subst hm
    exact runAct_shaped_dis info rx hd name cm st hmi hcode act args inp
  | emu hemu hnd =>
    obtain ⟨e, hm, hv, hc⟩ := hemu
    obtain ⟨name, mode, cm⟩ := top
    simp only at hm
    subst hm
    rw [actDeps_not_dis _ _ _ _ (fun st h => by cases h)]
    exact runAct_shaped_emu info rx d name cm e _ hmi.2 hv hc hnd act args inp
  | mem hmem hne hnd =>
    obtain ⟨m, v, hm⟩ := hmem
    obtain ⟨name, mode, cm⟩ := top
    simp only at hm
    subst hm
    rw [actDeps_not_dis _ _ _ _ (fun st h => by cases h)]
    exact runAct_shaped_mem info rx d name cm m v _ _ hne hnd act args inp

/-! ### `processCommand` and whole sessions -/

theorem shaped_tail {info : Info} {d : Deps.Code} {top : NamedMode ESt} {below : List (NamedMode ESt)}
    (h : Shaped info d (top :: below)) (hne : below ≠ []) : Shaped info d below := by
  cases h with
  | dis _ => exact absurd rfl hne
  | emu _ hnd => exact Shaped.dis hnd
  | mem _ hne' hnd => exact Shaped.emu hne' hnd

theorem parse_empty (m : CmdMap) : parseCommand m [] = .err := by
  simp [parseCommand, parseCommandWith, UI.split, splitLoop, dropEmptyStrs]

theorem uiNextDeps_empty (d : Deps.Code) (ui : UI ESt) (rest : Input) : uiNextDeps d ui ([] :: rest) = d := by
  show (match ui.stack with
    | [] => d
    | top :: _ =>
      match parseCommand top.cmdMap [] with
      | .ok cmd args => actDeps d top cmd.act args
      | _ => d) = d
  split
  · rfl
  · rw [parse_empty]

/-- COUPLING IS AN INVARIANT of `processCommand` on the instantiated UI: shape and coupling hold again, with the
real code advanced by `uiNextDeps` -/
theorem uiStep_shaped (info : Info) {bs : List BytesMem.Block} (rx : Str → Option (String → Bool))
    {d : Deps.Code} (hd : CInv d) (ui : UI ESt) (hui : UIInv EGood ui) (hs : Shaped info d ui.stack) (inp : Input)
    (a : Answer) (ui' : UI ESt) (rest : Input)
    (h : uiStep (paramsAt info bs rx d) ui inp = .cont a ui' rest) :
    Shaped info (uiNextDeps d ui inp) ui'.stack := by
  unfold uiStep uiStepWith at h
  cases inp with
  | nil => cases h
  | cons line rest0 =>
    simp only at h
    split at h
    · -- the empty line
      next hl =>
      cases h
      have : line = [] := List.isEmpty_iff.mp hl
      subst this
      rw [uiNextDeps_empty]
      exact hs
    · cases hst : ui.stack with
      | nil => rw [hst] at h; cases h
      | cons top below =>
        rw [hst] at h hs
        simp only at h
        have hui' : UIInv EGood ⟨top :: below⟩ := by
          have : ui = ⟨top :: below⟩ := by cases ui; simp_all
          rw [← this]; exact hui
        cases hp : parseCommandWith false top.cmdMap line with
        | panic => rw [hp] at h; cases h
        | err =>
          rw [hp] at h
          simp only at h
          have e : uiNextDeps d ui (line :: rest0) = d := by
            unfold uiNextDeps
            rw [hst]
            have hp' : parseCommand top.cmdMap line = .err := hp
            simp only [hp']
          rw [e]
          cases rest0 with
          | nil => cases h
          | cons l r => simp only [ack] at h; cases h; rw [hst]; exact hs
        | ok cmd args =>
          rw [hp] at h
          simp only at h
          have hp' : parseCommand top.cmdMap line = .ok cmd args := hp
          have e : uiNextDeps d ui (line :: rest0) = actDeps d top cmd.act args := by
            unfold uiNextDeps
            rw [hst]
            simp only [hp']
          rw [e]
          have hact := runAct_shaped info (bs := bs) rx hd top below hui' hs cmd.act args rest0
          cases hr : runAct (paramsAt info bs rx d) top below cmd.act args rest0 with
          | panic => rw [hr] at h; cases h
          | hang => rw [hr] at h; cases h
          | ok ui1 rest1 =>
            rw [hr] at h hact
            cases h
            exact hact
          | err ui1 rest1 =>
            rw [hr] at h hact
            simp only at h
            cases rest1 with
            | nil => cases h
            | cons l r => simp only [ack] at h; cases h; exact hact
          | quit ui1 rest1 =>
            rw [hr] at h hact
            simp only at h
            obtain ⟨hstack, hdd⟩ := hact
            rw [hdd]
            unfold quitMode at h
            rw [hstack] at h
            simp only at h
            split at h
            · cases rest1 <;> cases h
            · next hne =>
              cases rest1 with
              | nil => cases h
              | cons l r =>
                cases h
                have hb : below ≠ [] := fun hb => hne (by rw [hb]; rfl)
                exact shaped_tail hs hb

theorem shaped_init (info : Info) (d0 : Deps.Code) (ui : UI ESt) (h : UI.init (listingOf info d0) = some ui) :
    Shaped info d0 ui.stack := by
  unfold UI.init at h
  obtain ⟨cm, hst⟩ := addMode_stack _ _ _ ui h
  rw [hst]
  exact Shaped.dis ⟨_, rfl, rfl⟩

/-- the states a session of the instantiated UI runs through -/
inductive RReach (info : Info) (bs : List BytesMem.Block) (rx : Str → Option (String → Bool)) (d0 : Deps.Code) :
    RUI → Prop where
  | init {ui : UI ESt} : UI.init (listingOf info d0) = some ui → RReach info bs rx d0 ⟨d0, ui⟩
  | step {r : RUI} {inp rest : Input} {a : Answer} {ui' : UI ESt} : RReach info bs rx d0 r →
      uiStep (paramsAt info bs rx r.deps) r.ui inp = .cont a ui' rest →
      RReach info bs rx d0 ⟨uiNextDeps r.deps r.ui inp, ui'⟩

/-- in every state of every session: C07's invariant on the real code, the invariant of the UI (C22), and the
coupling -/
theorem reach_inv (info : Info) {bs : List BytesMem.Block} (rx : Str → Option (String → Bool))
    {d0 : Deps.Code} (henv : EnvOK bs d0) (hd : CInv d0) (r : RUI) (h : RReach info bs rx d0 r) :
    SInv d0 r ∧ Shaped info r.deps r.ui.stack := by
  induction h with
  | init hi => exact ⟨sinv_init info d0 hd _ hi, shaped_init info d0 _ hi⟩
  | @step r inp rest a ui' _ hstep ih =>
    obtain ⟨hsi, hsh⟩ := ih
    exact ⟨(real_step_safe info rx henv r hsi inp).2 a ui' rest hstep,
      uiStep_shaped info rx hsi.deps r.ui hsi.ui hsh inp a ui' rest hstep⟩

end Mltwist.Lemmas.Compose
