import Std.Data.String.ToNat
import Mltwist.Model.RiscvTables
import Mltwist.Spec.RiscvLift
import Mltwist.Lemmas.Gadgets
/-
C01 library, part 1: facts that do not mention instruction words.

* §1 naming of IR registers (`xName`, `csrName`, `ipKey`, `memKey`; model names = spec names)
* §2 arithmetic bridges between the gadget specs (`Spec.ofInt`, `toInt`, `Spec.sub`, `Spec.sext`,
  `Spec.rsha`, …, all in BYTES `W`) and the reference (`wrap`, `sx`, `Rv.sext`, `sra`, … in BITS)
* §3 reference states: `get/set/setCsr/store`, `St.WF`
* §4 memory: `loadBytes` vs `St.load`, `storeMem` vs `storeBytes`
* §5 effects: `applyOpt`/`ipOpt` (one optional effect), `Rel` after a register / CSR / IP / memory
  write

See `/verif/incoming/c01/LIBRARY.md` for an overview of the whole library.
-/
namespace Mltwist.Lemmas.RiscvLift
open Mltwist Mltwist.Riscv Mltwist.Spec.Rv Mltwist.Spec.Lift
open Mltwist.Lemmas.EvalBasic

/-! ## §1 Naming -/

theorem xName_inj {n m : Nat} (h : xName n = xName m) : n = m := by
  unfold xName at h
  exact Nat.repr_inj.mp ((String.append_right_inj _).mp h)

theorem xName_ne_csrName (n m : Nat) : xName n ≠ csrName m := by
  intro h
  have := congrArg String.toList h
  simp [xName, csrName, String.toList_append] at this

theorem csrName_ne_xName (n m : Nat) : csrName n ≠ xName m := fun h => xName_ne_csrName m n h.symm

theorem xName_ne_ipKey (n : Nat) : xName n ≠ Spec.Lift.ipKey := by
  intro h
  have := congrArg String.toList h
  simp [xName, Spec.Lift.ipKey, String.toList_append] at this

theorem csrName_ne_ipKey (n : Nat) : csrName n ≠ Spec.Lift.ipKey := by
  intro h
  have := congrArg String.toList h
  simp [csrName, Spec.Lift.ipKey, String.toList_append] at this

/-- `csrName` is injective on 12-bit CSR numbers -/
theorem csrName_inj {n m : Nat} (hn : n < 4096) (hm : m < 4096) (h : csrName n = csrName m) :
    n = m := by
  unfold csrName at h
  have := Nat.repr_inj.mp ((String.append_right_inj _).mp h)
  split at this <;> split at this <;> omega

/-- model naming = spec naming (all three by `rfl`) -/
theorem regName_eq (n : Nat) : regName n = xName n := rfl
theorem memoryKey_eq : memoryKey = memKey := rfl
theorem ipKey_eq : Riscv.ipKey = Spec.Lift.ipKey := rfl

/-! ## §2 Arithmetic bridges

Conventions: the gadget side counts BYTES (`W`, `trunc W`, `Spec.ofInt W`, `toInt W`), the
reference counts BITS (`wrap n`, `sx n`).  All bridges are stated with `n = 8 * W`. -/

theorem pow_pos' (n : Nat) : 0 < 2 ^ n := Nat.two_pow_pos n

theorem trunc_eq_mod (W x : Nat) : trunc W x = x % 2 ^ (8 * W) := rfl

/-- `Spec.ofInt` (bytes) is `wrap` (bits) -/
theorem ofInt_eq_wrap (W : Nat) (i : Int) : Spec.ofInt W i = wrap (8 * W) i := rfl

theorem wrap_lt (n : Nat) (i : Int) : wrap n i < 2 ^ n := by
  have hM : (0 : Int) < ((2 ^ n : Nat) : Int) := Int.natCast_pos.mpr (pow_pos' n)
  have h1 := Int.emod_lt_of_pos i hM
  have h2 := Int.emod_nonneg i (Int.ne_of_gt hM)
  unfold wrap
  omega

/-- the defining property of `wrap` -/
theorem natCast_wrap (n : Nat) (i : Int) : ((wrap n i : Nat) : Int) = i % ((2 ^ n : Nat) : Int) := by
  unfold wrap
  exact Int.toNat_of_nonneg (Int.emod_nonneg _ (by have := pow_pos' n; omega))

theorem wrap_natCast (n x : Nat) : wrap n (x : Int) = x % 2 ^ n := by
  unfold wrap
  rw [← Int.natCast_emod, Int.toNat_natCast]

theorem wrap_of_lt {n x : Nat} (h : x < 2 ^ n) : wrap n (x : Int) = x := by
  rw [wrap_natCast, Nat.mod_eq_of_lt h]

theorem wrap_mod (n : Nat) (i : Int) : wrap n i % 2 ^ n = wrap n i := Nat.mod_eq_of_lt (wrap_lt n i)

/-- two `wrap`s agree iff the integers are congruent -/
theorem wrap_congr {n : Nat} {i j : Int} (h : i % ((2 ^ n : Nat) : Int) = j % ((2 ^ n : Nat) : Int)) :
    wrap n i = wrap n j := by
  unfold wrap; rw [h]

/-- to prove `x = wrap n i` for a natural `x < 2^n`, show the congruence over `Int` -/
theorem eq_wrap_of {n x : Nat} {i : Int} (hx : x < 2 ^ n)
    (h : (x : Int) % ((2 ^ n : Nat) : Int) = i % ((2 ^ n : Nat) : Int)) : x = wrap n i := by
  rw [← wrap_of_lt hx]; exact wrap_congr h

theorem wrap_emod (n : Nat) (i : Int) : wrap n (i % ((2 ^ n : Nat) : Int)) = wrap n i :=
  wrap_congr (Int.emod_emod_of_dvd _ (Int.dvd_refl _))

/-- narrowing: `wrap n i mod 2^m = wrap m i` for `m ≤ n` -/
theorem wrap_mod_of_le {m n : Nat} (h : m ≤ n) (i : Int) : wrap n i % 2 ^ m = wrap m i := by
  apply Int.natCast_inj.mp
  rw [Int.natCast_emod, natCast_wrap, natCast_wrap]
  exact Int.emod_emod_of_dvd _ (Int.natCast_dvd_natCast.mpr (Nat.pow_dvd_pow 2 h))

/-- `(a + wrap n i) mod 2^n = wrap n (a + i)` : the IR adds the wrapped immediate -/
theorem add_wrap_mod (n a : Nat) (i : Int) : (a + wrap n i) % 2 ^ n = wrap n ((a : Int) + i) := by
  apply Int.natCast_inj.mp
  rw [Int.natCast_emod, Int.natCast_add, natCast_wrap, natCast_wrap, Int.add_emod_emod]

theorem wrap_add_natCast_mod (n a b : Nat) : (a + b) % 2 ^ n = wrap n ((a : Int) + b) := by
  rw [← Int.natCast_add, wrap_natCast]

/-- `wrap n (a + wrap-ed immediate)` : the immediate may be reduced first -/
theorem wrap_add_wrap (n : Nat) (a i : Int) : wrap n (a + (wrap n i : Nat)) = wrap n (a + i) := by
  apply wrap_congr; rw [natCast_wrap, Int.add_emod_emod]

theorem M_eq_two_H' {n : Nat} (hn : 1 ≤ n) : 2 ^ n = 2 * 2 ^ (n - 1) := by
  have : n = (n - 1) + 1 := by omega
  conv => lhs; rw [this, Nat.pow_succ]
  omega

/-- `sx` on an in-range value -/
theorem sx_eq {n v : Nat} (hv : v < 2 ^ n) :
    sx n v = if v < 2 ^ (n - 1) then (v : Int) else (v : Int) - (2 ^ n : Nat) := by
  unfold sx
  rw [Nat.mod_eq_of_lt hv]

theorem sx_mod (n v : Nat) : sx n (v % 2 ^ n) = sx n v := by
  unfold sx; rw [Nat.mod_mod]

/-- the gadgets' signed reading (bytes) is the reference's (bits) -/
theorem toInt_eq_sx {W x : Nat} (hx : x < 2 ^ (8 * W)) : toInt W x = sx (8 * W) x := by
  rw [sx_eq hx]; rfl

theorem sx_lower {n : Nat} (hn : 1 ≤ n) (v : Nat) : -((2 ^ (n - 1) : Nat) : Int) ≤ sx n v := by
  have h2 := M_eq_two_H' hn
  have hv := Nat.mod_lt v (pow_pos' n)
  rw [← sx_mod, sx_eq hv]
  split <;> omega

theorem sx_upper {n : Nat} (hn : 1 ≤ n) (v : Nat) : sx n v < ((2 ^ (n - 1) : Nat) : Int) := by
  have h2 := M_eq_two_H' hn
  have hv := Nat.mod_lt v (pow_pos' n)
  rw [← sx_mod, sx_eq hv]
  split <;> omega

/-- `wrap` inverts `sx` -/
theorem wrap_sx {n : Nat} (v : Nat) : wrap n (sx n v) = v % 2 ^ n := by
  have hv := Nat.mod_lt v (pow_pos' n)
  symm
  apply eq_wrap_of hv
  unfold sx
  split
  · rfl
  · have : ((v % 2 ^ n : Nat) : Int) - ((2 ^ n : Nat) : Int)
        = ((v % 2 ^ n : Nat) : Int) + (-1) * ((2 ^ n : Nat) : Int) := by omega
    rw [this, Int.add_mul_emod_self_right]

/-- `sx` inverts `wrap` on the signed range -/
theorem sx_wrap {n : Nat} (hn : 1 ≤ n) {i : Int} (h0 : -((2 ^ (n - 1) : Nat) : Int) ≤ i)
    (h1 : i < ((2 ^ (n - 1) : Nat) : Int)) : sx n (wrap n i) = i := by
  have h2 := M_eq_two_H' hn
  have hM : (0 : Int) < ((2 ^ n : Nat) : Int) := Int.natCast_pos.mpr (pow_pos' n)
  rw [sx_eq (wrap_lt n i)]
  by_cases hi : 0 ≤ i
  · have : wrap n i = i.toNat := by
      unfold wrap; rw [Int.emod_eq_of_lt hi (by omega)]
    rw [this]; split <;> omega
  · have : wrap n i = (i + ((2 ^ n : Nat) : Int)).toNat := by
      unfold wrap
      rw [← Int.add_mul_emod_self_right i 1, Int.one_mul, Int.emod_eq_of_lt (by omega) (by omega)]
    rw [this]; split <;> omega

/-- signed comparison against a small immediate: `toInt W (wrap (8W) i) = i` -/
theorem toInt_wrap {W : Nat} (hW : 1 ≤ W) {i : Int} (h0 : -((2 ^ (8 * W - 1) : Nat) : Int) ≤ i)
    (h1 : i < ((2 ^ (8 * W - 1) : Nat) : Int)) : toInt W (wrap (8 * W) i) = i := by
  rw [toInt_eq_sx (wrap_lt _ _), sx_wrap (by omega) h0 h1]

/-- gadget subtraction is wrapped integer subtraction -/
theorem sub_eq_wrap (W x y : Nat) : Spec.sub W x y = wrap (8 * W) ((x : Int) - y) := rfl

/-- the bits of a value below position `b+1`, split at `b` -/
theorem mod_two_pow_succ (x b : Nat) :
    x % 2 ^ (b + 1) = x % 2 ^ b + 2 ^ b * (if x.testBit b then 1 else 0) := by
  rw [Nat.testBit_eq_decide_div_mod_eq, Nat.pow_succ, Nat.mod_mul]
  have : x / 2 ^ b % 2 < 2 := Nat.mod_lt _ (by decide)
  by_cases h : x / 2 ^ b % 2 = 1
  · simp [h]
  · have h0 : x / 2 ^ b % 2 = 0 := by omega
    simp [h0]

/-- gadget sign extension (bit index, bytes) is the reference's (bit count, bits) -/
theorem sext_bridge {W bit : Nat} (hbit : bit < 8 * W) (x : Nat) :
    Spec.sext W x bit = Spec.Rv.sext (8 * W) (bit + 1) x := by
  have hS : 2 ^ bit < 2 ^ (8 * W) := Nat.pow_lt_pow_right (by decide) hbit
  have hlo : x % 2 ^ bit < 2 ^ bit := Nat.mod_lt _ (pow_pos' bit)
  have hsplit := mod_two_pow_succ x bit
  have h2 : 2 ^ (bit + 1) = 2 * 2 ^ bit := by rw [Nat.pow_succ]; omega
  unfold Spec.sext Spec.Rv.sext Spec.M sx
  simp only [Nat.add_sub_cancel]
  cases hb : x.testBit bit
  · simp only [hb, Bool.false_eq_true, if_false, Nat.mul_zero, Nat.add_zero] at hsplit ⊢
    rw [hsplit, if_pos hlo, wrap_natCast, Nat.mod_eq_of_lt (a := x % 2 ^ bit) (by omega)]
  · simp only [hb, if_true, Nat.mul_one] at hsplit ⊢
    rw [hsplit, if_neg (by omega),
      Nat.mod_eq_of_lt (a := 2 ^ (8 * W) - 2 ^ bit + x % 2 ^ bit) (by omega)]
    apply eq_wrap_of (by omega)
    have : ((x % 2 ^ bit + 2 ^ bit : Nat) : Int) - ((2 ^ (bit + 1) : Nat) : Int)
        = ((2 ^ (8 * W) - 2 ^ bit + x % 2 ^ bit : Nat) : Int) + (-1) * ((2 ^ (8 * W) : Nat) : Int) := by
      omega
    rw [this, Int.add_mul_emod_self_right]

/-- `Rv.sext` only looks at the low `n` bits -/
theorem rvsext_mod (xlen n v : Nat) : Spec.Rv.sext xlen n (v % 2 ^ n) = Spec.Rv.sext xlen n v := by
  unfold Spec.Rv.sext; rw [sx_mod]

theorem rvsext_lt (xlen n v : Nat) : Spec.Rv.sext xlen n v < 2 ^ xlen := wrap_lt _ _

/-- sign extension to the same width is truncation -/
theorem rvsext_self (n v : Nat) : Spec.Rv.sext n n v = v % 2 ^ n := wrap_sx v

/-- gadget arithmetic shift (in-range shift amount) is the reference's -/
theorem rsha_bridge {W x sh : Nat} (hx : x < 2 ^ (8 * W)) (hsh : sh < 8 * W) :
    Spec.rsha W x sh = sra (8 * W) x sh := by
  unfold Spec.rsha sra
  simp only [trunc_of_lt hx]
  rw [if_neg (by omega), toInt_eq_sx hx]
  rfl

/-- clearing bit 0 (`jalr`): and with `-2` -/
theorem and_neg_two {n x : Nat} (hn : 1 ≤ n) (hx : x < 2 ^ n) : x &&& (2 ^ n - 2) = x / 2 * 2 := by
  apply Nat.eq_of_testBit_eq
  intro i
  have h1 : (1 : Nat) < 2 ^ n := Nat.one_lt_two_pow (by omega)
  have e : 2 ^ n - 2 = 2 ^ n - 1 - 1 := by omega
  have e2 : x / 2 * 2 = (x / 2) * 2 ^ 1 := by simp
  rw [Nat.testBit_and, e, testBit_cpl h1, e2, Nat.testBit_mul_two_pow, Nat.testBit_div_two]
  by_cases hi : i = 0
  · subst hi; simp
  · have h1i : 1 ≤ i := by omega
    have : i - 1 + 1 = i := by omega
    rw [this]
    have hone : Nat.testBit 1 i = false := by
      apply Nat.testBit_lt_two_pow
      exact Nat.lt_of_lt_of_le (by decide : 1 < 2 ^ 1) (Nat.pow_le_pow_right (by decide) h1i)
    by_cases hin : i < n
    · simp [hin, h1i, hone]
    · simp [hin, h1i, testBit_of_lt hx (Nat.le_of_not_lt hin)]

theorem wrap_neg_two {n : Nat} (hn : 1 ≤ n) : wrap n (-2) = 2 ^ n - 2 := by
  have h2 := M_eq_two_H' hn
  have hp := pow_pos' (n - 1)
  symm
  apply eq_wrap_of (by omega)
  have : ((2 ^ n - 2 : Nat) : Int) = -2 + 1 * ((2 ^ n : Nat) : Int) := by omega
  rw [this, Int.add_mul_emod_self_right]

/-! ## §3 Reference states -/

@[simp] theorem St.get_zero (s : St) : s.get 0 = 0 := rfl

theorem St.get_of_ne {s : St} {r : Nat} (h : r ≠ 0) : s.get r = s.x r := by
  simp [St.get, h]

@[simp] theorem St.set_zero (s : St) (v : Nat) : s.set 0 v = s := rfl

@[simp] theorem St.set_pc (s : St) (r v : Nat) : (s.set r v).pc = s.pc := by
  unfold St.set; split <;> rfl
@[simp] theorem St.set_csr (s : St) (r v : Nat) : (s.set r v).csr = s.csr := by
  unfold St.set; split <;> rfl
@[simp] theorem St.set_mem (s : St) (r v : Nat) : (s.set r v).mem = s.mem := by
  unfold St.set; split <;> rfl
theorem St.set_x (s : St) (r v k : Nat) :
    (s.set r v).x k = if r ≠ 0 ∧ k = r then v else s.x k := by
  unfold St.set
  by_cases hr : r = 0
  · simp [hr]
  · by_cases hk : k = r <;> simp [hr, hk]

@[simp] theorem St.setCsr_pc (s : St) (n v : Nat) : (s.setCsr n v).pc = s.pc := rfl
@[simp] theorem St.setCsr_x (s : St) (n v : Nat) : (s.setCsr n v).x = s.x := rfl
@[simp] theorem St.setCsr_mem (s : St) (n v : Nat) : (s.setCsr n v).mem = s.mem := rfl
@[simp] theorem St.store_pc (s : St) (a v n : Nat) : (s.store a v n).pc = s.pc := rfl
@[simp] theorem St.store_x (s : St) (a v n : Nat) : (s.store a v n).x = s.x := rfl
@[simp] theorem St.store_csr (s : St) (a v n : Nat) : (s.store a v n).csr = s.csr := rfl

/-- writing a register and writing a CSR commute (the reference does CSR first, the lifter rd first) -/
theorem St.set_setCsr (s : St) (r v n c : Nat) : (s.set r v).setCsr n c = (s.setCsr n c).set r v := by
  unfold St.set St.setCsr; split <;> rfl

/-- writing a register and storing to memory commute (AMOs) -/
theorem St.set_store (s : St) (r v a b n : Nat) : (s.set r v).store a b n = (s.store a b n).set r v := by
  unfold St.set St.store; split <;> simp

theorem _root_.Mltwist.Spec.Lift.St.WF.get_lt {xlen : Nat} {s : St} (h : St.WF xlen s) (r : Nat) : s.get r < 2 ^ xlen := by
  unfold St.get; split
  · exact pow_pos' _
  · exact h.x r

theorem _root_.Mltwist.Spec.Lift.St.WF.set {xlen : Nat} {s : St} (h : St.WF xlen s) (r : Nat) {v : Nat} (hv : v < 2 ^ xlen) :
    St.WF xlen (s.set r v) := by
  refine ⟨fun k => ?_, by simpa using h.csr, by simpa using h.pc⟩
  rw [St.set_x]; split
  · exact hv
  · exact h.x k

theorem _root_.Mltwist.Spec.Lift.St.WF.setCsr {xlen : Nat} {s : St} (h : St.WF xlen s) (n : Nat) {v : Nat} (hv : v < 2 ^ xlen) :
    St.WF xlen (s.setCsr n v) := by
  refine ⟨h.x, fun k => ?_, h.pc⟩
  show (if k = n then v else s.csr k) < _
  split
  · exact hv
  · exact h.csr k

theorem _root_.Mltwist.Spec.Lift.St.WF.store {xlen : Nat} {s : St} (h : St.WF xlen s) (a v n : Nat) :
    St.WF xlen (s.store a v n) := ⟨h.x, h.csr, h.pc⟩

theorem _root_.Mltwist.Spec.Lift.St.WF.withPc {xlen : Nat} {s : St} (h : St.WF xlen s) {p : Nat} (hp : p < 2 ^ xlen) :
    St.WF xlen { s with pc := p } := ⟨h.x, h.csr, hp⟩

/-- `Rel` does not look at the program counter -/
theorem _root_.Mltwist.Spec.Lift.Rel.withPc {ρ : Env} {s : St} (h : Rel ρ s) (p : Nat) : Rel ρ { s with pc := p } :=
  ⟨h.x, h.csr, h.mem⟩

/-! ## §4 Memory -/

theorem load_lt (s : St) (a n : Nat) : s.load a n < 2 ^ (8 * n) := by
  induction n generalizing a with
  | zero => simp [St.load]
  | succ n ih =>
    have : 2 ^ (8 * (n + 1)) = 256 * 2 ^ (8 * n) := by
      rw [Nat.mul_add, Nat.pow_add]; simp [Nat.mul_comm]
    have h1 := ih (a + 1)
    have h2 : s.mem a % 256 < 256 := Nat.mod_lt _ (by decide)
    simp only [St.load, this]
    omega

/-- the IR's byte-wise load (addresses mod 2^64) is the reference's load when the range does not
wrap around 2^64 -/
theorem loadBytes_eq_load {ρ : Env} {s : St} (h : Rel ρ s) (a n : Nat) (hn : a + n ≤ 2 ^ 64) :
    loadBytes (ρ.mem memKey) a n = s.load a n := by
  induction n generalizing a with
  | zero => rfl
  | succ n ih =>
    have ha : a < 2 ^ 64 := by omega
    simp only [loadBytes, St.load, Nat.mod_eq_of_lt ha, h.mem a ha, ih (a + 1) (by omega)]

/-- the IR's byte-wise store agrees with the reference's store (no wrap around 2^64); only the low
`n` bytes of the stored value matter -/
theorem storeMem_storeBytes {m1 m2 : Nat → Nat} (hm : ∀ a, a < 2 ^ 64 → m1 a % 256 = m2 a % 256)
    (A n : Nat) (hn : A + n ≤ 2 ^ 64) (v1 v2 : Nat) (hv : v1 % 2 ^ (8 * n) = v2 % 2 ^ (8 * n)) :
    ∀ a, a < 2 ^ 64 → storeMem m1 A v1 n a % 256 = Spec.Rv.storeBytes m2 A v2 n a % 256 := by
  induction n generalizing m1 m2 A v1 v2 with
  | zero => exact hm
  | succ n ih =>
    have hA : A < 2 ^ 64 := by omega
    have e : 2 ^ (8 * (n + 1)) = 256 * 2 ^ (8 * n) := by
      rw [Nat.mul_add, Nat.pow_add]; simp [Nat.mul_comm]
    rw [e] at hv
    have hb : v1 % 256 = v2 % 256 := by
      have := congrArg (· % 256) hv
      simpa [Nat.mod_mul_right_mod] using this
    have hd : v1 / 256 % 2 ^ (8 * n) = v2 / 256 % 2 ^ (8 * n) := by
      have := congrArg (· / 256) hv
      simpa [Nat.mod_mul_right_div_self] using this
    simp only [storeMem, Spec.Rv.storeBytes, Nat.mod_eq_of_lt hA]
    apply ih _ (A + 1) (by omega) _ _ hd
    intro a ha
    by_cases hk : a = A
    · simp [hk, hb]
    · simp [hk, hm a ha]

/-! ## §5 Effects -/

/-- apply one optional effect (`none` = the dropped write to `x0`) -/
def applyOpt (pre cur : Env) : Option Effect → Env
  | none => cur
  | some ef => applyEffect pre cur ef

/-- the effect of one optional effect on the next instruction pointer -/
def ipOpt (pre : Env) (ip : Nat) : Option Effect → Nat
  | some (.regStore v k w) => if k = Spec.Lift.ipKey then trunc w (v.eval pre) else ip
  | _ => ip

theorem foldl_filterMap_id {α β : Type} (f : β → α → β) (g : β → Option α → β)
    (hn : ∀ b, g b none = b) (hs : ∀ b a, g b (some a) = f b a) (l : List (Option α)) (b : β) :
    (l.filterMap id).foldl f b = l.foldl g b := by
  induction l generalizing b with
  | nil => rfl
  | cons x l ih =>
    cases x with
    | none => simp [hn, ih]
    | some a => simp [hs, ih]

/-- `applyEffects` over the valid effects = fold of `applyOpt` over the raw list -/
theorem applyEffects_filterMap (ρ : Env) (l : List (Option Effect)) :
    Env.applyEffects ρ (l.filterMap id) = l.foldl (applyOpt ρ) ρ :=
  foldl_filterMap_id (applyEffect ρ) (applyOpt ρ) (fun _ => rfl) (fun _ _ => rfl) l ρ

/-- `nextIp` over the valid effects = fold of `ipOpt` over the raw list -/
theorem nextIp_filterMap (ρ : Env) (l : List (Option Effect)) (fall : Nat) :
    nextIp ρ (l.filterMap id) fall = l.foldl (ipOpt ρ) fall := by
  unfold nextIp
  apply foldl_filterMap_id
  · intro b; rfl
  · intro b a; cases a <;> rfl

@[simp] theorem ipOpt_none (pre : Env) (ip : Nat) : ipOpt pre ip none = ip := rfl
@[simp] theorem ipOpt_memStore (pre : Env) (ip : Nat) (v a : Expr) (n : Nat) :
    ipOpt pre ip (some (Riscv.memStore v a n)) = ip := rfl
@[simp] theorem ipOpt_ip (pre : Env) (ip : Nat) (v : Expr) (W : Nat) :
    ipOpt pre ip (some (.regStore v Riscv.ipKey W)) = trunc W (v.eval pre) := by
  simp [ipOpt, ipKey_eq]
/-- a write to `rd` is not a jump -/
@[simp] theorem ipOpt_regStore (pre : Env) (ip : Nat) (v : Expr) (i : Ins) (W : Nat) :
    ipOpt pre ip (Riscv.regStore v i W) = ip := by
  by_cases h : regNum .rd i.value = 0
  · simp [Riscv.regStore, h]
  · simp [Riscv.regStore, h, ipOpt, regName_eq, xName_ne_ipKey]
/-- a CSR write is not a jump -/
@[simp] theorem ipOpt_csr (pre : Env) (ip : Nat) (v : Expr) (n W : Nat) :
    ipOpt pre ip (some (.regStore v (csrName n) W)) = ip := by
  simp [ipOpt, csrName_ne_ipKey]

@[simp] theorem applyOpt_none (pre cur : Env) : applyOpt pre cur none = cur := rfl

/-- `Rel` after a register write `x[n] := v` (`1 ≤ n < 32`); the value is evaluated in `pre` -/
theorem _root_.Mltwist.Spec.Lift.Rel.regWrite {pre cur : Env} {t : St} (h : Rel cur t) {n : Nat} (h1 : 1 ≤ n) (h32 : n < 32)
    (e : Expr) (W : Nat) :
    Rel (applyEffect pre cur (.regStore e (xName n) W)) (t.set n (trunc W (e.eval pre))) := by
  refine ⟨fun k hk1 hk32 => ?_, fun k hk => ?_, fun a ha => ?_⟩
  · simp only [applyEffect, St.set_x]
    by_cases hkn : k = n
    · subst hkn; simp; omega
    · have : xName k ≠ xName n := fun hh => hkn (xName_inj hh)
      simp [this, hkn, h.x k hk1 hk32]
  · simp only [applyEffect, St.set_csr, csrName_ne_xName, if_false]
    exact h.csr k hk
  · simp only [applyEffect, St.set_mem]
    exact h.mem a ha

/-- `Rel` after the model's `regStore e i W` (write to `rd`, dropped for `x0`) -/
theorem _root_.Mltwist.Spec.Lift.Rel.regStore {pre cur : Env} {t : St} (h : Rel cur t) (e : Expr) (a w W : Nat) {v : Nat}
    (hv : trunc W (e.eval pre) = v) :
    Rel (applyOpt pre cur (Riscv.regStore e ⟨a, w⟩ W)) (t.set (rd w) v) := by
  subst hv
  unfold Riscv.regStore
  have hrd : regNum .rd w = rd w := rfl
  simp only [hrd]
  split
  · next h0 => rw [h0]; exact h
  · next h0 =>
    have h32 : rd w < 32 := Nat.mod_lt _ (by decide)
    exact h.regWrite (by omega) h32 e W

/-- `Rel` is untouched by a write to the instruction pointer -/
theorem _root_.Mltwist.Spec.Lift.Rel.ipWrite {pre cur : Env} {t : St} (h : Rel cur t) (e : Expr) (W : Nat) :
    Rel (applyOpt pre cur (some (.regStore e Riscv.ipKey W))) t := by
  refine ⟨fun k hk1 hk32 => ?_, fun k hk => ?_, fun a ha => h.mem a ha⟩
  · simp only [applyOpt, applyEffect, ipKey_eq, xName_ne_ipKey, if_false]
    exact h.x k hk1 hk32
  · simp only [applyOpt, applyEffect, ipKey_eq, csrName_ne_ipKey, if_false]
    exact h.csr k hk

/-- `Rel` after a CSR write -/
theorem _root_.Mltwist.Spec.Lift.Rel.csrWrite {pre cur : Env} {t : St} (h : Rel cur t) {n : Nat} (hn : n < 4096)
    (e : Expr) (W : Nat) {v : Nat} (hv : trunc W (e.eval pre) = v) :
    Rel (applyOpt pre cur (some (.regStore e (csrName n) W))) (t.setCsr n v) := by
  subst hv
  refine ⟨fun k hk1 hk32 => ?_, fun k hk => ?_, fun a ha => h.mem a ha⟩
  · simp only [applyOpt, applyEffect, xName_ne_csrName, if_false]
    exact h.x k hk1 hk32
  · simp only [applyOpt, applyEffect, St.setCsr]
    by_cases hkn : k = n
    · subst hkn; simp
    · have : csrName k ≠ csrName n := fun hh => hkn (csrName_inj hk hn hh)
      simp [this, hkn, h.csr k hk]

/-- `Rel` after a memory store of `n` bytes at an address `A` with `A + n ≤ 2^64`: the IR stores
the low `n` bytes of the value, the reference the low `n` bytes of `b` -/
theorem _root_.Mltwist.Spec.Lift.Rel.memStore {pre cur : Env} {t : St} (h : Rel cur t) (v addr : Expr) (n : Nat) {A b : Nat}
    (hA : addr.eval pre = A) (hlt : A < 2 ^ 64) (hn : A + n ≤ 2 ^ 64)
    (hv : trunc n (v.eval pre) = b % 2 ^ (8 * n)) :
    Rel (applyOpt pre cur (some (Riscv.memStore v addr n))) (t.store A b n) := by
  subst hA
  refine ⟨h.x, h.csr, fun a ha => ?_⟩
  simp only [applyOpt, Riscv.memStore, applyEffect, memoryKey_eq, if_true, St.store,
    Nat.mod_eq_of_lt hlt]
  exact storeMem_storeBytes h.mem _ n hn _ _ (by rw [← trunc_eq_mod, trunc_trunc, hv]) a ha

end Mltwist.Lemmas.RiscvLift
