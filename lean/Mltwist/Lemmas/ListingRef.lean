import Mltwist.Lemmas.ListingBasic
/-
The reference code operations `refOps` (transcription of `internal/deps/moves.go`) satisfy the
assumptions `Spec.Lawful` of C23/C31: the assumptions are satisfiable, and the instance the model driver
compares with the implementation is one of the instances the theorems speak about.
-/
namespace Mltwist.Lemmas.Listing
open Mltwist.Listing Mltwist.Listing.Spec

theorem moveList_perm {α} (l : List α) (s d : Nat) : (moveList l s d).Perm l := by
  unfold moveList
  cases h : l[s]? with
  | none => exact List.Perm.refl _
  | some x =>
    simp only
    have h1 : (List.take d (l.eraseIdx s) ++ x :: List.drop d (l.eraseIdx s)).Perm (x :: l.eraseIdx s) := by
      refine List.perm_middle.trans (List.Perm.cons x ?_)
      rw [List.take_append_drop]
    refine h1.trans ?_
    rw [List.eraseIdx_eq_take_drop_succ]
    conv => rhs; rw [split_at h]
    exact List.perm_middle.symm

theorem moveList_length {α} (l : List α) (s d : Nat) : (moveList l s d).length = l.length :=
  (moveList_perm l s d).length_eq

/-! ### instructions -/

theorem relayIns_length (pos lo hi a : Nat) (l : List Ins) : (relayIns pos lo hi a l).length = l.length := by
  induction l generalizing pos a with
  | nil => rfl
  | cons i is ih => simp only [relayIns]; split <;> simp [ih]

theorem relayIns_content (pos lo hi a : Nat) (l : List Ins) :
    (relayIns pos lo hi a l).map content = l.map content := by
  induction l generalizing pos a with
  | nil => rfl
  | cons i is ih => simp only [relayIns]; split <;> simp [ih, content]

theorem relayIns_idx (pos lo hi a : Nat) (l : List Ins) (j : Nat) (x : Ins)
    (h : (relayIns pos lo hi a l)[j]? = some x) : x.idx = pos + j := by
  induction l generalizing pos a j with
  | nil => simp [relayIns] at h
  | cons i is ih =>
    simp only [relayIns] at h
    split at h <;>
    · cases j with
      | zero => simp at h; subst h; rfl
      | succ j =>
        simp only [List.getElem?_cons_succ] at h
        have := ih _ _ _ h
        omega

theorem relayIns_bounds (pos lo hi a : Nat) (l : List Ins) (x : Ins) (h : x ∈ relayIns pos lo hi a l) :
    ∃ y ∈ l, x.lower = y.lower ∧ x.upper = y.upper := by
  induction l generalizing pos a with
  | nil => simp [relayIns] at h
  | cons i is ih =>
    simp only [relayIns] at h
    split at h <;>
    · rcases List.mem_cons.mp h with rfl | h
      · exact ⟨i, by simp, rfl, rfl⟩
      · obtain ⟨y, hy, hb⟩ := ih _ _ h
        exact ⟨y, by simp [hy], hb⟩

theorem refMoveInsBlock_spec (b b' : Block) (s d : Nat) (h : refMoveInsBlock b s d = some b') :
    b'.idx = b.idx ∧ sameBlock b b' ∧ b'.ins.length = b.ins.length ∧
      (∀ (j : Nat) (x : Ins), b'.ins[j]? = some x → x.idx = j) ∧
      (∀ x ∈ b'.ins, ∃ y ∈ b.ins, x.lower = y.lower ∧ x.upper = y.upper) := by
  unfold refMoveInsBlock at h
  split at h
  · split at h
    · cases h
    · split at h
      · cases h
      · cases h
        refine ⟨rfl, ⟨rfl, rfl, ?_⟩, ?_, ?_, ?_⟩
        · simp only [relayIns_content]
          exact (moveList_perm b.ins s d).map content
        · simp [relayIns_length, moveList_length]
        · intro j x hx
          simpa using relayIns_idx _ _ _ _ _ j x hx
        · intro x hx
          obtain ⟨y, hy, hb⟩ := relayIns_bounds _ _ _ _ _ x hx
          exact ⟨y, (moveList_perm b.ins s d).mem_iff.mp hy, hb⟩
  · cases h

theorem refMoveIns_spec (c c' : Code) (k s d : Nat) (h : refMoveIns c k s d = some c') :
    ∃ b b', c.blocks[k]? = some b ∧ refMoveInsBlock b s d = some b' ∧ c' = { c with blocks := c.blocks.set k b' } := by
  unfold refMoveIns at h
  split at h
  · cases h
  · next b hb =>
    split at h
    · cases h
    · next b' hb' => cases h; exact ⟨b, b', hb, hb', rfl⟩

/-! ### blocks -/

theorem renumber_getElem? (bs : List Block) (i : Nat) (b : Block) (h : (renumberBlocks bs)[i]? = some b) :
    b.idx = i ∧ ∃ b0, bs[i]? = some b0 ∧ b.begin = b0.begin ∧ b.stop = b0.stop ∧ b.ins = b0.ins := by
  simp only [renumberBlocks, List.getElem?_mapIdx] at h
  cases hb : bs[i]? with
  | none => simp [hb] at h
  | some b0 =>
    simp only [hb, Option.map_some, Option.some.injEq] at h
    subst h
    exact ⟨rfl, b0, rfl, rfl, rfl, rfl⟩

theorem renumber_map (bs : List Block) :
    (renumberBlocks bs).map (fun b => (b.begin, b.stop, b.ins)) = bs.map (fun b => (b.begin, b.stop, b.ins)) := by
  apply List.ext_getElem?
  intro i
  simp only [renumberBlocks, List.getElem?_map, List.getElem?_mapIdx]
  cases bs[i]? <;> rfl

theorem refOps_lawful : Lawful refOps where
  moveIns_wf := by
    intro c k s d c' hwf h
    obtain ⟨b, b', hb, hb', rfl⟩ := refMoveIns_spec c c' k s d h
    obtain ⟨hidx, _, hlen, hins, hbd⟩ := refMoveInsBlock_spec b b' s d hb'
    have hk := getElem?_lt hb
    refine ⟨?_, ?_, ?_⟩
    · intro i x hx
      simp only [List.getElem?_set] at hx
      split at hx
      · next e =>
        subst e
        simp only [Option.some.injEq] at hx
        subst hx
        rw [hidx]; exact hwf.blockIdx _ b hb
      · exact hwf.blockIdx i x hx
    · intro x hx i y hy
      rcases List.mem_or_eq_of_mem_set hx with hx | rfl
      · exact hwf.insIdx x hx i y hy
      · exact hins i y hy
    · intro x hx y hy
      rcases List.mem_or_eq_of_mem_set hx with hx | rfl
      · exact hwf.bounds x hx y hy
      · obtain ⟨z, hz, e1, e2⟩ := hbd y hy
        have := hwf.bounds b (List.mem_of_getElem? hb) z hz
        rw [e1, e2, hlen]; exact this
  moveIns_entry := by
    intro c k s d c' h
    obtain ⟨b, b', _, _, rfl⟩ := refMoveIns_spec c c' k s d h
    rfl
  moveIns_length := by
    intro c k s d c' h
    obtain ⟨b, b', _, _, rfl⟩ := refMoveIns_spec c c' k s d h
    simp
  moveIns_other := by
    intro c k s d c' h j hj
    obtain ⟨b, b', _, _, rfl⟩ := refMoveIns_spec c c' k s d h
    simp [Ne.symm hj]
  moveIns_block := by
    intro c k s d c' h b1 b1' hb1 hb1'
    obtain ⟨b, b', hb, hb', rfl⟩ := refMoveIns_spec c c' k s d h
    rw [hb] at hb1
    have e : b = b1 := Option.some.inj hb1
    subst e
    have hk := getElem?_lt hb
    simp only [List.getElem?_set, hk, if_true, Option.some.injEq] at hb1'
    subst hb1'
    obtain ⟨hidx, hsame, _⟩ := refMoveInsBlock_spec b b' s d hb'
    exact ⟨hidx, hsame⟩
  moveBlock_wf := by
    intro c s d c' hwf h
    simp only [refOps, refMoveBlock] at h
    split at h
    · cases h
      have hmem : ∀ x ∈ renumberBlocks (moveList c.blocks s d), ∃ y ∈ c.blocks, x.ins = y.ins := by
        intro x hx
        obtain ⟨i, hi⟩ := List.mem_iff_getElem?.mp hx
        obtain ⟨_, b0, hb0, _, _, e⟩ := renumber_getElem? _ i x hi
        exact ⟨b0, (moveList_perm c.blocks s d).mem_iff.mp (List.mem_of_getElem? hb0), e⟩
      refine ⟨fun i b hb => (renumber_getElem? _ i b hb).1, ?_, ?_⟩
      · intro x hx i y hy
        obtain ⟨z, hz, e⟩ := hmem x hx
        rw [e] at hy
        exact hwf.insIdx z hz i y hy
      · intro x hx y hy
        obtain ⟨z, hz, e⟩ := hmem x hx
        rw [e] at hy ⊢
        exact hwf.bounds z hz y hy
    · cases h
  moveBlock_entry := by
    intro c s d c' h
    simp only [refOps, refMoveBlock] at h
    split at h
    · cases h; rfl
    · cases h
  moveBlock_perm := by
    intro c s d c' h
    simp only [refOps, refMoveBlock] at h
    split at h
    · cases h
      simp only [renumber_map]
      exact (moveList_perm c.blocks s d).map _
    · cases h

end Mltwist.Lemmas.Listing
