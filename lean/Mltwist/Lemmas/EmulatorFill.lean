import Mltwist.Lemmas.EmulatorBasic
/-
Emulator (C03, C04), part 2: stores of constants keep the memories constant; what `Fill` preserves
(the invariant, everything known before with its value), what it establishes (the requested state is
known afterwards, with the supplied value) and that no state is requested twice.
-/
namespace Mltwist.Lemmas.Emulator
open Mltwist Mltwist.State Mltwist.Overlay Mltwist.Emulator Mltwist.Spec.Overlay
open Mltwist.Lemmas.State (Good assocGet_set_same assocGet_set_other)

/-! ### stores of constants keep all stored expressions constant -/

def TreeConst (t : Sparse.Tree) : Prop := ∀ kv ∈ t, IsByteConst kv.val.ex

theorem treeConst_insert {t : Sparse.Tree} (ht : TreeConst t) (ow : Bool) (kv : Sparse.KV)
    (hk : IsByteConst kv.val.ex) : TreeConst (Sparse.insert ow kv t) := by
  induction t with
  | nil => intro x hx; simp [Sparse.insert] at hx; subst hx; exact hk
  | cons y ys ih =>
    have hy := ht y (List.mem_cons_self ..)
    have hys : TreeConst ys := fun z hz => ht z (List.mem_cons_of_mem _ hz)
    unfold Sparse.insert
    split
    · intro x hx
      rcases List.mem_cons.1 hx with h | h
      · subst h; exact hk
      · exact ht x h
    · split
      · split
        · intro x hx
          rcases List.mem_cons.1 hx with h | h
          · subst h; exact hk
          · exact hys x h
        · exact ht
      · intro x hx
        rcases List.mem_cons.1 hx with h | h
        · subst h; exact hy
        · exact ih hys x h

theorem treeConst_add {t t' : Sparse.Tree} (ht : TreeConst t) {lo hi : Nat} {v : Sparse.CutExpr}
    (hv : IsByteConst v.ex) (h : Sparse.add t lo hi v = .ok t') : TreeConst t' := by
  unfold Sparse.add at h
  split at h
  · cases h
  · cases h; exact treeConst_insert ht false _ hv

theorem treeConst_put {t t' : Sparse.Tree} (ht : TreeConst t) {lo hi : Nat} {v : Sparse.CutExpr}
    (hv : IsByteConst v.ex) (h : Sparse.put t lo hi v = .ok t') : TreeConst t' := by
  unfold Sparse.put at h
  split at h
  · cases h
  · cases h; exact treeConst_insert ht true _ hv

theorem cutEnd_ex {c c' : Sparse.CutExpr} {n : Nat} (h : c.cutEnd n = .ok c') : c'.ex = c.ex := by
  unfold Sparse.CutExpr.cutEnd at h
  split at h
  · cases h
  · cases h; rfl

theorem cutBegin_ex {c c' : Sparse.CutExpr} {n : Nat} (h : c.cutBegin n = .ok c') : c'.ex = c.ex := by
  unfold Sparse.CutExpr.cutBegin at h
  split at h
  · cases h
  · cases h; rfl

theorem treeConst_storeLeft {t t' : Sparse.Tree} (ht : TreeConst t) {addr : Nat} {o : Sparse.KV}
    (ho : IsByteConst o.val.ex) (h : Sparse.storeLeft addr o t = .ok t') : TreeConst t' := by
  unfold Sparse.storeLeft at h
  split at h
  · generalize Sparse.sub64 addr o.low % 256 = n at h
    cases hc : o.val.cutEnd n with
    | error e => rw [hc] at h; cases h
    | ok c =>
      rw [hc] at h
      exact treeConst_add ht (by rw [cutEnd_ex hc]; exact ho) h
  · cases h; exact ht

theorem treeConst_storeRight {t t' : Sparse.Tree} (ht : TreeConst t) {e : Nat} {o : Sparse.KV}
    (ho : IsByteConst o.val.ex) (h : Sparse.storeRight e o t = .ok t') : TreeConst t' := by
  unfold Sparse.storeRight at h
  split at h
  · generalize Sparse.sub64 o.high e % 256 = n at h
    cases hc : o.val.cutBegin n with
    | error e => rw [hc] at h; cases h
    | ok c =>
      rw [hc] at h
      exact treeConst_put ht (by rw [cutBegin_ex hc]; exact ho) h
  · cases h; exact ht

theorem treeConst_storeLoop (addr e : Nat) : ∀ (ov : List Sparse.KV) (t t' : Sparse.Tree),
    (∀ o ∈ ov, IsByteConst o.val.ex) → TreeConst t → Sparse.storeLoop addr e ov t = .ok t' → TreeConst t'
  | [], t, t', _, ht, h => by simp [Sparse.storeLoop] at h; subst h; exact ht
  | o :: os, t, t', hov, ht, h => by
    have ho := hov o (List.mem_cons_self ..)
    have hos : ∀ o ∈ os, IsByteConst o.val.ex := fun x hx => hov x (List.mem_cons_of_mem _ hx)
    unfold Sparse.storeLoop at h
    split at h
    · exact treeConst_storeLoop addr e os t t' hos ht h
    · cases h1 : Sparse.storeLeft addr o t with
      | error x => simp [h1, bind, Except.bind] at h
      | ok t1 =>
        cases h2 : Sparse.storeRight e o t1 with
        | error x => simp [h1, h2, bind, Except.bind] at h
        | ok t2 =>
          simp only [h1, h2, bind, Except.bind] at h
          exact treeConst_storeLoop addr e os t2 t' hos
            (treeConst_storeRight (treeConst_storeLeft ht ho h1) ho h2) h

theorem treeConst_foldl_remove (ov : List Sparse.KV) : ∀ t : Sparse.Tree, TreeConst t →
    TreeConst (ov.foldl (fun t o => Sparse.remove t o.low) t) := by
  induction ov with
  | nil => intro t ht; exact ht
  | cons o os ih =>
    intro t ht
    apply ih
    intro x hx
    unfold Sparse.remove at hx
    exact ht x (List.mem_filter.1 hx).1

theorem treeConst_store {t t' : Sparse.Tree} (ht : TreeConst t) {a w : Nat} {c : List UInt8}
    (hc : 1 ≤ c.length ∧ c.length ≤ 255) (h : Sparse.store t a (.const c) w = .ok t') : TreeConst t' := by
  unfold Sparse.store at h
  cases h0 : Sparse.overlaps t a (Sparse.endAddr a w) with
  | error x => simp [h0, bind, Except.bind] at h
  | ok ov =>
    have hov : ∀ o ∈ ov, IsByteConst o.val.ex := by
      intro o ho
      unfold Sparse.overlaps at h0
      split at h0
      · cases h0
      · cases h0; exact ht o (List.mem_filter.1 ho).1
    simp only [h0, bind, Except.bind] at h
    cases h1 : Sparse.storeLoop a (Sparse.endAddr a w) ov
        (ov.foldl (fun t o => Sparse.remove t o.low) t) with
    | error x => simp [h1] at h
    | ok t1 =>
      simp only [h1] at h
      exact treeConst_add (treeConst_storeLoop _ _ ov _ t1 hov (treeConst_foldl_remove ov t ht) h1)
        ⟨c, rfl, hc⟩ h

theorem allConst_store : ∀ {m m' : Mem}, AllConst m → ∀ {a w : Nat} {c : List UInt8},
    (1 ≤ c.length ∧ c.length ≤ 255) → m.store a (.const c) w = .ok m' → AllConst m'
  | .bytes bs, m', _, a, w, c, _, h => by
    unfold Mem.store at h
    split at h
    · cases h; trivial
    · cases h
  | .sparse t, m', hm, a, w, c, hc, h => by
    unfold Mem.store at h
    split at h
    · rename_i t' ht'
      cases h
      exact treeConst_store hm hc ht'
    · cases h
  | .overlay b o, m', hm, a, w, c, hc, h => by
    unfold Mem.store at h
    split at h
    · rename_i o' ho'
      cases h
      exact ⟨hm.1, allConst_store hm.2 hc ho'⟩
    · cases h

theorem memsConst_store {m m' : MemMap} (hm : MemsConst m) {key : String} {a w : Nat} {c : List UInt8}
    (hc : 1 ≤ c.length ∧ c.length ≤ 255) (h : m.store key a (.const c) w = .ok m') : MemsConst m' := by
  rw [Lemmas.Overlay.memmap_store_eq] at h
  split at h
  · rename_i mem' hmem'
    cases h
    intro k2 mem2 h2
    by_cases hk : k2 = key
    · subst hk
      rw [assocGet_set_same] at h2
      cases h2
      refine allConst_store ?_ hc hmem'
      cases hg : assocGet k2 m with
      | none => simp [Option.getD]; intro kv hkv; cases hkv
      | some mem => simp [Option.getD]; exact hm k2 mem hg
    · rw [assocGet_set_other key k2 _ hk] at h2
      exact hm k2 mem2 h2
  · cases h

/-! ### `Fill` preserves the invariant and everything that was known -/

theorem withWidth_byteConst (v : List UInt8) {a w : Nat} (hd : InDom a w) :
    1 ≤ (Const.withWidth v w).length ∧ (Const.withWidth v w).length ≤ 255 := by
  rw [withWidth_length]; exact ⟨hd.1, hd.2.1⟩

theorem inv_fillReg {p : Provider} {s : State} (h : Inv s) (key : String) (w : Nat) : Inv (fillReg p s key w) :=
  ⟨h.good, regsConst_store h.regs key _ w, h.mems⟩

theorem inv_store {s : State} (h : Inv s) {key : String} {a w : Nat} {c : List UInt8} {mems' : MemMap}
    (hd : InDom a w) (hc : 1 ≤ c.length ∧ c.length ≤ 255)
    (hs : s.mems.store key a (.const c) w = .ok mems') : Inv { s with mems := mems' } := by
  obtain ⟨m', h1, h2, _, _⟩ := good_store h.good key a (.const c) w hd
  rw [hs] at h1
  cases h1
  exact ⟨h2, h.regs, memsConst_store h.mems hc hs⟩

theorem Fill.inv {p : Provider} {s s' : State} {l : List Req} (hf : Fill p s l s') (h : Inv s) : Inv s' := by
  induction hf with
  | nil s => exact h
  | reg key w _ _ ih => exact ih (inv_fillReg h key w)
  | mem key a w mems' hd _ hs _ ih => exact ih (inv_store h hd (withWidth_byteConst _ hd) hs)

theorem Fill.rext {p : Provider} {s s' : State} {l : List Req} (hf : Fill p s l s') : RExt s.regs s'.regs := by
  induction hf with
  | nil s => exact RExt.refl _
  | reg key w hn _ ih => exact RExt.trans (rext_store hn _ w) ih
  | mem key a w mems' _ _ _ _ ih => exact ih

/-- the byte map after a store at `[a, a+w)` where nothing was present: everything present stays -/
theorem abs_store_ext {s : State} (hg : Good s) {key : String} {a w : Nat} {v : Expr} {mems' : MemMap}
    (hd : InDom a w) (ha : ∀ i, i < w → s.mems.abs key (a + i) = none)
    (hs : s.mems.store key a v w = .ok mems') (key' : String) (x : Nat) (b : Env → Nat)
    (hx : s.mems.abs key' x = some b) : mems'.abs key' x = some b := by
  obtain ⟨m', h1, _, h3, h4⟩ := good_store hg key a v w hd
  rw [hs] at h1
  cases h1
  by_cases hk : key' = key
  · subst hk
    rw [h3]
    unfold AbsMem.store
    split
    · rename_i hr
      have := ha (x - a) (by omega)
      rw [show a + (x - a) = x by omega] at this
      rw [this] at hx
      cases hx
    · exact hx
  · rw [h4 key' hk]; exact hx

/-- memory extension: every byte that was present is present with the same value -/
def MExt (m m' : MemMap) : Prop := ∀ key x b, m.abs key x = some b → m'.abs key x = some b

theorem MExt.refl (m : MemMap) : MExt m m := fun _ _ _ h => h
theorem MExt.trans {a b c : MemMap} (h1 : MExt a b) (h2 : MExt b c) : MExt a c :=
  fun k x v h => h2 k x v (h1 k x v h)

theorem Fill.mext {p : Provider} {s s' : State} {l : List Req} (hf : Fill p s l s') (h : Inv s) :
    MExt s.mems s'.mems := by
  induction hf with
  | nil s => exact MExt.refl _
  | reg key w _ _ ih => exact ih (inv_fillReg h key w)
  | mem key a w mems' hd ha hs _ ih =>
    exact MExt.trans (fun k x b hx => abs_store_ext h.good hd ha hs k x b hx) (ih (inv_store h hd (withWidth_byteConst _ hd) hs))

/-! ### what a request makes known -/

/-- the request `r` is for state that `s` does not know -/
def Unknown (s : State) : Req → Prop
  | .reg key _ => assocGet key s.regs = none
  | .mem key a w => InDom a w ∧ ∀ i, i < w → s.mems.abs key (a + i) = none

/-- after the request `r` was answered by `p`, the state holds the supplied value -/
def Supplied (p : Provider) (s : State) : Req → Prop
  | .reg key w => assocGet key s.regs = some (.const (Const.withWidth (p.reg key w) w))
  | .mem key a w => ∀ i, i < w → ∃ b, s.mems.abs key (a + i) = some b ∧
      ∀ ρ, b ρ = leToNat (Const.withWidth (p.mem key a w) w) / 256 ^ i % 256

theorem supplied_fillReg (p : Provider) (s : State) (key : String) (w : Nat) :
    Supplied p (fillReg p s key w) (.reg key w) := by
  show assocGet key (RegMap.store _ _ _ _) = _
  unfold RegMap.store
  rw [assocGet_set_same, setWidth_const, cw]
  simp [withWidth_length]

theorem supplied_store {p : Provider} {s : State} (hg : Good s) {key : String} {a w : Nat} {mems' : MemMap}
    (hd : InDom a w) (hs : s.mems.store key a (.const (Const.withWidth (p.mem key a w) w)) w = .ok mems') :
    Supplied p { s with mems := mems' } (.mem key a w) := by
  obtain ⟨m', h1, _, h3, _⟩ := good_store hg key a (.const (Const.withWidth (p.mem key a w) w)) w hd
  rw [hs] at h1
  cases h1
  intro i hi
  refine ⟨_, ?_, fun ρ => rfl⟩
  show mems'.abs key (a + i) = _
  rw [h3]
  unfold AbsMem.store
  rw [if_pos (by omega)]
  congr 1
  funext ρ
  simp only [Expr.eval, Nat.add_sub_cancel_left]
  rw [Lemmas.Transform.trunc_of_lt]
  have := Lemmas.Transform.leToNat_lt (Const.withWidth (p.mem key a w) w)
  rwa [withWidth_length] at this

/-- `Supplied` is stable under extension -/
theorem Supplied.ext {p : Provider} {s s' : State} {r : Req} (h : Supplied p s r)
    (hr : RExt s.regs s'.regs) (hm : MExt s.mems s'.mems) : Supplied p s' r := by
  cases r with
  | reg key w => exact hr _ _ h
  | mem key a w =>
    intro i hi
    obtain ⟨b, hb, hv⟩ := h i hi
    exact ⟨b, hm _ _ _ hb, hv⟩

/-- C04 `asked ⊆ known`, with values: every request of a fill sequence was for unknown state at its
moment (in particular in the initial state), and is known with the supplied value at the end -/
theorem Fill.supplied {p : Provider} {s s' : State} {l : List Req} (hf : Fill p s l s') (h : Inv s) :
    ∀ r ∈ l, Supplied p s' r := by
  induction hf with
  | nil s => intro r hr; cases hr
  | @reg s s' l key w hn hf' ih =>
    intro r hr
    rcases List.mem_cons.1 hr with h1 | h1
    · subst h1
      exact (supplied_fillReg p s key w).ext hf'.rext (hf'.mext (inv_fillReg h key w))
    · exact ih (inv_fillReg h key w) r h1
  | @mem s s' l key a w mems' hd ha hs hf' ih =>
    intro r hr
    rcases List.mem_cons.1 hr with h1 | h1
    · subst h1
      exact (supplied_store h.good hd hs).ext hf'.rext (hf'.mext (inv_store h hd (withWidth_byteConst _ hd) hs))
    · exact ih (inv_store h hd (withWidth_byteConst _ hd) hs) r h1

/-- what is known cannot be requested: a request of a fill sequence is unknown in the INITIAL state -/
theorem Fill.unknown {p : Provider} {s s' : State} {l : List Req} (hf : Fill p s l s') (h : Inv s) :
    ∀ r ∈ l, Unknown s r := by
  induction hf with
  | nil s => intro r hr; cases hr
  | @reg s s' l key w hn hf' ih =>
    intro r hr
    rcases List.mem_cons.1 hr with h1 | h1
    · subst h1; exact hn
    · have := ih (inv_fillReg h key w) r h1
      cases r with
      | reg k2 w2 =>
        show assocGet k2 s.regs = none
        cases hk : assocGet k2 s.regs with
        | none => rfl
        | some e =>
          have h3 := rext_store hn (.const (Const.withWidth (p.reg key w) w)) w k2 e hk
          have h4 : assocGet k2 (fillReg p s key w).regs = none := this
          unfold fillReg at h4
          rw [h4] at h3
          cases h3
      | mem k2 a2 w2 => exact this
  | @mem s s' l key a w mems' hd ha hs hf' ih =>
    intro r hr
    rcases List.mem_cons.1 hr with h1 | h1
    · subst h1; exact ⟨hd, ha⟩
    · have := ih (inv_store h hd (withWidth_byteConst _ hd) hs) r h1
      cases r with
      | reg k2 w2 => exact this
      | mem k2 a2 w2 =>
        refine ⟨this.1, fun i hi => ?_⟩
        cases hk : s.mems.abs k2 (a2 + i) with
        | none => rfl
        | some b =>
          have h2 := abs_store_ext h.good hd ha hs k2 (a2 + i) b hk
          have h3 : mems'.abs k2 (a2 + i) = none := this.2 i hi
          rw [h3] at h2
          cases h2

/-- two requests do not concern the same state -/
def Req.Disjoint : Req → Req → Prop
  | .reg k _, .reg k' _ => k ≠ k'
  | .mem k a w, .mem k' a' w' => k ≠ k' ∨ a + w ≤ a' ∨ a' + w' ≤ a
  | _, _ => True

theorem disjoint_of_supplied_unknown {p : Provider} {s : State} {r r' : Req}
    (h1 : Supplied p s r) (h2 : Unknown s r') (hw : ∀ key a w, r = .mem key a w → 1 ≤ w) :
    Req.Disjoint r r' := by
  cases r with
  | reg k w =>
    cases r' with
    | reg k' w' =>
      intro hk
      subst hk
      have h3 : assocGet k s.regs = none := h2
      have h4 : assocGet k s.regs = some _ := h1
      rw [h3] at h4
      cases h4
    | mem k' a' w' => trivial
  | mem k a w =>
    cases r' with
    | reg k' w' => trivial
    | mem k' a' w' =>
      show k ≠ k' ∨ a + w ≤ a' ∨ a' + w' ≤ a
      by_cases hk : k = k'
      · subst hk
        right
        by_cases hc : a + w ≤ a' ∨ a' + w' ≤ a
        · exact hc
        · exfalso
          have hw1 := hw k a w rfl
          have hw2 := h2.1.1
          -- a common address
          let x := max a a'
          have hx1 : a ≤ x ∧ x < a + w := by omega
          have hx2 : a' ≤ x ∧ x < a' + w' := by omega
          obtain ⟨b, hb, _⟩ := h1 (x - a) (by omega)
          have := h2.2 (x - a') (by omega)
          rw [show a + (x - a) = x by omega] at hb
          rw [show a' + (x - a') = x by omega, hb] at this
          cases this
      · exact Or.inl hk

/-- C04 `no state is requested twice` inside a fill sequence -/
theorem Fill.pairwise {p : Provider} {s s' : State} {l : List Req} (hf : Fill p s l s') (h : Inv s) :
    l.Pairwise Req.Disjoint := by
  induction hf with
  | nil s => exact List.Pairwise.nil
  | @reg s s' l key w hn hf' ih =>
    refine List.Pairwise.cons (fun r' hr' => ?_) (ih (inv_fillReg h key w))
    exact disjoint_of_supplied_unknown (supplied_fillReg p s key w)
      (hf'.unknown (inv_fillReg h key w) r' hr') (fun _ _ _ e => by cases e)
  | @mem s s' l key a w mems' hd ha hs hf' ih =>
    refine List.Pairwise.cons (fun r' hr' => ?_) (ih (inv_store h hd (withWidth_byteConst _ hd) hs))
    exact disjoint_of_supplied_unknown (supplied_store h.good hd hs)
      (hf'.unknown (inv_store h hd (withWidth_byteConst _ hd) hs) r' hr') (fun _ _ _ e => by cases e; exact hd.1)

end Mltwist.Lemmas.Emulator
