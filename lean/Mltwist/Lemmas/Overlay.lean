import Mltwist.Lemmas.OverlayLoad
/-
C16, part 3: the overlay of two views that satisfy the memory laws satisfies the memory laws for
the layered byte map.
-/
namespace Mltwist.Lemmas.Overlay
open Mltwist Mltwist.Overlay Mltwist.Interval Mltwist.Spec.Overlay
open Mltwist.Spec.Sparse (sumBytes)
open Mltwist.Lemmas.Sparse (sumBytes_congr)
open Mltwist.Lemmas.Interval (mem_singleton normal_nonempty mem_nil)

/-- membership of a natural number in an interval list, via `In` -/
theorem mem_iff_in (x : Nat) (l : List Intv) : Interval.Mem (x : Int) l ↔ ∃ i ∈ l, In x i := by
  unfold Interval.Mem In
  rfl

/-- the intervals of a normal list whose members all lie in `[a, a+w)` are sub-intervals of it -/
theorem sub_of_normal {a w : Nat} {l : List Intv} (hn : Normal l)
    (hr : ∀ x : Int, Interval.Mem x l → (a : Int) ≤ x ∧ x.toNat < a + w) : ∀ i ∈ l, Sub a w i := by
  intro i hi
  have hne := normal_nonempty hn i hi
  have h1 := hr i.1 ⟨i, hi, Int.le_refl _, hne⟩
  have h2 := hr (i.2 - 1) ⟨i, hi, by omega, by omega⟩
  unfold Sub
  omega

theorem overlay_load {b o : View} {mb mo : AbsMem} (hb : MemLaws b mb) (ho : MemLaws o mo)
    (a w : Nat) (hd : InDom a w) :
    ∃ r, Overlay.load b o a w = .ok r ∧ (r ≠ none ↔ ∀ i, i < w → layer mo mb (a + i) ≠ none) ∧
      ∀ e, r = some e → e.width = w ∧ ∀ ρ, e.eval ρ = loadVal ρ (layer mo mb) a w := by
  obtain ⟨miss, hm1, hm2, hm3⟩ := ho.missing a w hd
  obtain ⟨hw1, hw, h64⟩ := hd
  have hd : InDom a w := ⟨hw1, hw, h64⟩
  have hL : Bytewise (layer mo mb) := bytewise_layer ho.bytewise hb.bytewise
  -- presence in the overlay layer, in terms of the missing set
  have hmissN : ∀ x : Nat, a ≤ x → x < a + w → (Interval.Mem (x : Int) miss ↔ mo x = none) := by
    intro x h1 h2
    rw [hm3]
    constructor
    · intro h; simpa using h.2.2
    · intro h; exact ⟨by omega, by simp; omega, by simpa using h⟩
  unfold Overlay.load
  rw [hm1]
  simp only
  by_cases h0 : miss.length = 0
  · rw [if_pos h0]
    have hnil : miss = [] := List.eq_nil_of_length_eq_zero h0
    have hall : ∀ i, i < w → mo (a + i) ≠ none := by
      intro i hi hn
      have := (hmissN (a + i) (by omega) (by omega)).2 hn
      rw [hnil] at this
      exact mem_nil _ this
    exact load_transfer ho hd (fun i hi => layer_of_some (hall i hi))
  · rw [if_neg h0]
    have hend : Sparse.endAddr a w = a + w := by unfold Sparse.endAddr; omega
    have hnew : newIntv a (Sparse.endAddr a w) = .ok ((a : Int), ((a + w : Nat) : Int)) := by
      rw [hend]; unfold newIntv; rw [if_neg (by omega)]
    rw [hnew]
    simp only
    have hwhole : newMap [((a : Int), ((a + w : Nat) : Int))] = [((a : Int), ((a + w : Nat) : Int))] := by
      simp [newMap, sortByBegin, insertByBegin, addInterval]
    rw [hwhole]
    by_cases heq : [((a : Int), ((a + w : Nat) : Int))] = miss
    · rw [if_pos heq]
      have hall : ∀ i, i < w → mo (a + i) = none := by
        intro i hi
        apply (hmissN (a + i) (by omega) (by omega)).1
        rw [← heq, mem_singleton]
        constructor <;> simp <;> omega
      exact load_transfer hb hd (fun i hi => layer_of_none (hall i hi))
    · rw [if_neg heq]
      have hNw : Normal [((a : Int), ((a + w : Nat) : Int))] := by
        show (a : Int) < ((a + w : Nat) : Int)
        omega
      have hov1 := Lemmas.Interval.complement_normal _ miss hNw hm2
      have hov2 := Lemmas.Interval.complement_mem _ miss hNw hm2
      generalize mapComplement [((a : Int), ((a + w : Nat) : Int))] miss = ov at hov1 hov2
      have hovN : ∀ x : Nat, Interval.Mem (x : Int) ov ↔ (a ≤ x ∧ x < a + w ∧ mo x ≠ none) := by
        intro x
        rw [hov2, mem_singleton]
        constructor
        · rintro ⟨⟨h1, h2⟩, h3⟩
          have h1' : a ≤ x := by simp only at h1; omega
          have h2' : x < a + w := by simp only at h2; omega
          exact ⟨h1', h2', fun hn => h3 ((hmissN x h1' h2').2 hn)⟩
        · rintro ⟨h1, h2, h3⟩
          exact ⟨⟨by simp only; omega, by simp only; omega⟩, fun hm => h3 ((hmissN x h1 h2).1 hm)⟩
      have hsubM : ∀ i ∈ miss, Sub a w i :=
        sub_of_normal hm2 (fun x hx => ⟨((hm3 x).1 hx).1, ((hm3 x).1 hx).2.1⟩)
      have hsubO : ∀ i ∈ ov, Sub a w i := by
        apply sub_of_normal hov1
        intro x hx
        have := ((hov2 x).1 hx).1
        rw [mem_singleton] at this
        simp only at this
        omega
      have hinM : ∀ i ∈ miss, ∀ x : Nat, In x i → mo x = none := by
        intro i hi x hx
        have hs := hsubM i hi
        unfold In at hx
        unfold Sub at hs
        exact (hmissN x (by omega) (by omega)).1 ((mem_iff_in x miss).2 ⟨i, hi, hx⟩)
      have hinO : ∀ i ∈ ov, ∀ x : Nat, In x i → mo x ≠ none := by
        intro i hi x hx
        exact ((hovN x).1 ((mem_iff_in x ov).2 ⟨i, hi, hx⟩)).2.2
      obtain ⟨r1, g1, g2, g3⟩ := readBase_spec (L := layer mo mb) hb hd miss hsubM
        (fun i hi x hx => layer_of_none (hinM i hi x hx))
      rw [g1]
      cases r1 with
      | none =>
        refine ⟨none, rfl, ?_, fun e he => by cases he⟩
        simp only [ne_eq, not_true_eq_false, false_iff]
        intro hall
        apply g2.2 _ rfl
        intro i hi x hx
        have hs := hsubM i hi
        have hx' := hx
        unfold In at hx'
        unfold Sub at hs
        have := hall (x - a) (by omega)
        rw [show a + (x - a) = x by omega, layer_of_none (hinM i hi x hx)] at this
        exact this
      | some rs1 =>
        obtain ⟨q1, q2⟩ := g3 rs1 rfl
        have hbase := g2.1 (by simp)
        obtain ⟨rs2, k1, k2, k3⟩ := readOver_spec (L := layer mo mb) ho hd ov hsubO
          (fun i hi x hx => ⟨hinO i hi x hx, layer_of_some (hinO i hi x hx)⟩)
        simp only
        rw [k1]
        simp only
        -- the sorted reads: all good, and they cover the range
        have hgood : ∀ rd ∈ sortReads (rs1 ++ rs2), GoodRead (layer mo mb) a w rd := by
          intro rd hrd
          rcases List.mem_append.1 ((mem_sortReads rd _).1 hrd) with h | h
          · exact q2 rd h
          · exact k3 rd h
        have hcov : ∀ j, j < w → Cov a (sortReads (rs1 ++ rs2)) j := by
          intro j hj
          by_cases hmo : mo (a + j) = none
          · obtain ⟨i, hi, hin⟩ := (mem_iff_in (a + j) miss).1 ((hmissN (a + j) (by omega) (by omega)).2 hmo)
            rw [← q1] at hi
            obtain ⟨rd, hrd, rfl⟩ := List.mem_map.1 hi
            exact ⟨rd, (mem_sortReads rd _).2 (List.mem_append_left _ hrd), hin⟩
          · obtain ⟨i, hi, hin⟩ := (mem_iff_in (a + j) ov).1 ((hovN (a + j)).2 ⟨by omega, by omega, hmo⟩)
            rw [← k2] at hi
            obtain ⟨rd, hrd, rfl⟩ := List.mem_map.1 hi
            exact ⟨rd, (mem_sortReads rd _).2 (List.mem_append_right _ hrd), hin⟩
        have hmin := headMin_sortReads (rs1 ++ rs2)
        generalize sortReads (rs1 ++ rs2) = sorted at hgood hcov hmin
        cases sorted with
        | nil =>
          obtain ⟨rd, hrd, _⟩ := hcov 0 (by omega)
          cases hrd
        | cons r0 rest =>
          simp only
          have hg0 := hgood r0 List.mem_cons_self
          have hf0 := sub_facts hg0.1 hw
          -- the first read starts at `a`
          have hbeg : ibegin r0.intv = a := by
            obtain ⟨rd, hrd, hin⟩ := hcov 0 (by omega)
            unfold In at hin
            rcases List.mem_cons.1 hrd with rfl | hrd
            · omega
            · have := hmin.1 rd hrd
              omega
          refine ⟨_, rfl, ?_, fun e he => ?_⟩
          · simp only [ne_eq, reduceCtorEq, not_false_eq_true, true_iff]
            intro i hi
            by_cases hmo : mo (a + i) = none
            · rw [layer_of_none hmo]
              obtain ⟨iv, hiv, hin⟩ := (mem_iff_in (a + i) miss).1
                ((hmissN (a + i) (by omega) (by omega)).2 hmo)
              exact hbase iv hiv (a + i) hin
            · rw [layer_of_some hmo]; exact hmo
          · simp only [Option.some.injEq] at he
            subst he
            have hfinal : ∀ ρ, BInv ρ (layer mo mb) a w ((combine a w rest r0.ex).eval ρ) (rest.reverse ++ [r0]) := by
              intro ρ
              apply combine_spec hL hw h64 ρ rest r0.ex [r0]
                (fun rd hrd => hgood rd (List.mem_cons_of_mem _ hrd))
              have hv : r0.ex.eval ρ = sumBytes (fun i => byteOf ρ (layer mo mb (a + i))) (ilen r0.intv) := by
                rw [hg0.2.2 ρ, hbeg]; rfl
              refine ⟨?_, fun j hj => ?_⟩
              · rw [hv]
                exact Nat.lt_of_lt_of_le (Lemmas.Sparse.sumBytes_lt _ (fun i => byteOf_lt hL ρ _) _)
                  (Nat.pow_le_pow_right (by decide) (by omega))
              · have hc : Cov a [r0] j ↔ j < ilen r0.intv := by
                  unfold Cov In
                  constructor
                  · rintro ⟨rd, hrd, hin⟩
                    rw [List.mem_singleton] at hrd
                    subst hrd
                    omega
                  · intro h
                    exact ⟨r0, List.mem_singleton.2 rfl, by omega, by omega⟩
                unfold nbyte
                rw [hv, byteOf_sumBytes _ (fun i => byteOf_lt hL ρ _), hc]
                constructor
                · intro h; rw [if_pos h]
                · intro h; rw [if_neg h]
            have hcov' : ∀ j, j < w → Cov a (rest.reverse ++ [r0]) j := by
              intro j hj
              obtain ⟨rd, hrd, hin⟩ := hcov j hj
              refine ⟨rd, ?_, hin⟩
              rcases List.mem_cons.1 hrd with rfl | hrd
              · simp
              · simp [hrd]
            constructor
            · cases rest with
              | nil =>
                simp only [combine]
                rw [hg0.2.1]
                obtain ⟨rd, hrd, hin⟩ := hcov (w - 1) (by omega)
                rw [List.mem_singleton] at hrd
                subst hrd
                unfold In at hin
                omega
              | cons r1 rest' => exact combine_width a w _ _ (by simp)
            · intro ρ
              obtain ⟨hlt, hbytes⟩ := hfinal ρ
              rw [eq_sum_of_bytes hlt]
              unfold loadVal
              apply sumBytes_congr
              intro j hj
              exact (hbytes j hj).1 (hcov' j hj)

/-- `Overlay.Missing` and `Overlay.Blocks` -/
theorem overlay_missing {b o : View} {mb mo : AbsMem} (hb : MemLaws b mb) (ho : MemLaws o mo)
    (a w : Nat) (hd : InDom a w) :
    ∃ l, Overlay.missing b o a w = .ok l ∧ Normal l ∧
      ∀ x : Int, Interval.Mem x l ↔ ((a : Int) ≤ x ∧ x.toNat < a + w ∧ layer mo mb x.toNat = none) := by
  obtain ⟨lb, b1, b2, b3⟩ := hb.missing a w hd
  obtain ⟨lo, o1, o2, o3⟩ := ho.missing a w hd
  refine ⟨mapIntersect lb lo, by simp [Overlay.missing, b1, o1],
    Lemmas.Interval.intersect_normal lb lo b2 o2, fun x => ?_⟩
  rw [Lemmas.Interval.intersect_mem lb lo b2 o2, b3, o3, layer_none]
  constructor
  · rintro ⟨⟨h1, h2, h3⟩, _, _, h4⟩; exact ⟨h1, h2, h4, h3⟩
  · rintro ⟨h1, h2, h3, h4⟩; exact ⟨⟨h1, h2, h4⟩, h1, h2, h3⟩

theorem overlay_blocks {b o : View} {mb mo : AbsMem} (hb : MemLaws b mb) (ho : MemLaws o mo) :
    ∃ l, Overlay.blocks b o = .ok l ∧ Normal l ∧
      ∀ x : Int, Interval.Mem x l ↔ ((0 : Int) ≤ x ∧ layer mo mb x.toNat ≠ none) := by
  obtain ⟨lb, b1, b2, b3⟩ := hb.blocks
  obtain ⟨lo, o1, o2, o3⟩ := ho.blocks
  refine ⟨mapUnion lb lo, by simp [Overlay.blocks, b1, o1],
    Lemmas.Interval.union_normal lb lo b2 o2, fun x => ?_⟩
  rw [Lemmas.Interval.union_mem lb lo b2 o2, b3, o3]
  have hl := @layer_none mo mb x.toNat
  constructor
  · rintro (⟨h1, h2⟩ | ⟨h1, h2⟩)
    · exact ⟨h1, fun h => h2 (hl.1 h).2⟩
    · exact ⟨h1, fun h => h2 (hl.1 h).1⟩
  · rintro ⟨h1, h2⟩
    by_cases h : mo x.toNat = none
    · exact Or.inl ⟨h1, fun hb' => h2 (hl.2 ⟨h, hb'⟩)⟩
    · exact Or.inr ⟨h1, h⟩

/-- the overlay of two lawful memories is a lawful memory for the layered byte map -/
theorem overlay_laws {b o : View} {mb mo : AbsMem} (hb : MemLaws b mb) (ho : MemLaws o mo) :
    MemLaws (Overlay.view b o) (layer mo mb) where
  bytewise := bytewise_layer ho.bytewise hb.bytewise
  load := overlay_load hb ho
  missing := overlay_missing hb ho
  blocks := overlay_blocks hb ho

end Mltwist.Lemmas.Overlay
