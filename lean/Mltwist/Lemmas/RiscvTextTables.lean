import Mltwist.Model.RiscvTables
import Mltwist.Lemmas.RiscvTextArgs
/-
C25, table level (re-checked against the regenerated tables on every run): for every entry of
every instruction table
* the mnemonic contains no space and the flags are well formed (`WF`): by evaluation;
* (d) the effects depend on the instruction word only through the fields that the text shows
  (`DependsOnShown`): by unfolding the entry's closure and the helper functions of `opcodes.go`,
  which read the word only through `regNum`, `immParse`, `csrKey` (the I-immediate), `csrImm` (the
  rs1 field) and `regImmShift` (low bits of the I-immediate = low bits of the shown `shamt`).
The proofs do not mention any particular entry, only the set of helper functions.
-/
namespace Mltwist.Lemmas.RiscvTextTables
open Mltwist Mltwist.Riscv Mltwist.Lemmas.RiscvTextArgs

/-- the effects of `e` read the instruction word only through the shown fields -/
def DependsOnShown (e : Entry) : Prop :=
  ∀ addr w1 w2, SameShown e w1 w2 → e.effects ⟨addr, w1⟩ = e.effects ⟨addr, w2⟩

/-- what the text needs from an entry -/
def Good (e : Entry) : Prop := ' ' ∉ e.name.toList ∧ WF e = true ∧ DependsOnShown e

theorem csrImm_eq (i : Ins) : csrImm i = constFromUint 1 (regNum .rs1 i.value) := rfl

theorem signExtendImm_emod (u sb : Nat) (k : Nat) (hk : k ≤ sb + 1) :
    signExtendImm u sb % ((2 ^ k : Nat) : Int) = (u : Int) % ((2 ^ k : Nat) : Int) := by
  unfold signExtendImm
  split
  · rfl
  · obtain ⟨d, hd⟩ := Nat.exists_eq_add_of_le hk
    rw [hd, Nat.pow_add]
    simp only [Int.natCast_mul, Int.sub_mul_emod_self_left]

/-- the low (at most 6) bits of the I-immediate are the low bits of the `shamt` immediate -/
theorem shamt_low (v bits : Nat) (hb : bits ≤ 6) :
    (immParse .I v).1 % ((2 ^ bits : Nat) : Int) = (immParse .shamt v).1 % ((2 ^ bits : Nat) : Int) := by
  simp only [immParse]
  rw [signExtendImm_emod _ _ _ (by omega)]
  simp only [bitRange]
  have h6 : bits = 0 ∨ bits = 1 ∨ bits = 2 ∨ bits = 3 ∨ bits = 4 ∨ bits = 5 ∨ bits = 6 := by omega
  rcases h6 with rfl | rfl | rfl | rfl | rfl | rfl | rfl <;> omega

theorem regImmShift_eq (f : BinF) (i : Ins) (bits w : Nat) (hb : bits ≤ 6) :
    regImmShift f i bits w =
      f (regLoad .rs1 i w) (constFromInt 4 ((immParse .shamt i.value).1 % (2 ^ bits : Nat))) w := by
  unfold regImmShift
  simp only [shamt_low _ _ hb]

set_option linter.unusedSimpArgs false

/-- proves `∀ e ∈ table, DependsOnShown e` for a table given by its definition -/
macro "depends_on_shown " tbl:ident : tactic => `(tactic| (
  simp only [$tbl:ident, List.forall_mem_cons, List.not_mem_nil, false_imp_iff, implies_true]
  repeat' apply And.intro
  all_goals first | trivial | skip
  all_goals
    intro addr w1 w2 ⟨h1, h2, h3, h4⟩
    try (have h1 := h1 rfl)
    try (have h2 := h2 (by decide))
    try (have h3 := h3 (by decide))
    simp only [regStore, regLoad, regImmOp, reg2Op, maskedRegOp,
      regImmShift_eq _ _ _ _ (by decide : 5 ≤ 6), regImmShift_eq _ _ _ _ (by decide : 6 ≤ 6),
      jumpTarget, branchCmp, addrImmConst, immConst, atomicOp, atomicOpWidth, csrKey,
      csrImm_eq] at h4 ⊢ <;>
    simp only [*]))

theorem dep_integer32 : ∀ e ∈ Gen.integer32, DependsOnShown e := by depends_on_shown Gen.integer32
theorem dep_mul32 : ∀ e ∈ Gen.mul32, DependsOnShown e := by depends_on_shown Gen.mul32
theorem dep_atomic32 : ∀ e ∈ Gen.atomic32, DependsOnShown e := by depends_on_shown Gen.atomic32
theorem dep_integer64 : ∀ e ∈ Gen.integer64, DependsOnShown e := by depends_on_shown Gen.integer64
theorem dep_mul64 : ∀ e ∈ Gen.mul64, DependsOnShown e := by depends_on_shown Gen.mul64
theorem dep_atomic64 : ∀ e ∈ Gen.atomic64, DependsOnShown e := by depends_on_shown Gen.atomic64

theorem flags_integer32 : ∀ e ∈ Gen.integer32, ' ' ∉ e.name.toList ∧ WF e = true := by decide
theorem flags_mul32 : ∀ e ∈ Gen.mul32, ' ' ∉ e.name.toList ∧ WF e = true := by decide
theorem flags_atomic32 : ∀ e ∈ Gen.atomic32, ' ' ∉ e.name.toList ∧ WF e = true := by decide
theorem flags_integer64 : ∀ e ∈ Gen.integer64, ' ' ∉ e.name.toList ∧ WF e = true := by decide
theorem flags_mul64 : ∀ e ∈ Gen.mul64, ' ' ∉ e.name.toList ∧ WF e = true := by decide
theorem flags_atomic64 : ∀ e ∈ Gen.atomic64, ' ' ∉ e.name.toList ∧ WF e = true := by decide

theorem good_of_mem (xlen : Nat) (hx : xlen = 32 ∨ xlen = 64) (m a : Bool) (e : Entry)
    (h : e ∈ instructionSet xlen m a) : Good e := by
  have key : ∀ tbl : List Entry, (∀ e ∈ tbl, ' ' ∉ e.name.toList ∧ WF e = true) →
      (∀ e ∈ tbl, DependsOnShown e) → e ∈ tbl → Good e :=
    fun tbl hf hd he => ⟨(hf e he).1, (hf e he).2, hd e he⟩
  unfold instructionSet at h
  rcases hx with rfl | rfl
  · simp only [if_true, List.mem_append] at h
    rcases h with (h | h) | h
    · exact key _ flags_integer32 dep_integer32 h
    · cases m
      · simp at h
      · exact key _ flags_mul32 dep_mul32 h
    · cases a
      · simp at h
      · exact key _ flags_atomic32 dep_atomic32 h
  · simp only [show ¬ (64 = 32) by decide, if_false, List.mem_append] at h
    rcases h with (h | h) | h
    · exact key _ flags_integer64 dep_integer64 h
    · cases m
      · simp at h
      · exact key _ flags_mul64 dep_mul64 h
    · cases a
      · simp at h
      · exact key _ flags_atomic64 dep_atomic64 h

end Mltwist.Lemmas.RiscvTextTables
