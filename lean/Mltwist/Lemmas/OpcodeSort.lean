import Mltwist.Lemmas.OpcodeBytes
/-
Sorting and searching lemmas for C19: the insertion sort `sortBy` (permutation, sortedness w.r.t.
a key ordered by a strict total order), `searchFirst`, the duplicate scan of `newMaskGroup`, and
the binary-search lookup of `matchInstruction` on a strictly sorted group.
-/
namespace Mltwist.Lemmas.Opcode
open Mltwist.Opcode

/-! ### `sortBy` is a permutation -/

theorem insertBy_perm {α} (lt : α → α → Bool) (x : α) (l : List α) :
    (insertBy lt x l).Perm (x :: l) := by
  induction l with
  | nil => exact List.Perm.refl _
  | cons y ys ih =>
    unfold insertBy
    by_cases h : lt y x = true
    · simp only [h, if_true]
      exact (List.Perm.cons y ih).trans (List.Perm.swap x y ys)
    · simp only [h]
      exact List.Perm.refl _

theorem sortBy_perm {α} (lt : α → α → Bool) (l : List α) : (sortBy lt l).Perm l := by
  induction l with
  | nil => exact List.Perm.refl _
  | cons x xs ih => exact (insertBy_perm lt x _).trans (List.Perm.cons x ih)

theorem mem_sortBy {α} (lt : α → α → Bool) (l : List α) (a : α) : a ∈ sortBy lt l ↔ a ∈ l :=
  (sortBy_perm lt l).mem_iff

/-! ### sortedness by a key with a strict total order -/

structure StrictTotal {K} (klt : K → K → Bool) : Prop where
  irrefl : ∀ a, klt a a = false
  trans : ∀ {a b c}, klt a b = true → klt b c = true → klt a c = true
  total : ∀ {a b}, klt a b = false → klt b a = false → a = b

theorem byteLT_strictTotal : StrictTotal byteLT :=
  ⟨byteLT_irrefl, byteLT_trans, byteLT_total⟩

theorem StrictTotal.asymm {K} {klt : K → K → Bool} (h : StrictTotal klt) {a b : K}
    (hab : klt a b = true) : klt b a = false := by
  cases hb : klt b a with
  | false => rfl
  | true => have := h.trans hab hb; rw [h.irrefl] at this; cases this

/-- `¬ c < b → ¬ b < a → ¬ c < a` -/
theorem StrictTotal.negTrans {K} {klt : K → K → Bool} (h : StrictTotal klt) {a b c : K}
    (h1 : klt c b = false) (h2 : klt b a = false) : klt c a = false := by
  cases hca : klt c a with
  | false => rfl
  | true =>
    cases hab : klt a b with
    | false =>
      have : b = a := h.total h2 hab
      subst this; rw [hca] at h1; cases h1
    | true => have := h.trans hca hab; rw [h1] at this; cases this

/-- non-strictly sorted by the key `f` -/
def SortedBy {α K} (klt : K → K → Bool) (f : α → K) (l : List α) : Prop :=
  l.Pairwise (fun a b => klt (f b) (f a) = false)

theorem insertBy_sorted {α K} {klt : K → K → Bool} (hk : StrictTotal klt) (f : α → K) (x : α)
    (l : List α) (hs : SortedBy klt f l) :
    SortedBy klt f (insertBy (fun a b => klt (f a) (f b)) x l) := by
  induction l with
  | nil => simp [insertBy, SortedBy]
  | cons y ys ih =>
    unfold SortedBy at hs
    rw [List.pairwise_cons] at hs
    unfold insertBy
    by_cases h : klt (f y) (f x) = true
    · simp only [h, if_true]
      unfold SortedBy
      rw [List.pairwise_cons]
      refine ⟨?_, ih hs.2⟩
      intro z hz
      rcases List.mem_cons.1 ((insertBy_perm _ x ys).mem_iff.1 hz) with hz | hz
      · subst hz; exact hk.asymm h
      · exact hs.1 z hz
    · have h' : klt (f y) (f x) = false := by simpa using h
      simp only [h', Bool.false_eq_true, if_false]
      unfold SortedBy
      rw [List.pairwise_cons, List.pairwise_cons]
      refine ⟨?_, hs⟩
      intro z hz
      rcases List.mem_cons.1 hz with hz | hz
      · subst hz; exact h'
      · exact hk.negTrans (hs.1 z hz) h'

theorem sortBy_sorted {α K} {klt : K → K → Bool} (hk : StrictTotal klt) (f : α → K)
    (l : List α) : SortedBy klt f (sortBy (fun a b => klt (f a) (f b)) l) := by
  induction l with
  | nil => simp [sortBy, SortedBy]
  | cons x xs ih => exact insertBy_sorted hk f x _ ih

/-! ### `searchFirst` -/

theorem searchFirst_le {α} (p : α → Bool) (l : List α) : searchFirst p l ≤ l.length := by
  induction l with
  | nil => simp [searchFirst]
  | cons x xs ih => unfold searchFirst; split <;> simp <;> omega

theorem searchFirst_pos {α} (p : α → Bool) (x : α) (xs : List α) (h : p x = false) :
    1 ≤ searchFirst p (x :: xs) := by
  simp [searchFirst, h]

theorem mem_take_searchFirst {α} (p : α → Bool) (l : List α) (a : α)
    (h : a ∈ l.take (searchFirst p l)) : p a = false := by
  induction l with
  | nil => simp at h
  | cons x xs ih =>
    unfold searchFirst at h
    by_cases hx : p x = true
    · simp [hx] at h
    · have hx' : p x = false := by simpa using hx
      simp only [hx', Bool.false_eq_true, if_false, List.take_succ_cons, List.mem_cons] at h
      rcases h with h | h
      · rw [h]; exact hx'
      · exact ih h

/-! ### the duplicate scan of `newMaskGroup` -/

/-- strictly sorted by `masked` -/
def StrictSorted (l : List Opc) : Prop :=
  l.Pairwise (fun a b => byteLT a.masked b.masked = true)

theorem strictSorted_of_noAdjDup (l : List Opc)
    (hs : SortedBy byteLT (fun o : Opc => o.masked) l) (hd : hasAdjDup l = false) :
    StrictSorted l := by
  induction l with
  | nil => exact List.Pairwise.nil
  | cons a rest ih =>
    cases rest with
    | nil => simp [StrictSorted]
    | cons b rest =>
      unfold SortedBy at hs
      rw [List.pairwise_cons] at hs
      unfold hasAdjDup at hd
      by_cases he : byteEQ a.masked b.masked = true
      · simp [he] at hd
      · have he' : byteEQ a.masked b.masked = false := by simpa using he
        simp only [he', Bool.false_eq_true, if_false] at hd
        have ihb : StrictSorted (b :: rest) := ih hs.2 hd
        have hab : byteLT a.masked b.masked = true := by
          cases h : byteLT a.masked b.masked with
          | true => rfl
          | false =>
            have := byteLT_total h (hs.1 b (List.mem_cons_self ..))
            exact absurd this ((byteEQ_false_iff _ _).1 he')
        unfold StrictSorted at ihb ⊢
        rw [List.pairwise_cons]
        refine ⟨?_, ihb⟩
        intro c hc
        rcases List.mem_cons.1 hc with hc | hc
        · subst hc; exact hab
        · exact byteLT_trans hab ((List.pairwise_cons.1 ihb).1 c hc)

theorem adjDup_witness (l : List Opc) (hd : hasAdjDup l = true) :
    ∃ a b, [a, b].Sublist l ∧ a.masked = b.masked := by
  induction l with
  | nil => simp [hasAdjDup] at hd
  | cons a rest ih =>
    cases rest with
    | nil => simp [hasAdjDup] at hd
    | cons b rest =>
      unfold hasAdjDup at hd
      by_cases he : byteEQ a.masked b.masked = true
      · refine ⟨a, b, ?_, (byteEQ_iff _ _).1 he⟩
        exact List.Sublist.cons_cons a (List.Sublist.cons_cons b (List.nil_sublist _))
      · simp only [he] at hd
        obtain ⟨x, y, hsub, hxy⟩ := ih hd
        exact ⟨x, y, List.Sublist.cons a hsub, hxy⟩

/-- two entries of a sublist `[a, b]` of a duplicate-free list are different members -/
theorem pair_sublist_nodup {α} {a b : α} {l : List α} (hs : [a, b].Sublist l) (hn : l.Nodup) :
    a ∈ l ∧ b ∈ l ∧ a ≠ b := by
  have h2 : [a, b].Nodup := hs.nodup hn
  refine ⟨hs.subset (by simp), hs.subset (by simp), ?_⟩
  intro e; subst e; simp at h2

/-! ### the lookup of `matchInstruction` -/

/-- the part of `matchInstruction` after `masked` is computed -/
def lookup (masked : List UInt8) (l : List Opc) : Option Opc :=
  match l[searchFirst (fun o => byteLT masked o.masked || byteEQ masked o.masked) l]? with
  | none => none
  | some opc => if !byteEQ masked opc.masked then none else some opc

theorem lookup_sound (masked : List UInt8) (l : List Opc) (o : Opc)
    (h : lookup masked l = some o) : o ∈ l ∧ o.masked = masked := by
  unfold lookup at h
  split at h
  · cases h
  · next opc hopc =>
    by_cases he : byteEQ masked opc.masked = true
    · simp only [he, Bool.not_true, Bool.false_eq_true, if_false, Option.some.injEq] at h
      subst h
      exact ⟨List.mem_of_getElem? hopc, ((byteEQ_iff _ _).1 he).symm⟩
    · simp [he] at h

theorem lookup_complete (masked : List UInt8) (l : List Opc) (hs : StrictSorted l) (o : Opc)
    (ho : o ∈ l) (hm : o.masked = masked) : lookup masked l = some o := by
  induction l with
  | nil => simp at ho
  | cons x xs ih =>
    unfold StrictSorted at hs
    rw [List.pairwise_cons] at hs
    rcases List.mem_cons.1 ho with ho | ho
    · subst ho
      simp [lookup, searchFirst, hm, byteEQ_refl]
    · have hlt : byteLT x.masked masked = true := hm ▸ hs.1 o ho
      have h1 : byteLT masked x.masked = false := byteLT_strictTotal.asymm hlt
      have h2 : byteEQ masked x.masked = false :=
        (byteEQ_false_iff _ _).2 (fun e => byteLT_ne hlt e.symm)
      have := ih hs.2 ho
      unfold lookup at this ⊢
      simp only [searchFirst, h1, h2, Bool.or_false, Bool.false_eq_true, if_false,
        List.getElem?_cons_succ]
      exact this

end Mltwist.Lemmas.Opcode
