import Mltwist.Lemmas.ComposeParse
import Mltwist.Model.Compose
import Mltwist.Props.C07
import Mltwist.Model.Startup
/-
COMPOSITION, part 2: the front end (C21) → basic blocks (C08) → the dependency model (C05/C06/C07,
`Model/Deps.lean`) → the emulator's code view (C03).

* `rawOf is`       what `deps.NewCode` receives for the parser's instructions (type bits, `Begin()`, `Len()`,
                   `Effects`): the `Raw` of C07;
* `wf_of_parse`    C21 ⇒ C08: the instructions of a tidy image that the parser accepts are well formed in the
                   sense of C08/C07 (`BasicBlock.Spec.WF (toBB raw)` = `Props.C07.WF raw`) and sorted;
* `inv_of_parse`   ⇒ C07: hence every code `deps.NewCode` builds from them satisfies `CInv`;
* `codeViewOf c`   the instructions of a `Deps.Code` in address order, as the emulator sees them
                   (`Begin()` = CURRENT address, `Len()`, `Effects()`);
* `instruction_exact` C07 ⇒ C03's `LookupExact`: `Code.Address` followed by `Block.Address` (the body of
                   `Emulator.instruction`) never panics and finds exactly `(codeViewOf c).lookup ip`, in every
                   state satisfying `CInv` (i.e. after any history of moves);
* `codeViewOf_newCode` before any move, the code view of the code built from the parser's instructions IS the
                   list of the parser's instructions (= C03's `liftCode` of the image, by `ComposeParse`).
-/
namespace Mltwist.Lemmas.Compose
open Mltwist Mltwist.Elf Mltwist.Parse Mltwist.Parse.Spec Mltwist.Deps Mltwist.Lemmas.Deps

/-! ### C21 → C08: well-formed input -/

-- `rawOf` (what `deps.NewCode` receives: C07's `Raw` of a `parser.Instruction`): `Model/Compose.lean`

/-- C07's `toBB` of `rawOf` is C26's `codeInput` mapped through C08's `mkIns`: the two start-up models hand the
same instructions to `basicblock.Parse` -/
theorem toBB_rawOf {δ : Type} (is : List (Parse.Ins δ)) :
    toBB (rawOf is) = (Startup.codeInput is).map fun (a, l, efs) => BasicBlock.mkIns a l efs := by
  simp only [toBB, rawOf, Startup.codeInput, List.map_map]
  rfl

theorem toBB_rawOf' {δ : Type} (is : List (Parse.Ins δ)) :
    toBB (rawOf is) = is.map fun i => BasicBlock.mkIns i.addr i.bytes.length i.effects := by
  simp only [toBB, rawOf, List.map_map]
  rfl

/-- strictly sorted, disjoint instructions of positive length below `2^64` are well formed (C08) and sorted -/
theorem wf_of_layout {δ : Type} (is : List (Parse.Ins δ))
    (h1 : ∀ i ∈ is, 0 < i.bytes.length ∧ i.addr + i.bytes.length ≤ 2 ^ 64)
    (h2 : is.Pairwise (fun x y => x.addr + x.bytes.length ≤ y.addr)) :
    BasicBlock.Spec.WF (toBB (rawOf is)) ∧ Lemmas.BasicBlock.SortedWF (toBB (rawOf is)) := by
  rw [toBB_rawOf']
  have hp : (is.map fun i => BasicBlock.mkIns i.addr i.bytes.length i.effects).Pairwise
      (fun a b => a.addr + a.len ≤ b.addr) := by
    rw [List.pairwise_map]
    exact h2
  have hm : ∀ i ∈ (is.map fun i => BasicBlock.mkIns i.addr i.bytes.length i.effects),
      0 < i.len ∧ i.addr + i.len ≤ 2 ^ 64 := by
    intro i hi
    obtain ⟨j, hj, rfl⟩ := List.mem_map.1 hi
    exact h1 j hj
  exact ⟨⟨hm, hp.imp Or.inl⟩, hm, hp⟩

/-- C21 ⇒ C08.  The instructions the parser returns for a tidy image (C20) are well formed in the sense of C08
(= the `WF` of C07) and already sorted by address. -/
theorem wf_of_parse {bs : List Elf.Block} (ht : Elf.Spec.Tidy bs)
    {is : List (Parse.Ins (Riscv.Entry × Riscv.Ins))} (h : parseRv64 bs = .ok is) :
    Props.C07.WF (rawOf is) ∧ Lemmas.BasicBlock.SortedWF (toBB (rawOf is)) := by
  have hta := (Props.C21.parse_ok_iff _ (Props.C21.rv_honest _) bs ht.1 is).1 h
  obtain ⟨l1, l2⟩ := tilingAll_layout hta ht
  refine wf_of_layout is ?_ l2
  intro i hi
  obtain ⟨g1, g2, _⟩ := l1 i hi
  rw [g1]
  omega

/-- sorting a strictly sorted list changes nothing -/
theorem sortIns_of_sorted (l : List BasicBlock.Ins) (hwf : BasicBlock.Spec.WF l)
    (hs : Lemmas.BasicBlock.SortedWF l) : BasicBlock.sortIns l = l :=
  List.Perm.eq_of_pairwise (le := fun a b => a.addr < b.addr) (fun a b _ _ hab hba => by omega)
    (Lemmas.BasicBlock.sortedWF_sortIns l hwf).addr_lt hs.addr_lt (Lemmas.BasicBlock.sortIns_perm l)

/-- C21 ⇒ C08 ⇒ C07: every code that `deps.NewCode` builds from the parser's instructions of a tidy image
satisfies the invariant of the dependency model -/
theorem inv_of_parse {bs : List Elf.Block} (ht : Elf.Spec.Tidy bs)
    {is : List (Parse.Ins (Riscv.Entry × Riscv.Ins))} (h : parseRv64 bs = .ok is) (entry : Nat) (c : Code)
    (hc : newCode entry (rawOf is) = .ok c) : CInv c :=
  Props.C07.inv_initial entry (rawOf is) (wf_of_parse ht h).1 c hc

/-! ### the code view of the dependency model -/

-- `emuOf`, `insOf`, `codeViewOf` (THE CODE VIEW of the dependency model): `Model/Compose.lean`

/-- the body of `Emulator.instruction` (`internal/emulator/emulator.go`): `code.Address(ip)`, then
`block.Address(ip)`; `none` = a Go panic, `some none` = the "cannot find …" error -/
def instruction (c : Code) (ip : Nat) : Option (Option Deps.Ins) :=
  match c.address ip with
  | none => none
  | some none => some none
  | some (some b) => b.address ip

theorem tilesI_mem (a : Nat) (l : List Deps.Ins) (h : TilesI a l) (i : Deps.Ins) (hi : i ∈ l) :
    a ≤ i.currAddr ∧ i.currAddr + i.len ≤ a + bytesI l ∧ 0 < i.len := by
  induction l generalizing a with
  | nil => cases hi
  | cons x xs ih =>
    rw [bytesI_cons]
    rcases List.mem_cons.1 hi with rfl | hi
    · have := h.1; have := h.2.1; exact ⟨by omega, by omega, by omega⟩
    · obtain ⟨g1, g2, g3⟩ := ih (a + x.len) h.2.2 hi
      exact ⟨by omega, by omega, g3⟩

/-- lookups in sorted, disjoint blocks: the first instruction at `a` in the concatenation is the instruction at
`a` of the block whose range contains `a` -/
theorem find_flatMap (a : Nat) (l : List Deps.Block) (hb : ∀ b ∈ l, BInv b)
    (hs : l.Pairwise (fun x y => x.begin + bytesI x.seq ≤ y.begin)) :
    (l.flatMap (·.seq)).find? (fun i => i.currAddr == a) =
      match l.find? (inBlock a) with
      | none => none
      | some b => b.seq.find? (fun i => i.currAddr == a) := by
  induction l with
  | nil => rfl
  | cons b rest ih =>
    have hs' := List.pairwise_cons.1 hs
    have ih' := ih (fun x hx => hb x (List.mem_cons_of_mem _ hx)) hs'.2
    have hbi := hb b (List.mem_cons_self ..)
    rw [List.flatMap_cons, List.find?_append, List.find?_cons]
    cases hin : inBlock a b with
    | true =>
      simp only
      cases hf : b.seq.find? (fun i => i.currAddr == a) with
      | some i => rfl
      | none =>
        simp only [Option.none_or]
        rw [List.find?_eq_none]
        intro i hi
        obtain ⟨b', hb', hi'⟩ := List.mem_flatMap.1 hi
        have := hs'.1 b' hb'
        obtain ⟨g1, _, _⟩ := tilesI_mem _ _ (hb b' (List.mem_cons_of_mem _ hb')).tiles i hi'
        simp only [inBlock, decide_eq_true_eq] at hin
        simp only [beq_iff_eq]
        omega
    | false =>
      simp only
      have hf : b.seq.find? (fun i => i.currAddr == a) = none := by
        rw [List.find?_eq_none]
        intro i hi
        obtain ⟨g1, g2, g3⟩ := tilesI_mem _ _ hbi.tiles i hi
        simp only [inBlock, decide_eq_false_iff_not] at hin
        simp only [beq_iff_eq]
        omega
      rw [hf, Option.none_or]
      exact ih'

/-- C07 ⇒ `LookupExact` on the instructions of the dependency model: in every state satisfying the invariant,
`Code.Address` + `Block.Address` do not panic and find exactly the first (= the only) instruction whose current
address is `ip` -/
theorem instruction_find (c : Code) (hc : CInv c) (ip : Nat) :
    instruction c ip = some ((insOf c).find? fun i => i.currAddr == ip) := by
  unfold instruction insOf
  rw [Props.C07.code_lookup_exact c hc ip, find_flatMap ip c.store hc.blocks hc.sorted]
  show (match (some (c.store.find? (inBlock ip)) : Option (Option Deps.Block)) with
    | none => none
    | some none => some none
    | some (some b) => b.address ip) = _
  cases hf : c.store.find? (inBlock ip) with
  | none => rfl
  | some b =>
    simp only
    exact Props.C07.block_lookup_exact b (hc.blocks b (List.mem_of_find?_eq_some hf)) ip

/-- THE BRIDGE C07 → C03 (`LookupExact` discharged): the lookup the emulator model performs on the code view
(`CodeView.lookup`: the instruction whose current address equals `ip`) is what `deps.Code.Address` followed by
`Block.Address` return on the real dependency model — after any history of moves (`CInv`) -/
theorem instruction_exact (c : Code) (hc : CInv c) (ip : Nat) :
    (instruction c ip).map (·.map emuOf) = some ((codeViewOf c).lookup ip) := by
  rw [instruction_find c hc ip]
  simp only [codeViewOf, Emulator.CodeView.lookup, List.find?_map, Option.map_some]
  rfl

/-- never a panic in `Emulator.instruction` -/
theorem instruction_no_panic (c : Code) (hc : CInv c) (ip : Nat) : instruction c ip ≠ none := by
  rw [instruction_find c hc ip]; exact fun h => by cases h

theorem lookup_none_iff (c : Code) (hc : CInv c) (ip : Nat) :
    (codeViewOf c).lookup ip = none ↔ instruction c ip = some none := by
  have := instruction_exact c hc ip
  cases hi : instruction c ip with
  | none => exact absurd hi (instruction_no_panic c hc ip)
  | some r =>
    rw [hi] at this
    cases r with
    | none => simp only [Option.map_some, Option.map_none, Option.some.injEq] at this; simp [← this]
    | some i => simp only [Option.map_some, Option.some.injEq] at this; simp [← this]

theorem lookup_some_iff (c : Code) (hc : CInv c) (ip : Nat) (e : Emulator.Ins) :
    (codeViewOf c).lookup ip = some e ↔ ∃ i, instruction c ip = some (some i) ∧ emuOf i = e := by
  have := instruction_exact c hc ip
  cases hi : instruction c ip with
  | none => exact absurd hi (instruction_no_panic c hc ip)
  | some r =>
    rw [hi] at this
    cases r with
    | none => simp only [Option.map_some, Option.map_none, Option.some.injEq] at this; simp [← this]
    | some i => simp only [Option.map_some, Option.some.injEq] at this; simp [← this]

/-! ### the code view before any move is the list of the parser's instructions -/

/-- the fields `deps.NewCode` copies from its input -/
def stripped (i : Deps.Ins) : Props.C07.Raw := (i.typ, i.origAddr, i.len, i.effects)

theorem stripped_indexFrom (k : Nat) (l : List Deps.Ins) : (indexFrom k l).map stripped = l.map stripped := by
  induction l generalizing k with
  | nil => rfl
  | cons x xs ih => simp only [indexFrom, List.map_cons, ih]; rfl

theorem newBlocks_seqs (k : Nat) (ls : List (List Deps.Ins)) (bs : List Deps.Block)
    (h : newBlocks k ls = some bs) : bs.map (·.seq) = ls.map (indexFrom 0) := by
  induction ls generalizing k bs with
  | nil =>
    simp only [newBlocks, Option.some.injEq] at h
    subst h
    rfl
  | cons l rest ih =>
    cases hb : newBlock k l with
    | none => simp [newBlocks, hb] at h
    | some b =>
      cases hbs : newBlocks (k + 1) rest with
      | none => simp [newBlocks, hb, hbs] at h
      | some bs' =>
        simp only [newBlocks, hb, hbs, Option.some.injEq] at h
        subst h
        obtain ⟨x, xs, E, _, _, rfl⟩ := newBlock_eq k l b hb
        simp only [List.map_cons, ih (k + 1) bs' hbs]

theorem find_of_distinct (ins : List Deps.Ins)
    (hd : ins.Pairwise fun a b => a.origAddr ≠ b.origAddr) (x : Deps.Ins) (hx : x ∈ ins) :
    findRaw ins (proj x) = some x := by
  induction ins with
  | nil => cases hx
  | cons i0 rest ih =>
    have hd' := List.pairwise_cons.1 hd
    simp only [findRaw, List.find?_cons, proj]
    rcases List.mem_cons.1 hx with rfl | hx
    · simp
    · have hne : i0.origAddr ≠ x.origAddr := hd'.1 x hx
      have hb : (i0.origAddr == x.origAddr) = false := by simpa using hne
      rw [hb]
      exact ih hd'.2 hx

theorem filterMap_findRaw_all (ins : List Deps.Ins)
    (hd : ins.Pairwise fun a b => a.origAddr ≠ b.origAddr) :
    (ins.map proj).filterMap (findRaw ins) = ins := by
  rw [List.filterMap_map]
  have : ∀ l : List Deps.Ins, (∀ x ∈ l, x ∈ ins) → l.filterMap (findRaw ins ∘ proj) = l := by
    intro l
    induction l with
    | nil => intro _; rfl
    | cons x xs ih =>
      intro hl
      rw [List.filterMap_cons]
      simp only [Function.comp, find_of_distinct ins hd x (hl x (List.mem_cons_self ..))]
      rw [ih (fun y hy => hl y (List.mem_cons_of_mem _ hy))]
  exact this ins (fun _ h => h)

theorem flatten_map_filterMap {α β γ : Type} (f : α → Option β) (g : β → γ) (ls : List (List α)) :
    (ls.map fun s => (s.filterMap f).map g).flatten = (ls.flatten.filterMap f).map g := by
  induction ls with
  | nil => rfl
  | cons l rest ih => simp only [List.map_cons, List.flatten_cons, List.filterMap_append, List.map_append, ih]

theorem rawIns_stripped (raw : List Props.C07.Raw) : (rawIns raw).map stripped = raw := by
  simp only [rawIns, List.map_map]
  have : (stripped ∘ fun (x : Props.C07.Raw) => newInstruction x.1 x.2.1 x.2.2.1 x.2.2.2) = id := by
    funext x
    rfl
  exact (List.map_congr_left (fun x _ => congrFun this x)).trans (List.map_id _)

/-- `deps.NewCode` on well-formed, sorted input keeps every instruction, in the given order, with its type,
address, length and effects; all current addresses are the original ones -/
theorem newCode_instructions (entry : Nat) (raw : List Props.C07.Raw) (hwf : Props.C07.WF raw)
    (hs : Lemmas.BasicBlock.SortedWF (toBB raw)) (c : Code) (h : newCode entry raw = .ok c) :
    (insOf c).map stripped = raw ∧ ∀ i ∈ insOf c, i.currAddr = i.origAddr := by
  obtain ⟨_, _, _, hfresh⟩ := newCode_inv entry raw hwf c h
  refine ⟨?_, ?_⟩
  · rw [newCode_unfold] at h
    cases hp : BasicBlock.parse entry (toBB raw) with
    | error e => rw [hp] at h; cases h
    | ok seqs =>
      rw [hp] at h
      simp only [Except.bind] at h
      cases hnb : newBlocks 0 (seqs.map fun s => s.filterMap (findRaw (rawIns raw))) with
      | none => rw [hnb] at h; cases h
      | some bs =>
        rw [hnb] at h
        simp only [Except.ok.injEq] at h
        subst h
        obtain ⟨⟨hfl, _, _⟩, _⟩ := Props.C08.parse_partition entry (toBB raw) hwf seqs hp
        rw [← Lemmas.BasicBlock.sortIns_eq_sortByAddr _ hwf, sortIns_of_sorted _ hwf hs] at hfl
        have hseqs := newBlocks_seqs 0 _ bs hnb
        have hd : (rawIns raw).Pairwise fun a b => a.origAddr ≠ b.origAddr := by
          have := wf_addr_distinct _ hwf
          rw [← rawIns_proj, List.pairwise_map] at this
          exact this
        show (bs.flatMap (·.seq)).map stripped = raw
        rw [List.flatMap_def, hseqs, List.map_map, List.map_flatten, List.map_map]
        have e1 : (List.map stripped ∘ indexFrom 0 ∘ fun s => List.filterMap (findRaw (rawIns raw)) s)
            = fun s => (s.filterMap (findRaw (rawIns raw))).map stripped := by
          funext s
          exact stripped_indexFrom 0 _
        rw [e1, flatten_map_filterMap, hfl, ← rawIns_proj, filterMap_findRaw_all _ hd, rawIns_stripped]
  · intro i hi
    obtain ⟨b, hb, hib⟩ := List.mem_flatMap.1 hi
    exact (hfresh b hb).orig i hib

/-- the raw instruction as the emulator sees it -/
def emuOfRaw (r : Props.C07.Raw) : Emulator.Ins := ⟨r.2.1, r.2.2.1, r.2.2.2⟩

/-- THE BRIDGE C21/C08/C07 → C03: before any move, the code view of the code `deps.NewCode` builds from the
parser's instructions of a tidy image is exactly the list of those instructions — which is C03's `liftCode` of
the image -/
theorem codeViewOf_newCode {bs : List Elf.Block} (ht : Elf.Spec.Tidy bs)
    {is : List (Parse.Ins (Riscv.Entry × Riscv.Ins))} (h : parseRv64 bs = .ok is) (entry : Nat) (c : Code)
    (hc : newCode entry (rawOf is) = .ok c) :
    codeViewOf c = is.map toEmu ∧ Emulator.liftCode bs = some (codeViewOf c) := by
  obtain ⟨hwf, hs⟩ := wf_of_parse ht h
  obtain ⟨h1, h2⟩ := newCode_instructions entry (rawOf is) hwf hs c hc
  have e : codeViewOf c = is.map toEmu := by
    have e1 : codeViewOf c = ((insOf c).map stripped).map emuOfRaw := by
      rw [List.map_map]
      apply List.map_congr_left
      intro i hi
      simp only [Function.comp, emuOf, emuOfRaw, stripped, h2 i hi]
    rw [e1, h1, rawOf, List.map_map]
    rfl
  exact ⟨e, by rw [e]; exact liftCode_of_parse ht.1 h⟩

end Mltwist.Lemmas.Compose
