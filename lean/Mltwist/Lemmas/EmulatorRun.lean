import Mltwist.Lemmas.EmulatorStep
/-
Emulator (C03, C04), part 9: runs.  The invariant `Ready` (state invariant + a known instruction
pointer) is preserved by every step — also by a step that fails with the access error (REPAIR F45:
`step_ready_total`, `run_total`: no domain hypothesis); along a whole run no state is requested twice, every request is
for state the emulator did not know when the run began and has never learnt since, and everything
requested is known from then on; reads of known state return the state's value without a request;
the program's writes are the only thing that changes a value.
-/
namespace Mltwist.Lemmas.Emulator
open Mltwist Mltwist.State Mltwist.Overlay Mltwist.Emulator Mltwist.Spec.Overlay Mltwist.Interval
open Mltwist.Lemmas.State (Good assocGet_set_same assocGet_set_other)

/-- the emulator can step: the invariant holds and the instruction pointer is known -/
structure Ready (s : State) : Prop where
  inv : Inv s
  ip : assocGet ipKey s.regs ≠ none

theorem Ready.ipConst {s : State} (h : Ready s) : ∃ c, assocGet ipKey s.regs = some (.const c) := by
  cases hg : assocGet ipKey s.regs with
  | none => exact absurd hg h.ip
  | some e =>
    obtain ⟨c, rfl⟩ := h.inv.regs ipKey e hg
    exact ⟨c, rfl⟩

/-- `emulator.New` on a state satisfying the invariant -/
theorem ready_new {s : State} (h : Inv s) (ip : Nat) : Ready (Emulator.new ip s) := by
  refine ⟨inv_regStore h _ ipKey addrWidth, ?_⟩
  show assocGet ipKey (RegMap.store _ _ _ _) ≠ none
  unfold RegMap.store
  rw [assocGet_set_same]
  simp

/-- the emulator knows what the request is about -/
def KnownReq (s : State) : Req → Prop
  | .reg key _ => assocGet key s.regs ≠ none
  | .mem key a w => ∀ i, i < w → s.mems.abs key (a + i) ≠ none

theorem known_of_supplied {p : Provider} {s : State} {r : Req} (h : Supplied p s r) : KnownReq s r := by
  cases r with
  | reg key w =>
    show assocGet key s.regs ≠ none
    rw [show assocGet key s.regs = some _ from h]; simp
  | mem key a w =>
    intro i hi
    obtain ⟨b, hb, _⟩ := h i hi
    rw [hb]; simp

theorem disjoint_of_known_unknown {s : State} {r r' : Req} (h1 : KnownReq s r) (h2 : Unknown s r')
    (hw : ∀ key a w, r = .mem key a w → 1 ≤ w) : Req.Disjoint r r' := by
  cases r with
  | reg k w =>
    cases r' with
    | reg k' w' =>
      intro hk
      subst hk
      exact h1 h2
    | mem k' a' w' => trivial
  | mem k a w =>
    cases r' with
    | reg k' w' => trivial
    | mem k' a' w' =>
      show k ≠ k' ∨ a + w ≤ a' ∨ a' + w' ≤ a
      by_cases hk : k = k'
      · subst hk
        right
        by_cases hc : a + w ≤ a' ∨ a' + w' ≤ a
        · exact hc
        · exfalso
          have hw1 := hw k a w rfl
          have hw2 := h2.1.1
          let x := max a a'
          have hx1 : a ≤ x ∧ x < a + w := by omega
          have hx2 : a' ≤ x ∧ x < a' + w' := by omega
          have hk1 := h1 (x - a) (by omega)
          have hk2 := h2.2 (x - a') (by omega)
          rw [show a + (x - a) = x by omega] at hk1
          rw [show a' + (x - a') = x by omega] at hk2
          exact hk1 hk2
      · exact Or.inl hk

/-- what is known after the fills is known after the program's writes and the fall-through -/
theorem known_after {s1 s2 : State} {efs : List Effect} (ha : Applied s1 efs s2) (hi : Inv s1) (ins : Ins) (j : Bool)
    {r : Req} (h : KnownReq s1 r) : KnownReq (finish ins j s2) r := by
  cases r with
  | reg key w =>
    have h2 : assocGet key s2.regs ≠ none := ha.reg_known key h
    show assocGet key (finish ins j s2).regs ≠ none
    unfold finish
    split
    · exact h2
    · show assocGet key (RegMap.store _ _ _ _) ≠ none
      unfold RegMap.store
      by_cases he : key = ipKey
      · subst he; rw [assocGet_set_same]; simp
      · rw [assocGet_set_other ipKey key _ he]; exact h2
  | mem key a w =>
    intro i hi'
    have h2 := ha.byte_known hi key (a + i) (h i hi')
    unfold finish
    split <;> exact h2

/-- what is unknown later was unknown before: knowledge only grows along fills, writes and the
fall-through -/
theorem unknown_before {p : Provider} {s s1 s2 : State} {l : List Req} {efs : List Effect}
    (hf : Fill p s l s1) (hi : Inv s) (ha : Applied s1 efs s2) (ins : Ins) (j : Bool) {r : Req}
    (h : Unknown (finish ins j s2) r) : Unknown s r := by
  have hi1 := hf.inv hi
  cases r with
  | reg key w =>
    show assocGet key s.regs = none
    cases hg : assocGet key s.regs with
    | none => rfl
    | some e =>
      have h1 : KnownReq s1 (.reg key w) := by
        show assocGet key s1.regs ≠ none
        rw [hf.rext key e hg]; simp
      exact absurd h (known_after ha hi1 ins j h1)
  | mem key a w =>
    refine ⟨h.1, fun i hi' => ?_⟩
    cases hg : s.mems.abs key (a + i) with
    | none => rfl
    | some b =>
      have h1 : s1.mems.abs key (a + i) ≠ none := by rw [hf.mext hi key _ b hg]; simp
      have h2 := ha.byte_known hi1 key (a + i) h1
      have h3 : (finish ins j s2).mems.abs key (a + i) = none := h.2 i hi'
      have h4 : (finish ins j s2).mems = s2.mems := by unfold finish; split <;> rfl
      rw [h4] at h3
      exact absurd h3 h2

/-! ### runs -/

/-- every instruction of the code is well formed -/
def CodeWF (code : CodeView) : Prop := ∀ ins ∈ code, InsWF ins

theorem lookup_mem {code : CodeView} {ip : Nat} {ins : Ins} (h : code.lookup ip = some ins) : ins ∈ code :=
  List.mem_of_find?_eq_some h

/-- all memory accesses of the first `n` steps from `s` lie in the domain of C14 -/
def RunDom (p : Provider) (code : CodeView) : Nat → State → Prop
  | 0, _ => True
  | n + 1, s =>
    (∀ c ins, assocGet ipKey s.regs = some (.const c) → code.lookup (leToNat c % 2 ^ 64) = some ins →
      StepDom p code s ins) ∧
    ∀ s' rep log, step p code s = .ok s' rep log → RunDom p code n s'

/-- one step from a ready state: an error iff no instruction starts at the instruction pointer,
otherwise success into a ready state; never a panic -/
theorem step_ready (p : Provider) (code : CodeView) {s : State} (hr : Ready s) (hw : CodeWF code)
    (hd : ∀ c ins, assocGet ipKey s.regs = some (.const c) → code.lookup (leToNat c % 2 ^ 64) = some ins →
      StepDom p code s ins) :
    ∃ c, assocGet ipKey s.regs = some (.const c) ∧
      match code.lookup (leToNat c % 2 ^ 64) with
      | none => step p code s = .err
      | some ins => ∃ s1 s2 log rep,
          step p code s = .ok (finish ins (ins.effects.any isJump) s2) rep log ∧
          Fill p s log s1 ∧ Applied s1 (ins.effects.map (evalEff s1)) s2 ∧
          Ready (finish ins (ins.effects.any isJump) s2) := by
  obtain ⟨c, hc⟩ := hr.ipConst
  refine ⟨c, hc, ?_⟩
  cases hl : code.lookup (leToNat c % 2 ^ 64) with
  | none =>
    show step p code s = .err
    unfold step
    rw [mustIP_spec hc]
    simp only [hl]
  | some ins =>
    obtain ⟨s1, s2, log, rep, h1, h2, h3, h4, h5, _⟩ :=
      step_ok p code hr.inv hc hl (hw ins (lookup_mem hl)) (hd c ins hc hl)
    refine ⟨s1, s2, log, rep, h1, h2, h4, inv_finish h5, ip_finish (h4.reg_known ipKey ?_)⟩
    rw [h2.rext ipKey _ hc]; simp

/-- C04 over whole runs: the provider log of the first `n` steps -/
theorem run_log (p : Provider) (code : CodeView) (hw : CodeWF code) : ∀ (n : Nat) (s : State), Ready s →
    RunDom p code n s →
    Ready (run p code n s).2 ∧
    (∀ o ∈ (run p code n s).1, match o with | .panic _ => False | _ => True) ∧
    (logOf (run p code n s).1).Pairwise Req.Disjoint ∧
    (∀ r ∈ logOf (run p code n s).1, Unknown s r ∧ KnownReq (run p code n s).2 r)
  | 0, s, hr, _ => ⟨hr, fun _ h => (nomatch h), List.Pairwise.nil, fun _ h => (nomatch h)⟩
  | n + 1, s, hr, hd => by
    obtain ⟨c, hc, hstep⟩ := step_ready p code hr hw hd.1
    cases hl : code.lookup (leToNat c % 2 ^ 64) with
    | none =>
      rw [hl] at hstep
      have hrun : run p code (n + 1) s = ([.err], s) := by
        simp only [run, show step p code s = .err from hstep]
      rw [hrun]
      refine ⟨hr, ?_, List.Pairwise.nil, fun _ h => (nomatch h)⟩
      intro o ho
      simp only [List.mem_singleton] at ho
      subst ho
      trivial
    | some ins =>
      rw [hl] at hstep
      obtain ⟨s1, s2, log, rep, h1, hf, ha, hr'⟩ := hstep
      obtain ⟨g1, g2, g3, g4⟩ := run_log p code hw n _ hr' (hd.2 _ rep log h1)
      have hrun : run p code (n + 1) s =
          (.ok (finish ins (ins.effects.any isJump) s2) rep log ::
            (run p code n (finish ins (ins.effects.any isJump) s2)).1,
           (run p code n (finish ins (ins.effects.any isJump) s2)).2) := by
        simp only [run, h1]
      rw [hrun]
      have hi1 := hf.inv hr.inv
      have hsup := hf.supplied hr.inv
      refine ⟨g1, ?_, ?_, ?_⟩
      · intro o ho
        rcases List.mem_cons.1 ho with h | h
        · subst h; trivial
        · exact g2 o h
      · show (log ++ logOf _).Pairwise Req.Disjoint
        rw [List.pairwise_append]
        refine ⟨hf.pairwise hr.inv, g3, fun r hr1 r' hr2 => ?_⟩
        have hk : KnownReq (finish ins (ins.effects.any isJump) s2) r :=
          known_after ha hi1 ins _ (known_of_supplied (hsup r hr1))
        refine disjoint_of_known_unknown hk (g4 r' hr2).1 ?_
        intro key a w he
        subst he
        exact (hf.unknown hr.inv _ hr1).1.1
      · intro r hr0
        show Unknown s r ∧ KnownReq _ r
        rcases List.mem_append.1 (show r ∈ log ++ logOf _ from hr0) with h | h
        · refine ⟨hf.unknown hr.inv r h, ?_⟩
          -- known after the step, hence known at the end of the run: the rest of the run cannot
          -- request it (it would have to be unknown), and knowledge only grows; we use the run invariant
          have hk : KnownReq (finish ins (ins.effects.any isJump) s2) r :=
            known_after ha hi1 ins _ (known_of_supplied (hsup r h))
          exact run_known p code hw n _ hr' (hd.2 _ rep log h1) hk
        · exact ⟨unknown_before hf hr.inv ha ins _ (g4 r h).1, (g4 r h).2⟩
where
  /-- what is known stays known along a run -/
  run_known (p : Provider) (code : CodeView) (hw : CodeWF code) : ∀ (n : Nat) (s : State), Ready s →
      RunDom p code n s → ∀ {r : Req}, KnownReq s r → KnownReq (run p code n s).2 r
    | 0, s, _, _, _, h => h
    | n + 1, s, hr, hd, r, h => by
      obtain ⟨c, hc, hstep⟩ := step_ready p code hr hw hd.1
      cases hl : code.lookup (leToNat c % 2 ^ 64) with
      | none =>
        rw [hl] at hstep
        have hrun : run p code (n + 1) s = ([.err], s) := by
          simp only [run, show step p code s = .err from hstep]
        rw [hrun]; exact h
      | some ins =>
        rw [hl] at hstep
        obtain ⟨s1, s2, log, rep, h1, hf, ha, hr'⟩ := hstep
        have hrun : (run p code (n + 1) s).2 = (run p code n (finish ins (ins.effects.any isJump) s2)).2 := by
          simp only [run, h1]
        rw [hrun]
        apply run_known p code hw n _ hr' (hd.2 _ rep log h1)
        apply known_after ha (hf.inv hr.inv) ins _
        cases r with
        | reg key w =>
          show assocGet key s1.regs ≠ none
          cases hg : assocGet key s.regs with
          | none => exact absurd hg h
          | some e => rw [hf.rext key e hg]; simp
        | mem key a w =>
          intro i hi'
          cases hg : s.mems.abs key (a + i) with
          | none => exact absurd hg (h i hi')
          | some b => rw [hf.mext hr.inv key _ b hg]; simp

/-! ### runs, whatever the accesses (REPAIR F45) -/

/-- every store of the code has a width between 1 and 255 -/
def CodeSW (code : CodeView) : Prop := ∀ ins ∈ code, InsSW ins

/-- ONE STEP FROM A READY STATE, WHATEVER THE PROVIDER ANSWERS AND WHATEVER THE INSTRUCTION ACCESSES: never a panic.
The error iff no instruction starts at the instruction pointer; otherwise success into a ready state, or the
access error: an access `[a, a+w)` of the instruction does not fit the address space (the step is outside
`StepDom`), and the state `s1` the emulator is left in results from `s` by the provider calls `log` of the failed
step only (`Fill`: each for state unknown at its moment, its answer stored) — no effect of the instruction was
applied, the instruction pointer is the same constant — and is ready again -/
theorem step_ready_total (p : Provider) (code : CodeView) {s : State} (hr : Ready s) (hw : CodeWF code)
    (hs : CodeSW code) :
    ∃ c, assocGet ipKey s.regs = some (.const c) ∧
      match code.lookup (leToNat c % 2 ^ 64) with
      | none => step p code s = .err
      | some ins =>
        (∃ s1 s2 log rep,
          step p code s = .ok (finish ins (ins.effects.any isJump) s2) rep log ∧
          Fill p s log s1 ∧ Applied s1 (ins.effects.map (evalEff s1)) s2 ∧
          Ready (finish ins (ins.effects.any isJump) s2)) ∨
        (∃ s1 log a w, step p code s = .accessErr s1 log a w ∧ Fill p s log s1 ∧ Ready s1 ∧
          assocGet ipKey s1.regs = some (.const c) ∧ 2 ^ 64 ≤ a + w ∧ ¬ StepDom p code s ins) := by
  obtain ⟨c, hc⟩ := hr.ipConst
  refine ⟨c, hc, ?_⟩
  cases hl : code.lookup (leToNat c % 2 ^ 64) with
  | none =>
    show step p code s = .err
    unfold step
    rw [mustIP_spec hc]
    simp only [hl]
  | some ins =>
    rcases step_total p code hr.inv hc hl (hw ins (lookup_mem hl)) (hs ins (lookup_mem hl)) with
      ⟨s1, s2, log, rep, h1, h2, h3, h4, h5, _⟩ | ⟨s1, log, a, w, h1, h2, h3, h4, h5⟩
    · refine Or.inl ⟨s1, s2, log, rep, h1, h2, h4, inv_finish h5, ip_finish (h4.reg_known ipKey ?_)⟩
      rw [h2.rext ipKey _ hc]; simp
    · have hip := h2.rext ipKey _ hc
      exact Or.inr ⟨s1, log, a, w, h1, h2, ⟨h3, by rw [hip]; simp⟩, hip, h4, h5⟩

/-- what is known stays known along a run, whatever the accesses -/
theorem run_known_total (p : Provider) (code : CodeView) (hw : CodeWF code) (hs : CodeSW code) :
    ∀ (n : Nat) (s : State), Ready s → ∀ {r : Req}, KnownReq s r → KnownReq (run p code n s).2 r
  | 0, s, _, _, h => h
  | n + 1, s, hr, r, h => by
    -- what is known is still known after the provider fills
    have hfill : ∀ {s1 : State} {log : List Req}, Fill p s log s1 → KnownReq s1 r := by
      intro s1 log hf
      cases r with
      | reg key w =>
        show assocGet key s1.regs ≠ none
        cases hg : assocGet key s.regs with
        | none => exact absurd hg h
        | some e => rw [hf.rext key e hg]; simp
      | mem key a w =>
        intro i hi'
        cases hg : s.mems.abs key (a + i) with
        | none => exact absurd hg (h i hi')
        | some b => rw [hf.mext hr.inv key _ b hg]; simp
    obtain ⟨c, hc, hstep⟩ := step_ready_total p code hr hw hs
    cases hl : code.lookup (leToNat c % 2 ^ 64) with
    | none =>
      rw [hl] at hstep
      have hrun : run p code (n + 1) s = ([.err], s) := by
        simp only [run, show step p code s = .err from hstep]
      rw [hrun]; exact h
    | some ins =>
      rw [hl] at hstep
      rcases hstep with ⟨s1, s2, log, rep, h1, hf, ha, hr'⟩ | ⟨s1, log, a, w, h1, hf, hr', _⟩
      · have hrun : (run p code (n + 1) s).2 = (run p code n (finish ins (ins.effects.any isJump) s2)).2 := by
          simp only [run, h1]
        rw [hrun]
        exact run_known_total p code hw hs n _ hr' (known_after ha (hf.inv hr.inv) ins _ (hfill hf))
      · have hrun : (run p code (n + 1) s).2 = s1 := by
          simp only [run, h1]
        rw [hrun]
        exact hfill hf

/-- C03 (never a panic) and C04 (the provider log) over whole runs, WHATEVER THE ACCESSES: the conclusions of
`run_log` without the domain hypothesis `RunDom`.  A run ends with the first error — no instruction at the
instruction pointer, or an access that leaves the address space; the provider calls of such a failed last step
belong to the log, and the claims hold for them as well -/
theorem run_total (p : Provider) (code : CodeView) (hw : CodeWF code) (hs : CodeSW code) :
    ∀ (n : Nat) (s : State), Ready s →
    Ready (run p code n s).2 ∧
    (∀ o ∈ (run p code n s).1, match o with | .panic _ => False | _ => True) ∧
    (logOf (run p code n s).1).Pairwise Req.Disjoint ∧
    (∀ r ∈ logOf (run p code n s).1, Unknown s r ∧ KnownReq (run p code n s).2 r)
  | 0, s, hr => ⟨hr, fun _ h => (nomatch h), List.Pairwise.nil, fun _ h => (nomatch h)⟩
  | n + 1, s, hr => by
    obtain ⟨c, hc, hstep⟩ := step_ready_total p code hr hw hs
    cases hl : code.lookup (leToNat c % 2 ^ 64) with
    | none =>
      rw [hl] at hstep
      have hrun : run p code (n + 1) s = ([.err], s) := by
        simp only [run, show step p code s = .err from hstep]
      rw [hrun]
      refine ⟨hr, ?_, List.Pairwise.nil, fun _ h => (nomatch h)⟩
      intro o ho
      simp only [List.mem_singleton] at ho
      subst ho
      trivial
    | some ins =>
      rw [hl] at hstep
      rcases hstep with ⟨s1, s2, log, rep, h1, hf, ha, hr'⟩ | ⟨s1, log, a, w, h1, hf, hr', _⟩
      · obtain ⟨g1, g2, g3, g4⟩ := run_total p code hw hs n _ hr'
        have hrun : run p code (n + 1) s =
            (.ok (finish ins (ins.effects.any isJump) s2) rep log ::
              (run p code n (finish ins (ins.effects.any isJump) s2)).1,
             (run p code n (finish ins (ins.effects.any isJump) s2)).2) := by
          simp only [run, h1]
        rw [hrun]
        have hi1 := hf.inv hr.inv
        have hsup := hf.supplied hr.inv
        refine ⟨g1, ?_, ?_, ?_⟩
        · intro o ho
          rcases List.mem_cons.1 ho with h | h
          · subst h; trivial
          · exact g2 o h
        · show (log ++ logOf _).Pairwise Req.Disjoint
          rw [List.pairwise_append]
          refine ⟨hf.pairwise hr.inv, g3, fun r hr1 r' hr2 => ?_⟩
          have hk : KnownReq (finish ins (ins.effects.any isJump) s2) r :=
            known_after ha hi1 ins _ (known_of_supplied (hsup r hr1))
          refine disjoint_of_known_unknown hk (g4 r' hr2).1 ?_
          intro key a w he
          subst he
          exact (hf.unknown hr.inv _ hr1).1.1
        · intro r hr0
          show Unknown s r ∧ KnownReq _ r
          rcases List.mem_append.1 (show r ∈ log ++ logOf _ from hr0) with h | h
          · refine ⟨hf.unknown hr.inv r h, ?_⟩
            have hk : KnownReq (finish ins (ins.effects.any isJump) s2) r :=
              known_after ha hi1 ins _ (known_of_supplied (hsup r h))
            exact run_known_total p code hw hs n _ hr' hk
          · exact ⟨unknown_before hf hr.inv ha ins _ (g4 r h).1, (g4 r h).2⟩
      · -- the run ends with the access error: the provider calls of the failed step are the rest of the log
        have hrun : run p code (n + 1) s = ([.accessErr s1 log a w], s1) := by
          simp only [run, h1]
        rw [hrun]
        refine ⟨hr', ?_, ?_, ?_⟩
        · intro o ho
          simp only [List.mem_singleton] at ho
          subst ho
          trivial
        · show (log ++ []).Pairwise Req.Disjoint
          rw [List.append_nil]
          exact hf.pairwise hr.inv
        · intro r hr0
          have hr1 : r ∈ log := by simpa [logOf] using hr0
          exact ⟨hf.unknown hr.inv r hr1, known_of_supplied (hf.supplied hr.inv r hr1)⟩

/-! ### a request at its moment; reads of known state; values until overwritten -/

/-- every request of a fill sequence, at its moment: the state reached by the earlier requests does not
know what is requested, and the state after it holds the supplied value -/
theorem Fill.split {p : Provider} {s s' : State} {l1 l2 : List Req} {r : Req}
    (hf : Fill p s (l1 ++ r :: l2) s') (hi : Inv s) :
    ∃ sm sm', Fill p s l1 sm ∧ Unknown sm r ∧ Fill p sm [r] sm' ∧ Supplied p sm' r ∧ Fill p sm' l2 s' := by
  induction l1 generalizing s with
  | nil =>
    cases hf with
    | reg key w hn hf' =>
      exact ⟨s, _, Fill.nil s, hn, Fill.single_reg hn, supplied_fillReg p s key w, hf'⟩
    | mem key a w mems' hd ha hs hf' =>
      exact ⟨s, _, Fill.nil s, ⟨hd, ha⟩, Fill.mem key a w mems' hd ha hs (Fill.nil _),
        supplied_store hi.good hd hs, hf'⟩
  | cons x l1 ih =>
    cases hf with
    | reg key w hn hf' =>
      obtain ⟨sm, sm', g1, g2, g3, g4, g5⟩ := ih hf' (inv_fillReg hi key w)
      exact ⟨sm, sm', Fill.reg key w hn g1, g2, g3, g4, g5⟩
    | mem key a w mems' hd ha hs hf' =>
      obtain ⟨sm, sm', g1, g2, g3, g4, g5⟩ := ih hf' (inv_store hi hd (withWidth_byteConst _ hd) hs)
      exact ⟨sm, sm', Fill.mem key a w mems' hd ha hs g1, g2, g3, g4, g5⟩

/-- a read of a known register returns the value the state holds (adjusted to the read width) and asks
nothing -/
theorem regValue_known (p : Provider) (code : CodeView) (c : Ctx) (key : String) (w : Nat) (v : List UInt8)
    (h : assocGet key c.st.regs = some (.const v)) : regValue p code c key w = .ok (cw v w, c) := by
  unfold regValue
  rw [load_const h]

/-- a read of a range all of whose bytes are known returns the little-endian value of the bytes the state
holds and asks nothing -/
theorem memValue_known (p : Provider) (c : Ctx) (key : String) (addr w : Nat) (hi : Inv c.st) (hd : InDom addr w)
    (hp : ∀ i, i < w → c.st.mems.abs key (addr + i) ≠ none) :
    ∃ v, memValue p c key addr w = .ok (v, c) ∧ v.length = w ∧
      ∀ ρ, leToNat v = loadVal ρ (c.st.mems.abs key) addr w := by
  have hl := laws_of_inv hi key
  obtain ⟨r, h1, h2, h3⟩ := hl.load addr w hd
  have h1' : c.st.mems.load key addr w = .ok r := h1
  cases r with
  | none => exact absurd (h2.2 hp) (by simp)
  | some e =>
    obtain ⟨hw, hv⟩ := h3 e rfl
    obtain ⟨v, hf, _, hlen, hval⟩ := foldConst_shape (memmap_shape hi.good.1 hi.mems hd h1')
    refine ⟨v, ?_, by rw [hlen, hw], fun ρ => by rw [hval ρ, hv ρ]⟩
    unfold memValue
    rw [accessBad_false hd.2.2, h1']
    simp only [hf, Bool.false_eq_true, if_false]

/-- the fall-through only writes the instruction pointer -/
theorem finish_reg_frame (ins : Ins) (j : Bool) (s : State) {k : String} (hk : k ≠ ipKey) :
    assocGet k (finish ins j s).regs = assocGet k s.regs := by
  unfold finish
  split
  · rfl
  · show assocGet k (RegMap.store _ _ _ _) = _
    unfold RegMap.store
    exact assocGet_set_other ipKey k _ hk _

theorem finish_mems (ins : Ins) (j : Bool) (s : State) : (finish ins j s).mems = s.mems := by
  unfold finish; split <;> rfl

theorem writtenRegs_map (s : State) (efs : List Effect) :
    writtenRegs (efs.map (evalEff s)) = writtenRegs efs := by
  induction efs with
  | nil => rfl
  | cons ef efs ih => cases ef <;> simp [writtenRegs, evalEff, ih]

/-- after a step, everything the fills left in the state and the program did not write is still there
with its value: registers other than the written ones and the instruction pointer, bytes outside the
stored ranges -/
theorem step_keeps {s1 s2 : State} {efs : List Effect} (ha : Applied s1 (efs.map (evalEff s1)) s2) (hi : Inv s1)
    (ins : Ins) (j : Bool) :
    (∀ k e, assocGet k s1.regs = some e → k ∉ writtenRegs efs → k ≠ ipKey →
      assocGet k (finish ins j s2).regs = some e) ∧
    (∀ key x b, s1.mems.abs key x = some b → ¬ WrittenByte key x (efs.map (evalEff s1)) →
      (finish ins j s2).mems.abs key x = some b) := by
  constructor
  · intro k e hk hw hip
    rw [finish_reg_frame ins j s2 hip, ha.reg_frame k (by rw [writtenRegs_map]; exact hw)]
    exact hk
  · intro key x b hk hw
    rw [finish_mems, ha.byte_frame hi key x hw]
    exact hk

/-- the state `cmd/mltwist` starts an emulation from: pre-set constant registers, the program image
as a byte memory under an empty sparse memory -/
def toolState (pre : List (String × List UInt8)) (bs : List BytesMem.Block) : State :=
  { regs := pre.foldl (fun (m : RegMap) p => m.store p.1 (.const p.2) p.2.length) RegMap.empty
    mems := [(Riscv.memoryKey, .overlay (.bytes bs) (.sparse []))] }

theorem regsConst_foldl (pre : List (String × List UInt8)) : ∀ m : RegMap, RegsConst m →
    RegsConst (pre.foldl (fun (m : RegMap) p => m.store p.1 (.const p.2) p.2.length) m) := by
  induction pre with
  | nil => intro m h; exact h
  | cons x xs ih => intro m h; exact ih _ (regsConst_store h x.1 x.2 x.2.length)

theorem inv_toolState (pre : List (String × List UInt8)) {image bs : List BytesMem.Block}
    (h : BytesMem.newBytes image = .ok bs) : Inv (toolState pre bs) := by
  have hb : BytesSpec.Inv bs := by
    rcases Lemmas.BytesMem.newBytes_spec image with ⟨he, _⟩ | ⟨bs', h1, _, h3, _⟩
    · rw [h] at he; cases he
    · rw [h] at h1; cases h1; exact h3
  refine ⟨⟨?_, ?_⟩, regsConst_foldl pre _ (fun _ _ h => by simp [RegMap.empty, assocGet] at h), ?_⟩
  · intro key mem hk
    simp only [toolState, assocGet] at hk
    split at hk
    · cases hk
      exact ⟨hb, List.Pairwise.nil, fun _ h => (nomatch h)⟩
    · cases hk
  · intro key e
    unfold MemMap.Storable
    simp only [toolState, assocGet]
    split
    · rename_i mem hk
      split at hk
      · cases hk; trivial
      · cases hk
    · trivial
  · intro key mem hk
    simp only [toolState, assocGet] at hk
    split at hk
    · cases hk
      exact ⟨trivial, fun _ h => (nomatch h)⟩
    · cases hk

end Mltwist.Lemmas.Emulator
