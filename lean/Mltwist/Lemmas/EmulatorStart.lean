import Mltwist.Lemmas.EmulatorFull
/-
Emulator (C03), part 21: the start.  For a provider that answers consistently with one machine state
(`ProviderFor`: register `k` has the value `V k`, byte `a` of address space `key` the value `B key a`), the
state `cmd/mltwist` starts the emulator from — pre-set registers, the image under an empty sparse memory —
is related to the reference state "pre-set value / image byte, otherwise the provider's answer".
-/
namespace Mltwist.Lemmas.Emulator
open Mltwist Mltwist.State Mltwist.Overlay Mltwist.Emulator Mltwist.Riscv Mltwist.Spec.Overlay
open Mltwist.Spec.Rv Mltwist.Spec.Lift
open Mltwist.Lemmas.Transform (trunc_trunc_of_le trunc_of_lt trunc_lt)

/-- the provider answers consistently with the register values `V` and the bytes `B` -/
structure ProviderFor (p : Provider) (code : CodeView) (V : String → Nat) (B : String → Nat → Nat) : Prop where
  reg : ∀ k, leToNat (Const.withWidth (p.reg k (code.regWidth k)) (code.regWidth k)) = trunc (code.regWidth k) (V k)
  mem : ∀ key a w i, i < w → leToNat (Const.withWidth (p.mem key a w) w) / 256 ^ i % 256 = B key (a + i) % 256

/-- the valuation a start state and a consistent provider represent -/
def startEnv (s : State) (V : String → Nat) (B : String → Nat → Nat) : Env where
  reg k := match assocGet k s.regs with
    | some (.const c) => leToNat c
    | _ => V k
  mem key x := match s.mems.abs key x with
    | some b => b ρ0
    | none => B key x

/-- the byte map of the tool's start state: the image under the key `memory`, nothing else -/
theorem abs_toolState (pre : List (String × List UInt8)) (bs : List BytesMem.Block) (key : String) (x : Nat) :
    (toolState pre bs).mems.abs key x =
      if key = memoryKey then
        match BytesSpec.ofBlocks bs x with
        | some b => some (fun (_ : Env) => b.toNat)
        | none => none
      else none := by
  unfold toolState MemMap.abs
  simp only [assocGet]
  by_cases hk : memoryKey = key
  · subst hk
    simp only [if_true, Mem.abs, layer, ofSparse, ofBytes, Sparse.abs, List.find?_nil]
    cases BytesSpec.ofBlocks bs x <;> rfl
  · rw [if_neg hk, if_neg (fun h => hk h.symm)]
    rfl

/-- the tool's start state (before `emulator.New`) and a consistent provider represent `startEnv` -/
theorem agree_toolState {p : Provider} {code : CodeView} {V : String → Nat} {B : String → Nat → Nat}
    (hp : ProviderFor p code V B) (pre : List (String × List UInt8)) {image bs : List BytesMem.Block}
    (h : BytesMem.newBytes image = .ok bs) :
    Agree p code (startEnv (toolState pre bs) V B) (toolState pre bs) := by
  have hi := inv_toolState pre h
  refine ⟨fun k c hk w _ => ?_, fun k hk => ?_, fun key x b hb ρ' => ?_, fun key a w i hi' hb => ?_⟩
  · simp only [startEnv, hk]
  · simp only [startEnv, hk]
    exact hp.reg k
  · have hb0 := hb
    rw [abs_toolState] at hb
    simp only [startEnv, hb0]
    split at hb
    · split at hb
      · rename_i b' _
        cases hb
        exact (Nat.mod_eq_of_lt (Lemmas.Bytes.toNat_lt_256 b')).symm
      · cases hb
    · cases hb
  · simp only [startEnv, hb]
    exact hp.mem key a w i hi'

/-- the reference state a valuation defines: registers `x1..x31`, CSRs, the bytes of `memory` -/
def stOf (ρ : Env) (pc : Nat) : St where
  x n := ρ.reg (xName n)
  csr n := ρ.reg (csrName n)
  mem a := ρ.mem memKey a
  pc := pc

theorem rel_stOf (ρ : Env) (pc : Nat) : Rel ρ (stOf ρ pc) := ⟨fun _ _ _ => rfl, fun _ _ => rfl, fun _ _ => rfl⟩

/-- THE START: the emulator the tool creates is related to the reference machine whose registers and memory
are "the pre-set value / the image byte, otherwise what the provider answers", whenever these are values of a
64-bit machine -/
theorem start_related {p : Provider} {code : CodeView} {V : String → Nat} {B : String → Nat → Nat}
    (hp : ProviderFor p code V B) (pre : List (String × List UInt8)) {image bs : List BytesMem.Block}
    (h : BytesMem.newBytes image = .ok bs) (entry : Nat) (he : entry < 2 ^ 64)
    (hwf : ∀ k, (startEnv (toolState pre bs) V B).reg k < 2 ^ 64) :
    R p code (stOf (startEnv (toolState pre bs) V B) entry) (Emulator.new entry (toolState pre bs)) := by
  have hst : (stOf (startEnv (toolState pre bs) V B) entry).pc = entry := rfl
  have := R_new (p := p) (code := code) (σ := stOf (startEnv (toolState pre bs) V B) entry)
    (inv_toolState pre h) ⟨fun n => hwf _, fun n => hwf _, he⟩ (rel_stOf _ _) (agree_toolState hp pre h)
  rw [hst] at this
  exact this

end Mltwist.Lemmas.Emulator
