import Mltwist.Spec.Opcode
/-
Byte-level lemmas for C19: bitwise facts on `UInt8`, `byteEQ`, the order `byteLT`, `applyMask`,
and the decidable conflict criterion.
-/
namespace Mltwist.Lemmas.Opcode
open Mltwist.Opcode

/-! ### bitwise facts, bit by bit -/

theorem u8_ext {a b : UInt8} (h : ∀ i, a.toBitVec.getLsbD i = b.toBitVec.getLsbD i) : a = b :=
  UInt8.toBitVec_inj.1 (BitVec.eq_of_getLsbD_eq (fun i _ => h i))

theorem u8_bit {a b : UInt8} (h : a = b) (i : Nat) :
    a.toBitVec.getLsbD i = b.toBitVec.getLsbD i := by rw [h]

theorem xor_and_eq_zero_iff (a b m n : UInt8) :
    (a ^^^ b) &&& m &&& n = 0 ↔ a &&& m &&& n = b &&& m &&& n := by
  constructor <;> intro h <;> apply u8_ext <;> intro i <;> have := u8_bit h i <;>
    simp only [UInt8.toBitVec_and, UInt8.toBitVec_xor, BitVec.getLsbD_and, BitVec.getLsbD_xor,
      UInt8.toBitVec_zero, BitVec.getLsbD_zero] at this ⊢ <;>
    revert this <;>
    generalize a.toBitVec.getLsbD i = x <;> generalize b.toBitVec.getLsbD i = y <;>
    generalize m.toBitVec.getLsbD i = z <;> generalize n.toBitVec.getLsbD i = w <;>
    cases x <;> cases y <;> cases z <;> cases w <;> simp

/-- a byte matched under both masks forces agreement on the common mask -/
theorem common_of_both {s a b m n : UInt8} (h1 : s &&& m = a &&& m) (h2 : s &&& n = b &&& n) :
    a &&& m &&& n = b &&& m &&& n := by
  apply u8_ext; intro i
  have h1 := u8_bit h1 i
  have h2 := u8_bit h2 i
  simp only [UInt8.toBitVec_and, BitVec.getLsbD_and] at h1 h2 ⊢
  revert h1 h2
  generalize a.toBitVec.getLsbD i = x; generalize b.toBitVec.getLsbD i = y
  generalize m.toBitVec.getLsbD i = z; generalize n.toBitVec.getLsbD i = w
  generalize s.toBitVec.getLsbD i = v
  cases x <;> cases y <;> cases z <;> cases w <;> cases v <;> simp

/-- the witness byte -/
theorem witness_left {a b m n : UInt8} (h : a &&& m &&& n = b &&& m &&& n) :
    ((a &&& m) ||| (b &&& n)) &&& m = a &&& m := by
  apply u8_ext; intro i
  have h := u8_bit h i
  simp only [UInt8.toBitVec_and, UInt8.toBitVec_or, BitVec.getLsbD_and, BitVec.getLsbD_or] at h ⊢
  revert h
  generalize a.toBitVec.getLsbD i = x; generalize b.toBitVec.getLsbD i = y
  generalize m.toBitVec.getLsbD i = z; generalize n.toBitVec.getLsbD i = w
  cases x <;> cases y <;> cases z <;> cases w <;> simp

theorem witness_right {a b m n : UInt8} (h : a &&& m &&& n = b &&& m &&& n) :
    ((a &&& m) ||| (b &&& n)) &&& n = b &&& n := by
  apply u8_ext; intro i
  have h := u8_bit h i
  simp only [UInt8.toBitVec_and, UInt8.toBitVec_or, BitVec.getLsbD_and, BitVec.getLsbD_or] at h ⊢
  revert h
  generalize a.toBitVec.getLsbD i = x; generalize b.toBitVec.getLsbD i = y
  generalize m.toBitVec.getLsbD i = z; generalize n.toBitVec.getLsbD i = w
  cases x <;> cases y <;> cases z <;> cases w <;> simp

theorem and_and_self (a m : UInt8) : a &&& m &&& m = a &&& m := by
  rw [UInt8.and_assoc, UInt8.and_self]

/-! ### `byteEQ` -/

theorem byteEQ_iff (a b : List UInt8) : byteEQ a b = true ↔ a = b := by
  induction a generalizing b with
  | nil => cases b <;> simp [byteEQ]
  | cons x xs ih =>
    cases b with
    | nil => simp [byteEQ]
    | cons y ys =>
      simp only [byteEQ, List.cons.injEq]
      by_cases hxy : x = y
      · simp [hxy, ih]
      · simp [hxy]

theorem byteEQ_refl (a : List UInt8) : byteEQ a a = true := (byteEQ_iff a a).2 rfl

theorem byteEQ_false_iff (a b : List UInt8) : byteEQ a b = false ↔ a ≠ b := by
  rw [← Bool.not_eq_true, Ne, byteEQ_iff]

/-! ### `byteLT` is a strict total order -/

theorem lexLT_irrefl (a : List UInt8) : lexLT a a = false := by
  induction a with
  | nil => rfl
  | cons x xs ih => simp [lexLT, ih, UInt8.lt_irrefl]

theorem lexLT_trans {a b c : List UInt8} (h1 : lexLT a b = true) (h2 : lexLT b c = true) :
    lexLT a c = true := by
  induction a generalizing b c with
  | nil => cases b <;> simp [lexLT] at h1
  | cons x xs ih =>
    cases b with
    | nil => simp [lexLT] at h1
    | cons y ys =>
      cases c with
      | nil => simp [lexLT] at h2
      | cons z zs =>
        simp only [lexLT, gt_iff_lt] at h1 h2 ⊢
        by_cases hxy : x < y
        · by_cases hyz : y < z
          · have : x < z := UInt8.lt_trans hxy hyz
            simp [this]
          · simp only [hyz, if_false] at h2
            by_cases hzy : z < y
            · simp [hzy] at h2
            · have : y = z := UInt8.le_antisymm (UInt8.not_lt.1 hzy) (UInt8.not_lt.1 hyz)
              subst this; simp [hxy]
        · simp only [hxy, if_false] at h1
          by_cases hyx : y < x
          · simp [hyx] at h1
          · have : x = y := UInt8.le_antisymm (UInt8.not_lt.1 hyx) (UInt8.not_lt.1 hxy)
            subst this
            simp only [hyx, if_false] at h1
            by_cases hyz : x < z
            · simp [hyz]
            · simp only [hyz, if_false] at h2 ⊢
              by_cases hzy : z < x
              · simp [hzy] at h2
              · simp only [hzy, if_false] at h2 ⊢
                exact ih h1 h2

theorem lexLT_total {a b : List UInt8} (hl : a.length = b.length) (h1 : lexLT a b = false)
    (h2 : lexLT b a = false) : a = b := by
  induction a generalizing b with
  | nil => cases b with
    | nil => rfl
    | cons _ _ => simp at hl
  | cons x xs ih =>
    cases b with
    | nil => simp at hl
    | cons y ys =>
      simp only [lexLT, gt_iff_lt] at h1 h2
      by_cases hxy : x < y
      · simp [hxy] at h1
      · by_cases hyx : y < x
        · simp [hyx] at h2
        · have : x = y := UInt8.le_antisymm (UInt8.not_lt.1 hyx) (UInt8.not_lt.1 hxy)
          subst this
          simp only [hxy, if_false] at h1 h2
          rw [ih (by simpa using hl) h1 h2]

theorem byteLT_irrefl (a : List UInt8) : byteLT a a = false := by
  simp [byteLT, lexLT_irrefl]

theorem byteLT_trans {a b c : List UInt8} (h1 : byteLT a b = true) (h2 : byteLT b c = true) :
    byteLT a c = true := by
  unfold byteLT at h1 h2 ⊢
  by_cases hab : a.length < b.length
  · by_cases hbc : b.length < c.length
    · have : a.length < c.length := by omega
      simp [this]
    · simp only [hbc, if_false] at h2
      by_cases hcb : b.length > c.length
      · simp [hcb] at h2
      · have : a.length < c.length := by omega
        simp [this]
  · simp only [hab, if_false] at h1
    by_cases hba : a.length > b.length
    · simp [hba] at h1
    · simp only [hba, if_false] at h1
      by_cases hbc : b.length < c.length
      · have : a.length < c.length := by omega
        simp [this]
      · simp only [hbc, if_false] at h2
        by_cases hcb : b.length > c.length
        · simp [hcb] at h2
        · simp only [hcb, if_false] at h2
          have h3 : ¬ a.length < c.length := by omega
          have h4 : ¬ a.length > c.length := by omega
          simp only [h3, h4, if_false]
          exact lexLT_trans h1 h2

theorem byteLT_total {a b : List UInt8} (h1 : byteLT a b = false) (h2 : byteLT b a = false) :
    a = b := by
  unfold byteLT at h1 h2
  by_cases hab : a.length < b.length
  · simp [hab] at h1
  · by_cases hba : b.length < a.length
    · simp [hba] at h2
    · simp only [hab, hba, if_false] at h1 h2
      exact lexLT_total (by omega) h1 h2

theorem byteLT_asymm {a b : List UInt8} (h : byteLT a b = true) : byteLT b a = false := by
  cases hb : byteLT b a with
  | false => rfl
  | true => have := byteLT_trans h hb; rw [byteLT_irrefl] at this; cases this

theorem byteLT_ne {a b : List UInt8} (h : byteLT a b = true) : a ≠ b := by
  intro e; subst e; rw [byteLT_irrefl] at h; cases h

/-! ### `applyMask` -/

theorem applyMask_take (bs m : List UInt8) : applyMask (bs.take m.length) m = applyMask bs m := by
  induction m generalizing bs with
  | nil => cases bs <;> simp [applyMask]
  | cons x xs ih =>
    cases bs with
    | nil => simp [applyMask]
    | cons y ys => simp [applyMask, ih]

/-- two byte strings have the same masked image iff they agree on the masked bits -/
theorem applyMask_eq_iff (m b1 b2 : List UInt8) (h1 : m.length ≤ b1.length)
    (h2 : m.length ≤ b2.length) :
    applyMask b1 m = applyMask b2 m ↔
      ∀ i, i < m.length → b1.getD i 0 &&& m.getD i 0 = b2.getD i 0 &&& m.getD i 0 := by
  induction m generalizing b1 b2 with
  | nil => cases b1 <;> cases b2 <;> simp [applyMask]
  | cons x xs ih =>
    cases b1 with
    | nil => simp at h1
    | cons y ys =>
      cases b2 with
      | nil => simp at h2
      | cons z zs =>
        simp only [List.length_cons, Nat.add_le_add_iff_right] at h1 h2
        simp only [applyMask, List.cons.injEq, ih ys zs h1 h2, List.length_cons]
        constructor
        · rintro ⟨h0, hs⟩ i hi
          cases i with
          | zero => simpa using h0
          | succ j => simpa using hs j (by omega)
        · intro h
          exact ⟨by simpa using h 0 (by omega), fun i hi => by simpa using h (i + 1) (by omega)⟩

/-! ### `Matches` in terms of `applyMask` -/

theorem matches_iff_masked (p : Pat) (bs : List UInt8) (hl : p.bytes.length = p.mask.length) :
    Matches p bs ↔ p.mask.length ≤ bs.length ∧
      applyMask (bs.take p.mask.length) p.mask = applyMask p.bytes p.mask := by
  unfold Matches
  constructor
  · rintro ⟨h1, h2⟩
    refine ⟨h1, ?_⟩
    rw [applyMask_take]
    exact (applyMask_eq_iff _ _ _ h1 (by omega)).2 h2
  · rintro ⟨h1, h2⟩
    refine ⟨h1, ?_⟩
    rw [applyMask_take] at h2
    exact (applyMask_eq_iff _ _ _ h1 (by omega)).1 h2

/-! ### the conflict criterion -/

theorem conflictB_iff (p q : Pat) : conflictB p q = true ↔
    ∀ k, k < min p.mask.length q.mask.length →
      (p.bytes.getD k 0 ^^^ q.bytes.getD k 0) &&& p.mask.getD k 0 &&& q.mask.getD k 0 = 0 := by
  simp [conflictB]

theorem getD_map_range {α} (f : Nat → α) (n i : Nat) (d : α) (h : i < n) :
    ((List.range n).map f).getD i d = f i := by
  simp [List.getD, h]

/-- **Decidable conflict criterion.**  Some byte string matches both patterns iff the patterns
agree on the bits selected by both masks over the common prefix. -/
theorem conflict_iff (p q : Pat) : Conflict p q ↔ conflictB p q = true := by
  rw [conflictB_iff]
  constructor
  · rintro ⟨bs, ⟨_, hp⟩, ⟨_, hq⟩⟩ k hk
    rw [xor_and_eq_zero_iff]
    exact common_of_both (hp k (by omega)) (hq k (by omega))
  · intro h
    -- agreement on the common mask holds at every index (beyond a mask its bytes count as 0)
    have hall : ∀ k, p.bytes.getD k 0 &&& p.mask.getD k 0 &&& q.mask.getD k 0 =
        q.bytes.getD k 0 &&& p.mask.getD k 0 &&& q.mask.getD k 0 := by
      intro k
      by_cases hk : k < min p.mask.length q.mask.length
      · exact (xor_and_eq_zero_iff _ _ _ _).1 (h k hk)
      · by_cases hp : k < p.mask.length
        · have : q.mask.getD k 0 = 0 := by simp [List.getD, show q.mask.length ≤ k by omega]
          rw [this]; simp
        · have : p.mask.getD k 0 = 0 := by simp [List.getD, show p.mask.length ≤ k by omega]
          rw [this]; simp
    let f : Nat → UInt8 := fun k =>
      (p.bytes.getD k 0 &&& p.mask.getD k 0) ||| (q.bytes.getD k 0 &&& q.mask.getD k 0)
    refine ⟨(List.range (max p.mask.length q.mask.length)).map f, ⟨?_, ?_⟩, ⟨?_, ?_⟩⟩
    · simp; omega
    · intro i hi
      rw [getD_map_range f _ i 0 (by omega)]
      exact witness_left (hall i)
    · simp; omega
    · intro i hi
      rw [getD_map_range f _ i 0 (by omega)]
      exact witness_right (hall i)

theorem conflict_comm (p q : Pat) : Conflict p q ↔ Conflict q p := by
  constructor <;> rintro ⟨bs, h1, h2⟩ <;> exact ⟨bs, h2, h1⟩

/-- the model's `conflict` loop computes the criterion -/
theorem conflict_loop_iff (b1 m1 b2 m2 : List UInt8) (h1 : b1.length = m1.length)
    (h2 : b2.length = m2.length) :
    conflict b1 m1 b2 m2 = true ↔
      ∀ k, k < min m1.length m2.length →
        (b1.getD k 0 ^^^ b2.getD k 0) &&& m1.getD k 0 &&& m2.getD k 0 = 0 := by
  induction m1 generalizing b1 b2 m2 with
  | nil => cases b1 <;> simp [conflict]
  | cons x xs ih =>
    cases b1 with
    | nil => simp at h1
    | cons y ys =>
      cases m2 with
      | nil =>
        cases b2 with
        | nil => simp [conflict]
        | cons _ _ => simp at h2
      | cons z zs =>
        cases b2 with
        | nil => simp at h2
        | cons w ws =>
          simp only [List.length_cons, Nat.add_right_cancel_iff] at h1 h2
          simp only [conflict, List.length_cons]
          by_cases hc : (y ^^^ w) &&& x &&& z = 0
          · simp only [hc, bne_self_eq_false, Bool.false_eq_true, if_false, ih ys ws zs h1 h2]
            constructor
            · intro h k hk
              cases k with
              | zero => simpa using hc
              | succ j => simpa using h j (by omega)
            · intro h k hk
              simpa using h (k + 1) (by omega)
          · have : ((y ^^^ w) &&& x &&& z != 0) = true := by simpa using hc
            simp only [this, if_true, Bool.false_eq_true, false_iff]
            intro h
            exact hc (by simpa using h 0 (by omega))

theorem conflictPat_eq (p q : Pat) (hp : p.bytes.length = p.mask.length)
    (hq : q.bytes.length = q.mask.length) : conflictPat p q = conflictB p q := by
  rw [Bool.eq_iff_iff, conflictB_iff]
  exact conflict_loop_iff _ _ _ _ hp hq

/-- with equal masks, conflicting means equal masked bytes -/
theorem conflictB_same_mask (p q : Pat) (hp : p.bytes.length = p.mask.length)
    (hq : q.bytes.length = q.mask.length) (hm : p.mask = q.mask) :
    conflictB p q = true ↔ applyMask p.bytes p.mask = applyMask q.bytes q.mask := by
  rw [conflictB_iff, ← hm, applyMask_eq_iff _ _ _ (by omega) (by simp [hq, hm]), Nat.min_self]
  constructor
  · intro h i hi
    have := (xor_and_eq_zero_iff _ _ _ _).1 (h i hi)
    simpa [and_and_self] using this
  · intro h i hi
    rw [xor_and_eq_zero_iff, and_and_self, and_and_self]
    exact h i hi

/-! ### well-formedness -/

theorem validate_iff (p : Pat) : validate p = true ↔ WellFormed p := by
  unfold validate WellFormed
  by_cases hb : p.bytes = []
  · simp [hb]
  · by_cases hl : p.bytes.length = p.mask.length
    · have hm : p.mask ≠ [] := by
        intro h; rw [h] at hl; exact hb (List.length_eq_zero_iff.1 hl)
      obtain ⟨x, hx⟩ : ∃ x, p.mask.getLast? = some x := by
        cases h : p.mask.getLast? with
        | none => exact absurd (List.getLast?_eq_none_iff.1 h) hm
        | some x => exact ⟨x, rfl⟩
      simp [hb, hl, hx, hm, List.getLastD_eq_getLast?]
    · simp [hb, hl]

theorem wellFormed_len {p : Pat} (h : WellFormed p) : p.bytes.length = p.mask.length := h.2.1

end Mltwist.Lemmas.Opcode
