import Mltwist.Lemmas.UIInv
import Mltwist.Lemmas.Format
/-
C22, part 3: no action panics, `processCommand` never panics and keeps the invariant, whole
sessions, rendering.
-/
namespace Mltwist.Lemmas.UI
open Mltwist Mltwist.UI
open Mltwist.Listing.Spec (Lawful WF ValidCmd)
open Mltwist.Lemmas.MemView (NormalR Coh viewLines)

/-! ### what the command tables declare -/

/-- argument parsers and `OptionalArgs` of the command with the action -/
def actArgs : Act → List ArgKind × Bool
  | .dDown | .dUp | .dBounds | .dGoto | .mDown | .mUp | .mGoto => ([.num], false)
  | .dMove => ([.num, .num], false)
  | .dFind => ([.str], true)
  | .eMemory | .eRegmod => ([.str], false)
  | .mAddress => ([.addr], false)
  | _ => ([], false)

/-- the mode whose table holds the action (`none`: the standard commands of every mode) -/
def actKind : Act → Option UI.Kind
  | .quit | .help => none
  | .dDown | .dUp | .dMove | .dBounds | .dFind | .dGoto | .dEntry | .dAllLines | .dEmulate => some .dis
  | .eStep | .eMemories | .eMemory | .eRegmod => some .emu
  | .mDown | .mUp | .mGoto | .mAddress => some .mem

theorem cmd_meta (k : UI.Kind) : ∀ c ∈ addStandardCmds (commandsOf k),
    c.args = (actArgs c.act).1 ∧ c.opt = (actArgs c.act).2 ∧ (actKind c.act = none ∨ actKind c.act = some k) := by
  cases k <;> decide

theorem shape_num1 {args : List ArgVal} (h : args.map kindOfVal = [.num]) : ∃ n, args = [.num n] := by
  match args, h with
  | [.num n], _ => exact ⟨n, rfl⟩

theorem shape_num2 {args : List ArgVal} (h : args.map kindOfVal = [.num, .num]) :
    ∃ x y, args = [.num x, .num y] := by
  match args, h with
  | [.num x, .num y], _ => exact ⟨x, y, rfl⟩

theorem shape_str1 {args : List ArgVal} (h : args.map kindOfVal = [.str]) : ∃ s, args = [.str s] := by
  match args, h with
  | [.str s], _ => exact ⟨s, rfl⟩

theorem shape_str2 {args : List ArgVal} (h : args.map kindOfVal = [.str, .str]) :
    ∃ s t, args = [.str s, .str t] := by
  match args, h with
  | [.str s, .str t], _ => exact ⟨s, t, rfl⟩

theorem shape_addr1 {args : List ArgVal} (h : args.map kindOfVal = [.addr]) : ∃ a, args = [.addr a] := by
  match args, h with
  | [.addr a], _ => exact ⟨a, rfl⟩

/-! ### the outcome of an action -/

/-- an action ends in a state satisfying the invariant having only consumed input, or it starves in a
value prompt (only `step` and `regmod` have value prompts); it never panics -/
def OutOK {σ : Type} (Good : σ → Prop) (act : Act) (inp : Input) : ActOut σ → Prop
  | .ok ui rest => UIInv Good ui ∧ rest.length ≤ inp.length
  | .err ui rest => UIInv Good ui ∧ rest.length ≤ inp.length
  | .quit ui rest => UIInv Good ui ∧ rest.length ≤ inp.length
  | .hang => act = .eStep ∨ act = .eRegmod
  | .panic => False

theorem errMsgf_ok {σ : Type} {Good : σ → Prop} (act : Act) (ui : UI σ) (h : UIInv Good ui) (inp : Input) :
    OutOK Good act inp (errMsgf ui inp) := by
  cases inp with
  | nil => exact ⟨h, by simp⟩
  | cons l r => exact ⟨h, by simp⟩

theorem helpOK_true (k : UI.Kind) : helpOK k = true := by
  unfold helpOK
  rw [List.all_eq_true]
  intro c _
  obtain ⟨out, hout⟩ := Lemmas.Format.format_terminates c.help 1 80 (by decide)
  simp [hout]

theorem disAnswer_ok {σ : Type} {Good : σ → Prop} (act : Act) (top : NamedMode σ) (below : List (NamedMode σ))
    (h : UIInv Good ⟨top :: below⟩) (hk : top.mode.kind = .dis) (inp : Input)
    (r : Option (Listing.Status × Listing.St)) (hr : ∃ s st', r = some (s, st') ∧ LInv st') :
    OutOK Good act inp (disAnswer top below inp r) := by
  obtain ⟨s, st', rfl, hinv⟩ := hr
  have hui := uiinv_set_top h (.dis st') (by rw [hk]; rfl) hinv
  cases s with
  | ok => exact ⟨hui, Nat.le_refl _⟩
  | noMatch => exact errMsgf_ok act _ hui inp
  | err e => exact ⟨hui, Nat.le_refl _⟩

theorem dis_step {σ : Type} {Good : σ → Prop} (p : Params σ) (hl : Lawful p.cops) (act : Act)
    (top : NamedMode σ) (below : List (NamedMode σ)) (h : UIInv Good ⟨top :: below⟩) (st : Listing.St)
    (hm : top.mode = .dis st) (inp : Input) (c : Listing.Cmd) (hv : ValidCmd st.lines.lines.length c) :
    OutOK Good act inp (disAnswer top below inp (Listing.step p.cops st c)) := by
  have hinv : LInv st := by
    have := (uiinv_cons h).1.2
    rw [hm] at this
    exact this
  obtain ⟨s, st', hstep, hkeeps, _⟩ := Lemmas.Listing.step_spec p.cops hl st hinv c hv
  exact disAnswer_ok act top below h (by rw [hm]; rfl) inp _ ⟨s, st', hstep, hkeeps.inv⟩

theorem memAnswer_ok {σ : Type} {Good : σ → Prop} (act : Act) (top : NamedMode σ) (below : List (NamedMode σ))
    (h : UIInv Good ⟨top :: below⟩) (m : Option MemView.Mem) (v : MemView.View) (hm : top.mode = .mem m v)
    (inp : Input) (x : Int) :
    OutOK Good act inp (memAnswer top below m inp (MemView.cursorSet v x)) := by
  have hinv : MemInv m v := by
    have := (uiinv_cons h).1.2
    rw [hm] at this
    exact this
  rw [Lemmas.MemView.cursorSet_spec]
  split
  · rename_i hx
    refine ⟨uiinv_set_top h (.mem m ⟨v.lines, x.toNat⟩) (by rw [hm]; rfl) ⟨hinv.1, Or.inr ?_⟩, Nat.le_refl _⟩
    show x.toNat < v.lines.length
    omega
  · exact ⟨h, Nat.le_refl _⟩

/-! ### the actions -/

theorem actEmulate_ok {σ : Type} {Good : σ → Prop} (p : Params σ) (he : EmuLawful p.eops Good)
    (top : NamedMode σ) (below : List (NamedMode σ)) (h : UIInv Good ⟨top :: below⟩) (st : Listing.St)
    (hinv : LInv st) (inp : Input) : OutOK Good .dEmulate inp (actEmulate p top below st inp) := by
  unfold actEmulate
  simp only
  have hcur : st.cursor.value < st.lines.lines.length := by
    have := hinv.curVal; rw [hinv.curMax] at this; exact this
  have hline : st.lines.lines[st.cursor.value]? = some st.lines.lines[st.cursor.value] :=
    List.getElem?_eq_getElem hcur
  rw [hline]
  simp only
  obtain ⟨ln', hln', hblk, hins⟩ := Lemmas.Listing.line_of_shown st.lines st.code hinv.rows _ _ hline
  simp only [Listing.Lines.block, hline]
  rcases Lemmas.Listing.mem_newLines hln' with ⟨hb, _⟩ | ⟨blk, hbm, hcase⟩
  · -- the blank line
    rw [hblk, hb]
    exact ⟨h, Nat.le_refl _⟩
  · have hget := Lemmas.Listing.wf_getElem? st.code hinv.wf blk hbm
    rcases hcase with ⟨hb, hi⟩ | ⟨x, hx, hb, hi⟩
    · -- a block header
      rw [hblk, hb]
      simp only [hget]
      rw [hins, hi]
      exact ⟨h, Nat.le_refl _⟩
    · rw [hblk, hb]
      simp only [hget]
      rw [hins, hi]
      simp only
      rw [Lemmas.Listing.wf_ins_getElem? st.code hinv.wf blk hbm x hx]
      simp only
      have hnew := newEmu_safe p.eops he st.code hinv.wf x.addr
      cases hq : newEmu p.eops st.code x.addr with
      | panic => simp [hq] at hnew
      | err => exact ⟨h, Nat.le_refl _⟩
      | ok e =>
        simp only [hq] at hnew
        simp only
        obtain ⟨ui', hadd, hui'⟩ := addMode_safe ⟨top :: below⟩ h (b "emulate") (.emu e) hnew
        rw [hadd]
        exact ⟨hui', Nat.le_refl _⟩

theorem actStep_ok {σ : Type} {Good : σ → Prop} (p : Params σ) (he : EmuLawful p.eops Good)
    (top : NamedMode σ) (below : List (NamedMode σ)) (h : UIInv Good ⟨top :: below⟩) (e : EmuMode σ)
    (hm : top.mode = .emu e) (inp : Input) : OutOK Good .eStep inp (actStep p top below e inp) := by
  have hinv : LInv e.view ∧ Good e.emu := by
    have := (uiinv_cons h).1.2
    rw [hm] at this
    exact this
  unfold actStep
  have ht := runTree_safe (he.step_safe e.emu hinv.2) inp
  cases hq : runTree (p.eops.step e.emu) inp with
  | panic => simp [hq] at ht
  | hang => exact Or.inl rfl
  | fail s rest =>
    simp only [hq] at ht
    exact ⟨uiinv_set_top h (.emu { e with emu := s }) (by rw [hm]; rfl) ⟨hinv.1, ht.1⟩, ht.2⟩
  | done s rest =>
    simp only [hq] at ht
    simp only
    have hr := refreshCursor_safe p.eops he e.view hinv.1 s ht.1
    cases hq2 : refreshCursor p.eops e.view s with
    | panic => simp [hq2] at hr
    | err => exact ⟨uiinv_set_top h (.emu { e with emu := s }) (by rw [hm]; rfl) ⟨hinv.1, ht.1⟩, ht.2⟩
    | ok view =>
      simp only [hq2] at hr
      exact ⟨uiinv_set_top h (.emu ⟨view, s⟩) (by rw [hm]; rfl) ⟨hr, ht.1⟩, ht.2⟩

theorem actMemory_ok {σ : Type} {Good : σ → Prop} (p : Params σ) (he : EmuLawful p.eops Good)
    (top : NamedMode σ) (below : List (NamedMode σ)) (h : UIInv Good ⟨top :: below⟩) (e : EmuMode σ)
    (hm : top.mode = .emu e) (key : Str) (inp : Input) :
    OutOK Good .eMemory inp (actMemory p top below e key inp) := by
  have hinv : LInv e.view ∧ Good e.emu := by
    have := (uiinv_cons h).1.2
    rw [hm] at this
    exact this
  unfold actMemory
  simp only
  cases hmem : p.eops.mem e.emu key with
  | none =>
    simp only [MemView.newMemoryView]
    obtain ⟨ui', hadd, hui'⟩ := addMode_safe ⟨top :: below⟩ h (b "memview(" ++ key ++ b ")")
      (.mem none ⟨[], 0⟩) (show MemInv none ⟨[], 0⟩ from ⟨Or.inl ⟨rfl, rfl⟩, Or.inl rfl⟩)
    rw [hadd]
    exact ⟨hui', Nat.le_refl _⟩
  | some m =>
    obtain ⟨bl, σ', hn, hc⟩ := he.mem_ok e.emu key m hinv.2 hmem
    rw [Lemmas.MemView.newMemoryView_eq hc.blocks hn]
    simp only
    have hmi : MemInv (some m) ⟨MemView.addEmptyLines (Lemmas.MemView.rowsOf bl), 0⟩ := by
      refine ⟨Or.inr ⟨m, bl, σ', rfl, hn, hc, rfl⟩, ?_⟩
      show MemView.addEmptyLines (Lemmas.MemView.rowsOf bl) = [] ∨
        0 < (MemView.addEmptyLines (Lemmas.MemView.rowsOf bl)).length
      cases MemView.addEmptyLines (Lemmas.MemView.rowsOf bl) with
      | nil => exact Or.inl rfl
      | cons a r => exact Or.inr (by simp)
    obtain ⟨ui', hadd, hui'⟩ := addMode_safe ⟨top :: below⟩ h (b "memview(" ++ key ++ b ")")
      (.mem (some m) ⟨MemView.addEmptyLines (Lemmas.MemView.rowsOf bl), 0⟩) hmi
    rw [hadd]
    exact ⟨hui', Nat.le_refl _⟩

theorem actRegmod_ok {σ : Type} {Good : σ → Prop} (p : Params σ) (he : EmuLawful p.eops Good)
    (top : NamedMode σ) (below : List (NamedMode σ)) (h : UIInv Good ⟨top :: below⟩) (e : EmuMode σ)
    (hm : top.mode = .emu e) (key : Str) (inp : Input) :
    OutOK Good .eRegmod inp (actRegmod p top below e key inp) := by
  have hinv : LInv e.view ∧ Good e.emu := by
    have := (uiinv_cons h).1.2
    rw [hm] at this
    exact this
  unfold actRegmod
  cases hw : p.eops.regWidth e.emu key with
  | none => exact ⟨h, Nat.le_refl _⟩
  | some w =>
    simp only
    have hp := readValueNoErr_safe w (he.width_byte e.emu key w hinv.2 hw) inp
    cases hq : readValueNoErr w inp with
    | panic => simp [hq] at hp
    | hang => exact Or.inr rfl
    | value c rest =>
      simp only [hq] at hp
      exact ⟨uiinv_set_top h (.emu { e with emu := p.eops.regStore e.emu key c }) (by rw [hm]; rfl)
        ⟨hinv.1, he.store_good _ _ _ hinv.2⟩, by omega⟩

/-- every action, on arguments of the types its command declares, in the mode whose table holds it -/
theorem runAct_safe_act {σ : Type} {Good : σ → Prop} (p : Params σ) (hl : Lawful p.cops)
    (he : EmuLawful p.eops Good) (top : NamedMode σ) (below : List (NamedMode σ))
    (h : UIInv Good ⟨top :: below⟩) (act : Act) (args : List ArgVal)
    (hkind : actKind act = none ∨ actKind act = some top.mode.kind)
    (hshape : args.map kindOfVal = (actArgs act).1 ∨
      ((actArgs act).2 = true ∧ args.map kindOfVal = (actArgs act).1 ++ [.str]))
    (inp : Input) : OutOK Good act inp (runAct p top below act args inp) := by
  have hmi := (uiinv_cons h).1.2
  cases hmode : top.mode with
  | dis st =>
    rw [hmode] at hkind hmi
    have hinv : LInv st := hmi
    cases act <;> simp only [actKind, Mode.kind, reduceCtorEq, Option.some.injEq, or_false, or_self] at hkind <;>
      simp only [actArgs, Bool.false_eq_true, false_and, or_false, List.nil_append, List.cons_append,
        List.map_eq_nil_iff, true_and] at hshape
    case quit => unfold runAct; exact ⟨h, Nat.le_refl _⟩
    case help =>
      have hh := helpOK_true top.mode.kind
      unfold runAct
      simp only
      generalize helpOK top.mode.kind = bb at hh
      subst hh
      simp only [↓reduceIte]
      exact errMsgf_ok _ _ h inp
    case dDown =>
      obtain ⟨n, rfl⟩ := shape_num1 hshape
      unfold runAct
      simp only [hmode]
      generalize hc : Listing.Cmd.down n = c
      exact dis_step p hl _ top below h st hmode inp c (by subst hc; trivial)
    case dUp =>
      obtain ⟨n, rfl⟩ := shape_num1 hshape
      unfold runAct
      simp only [hmode]
      generalize hc : Listing.Cmd.up n = c
      exact dis_step p hl _ top below h st hmode inp c (by subst hc; trivial)
    case dMove =>
      obtain ⟨x, y, rfl⟩ := shape_num2 hshape
      unfold runAct
      simp only [hmode]
      exact dis_step p hl _ top below h st hmode inp _ trivial
    case dBounds =>
      obtain ⟨n, rfl⟩ := shape_num1 hshape
      unfold runAct
      simp only [hmode]
      exact dis_step p hl _ top below h st hmode inp _ trivial
    case dGoto =>
      obtain ⟨n, rfl⟩ := shape_num1 hshape
      unfold runAct
      simp only [hmode]
      exact dis_step p hl _ top below h st hmode inp _ trivial
    case dEntry =>
      unfold runAct
      simp only [hmode]
      exact dis_step p hl _ top below h st hmode inp _ trivial
    case dFind =>
      rcases hshape with hs | hs
      · obtain ⟨r, rfl⟩ := shape_str1 hs
        unfold runAct
        simp only [hmode]
        refine dis_step p hl _ top below h st hmode inp _ ?_
        cases p.rx r with
        | none => trivial
        | some f => simp [ValidCmd]
      · obtain ⟨r, o, rfl⟩ := shape_str2 hs
        unfold runAct
        simp only [hmode]
        refine dis_step p hl _ top below h st hmode inp _ ?_
        cases p.rx (r ++ 0x20 :: o) with
        | none => trivial
        | some f => simp [ValidCmd]
    case dAllLines =>
      unfold runAct
      simp only [hmode]
      exact errMsgf_ok _ _ h inp
    case dEmulate =>
      unfold runAct
      simp only [hmode]
      exact actEmulate_ok p he top below h st hinv inp
  | emu e =>
    rw [hmode] at hkind hmi
    cases act <;> simp only [actKind, Mode.kind, reduceCtorEq, Option.some.injEq, or_false, or_self] at hkind <;>
      simp only [actArgs, Bool.false_eq_true, false_and, or_false, List.nil_append, List.cons_append,
        List.map_eq_nil_iff] at hshape
    case quit => unfold runAct; exact ⟨h, Nat.le_refl _⟩
    case help =>
      have hh := helpOK_true top.mode.kind
      unfold runAct
      simp only
      generalize helpOK top.mode.kind = bb at hh
      subst hh
      simp only [↓reduceIte]
      exact errMsgf_ok _ _ h inp
    case eStep =>
      unfold runAct
      simp only [hmode]
      exact actStep_ok p he top below h e hmode inp
    case eMemories =>
      unfold runAct
      simp only [hmode]
      cases inp with
      | nil => exact ⟨h, Nat.le_refl _⟩
      | cons l r => exact ⟨h, by simp⟩
    case eMemory =>
      obtain ⟨k, rfl⟩ := shape_str1 hshape
      unfold runAct
      simp only [hmode]
      exact actMemory_ok p he top below h e hmode k inp
    case eRegmod =>
      obtain ⟨k, rfl⟩ := shape_str1 hshape
      unfold runAct
      simp only [hmode]
      exact actRegmod_ok p he top below h e hmode k inp
  | mem m v =>
    rw [hmode] at hkind hmi
    cases act <;> simp only [actKind, Mode.kind, reduceCtorEq, Option.some.injEq, or_false, or_self] at hkind <;>
      simp only [actArgs, Bool.false_eq_true, false_and, or_false, List.nil_append, List.cons_append,
        List.map_eq_nil_iff] at hshape
    case quit => unfold runAct; exact ⟨h, Nat.le_refl _⟩
    case help =>
      have hh := helpOK_true top.mode.kind
      unfold runAct
      simp only
      generalize helpOK top.mode.kind = bb at hh
      subst hh
      simp only [↓reduceIte]
      exact errMsgf_ok _ _ h inp
    case mDown =>
      obtain ⟨n, rfl⟩ := shape_num1 hshape
      unfold runAct
      simp only [hmode]
      exact memAnswer_ok _ top below h m v hmode inp _
    case mUp =>
      obtain ⟨n, rfl⟩ := shape_num1 hshape
      unfold runAct
      simp only [hmode]
      exact memAnswer_ok _ top below h m v hmode inp _
    case mGoto =>
      obtain ⟨n, rfl⟩ := shape_num1 hshape
      unfold runAct
      simp only [hmode]
      exact memAnswer_ok _ top below h m v hmode inp _
    case mAddress =>
      obtain ⟨a, rfl⟩ := shape_addr1 hshape
      unfold runAct
      simp only [hmode, MemView.cmdAddress]
      cases MemView.findLine a v.lines with
      | none => exact ⟨h, Nat.le_refl _⟩
      | some idx => exact memAnswer_ok _ top below h m v hmode inp _

/-- every action of every command table, on the arguments `parseCommand` delivers, in a state satisfying
the invariant -/
theorem runAct_safe {σ : Type} {Good : σ → Prop} (p : Params σ) (hl : Lawful p.cops)
    (he : EmuLawful p.eops Good) (top : NamedMode σ) (below : List (NamedMode σ))
    (h : UIInv Good ⟨top :: below⟩) (cmd : Command)
    (hmem : cmd ∈ addStandardCmds (commandsOf top.mode.kind)) (args : List ArgVal) (hfit : ArgsFit cmd args)
    (inp : Input) : OutOK Good cmd.act inp (runAct p top below cmd.act args inp) := by
  obtain ⟨hargs, hopt, hkind⟩ := cmd_meta top.mode.kind cmd hmem
  refine runAct_safe_act p hl he top below h cmd.act args hkind ?_ inp
  rcases hfit with hf | ⟨ho, hf⟩
  · exact Or.inl (hargs ▸ hf)
  · exact Or.inr ⟨hopt ▸ ho, hargs ▸ hf⟩

end Mltwist.Lemmas.UI
