import Mltwist.Lemmas.BasicBlockBasic
/-
C08: `blocks.split` on a list of contiguous runs (the invariant of the splitting stages).
-/
namespace Mltwist.Lemmas.BasicBlock
open Mltwist Mltwist.BasicBlock Mltwist.BasicBlock.Spec

/-- sorted, non-overlapping, positive lengths, nothing beyond `2^64` -/
def SortedWF (l : List Ins) : Prop :=
  (∀ i ∈ l, 0 < i.len ∧ i.addr + i.len ≤ M) ∧ l.Pairwise fun a b => a.addr + a.len ≤ b.addr

def sumLen (g : List Ins) : Nat := (g.map (·.len)).sum

/-- exclusive end of a run, as a natural number -/
def gEnd : List Ins → Nat
  | [] => 0
  | a :: rest => a.addr + sumLen (a :: rest)

theorem SortedWF.tail {a : Ins} {l : List Ins} (h : SortedWF (a :: l)) : SortedWF l :=
  ⟨fun i hi => h.1 i (List.mem_cons_of_mem _ hi), (List.pairwise_cons.1 h.2).2⟩

theorem seqBytes_eq (g : List Ins) (h : ∀ i ∈ g, 0 < i.len ∧ i.addr + i.len ≤ M) :
    seqBytes g = sumLen g % M := by
  induction g with
  | nil => simp [seqBytes, sumLen]
  | cons a rest ih =>
    have ha := h a (List.mem_cons_self ..)
    have := ih (fun i hi => h i (List.mem_cons_of_mem _ hi))
    simp only [seqBytes, this, sumLen, List.map_cons, List.sum_cons, Ins.end_]
    simp only [sumLen] at this
    unfold M at *
    omega

theorem contig_end_le (g : List Ins) (hc : Contig g) (hw : SortedWF g) :
    ∀ x ∈ g, x.addr + x.len ≤ gEnd g := by
  induction g with
  | nil => simp
  | cons a rest ih =>
    cases rest with
    | nil => simp [gEnd, sumLen]
    | cons b rest =>
      intro x hx
      have hab : a.addr + a.len ≤ b.addr := (List.pairwise_cons.1 hw.2).1 b (List.mem_cons_self ..)
      have hb := hw.1 b (by simp)
      have he : a.end_ = b.addr := hc.1
      have he' : a.addr + a.len = b.addr := by
        unfold Ins.end_ M at he; unfold M at hb; omega
      have := ih hc.2 hw.tail
      simp only [gEnd, sumLen, List.map_cons, List.sum_cons] at this ⊢
      rcases List.mem_cons.1 hx with rfl | hx
      · omega
      · have := this x hx; omega

/-- the end of a contiguous run is the end of one of its instructions (the last one) -/
theorem contig_end_mem (a : Ins) (rest : List Ins) (hc : Contig (a :: rest)) (hw : SortedWF (a :: rest)) :
    ∃ z ∈ a :: rest, gEnd (a :: rest) = z.addr + z.len := by
  induction rest generalizing a with
  | nil => exact ⟨a, by simp, by simp [gEnd, sumLen]⟩
  | cons b rest ih =>
    have hab : a.addr + a.len ≤ b.addr := (List.pairwise_cons.1 hw.2).1 b (List.mem_cons_self ..)
    have hb := hw.1 b (by simp)
    have he : a.end_ = b.addr := hc.1
    have he' : a.addr + a.len = b.addr := by
      unfold Ins.end_ M at he; unfold M at hb; omega
    obtain ⟨z, hz, hzE⟩ := ih b hc.2 hw.tail
    refine ⟨z, List.mem_cons_of_mem _ hz, ?_⟩
    simp only [gEnd, sumLen, List.map_cons, List.sum_cons] at hzE ⊢
    omega

theorem gEnd_le_M (g : List Ins) (hc : Contig g) (hw : SortedWF g) : gEnd g ≤ M := by
  cases g with
  | nil => simp [gEnd]
  | cons a rest =>
    obtain ⟨z, hz, hzE⟩ := contig_end_mem a rest hc hw
    rw [hzE]; exact (hw.1 z hz).2

theorem begin_newBlock (a : Ins) (rest : List Ins) : (newBlock (a :: rest)).begin = .ok a.addr := rfl

theorem last_newBlock (a : Ins) (rest : List Ins) (hc : Contig (a :: rest)) (hw : SortedWF (a :: rest)) :
    (newBlock (a :: rest)).last = .ok (gEnd (a :: rest) - 1) := by
  have hM := gEnd_le_M _ hc hw
  have hs := seqBytes_eq (a :: rest) hw.1
  have ha := hw.1 a (List.mem_cons_self ..)
  have hpos : a.len ≤ sumLen (a :: rest) := by simp [sumLen]
  simp only [Block.last, Block.begin, bind, Except.bind, pure, Except.pure, newBlock, hs]
  simp only [gEnd] at hM ⊢
  generalize sumLen (a :: rest) = S at *
  have : (a.addr + S % M + (M - 1)) % M = a.addr + S - 1 := by
    unfold M at *
    omega
  rw [this]


/-- invariant of the list of runs during the splitting stages -/
structure GInv (gs : List (List Ins)) : Prop where
  wf : SortedWF gs.flatten
  ne : ∀ g ∈ gs, g ≠ []
  contig : ∀ g ∈ gs, Contig g

theorem GInv.wf_mem {gs : List (List Ins)} (h : GInv gs) {g : List Ins} (hg : g ∈ gs) : SortedWF g :=
  ⟨fun i hi => h.wf.1 i (List.mem_flatten.2 ⟨g, hg, hi⟩), (List.pairwise_flatten.1 h.wf.2).1 g hg⟩

theorem GInv.pairwise {gs : List (List Ins)} (h : GInv gs) :
    gs.Pairwise fun g h => ∀ x ∈ g, ∀ y ∈ h, x.addr + x.len ≤ y.addr :=
  (List.pairwise_flatten.1 h.wf.2).2

theorem gEnd_le_of_before (g h : List Ins) (hg : g ≠ []) (hcg : Contig g) (hwg : SortedWF g)
    (hb : ∀ x ∈ g, ∀ y ∈ h, x.addr + x.len ≤ y.addr) : ∀ y ∈ h, gEnd g ≤ y.addr := by
  cases g with
  | nil => exact absurd rfl hg
  | cons a rest =>
    obtain ⟨z, hz, hzE⟩ := contig_end_mem a rest hcg hwg
    intro y hy
    rw [hzE]; exact hb z hz y hy

theorem head_lt_gEnd (a : Ins) (rest : List Ins) (hw : SortedWF (a :: rest)) :
    a.addr < gEnd (a :: rest) := by
  have := (hw.1 a (List.mem_cons_self ..)).1
  simp [gEnd, sumLen]; omega

/-- the result of the binary search of `blocks.split`, as a decomposition of the runs -/
theorem findBlock (gs : List (List Ins)) (hI : GInv gs) (A : Nat) :
    ∃ k, search (gs.map newBlock).length (blockPred (gs.map newBlock) A) = .ok k ∧
      ((k = gs.length ∧ ∀ h ∈ gs, ∀ b ∈ h, b.addr < A) ∨
       (∃ pre g post, gs = pre ++ g :: post ∧ k = pre.length ∧
          (∀ h ∈ pre, ∀ b ∈ h, b.addr < A) ∧ A < gEnd g ∧
          (∀ h ∈ post, ∀ b ∈ h, gEnd g ≤ b.addr))) := by
  let p : Nat → Bool := fun i => decide (gEnd (gs[i]?.getD []) - 1 ≥ A)
  have hf : ∀ i, i < (gs.map newBlock).length →
      blockPred (gs.map newBlock) A i = .ok (p i) := by
    intro i hi
    have hi' : i < gs.length := by simpa using hi
    have hmem : gs[i] ∈ gs := List.getElem_mem hi'
    have e : (gs.map newBlock)[i]? = some (newBlock gs[i]) := by simp [hi']
    unfold blockPred
    rw [e]
    cases hg : gs[i] with
    | nil => exact absurd hg (hI.ne _ hmem)
    | cons a rest =>
      have hl := last_newBlock a rest (hg ▸ hI.contig _ hmem) (hg ▸ hI.wf_mem hmem)
      simp only [hl, bind, Except.bind, pure, Except.pure, p, List.getElem?_eq_getElem hi', Option.getD_some, hg]
  have hpw := hI.pairwise
  have hmono : ∀ s t, s ≤ t → t < (gs.map newBlock).length → p s = true → p t = true := by
    intro s t hst ht hs
    have ht' : t < gs.length := by simpa using ht
    rcases Nat.lt_or_eq_of_le hst with hlt | rfl
    · have hs' : s < gs.length := by omega
      have hb := (List.pairwise_iff_getElem.1 hpw) s t hs' ht' hlt
      have hms : gs[s] ∈ gs := List.getElem_mem hs'
      have hmt : gs[t] ∈ gs := List.getElem_mem ht'
      have h1 := gEnd_le_of_before gs[s] gs[t] (hI.ne _ hms) (hI.contig _ hms) (hI.wf_mem hms) hb
      simp only [p, List.getElem?_eq_getElem hs', List.getElem?_eq_getElem ht', Option.getD_some,
        decide_eq_true_eq] at hs ⊢
      cases hgt : gs[t] with
      | nil => exact absurd hgt (hI.ne _ hmt)
      | cons y rest =>
        have h2 := h1 y (by rw [hgt]; simp)
        have h3 := head_lt_gEnd y rest (hgt ▸ hI.wf_mem hmt)
        omega
    · exact hs
  obtain ⟨k, hk, hkn, hlo, hhi⟩ := search_spec _ p _ hf hmono
  refine ⟨k, hk, ?_⟩
  have hkn' : k ≤ gs.length := by simpa using hkn
  -- groups before k lie entirely below A
  have hbefore : ∀ t, t < k → ∀ b ∈ gs[t]?.getD [], b.addr < A := by
    intro t ht b hb
    have ht' : t < gs.length := by omega
    have hmt : gs[t] ∈ gs := List.getElem_mem ht'
    have hp := hlo t ht
    simp only [p, List.getElem?_eq_getElem ht', Option.getD_some, decide_eq_false_iff_not] at hp hb
    have := contig_end_le _ (hI.contig _ hmt) (hI.wf_mem hmt) b hb
    have := (hI.wf_mem hmt).1 b hb
    omega
  rcases Nat.lt_or_eq_of_le hkn' with hlt | heq
  · right
    have hmk : gs[k] ∈ gs := List.getElem_mem hlt
    refine ⟨gs.take k, gs[k], gs.drop (k + 1), ?_, ?_, ?_, ?_, ?_⟩
    · simp
    · simp; omega
    · intro h hh b hb
      obtain ⟨t, ht, rfl⟩ := List.mem_iff_getElem.1 hh
      have ht' : t < k := by simp at ht; omega
      have := hbefore t ht' b (by
        simp only [List.getElem_take] at hb
        simpa [List.getElem?_eq_getElem (show t < gs.length by omega)] using hb)
      exact this
    · have hp := hhi (by simpa using hlt)
      simp only [p, List.getElem?_eq_getElem hlt, Option.getD_some, decide_eq_true_eq] at hp
      cases hgk : gs[k] with
      | nil => exact absurd hgk (hI.ne _ hmk)
      | cons y rest =>
        rw [hgk] at hp
        have h3 := head_lt_gEnd y rest (hgk ▸ hI.wf_mem hmk)
        omega
    · intro h hh b hb
      obtain ⟨t, ht, rfl⟩ := List.mem_iff_getElem.1 hh
      simp only [List.getElem_drop] at hb
      have ht2 : k + 1 + t < gs.length := by simp at ht; omega
      have hbb := (List.pairwise_iff_getElem.1 hpw) k (k + 1 + t) hlt ht2 (by omega)
      exact gEnd_le_of_before gs[k] _ (hI.ne _ hmk) (hI.contig _ hmk) (hI.wf_mem hmk) hbb b hb
  · left
    refine ⟨heq, ?_⟩
    intro h hh b hb
    obtain ⟨t, ht, rfl⟩ := List.mem_iff_getElem.1 hh
    exact hbefore t (by omega) b (by simpa [List.getElem?_eq_getElem ht] using hb)


theorem SortedWF.addr_lt {l : List Ins} (h : SortedWF l) : l.Pairwise fun a b => a.addr < b.addr := by
  have h1 : ∀ a ∈ l, 0 < a.len := fun a ha => (h.1 a ha).1
  refine List.Pairwise.imp_of_mem ?_ h.2
  intro a b ha _ hab
  have := h1 a ha
  omega

/-- `block.split` of a run at an address strictly inside it -/
theorem blockSplit_spec (g : List Ins) (hne : g ≠ []) (hc : Contig g) (hw : SortedWF g) (A : Nat)
    (hlo : ∀ a ∈ g.head?, a.addr < A) (hhi : A < gEnd g) :
    (A ∈ g.map (·.addr) →
      ∃ s x t, g = s ++ x :: t ∧ s ≠ [] ∧ x.addr = A ∧ (∀ b ∈ s, b.addr < A) ∧ (∀ b ∈ t, A < b.addr) ∧
        (newBlock g).split A = .ok (newBlock s, newBlock (x :: t))) ∧
    (A ∉ g.map (·.addr) → ∃ c, (newBlock g).split A = .error (.err c)) := by
  obtain ⟨a, rest, hg⟩ : ∃ a rest, g = a :: rest := by
    cases g with
    | nil => exact absurd rfl hne
    | cons a rest => exact ⟨a, rest, rfl⟩
  have ha : a.addr < A := hlo a (by simp [hg])
  have hcont : (newBlock g).contains A = .ok true := by
    rw [hg] at hc hw hhi ⊢
    simp only [Block.contains, last_newBlock a rest hc hw, bind, Except.bind, pure, Except.pure,
      begin_newBlock]
    congr 1
    simp only [Bool.and_eq_true, decide_eq_true_eq]
    omega
  let p : Nat → Bool := fun i => decide ((g[i]?.getD default).addr ≥ A)
  have hf : ∀ i, i < g.length → insPred g A i = .ok (p i) := by
    intro i hi
    simp only [insPred, p, List.getElem?_eq_getElem hi, Option.getD_some]
  have hlt := hw.addr_lt
  have hmono : ∀ s t, s ≤ t → t < g.length → p s = true → p t = true := by
    intro s t hst ht hs
    rcases Nat.lt_or_eq_of_le hst with hl | rfl
    · have hs' : s < g.length := by omega
      have := (List.pairwise_iff_getElem.1 hlt) s t hs' ht hl
      simp only [p, List.getElem?_eq_getElem hs', List.getElem?_eq_getElem ht, Option.getD_some,
        decide_eq_true_eq] at hs ⊢
      omega
    · exact hs
  obtain ⟨k, hk, hkn, hlo', hhi'⟩ := search_spec _ p _ hf hmono
  have hsplit : (newBlock g).split A =
      (if k = g.length then .error (.err .notFound) else
        match g[k]? with
        | none => .error .panic
        | some x => if x.addr ≠ A then .error (.err .notBoundary)
                    else .ok (newBlock (g.take k), newBlock (g.drop k))) := by
    have e : (newBlock g).seq = g := rfl
    simp only [Block.split, hcont, bind, Except.bind, throw, throwThe, MonadExceptOf.throw,
      pure, Except.pure, Bool.not_true, Bool.false_eq_true, if_false, e, hk]
    by_cases hkl : k = g.length
    · simp [hkl]
    · simp only [hkl, if_false]
      cases g[k]? with
      | none => rfl
      | some x => by_cases hx : x.addr = A <;> simp [hx]
  have hk0 : k ≠ 0 := by
    intro h0
    by_cases hn : k < g.length
    · have := hhi' hn
      simp only [p, h0, hg, List.getElem?_cons_zero, Option.getD_some, decide_eq_true_eq] at this
      omega
    · simp [hg, h0] at hn
  constructor
  · intro hA
    obtain ⟨x, hx, hxA⟩ := List.mem_map.1 hA
    obtain ⟨j, hj, rfl⟩ := List.mem_iff_getElem.1 hx
    have hjk : k ≤ j := by
      apply Classical.byContradiction
      intro hn
      have := hlo' j (by omega)
      simp only [p, List.getElem?_eq_getElem hj, Option.getD_some, decide_eq_false_iff_not] at this
      exact this (by omega)
    have hkl : k < g.length := by omega
    have hpk := hhi' hkl
    simp only [p, List.getElem?_eq_getElem hkl, Option.getD_some, decide_eq_true_eq] at hpk
    have hkj : k = j := by
      rcases Nat.lt_or_eq_of_le hjk with hl | he
      · have := (List.pairwise_iff_getElem.1 hlt) k j hkl hj hl
        have hxA' : g[j].addr = A := hxA
        omega
      · exact he
    subst hkj
    have hxA' : g[k].addr = A := hxA
    refine ⟨g.take k, g[k], g.drop (k + 1), ?_, ?_, hxA', ?_, ?_, ?_⟩
    · show g = _
      rw [← List.drop_eq_getElem_cons hkl, List.take_append_drop]
    · intro h
      have : (g.take k).length = 0 := by rw [h]; rfl
      simp at this
      rcases this with h0 | h0
      · exact hk0 h0
      · exact hne h0
    · intro b hb
      obtain ⟨t, ht, rfl⟩ := List.mem_iff_getElem.1 hb
      have ht' : t < k := by simp at ht; omega
      have := hlo' t ht'
      simp only [p, List.getElem?_eq_getElem (show t < g.length by omega), Option.getD_some,
        decide_eq_false_iff_not] at this
      simp only [List.getElem_take]
      omega
    · intro b hb
      obtain ⟨t, ht, rfl⟩ := List.mem_iff_getElem.1 hb
      simp only [List.getElem_drop]
      have ht2 : k + 1 + t < g.length := by simp at ht; omega
      have := (List.pairwise_iff_getElem.1 hlt) k (k + 1 + t) hkl ht2 (by omega)
      omega
    · show (newBlock g).split A = _
      rw [hsplit]
      have : ¬ k = g.length := by omega
      simp only [this, if_false, List.getElem?_eq_getElem hkl, hxA', ne_eq, not_true_eq_false]
      rw [List.drop_eq_getElem_cons hkl]
  · intro hA
    show ∃ c, (newBlock g).split A = _
    rw [hsplit]
    by_cases hkl : k = g.length
    · exact ⟨.notFound, by simp [hkl]⟩
    · have hkl' : k < g.length := by omega
      have hne : g[k].addr ≠ A := by
        intro h
        exact hA (List.mem_map.2 ⟨g[k], List.getElem_mem hkl', h⟩)
      exact ⟨.notBoundary, by simp [hkl, List.getElem?_eq_getElem hkl', hne]⟩


theorem blocksSplit_unfold (bs : List Block) (A k : Nat)
    (hk : search bs.length (blockPred bs A) = .ok k) :
    blocksSplit bs A =
      match bs[k]? with
      | none => .error (.err .noBlock)
      | some b =>
        match b.begin with
        | .error e => .error e
        | .ok bg =>
          if A < bg then .error (.err .noBlock)
          else if bg = A then .ok bs
          else
            match b.split A with
            | .error e => .error e
            | .ok (b1, b2) => .ok (insertShift bs k b1 b2) := by
  simp only [blocksSplit, hk, bind, Except.bind, throw, throwThe, MonadExceptOf.throw, pure, Except.pure]
  cases bs[k]? with
  | none => rfl
  | some b =>
    simp only
    cases b.begin with
    | error e => rfl
    | ok bg =>
      simp only
      by_cases h1 : A < bg
      · simp [h1]
      · by_cases h2 : bg = A
        · simp [h2]
        · simp only [h1, h2, if_false]
          cases b.split A with
          | error e => rfl
          | ok p => rfl

theorem flatMap_eq_self_of {α} (f : List α → List (List α)) (gs : List (List α))
    (h : ∀ g ∈ gs, f g = [g]) : gs.flatMap f = gs := by
  induction gs with
  | nil => rfl
  | cons g gs ih =>
    rw [List.flatMap_cons, h g (List.mem_cons_self ..), ih (fun g' hg' => h g' (List.mem_cons_of_mem _ hg'))]
    rfl

/-- `blocks.split(A)` on the runs: splits the run containing the instruction at `A` before it,
fails iff no instruction starts at `A` -/
theorem blocksSplit_groups (gs : List (List Ins)) (hI : GInv gs) (A : Nat) :
    (A ∈ gs.flatten.map (·.addr) →
      blocksSplit (gs.map newBlock) A = .ok ((gs.flatMap (groups (atAddr A))).map newBlock)) ∧
    (A ∉ gs.flatten.map (·.addr) → ∃ c, blocksSplit (gs.map newBlock) A = .error (.err c)) := by
  obtain ⟨k, hk, hcase⟩ := findBlock gs hI A
  rw [blocksSplit_unfold _ _ _ hk]
  rcases hcase with ⟨hkn, hall⟩ | ⟨pre, g, post, hgs, hkp, hpre, hAg, hpost⟩
  · have e : (gs.map newBlock)[k]? = none := by simp [hkn]
    rw [e]
    refine ⟨?_, fun _ => ⟨_, rfl⟩⟩
    intro hA
    obtain ⟨x, hx, hxA⟩ := List.mem_map.1 hA
    obtain ⟨h, hh, hxh⟩ := List.mem_flatten.1 hx
    have := hall h hh x hxh
    omega
  · have hgmem : g ∈ gs := by rw [hgs]; simp
    have hwg := hI.wf_mem hgmem
    have hcg := hI.contig _ hgmem
    obtain ⟨a, rest, hg⟩ : ∃ a rest, g = a :: rest := by
      cases g with
      | nil => exact absurd rfl (hI.ne _ hgmem)
      | cons a rest => exact ⟨a, rest, rfl⟩
    have e : (gs.map newBlock)[k]? = some (newBlock g) := by
      rw [hgs, hkp]; simp
    rw [e]
    have hbeg : (newBlock g).begin = .ok a.addr := by rw [hg]; rfl
    simp only [hbeg]
    have haE : a.addr < gEnd g := by rw [hg]; exact head_lt_gEnd a rest (hg ▸ hwg)
    -- every instruction of the run starts at or after `a`
    have hga : ∀ b ∈ g, a.addr ≤ b.addr := by
      intro b hb
      rw [hg] at hb hwg
      rcases List.mem_cons.1 hb with rfl | hb
      · exact Nat.le_refl _
      · have := (List.pairwise_cons.1 hwg.addr_lt).1 b hb; omega
    have hgtail : ∀ b ∈ g.tail, a.addr < b.addr := by
      intro b hb
      rw [hg] at hb hwg
      exact (List.pairwise_cons.1 hwg.addr_lt).1 b hb
    -- where an instruction at address `A` can be
    have hwhere : ∀ x ∈ gs.flatten, x.addr = A → x ∈ g := by
      intro x hx hxA
      rw [hgs] at hx
      simp only [List.flatten_append, List.flatten_cons, List.mem_append] at hx
      rcases hx with hx | hx | hx
      · obtain ⟨h, hh, hxh⟩ := List.mem_flatten.1 hx
        have := hpre h hh x hxh; omega
      · exact hx
      · obtain ⟨h, hh, hxh⟩ := List.mem_flatten.1 hx
        have := hpost h hh x hxh; omega
    by_cases h1 : A < a.addr
    · simp only [h1, if_true]
      refine ⟨?_, fun _ => ⟨_, rfl⟩⟩
      intro hA
      obtain ⟨x, hx, hxA⟩ := List.mem_map.1 hA
      have := hga x (hwhere x hx hxA)
      omega
    · by_cases h2 : a.addr = A
      · simp only [h2, if_true]
        constructor
        · intro _
          have eself : gs.flatMap (groups (atAddr A)) = gs := by
            apply flatMap_eq_self_of
            intro h hh
            apply groups_atAddr_none A h (hI.ne _ hh)
            intro b hb
            have hb' : b ∈ h := List.mem_of_mem_tail hb
            rw [hgs] at hh
            simp only [List.mem_append, List.mem_cons] at hh
            rcases hh with hh | rfl | hh
            · have := hpre h hh b hb'; omega
            · have := hgtail b hb; omega
            · have := hpost h hh b hb'; omega
          rw [eself]
          simp
        · intro hA
          exact absurd (List.mem_map.2 ⟨a, List.mem_flatten.2 ⟨g, hgmem, by rw [hg]; simp⟩, h2⟩) hA
      · simp only [h1, h2, if_false]
        have hlo : ∀ a' ∈ g.head?, a'.addr < A := by
          intro a' ha'
          rw [hg] at ha'
          simp at ha'
          subst ha'
          omega
        obtain ⟨hsa, hsb⟩ := blockSplit_spec g (hI.ne _ hgmem) hcg hwg A hlo hAg
        constructor
        · intro hA
          obtain ⟨x, hx, hxA⟩ := List.mem_map.1 hA
          have hxg := hwhere x hx hxA
          obtain ⟨s, y, t, hgst, hsne, hyA, hs, ht, hsp⟩ := hsa (List.mem_map.2 ⟨x, hxg, hxA⟩)
          rw [hsp]
          simp only
          have hklt : k < (gs.map newBlock).length := by rw [hgs, hkp]; simp
          rw [insertShift_eq _ _ _ _ hklt]
          congr 1
          have e1 : gs.flatMap (groups (atAddr A)) = pre ++ [s, y :: t] ++ post := by
            rw [hgs, List.flatMap_append, List.flatMap_cons]
            have ep : pre.flatMap (groups (atAddr A)) = pre := by
              apply flatMap_eq_self_of
              intro h hh
              apply groups_atAddr_none A h (hI.ne _ (by rw [hgs]; simp [hh]))
              intro b hb
              have := hpre h hh b (List.mem_of_mem_tail hb); omega
            have eq : post.flatMap (groups (atAddr A)) = post := by
              apply flatMap_eq_self_of
              intro h hh
              apply groups_atAddr_none A h (hI.ne _ (by rw [hgs]; simp [hh]))
              intro b hb
              have := hpost h hh b (List.mem_of_mem_tail hb); omega
            have eg : groups (atAddr A) g = [s, y :: t] := by
              rw [hgst]
              apply groups_atAddr_split A s y t hsne hyA
              · intro b hb
                have := hs b (List.mem_of_mem_tail hb); omega
              · intro b hb
                have := ht b hb; omega
            rw [ep, eq, eg]
            simp
          rw [e1, hgs, hkp]
          simp [List.drop_append]
        · intro hA
          have : A ∉ g.map (·.addr) := by
            intro hm
            obtain ⟨x, hx, hxA⟩ := List.mem_map.1 hm
            exact hA (List.mem_map.2 ⟨x, List.mem_flatten.2 ⟨g, hgmem, hx⟩, hxA⟩)
          obtain ⟨c, hc⟩ := hsb this
          exact ⟨c, by rw [hc]⟩

/-! ### no panic, for arbitrary instruction lists -/

theorem begin_ok_of_ne (b : Block) (h : b.seq ≠ []) : ∃ bg, b.begin = .ok bg ∧ ∀ x ∈ b.seq.head?, x.addr = bg := by
  unfold Block.begin
  cases hs : b.seq with
  | nil => exact absurd hs h
  | cons a rest => exact ⟨a.addr, rfl, by simp⟩

theorem last_ok_of_ne (b : Block) (h : b.seq ≠ []) : ∃ l, b.last = .ok l := by
  obtain ⟨bg, hbg, _⟩ := begin_ok_of_ne b h
  simp only [Block.last, hbg, bind, Except.bind, pure, Except.pure]
  exact ⟨_, rfl⟩

theorem blockSplit_nopanic (b : Block) (h : b.seq ≠ []) (A : Nat)
    (hb : ∀ x ∈ b.seq.head?, x.addr ≠ A) :
    b.split A ≠ .error .panic ∧
    ∀ b1 b2, b.split A = .ok (b1, b2) → b1.seq ≠ [] ∧ b2.seq ≠ [] := by
  obtain ⟨bg, hbg, hhead⟩ := begin_ok_of_ne b h
  obtain ⟨l, hl⟩ := last_ok_of_ne b h
  have hcont : b.contains A = .ok (decide (A ≥ bg) && decide (A ≤ l)) := by
    simp only [Block.contains, hbg, hl, bind, Except.bind, pure, Except.pure]
  obtain ⟨k, hk, hkn⟩ := search_total (insPred b.seq A) b.seq.length (by
    intro i hi
    simp only [insPred, List.getElem?_eq_getElem hi]
    exact ⟨_, rfl⟩)
  have hsplit : b.split A =
      if (decide (A ≥ bg) && decide (A ≤ l)) = false then .error (.err .notContained)
      else if k = b.seq.length then .error (.err .notFound) else
        match b.seq[k]? with
        | none => .error .panic
        | some x => if x.addr ≠ A then .error (.err .notBoundary)
                    else .ok (newBlock (b.seq.take k), newBlock (b.seq.drop k)) := by
    simp only [Block.split, hcont, bind, Except.bind, throw, throwThe, MonadExceptOf.throw,
      pure, Except.pure, hk]
    cases (decide (A ≥ bg) && decide (A ≤ l)) with
    | false => simp
    | true =>
      simp only [Bool.not_true, Bool.false_eq_true, if_false]
      by_cases hkl : k = b.seq.length
      · simp [hkl]
      · simp only [hkl, if_false]
        cases b.seq[k]? with
        | none => rfl
        | some x => by_cases hx : x.addr = A <;> simp [hx]
  rw [hsplit]
  cases hc : (decide (A ≥ bg) && decide (A ≤ l)) with
  | false => simp
  | true =>
    simp only [Bool.true_eq_false, if_false]
    by_cases hkl : k = b.seq.length
    · simp [hkl]
    · have hkl' : k < b.seq.length := by omega
      simp only [hkl, if_false, List.getElem?_eq_getElem hkl']
      by_cases hx : b.seq[k].addr = A
      · simp only [hx, ne_eq, not_true_eq_false, if_false]
        refine ⟨by simp, ?_⟩
        intro b1 b2 heq
        simp only [Except.ok.injEq, Prod.mk.injEq] at heq
        obtain ⟨rfl, rfl⟩ := heq
        have hk0 : k ≠ 0 := by
          intro h0
          subst h0
          have h0 : b.seq.head? = some b.seq[0] := by
            rw [List.head?_eq_getElem?]; exact List.getElem?_eq_getElem _
          exact hb b.seq[0] (by rw [h0]; rfl) hx
        constructor
        · simp only [newBlock]
          intro h0
          have h1 : (b.seq.take k).length = 0 := by rw [h0]; rfl
          rw [List.length_take] at h1
          omega
        · simp only [newBlock]
          intro h0
          have h1 : (b.seq.drop k).length = 0 := by rw [h0]; rfl
          rw [List.length_drop] at h1
          omega
      · simp [hx]

theorem blocksSplit_nopanic (bs : List Block) (hne : ∀ b ∈ bs, b.seq ≠ []) (A : Nat) :
    blocksSplit bs A ≠ .error .panic ∧
    ∀ bs', blocksSplit bs A = .ok bs' → ∀ b ∈ bs', b.seq ≠ [] := by
  obtain ⟨k, hk, hkn⟩ := search_total (blockPred bs A) bs.length (by
    intro i hi
    obtain ⟨l, hl⟩ := last_ok_of_ne bs[i] (hne _ (List.getElem_mem hi))
    simp only [blockPred, List.getElem?_eq_getElem hi, hl, bind, Except.bind, pure, Except.pure]
    exact ⟨_, rfl⟩)
  rw [blocksSplit_unfold bs A k hk]
  by_cases hkl : k < bs.length
  · have hmem : bs[k] ∈ bs := List.getElem_mem hkl
    simp only [List.getElem?_eq_getElem hkl]
    obtain ⟨bg, hbg, hhead⟩ := begin_ok_of_ne bs[k] (hne _ hmem)
    simp only [hbg]
    by_cases h1 : A < bg
    · simp [h1]
    · by_cases h2 : bg = A
      · have hAA : ¬ A < A := Nat.lt_irrefl _
        simp only [h2, if_true, hAA, if_false]
        refine ⟨(by intro h; cases h), ?_⟩
        intro bs' h
        simp only [Except.ok.injEq] at h
        subst h
        exact hne
      · simp only [h1, h2, if_false]
        obtain ⟨hnp, hok⟩ := blockSplit_nopanic bs[k] (hne _ hmem) A (by
          intro x hx hxa
          exact h2 ((hhead x hx).symm.trans hxa))
        cases hs : bs[k].split A with
        | error e =>
          simp only
          refine ⟨?_, by simp⟩
          intro he
          simp only [Except.error.injEq] at he
          exact hnp (by rw [hs, he])
        | ok p =>
          obtain ⟨b1, b2⟩ := p
          simp only
          refine ⟨by simp, ?_⟩
          intro bs' h
          simp only [Except.ok.injEq] at h
          subst h
          obtain ⟨h1', h2'⟩ := hok b1 b2 hs
          rw [insertShift_eq _ _ _ _ hkl]
          intro b hb
          simp only [List.mem_append, List.mem_cons] at hb
          rcases hb with hb | rfl | rfl | hb
          · exact hne b (List.mem_of_mem_take hb)
          · exact h1'
          · exact h2'
          · exact hne b (List.mem_of_mem_drop hb)
  · have : bs[k]? = none := by simp; omega
    simp [this]

end Mltwist.Lemmas.BasicBlock
