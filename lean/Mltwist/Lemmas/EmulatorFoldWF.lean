import Mltwist.Lemmas.Transform
/-
Emulator (C03), part 14: constant folding preserves well-formedness (every width stays between 1 and
255): `constFoldRaw`, `setWidth`, `prune`, `stripSame`, `purge`, `constFold`.
-/
namespace Mltwist.Lemmas.Emulator
open Mltwist Mltwist.Lemmas.Transform

theorem wf_const_iff (bs : List UInt8) : (Expr.const bs).wf = true ↔ 1 ≤ bs.length ∧ bs.length ≤ 255 := by
  simp [Expr.wf]

theorem wf_binary_iff (op : BinOp) (a b : Expr) (w : Nat) :
    (Expr.binary op a b w).wf = true ↔ (1 ≤ w ∧ w ≤ 255) ∧ a.wf = true ∧ b.wf = true := by
  simp [Expr.wf, and_assoc]

theorem wf_less_iff (a b t f : Expr) (w : Nat) :
    (Expr.less a b t f w).wf = true ↔ (1 ≤ w ∧ w ≤ 255) ∧ a.wf = true ∧ b.wf = true ∧ t.wf = true ∧ f.wf = true := by
  simp [Expr.wf, and_assoc]

theorem wf_memLoad_iff (k : String) (a : Expr) (w : Nat) :
    (Expr.memLoad k a w).wf = true ↔ (1 ≤ w ∧ w ≤ 255) ∧ a.wf = true := by
  simp [Expr.wf, and_assoc]

theorem wf_regLoad_iff (k : String) (w : Nat) : (Expr.regLoad k w).wf = true ↔ 1 ≤ w ∧ w ≤ 255 := by
  simp [Expr.wf]

theorem wf_zero : Expr.zero.wf = true := by decide

theorem setWidth_wf {e : Expr} (h : e.wf = true) {n : Nat} (h1 : 1 ≤ n) (h2 : n ≤ 255) :
    (setWidth e n).wf = true := by
  unfold setWidth
  split
  · exact h
  · cases e with
    | const bs =>
      rw [wf_const_iff, exprevalSetWidth_length]
      exact ⟨h1, h2⟩
    | regLoad k w =>
      simp only
      split
      · unfold newWidthGadget
        rw [wf_binary_iff]
        exact ⟨⟨h1, h2⟩, h, wf_zero⟩
      · rw [wf_regLoad_iff]; exact ⟨h1, h2⟩
    | memLoad k a w =>
      unfold newWidthGadget
      rw [wf_binary_iff]
      exact ⟨⟨h1, h2⟩, h, wf_zero⟩
    | binary op a b w =>
      unfold newWidthGadget
      rw [wf_binary_iff]
      exact ⟨⟨h1, h2⟩, h, wf_zero⟩
    | less a b t f w =>
      unfold newWidthGadget
      rw [wf_binary_iff]
      exact ⟨⟨h1, h2⟩, h, wf_zero⟩

theorem cfr_wf : ∀ e : Expr, e.wf = true → (constFoldRaw e).wf = true
  | .const bs, h => by rw [cfr_const]; exact h
  | .regLoad k w, h => by rw [cfr_regLoad]; exact h
  | .memLoad k a w, h => by
    rw [cfr_memLoad, wf_memLoad_iff]
    rw [wf_memLoad_iff] at h
    exact ⟨h.1, cfr_wf a h.2⟩
  | .binary op a b w, h => by
    rw [wf_binary_iff] at h
    rcases cfr_binary_cases op a b w with ⟨c1, c2, _, _, hh⟩ | ⟨_, hh⟩
    · rw [hh, wf_const_iff, Lemmas.Expreval.binary_length]
      exact h.1
    · rw [hh, wf_binary_iff]
      exact ⟨h.1, cfr_wf a h.2.1, cfr_wf b h.2.2⟩
  | .less a b t f w, h => by
    rw [wf_less_iff] at h
    rcases cfr_less_cases a b t f w with ⟨c1, c2, _, _, hh⟩ | ⟨_, hh⟩
    · rw [hh]
      apply setWidth_wf _ h.1.1 h.1.2
      split
      · exact cfr_wf t h.2.2.2.1
      · exact cfr_wf f h.2.2.2.2
    · rw [hh, wf_less_iff]
      exact ⟨h.1, cfr_wf a h.2.1, cfr_wf b h.2.2.1, cfr_wf t h.2.2.2.1, cfr_wf f h.2.2.2.2⟩

theorem prune_wf (e : Expr) (w : Nat) (h : e.wf = true) : (prune e w).wf = true := by
  induction e with
  | binary op a b x iha ihb =>
    rw [prune_binary]
    split
    · rw [wf_binary_iff] at h
      exact iha h.2.1
    · exact h
  | _ => simpa [prune] using h

theorem stripSame_wf (e : Expr) (h : e.wf = true) : (stripSame e).wf = true := by
  induction e with
  | binary op a b x iha ihb =>
    rw [stripSame_binary]
    split
    · rw [wf_binary_iff] at h
      exact iha h.2.1
    · exact h
  | _ => simpa [stripSame] using h

theorem purge_wf : ∀ e : Expr, e.wf = true → (purge e).wf = true
  | .const bs, h => by simpa [purge] using h
  | .regLoad k w, h => by simpa [purge] using h
  | .memLoad k a w, h => by
    rw [wf_memLoad_iff] at h
    simp only [purge]
    rw [wf_memLoad_iff]
    exact ⟨h.1, stripSame_wf _ (purge_wf a h.2)⟩
  | .binary op a b w, h => by
    rw [wf_binary_iff] at h
    simp only [purge]
    rw [wf_binary_iff]
    exact ⟨h.1, prune_wf _ _ (purge_wf a h.2.1), prune_wf _ _ (purge_wf b h.2.2)⟩
  | .less a b t f w, h => by
    rw [wf_less_iff] at h
    simp only [purge]
    rw [wf_less_iff]
    exact ⟨h.1, prune_wf _ _ (purge_wf a h.2.1), prune_wf _ _ (purge_wf b h.2.2.1),
      prune_wf _ _ (purge_wf t h.2.2.2.1), prune_wf _ _ (purge_wf f h.2.2.2.2)⟩

/-- `ConstFold` keeps every width between 1 and 255 -/
theorem constFold_wf (e : Expr) (h : e.wf = true) : (constFold e).wf = true := by
  unfold constFold purgeWidthGadgets
  exact stripSame_wf _ (purge_wf _ (cfr_wf e h))

end Mltwist.Lemmas.Emulator
