import Mltwist.Model.Riscv
import Mltwist.Lemmas.RiscvTextStr
/-
C25, argument level: `Entry.text` factors through the list of argument tokens `Entry.args`, whose
shape depends only on the entry's flags (`argsF`); the token list determines every field it shows.
-/
namespace Mltwist.Lemmas.RiscvTextArgs
open Mltwist Mltwist.Riscv Mltwist.Lemmas.RiscvTextStr

/-- `imm(last)` -/
def wrapTok (a b : String) : String := s!"{a}({b})"

theorem wrapTok_def (a b : String) : wrapTok a b = a ++ "(" ++ b ++ ")" := rfl

/-- the store case of `String()`: swap the last two arguments -/
def swapLast2 (l : List String) : List String :=
  match l.reverse with
  | a :: b :: rest => (b :: a :: rest).reverse
  | l => l.reverse

/-- the load/store case of `String()`: the last argument becomes `imm(last)` -/
def wrapLast (immStr : String) (l : List String) : List String :=
  match l.reverse with
  | last :: rest => (wrapTok immStr last :: rest).reverse
  | [] => []

/-- the argument tokens as a function of the entry's flags and of the instruction's fields -/
def argsF (o r1 r2 u hasImm st ld : Bool) (rd rs1 rs2 : Nat) (imm : Int) : List String :=
  let as0 : List String :=
    (if o then [regName rd] else []) ++ (if r1 then [regName rs1] else []) ++
    (if r2 then [regName rs2] else []) ++ (if u then [toString rs1] else [])
  if hasImm then
    let sw := if st then swapLast2 as0 else as0
    if ld || st then wrapLast (toString imm) sw else sw ++ [toString imm]
  else as0

/-- the argument tokens of `instruction.String()` -/
def args (e : Entry) (i : Ins) : List String :=
  argsF e.hasOutputReg (decide (e.inputRegCnt > 0)) (decide (e.inputRegCnt > 1)) e.uimm
    (immParse e.imm i.value).2 (decide (e.storeBytes > 0)) (decide (e.loadBytes > 0))
    (regNum .rd i.value) (regNum .rs1 i.value) (regNum .rs2 i.value) (immParse e.imm i.value).1

theorem text_eq (e : Entry) (i : Ins) :
    e.text i = e.name ++ " " ++ ", ".intercalate (args e i) := by
  unfold Entry.text args argsF swapLast2 wrapLast wrapTok
  rcases h : immParse e.imm i.value with ⟨imm, b⟩
  cases b <;> simp <;> rfl

/-! ### tokens -/

theorem regName_inj {m n : Nat} : regName m = regName n ↔ m = n := by
  unfold regName; rw [String.append_right_inj, natToString_inj]

theorem comma_notMem_regName (n : Nat) : ',' ∉ (regName n).toList := by
  unfold regName
  have hx : "x".toList = ['x'] := by decide
  simp only [String.toList_append, hx, List.mem_append, List.mem_singleton, not_or]
  exact ⟨by decide, comma_notMem_natRepr n⟩

theorem comma_notMem_wrapTok (a : Int) (n : Nat) : ',' ∉ (wrapTok (toString a) (regName n)).toList := by
  rw [wrapTok_def]
  have h1 : "(".toList = ['('] := by decide
  have h2 : ")".toList = [')'] := by decide
  simp only [String.toList_append, h1, h2, List.mem_append, List.mem_singleton, not_or]
  exact ⟨⟨⟨comma_notMem_intRepr a, by decide⟩, comma_notMem_regName n⟩, by decide⟩

theorem comma_notMem_wrapTok' (a : Int) (n : Nat) : ',' ∉ (wrapTok (toString a) (toString n)).toList := by
  rw [wrapTok_def]
  have h1 : "(".toList = ['('] := by decide
  have h2 : ")".toList = [')'] := by decide
  simp only [String.toList_append, h1, h2, List.mem_append, List.mem_singleton, not_or]
  exact ⟨⟨⟨comma_notMem_intRepr a, by decide⟩, comma_notMem_natRepr n⟩, by decide⟩

theorem wrapTok_inj {a a' : Int} {b b' : String} :
    wrapTok (toString a) b = wrapTok (toString a') b' ↔ a = a' ∧ b = b' := by
  constructor
  · intro h
    rw [wrapTok_def, wrapTok_def] at h
    have h' := congrArg String.toList h
    have h1 : "(".toList = ['('] := by decide
    simp only [String.toList_append, h1, List.append_assoc, List.singleton_append] at h'
    have hs := split_unique (paren_notMem_intRepr a) (paren_notMem_intRepr a') h'
    exact ⟨intToString_inj.1 (String.toList_inj.1 hs.1),
      String.toList_inj.1 (List.append_cancel_right hs.2)⟩
  · rintro ⟨rfl, rfl⟩; rfl

/-! the same facts in `simp` normal form (`toString n` is rewritten to `n.repr`) -/

theorem comma_notMem_toDigits (n : Nat) : ',' ∉ Nat.toDigits 10 n := by
  have := comma_notMem_natRepr n
  rwa [Nat.toString_eq_repr, Nat.toList_repr] at this

theorem comma_notMem_intRepr' (a : Int) : ',' ∉ a.repr.toList := comma_notMem_intRepr a

theorem comma_notMem_wrapTok_r (a : Int) (n : Nat) : ',' ∉ (wrapTok a.repr (regName n)).toList :=
  comma_notMem_wrapTok a n

theorem comma_notMem_wrapTok_n (a : Int) (n : Nat) : ',' ∉ (wrapTok a.repr n.repr).toList :=
  comma_notMem_wrapTok' a n

theorem wrapTok_inj' {a a' : Int} {b b' : String} :
    wrapTok a.repr b = wrapTok a'.repr b' ↔ a = a' ∧ b = b' := wrapTok_inj

/-! ### the token list as a function of the flags -/

theorem argsF_length (o r1 r2 u hasImm st ld : Bool) (rd rs1 rs2 : Nat) (imm : Int)
    (rd' rs1' rs2' : Nat) (imm' : Int) :
    (argsF o r1 r2 u hasImm st ld rd rs1 rs2 imm).length =
      (argsF o r1 r2 u hasImm st ld rd' rs1' rs2' imm').length := by
  cases o <;> cases r1 <;> cases r2 <;> cases u <;> cases hasImm <;> cases st <;> cases ld <;>
    simp [argsF, swapLast2, wrapLast]

theorem argsF_comma (o r1 r2 u hasImm st ld : Bool) (rd rs1 rs2 : Nat) (imm : Int) :
    ∀ t ∈ argsF o r1 r2 u hasImm st ld rd rs1 rs2 imm, ',' ∉ t.toList := by
  cases o <;> cases r1 <;> cases r2 <;> cases u <;> cases hasImm <;> cases st <;> cases ld <;>
    simp [argsF, swapLast2, wrapLast, comma_notMem_regName, comma_notMem_wrapTok_r,
      comma_notMem_wrapTok_n, comma_notMem_toDigits, comma_notMem_intRepr']

/-- equal token lists: every shown field is equal.  The immediate is shown if the immediate type
has a value, except in the degenerate load/store case without any register argument. -/
theorem argsF_inj (o r1 r2 u hasImm st ld : Bool) (rd rs1 rs2 : Nat) (imm : Int)
    (rd' rs1' rs2' : Nat) (imm' : Int)
    (h : argsF o r1 r2 u hasImm st ld rd rs1 rs2 imm = argsF o r1 r2 u hasImm st ld rd' rs1' rs2' imm') :
    (o = true → rd = rd') ∧ (r1 = true ∨ u = true → rs1 = rs1') ∧ (r2 = true → rs2 = rs2') ∧
    (hasImm = true → ((ld || st) = true → (o || r1 || r2 || u) = true) → imm = imm') := by
  revert h
  cases o <;> cases r1 <;> cases r2 <;> cases u <;> cases hasImm <;> cases st <;> cases ld <;>
    simp [argsF, swapLast2, wrapLast, regName_inj, Nat.repr_inj, Int.repr_inj, wrapTok_inj'] <;>
    (intros; simp_all)

/-! ### entries -/

theorem immParse_snd (t : ImmType) (v : Nat) : (immParse t v).2 = (t != .R) := by
  cases t <;> rfl

theorem immParse_R (v : Nat) : (immParse .R v).1 = 0 := rfl

/-- the flags are such that an immediate with a value is always printed: a load/store entry with
an immediate has at least one register argument (to be wrapped as `imm(xN)`) -/
def WF (e : Entry) : Bool :=
  !(e.imm != .R && (decide (e.loadBytes > 0) || decide (e.storeBytes > 0))) ||
    (e.hasOutputReg || decide (e.inputRegCnt > 0) || decide (e.inputRegCnt > 1) || e.uimm)

/-- the fields of the word that the text of entry `e` shows agree on `w1`, `w2` -/
def SameShown (e : Entry) (w1 w2 : Nat) : Prop :=
  (e.hasOutputReg = true → regNum .rd w1 = regNum .rd w2) ∧
  (0 < e.inputRegCnt ∨ e.uimm = true → regNum .rs1 w1 = regNum .rs1 w2) ∧
  (1 < e.inputRegCnt → regNum .rs2 w1 = regNum .rs2 w2) ∧
  (immParse e.imm w1).1 = (immParse e.imm w2).1

/-- (c) field determination: equal argument tokens ⇒ equal shown fields -/
theorem args_shown (e : Entry) (hwf : WF e = true) (a1 a2 w1 w2 : Nat)
    (h : args e ⟨a1, w1⟩ = args e ⟨a2, w2⟩) : SameShown e w1 w2 := by
  unfold args at h
  simp only [immParse_snd] at h
  have := argsF_inj _ _ _ _ _ _ _ _ _ _ _ _ _ _ _ h
  obtain ⟨h1, h2, h3, h4⟩ := this
  refine ⟨h1, ?_, ?_, ?_⟩
  · intro hh; apply h2; simpa using hh
  · intro hh; apply h3; simpa using hh
  · by_cases hR : e.imm = .R
    · rw [hR]; rfl
    · apply h4
      · simpa using hR
      · intro hls
        unfold WF at hwf
        have hne : (e.imm != .R) = true := by simpa using hR
        rw [hne] at hwf
        cases hb : (decide (e.loadBytes > 0) || decide (e.storeBytes > 0))
        · rw [hb] at hls; cases hls
        · rw [hb] at hwf; simpa using hwf

/-- (b) for one entry: equal texts ⇒ equal argument tokens -/
theorem args_of_text (e : Entry) (i1 i2 : Ins) (h : e.text i1 = e.text i2) : args e i1 = args e i2 := by
  rw [text_eq, text_eq, String.append_right_inj] at h
  refine str_intercalate_inj ?_ ?_ ?_ h
  · unfold args; simp only [immParse_snd]; exact argsF_length ..
  · unfold args; exact argsF_comma _ _ _ _ _ _ _ _ _ _ _
  · unfold args; exact argsF_comma _ _ _ _ _ _ _ _ _ _ _

/-- (b) mnemonics without a space are determined by the text -/
theorem name_of_text (e1 e2 : Entry) (i1 i2 : Ins) (h1 : ' ' ∉ e1.name.toList)
    (h2 : ' ' ∉ e2.name.toList) (h : e1.text i1 = e2.text i2) : e1.name = e2.name := by
  rw [text_eq, text_eq] at h
  exact (str_split_unique (c := ' ') h1 h2 h).1

end Mltwist.Lemmas.RiscvTextArgs
