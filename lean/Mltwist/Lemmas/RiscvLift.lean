import Mltwist.Model.RiscvTables
import Mltwist.Spec.RiscvLift
import Mltwist.Lemmas.RiscvDecode
import Mltwist.Lemmas.RiscvLiftValues
import Mltwist.Lemmas.RiscvLiftValuesM
import Mltwist.Lemmas.RiscvLiftValues64
import Mltwist.Lemmas.RiscvLiftX0
/-
Helper lemmas for C01: every table entry lifts correctly.

The library is in `RiscvLiftBasic` (naming, arithmetic bridges, `Rel` after a write), `RiscvLiftExec`
(`exec_<mnemonic>`: the reference in closed form), `RiscvLiftFields` (word fields, `Ctx`, evaluation
of atoms), `RiscvLiftShapes` (`StepOK.of_*`: one lemma per effect-list shape), `RiscvLiftValues`
(`Ctx.eval_*`: the value of each lifted expression; `RiscvLiftValuesM`: M extension;
`RiscvLiftValues64`: `lui` and the `…w` forms of RV64), `RiscvLiftX0` (`x0` is never written).  Overview: `/verif/incoming/c01/LIBRARY.md`.

An entry proof is one line: `lift32 h hnw => .of_<shape> h (exec_<mnemonic> ..) (h.eval_<op> _)`.
-/
namespace Mltwist.Lemmas.RiscvLift
open Mltwist Mltwist.Riscv Mltwist.Spec.Rv Mltwist.Spec.Lift
open Mltwist.Lemmas.RiscvDecode (Cfg)

/-- The lifted effects of table entry `e` implement the reference semantics of its mnemonic:
for every word matching the entry, from every machine state `s` (represented by the valuation `ρ`),
the reference executes the instruction, and applying the lifted effects (all evaluated in the
pre-state, applied in order; an IP write is a jump, otherwise fall through) yields a valuation
representing the reference post-state, with the same next instruction pointer. -/
def LiftOK (xlen : Nat) (e : Entry) : Prop :=
  ∀ (w : Nat) (s : St) (ρ : Env), w < 2 ^ 32 → e.matchesWord w = true → St.WF xlen s → Rel ρ s →
    noWrap xlen e.name w s = true →
    ∃ s', Spec.Rv.exec xlen e.name w s = some s' ∧
      Rel (Env.applyEffects ρ (e.validEffects ⟨s.pc, w⟩)) s' ∧
      nextIp ρ (e.validEffects ⟨s.pc, w⟩) ((s.pc + 4) % 2 ^ xlen) = s'.pc ∧
      St.WF xlen s'

/-- `LiftOK` from `StepOK` (RV32): the hypotheses are bundled into `h : Ctx 32 4 ρ s w`; the
remaining ones are the pattern match and `noWrap`. -/
theorem LiftOK.of_step32 {e : Entry}
    (H : ∀ (w : Nat) (s : St) (ρ : Env), Ctx 32 4 ρ s w → e.matchesWord w = true →
      noWrap 32 e.name w s = true → StepOK 32 e.name w s ρ (e.effects ⟨s.pc, w⟩)) : LiftOK 32 e :=
  fun w s ρ hw hm hwf hrel hnw => H w s ρ (Ctx.mk32 hw hwf hrel) hm hnw

/-- `LiftOK` from `StepOK` (RV64) -/
theorem LiftOK.of_step64 {e : Entry}
    (H : ∀ (w : Nat) (s : St) (ρ : Env), Ctx 64 8 ρ s w → e.matchesWord w = true →
      noWrap 64 e.name w s = true → StepOK 64 e.name w s ρ (e.effects ⟨s.pc, w⟩)) : LiftOK 64 e :=
  fun w s ρ hw hm hwf hrel hnw => H w s ρ (Ctx.mk64 hw hwf hrel) hm hnw

/-- `lift32 h hnw => t`: prove `LiftOK 32 e` by the `StepOK` term `t`, which may use
`h : Ctx 32 4 ρ s w` and `hnw : noWrap 32 e.name w s = true` (word `w`, state `s` are implicit:
write `exec_addi ..`, `h.eval_addI _`). -/
macro "lift32 " h:ident hnw:ident " => " t:term : tactic =>
  `(tactic| exact LiftOK.of_step32 (fun _ _ _ $h _ $hnw => $t))
/-- the same for `LiftOK 64 e`, with `h : Ctx 64 8 ρ s w` -/
macro "lift64 " h:ident hnw:ident " => " t:term : tactic =>
  `(tactic| exact LiftOK.of_step64 (fun _ _ _ $h _ $hnw => $t))

/-- split `∀ e ∈ [e₁, …, eₙ], P e` into `P e₁ ∧ … ∧ P eₙ` (after `unfold Gen.<table>`) -/
macro "split_table" : tactic =>
  `(tactic| simp only [List.forall_mem_cons, List.not_mem_nil, false_imp_iff, implies_true, and_true])

theorem integer32_ok : ∀ e ∈ Gen.integer32, LiftOK 32 e := by
  unfold Gen.integer32
  split_table
  refine ⟨?lui, ?auipc, ?jal, ?jalr, ?beq, ?bne, ?blt, ?bge, ?bltu, ?bgeu, ?lb, ?lh, ?lw, ?lbu, ?lhu,
    ?sb, ?sh, ?sw, ?addi, ?slti, ?sltiu, ?xori, ?ori, ?andi, ?slli, ?srli, ?srai, ?add, ?sub, ?slt,
    ?sltu, ?or, ?and, ?xor, ?sll, ?srl, ?sra, ?fence, ?fence_i, ?ecall, ?ebreak, ?csrrw, ?csrrs,
    ?csrrc, ?csrrwi, ?csrrsi, ?csrrci⟩
  case lui => lift32 h _hnw => .of_wr h (exec_lui ..) h.eval_lui
  case auipc => lift32 h _hnw => .of_wr h (exec_auipc ..) h.eval_auipc
  case jal =>
    lift32 h _hnw => .of_jump h (exec_jal ..) h.eval_addrImmConst_J (wrap_lt _ _) h.eval_following
  case jalr =>
    lift32 h _hnw => .of_jump h (exec_jalr ..) (h.eval_jumpTarget _) (Ctx.jumpTarget_lt _ _ _)
      h.eval_following
  case beq => lift32 h _hnw => .of_br h (exec_beq ..) (h.cond_eq _) (hc_beq _ _)
  case bne => lift32 h _hnw => .of_br h (exec_bne ..) (h.cond_eq _) (hc_bne _ _)
  case blt => lift32 h _hnw => .of_br h (exec_blt ..) (h.cond_lts _) rfl
  case bge => lift32 h _hnw => .of_br h (exec_bge ..) (h.cond_lts _) rfl
  case bltu => lift32 h _hnw => .of_br h (exec_bltu ..) (h.cond_ltu _) rfl
  case bgeu => lift32 h _hnw => .of_br h (exec_bgeu ..) (h.cond_ltu _) rfl
  case lb =>
    lift32 h hnw => .of_wr h (exec_lb ..)
      (h.eval_load_sext _ 1 7 (le_of_noWrap_lb _ _ _ hnw) (by decide))
  case lh =>
    lift32 h hnw => .of_wr h (exec_lh ..)
      (h.eval_load_sext _ 2 15 (le_of_noWrap_lh _ _ _ hnw) (by decide))
  case lw =>
    lift32 h hnw => .of_wr h (exec_lw ..) (h.eval_load _ 4 (le_of_noWrap_lw _ _ _ hnw))
      (Ctx.mod_sext_self _ 32)
  case lbu => lift32 h hnw => .of_wr h (exec_lbu ..) (h.eval_load _ 1 (le_of_noWrap_lbu _ _ _ hnw))
  case lhu => lift32 h hnw => .of_wr h (exec_lhu ..) (h.eval_load _ 2 (le_of_noWrap_lhu _ _ _ hnw))
  case sb =>
    lift32 h hnw => .of_store h (exec_sb ..) (h.eval_addS _) (Ctx.stAddr_lt _ _ _)
      (le_of_noWrap_sb _ _ _ hnw) (h.store_val _ 1)
  case sh =>
    lift32 h hnw => .of_store h (exec_sh ..) (h.eval_addS _) (Ctx.stAddr_lt _ _ _)
      (le_of_noWrap_sh _ _ _ hnw) (h.store_val _ 2)
  case sw =>
    lift32 h hnw => .of_store h (exec_sw ..) (h.eval_addS _) (Ctx.stAddr_lt _ _ _)
      (le_of_noWrap_sw _ _ _ hnw) (h.store_val _ 4)
  case addi => lift32 h _hnw => .of_wr h (exec_addi ..) (h.eval_addI _)
  case slti => lift32 h _hnw => .of_wr h (exec_slti ..) (h.eval_slti _)
  case sltiu => lift32 h _hnw => .of_wr h (exec_sltiu ..) (h.eval_sltiu _)
  case xori => lift32 h _hnw => .of_wr h (exec_xori ..) (h.eval_xori _)
  case ori => lift32 h _hnw => .of_wr h (exec_ori ..) (h.eval_ori _)
  case andi => lift32 h _hnw => .of_wr h (exec_andi ..) (h.eval_andi _)
  case slli => lift32 h _hnw => .of_wr h (exec_slli32 ..) (h.eval_slli _ (k := 5) rfl)
  case srli => lift32 h _hnw => .of_wr h (exec_srli32 ..) (h.eval_srli _ (k := 5) rfl)
  case srai => lift32 h _hnw => .of_wr h (exec_srai32 ..) (h.eval_srai _ (k := 5) rfl)
  case add => lift32 h _hnw => .of_wr h (exec_add ..) (h.eval_add _)
  case sub => lift32 h _hnw => .of_wr h (exec_sub ..) (h.eval_sub _)
  case slt => lift32 h _hnw => .of_wr h (exec_slt ..) (h.eval_slt _)
  case sltu => lift32 h _hnw => .of_wr h (exec_sltu ..) (h.eval_sltu _)
  case or => lift32 h _hnw => .of_wr h (exec_or ..) (h.eval_or _)
  case and => lift32 h _hnw => .of_wr h (exec_and ..) (h.eval_and _)
  case xor => lift32 h _hnw => .of_wr h (exec_xor ..) (h.eval_xor _)
  case sll => lift32 h _hnw => .of_wr h (exec_sll ..) (h.eval_sll _ (k := 5) rfl)
  case srl => lift32 h _hnw => .of_wr h (exec_srl ..) (h.eval_srl _ (k := 5) rfl)
  case sra => lift32 h _hnw => .of_wr h (exec_sra ..) (h.eval_sra _ (k := 5) rfl)
  case fence => lift32 h _hnw => .of_nop h (exec_fence ..)
  case fence_i => lift32 h _hnw => .of_nop h (exec_fence_i ..)
  case ecall => lift32 h _hnw => .of_nop h (exec_ecall ..)
  case ebreak => lift32 h _hnw => .of_nop h (exec_ebreak ..)
  case csrrw => lift32 h _hnw => .of_csr h (exec_csrrw ..) (h.eval_rs1 _)
  case csrrs => lift32 h _hnw => .of_csr h (exec_csrrs ..) (h.eval_csrrs _)
  case csrrc => lift32 h _hnw => .of_csr h (exec_csrrc ..) (h.eval_csrrc _)
  case csrrwi => lift32 h _hnw => .of_csr h (exec_csrrwi ..) (h.eval_csrImm _)
  case csrrsi => lift32 h _hnw => .of_csr h (exec_csrrsi ..) (h.eval_csrrsi _)
  case csrrci => lift32 h _hnw => .of_csr h (exec_csrrci ..) (h.eval_csrrci _)

theorem mul32_ok : ∀ e ∈ Gen.mul32, LiftOK 32 e := by
  unfold Gen.mul32
  split_table
  refine ⟨?mul, ?mulh, ?mulhu, ?mulhsu, ?div, ?divu, ?rem, ?remu⟩
  case mul => lift32 h _hnw => .of_wr h (exec_mul ..) (h.eval_mul _)
  case mulh => lift32 h _hnw => .of_wr h (exec_mulh ..) (h.eval_mulh _)
  case mulhu => lift32 h _hnw => .of_wr h (exec_mulhu ..) (h.eval_mulhu _)
  case mulhsu => lift32 h _hnw => .of_wr h (exec_mulhsu ..) (h.eval_mulhsu _)
  case div => lift32 h _hnw => .of_wr h (exec_div ..) (h.eval_div _)
  case divu => lift32 h _hnw => .of_wr h (exec_divu ..) (h.eval_divu _)
  case rem => lift32 h _hnw => .of_wr h (exec_rem ..) (h.eval_rem _)
  case remu => lift32 h _hnw => .of_wr h (exec_remu ..) (h.eval_remu _)

theorem atomic32_ok : ∀ e ∈ Gen.atomic32, LiftOK 32 e := by
  unfold Gen.atomic32
  split_table
  refine ⟨?lr, ?sc, ?amoswap, ?amoadd, ?amoxor, ?amoand, ?amoor, ?amomin, ?amomax, ?amominu,
    ?amomaxu⟩
  case lr =>
    lift32 h hnw => .of_wr h (exec_lr_w ..) (h.eval_amoLoad _ 4 (le_of_noWrap_lr_w _ _ _ hnw))
      (Ctx.mod_sext_self _ 32)
  case sc =>
    lift32 h hnw => .of_sc h (exec_sc_w ..) (Ctx.trunc_eval_zero _ _) (h.eval_rs1 _) (h.get_lt _)
      (le_of_noWrap_sc_w _ _ _ hnw) (h.store_val _ 4)
  case amoswap =>
    lift32 h hnw => .of_amo h (exec_amoswap_w ..) (h.amo_rd _ (le_of_noWrap_amoswap_w _ _ _ hnw))
      (h.eval_rs1 _) (h.get_lt _) (le_of_noWrap_amoswap_w _ _ _ hnw) (h.amo_swap _ 4)
  case amoadd =>
    lift32 h hnw => .of_amo h (exec_amoadd_w ..) (h.amo_rd _ (le_of_noWrap_amoadd_w _ _ _ hnw))
      (h.eval_rs1 _) (h.get_lt _) (le_of_noWrap_amoadd_w _ _ _ hnw)
      (h.amo_add _ 4 (le_of_noWrap_amoadd_w _ _ _ hnw))
  case amoxor =>
    lift32 h hnw => .of_amo h (exec_amoxor_w ..) (h.amo_rd _ (le_of_noWrap_amoxor_w _ _ _ hnw))
      (h.eval_rs1 _) (h.get_lt _) (le_of_noWrap_amoxor_w _ _ _ hnw)
      (h.amo_xor _ 4 (le_of_noWrap_amoxor_w _ _ _ hnw))
  case amoand =>
    lift32 h hnw => .of_amo h (exec_amoand_w ..) (h.amo_rd _ (le_of_noWrap_amoand_w _ _ _ hnw))
      (h.eval_rs1 _) (h.get_lt _) (le_of_noWrap_amoand_w _ _ _ hnw)
      (h.amo_and _ 4 (le_of_noWrap_amoand_w _ _ _ hnw))
  case amoor =>
    lift32 h hnw => .of_amo h (exec_amoor_w ..) (h.amo_rd _ (le_of_noWrap_amoor_w _ _ _ hnw))
      (h.eval_rs1 _) (h.get_lt _) (le_of_noWrap_amoor_w _ _ _ hnw)
      (h.amo_or _ 4 (le_of_noWrap_amoor_w _ _ _ hnw))
  case amomin =>
    lift32 h hnw => .of_amo h (exec_amomin_w ..) (h.amo_rd _ (le_of_noWrap_amomin_w _ _ _ hnw))
      (h.eval_rs1 _) (h.get_lt _) (le_of_noWrap_amomin_w _ _ _ hnw)
      (h.amo_smin _ 4 (le_of_noWrap_amomin_w _ _ _ hnw) (by decide) (by decide))
  case amomax =>
    lift32 h hnw => .of_amo h (exec_amomax_w ..) (h.amo_rd _ (le_of_noWrap_amomax_w _ _ _ hnw))
      (h.eval_rs1 _) (h.get_lt _) (le_of_noWrap_amomax_w _ _ _ hnw)
      (h.amo_smax _ 4 (le_of_noWrap_amomax_w _ _ _ hnw) (by decide) (by decide))
  case amominu =>
    lift32 h hnw => .of_amo h (exec_amominu_w ..) (h.amo_rd _ (le_of_noWrap_amominu_w _ _ _ hnw))
      (h.eval_rs1 _) (h.get_lt _) (le_of_noWrap_amominu_w _ _ _ hnw)
      (h.amo_minu _ 4 (le_of_noWrap_amominu_w _ _ _ hnw))
  case amomaxu =>
    lift32 h hnw => .of_amo h (exec_amomaxu_w ..) (h.amo_rd _ (le_of_noWrap_amomaxu_w _ _ _ hnw))
      (h.eval_rs1 _) (h.get_lt _) (le_of_noWrap_amomaxu_w _ _ _ hnw)
      (h.amo_maxu _ 4 (le_of_noWrap_amomaxu_w _ _ _ hnw))

theorem integer64_ok : ∀ e ∈ Gen.integer64, LiftOK 64 e := by
  unfold Gen.integer64
  split_table
  refine ⟨?lui, ?auipc, ?jal, ?jalr, ?beq, ?bne, ?blt, ?bge, ?bltu, ?bgeu, ?lb, ?lh, ?lw, ?ld, ?lbu,
    ?lhu, ?lwu, ?sb, ?sh, ?sw, ?sd, ?addi, ?slti, ?sltiu, ?xori, ?ori, ?andi, ?slli, ?srli, ?srai,
    ?add, ?sub, ?slt, ?sltu, ?or, ?and, ?xor, ?sll, ?srl, ?sra, ?fence, ?fence_i, ?ecall, ?ebreak,
    ?csrrw, ?csrrs, ?csrrc, ?csrrwi, ?csrrsi, ?csrrci, ?addiw, ?slliw, ?srliw, ?sraiw, ?addw, ?subw,
    ?sllw, ?srlw, ?sraw⟩
  case lui => lift64 h _hnw => .of_wr h (exec_lui ..) h.eval_lui64
  case auipc => lift64 h _hnw => .of_wr h (exec_auipc ..) h.eval_auipc
  case jal =>
    lift64 h _hnw => .of_jump h (exec_jal ..) h.eval_addrImmConst_J (wrap_lt _ _) h.eval_following
  case jalr =>
    lift64 h _hnw => .of_jump h (exec_jalr ..) (h.eval_jumpTarget _) (Ctx.jumpTarget_lt _ _ _)
      h.eval_following
  case beq => lift64 h _hnw => .of_br h (exec_beq ..) (h.cond_eq _) (hc_beq _ _)
  case bne => lift64 h _hnw => .of_br h (exec_bne ..) (h.cond_eq _) (hc_bne _ _)
  case blt => lift64 h _hnw => .of_br h (exec_blt ..) (h.cond_lts _) rfl
  case bge => lift64 h _hnw => .of_br h (exec_bge ..) (h.cond_lts _) rfl
  case bltu => lift64 h _hnw => .of_br h (exec_bltu ..) (h.cond_ltu _) rfl
  case bgeu => lift64 h _hnw => .of_br h (exec_bgeu ..) (h.cond_ltu _) rfl
  case lb =>
    lift64 h hnw => .of_wr h (exec_lb ..)
      (h.eval_load_sext _ 1 7 (le_of_noWrap_lb _ _ _ hnw) (by decide))
  case lh =>
    lift64 h hnw => .of_wr h (exec_lh ..)
      (h.eval_load_sext _ 2 15 (le_of_noWrap_lh _ _ _ hnw) (by decide))
  case lw =>
    lift64 h hnw => .of_wr h (exec_lw ..)
      (h.eval_load_sext _ 4 31 (le_of_noWrap_lw _ _ _ hnw) (by decide))
  case ld =>
    lift64 h hnw => .of_wr h (exec_ld ..) (h.eval_load _ 8 (le_of_noWrap_ld _ _ _ hnw))
      (Ctx.mod_sext_self _ 64)
  case lbu => lift64 h hnw => .of_wr h (exec_lbu ..) (h.eval_load _ 1 (le_of_noWrap_lbu _ _ _ hnw))
  case lhu => lift64 h hnw => .of_wr h (exec_lhu ..) (h.eval_load _ 2 (le_of_noWrap_lhu _ _ _ hnw))
  case lwu => lift64 h hnw => .of_wr h (exec_lwu ..) (h.eval_load _ 4 (le_of_noWrap_lwu _ _ _ hnw))
  case sb =>
    lift64 h hnw => .of_store h (exec_sb ..) (h.eval_addS _) (Ctx.stAddr_lt _ _ _)
      (le_of_noWrap_sb _ _ _ hnw) (h.store_val _ 1)
  case sh =>
    lift64 h hnw => .of_store h (exec_sh ..) (h.eval_addS _) (Ctx.stAddr_lt _ _ _)
      (le_of_noWrap_sh _ _ _ hnw) (h.store_val _ 2)
  case sw =>
    lift64 h hnw => .of_store h (exec_sw ..) (h.eval_addS _) (Ctx.stAddr_lt _ _ _)
      (le_of_noWrap_sw _ _ _ hnw) (h.store_val _ 4)
  case sd =>
    lift64 h hnw => .of_store h (exec_sd ..) (h.eval_addS _) (Ctx.stAddr_lt _ _ _)
      (le_of_noWrap_sd _ _ _ hnw) (h.store_val _ 8)
  case addi => lift64 h _hnw => .of_wr h (exec_addi ..) (h.eval_addI _)
  case slti => lift64 h _hnw => .of_wr h (exec_slti ..) (h.eval_slti _)
  case sltiu => lift64 h _hnw => .of_wr h (exec_sltiu ..) (h.eval_sltiu _)
  case xori => lift64 h _hnw => .of_wr h (exec_xori ..) (h.eval_xori _)
  case ori => lift64 h _hnw => .of_wr h (exec_ori ..) (h.eval_ori _)
  case andi => lift64 h _hnw => .of_wr h (exec_andi ..) (h.eval_andi _)
  case slli => lift64 h _hnw => .of_wr h (exec_slli64 ..) (h.eval_slli _ (k := 6) rfl)
  case srli => lift64 h _hnw => .of_wr h (exec_srli64 ..) (h.eval_srli _ (k := 6) rfl)
  case srai => lift64 h _hnw => .of_wr h (exec_srai64 ..) (h.eval_srai _ (k := 6) rfl)
  case add => lift64 h _hnw => .of_wr h (exec_add ..) (h.eval_add _)
  case sub => lift64 h _hnw => .of_wr h (exec_sub ..) (h.eval_sub _)
  case slt => lift64 h _hnw => .of_wr h (exec_slt ..) (h.eval_slt _)
  case sltu => lift64 h _hnw => .of_wr h (exec_sltu ..) (h.eval_sltu _)
  case or => lift64 h _hnw => .of_wr h (exec_or ..) (h.eval_or _)
  case and => lift64 h _hnw => .of_wr h (exec_and ..) (h.eval_and _)
  case xor => lift64 h _hnw => .of_wr h (exec_xor ..) (h.eval_xor _)
  case sll => lift64 h _hnw => .of_wr h (exec_sll ..) (h.eval_sll _ (k := 6) rfl)
  case srl => lift64 h _hnw => .of_wr h (exec_srl ..) (h.eval_srl _ (k := 6) rfl)
  case sra => lift64 h _hnw => .of_wr h (exec_sra ..) (h.eval_sra _ (k := 6) rfl)
  case fence => lift64 h _hnw => .of_nop h (exec_fence ..)
  case fence_i => lift64 h _hnw => .of_nop h (exec_fence_i ..)
  case ecall => lift64 h _hnw => .of_nop h (exec_ecall ..)
  case ebreak => lift64 h _hnw => .of_nop h (exec_ebreak ..)
  case csrrw => lift64 h _hnw => .of_csr h (exec_csrrw ..) (h.eval_rs1 _)
  case csrrs => lift64 h _hnw => .of_csr h (exec_csrrs ..) (h.eval_csrrs _)
  case csrrc => lift64 h _hnw => .of_csr h (exec_csrrc ..) (h.eval_csrrc _)
  case csrrwi => lift64 h _hnw => .of_csr h (exec_csrrwi ..) (h.eval_csrImm _)
  case csrrsi => lift64 h _hnw => .of_csr h (exec_csrrsi ..) (h.eval_csrrsi _)
  case csrrci => lift64 h _hnw => .of_csr h (exec_csrrci ..) (h.eval_csrrci _)
  case addiw => lift64 h _hnw => .of_wr h (exec_addiw ..) (h.eval_addiw _)
  case slliw => lift64 h _hnw => .of_wr h (exec_slliw ..) (h.eval_slliw _)
  case srliw => lift64 h _hnw => .of_wr h (exec_srliw ..) (h.eval_srliw _)
  case sraiw => lift64 h _hnw => .of_wr h (exec_sraiw ..) (h.eval_sraiw _)
  case addw => lift64 h _hnw => .of_wr h (exec_addw ..) (h.eval_addw _)
  case subw => lift64 h _hnw => .of_wr h (exec_subw ..) (h.eval_subw _)
  case sllw => lift64 h _hnw => .of_wr h (exec_sllw ..) (h.eval_sllw _)
  case srlw => lift64 h _hnw => .of_wr h (exec_srlw ..) (h.eval_srlw _)
  case sraw => lift64 h _hnw => .of_wr h (exec_sraw ..) (h.eval_sraw _)

theorem mul64_ok : ∀ e ∈ Gen.mul64, LiftOK 64 e := by
  unfold Gen.mul64
  split_table
  refine ⟨?mul, ?mulh, ?mulhu, ?mulhsu, ?div, ?divu, ?rem, ?remu, ?mulw, ?divw, ?divuw, ?remw,
    ?remuw⟩
  case mul => lift64 h _hnw => .of_wr h (exec_mul ..) (h.eval_mul _)
  case mulh => lift64 h _hnw => .of_wr h (exec_mulh ..) (h.eval_mulh _)
  case mulhu => lift64 h _hnw => .of_wr h (exec_mulhu ..) (h.eval_mulhu _)
  case mulhsu => lift64 h _hnw => .of_wr h (exec_mulhsu ..) (h.eval_mulhsu _)
  case div => lift64 h _hnw => .of_wr h (exec_div ..) (h.eval_div _)
  case divu => lift64 h _hnw => .of_wr h (exec_divu ..) (h.eval_divu _)
  case rem => lift64 h _hnw => .of_wr h (exec_rem ..) (h.eval_rem _)
  case remu => lift64 h _hnw => .of_wr h (exec_remu ..) (h.eval_remu _)
  case mulw => lift64 h _hnw => .of_wr h (exec_mulw ..) (h.eval_mulw _)
  case divw => lift64 h _hnw => .of_wr h (exec_divw ..) (h.eval_divw _)
  case divuw => lift64 h _hnw => .of_wr h (exec_divuw ..) (h.eval_divuw _)
  case remw => lift64 h _hnw => .of_wr h (exec_remw ..) (h.eval_remw _)
  case remuw => lift64 h _hnw => .of_wr h (exec_remuw ..) (h.eval_remuw _)

theorem atomic64_ok : ∀ e ∈ Gen.atomic64, LiftOK 64 e := by
  unfold Gen.atomic64
  split_table
  refine ⟨?lr_d, ?sc_d, ?amoswap_d, ?amoadd_d, ?amoxor_d, ?amoand_d, ?amoor_d, ?amomin_d, ?amomax_d,
    ?amominu_d, ?amomaxu_d, ?lr_w, ?sc_w, ?amoswap_w, ?amoadd_w, ?amoxor_w, ?amoand_w, ?amoor_w,
    ?amomin_w, ?amomax_w, ?amominu_w, ?amomaxu_w⟩
  case lr_d =>
    lift64 h hnw => .of_wr h (exec_lr_d ..) (h.eval_amoLoad _ 8 (le_of_noWrap_lr_d _ _ _ hnw))
  case sc_d =>
    lift64 h hnw => .of_sc h (exec_sc_d ..) (Ctx.trunc_eval_zero _ _) (h.eval_rs1 _) (h.get_lt _)
      (le_of_noWrap_sc_d _ _ _ hnw) (h.store_val _ 8)
  case amoswap_d =>
    lift64 h hnw => .of_amo h (exec_amoswap_d ..) (h.amo_rd _ (le_of_noWrap_amoswap_d _ _ _ hnw))
      (h.eval_rs1 _) (h.get_lt _) (le_of_noWrap_amoswap_d _ _ _ hnw) (h.amo_swap _ 8)
  case amoadd_d =>
    lift64 h hnw => .of_amo h (exec_amoadd_d ..) (h.amo_rd _ (le_of_noWrap_amoadd_d _ _ _ hnw))
      (h.eval_rs1 _) (h.get_lt _) (le_of_noWrap_amoadd_d _ _ _ hnw)
      (h.amo_add _ 8 (le_of_noWrap_amoadd_d _ _ _ hnw))
  case amoxor_d =>
    lift64 h hnw => .of_amo h (exec_amoxor_d ..) (h.amo_rd _ (le_of_noWrap_amoxor_d _ _ _ hnw))
      (h.eval_rs1 _) (h.get_lt _) (le_of_noWrap_amoxor_d _ _ _ hnw)
      (h.amo_xor _ 8 (le_of_noWrap_amoxor_d _ _ _ hnw))
  case amoand_d =>
    lift64 h hnw => .of_amo h (exec_amoand_d ..) (h.amo_rd _ (le_of_noWrap_amoand_d _ _ _ hnw))
      (h.eval_rs1 _) (h.get_lt _) (le_of_noWrap_amoand_d _ _ _ hnw)
      (h.amo_and _ 8 (le_of_noWrap_amoand_d _ _ _ hnw))
  case amoor_d =>
    lift64 h hnw => .of_amo h (exec_amoor_d ..) (h.amo_rd _ (le_of_noWrap_amoor_d _ _ _ hnw))
      (h.eval_rs1 _) (h.get_lt _) (le_of_noWrap_amoor_d _ _ _ hnw)
      (h.amo_or _ 8 (le_of_noWrap_amoor_d _ _ _ hnw))
  case amomin_d =>
    lift64 h hnw => .of_amo h (exec_amomin_d ..) (h.amo_rd _ (le_of_noWrap_amomin_d _ _ _ hnw))
      (h.eval_rs1 _) (h.get_lt _) (le_of_noWrap_amomin_d _ _ _ hnw)
      (h.amo_smin _ 8 (le_of_noWrap_amomin_d _ _ _ hnw) (by decide) (by decide))
  case amomax_d =>
    lift64 h hnw => .of_amo h (exec_amomax_d ..) (h.amo_rd _ (le_of_noWrap_amomax_d _ _ _ hnw))
      (h.eval_rs1 _) (h.get_lt _) (le_of_noWrap_amomax_d _ _ _ hnw)
      (h.amo_smax _ 8 (le_of_noWrap_amomax_d _ _ _ hnw) (by decide) (by decide))
  case amominu_d =>
    lift64 h hnw => .of_amo h (exec_amominu_d ..) (h.amo_rd _ (le_of_noWrap_amominu_d _ _ _ hnw))
      (h.eval_rs1 _) (h.get_lt _) (le_of_noWrap_amominu_d _ _ _ hnw)
      (h.amo_minu _ 8 (le_of_noWrap_amominu_d _ _ _ hnw))
  case amomaxu_d =>
    lift64 h hnw => .of_amo h (exec_amomaxu_d ..) (h.amo_rd _ (le_of_noWrap_amomaxu_d _ _ _ hnw))
      (h.eval_rs1 _) (h.get_lt _) (le_of_noWrap_amomaxu_d _ _ _ hnw)
      (h.amo_maxu _ 8 (le_of_noWrap_amomaxu_d _ _ _ hnw))
  case lr_w =>
    lift64 h hnw => .of_wr h (exec_lr_w ..) (h.eval_lr_w64 _ (le_of_noWrap_lr_w _ _ _ hnw))
  case sc_w =>
    lift64 h hnw => .of_sc h (exec_sc_w ..) (Ctx.trunc_eval_zero _ _) (h.eval_rs1 _) (h.get_lt _)
      (le_of_noWrap_sc_w _ _ _ hnw) (h.store_val' _ 4)
  case amoswap_w =>
    lift64 h hnw => .of_amo h (exec_amoswap_w ..) (h.amo_rd_w _ (le_of_noWrap_amoswap_w _ _ _ hnw))
      (h.eval_rs1 _) (h.get_lt _) (le_of_noWrap_amoswap_w _ _ _ hnw) (h.amo_swap _ 4)
  case amoadd_w =>
    lift64 h hnw => .of_amo h (exec_amoadd_w ..) (h.amo_rd_w _ (le_of_noWrap_amoadd_w _ _ _ hnw))
      (h.eval_rs1 _) (h.get_lt _) (le_of_noWrap_amoadd_w _ _ _ hnw)
      (h.amo_add _ 4 (le_of_noWrap_amoadd_w _ _ _ hnw))
  case amoxor_w =>
    lift64 h hnw => .of_amo h (exec_amoxor_w ..) (h.amo_rd_w _ (le_of_noWrap_amoxor_w _ _ _ hnw))
      (h.eval_rs1 _) (h.get_lt _) (le_of_noWrap_amoxor_w _ _ _ hnw)
      (h.amo_xor _ 4 (le_of_noWrap_amoxor_w _ _ _ hnw))
  case amoand_w =>
    lift64 h hnw => .of_amo h (exec_amoand_w ..) (h.amo_rd_w _ (le_of_noWrap_amoand_w _ _ _ hnw))
      (h.eval_rs1 _) (h.get_lt _) (le_of_noWrap_amoand_w _ _ _ hnw)
      (h.amo_and _ 4 (le_of_noWrap_amoand_w _ _ _ hnw))
  case amoor_w =>
    lift64 h hnw => .of_amo h (exec_amoor_w ..) (h.amo_rd_w _ (le_of_noWrap_amoor_w _ _ _ hnw))
      (h.eval_rs1 _) (h.get_lt _) (le_of_noWrap_amoor_w _ _ _ hnw)
      (h.amo_or _ 4 (le_of_noWrap_amoor_w _ _ _ hnw))
  case amomin_w =>
    lift64 h hnw => .of_amo h (exec_amomin_w ..) (h.amo_rd_w _ (le_of_noWrap_amomin_w _ _ _ hnw))
      (h.eval_rs1 _) (h.get_lt _) (le_of_noWrap_amomin_w _ _ _ hnw)
      (h.amo_smin _ 4 (le_of_noWrap_amomin_w _ _ _ hnw) (by decide) (by decide))
  case amomax_w =>
    lift64 h hnw => .of_amo h (exec_amomax_w ..) (h.amo_rd_w _ (le_of_noWrap_amomax_w _ _ _ hnw))
      (h.eval_rs1 _) (h.get_lt _) (le_of_noWrap_amomax_w _ _ _ hnw)
      (h.amo_smax _ 4 (le_of_noWrap_amomax_w _ _ _ hnw) (by decide) (by decide))
  case amominu_w =>
    lift64 h hnw => .of_amo h (exec_amominu_w ..) (h.amo_rd_w _ (le_of_noWrap_amominu_w _ _ _ hnw))
      (h.eval_rs1 _) (h.get_lt _) (le_of_noWrap_amominu_w _ _ _ hnw)
      (h.amo_minu _ 4 (le_of_noWrap_amominu_w _ _ _ hnw))
  case amomaxu_w =>
    lift64 h hnw => .of_amo h (exec_amomaxu_w ..) (h.amo_rd_w _ (le_of_noWrap_amomaxu_w _ _ _ hnw))
      (h.eval_rs1 _) (h.get_lt _) (le_of_noWrap_amomaxu_w _ _ _ hnw)
      (h.amo_maxu _ 4 (le_of_noWrap_amomaxu_w _ _ _ hnw))

/-- by table: follows from the six table theorems above (`mem_instructionSet`) -/
theorem lift_correct (xlen : Nat) (hx : Cfg xlen) (m a : Bool) :
    ∀ e ∈ instructionSet xlen m a, LiftOK xlen e := by
  intro e he
  rcases mem_instructionSet hx he with ⟨rfl, h | h | h⟩ | ⟨rfl, h | h | h⟩
  · exact integer32_ok e h
  · exact mul32_ok e h
  · exact atomic32_ok e h
  · exact integer64_ok e h
  · exact mul64_ok e h
  · exact atomic64_ok e h

/-- register x0 is never written -/
theorem x0_never_written (xlen : Nat) (hx : Cfg xlen) (m a : Bool) :
    ∀ e ∈ instructionSet xlen m a, ∀ i : Ins, ∀ v k w,
      Effect.regStore v k w ∈ e.validEffects i → k ≠ xName 0 :=
  fun _e he i v k w hm => (entryNoX0_of_mem hx he).validEffects i v k w hm

/-- one register per unsigned 12-bit CSR number -/
theorem csrName_injective (n m : Nat) (hn : n < 4096) (hm : m < 4096) (h : csrName n = csrName m) :
    n = m :=
  csrName_inj hn hm h

/-- the register a CSR instruction accesses is the one of its CSR number -/
theorem csrKey_eq (i : Ins) (h : i.value < 2 ^ 32) : csrKey i = csrName (csrNum i.value) :=
  csrKey_eq' (a := i.addr) h

end Mltwist.Lemmas.RiscvLift
