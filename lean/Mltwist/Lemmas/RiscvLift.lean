import Mltwist.Model.RiscvTables
import Mltwist.Spec.RiscvLift
import Mltwist.Lemmas.RiscvDecode
/-
Helper lemmas for C01.  (Proofs to be supplied.)
-/
namespace Mltwist.Lemmas.RiscvLift
open Mltwist Mltwist.Riscv Mltwist.Spec.Rv Mltwist.Spec.Lift
open Mltwist.Lemmas.RiscvDecode (Cfg)

/-- The lifted effects of table entry `e` implement the reference semantics of its mnemonic:
for every word matching the entry, from every machine state `s` (represented by the valuation `ρ`),
the reference executes the instruction, and applying the lifted effects (all evaluated in the
pre-state, applied in order; an IP write is a jump, otherwise fall through) yields a valuation
representing the reference post-state, with the same next instruction pointer. -/
def LiftOK (xlen : Nat) (e : Entry) : Prop :=
  ∀ (w : Nat) (s : St) (ρ : Env), w < 2 ^ 32 → e.matchesWord w = true → St.WF xlen s → Rel ρ s →
    noWrap xlen e.name w s = true →
    ∃ s', Spec.Rv.exec xlen e.name w s = some s' ∧
      Rel (Env.applyEffects ρ (e.validEffects ⟨s.pc, w⟩)) s' ∧
      nextIp ρ (e.validEffects ⟨s.pc, w⟩) ((s.pc + 4) % 2 ^ xlen) = s'.pc ∧
      St.WF xlen s'

theorem integer32_ok : ∀ e ∈ Gen.integer32, LiftOK 32 e := by
  sorry

theorem mul32_ok : ∀ e ∈ Gen.mul32, LiftOK 32 e := by
  sorry

theorem atomic32_ok : ∀ e ∈ Gen.atomic32, LiftOK 32 e := by
  sorry

theorem integer64_ok : ∀ e ∈ Gen.integer64, LiftOK 64 e := by
  sorry

theorem mul64_ok : ∀ e ∈ Gen.mul64, LiftOK 64 e := by
  sorry

theorem atomic64_ok : ∀ e ∈ Gen.atomic64, LiftOK 64 e := by
  sorry

theorem lift_correct (xlen : Nat) (hx : Cfg xlen) (m a : Bool) :
    ∀ e ∈ instructionSet xlen m a, LiftOK xlen e := by
  sorry

/-- register x0 is never written -/
theorem x0_never_written (xlen : Nat) (hx : Cfg xlen) (m a : Bool) :
    ∀ e ∈ instructionSet xlen m a, ∀ i : Ins, ∀ v k w,
      Effect.regStore v k w ∈ e.validEffects i → k ≠ xName 0 := by
  sorry

/-- one register per unsigned 12-bit CSR number -/
theorem csrName_injective (n m : Nat) (hn : n < 4096) (hm : m < 4096) (h : csrName n = csrName m) :
    n = m := by
  sorry

/-- the register a CSR instruction accesses is the one of its CSR number -/
theorem csrKey_eq (i : Ins) (h : i.value < 2 ^ 32) : csrKey i = csrName (csrNum i.value) := by
  sorry

end Mltwist.Lemmas.RiscvLift
