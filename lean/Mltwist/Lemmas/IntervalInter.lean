import Mltwist.Lemmas.IntervalBasic
/-
`intersect` / `mapIntersectLoop`: accumulator-free description of the single-interval step,
its properties, and the loop invariant.
-/
namespace Mltwist.Lemmas.Interval
open Mltwist.Interval

/-! ### general helpers about `Normal` -/

theorem normal_drop {l : List Intv} (h : Normal l) (j : Nat) : Normal (l.drop j) := by
  rw [normal_iff] at h ⊢
  exact ⟨fun i hi => h.1 i (List.mem_of_mem_drop hi), h.2.sublist (List.drop_sublist j l)⟩

theorem normal_head_lt {i : Intv} {l : List Intv} (h : Normal (i :: l)) :
    i.1 < i.2 ∧ ∀ k ∈ l, i.2 < k.1 := by
  rw [normal_iff] at h
  simp only [List.pairwise_cons, List.mem_cons, forall_eq_or_imp] at h
  exact ⟨h.1.1, h.2.1⟩

/-- concatenation of two normal lists, the first lying strictly before the second -/
theorem normal_append {l r : List Intv} (hl : Normal l) (hr : Normal r)
    (h : ∀ a ∈ l, ∀ b ∈ r, a.2 < b.1) : Normal (l ++ r) := by
  rw [normal_iff] at hl hr ⊢
  refine ⟨?_, ?_⟩
  · intro i hi
    rcases List.mem_append.1 hi with hi | hi
    · exact hl.1 i hi
    · exact hr.1 i hi
  · rw [List.pairwise_append]
    exact ⟨hl.2, hr.2, h⟩

/-- the intervals of `l.take j` end before `b`, so membership beyond `b` only sees `l.drop j` -/
theorem mem_drop_of_take_le {l : List Intv} {j : Nat} {b x : Int}
    (h : ∀ k ∈ l.take j, k.2 ≤ b) (hx : b ≤ x) : Mem x (l.drop j) ↔ Mem x l := by
  conv => rhs; rw [← List.take_append_drop j l]
  rw [mem_append]
  constructor
  · exact Or.inr
  · rintro (⟨k, hk, h1, h2⟩ | h')
    · have := h k hk
      omega
    · exact h'

/-! ### the single-interval step -/

/-- pieces produced by `intersect` -/
def interPieces (intv : Intv) : List Intv → List Intv
  | [] => []
  | k :: rest =>
    if intv.2 ≤ k.1 then []
    else if k.2 ≤ intv.1 then interPieces intv rest
    else (max intv.1 k.1, min intv.2 k.2) :: interPieces intv rest

/-- number of consumed intervals reported by `intersect` -/
def interCnt (intv : Intv) : List Intv → Nat
  | [] => 0
  | k :: rest =>
    if intv.2 ≤ k.1 then 0
    else (if k.2 ≤ intv.2 then 1 else 0) + interCnt intv rest

theorem intersect_eq (intv : Intv) (l : List Intv) :
    ∀ (acc : List Intv) (cnt : Nat),
      intersect intv l acc cnt = (acc ++ interPieces intv l, cnt + interCnt intv l) := by
  induction l with
  | nil => intro acc cnt; simp [intersect, interPieces, interCnt]
  | cons k rest ih =>
    intro acc cnt
    simp only [intersect, interPieces, interCnt]
    by_cases h1 : intv.2 ≤ k.1
    · simp [h1]
    · simp only [h1, if_false]
      by_cases h2 : k.2 ≤ intv.1
      · simp only [h2, if_true, ih]
        by_cases h3 : k.2 ≤ intv.2 <;> simp [h3] <;> omega
      · simp only [h2, if_false, ih]
        by_cases h3 : k.2 ≤ intv.2 <;> simp [h3] <;> omega

theorem interPieces_props (intv : Intv) (hne : intv.1 < intv.2) (l : List Intv) (hl : Normal l) :
    ∀ p ∈ interPieces intv l,
      p.1 < p.2 ∧ intv.1 ≤ p.1 ∧ p.2 ≤ intv.2 ∧ ∃ k ∈ l, k.1 ≤ p.1 ∧ p.2 ≤ k.2 := by
  induction l with
  | nil => simp [interPieces]
  | cons k rest ih =>
    have hk := (normal_head_lt hl).1
    have ih := ih (normal_tail hl)
    intro p hp
    simp only [interPieces] at hp
    split at hp
    · simp at hp
    · next h1 =>
      split at hp
      · obtain ⟨a, b, c, k', hk', d⟩ := ih p hp
        exact ⟨a, b, c, k', List.mem_cons_of_mem _ hk', d⟩
      · next h2 =>
        rcases List.mem_cons.1 hp with rfl | hp
        · refine ⟨?_, ?_, ?_, k, List.mem_cons_self, ?_, ?_⟩ <;>
            simp only [Int.max_def, Int.min_def] <;> (repeat' split) <;> omega
        · obtain ⟨a, b, c, k', hk', d⟩ := ih p hp
          exact ⟨a, b, c, k', List.mem_cons_of_mem _ hk', d⟩

theorem interPieces_pairwise (intv : Intv) (hne : intv.1 < intv.2) (l : List Intv)
    (hl : Normal l) :
    (interPieces intv l).Pairwise (fun i j : Intv => i.2 < j.1) := by
  induction l with
  | nil => simp [interPieces]
  | cons k rest ih =>
    have hk := normal_head_lt hl
    have ih := ih (normal_tail hl)
    simp only [interPieces]
    split
    · exact List.Pairwise.nil
    · split
      · exact ih
      · rw [List.pairwise_cons]
        refine ⟨?_, ih⟩
        intro p hp
        obtain ⟨_, _, _, k', hk', d, _⟩ := interPieces_props intv hne rest (normal_tail hl) p hp
        have := hk.2 k' hk'
        simp only [Int.min_def]
        split <;> omega

theorem interPieces_normal (intv : Intv) (hne : intv.1 < intv.2) (l : List Intv)
    (hl : Normal l) :
    Normal (interPieces intv l) := by
  rw [normal_iff]
  exact ⟨fun p hp => (interPieces_props intv hne l hl p hp).1, interPieces_pairwise intv hne l hl⟩

theorem interPieces_mem (intv : Intv) (l : List Intv) (hl : Normal l) (x : Int) :
    Mem x (interPieces intv l) ↔ (intv.1 ≤ x ∧ x < intv.2) ∧ Mem x l := by
  induction l with
  | nil => simp [interPieces, mem_nil]
  | cons k rest ih =>
    have hk := normal_head_lt hl
    have ih := ih (normal_tail hl)
    simp only [interPieces]
    split
    · next h1 =>
      simp only [mem_nil, false_iff]
      rintro ⟨hx, k', hk', h3, h4⟩
      rcases List.mem_cons.1 hk' with rfl | hk'
      · omega
      · have := hk.2 k' hk'
        omega
    · next h1 =>
      split
      · next h2 =>
        rw [ih, mem_cons]
        constructor
        · rintro ⟨a, b⟩; exact ⟨a, Or.inr b⟩
        · rintro ⟨a, b | b⟩
          · omega
          · exact ⟨a, b⟩
      · next h2 =>
        rw [mem_cons, ih, mem_cons]
        simp only [Int.max_def, Int.min_def]
        constructor
        · rintro (a | ⟨a, b⟩)
          · exact ⟨by omega, Or.inl (by omega)⟩
          · exact ⟨a, Or.inr b⟩
        · rintro ⟨a, b | b⟩
          · exact Or.inl (by omega)
          · exact Or.inr ⟨a, b⟩

theorem interCnt_take (intv : Intv) (l : List Intv) (hl : Normal l) :
    ∀ k ∈ l.take (interCnt intv l), k.2 ≤ intv.2 := by
  induction l with
  | nil => simp [interCnt]
  | cons k rest ih =>
    have hk := normal_head_lt hl
    have ih := ih (normal_tail hl)
    simp only [interCnt]
    split
    · simp
    · next h1 =>
      by_cases h3 : k.2 ≤ intv.2
      · simp only [h3, if_true]
        rw [Nat.add_comm, List.take_succ_cons]
        intro k' hk'
        rcases List.mem_cons.1 hk' with rfl | hk'
        · exact h3
        · exact ih k' hk'
      · have : interCnt intv rest = 0 := by
          cases rest with
          | nil => simp [interCnt]
          | cons k' rest' =>
            have := hk.2 k' List.mem_cons_self
            simp only [interCnt]
            rw [if_pos (by omega)]
        simp [h3, this]

/-! ### the loop -/

theorem mapIntersectLoop_spec (i2 : List Intv) (hi2 : Normal i2) (is : List Intv) :
    ∀ (j : Nat) (acc : List Intv), Normal is → Normal acc →
      (∀ p ∈ acc, ∀ i ∈ is, p.2 < i.1) →
      (∀ k ∈ i2.take j, ∀ i ∈ is, k.2 ≤ i.1) →
      Normal (mapIntersectLoop i2 is j acc) ∧
        ∀ x, Mem x (mapIntersectLoop i2 is j acc) ↔ Mem x acc ∨ (Mem x is ∧ Mem x i2) := by
  induction is with
  | nil =>
    intro j acc _ hacc _ _
    simp [mapIntersectLoop, hacc, mem_nil]
  | cons i is ih =>
    intro j acc his hacc hai hki
    have hi := normal_head_lt his
    simp only [mapIntersectLoop]
    split
    · next hj =>
      refine ⟨hacc, ?_⟩
      intro x
      constructor
      · exact Or.inl
      · rintro (h | ⟨⟨i', hi', h1, h2⟩, ⟨k, hk, h3, h4⟩⟩)
        · exact h
        · rw [List.take_of_length_le hj] at hki
          have := hki k hk i' hi'
          omega
    · next hj =>
      rw [intersect_eq]
      simp only [List.nil_append, Nat.zero_add]
      have hd := normal_drop hi2 j
      have hpp := interPieces_props i hi.1 (i2.drop j) hd
      obtain ⟨h1, h2⟩ := ih (j + interCnt i (i2.drop j)) (acc ++ interPieces i (i2.drop j))
        (normal_tail his)
        (normal_append hacc (interPieces_normal i hi.1 _ hd) (by
          intro a ha p hp
          have := hai a ha i List.mem_cons_self
          have := (hpp p hp).2.1
          omega))
        (by
          intro p hp i' hi'
          rcases List.mem_append.1 hp with hp | hp
          · exact hai p hp i' (List.mem_cons_of_mem _ hi')
          · have := (hpp p hp).2.2.1
            have := hi.2 i' hi'
            omega)
        (by
          intro k hk i' hi'
          rw [List.take_add, List.mem_append] at hk
          rcases hk with hk | hk
          · exact hki k hk i' (List.mem_cons_of_mem _ hi')
          · have := interCnt_take i _ hd k hk
            have := hi.2 i' hi'
            omega)
      refine ⟨h1, ?_⟩
      intro x
      rw [h2, mem_append, interPieces_mem i _ hd, mem_cons]
      have hmd : i.1 ≤ x → (Mem x (i2.drop j) ↔ Mem x i2) := fun hx =>
        mem_drop_of_take_le (fun k hk => hki k hk i List.mem_cons_self) hx
      constructor
      · rintro ((h | ⟨a, b⟩) | ⟨a, b⟩)
        · exact Or.inl h
        · exact Or.inr ⟨Or.inl a, (hmd a.1).1 b⟩
        · exact Or.inr ⟨Or.inr a, b⟩
      · rintro (h | ⟨a | a, b⟩)
        · exact Or.inl (Or.inl h)
        · exact Or.inl (Or.inr ⟨a, (hmd a.1).2 b⟩)
        · exact Or.inr ⟨a, b⟩

end Mltwist.Lemmas.Interval
