import Mltwist.Lemmas.RiscvLiftShapes
/-
C01 library, part 5: the VALUE of every lifted expression of the base integer instruction sets,
generic in the register width (`W = 4`, `xlen = 32` and `W = 8`, `xlen = 64`).

Every lemma is `Ctx.eval_<op> (h : Ctx xlen W ρ s w) : (<helper expression>).eval ρ = <closed form>`
where the closed form is literally (or up to `% 2^xlen`) the argument of `wr` in `exec_<mnemonic>`.
The instruction `i` is always `⟨a, w⟩` with an arbitrary address `a` (`s.pc` when it matters).

Abbreviations in comments: `A = s.get (rs1 w)`, `B = s.get (rs2 w)`, `I = immI w`.
-/
namespace Mltwist.Lemmas.RiscvLift
open Mltwist Mltwist.Riscv Mltwist.Spec.Rv Mltwist.Spec.Lift
open Mltwist.Lemmas.EvalBasic Mltwist.Lemmas.Gadgets

/-! ### width-generic facts (no `Ctx`) -/

theorem trunc_mod_self (W x : Nat) : trunc W (x % 2 ^ (8 * W)) = x % 2 ^ (8 * W) :=
  trunc_trunc W x

/-- `sext(e, bit, W')`: sign extension at bit index `bit` to `W'` bytes, in the reference's terms.
Covers `lb`/`lh`/`lw` (`bit = 7, 15, 31`) and `sext32To64` (`bit = 31`, `W' = 8`). -/
theorem eval_sext (ρ : Env) (e : Expr) (bit W' : Nat) (hbit : bit < 8 * W') (h256 : bit < 256) :
    (Riscv.sext e bit W').eval ρ = Spec.Rv.sext (8 * W') (bit + 1) (e.eval ρ) := by
  have hW : 1 ≤ W' := by omega
  have hb : trunc W' ((constFromUint 1 bit).eval ρ) = bit := by
    rw [eval_constFromUint, Nat.mod_eq_of_lt (by simpa using h256)]
    exact trunc_of_lt (Nat.lt_of_lt_of_le hbit (Nat.le_of_lt Nat.lt_two_pow_self))
  unfold Riscv.sext
  rw [eval_signExtend ρ e _ W' (by rw [hb]; exact hbit), hb, sext_bridge hbit]
  have hdvd : 2 ^ (bit + 1) ∣ 2 ^ (8 * W') := Nat.pow_dvd_pow 2 (by omega)
  rw [← rvsext_mod, trunc_eq_mod, Nat.mod_mod_of_dvd _ hdvd, rvsext_mod]

/-- `hc` of `StepOK.of_br` for `beq` / `bne` (the other four branches are `rfl`) -/
theorem hc_beq (a b : Nat) : (a == b) = if true then decide (a = b) else !decide (a = b) := by
  by_cases h : a = b <;> simp [h]
theorem hc_bne (a b : Nat) : (a != b) = if false then decide (a = b) else !decide (a = b) := by
  by_cases h : a = b <;> simp [h]

theorem eval_sext32To64 (ρ : Env) (e : Expr) :
    (sext32To64 e).eval ρ = Spec.Rv.sext 64 32 (e.eval ρ) :=
  eval_sext ρ e 31 8 (by decide) (by decide)

namespace Ctx
variable {xlen W : Nat} {ρ : Env} {s : St} {w : Nat}

theorem eightW_pos (h : Ctx xlen W ρ s w) : 1 ≤ 8 * W := by have := h.W_pos; omega
theorem W_le255 (h : Ctx xlen W ρ s w) : W ≤ 255 := by have := h.W_le; omega

/-! ### addresses and constants -/

/-- `rs1 + immI` (load address, `addi`, `jalr`): `wrap xlen (A + I)` -/
theorem eval_addI (h : Ctx xlen W ρ s w) (a : Nat) :
    (regImmOp (binOpFunc .add) .I ⟨a, w⟩ W).eval ρ = ldAddr xlen w s := by
  simp only [regImmOp, binOpFunc, eval_binary, h.eval_rs1, h.eval_immI, h.trunc_get, evalBin]
  have hX := h.hX; subst hX
  rw [EvalBasic.trunc_of_lt (wrap_lt _ _), add_wrap_mod]; rfl

/-- `rs1 + immS` (store address) -/
theorem eval_addS (h : Ctx xlen W ρ s w) (a : Nat) :
    (regImmOp (binOpFunc .add) .S ⟨a, w⟩ W).eval ρ = stAddr xlen w s := by
  simp only [regImmOp, binOpFunc, eval_binary, h.eval_rs1, h.eval_immS, h.trunc_get, evalBin]
  have hX := h.hX; subst hX
  rw [EvalBasic.trunc_of_lt (wrap_lt _ _), add_wrap_mod]; rfl

theorem ldAddr_lt (xlen w : Nat) (s : St) : ldAddr xlen w s < 2 ^ xlen := wrap_lt _ _
theorem stAddr_lt (xlen w : Nat) (s : St) : stAddr xlen w s < 2 ^ xlen := wrap_lt _ _

/-- `lui` (RV32 form): the U-immediate as a `W`-byte constant -/
theorem eval_lui (h : Ctx xlen W ρ s w) :
    (constFromInt W (immParse .U w).1).eval ρ = wrap xlen (immU w) := by
  rw [eval_constFromInt, immParse_U h.hw, h.hX]

/-- `auipc`: `pc + immU` computed in `uint64`, then cut to the register width -/
theorem eval_auipc (h : Ctx xlen W ρ s w) :
    (constFromUint W (addrAddImm s.pc (immParse .U w).1 % 2 ^ xlen)).eval ρ
      = wrap xlen ((s.pc : Int) + immU w) := by
  have hX := h.hX; subst hX
  have h64 : 8 * W ≤ 64 := h.xlen_le
  rw [eval_constFromUint, Nat.mod_mod, addrAddImm_eq, immParse_U h.hw, wrap_mod_of_le h64]

/-- the address of the following instruction as written in `jal`/`jalr` -/
theorem eval_following (h : Ctx xlen W ρ s w) :
    (constFromUint W ((s.pc % 2 ^ xlen + 4) % 2 ^ xlen)).eval ρ = (s.pc + 4) % 2 ^ xlen := by
  have hX := h.hX; subst hX
  rw [eval_constFromUint, Nat.mod_mod, Nat.mod_eq_of_lt h.pc_lt]

/-- `jalr` target: `(A + I)` with bit 0 cleared -/
theorem eval_jumpTarget (h : Ctx xlen W ρ s w) (a : Nat) :
    (jumpTarget ⟨a, w⟩ W).eval ρ = ldAddr xlen w s / 2 * 2 := by
  unfold jumpTarget
  rw [eval_bitAnd, h.eval_addI, eval_constFromInt]
  have hX := h.hX; subst hX
  unfold Spec.band
  rw [EvalBasic.trunc_of_lt (ldAddr_lt _ _ _), EvalBasic.trunc_of_lt (wrap_lt _ _), wrap_neg_two h.eightW_pos,
    and_neg_two h.eightW_pos (ldAddr_lt _ _ _)]

theorem jumpTarget_lt (xlen w : Nat) (s : St) : ldAddr xlen w s / 2 * 2 < 2 ^ xlen :=
  Nat.lt_of_le_of_lt (Nat.div_mul_le_self _ _) (ldAddr_lt _ _ _)

/-! ### branch conditions (`hf` of `StepOK.of_br`) -/

theorem cond_eq (h : Ctx xlen W ρ s w) (a : Nat) (t e : Expr) :
    (Tools.eq (regLoad .rs1 ⟨a, w⟩ W) (regLoad .rs2 ⟨a, w⟩ W) t e W).eval ρ
      = if s.get (rs1 w) = s.get (rs2 w) then trunc W (t.eval ρ) else trunc W (e.eval ρ) := by
  rw [eval_eq _ _ _ _ _ _ h.W_pos, h.eval_rs1, h.eval_rs2, h.trunc_get, h.trunc_get]

theorem cond_lts (h : Ctx xlen W ρ s w) (a : Nat) (t e : Expr) :
    (Tools.lts (regLoad .rs1 ⟨a, w⟩ W) (regLoad .rs2 ⟨a, w⟩ W) t e W).eval ρ
      = if sx xlen (s.get (rs1 w)) < sx xlen (s.get (rs2 w)) then trunc W (t.eval ρ)
        else trunc W (e.eval ρ) := by
  rw [eval_lts _ _ _ _ _ _ h.W_pos h.W_le255, h.eval_rs1, h.eval_rs2, h.trunc_get, h.trunc_get,
    toInt_eq_sx (h.get_lt' _), toInt_eq_sx (h.get_lt' _), ← h.hX]

theorem cond_ltu (h : Ctx xlen W ρ s w) (a : Nat) (t e : Expr) :
    (lessFunc (regLoad .rs1 ⟨a, w⟩ W) (regLoad .rs2 ⟨a, w⟩ W) t e W).eval ρ
      = if s.get (rs1 w) < s.get (rs2 w) then trunc W (t.eval ρ) else trunc W (e.eval ρ) := by
  simp only [lessFunc, eval_less, h.eval_rs1, h.eval_rs2, h.trunc_get]

/-! ### loads -/

/-- zero-extending load of `n` bytes at `A + I` (`hn` from `noWrap_<mnemonic>`) -/
theorem eval_load (h : Ctx xlen W ρ s w) (a n : Nat) (hn : ldAddr xlen w s + n ≤ 2 ^ xlen) :
    (Riscv.memLoad (regImmOp (binOpFunc .add) .I ⟨a, w⟩ W) n).eval ρ
      = s.load (ldAddr xlen w s) n :=
  h.eval_memLoad _ n (h.eval_addI a) (ldAddr_lt _ _ _) hn

/-- sign-extending load: `sext (memLoad addr n) bit W` with `bit + 1 = 8 * n` -/
theorem eval_load_sext (h : Ctx xlen W ρ s w) (a n bit : Nat)
    (hn : ldAddr xlen w s + n ≤ 2 ^ xlen) (hbit : bit < xlen) :
    (Riscv.sext (Riscv.memLoad (regImmOp (binOpFunc .add) .I ⟨a, w⟩ W) n) bit W).eval ρ
      = Spec.Rv.sext xlen (bit + 1) (s.load (ldAddr xlen w s) n) := by
  have hX := h.hX; subst hX
  have := h.W_le
  rw [eval_sext _ _ _ _ hbit (by omega), h.eval_load a n hn]

/-- the stored value of `sb/sh/sw/sd`: `hv` of `StepOK.of_store` -/
theorem store_val (h : Ctx xlen W ρ s w) (a n : Nat) :
    trunc n ((regLoad .rs2 ⟨a, w⟩ W).eval ρ) = s.get (rs2 w) % 2 ^ (8 * n) := by
  rw [h.eval_rs2]; rfl

/-- `hv` of `of_wr` for the full-width load (`lw` on RV32, `ld` on RV64) -/
theorem mod_sext_self (x n : Nat) : x % 2 ^ n = Spec.Rv.sext n n x % 2 ^ n := by
  rw [rvsext_self, Nat.mod_mod]

/-! ### register-immediate ALU -/

/-- `slti`: `if sx A < I then 1 else 0` -/
theorem eval_slti (h : Ctx xlen W ρ s w) (a : Nat) :
    (Tools.lts (regLoad .rs1 ⟨a, w⟩ W) (immConst .I ⟨a, w⟩ W) Expr.one Expr.zero W).eval ρ
      = if sx xlen (s.get (rs1 w)) < immI w then 1 else 0 := by
  have hW := h.W_pos
  have hW4 := h.W_ge
  have hb := immI_bounds w
  have hp : (2048 : Int) ≤ ((2 ^ (8 * W - 1) : Nat) : Int) := by
    have : 2 ^ 11 ≤ 2 ^ (8 * W - 1) := Nat.pow_le_pow_right (by decide) (by omega)
    have h11 : (2 : Nat) ^ 11 = 2048 := by decide
    omega
  rw [eval_lts _ _ _ _ _ _ h.W_pos h.W_le255, h.eval_rs1, h.eval_immI, h.trunc_get,
    EvalBasic.trunc_of_lt (wrap_lt _ _), toInt_eq_sx (h.get_lt' _), toInt_wrap (i := immI w) hW (by omega) (by omega),
    ← h.hX, eval_one, eval_zero, trunc_one hW, trunc_zero]

/-- `sltiu`: `if A < wrap I then 1 else 0` -/
theorem eval_sltiu (h : Ctx xlen W ρ s w) (a : Nat) :
    (Expr.less (regLoad .rs1 ⟨a, w⟩ W) (immConst .I ⟨a, w⟩ W) Expr.one Expr.zero W).eval ρ
      = if s.get (rs1 w) < wrap xlen (immI w) then 1 else 0 := by
  rw [eval_less, h.eval_rs1, h.eval_immI, h.trunc_get, EvalBasic.trunc_of_lt (wrap_lt _ _), ← h.hX,
    eval_one, eval_zero, trunc_one h.W_pos, trunc_zero]

theorem eval_xori (h : Ctx xlen W ρ s w) (a : Nat) :
    (regImmOp Tools.bitXor .I ⟨a, w⟩ W).eval ρ = s.get (rs1 w) ^^^ wrap xlen (immI w) := by
  unfold regImmOp
  rw [eval_bitXor, h.eval_rs1, h.eval_immI]; unfold Spec.bxor
  rw [h.trunc_get, EvalBasic.trunc_of_lt (wrap_lt _ _), ← h.hX]

theorem eval_ori (h : Ctx xlen W ρ s w) (a : Nat) :
    (regImmOp Tools.bitOr .I ⟨a, w⟩ W).eval ρ = s.get (rs1 w) ||| wrap xlen (immI w) := by
  unfold regImmOp
  rw [eval_bitOr, h.eval_rs1, h.eval_immI]; unfold Spec.bor
  rw [h.trunc_get, EvalBasic.trunc_of_lt (wrap_lt _ _), ← h.hX]

theorem eval_andi (h : Ctx xlen W ρ s w) (a : Nat) :
    (regImmOp Tools.bitAnd .I ⟨a, w⟩ W).eval ρ = s.get (rs1 w) &&& wrap xlen (immI w) := by
  unfold regImmOp
  rw [eval_bitAnd, h.eval_rs1, h.eval_immI]; unfold Spec.band
  rw [h.trunc_get, EvalBasic.trunc_of_lt (wrap_lt _ _), ← h.hX]

/-! ### shifts by an immediate: `regImmShift f i k W` with `2^k = xlen` (`k = 5` / `6`) -/

/-- `2^k = xlen` means `k = 5` (RV32) or `k = 6` (RV64) -/
theorem k_le (h : Ctx xlen W ρ s w) {k : Nat} (hk : 2 ^ k = xlen) : k ≤ 6 := by
  rcases h.xlen_cases with hx | hx <;> rw [hx] at hk
  · have : k = 5 := (Nat.pow_right_inj (a := 2) (n := 5) (by decide)).mp hk; omega
  · have : k = 6 := (Nat.pow_right_inj (a := 2) (n := 6) (by decide)).mp hk; omega

/-- the shift-amount constant of `regImmShift`, as seen by a `W`-byte operator -/
theorem eval_shamt (h : Ctx xlen W ρ s w) {k : Nat} (hk : 2 ^ k = xlen) :
    trunc W ((constFromInt 4 ((immParse .I w).1 % ((2 ^ k : Nat) : Int))).eval ρ) = bits w 20 k := by
  have hk12 : k ≤ 12 := by have := h.k_le hk; omega
  have hlt : bits w 20 k < 2 ^ 12 :=
    Nat.lt_of_lt_of_le (bits_lt _ _ _) (Nat.pow_le_pow_right (by decide) hk12)
  have hW := h.W_ge
  rw [eval_constFromInt, immParse_I h.hw]
  have : wrap (8 * 4) (immI w % ((2 ^ k : Nat) : Int)) = bits w 20 k := by
    have e := immI_mod (w := w) hk12
    have hnn : 0 ≤ immI w % ((2 ^ k : Nat) : Int) :=
      Int.emod_nonneg _ (by have := pow_pos' k; omega)
    have hc : immI w % ((2 ^ k : Nat) : Int) = ((bits w 20 k : Nat) : Int) := by omega
    have hlt' : bits w 20 k < 2 ^ (8 * 4) := Nat.lt_of_lt_of_le hlt (by decide)
    rw [hc, wrap_of_lt hlt']
  rw [this]
  apply EvalBasic.trunc_of_lt
  have : 2 ^ 12 ≤ 2 ^ (8 * W) := Nat.pow_le_pow_right (by decide) (by omega)
  omega

theorem bits_shamt_lt (h : Ctx xlen W ρ s w) {k : Nat} (hk : 2 ^ k = xlen) :
    bits w 20 k < 8 * W := by
  rw [← h.hX, ← hk]; exact bits_lt _ _ _

/-- `slli`: `(A * 2^shamt) % 2^xlen` -/
theorem eval_slli (h : Ctx xlen W ρ s w) (a : Nat) {k : Nat} (hk : 2 ^ k = xlen) :
    (regImmShift (binOpFunc .lsh) ⟨a, w⟩ k W).eval ρ
      = (s.get (rs1 w) * 2 ^ bits w 20 k) % 2 ^ xlen := by
  have hsh := h.bits_shamt_lt hk
  simp only [regImmShift, binOpFunc, eval_binary, h.eval_rs1, h.trunc_get, h.eval_shamt hk, evalBin]
  rw [if_neg (by omega), h.hX]

/-- `srli`: `A / 2^shamt` -/
theorem eval_srli (h : Ctx xlen W ρ s w) (a : Nat) {k : Nat} (hk : 2 ^ k = xlen) :
    (regImmShift (binOpFunc .rsh) ⟨a, w⟩ k W).eval ρ = s.get (rs1 w) / 2 ^ bits w 20 k := by
  have hsh := h.bits_shamt_lt hk
  simp only [regImmShift, binOpFunc, eval_binary, h.eval_rs1, h.trunc_get, h.eval_shamt hk, evalBin]
  rw [if_neg (by omega)]

/-- `srai`: `sra xlen A shamt` -/
theorem eval_srai (h : Ctx xlen W ρ s w) (a : Nat) {k : Nat} (hk : 2 ^ k = xlen) :
    (regImmShift Tools.rshA ⟨a, w⟩ k W).eval ρ = sra xlen (s.get (rs1 w)) (bits w 20 k) := by
  have hsh := h.bits_shamt_lt hk
  simp only [regImmShift]
  rw [eval_rshA _ _ _ _ h.W_pos h.W_le255, h.eval_rs1, h.eval_shamt hk,
    rsha_bridge (h.get_lt' _) hsh, ← h.hX]

/-! ### register-register ALU -/

theorem eval_add (h : Ctx xlen W ρ s w) (a : Nat) :
    (reg2Op (binOpFunc .add) ⟨a, w⟩ W).eval ρ = (s.get (rs1 w) + s.get (rs2 w)) % 2 ^ xlen := by
  simp only [reg2Op, binOpFunc, eval_binary, h.eval_rs1, h.eval_rs2, h.trunc_get, evalBin, h.hX]

theorem eval_sub (h : Ctx xlen W ρ s w) (a : Nat) :
    (reg2Op Tools.sub ⟨a, w⟩ W).eval ρ = wrap xlen ((s.get (rs1 w) : Int) - s.get (rs2 w)) := by
  unfold reg2Op
  rw [Gadgets.eval_sub, h.eval_rs1, h.eval_rs2, h.trunc_get, h.trunc_get, sub_eq_wrap, ← h.hX]

theorem eval_slt (h : Ctx xlen W ρ s w) (a : Nat) :
    (Tools.lts (regLoad .rs1 ⟨a, w⟩ W) (regLoad .rs2 ⟨a, w⟩ W) Expr.one Expr.zero W).eval ρ
      = if sx xlen (s.get (rs1 w)) < sx xlen (s.get (rs2 w)) then 1 else 0 := by
  rw [h.cond_lts, eval_one, eval_zero, trunc_one h.W_pos, trunc_zero]

theorem eval_sltu (h : Ctx xlen W ρ s w) (a : Nat) :
    (Expr.less (regLoad .rs1 ⟨a, w⟩ W) (regLoad .rs2 ⟨a, w⟩ W) Expr.one Expr.zero W).eval ρ
      = if s.get (rs1 w) < s.get (rs2 w) then 1 else 0 := by
  rw [eval_less, h.eval_rs1, h.eval_rs2, h.trunc_get, h.trunc_get, eval_one, eval_zero,
    trunc_one h.W_pos, trunc_zero]

theorem eval_xor (h : Ctx xlen W ρ s w) (a : Nat) :
    (reg2Op Tools.bitXor ⟨a, w⟩ W).eval ρ = s.get (rs1 w) ^^^ s.get (rs2 w) := by
  unfold reg2Op
  rw [eval_bitXor, h.eval_rs1, h.eval_rs2]; unfold Spec.bxor
  rw [h.trunc_get, h.trunc_get]

theorem eval_or (h : Ctx xlen W ρ s w) (a : Nat) :
    (reg2Op Tools.bitOr ⟨a, w⟩ W).eval ρ = s.get (rs1 w) ||| s.get (rs2 w) := by
  unfold reg2Op
  rw [eval_bitOr, h.eval_rs1, h.eval_rs2]; unfold Spec.bor
  rw [h.trunc_get, h.trunc_get]

theorem eval_and (h : Ctx xlen W ρ s w) (a : Nat) :
    (reg2Op Tools.bitAnd ⟨a, w⟩ W).eval ρ = s.get (rs1 w) &&& s.get (rs2 w) := by
  unfold reg2Op
  rw [eval_bitAnd, h.eval_rs1, h.eval_rs2]; unfold Spec.band
  rw [h.trunc_get, h.trunc_get]

/-! ### shifts by a register: `maskedRegOp f i k W` with `2^k = xlen` -/

/-- the masked shift amount: `B mod xlen` -/
theorem eval_maskedShamt (h : Ctx xlen W ρ s w) (a : Nat) {k : Nat} (hk : 2 ^ k = xlen) :
    trunc W ((Tools.maskBits (regLoad .rs2 ⟨a, w⟩ W) k W).eval ρ) = s.get (rs2 w) % xlen := by
  have hW := h.W_pos
  have hk6 : k ≤ 6 := h.k_le hk
  have hok : Tools.bitMaskOk k W = true := by
    have h1 : 2 ^ k ≤ 2 ^ (8 * W) := Nat.pow_le_pow_right (by decide) (by omega)
    have h2 := pow_pos' k
    simp only [Tools.bitMaskOk, Bool.or_eq_true, decide_eq_true_eq]
    right; omega
  rw [eval_maskBits _ _ _ _ h.W_le255, h.eval_rs2]
  unfold Spec.mask
  rw [h.trunc_get, hk]
  exact h.trunc_of_lt (Nat.lt_of_lt_of_le (Nat.mod_lt _ (by rw [← hk]; exact pow_pos' k))
    (Nat.le_of_lt Nat.lt_two_pow_self))

theorem mod_xlen_lt (h : Ctx xlen W ρ s w) (x : Nat) : x % xlen < 8 * W := by
  rw [← h.hX]; exact Nat.mod_lt _ (by have := h.xlen_ge; omega)

/-- `sll`: `(A * 2^(B % xlen)) % 2^xlen` -/
theorem eval_sll (h : Ctx xlen W ρ s w) (a : Nat) {k : Nat} (hk : 2 ^ k = xlen) :
    (maskedRegOp (binOpFunc .lsh) ⟨a, w⟩ k W).eval ρ
      = (s.get (rs1 w) * 2 ^ (s.get (rs2 w) % xlen)) % 2 ^ xlen := by
  have hsh := h.mod_xlen_lt (s.get (rs2 w))
  simp only [maskedRegOp, binOpFunc, eval_binary, h.eval_rs1, h.trunc_get, h.eval_maskedShamt a hk,
    evalBin]
  rw [if_neg (by omega), h.hX]

/-- `srl`: `A / 2^(B % xlen)` -/
theorem eval_srl (h : Ctx xlen W ρ s w) (a : Nat) {k : Nat} (hk : 2 ^ k = xlen) :
    (maskedRegOp (binOpFunc .rsh) ⟨a, w⟩ k W).eval ρ
      = s.get (rs1 w) / 2 ^ (s.get (rs2 w) % xlen) := by
  have hsh := h.mod_xlen_lt (s.get (rs2 w))
  simp only [maskedRegOp, binOpFunc, eval_binary, h.eval_rs1, h.trunc_get, h.eval_maskedShamt a hk,
    evalBin]
  rw [if_neg (by omega)]

/-- `sra`: `sra xlen A (B % xlen)` -/
theorem eval_sra (h : Ctx xlen W ρ s w) (a : Nat) {k : Nat} (hk : 2 ^ k = xlen) :
    (maskedRegOp Tools.rshA ⟨a, w⟩ k W).eval ρ
      = sra xlen (s.get (rs1 w)) (s.get (rs2 w) % xlen) := by
  have hsh := h.mod_xlen_lt (s.get (rs2 w))
  simp only [maskedRegOp]
  rw [eval_rshA _ _ _ _ h.W_pos h.W_le255, h.eval_rs1, h.eval_maskedShamt a hk,
    rsha_bridge (h.get_lt' _) hsh, ← h.hX]

/-! ### CSR instructions: the new CSR value (`hnew'` of `StepOK.of_csr`); `t` = old value -/

/-- `csrrs`: `t ||| A` -/
theorem eval_csrrs (h : Ctx xlen W ρ s w) (a : Nat) :
    (Tools.bitOr (Expr.regLoad (csrKey ⟨a, w⟩) W) (regLoad .rs1 ⟨a, w⟩ W) W).eval ρ
      = s.csr (csrNum w) ||| s.get (rs1 w) := by
  rw [eval_bitOr, h.eval_csr, h.eval_rs1]; unfold Spec.bor
  rw [h.trunc_of_lt (h.csr_lt _), h.trunc_get]

/-- `csrrc`: `t &&& ~A` -/
theorem eval_csrrc (h : Ctx xlen W ρ s w) (a : Nat) :
    (Tools.bitAnd (Expr.regLoad (csrKey ⟨a, w⟩) W) (Tools.bitNot (regLoad .rs1 ⟨a, w⟩ W) W) W).eval ρ
      = s.csr (csrNum w) &&& (2 ^ xlen - 1 - s.get (rs1 w)) := by
  rw [eval_bitAnd, h.eval_csr, eval_bitNot, h.eval_rs1]; unfold Spec.band Spec.bnot Spec.M
  have := h.get_lt' (rs1 w)
  rw [h.trunc_of_lt (h.csr_lt _), h.trunc_get, EvalBasic.trunc_of_lt (by omega), ← h.hX]

theorem trunc_zimm (h : Ctx xlen W ρ s w) : trunc W (zimm w) = zimm w := by
  have := zimm_lt w
  have := h.pow_ge
  exact h.trunc_of_lt (by omega)

/-- `csrrsi`: `t ||| zimm` -/
theorem eval_csrrsi (h : Ctx xlen W ρ s w) (a : Nat) :
    (Tools.bitOr (Expr.regLoad (csrKey ⟨a, w⟩) W) (csrImm ⟨a, w⟩) W).eval ρ
      = s.csr (csrNum w) ||| zimm w := by
  rw [eval_bitOr, h.eval_csr, h.eval_csrImm]; unfold Spec.bor
  rw [h.trunc_of_lt (h.csr_lt _), h.trunc_zimm]

/-- `csrrci`: `t &&& ~zimm` -/
theorem eval_csrrci (h : Ctx xlen W ρ s w) (a : Nat) :
    (Tools.bitAnd (Expr.regLoad (csrKey ⟨a, w⟩) W) (Tools.bitNot (csrImm ⟨a, w⟩) W) W).eval ρ
      = s.csr (csrNum w) &&& (2 ^ xlen - 1 - zimm w) := by
  rw [eval_bitAnd, h.eval_csr, eval_bitNot, h.eval_csrImm]; unfold Spec.band Spec.bnot Spec.M
  have := zimm_lt w
  have := h.pow_ge
  rw [h.trunc_of_lt (h.csr_lt _), h.trunc_zimm, ← h.hX, h.trunc_of_lt (by omega)]

/-! ### A extension: `lr`, `sc`, AMOs.  `n` = bytes of the access (`n = W` for `atomicOp`, `n = 4`,
`W = 8` for `atomicOpWidth`); `t = s.load A n` the old memory value, `q = B % 2^(8n)` the operand. -/

/-- the load at `x[rs1]` (`lr`, and the `ld` of every AMO) -/
theorem eval_amoLoad (h : Ctx xlen W ρ s w) (a n : Nat) (hn : s.get (rs1 w) + n ≤ 2 ^ xlen) :
    (Riscv.memLoad (regLoad .rs1 ⟨a, w⟩ W) n).eval ρ = s.load (s.get (rs1 w)) n :=
  h.eval_memLoad _ n (h.eval_rs1 a) (h.get_lt _) hn

/-- `hR` of `of_amo` for `atomicOp` (full-width access): `rd := t`, the reference says `sext t` -/
theorem amo_rd (h : Ctx xlen W ρ s w) (a : Nat) (hn : s.get (rs1 w) + W ≤ 2 ^ xlen) :
    trunc W ((Riscv.memLoad (regLoad .rs1 ⟨a, w⟩ W) W).eval ρ)
      = Spec.Rv.sext xlen (8 * W) (s.load (s.get (rs1 w)) W) := by
  rw [h.eval_amoLoad a W hn, h.trunc_eq, h.hX, rvsext_self]

/-- `hR` of `of_amo` for `atomicOpWidth` (RV64 `.w` forms): `rd := sext32To64 t` -/
theorem amo_rd_w (h : Ctx 64 8 ρ s w) (a : Nat) (hn : s.get (rs1 w) + 4 ≤ 2 ^ 64) :
    trunc 8 ((sext32To64 (Riscv.memLoad (regLoad .rs1 ⟨a, w⟩ 8) 4)).eval ρ)
      = Spec.Rv.sext 64 (8 * 4) (s.load (s.get (rs1 w)) 4) := by
  rw [eval_sext32To64, h.eval_amoLoad a 4 hn]
  exact EvalBasic.trunc_of_lt (rvsext_lt 64 32 _)

/-- `hR` of `of_sc`: `rd := 0` -/
theorem trunc_eval_zero (W : Nat) (ρ : Env) : trunc W (Expr.zero.eval ρ) = 0 := by
  rw [eval_zero, trunc_zero]

/-- `hv` of `of_sc`/`of_amo` for a plain register store (`sc`, `amoswap`) -/
theorem amo_swap (h : Ctx xlen W ρ s w) (a n : Nat) :
    (regLoad .rs2 ⟨a, w⟩ n).eval ρ = s.get (rs2 w) % 2 ^ (8 * n) := h.eval_rs2' a n

theorem load_lt' (s : St) (A n : Nat) : trunc n (s.load A n) = s.load A n :=
  EvalBasic.trunc_of_lt (load_lt s A n)

theorem amo_add (h : Ctx xlen W ρ s w) (a n : Nat) (hn : s.get (rs1 w) + n ≤ 2 ^ xlen) :
    (binOpFunc .add (Riscv.memLoad (regLoad .rs1 ⟨a, w⟩ W) n) (regLoad .rs2 ⟨a, w⟩ n) n).eval ρ
      = (s.load (s.get (rs1 w)) n + s.get (rs2 w) % 2 ^ (8 * n)) % 2 ^ (8 * n) := by
  simp only [binOpFunc, eval_binary, h.eval_amoLoad a n hn, h.eval_rs2', load_lt', trunc_trunc, evalBin]
  rfl

theorem amo_xor (h : Ctx xlen W ρ s w) (a n : Nat) (hn : s.get (rs1 w) + n ≤ 2 ^ xlen) :
    (Tools.bitXor (Riscv.memLoad (regLoad .rs1 ⟨a, w⟩ W) n) (regLoad .rs2 ⟨a, w⟩ n) n).eval ρ
      = s.load (s.get (rs1 w)) n ^^^ s.get (rs2 w) % 2 ^ (8 * n) := by
  rw [eval_bitXor, h.eval_amoLoad a n hn, h.eval_rs2']; unfold Spec.bxor
  rw [load_lt', trunc_trunc]; rfl

theorem amo_and (h : Ctx xlen W ρ s w) (a n : Nat) (hn : s.get (rs1 w) + n ≤ 2 ^ xlen) :
    (Tools.bitAnd (Riscv.memLoad (regLoad .rs1 ⟨a, w⟩ W) n) (regLoad .rs2 ⟨a, w⟩ n) n).eval ρ
      = s.load (s.get (rs1 w)) n &&& s.get (rs2 w) % 2 ^ (8 * n) := by
  rw [eval_bitAnd, h.eval_amoLoad a n hn, h.eval_rs2']; unfold Spec.band
  rw [load_lt', trunc_trunc]; rfl

theorem amo_or (h : Ctx xlen W ρ s w) (a n : Nat) (hn : s.get (rs1 w) + n ≤ 2 ^ xlen) :
    (Tools.bitOr (Riscv.memLoad (regLoad .rs1 ⟨a, w⟩ W) n) (regLoad .rs2 ⟨a, w⟩ n) n).eval ρ
      = s.load (s.get (rs1 w)) n ||| s.get (rs2 w) % 2 ^ (8 * n) := by
  rw [eval_bitOr, h.eval_amoLoad a n hn, h.eval_rs2']; unfold Spec.bor
  rw [load_lt', trunc_trunc]; rfl

/-- signed min/max: `atomicMinMax Tools.lts negate` -/
theorem amo_smin (h : Ctx xlen W ρ s w) (a n : Nat) (hn : s.get (rs1 w) + n ≤ 2 ^ xlen)
    (h1 : 1 ≤ n) (h255 : n ≤ 255) :
    (atomicMinMax Tools.lts false (Riscv.memLoad (regLoad .rs1 ⟨a, w⟩ W) n)
        (regLoad .rs2 ⟨a, w⟩ n) n).eval ρ
      = smin (8 * n) (s.load (s.get (rs1 w)) n) (s.get (rs2 w) % 2 ^ (8 * n)) := by
  have hq : s.get (rs2 w) % 2 ^ (8 * n) < 2 ^ (8 * n) := Nat.mod_lt _ (pow_pos' _)
  simp only [atomicMinMax, Bool.false_eq_true, if_false]
  rw [eval_lts _ _ _ _ _ _ h1 h255, h.eval_amoLoad a n hn, h.eval_rs2', load_lt', trunc_trunc,
    toInt_eq_sx (load_lt _ _ _), trunc_eq_mod, toInt_eq_sx hq]
  rfl

theorem amo_smax (h : Ctx xlen W ρ s w) (a n : Nat) (hn : s.get (rs1 w) + n ≤ 2 ^ xlen)
    (h1 : 1 ≤ n) (h255 : n ≤ 255) :
    (atomicMinMax Tools.lts true (Riscv.memLoad (regLoad .rs1 ⟨a, w⟩ W) n)
        (regLoad .rs2 ⟨a, w⟩ n) n).eval ρ
      = smax (8 * n) (s.load (s.get (rs1 w)) n) (s.get (rs2 w) % 2 ^ (8 * n)) := by
  have hq : s.get (rs2 w) % 2 ^ (8 * n) < 2 ^ (8 * n) := Nat.mod_lt _ (pow_pos' _)
  simp only [atomicMinMax, if_true]
  rw [eval_lts _ _ _ _ _ _ h1 h255, h.eval_amoLoad a n hn, h.eval_rs2', load_lt', trunc_trunc,
    toInt_eq_sx (load_lt _ _ _), trunc_eq_mod, toInt_eq_sx hq]
  rfl

/-- unsigned min/max: `atomicMinMax lessFunc negate` -/
theorem amo_minu (h : Ctx xlen W ρ s w) (a n : Nat) (hn : s.get (rs1 w) + n ≤ 2 ^ xlen) :
    (atomicMinMax lessFunc false (Riscv.memLoad (regLoad .rs1 ⟨a, w⟩ W) n)
        (regLoad .rs2 ⟨a, w⟩ n) n).eval ρ
      = min (s.load (s.get (rs1 w)) n) (s.get (rs2 w) % 2 ^ (8 * n)) := by
  simp only [atomicMinMax, Bool.false_eq_true, if_false, lessFunc, eval_less,
    h.eval_amoLoad a n hn, h.eval_rs2', load_lt', trunc_trunc]
  rw [Nat.min_def]; unfold trunc
  split <;> split <;> omega

theorem amo_maxu (h : Ctx xlen W ρ s w) (a n : Nat) (hn : s.get (rs1 w) + n ≤ 2 ^ xlen) :
    (atomicMinMax lessFunc true (Riscv.memLoad (regLoad .rs1 ⟨a, w⟩ W) n)
        (regLoad .rs2 ⟨a, w⟩ n) n).eval ρ
      = max (s.load (s.get (rs1 w)) n) (s.get (rs2 w) % 2 ^ (8 * n)) := by
  simp only [atomicMinMax, if_true, lessFunc, eval_less,
    h.eval_amoLoad a n hn, h.eval_rs2', load_lt', trunc_trunc]
  rw [Nat.max_def]; unfold trunc
  split <;> split <;> omega

end Ctx

end Mltwist.Lemmas.RiscvLift
