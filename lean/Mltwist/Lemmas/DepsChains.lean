import Mltwist.Lemmas.DepsScanCtl
/-
From split form to positions, and the chain arguments of edge soundness: writers of a key,
special instructions and memory-ordering instructions form chains of edges.
-/
namespace Mltwist.Lemmas.Deps.Paths
open Mltwist Mltwist.Deps Mltwist.Deps.Spec

theorem Path.trans {E : Edges} {a b c : Nat} (h1 : Path E a b) (h2 : Path E b c) : Path E a c := by
  induction h1 with
  | edge h => exact Path.cons h h2
  | cons h _ ih => exact Path.cons h (ih h2)

theorem Path.mono {E E' : Edges} {a b : Nat} (hE : ∀ ed ∈ E, ed ∈ E') (h : Path E a b) :
    Path E' a b := by
  induction h with
  | edge h => exact Path.edge (hE _ h)
  | cons h _ ih => exact Path.cons (hE _ h) ih

/-- the instruction at position `k` exists and satisfies `P` -/
def At (seq : List Ins) (P : Ins → Prop) (k : Nat) : Prop := ∃ h : k < seq.length, P seq[k]

theorem split_idx (seq : List Ins) (i j : Nat) (hij : i < j) (hj : j < seq.length) :
    ∃ A B C, seq = A ++ seq[i] :: (B ++ seq[j] :: C) ∧
      (∀ b ∈ B, ∃ k, ∃ h : k < seq.length, i < k ∧ k < j ∧ b = seq[k]) ∧
      (j + 1 = seq.length → C = []) := by
  refine ⟨seq.take i, (seq.drop (i + 1)).take (j - (i + 1)), seq.drop (j + 1), ?_, ?_, ?_⟩
  · have h1 : seq = seq.take i ++ seq.drop i := (List.take_append_drop i seq).symm
    have h2 : seq.drop i = seq[i] :: seq.drop (i + 1) := List.drop_eq_getElem_cons (by omega)
    have h3 : seq.drop (i + 1) =
        (seq.drop (i + 1)).take (j - (i + 1)) ++ (seq.drop (i + 1)).drop (j - (i + 1)) :=
      (List.take_append_drop _ _).symm
    have h4 : (seq.drop (i + 1)).drop (j - (i + 1)) = seq.drop j := by
      rw [List.drop_drop]; congr 1; omega
    have h5 : seq.drop j = seq[j] :: seq.drop (j + 1) := List.drop_eq_getElem_cons hj
    rw [h4, h5] at h3
    calc seq = seq.take i ++ seq.drop i := h1
      _ = seq.take i ++ seq[i] :: seq.drop (i + 1) := by rw [← h2]
      _ = _ := by rw [← h3]
  · intro b hb
    rw [List.mem_iff_getElem] at hb
    obtain ⟨k, hk, rfl⟩ := hb
    simp only [List.length_take, List.length_drop] at hk
    refine ⟨i + 1 + k, by omega, by omega, by omega, ?_⟩
    simp [List.getElem_take, List.getElem_drop]
  · intro h
    apply List.drop_eq_nil_of_le
    omega

/-- a split-form edge lemma at positions -/
theorem of_split (seq : List Ins) (hid : IdsArePositions seq) (i j : Nat) (hij : i < j)
    (hj : j < seq.length) (E : Edges) (Px Py PB : Ins → Prop)
    (hs : ∀ A B C x y, seq = A ++ x :: (B ++ y :: C) → x.id ≠ y.id → Px x → Py y →
      (∀ b ∈ B, PB b) → (x.id, y.id) ∈ E)
    (hx : Px seq[i]) (hy : Py seq[j])
    (hB : ∀ k (h : k < seq.length), i < k → k < j → PB seq[k]) : (i, j) ∈ E := by
  obtain ⟨A, B, C, hseq, hBm, _⟩ := split_idx seq i j hij hj
  have hi' : seq[i].id = i := hid i (by omega)
  have hj' : seq[j].id = j := hid j hj
  have := hs A B C _ _ hseq (by rw [hi', hj']; omega) hx hy (fun b hb => by
    obtain ⟨k, h, h1, h2, rfl⟩ := hBm b hb
    exact hB k h h1 h2)
  rwa [hi', hj'] at this

/-! ### chains -/

theorem chain_idx (lo hi : Nat) (R : Nat → Nat → Prop) (Rt : ∀ a b c, R a b → R b c → R a c)
    (D : Nat → Prop)
    (direct : ∀ i j, lo ≤ i → i < j → j ≤ hi → D i → D j → (∀ k, i < k → k < j → ¬ D k) → R i j) :
    ∀ i j, lo ≤ i → i < j → j ≤ hi → D i → D j → R i j := by
  have : ∀ d i j, j - i ≤ d → lo ≤ i → i < j → j ≤ hi → D i → D j → R i j := by
    intro d
    induction d with
    | zero => intro i j h _ h2; omega
    | succ d ih =>
      intro i j hd hlo hij hhi hDi hDj
      by_cases hex : ∃ k, i < k ∧ k < j ∧ D k
      · obtain ⟨k, h1, h2, hDk⟩ := hex
        exact Rt _ _ _ (ih i k (by omega) hlo h1 (by omega) hDi hDk)
          (ih k j (by omega) (by omega) h2 hhi hDk hDj)
      · exact direct i j hlo hij hhi hDi hDj (fun k h1 h2 hk => hex ⟨k, h1, h2, hk⟩)
  intro i j
  exact this (j - i) i j (Nat.le_refl _)

theorem raw_idx (lo hi : Nat) (R : Nat → Nat → Prop) (Rt : ∀ a b c, R a b → R b c → R a c)
    (D T : Nat → Prop)
    (chain : ∀ i j, lo ≤ i → i < j → j ≤ hi → D i → D j → R i j)
    (direct : ∀ i j, lo ≤ i → i < j → j ≤ hi → D i → T j → (∀ k, i < k → k < j → ¬ D k) → R i j) :
    ∀ i j, lo ≤ i → i < j → j ≤ hi → D i → T j → R i j := by
  have : ∀ d i j, j - i ≤ d → lo ≤ i → i < j → j ≤ hi → D i → T j → R i j := by
    intro d
    induction d with
    | zero => intro i j h _ h2; omega
    | succ d ih =>
      intro i j hd hlo hij hhi hDi hTj
      by_cases hex : ∃ k, i < k ∧ k < j ∧ D k
      · obtain ⟨k, h1, h2, hDk⟩ := hex
        exact Rt _ _ _ (chain i k hlo h1 (by omega) hDi hDk)
          (ih k j (by omega) (by omega) h2 hhi hDk hTj)
      · exact direct i j hlo hij hhi hDi hTj (fun k h1 h2 hk => hex ⟨k, h1, h2, hk⟩)
  intro i j
  exact this (j - i) i j (Nat.le_refl _)

theorem war_idx (lo hi : Nat) (R : Nat → Nat → Prop) (Rt : ∀ a b c, R a b → R b c → R a c)
    (D S : Nat → Prop)
    (chain : ∀ i j, lo ≤ i → i < j → j ≤ hi → D i → D j → R i j)
    (direct : ∀ i j, lo ≤ i → i < j → j ≤ hi → S i → ¬ D i → D j →
      (∀ k, i < k → k < j → ¬ D k) → R i j) :
    ∀ i j, lo ≤ i → i < j → j ≤ hi → S i → D j → R i j := by
  have : ∀ d i j, j - i ≤ d → lo ≤ i → i < j → j ≤ hi → S i → ¬ D i → D j → R i j := by
    intro d
    induction d with
    | zero => intro i j h _ h2; omega
    | succ d ih =>
      intro i j hd hlo hij hhi hSi hnD hDj
      by_cases hex : ∃ k, i < k ∧ k < j ∧ D k
      · obtain ⟨k, h1, h2, hDk⟩ := hex
        exact Rt _ _ _ (ih i k (by omega) hlo h1 (by omega) hSi hnD hDk)
          (chain k j (by omega) h2 hhi hDk hDj)
      · exact direct i j hlo hij hhi hSi hnD hDj (fun k h1 h2 hk => hex ⟨k, h1, h2, hk⟩)
  intro i j hlo hij hhi hSi hDj
  by_cases hDi : D i
  · exact chain i j hlo hij hhi hDi hDj
  · exact this (j - i) i j (Nat.le_refl _) hlo hij hhi hSi hDi hDj

/-! ### readers and writers of a key -/

theorem rw_paths (seq : List Ins) (E : Edges) (rd wr : Ins → List String)
    (hT : ∀ r i j (hij : i < j) (hj : j < seq.length), r ∈ wr seq[i] → r ∈ rd seq[j] →
      (∀ k, i < k → k < j → ¬ At seq (fun a => r ∈ wr a) k) → (i, j) ∈ E)
    (hA : ∀ r i j (hij : i < j) (hj : j < seq.length), r ∈ rd seq[i] → r ∉ wr seq[i] →
      r ∈ wr seq[j] → (∀ k, i < k → k < j → ¬ At seq (fun a => r ∈ wr a) k) → (i, j) ∈ E)
    (hO : ∀ r i j (hij : i < j) (hj : j < seq.length), r ∈ wr seq[i] → r ∈ wr seq[j] →
      (∀ k, i < k → k < j → ¬ At seq (fun a => r ∈ wr a) k) → (i, j) ∈ E)
    (r : String) (i j : Nat) (hij : i < j) (hj : j < seq.length)
    (hc : (r ∈ wr seq[i] ∧ r ∈ rd seq[j]) ∨ (r ∈ wr seq[i] ∧ r ∈ wr seq[j]) ∨
      (r ∈ rd seq[i] ∧ r ∈ wr seq[j])) : Path E i j := by
  have Rt : ∀ a b c, Path E a b → Path E b c → Path E a c := fun _ _ _ => Path.trans
  have chain := chain_idx 0 (seq.length - 1) (Path E) Rt (At seq (fun a => r ∈ wr a))
    (fun i j _ hij hhi hDi hDj hB => by
      obtain ⟨_, hDi⟩ := hDi
      obtain ⟨hj', hDj⟩ := hDj
      exact Path.edge (hO r i j hij hj' hDi hDj hB))
  have hi : i < seq.length := by omega
  rcases hc with ⟨h1, h2⟩ | ⟨h1, h2⟩ | ⟨h1, h2⟩
  · exact raw_idx 0 (seq.length - 1) (Path E) Rt (At seq (fun a => r ∈ wr a))
      (At seq (fun a => r ∈ rd a)) chain
      (fun i j _ hij hhi hDi hTj hB => by
        obtain ⟨_, hDi⟩ := hDi
        obtain ⟨hj', hTj⟩ := hTj
        exact Path.edge (hT r i j hij hj' hDi hTj hB))
      i j (Nat.zero_le _) hij (by omega) ⟨hi, h1⟩ ⟨hj, h2⟩
  · exact chain i j (Nat.zero_le _) hij (by omega) ⟨hi, h1⟩ ⟨hj, h2⟩
  · exact war_idx 0 (seq.length - 1) (Path E) Rt (At seq (fun a => r ∈ wr a))
      (At seq (fun a => r ∈ rd a)) chain
      (fun i j _ hij hhi hSi hnD hDj hB => by
        obtain ⟨hi', hSi⟩ := hSi
        obtain ⟨hj', hDj⟩ := hDj
        exact Path.edge (hA r i j hij hj' hSi (fun h => hnD ⟨hi', h⟩) hDj hB))
      i j (Nat.zero_le _) hij (by omega) ⟨hi, h1⟩ ⟨hj, h2⟩

/-! ### special instructions -/

theorem special_paths (seq : List Ins) (E : Edges)
    (hF : ∀ i j (hij : i < j) (hj : j < seq.length), insSpecial seq[i] = true →
      (∀ k, i < k → k < j → ¬ At seq (fun a => insSpecial a = true) k) → (i, j) ∈ E)
    (hBk : ∀ i j (_ : i < j) (hj : j < seq.length), insSpecial seq[j] = true →
      (∀ k, i < k → k < j → ¬ At seq (fun a => insSpecial a = true) k) → (i, j) ∈ E)
    (i j : Nat) (hij : i < j) (hj : j < seq.length)
    (hc : insSpecial seq[i] = true ∨ insSpecial seq[j] = true) : Path E i j := by
  have Rt : ∀ a b c, Path E a b → Path E b c → Path E a c := fun _ _ _ => Path.trans
  have chain := chain_idx 0 (seq.length - 1) (Path E) Rt (At seq (fun a => insSpecial a = true))
    (fun i j _ hij hhi hDi hDj hB => by
      obtain ⟨_, hDi⟩ := hDi
      obtain ⟨hj', hDj⟩ := hDj
      exact Path.edge (hF i j hij hj' hDi hB))
  have hi : i < seq.length := by omega
  rcases hc with h1 | h1
  · exact raw_idx 0 (seq.length - 1) (Path E) Rt (At seq (fun a => insSpecial a = true))
      (fun k => k < seq.length) chain
      (fun i j _ hij hhi hDi hTj hB => by
        obtain ⟨_, hDi⟩ := hDi
        exact Path.edge (hF i j hij hTj hDi hB))
      i j (Nat.zero_le _) hij (by omega) ⟨hi, h1⟩ hj
  · exact war_idx 0 (seq.length - 1) (Path E) Rt (At seq (fun a => insSpecial a = true))
      (fun _ => True) chain
      (fun i j _ hij hhi _ _ hDj hB => by
        obtain ⟨hj', hDj⟩ := hDj
        exact Path.edge (hBk i j hij hj' hDj hB))
      i j (Nat.zero_le _) hij (by omega) trivial ⟨hj, h1⟩

/-! ### memory ordering -/

theorem mo_paths (seq : List Ins) (E : Edges)
    (hsp : ∀ i j (hij : i < j) (hj : j < seq.length),
      insSpecial seq[i] = true ∨ insSpecial seq[j] = true → Path E i j)
    (hF : ∀ i j (hij : i < j) (hj : j < seq.length), insMemOrder seq[i] = true →
      insSpecial seq[i] = false → isMemAccess seq[j] = true →
      (∀ k, i < k → k < j → ¬ At seq (fun a => insSpecial a = true ∨ insMemOrder a = true) k) →
      (i, j) ∈ E)
    (hBk : ∀ i j (hij : i < j) (hj : j < seq.length), insMemOrder seq[j] = true →
      insSpecial seq[j] = false → (isMemAccess seq[i] = true ∨ insMemOrder seq[i] = true) →
      (∀ k, i < k → k < j → ¬ At seq (fun a => insSpecial a = true ∨ insMemOrder a = true) k) →
      (i, j) ∈ E)
    (i j : Nat) (hij : i < j) (hj : j < seq.length)
    (hc : (insMemOrder seq[i] = true ∧ (isMemAccess seq[j] = true ∨ insMemOrder seq[j] = true)) ∨
      (insMemOrder seq[j] = true ∧ isMemAccess seq[i] = true)) : Path E i j := by
  have Rt : ∀ a b c, Path E a b → Path E b c → Path E a c := fun _ _ _ => Path.trans
  have hi : i < seq.length := by omega
  by_cases hs : ∃ s, i ≤ s ∧ s ≤ j ∧ At seq (fun a => insSpecial a = true) s
  · obtain ⟨s, h1, h2, hs', hsp'⟩ := hs
    by_cases e1 : s = i
    · subst e1; exact hsp s j hij hj (Or.inl hsp')
    · by_cases e2 : s = j
      · subst e2; exact hsp i s hij hj (Or.inr hsp')
      · exact Path.trans (hsp i s (by omega) hs' (Or.inr hsp'))
          (hsp s j (by omega) hj (Or.inl hsp'))
  · -- no special instruction in `[i, j]`
    have nsp : ∀ k (h : k < seq.length), i ≤ k → k ≤ j → insSpecial seq[k] = false := by
      intro k h h1 h2
      cases hk : insSpecial seq[k] with
      | false => rfl
      | true => exact absurd ⟨k, h1, h2, h, hk⟩ hs
    have nB : ∀ i' j', i ≤ i' → j' ≤ j →
        (∀ k, i' < k → k < j' → ¬ At seq (fun a => insMemOrder a = true) k) →
        ∀ k, i' < k → k < j' →
          ¬ At seq (fun a => insSpecial a = true ∨ insMemOrder a = true) k := by
      intro i' j' hi' hj' hB k h1 h2 hk
      obtain ⟨hk', hk⟩ := hk
      rcases hk with hk | hk
      · rw [nsp k hk' (by omega) (by omega)] at hk; cases hk
      · exact hB k h1 h2 ⟨hk', hk⟩
    have chain := chain_idx i j (Path E) Rt (At seq (fun a => insMemOrder a = true))
      (fun i' j' hlo hij' hhi hDi hDj hB => by
        obtain ⟨hi'', hDi⟩ := hDi
        obtain ⟨hj'', hDj⟩ := hDj
        exact Path.edge (hBk i' j' hij' hj'' hDj (nsp j' hj'' (by omega) hhi) (Or.inr hDi)
          (nB i' j' hlo hhi hB)))
    rcases hc with ⟨h1, h2 | h2⟩ | ⟨h1, h2⟩
    · exact raw_idx i j (Path E) Rt (At seq (fun a => insMemOrder a = true))
        (At seq (fun a => isMemAccess a = true)) chain
        (fun i' j' hlo hij' hhi hDi hTj hB => by
          obtain ⟨hi'', hDi⟩ := hDi
          obtain ⟨hj'', hTj⟩ := hTj
          exact Path.edge (hF i' j' hij' hj'' hDi (nsp i' hi'' hlo (by omega)) hTj
            (nB i' j' hlo hhi hB)))
        i j (Nat.le_refl _) hij (Nat.le_refl _) ⟨hi, h1⟩ ⟨hj, h2⟩
    · exact chain i j (Nat.le_refl _) hij (Nat.le_refl _) ⟨hi, h1⟩ ⟨hj, h2⟩
    · exact war_idx i j (Path E) Rt (At seq (fun a => insMemOrder a = true))
        (At seq (fun a => isMemAccess a = true)) chain
        (fun i' j' hlo hij' hhi hSi _ hDj hB => by
          obtain ⟨hi'', hSi⟩ := hSi
          obtain ⟨hj'', hDj⟩ := hDj
          exact Path.edge (hBk i' j' hij' hj'' hDj (nsp j' hj'' (by omega) hhi) (Or.inl hSi)
            (nB i' j' hlo hhi hB)))
        i j (Nat.le_refl _) hij (Nat.le_refl _) ⟨hi, h2⟩ ⟨hj, h1⟩

end Mltwist.Lemmas.Deps.Paths
