import Mltwist.Lemmas.SparseCut
/-
C14, part 2: evaluation of the `BitOr`/`Lsh` composition used by `Load`.
(`eval_bitOr` is proved here directly from `nandW`, independently of `Lemmas/Gadgets.lean`.)
-/
namespace Mltwist.Lemmas.Sparse
open Mltwist Mltwist.Sparse Mltwist.Spec.Sparse

theorem sub_testBit {n z : Nat} (hz : z < 2 ^ n) (i : Nat) :
    (2 ^ n - 1 - z).testBit i = (decide (i < n) && !z.testBit i) := by
  rw [Nat.sub_sub, Nat.add_comm 1 z]
  exact Nat.testBit_two_pow_sub_succ hz i

/-- De Morgan inside `n` bits -/
theorem demorgan {n x y : Nat} (hx : x < 2 ^ n) (hy : y < 2 ^ n) :
    2 ^ n - 1 - ((2 ^ n - 1 - x) &&& (2 ^ n - 1 - y)) = x ||| y := by
  have hpos : 0 < 2 ^ n := Nat.two_pow_pos n
  have hz : (2 ^ n - 1 - x) &&& (2 ^ n - 1 - y) < 2 ^ n := Nat.and_lt_two_pow _ (by omega)
  apply Nat.eq_of_testBit_eq
  intro i
  rw [sub_testBit hz, Nat.testBit_and, sub_testBit hx, sub_testBit hy, Nat.testBit_or]
  by_cases hi : i < n
  · simp [hi]
  · have hle : 2 ^ n ≤ 2 ^ i := Nat.pow_le_pow_right (by decide) (by omega)
    rw [Nat.testBit_lt_two_pow (Nat.lt_of_lt_of_le hx hle),
      Nat.testBit_lt_two_pow (Nat.lt_of_lt_of_le hy hle)]
    simp [hi]

theorem eval_zero (ρ : Env) : Expr.zero.eval ρ = 0 := by
  simp [Expr.zero, Expr.eval, leToNat]

theorem eval_ones' (ρ : Env) (w : Nat) : (Tools.ones w).eval ρ = 2 ^ (8 * w) - 1 := by
  simp [Tools.ones, Expr.eval, evalBin, nandW, eval_zero, Transform.trunc_zero]

theorem eval_bitNot' (ρ : Env) (e : Expr) (w : Nat) :
    (Tools.bitNot e w).eval ρ = 2 ^ (8 * w) - 1 - trunc w (e.eval ρ) := by
  have hpos : 0 < 2 ^ (8 * w) := Nat.two_pow_pos _
  have h1 : trunc w (2 ^ (8 * w) - 1) = 2 ^ (8 * w) - 1 := Transform.trunc_of_lt (by omega)
  simp only [Tools.bitNot, Expr.eval, evalBin, nandW, eval_ones', h1]
  rw [Nat.and_two_pow_sub_one_eq_mod, Nat.mod_eq_of_lt (Transform.trunc_lt _ _)]

theorem eval_bitOr' (ρ : Env) (a b : Expr) (w : Nat) :
    (Tools.bitOr a b w).eval ρ = trunc w (a.eval ρ) ||| trunc w (b.eval ρ) := by
  have hpos : 0 < 2 ^ (8 * w) := Nat.two_pow_pos _
  have ha := Transform.trunc_lt w (a.eval ρ)
  have hb := Transform.trunc_lt w (b.eval ρ)
  simp only [Tools.bitOr, Expr.eval, evalBin, nandW, eval_bitNot']
  rw [Transform.trunc_of_lt (x := 2 ^ (8 * w) - 1 - trunc w (a.eval ρ)) (by omega),
    Transform.trunc_of_lt (x := 2 ^ (8 * w) - 1 - trunc w (b.eval ρ)) (by omega)]
  exact demorgan ha hb

theorem bitOr_width (a b : Expr) (w : Nat) : (Tools.bitOr a b w).width = w := rfl

/-- a value below `256^k` or-ed with a multiple of `256^k` is their sum -/
theorem or_shift_eq_add {A k : Nat} (hA : A < 256 ^ k) (C : Nat) :
    A ||| C * 256 ^ k = A + C * 256 ^ k := by
  rw [← Lemmas.Sparse.pow8_eq] at hA ⊢
  rw [← Nat.shiftLeft_eq, Nat.or_comm, Nat.add_comm]
  exact (Nat.shiftLeft_add_eq_or_of_lt hA C).symm

/-- one step of the loop of `Load`: `BitOr(acc, Lsh(c, (low-addr)*8, w), w)` appends the bytes of `c`
above the `k` bytes of `acc` -/
theorem eval_or_lsh (ρ : Env) (acc c : Expr) (k m w A C : Nat)
    (hacc : acc.eval ρ = A) (hA : A < 256 ^ k) (hc : c.eval ρ = C) (hC : C < 256 ^ m)
    (hk : 1 ≤ k) (hm : 1 ≤ m) (hkm : k + m ≤ w) (hw : w ≤ 255) :
    (Tools.bitOr acc (Expr.binary .lsh c (Tools.constUint (k * 8 % 2 ^ 64) 8) w) w).eval ρ
      = A + 256 ^ k * C := by
  have hw2 : 2 ≤ w := by omega
  have h16 : (256:Nat) ^ 2 ≤ 256 ^ w := Nat.pow_le_pow_right (by decide) hw2
  have hkw : 256 ^ k ≤ 256 ^ w := Nat.pow_le_pow_right (by decide) (by omega)
  have hCk : C * 256 ^ k < 256 ^ w := by
    have h1 : C * 256 ^ k < 256 ^ m * 256 ^ k := Nat.mul_lt_mul_of_pos_right hC (Bytes.pow256_pos k)
    rw [← Nat.pow_add] at h1
    exact Nat.lt_of_lt_of_le h1 (Nat.pow_le_pow_right (by decide) (by omega))
  have hC' : C < 256 ^ w :=
    Nat.lt_of_lt_of_le hC (Nat.pow_le_pow_right (by decide) (by omega))
  have hAw : A < 2 ^ (8 * w) := by rw [pow8_eq]; omega
  have hCw : C < 2 ^ (8 * w) := by rw [pow8_eq]; exact hC'
  have hCkw : C * 256 ^ k < 2 ^ (8 * w) := by rw [pow8_eq]; exact hCk
  have hk8 : k * 8 < 2 ^ (8 * w) := by rw [pow8_eq]; omega
  rw [eval_bitOr', hacc, Transform.trunc_of_lt hAw]
  have hsh : k * 8 % 2 ^ 64 = k * 8 := by omega
  have hlsh : (Expr.binary .lsh c (Tools.constUint (k * 8 % 2 ^ 64) 8) w).eval ρ = C * 256 ^ k := by
    simp only [Expr.eval, Tools.constUint, hsh, Bytes.leToNat_natToLE_pow256, hc]
    rw [Transform.trunc_of_lt hCw, Transform.trunc_of_lt hk8]
    unfold evalBin
    simp only
    rw [if_neg (by omega), Nat.mul_comm k 8, pow8_eq, pow8_eq, Nat.mod_eq_of_lt hCk]
  rw [hlsh, Transform.trunc_of_lt hCkw, or_shift_eq_add hA, Nat.mul_comm]

end Mltwist.Lemmas.Sparse
