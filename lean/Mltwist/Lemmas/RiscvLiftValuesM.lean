import Mltwist.Lemmas.RiscvLiftValues
/-
C01 library, part 5b: the values of the M extension (`mul`, `mulh`, `mulhsu`, `mulhu`, `div`,
`divu`, `rem`, `remu`), generic in the register width `W ∈ {4, 8}` (`xlen = 8 * W`); the division
lemmas also come in a primed form for operands read at `W'` bytes (`divw`, `remw`, … on RV64).

* §1 more arithmetic bridges: congruences (`sx_emod`, `wrap_mul`), the high half of a double-width
  product (`wrap_high`), `Int.tmod` as `a - b * tdiv a b` modulo `2^n`
* §2 `eval_signedDiv'`: `Tools.signedDiv` for operands of DIFFERENT widths (`regLoad` of `x0` is the
  one-byte constant `Expr.zero`, so `Gadgets.eval_signedDiv`, which wants both widths equal to the
  operator width, does not apply)
* §3 `Ctx.eval_mul … Ctx.eval_remu`
-/
namespace Mltwist.Lemmas.RiscvLift
open Mltwist Mltwist.Riscv Mltwist.Spec.Rv Mltwist.Spec.Lift
open Mltwist.Lemmas.EvalBasic Mltwist.Lemmas.Gadgets

/-! ## §1 Arithmetic -/

/-- `sx n v ≡ v (mod 2^n)` -/
theorem sx_emod (n v : Nat) : sx n v % ((2 ^ n : Nat) : Int) = (v : Int) % ((2 ^ n : Nat) : Int) := by
  rw [← natCast_wrap, wrap_sx, Int.natCast_emod]

/-- multiplication commutes with `wrap` -/
theorem wrap_mul (n : Nat) (i j : Int) : (wrap n i * wrap n j) % 2 ^ n = wrap n (i * j) := by
  apply Int.natCast_inj.mp
  rw [Int.natCast_emod, Int.natCast_mul, natCast_wrap, natCast_wrap, natCast_wrap, ← Int.mul_emod]

theorem wrap_mul_nat (n : Nat) (i : Int) {y : Nat} (hy : y < 2 ^ n) :
    (wrap n i * y) % 2 ^ n = wrap n (i * y) := by
  have := wrap_mul n i y
  rwa [wrap_of_lt hy] at this

/-- the high half of a double-width wrapped value: `wrap (2n) P / 2^n = wrap n (P / 2^n)` (floor
division) — `mulh`, `mulhsu` -/
theorem wrap_high {n m : Nat} (hm : m = n + n) (P : Int) :
    wrap m P / 2 ^ n = wrap n (P / ((2 ^ n : Nat) : Int)) := by
  subst hm
  have hpos : (0 : Int) < ((2 ^ n : Nat) : Int) := Int.natCast_pos.mpr (pow_pos' n)
  have hMM : ((2 ^ (n + n) : Nat) : Int) = ((2 ^ n : Nat) : Int) * ((2 ^ n : Nat) : Int) := by
    rw [Nat.pow_add, Int.natCast_mul]
  have hN := natCast_wrap (n + n) P
  have hlt := wrap_lt (n + n) P
  generalize wrap (n + n) P = N at hN hlt
  have hdecomp : P = (N : Int)
      + (((2 ^ n : Nat) : Int) * (P / ((2 ^ (n + n) : Nat) : Int))) * ((2 ^ n : Nat) : Int) := by
    have := Int.emod_add_mul_ediv P ((2 ^ (n + n) : Nat) : Int)
    rw [← hN, hMM] at this
    rw [hMM]
    grind
  have hdiv : N / 2 ^ n < 2 ^ n := by
    rw [Nat.div_lt_iff_lt_mul (pow_pos' n), ← Nat.pow_add]; exact hlt
  have hq : P / ((2 ^ n : Nat) : Int) = ((N / 2 ^ n : Nat) : Int)
      + ((2 ^ n : Nat) : Int) * (P / ((2 ^ (n + n) : Nat) : Int)) := by
    have : P / ((2 ^ n : Nat) : Int) = ((N : Int)
        + (((2 ^ n : Nat) : Int) * (P / ((2 ^ (n + n) : Nat) : Int))) * ((2 ^ n : Nat) : Int))
        / ((2 ^ n : Nat) : Int) := congrArg (· / ((2 ^ n : Nat) : Int)) hdecomp
    rw [this, Int.add_mul_ediv_right _ _ (by omega), ← Int.natCast_ediv]
  have : wrap n (((N / 2 ^ n : Nat) : Int)
      + ((2 ^ n : Nat) : Int) * (P / ((2 ^ (n + n) : Nat) : Int)))
      = wrap n ((N / 2 ^ n : Nat) : Int) := by
    apply wrap_congr
    rw [Int.mul_comm, Int.add_mul_emod_self_right]
  rw [hq, this, wrap_of_lt hdiv]

/-- `a - wrap(tdiv a b) * b ≡ tmod a b`, with everything only known modulo `2^n` — `rem` -/
theorem sub_mul_tdiv_emod (n : Nat) {A B D : Nat} {sa sb : Int}
    (hA : (A : Int) % ((2 ^ n : Nat) : Int) = sa % ((2 ^ n : Nat) : Int))
    (hB : (B : Int) % ((2 ^ n : Nat) : Int) = sb % ((2 ^ n : Nat) : Int))
    (hD : D = wrap n (Int.tdiv sa sb)) :
    wrap n ((A : Int) - ((D * B % 2 ^ n : Nat) : Int)) = wrap n (Int.tmod sa sb) := by
  apply wrap_congr
  have hDc : (D : Int) % ((2 ^ n : Nat) : Int) = Int.tdiv sa sb % ((2 ^ n : Nat) : Int) := by
    rw [hD, natCast_wrap]; exact Int.emod_emod_of_dvd _ (Int.dvd_refl _)
  rw [Int.natCast_emod, Int.sub_emod_emod, Int.natCast_mul, Int.sub_emod, Int.mul_emod, hA, hDc, hB,
    ← Int.mul_emod, ← Int.sub_emod, Int.tmod_def, Int.mul_comm]

/-! ## §2 `signedDiv` with operands of different widths -/

theorem width_intNegative (e : Expr) (w : Nat) : (Tools.intNegative e w).width = w := rfl

theorem eval_negativeSignJoin' (ρ : Env) (a b : Expr)
    (ha1 : 1 ≤ a.width) (ha : a.width ≤ 255) (hb1 : 1 ≤ b.width) (hb : b.width ≤ 255) :
    (Tools.negativeSignJoin a b).eval ρ =
      if (decide (toInt a.width (a.eval ρ) < 0) != decide (toInt b.width (b.eval ρ) < 0))
      then 1 else 0 := by
  have hwa : 1 ≤ (Tools.intNegative a a.width).width := ha1
  have hwb : 1 ≤ (Tools.intNegative b b.width).width := hb1
  simp only [Tools.negativeSignJoin, eval_bitXor, Spec.bxor, eval_bool _ _ hwa, eval_bool _ _ hwb,
    eval_intNegative _ _ _ ha1 ha, eval_intNegative _ _ _ hb1 hb, trunc_eval_width]
  have hHa := H_pos a.width
  have hHb := H_pos b.width
  by_cases h1 : toInt a.width (a.eval ρ) < 0 <;> by_cases h2 : toInt b.width (b.eval ρ) < 0
    <;> simp [h1, h2, trunc_one (Nat.le_refl 1)] <;> omega

/-- `Tools.signedDiv a b w` for `1 ≤ a.width, b.width ≤ w`: truncating division of the signed
readings at the operands' own widths; all ones for a zero divisor -/
theorem eval_signedDiv' (ρ : Env) (a b : Expr) (w : Nat) (hw : 1 ≤ w) (hw' : w ≤ 255)
    (ha1 : 1 ≤ a.width) (ha : a.width ≤ w) (hb1 : 1 ≤ b.width) (hb : b.width ≤ w) :
    (Tools.signedDiv a b w).eval ρ =
      if b.eval ρ = 0 then 2 ^ (8 * w) - 1
      else Spec.ofInt w (Int.tdiv (toInt a.width (a.eval ρ)) (toInt b.width (b.eval ρ))) := by
  have hM := M_pos w
  have hx := eval_lt ρ a
  have hy := eval_lt ρ b
  have hMa : 2 ^ (8 * a.width) ≤ 2 ^ (8 * w) := Nat.pow_le_pow_right (by decide) (by omega)
  have hMb : 2 ^ (8 * b.width) ≤ 2 ^ (8 * w) := Nat.pow_le_pow_right (by decide) (by omega)
  have hA := natAbs_toInt_lt ha1 hx
  have hB := natAbs_toInt_lt hb1 hy
  have habsa : (Tools.abs a a.width).eval ρ = (toInt a.width (a.eval ρ)).natAbs := by
    rw [eval_abs _ _ _ ha1 (by omega), abs_eq_natAbs ha1, trunc_eval_width]
  have habsb : (Tools.abs b b.width).eval ρ = (toInt b.width (b.eval ρ)).natAbs := by
    rw [eval_abs _ _ _ hb1 (by omega), abs_eq_natAbs hb1, trunc_eval_width]
  simp only [Tools.signedDiv, Tools.signedOp, eval_boolCond, eval_negate, eval_ones, Spec.ones, Spec.M,
    eval_negativeSignJoin' ρ a b ha1 (by omega) hb1 (by omega), eval_binary, evalBin, habsa, habsb]
  rw [EvalBasic.trunc_of_lt (x := b.eval ρ) (by omega),
    EvalBasic.trunc_of_lt (x := (toInt a.width (a.eval ρ)).natAbs) (by omega),
    EvalBasic.trunc_of_lt (x := (toInt b.width (b.eval ρ)).natAbs) (by omega)]
  generalize a.eval ρ = x at *
  generalize b.eval ρ = y at *
  by_cases hy0 : y = 0
  · subst hy0
    simp only [ne_eq, not_true, if_false, if_true]
    exact EvalBasic.trunc_of_lt (by omega)
  · have hb0 : toInt b.width y ≠ 0 := fun hh => hy0 ((toInt_eq_zero_iff hb1 hy).mp hh)
    have hB0 : (toInt b.width y).natAbs ≠ 0 := by omega
    simp only [hy0, hB0, if_false, ne_eq, not_false_eq_true, if_true]
    have hU : (toInt a.width x).natAbs / (toInt b.width y).natAbs < 2 ^ (8 * w) :=
      Nat.lt_of_le_of_lt (Nat.div_le_self _ _) (by omega)
    rw [tdiv_eq]
    split
    · simp only [trunc_one hw, if_true, Nat.one_ne_zero, not_false_eq_true, trunc_trunc]
      exact (EvalBasic.trunc_of_lt (ofInt_lt _ _) : trunc w (Spec.neg w _) = Spec.neg w _)
    · simp only [trunc_zero, not_true, if_false, trunc_trunc]
      rw [ofInt_natCast]

/-! ## §3 Values -/

namespace Ctx
variable {xlen W : Nat} {ρ : Env} {s : St} {w : Nat}

theorem width_regLoad_pos (r : Reg) (i : Ins) {W : Nat} (hW : 1 ≤ W) : 1 ≤ (regLoad r i W).width := by
  by_cases h : regNum r i.value = 0 <;> simp [regLoad, h, Expr.zero, Expr.width, hW]

theorem width_regLoad_le (r : Reg) (i : Ins) {W : Nat} (hW : 1 ≤ W) : (regLoad r i W).width ≤ W := by
  by_cases h : regNum r i.value = 0 <;> simp [regLoad, h, Expr.zero, Expr.width, hW]

/-- the signed reading of a register operand AT ITS OWN WIDTH (one byte for `x0`) is the reference's
signed reading of the register -/
theorem toInt_regLoad (h : Ctx xlen W ρ s w) (r : Reg) (a : Nat) :
    toInt (regLoad r ⟨a, w⟩ W).width ((regLoad r ⟨a, w⟩ W).eval ρ) = sx xlen (s.get (regNum r w)) := by
  have he := h.eval_regLoad r a
  by_cases h0 : regNum r w = 0
  · have hz : regLoad r ⟨a, w⟩ W = Expr.zero := by simp [regLoad, h0]
    rw [hz, h0]
    have : sx xlen 0 = 0 := by
      unfold sx; simp [Nat.zero_mod, pow_pos']
    rw [St.get_zero, this]; rfl
  · have hwd : (regLoad r ⟨a, w⟩ W).width = W := width_regLoad r _ W (Or.inr h0)
    rw [hwd, he, toInt_eq_sx (h.get_lt' _), ← h.hX]

theorem eval_mul (h : Ctx xlen W ρ s w) (a : Nat) :
    (reg2Op (binOpFunc .mul) ⟨a, w⟩ W).eval ρ = (s.get (rs1 w) * s.get (rs2 w)) % 2 ^ xlen := by
  simp only [reg2Op, binOpFunc, eval_binary, h.eval_rs1, h.eval_rs2, h.trunc_get, evalBin, h.hX]

/-- `divu`: the IR's `div` is RISC-V's unsigned division (all ones for a zero divisor) -/
theorem eval_divu (h : Ctx xlen W ρ s w) (a : Nat) :
    (reg2Op (binOpFunc .div) ⟨a, w⟩ W).eval ρ = udiv xlen (s.get (rs1 w)) (s.get (rs2 w)) := by
  simp only [reg2Op, binOpFunc, eval_binary, h.eval_rs1, h.eval_rs2, h.trunc_get, evalBin, udiv,
    h.hX, Nat.mod_eq_of_lt (h.get_lt' _)]

/-- `remu` -/
theorem eval_remu (h : Ctx xlen W ρ s w) (a : Nat) :
    (Tools.mod (regLoad .rs1 ⟨a, w⟩ W) (regLoad .rs2 ⟨a, w⟩ W) W).eval ρ
      = urem xlen (s.get (rs1 w)) (s.get (rs2 w)) := by
  rw [eval_mod, h.eval_rs1, h.eval_rs2]
  simp only [Spec.umod, h.trunc_get, urem, Nat.mod_eq_of_lt (h.get_lt _)]

/-- the shift that selects the high half: a one- or two-byte constant `xlen`, seen by a `2W`-byte
operator -/
theorem trunc_shift (h : Ctx xlen W ρ s w) (k : Nat) (hk : 1 ≤ k) :
    trunc (2 * W) ((constFromUint k xlen).eval ρ) = xlen := by
  have := h.xlen_le
  have hW := h.W_pos
  rw [eval_constFromUint, Nat.mod_eq_of_lt]
  · exact EvalBasic.trunc_of_lt (Nat.lt_of_lt_of_le (by omega : xlen < 2 ^ 8)
      (Nat.pow_le_pow_right (by decide) (by omega)))
  · exact Nat.lt_of_lt_of_le (by omega : xlen < 2 ^ 8) (Nat.pow_le_pow_right (by decide) (by omega))

theorem pow_two_W (h : Ctx xlen W ρ s w) : 2 ^ (8 * (2 * W)) = 2 ^ xlen * 2 ^ xlen := by
  rw [h.hX, ← Nat.pow_add]; congr 1; omega

/-- `mulhu`: high half of the unsigned `2W`-byte product -/
theorem eval_mulhu (h : Ctx xlen W ρ s w) (a : Nat) :
    (newWidthGadget (.binary .rsh (.binary .mul (regLoad .rs1 ⟨a, w⟩ W) (regLoad .rs2 ⟨a, w⟩ W)
        (2 * W)) (constFromUint 1 xlen) (2 * W)) W).eval ρ
      = s.get (rs1 w) * s.get (rs2 w) / 2 ^ xlen := by
  have hA := h.get_lt (rs1 w)
  have hB := h.get_lt (rs2 w)
  have hMM := h.pow_two_W
  have hprod : s.get (rs1 w) * s.get (rs2 w) < 2 ^ xlen * 2 ^ xlen := Nat.mul_lt_mul'' hA hB
  have hX2 : 2 ^ xlen ≤ 2 ^ (8 * (2 * W)) := by
    rw [hMM]; exact Nat.le_mul_of_pos_left _ (pow_pos' _)
  have hsh : ¬ xlen ≥ 8 * (2 * W) := by have := h.hX; have := h.W_pos; omega
  rw [eval_widthGadget]
  simp only [eval_binary, evalBin, h.eval_rs1, h.eval_rs2, h.trunc_shift 1 (Nat.le_refl 1)]
  rw [EvalBasic.trunc_of_lt (x := s.get (rs1 w)) (by omega),
    EvalBasic.trunc_of_lt (x := s.get (rs2 w)) (by omega),
    Nat.mod_eq_of_lt (by omega), EvalBasic.trunc_of_lt (x := _ * _) (by omega), if_neg hsh]
  apply h.trunc_of_lt
  rw [Nat.div_lt_iff_lt_mul (pow_pos' _)]; exact hprod

/-- `mulh`: high half of the signed product -/
theorem eval_mulh (h : Ctx xlen W ρ s w) (a : Nat) :
    (newWidthGadget (.binary .rsh (Tools.signedMul (regLoad .rs1 ⟨a, w⟩ W) (regLoad .rs2 ⟨a, w⟩ W) W)
        (constFromUint 1 xlen) (2 * W)) W).eval ρ
      = wrap xlen (sx xlen (s.get (rs1 w)) * sx xlen (s.get (rs2 w)) / ((2 ^ xlen : Nat) : Int)) := by
  have hW := h.W_pos
  have hW8 := h.W_le
  have hsh : ¬ xlen ≥ 8 * (2 * W) := by have := h.hX; omega
  have hm : 8 * (2 * W) = xlen + xlen := by have := h.hX; omega
  rw [eval_widthGadget]
  simp only [eval_binary, evalBin, h.trunc_shift 1 (Nat.le_refl 1)]
  rw [eval_signedMul _ _ _ _ (by omega)
      ⟨width_regLoad_pos _ _ hW, by have := width_regLoad_le .rs1 ⟨a, w⟩ hW; omega⟩
      ⟨width_regLoad_pos _ _ hW, by have := width_regLoad_le .rs2 ⟨a, w⟩ hW; omega⟩]
  unfold Spec.smul
  rw [trunc_eval_width, trunc_eval_width, h.toInt_regLoad, h.toInt_regLoad, ofInt_eq_wrap,
    EvalBasic.trunc_of_lt (wrap_lt _ _), if_neg hsh, wrap_high hm]
  exact h.trunc_of_lt (wrap_lt _ _)

/-- `mulhsu`: high half of signed × unsigned -/
theorem eval_mulhsu (h : Ctx xlen W ρ s w) (a : Nat) :
    (Riscv.mulhsu (regLoad .rs1 ⟨a, w⟩ W) (regLoad .rs2 ⟨a, w⟩ W) W).eval ρ
      = wrap xlen (sx xlen (s.get (rs1 w)) * (s.get (rs2 w) : Int) / ((2 ^ xlen : Nat) : Int)) := by
  have hW := h.W_pos
  have hW8 := h.W_le
  have hX := h.hX
  have hsh : ¬ xlen ≥ 8 * (2 * W) := by omega
  have hm : 8 * (2 * W) = xlen + xlen := by omega
  have hA := h.get_lt (rs1 w)
  have hB := h.get_lt (rs2 w)
  have hXX : 2 ^ xlen ≤ 2 ^ (8 * (2 * W)) := Nat.pow_le_pow_right (by decide) (by omega)
  have hbit : trunc (2 * W) ((constFromUint 2 (8 * W - 1)).eval ρ) = 8 * W - 1 := by
    rw [eval_constFromUint, Nat.mod_eq_of_lt (by simp; omega)]
    exact EvalBasic.trunc_of_lt (Nat.lt_of_lt_of_le (by omega : 8 * W - 1 < 2 ^ 8)
      (Nat.pow_le_pow_right (by decide) (by omega)))
  have h8 : trunc (2 * W) ((constFromUint 2 (8 * W)).eval ρ) = xlen := by
    rw [← hX]; exact h.trunc_shift 2 (by decide)
  unfold Riscv.mulhsu
  rw [eval_widthGadget]
  simp only [eval_binary, evalBin, h8]
  rw [eval_signExtend _ _ _ _ (by rw [hbit]; omega), hbit, sext_bridge (by omega), h.eval_rs1,
    h.eval_rs2, EvalBasic.trunc_of_lt (x := s.get (rs1 w)) (by omega),
    EvalBasic.trunc_of_lt (x := s.get (rs2 w)) (by omega)]
  have hbit1 : 8 * W - 1 + 1 = xlen := by omega
  unfold Spec.Rv.sext
  rw [hbit1, EvalBasic.trunc_of_lt (wrap_lt _ _), wrap_mul_nat _ _ (by omega),
    EvalBasic.trunc_of_lt (wrap_lt _ _), if_neg hsh, wrap_high hm]
  exact h.trunc_of_lt (wrap_lt _ _)

/-- the signed reading of a register operand read at `W'` bytes, at its own width -/
theorem toInt_regLoad' (h : Ctx xlen W ρ s w) (r : Reg) (a : Nat) {W' : Nat} (_hW' : 1 ≤ W') :
    toInt (regLoad r ⟨a, w⟩ W').width ((regLoad r ⟨a, w⟩ W').eval ρ)
      = sx (8 * W') (s.get (regNum r w)) := by
  have he := h.eval_regLoad' r a W'
  by_cases h0 : regNum r w = 0
  · have hz : regLoad r ⟨a, w⟩ W' = Expr.zero := by simp [regLoad, h0]
    rw [hz, h0]
    have : sx (8 * W') 0 = 0 := by
      unfold sx; simp [Nat.zero_mod, pow_pos']
    rw [St.get_zero, this]; rfl
  · have hwd : (regLoad r ⟨a, w⟩ W').width = W' := by simp [regLoad, h0, Expr.width]
    rw [hwd, he, toInt_eq_sx (trunc_lt _ _), trunc_eq_mod, sx_mod]

/-- `div`/`divw`: `Tools.signedDiv` on the two source registers read at `W'` bytes is the
reference's `sdiv` on `8 * W'` bits (which only looks at the low `8 * W'` bits) -/
theorem eval_div' (h : Ctx xlen W ρ s w) (a : Nat) {W' : Nat} (h1 : 1 ≤ W') (h255 : W' ≤ 255) :
    (Tools.signedDiv (regLoad .rs1 ⟨a, w⟩ W') (regLoad .rs2 ⟨a, w⟩ W') W').eval ρ
      = sdiv (8 * W') (s.get (rs1 w)) (s.get (rs2 w)) := by
  rw [eval_signedDiv' _ _ _ _ h1 h255 (width_regLoad_pos _ _ h1) (width_regLoad_le _ _ h1)
    (width_regLoad_pos _ _ h1) (width_regLoad_le _ _ h1), h.toInt_regLoad' _ _ h1,
    h.toInt_regLoad' _ _ h1, h.eval_rs2']
  rfl

theorem eval_div (h : Ctx xlen W ρ s w) (a : Nat) :
    (Tools.signedDiv (regLoad .rs1 ⟨a, w⟩ W) (regLoad .rs2 ⟨a, w⟩ W) W).eval ρ
      = sdiv xlen (s.get (rs1 w)) (s.get (rs2 w)) := by
  rw [h.eval_div' a h.W_pos h.W_le255, ← h.hX]

theorem sdiv_lt (n a b : Nat) : sdiv n a b < 2 ^ n := by
  unfold sdiv; split
  · have := pow_pos' n; omega
  · exact wrap_lt _ _

/-- `rem`/`remw`: `a - (a sdiv b) * b` at `W'` bytes is the reference's `srem` -/
theorem eval_rem' (h : Ctx xlen W ρ s w) (a : Nat) {W' : Nat} (h1 : 1 ≤ W') (h255 : W' ≤ 255) :
    (signedRem (regLoad .rs1 ⟨a, w⟩ W') (regLoad .rs2 ⟨a, w⟩ W') W').eval ρ
      = srem (8 * W') (s.get (rs1 w)) (s.get (rs2 w)) := by
  unfold signedRem
  rw [Gadgets.eval_sub, eval_binary, h.eval_div' a h1 h255, h.eval_rs1', h.eval_rs2', trunc_trunc,
    trunc_trunc]
  simp only [evalBin]
  rw [trunc_mod_self, sub_eq_wrap, EvalBasic.trunc_of_lt (sdiv_lt _ _ _)]
  unfold srem
  by_cases hB0 : s.get (rs2 w) % 2 ^ (8 * W') = 0
  · have hB' : trunc W' (s.get (rs2 w)) = 0 := hB0
    rw [if_pos hB0, hB', Nat.mul_zero, Nat.zero_mod]
    simp only [Int.natCast_zero, Int.sub_zero]
    rw [wrap_natCast]
    exact trunc_trunc W' _
  · rw [if_neg hB0]
    refine sub_mul_tdiv_emod (8 * W') ?_ ?_ ?_
    · rw [sx_emod, trunc_eq_mod, Int.natCast_emod]
      exact Int.emod_emod_of_dvd _ (Int.dvd_refl _)
    · rw [sx_emod, trunc_eq_mod, Int.natCast_emod]
      exact Int.emod_emod_of_dvd _ (Int.dvd_refl _)
    · unfold sdiv; rw [if_neg hB0]

theorem eval_rem (h : Ctx xlen W ρ s w) (a : Nat) :
    (signedRem (regLoad .rs1 ⟨a, w⟩ W) (regLoad .rs2 ⟨a, w⟩ W) W).eval ρ
      = srem xlen (s.get (rs1 w)) (s.get (rs2 w)) := by
  rw [h.eval_rem' a h.W_pos h.W_le255, ← h.hX]

/-- `divu`/`divuw` at `W'` bytes -/
theorem eval_divu' (h : Ctx xlen W ρ s w) (a W' : Nat) :
    (reg2Op (binOpFunc .div) ⟨a, w⟩ W').eval ρ = udiv (8 * W') (s.get (rs1 w)) (s.get (rs2 w)) := by
  simp only [reg2Op, binOpFunc, eval_binary, h.eval_rs1', h.eval_rs2', evalBin, udiv,
    trunc_eq_mod, Nat.mod_mod]

/-- `remu`/`remuw` at `W'` bytes -/
theorem eval_remu' (h : Ctx xlen W ρ s w) (a W' : Nat) :
    (Tools.mod (regLoad .rs1 ⟨a, w⟩ W') (regLoad .rs2 ⟨a, w⟩ W') W').eval ρ
      = urem (8 * W') (s.get (rs1 w)) (s.get (rs2 w)) := by
  rw [eval_mod, h.eval_rs1', h.eval_rs2']
  simp only [Spec.umod, urem, trunc_eq_mod, Nat.mod_mod]

end Ctx

end Mltwist.Lemmas.RiscvLift
