import Mltwist.Lemmas.EmulatorShape
import Mltwist.Lemmas.EmulatorRegs
/-
Emulator (C03, C04), part 5: `memValue`.  On a state satisfying the invariant, for a range in the domain
of C14, `memValue` never panics (REPAIR F03: whatever `Mems.Load` returns folds to a constant); it asks
the provider exactly for the maximal missing sub-ranges (`Missing` is exact, C16), each of which is
unknown at that moment; afterwards every byte of the range is present and the result is the
little-endian value of the bytes the FINAL state holds.
-/
namespace Mltwist.Lemmas.Emulator
open Mltwist Mltwist.State Mltwist.Overlay Mltwist.Emulator Mltwist.Spec.Overlay Mltwist.Interval
open Mltwist.Lemmas.Overlay (Sub sub_inDom sub_facts In)
open Mltwist.Lemmas.State (Good)

/-- a closed well-formed expression folds to a constant of its width and value (C09) -/
theorem foldConst_shape {e : Expr} (h : Shape e) :
    ∃ v, foldConst e = .ok v ∧ constFold e = .const v ∧ v.length = e.width ∧ ∀ ρ, leToNat v = e.eval ρ := by
  have hc := Lemmas.Transform.constFold_closed e h.1
  obtain ⟨v, hv⟩ := Lemmas.Transform.isConst_iff.1 hc
  refine ⟨v, by unfold foldConst; rw [hv], hv, ?_, fun ρ => ?_⟩
  · have := Lemmas.Transform.constFold_width e
    rw [hv] at this
    exact this
  · have := Lemmas.Transform.constFold_eval ρ e h.2
    rw [hv] at this
    exact this

/-- the memory laws of an address space of a state satisfying the invariant -/
theorem laws_of_inv {s : State} (h : Inv s) (key : String) : MemLaws (s.mems.view key) (s.mems.abs key) :=
  Lemmas.Overlay.memmap_laws s.mems h.good.1 key

/-- the request for the missing interval `i` of the address space `key` -/
def reqOf (key : String) (i : Intv) : Req := .mem key (ibegin i) (ilen i)

theorem in_iff {i : Intv} {a w : Nat} (hs : Sub a w i) (hw : w ≤ 255) (x : Nat) :
    In x i ↔ ibegin i ≤ x ∧ x < ibegin i + ilen i := by
  have := sub_facts hs hw
  unfold In
  omega

/-- the loop of `memValue` over missing intervals that are unknown, inside the range and ordered -/
theorem fillMissing_spec (p : Provider) (key : String) {a w : Nat} (hd : InDom a w) :
    ∀ (l : List Intv) (c : Ctx), Inv c.st → (∀ i ∈ l, Sub a w i) → l.Pairwise (fun i j => i.2 < j.1) →
      (∀ i ∈ l, ∀ x : Nat, In x i → c.st.mems.abs key x = none) →
      ∃ c', fillMissing p key l c = .ok c' ∧ c'.log = c.log ++ l.map (reqOf key) ∧
        Fill p c.st (l.map (reqOf key)) c'.st ∧ c'.rep = c.rep ∧ c'.st.regs = c.st.regs ∧ Inv c'.st ∧
        ∀ i ∈ l, ∀ x : Nat, In x i → c'.st.mems.abs key x ≠ none
  | [], c, hi, _, _, _ =>
    ⟨c, rfl, by simp, Fill.nil _, rfl, rfl, hi, fun _ h => (nomatch h)⟩
  | i :: is, c, hi, hsub, hpw, habs => by
    have hs := hsub i (List.mem_cons_self ..)
    have hdi : InDom (ibegin i) (ilen i) := sub_inDom hs hd
    have hin := in_iff hs hd.2.1
    have hai : ∀ j, j < ilen i → c.st.mems.abs key (ibegin i + j) = none := by
      intro j hj
      exact habs i (List.mem_cons_self ..) _ ((hin _).2 ⟨by omega, by omega⟩)
    let val := Const.withWidth (p.mem key (ibegin i) (ilen i)) (ilen i)
    obtain ⟨m', h1, _, h3, _⟩ := good_store hi.good key (ibegin i) (.const val) (ilen i) hdi
    have hinv1 : Inv { c.st with mems := m' } := inv_store hi hdi (withWidth_byteConst _ hdi) h1
    have hpw' := List.pairwise_cons.1 hpw
    -- the remaining intervals stay unknown
    have habs1 : ∀ j ∈ is, ∀ x : Nat, In x j → m'.abs key x = none := by
      intro j hj x hx
      rw [h3]
      unfold AbsMem.store
      have hlt := hpw'.1 j hj
      have hf := sub_facts hs hd.2.1
      have hxj : j.1 ≤ (x : Int) := hx.1
      rw [if_neg (by omega)]
      exact habs j (List.mem_cons_of_mem _ hj) x hx
    obtain ⟨c', g1, g2, g3, g4, g5, g6, g7⟩ :=
      fillMissing_spec p key hd is
        { c with st := { c.st with mems := m' }, log := c.log ++ [.mem key (ibegin i) (ilen i)] }
        hinv1 (fun j hj => hsub j (List.mem_cons_of_mem _ hj)) hpw'.2 habs1
    refine ⟨c', ?_, ?_, ?_, g4, g5, g6, ?_⟩
    · unfold fillMissing
      simp only
      rw [h1]
      exact g1
    · rw [g2]
      simp [reqOf, List.append_assoc]
    · exact Fill.mem key (ibegin i) (ilen i) m' hdi hai h1 g3
    · intro j hj x hx
      rcases List.mem_cons.1 hj with h | h
      · subst h
        have hsup := supplied_store (p := p) hi.good hdi h1
        obtain ⟨b, hb, _⟩ := hsup (x - ibegin j) (by have := (hin x).1 hx; omega)
        have hxe : ibegin j + (x - ibegin j) = x := by have := (hin x).1 hx; omega
        rw [hxe] at hb
        have := g3.mext hinv1 key x b hb
        rw [this]
        simp
      · exact g7 j h x hx

/-- what `memValue` guarantees -/
structure MemValOut (p : Provider) (key : String) (addr w : Nat) (c : Ctx) (v : List UInt8) (c' : Ctx) : Prop where
  log : ∃ l, c'.log = c.log ++ l ∧ Fill p c.st l c'.st ∧
    ∀ r ∈ l, ∃ a' w', r = .mem key a' w' ∧ addr ≤ a' ∧ a' + w' ≤ addr + w
  rep : c'.rep = c.rep
  regs : c'.st.regs = c.st.regs
  inv : Inv c'.st
  len : v.length = w
  present : ∀ i, i < w → c'.st.mems.abs key (addr + i) ≠ none
  value : ∀ ρ, leToNat v = loadVal ρ (c'.st.mems.abs key) addr w

theorem memValue_spec (p : Provider) (c : Ctx) (key : String) (addr w : Nat) (hi : Inv c.st)
    (hd : InDom addr w) : ∃ v c', memValue p c key addr w = .ok (v, c') ∧ MemValOut p key addr w c v c' := by
  have hl := laws_of_inv hi key
  obtain ⟨r, h1, h2, h3⟩ := hl.load addr w hd
  have h1' : c.st.mems.load key addr w = .ok r := h1
  cases r with
  | some e =>
    obtain ⟨hw, hv⟩ := h3 e rfl
    obtain ⟨v, hf, _, hlen, hval⟩ := foldConst_shape (memmap_shape hi.good.1 hi.mems hd h1')
    refine ⟨v, c, ?_, ⟨⟨[], by simp, Fill.nil _, fun _ h => (nomatch h)⟩, rfl, rfl, hi, by rw [hlen, hw],
      h2.1 (by simp), fun ρ => by rw [hval ρ, hv ρ]⟩⟩
    unfold memValue
    rw [accessBad_false hd.2.2, h1']
    simp only [hf, Bool.false_eq_true, if_false]
  | none =>
    obtain ⟨miss, hm1, hm2, hm3⟩ := hl.missing addr w hd
    have hm1' : c.st.mems.missing key addr w = .ok miss := hm1
    have hsub : ∀ i ∈ miss, Sub addr w i :=
      Lemmas.Overlay.sub_of_normal hm2 (fun x hx => ⟨((hm3 x).1 hx).1, ((hm3 x).1 hx).2.1⟩)
    have hpw := ((Lemmas.Interval.normal_iff miss).1 hm2).2
    have habs : ∀ i ∈ miss, ∀ x : Nat, In x i → c.st.mems.abs key x = none := by
      intro i hi' x hx
      have := (hm3 (x : Int)).1 ((Lemmas.Overlay.mem_iff_in x miss).2 ⟨i, hi', hx⟩)
      simpa using this.2.2
    obtain ⟨c1, g1, g2, g3, g4, g5, g6, g7⟩ := fillMissing_spec p key hd miss c hi hsub hpw habs
    -- now everything is present
    have hall : ∀ i, i < w → c1.st.mems.abs key (addr + i) ≠ none := by
      intro i hi'
      cases hx : c.st.mems.abs key (addr + i) with
      | some b => rw [g3.mext hi key _ b hx]; simp
      | none =>
        have hmem : Interval.Mem ((addr + i : Nat) : Int) miss :=
          (hm3 _).2 ⟨by omega, by simp only [Int.toNat_natCast]; omega, by simp only [Int.toNat_natCast]; exact hx⟩
        obtain ⟨j, hj, hin⟩ := (Lemmas.Overlay.mem_iff_in _ miss).1 hmem
        exact g7 j hj _ hin
    have hl1 := laws_of_inv g6 key
    obtain ⟨r1, k1, k2, k3⟩ := hl1.load addr w hd
    have k1' : c1.st.mems.load key addr w = .ok r1 := k1
    cases r1 with
    | none => exact absurd (k2.2 hall) (by simp)
    | some e =>
      obtain ⟨hw, hv⟩ := k3 e rfl
      obtain ⟨v, hf, _, hlen, hval⟩ := foldConst_shape (memmap_shape g6.good.1 g6.mems hd k1')
      refine ⟨v, c1, ?_, ⟨⟨miss.map (reqOf key), g2, g3, ?_⟩, g4, g5, g6, by rw [hlen, hw], hall,
        fun ρ => by rw [hval ρ, hv ρ]⟩⟩
      · unfold memValue
        rw [accessBad_false hd.2.2, h1', hm1']
        simp only [g1, k1', hf, Bool.false_eq_true, if_false]
      · intro r hr
        obtain ⟨i, hi', rfl⟩ := List.mem_map.1 hr
        have := sub_facts (hsub i hi') hd.2.1
        exact ⟨ibegin i, ilen i, rfl, this.1, this.2.2.1⟩

/-- REPAIR F45: for ANY address and any width between 1 and 255, on a state satisfying the invariant `memValue`
never panics: either the range is in the domain of C14 and the load succeeds (as `memValue_spec` says), or
`checkAccess` stops the step — with the context untouched, before the provider is asked anything for this load -/
theorem memValue_total (p : Provider) (c : Ctx) (key : String) (addr w : Nat) (hi : Inv c.st)
    (ha : addr < 2 ^ 64) (hw : 1 ≤ w ∧ w ≤ 255) :
    (InDom addr w ∧ ∃ v c', memValue p c key addr w = .ok (v, c') ∧ MemValOut p key addr w c v c') ∨
    (2 ^ 64 ≤ addr + w ∧ memValue p c key addr w = .error (.access c addr w)) := by
  by_cases h : addr + w < 2 ^ 64
  · exact Or.inl ⟨⟨hw.1, hw.2, h⟩, memValue_spec p c key addr w hi ⟨hw.1, hw.2, h⟩⟩
  · refine Or.inr ⟨by omega, ?_⟩
    unfold memValue
    rw [accessBad_true ha (by omega) (by omega)]
    simp

end Mltwist.Lemmas.Emulator
