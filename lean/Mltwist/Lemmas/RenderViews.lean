import Mltwist.Model.Render
import Mltwist.Spec.Render
import Mathlib.Tactic.Linarith
import Mathlib.Tactic.Ring
/-
Proofs for C24, part 1: the golden-ratio cut and the leaf views (listing, memory, registers, prompt).
-/
namespace Mltwist.Lemmas.Render
open Mltwist.Render

/-! ### Out -/

@[simp] theorem app_none (a : Out) : a.app .none = a := by
  cases a with | mk n o => simp [Out.app, Out.none]

@[simp] theorem none_app (a : Out) : Out.none.app a = a := by
  cases a with | mk n o => cases o <;> simp [Out.app, Out.none]

@[simp] theorem app_row (a : Out) : a.app .row = ⟨a.nl + 1, false⟩ := by
  simp [Out.app, Out.row]

@[simp] theorem app_nl (a b : Out) : (a.app b).nl = a.nl + b.nl := rfl

theorem used_app_le (a b : Out) : (a.app b).used ≤ a.used + b.used := by
  cases a with | mk an ao => cases b with | mk bn bo =>
  simp only [Out.app, Out.used]
  by_cases h : bn = 0
  · subst h; cases ao <;> cases bo <;> simp
  · simp [h]; split <;> omega

theorem used_app_closed (a b : Out) (ha : a.op = false) : (a.app b).used = a.nl + b.used := by
  cases a with | mk an ao => cases b with | mk bn bo =>
  simp only at ha; subst ha
  simp only [Out.app, Out.used]
  by_cases h : bn = 0
  · subst h; simp
  · simp [h]; omega

theorem nl_le_used (a : Out) : a.nl ≤ a.used := by simp [Out.used]

/-! ### the golden-ratio cut -/

theorem phiOK_zero (n : Nat) : phiOK n 0 = true := by simp [phiOK]

theorem phiCutFrom_le (n b : Nat) : phiCutFrom n b ≤ b := by
  induction b with
  | zero => simp [phiCutFrom]
  | succ k ih => unfold phiCutFrom; split <;> omega

theorem phiCutFrom_ok (n b : Nat) : phiOK n (phiCutFrom n b) = true := by
  induction b with
  | zero => simp [phiCutFrom, phiOK_zero]
  | succ k ih => unfold phiCutFrom; split <;> assumption

theorem phiCutFrom_max (n b k : Nat) (hk : k ≤ b) (h : phiOK n k = true) : k ≤ phiCutFrom n b := by
  induction b with
  | zero => omega
  | succ b ih =>
    unfold phiCutFrom
    split
    · exact hk
    · rename_i hb
      by_cases hkb : k = b + 1
      · subst hkb; exact absurd h hb
      · exact ih (by omega)

theorem phiOK_le (n k : Nat) (h : phiOK n k = true) : 3 * k ≤ 2 * n := by
  simp [phiOK] at h; exact h.1

/-- `phiCut n ≤ n` (all the listing and the memory view need of it) -/
theorem phiCut_le (n : Nat) : phiCut n ≤ n := phiCutFrom_le n n

theorem phiCut_ok (n : Nat) : phiOK n (phiCut n) = true := phiCutFrom_ok n n

/-- `phiCut n` is the largest `k` with `k ≤ n/φ²` -/
theorem phiCut_max (n k : Nat) (h : phiOK n k = true) : k ≤ phiCut n :=
  phiCutFrom_max n n k (by have := phiOK_le n k h; omega) h

theorem phiCut_succ_not (n : Nat) : phiOK n (phiCut n + 1) = false := by
  cases h : phiOK n (phiCut n + 1) with
  | false => rfl
  | true => have := phiCut_max n _ h; omega

/-- for a height of at least one row the cut is smaller than the height: the cursor row is in the window -/
theorem phiCut_lt (n : Nat) (hn : 1 ≤ n) : phiCut n < n := by
  have := phiOK_le n _ (phiCut_ok n); omega

/-- the integer conditions of the model and of the specification say the same -/
theorem leDivPhiSq_iff (n k : Nat) : Spec.Render.leDivPhiSq n k = phiOK n k := by
  have e : ∀ a b : Bool, (a = true ↔ b = true) → a = b := by
    intro a b; cases a <;> cases b <;> simp
  apply e
  simp only [Spec.Render.leDivPhiSq, phiOK, Bool.and_eq_true, decide_eq_true_eq]
  constructor
  · rintro ⟨h1, h2⟩
    refine ⟨by omega, ?_⟩
    have h3 : (3 * n * k : Int) ≤ k * k + n * n := by nlinarith
    exact_mod_cast h3
  · rintro ⟨h1, h2⟩
    refine ⟨by omega, ?_⟩
    have h3 : (3 * n * k : Int) ≤ k * k + n * n := by exact_mod_cast h2
    nlinarith

/-- the model's cut satisfies the specification: `k ≤ n/φ² < k + 1` -/
theorem isPhiCut_phiCut (n : Nat) : Spec.Render.isPhiCut n (phiCut n) = true := by
  have h2 := leDivPhiSq_iff n (phiCut n + 1)
  simp only [Spec.Render.isPhiCut, leDivPhiSq_iff, phiCut_ok, Bool.true_and]
  rw [show ((phiCut n : Nat) : Int) + 1 = ((phiCut n + 1 : Nat) : Int) by push_cast; rfl, h2,
    phiCut_succ_not]
  rfl

/-- … and the specification determines the value -/
theorem isPhiCut_unique (n k : Nat) (h : Spec.Render.isPhiCut n k = true) : k = phiCut n := by
  simp only [Spec.Render.isPhiCut, Bool.and_eq_true, Bool.not_eq_true'] at h
  obtain ⟨h1, h2⟩ := h
  rw [leDivPhiSq_iff] at h1
  rw [show ((k : Nat) : Int) + 1 = ((k + 1 : Nat) : Int) by push_cast; rfl, leDivPhiSq_iff] at h2
  have hle := phiCut_max n k h1
  by_contra hne
  have hlt : k + 1 ≤ phiCut n := by omega
  -- phiOK is downward closed below 2n/3
  have hok := phiCut_ok n
  simp only [phiOK, Bool.and_eq_true, decide_eq_true_eq] at hok
  have : phiOK n (k + 1) = true := by
    simp only [phiOK, Bool.and_eq_true, decide_eq_true_eq]
    refine ⟨by omega, ?_⟩
    obtain ⟨a1, a2⟩ := hok
    -- f(x) = x² − 3nx + n² is decreasing for x ≤ 3n/2
    have : (3 * (n : Int) * (k + 1 : Nat)) ≤ ((k + 1 : Nat) : Int) * (k + 1 : Nat) + n * n := by
      have b1 : (3 * (n : Int) * (phiCut n : Nat)) ≤ (phiCut n : Int) * (phiCut n : Nat) + n * n := by
        exact_mod_cast a2
      have b2 : ((k + 1 : Nat) : Int) ≤ (phiCut n : Nat) := by exact_mod_cast hlt
      have b3 : (3 * (phiCut n : Int)) ≤ 2 * n := by exact_mod_cast a1
      have b4 : (0 : Int) ≤ ((k + 1 : Nat) : Int) := by positivity
      nlinarith
    exact_mod_cast this
  rw [this] at h2
  exact absurd h2 (by simp)

/-! ### rows -/

theorem rowsLoop_ok (size : Nat) (k i a : Nat) (h : i + k ≤ size) :
    rowsLoop size k i ⟨a, false⟩ = ⟨.ok, ⟨a + k, false⟩⟩ := by
  induction k generalizing i a with
  | zero => simp [rowsLoop]
  | succ k ih =>
    unfold rowsLoop
    rw [if_pos (by omega), app_row, ih (i + 1) (a + 1) (by omega)]
    simp; omega

theorem rowsLoop_panic (size : Nat) (k i : Nat) (acc : Out) (hk : 0 < k) (h : size < i + k) :
    (rowsLoop size k i acc).status = .panic := by
  induction k generalizing i acc with
  | zero => omega
  | succ k ih =>
    unfold rowsLoop
    by_cases hi : i < size
    · rw [if_pos hi]
      by_cases hk0 : k = 0
      · subst hk0; omega
      · exact ih (i + 1) _ (by omega) (by omega)
    · rw [if_neg hi]

/-! ### listing -/

/-- The repaired listing writes `min n L` complete rows, whatever the cursor and the height. -/
theorem linesPrint_eq (L c n : Nat) :
    linesPrint L c n = ⟨.ok, ⟨Spec.Render.linesRows L n, false⟩⟩ := by
  unfold linesPrint Spec.Render.linesRows
  simp only
  by_cases h : (c - phiCut n) + n > L
  · rw [if_pos h]
    simp only
    have := rowsLoop_ok L (L - (L - n)) (L - n) 0 (by omega)
    rw [Out.none, this]
    by_cases hn : n ≤ L
    · rw [if_pos hn]; simp; omega
    · rw [if_neg hn]; simp; omega
  · rw [if_neg h]
    simp only
    have := rowsLoop_ok L ((c - phiCut n) + n - (c - phiCut n)) (c - phiCut n) 0 (by omega)
    rw [Out.none, this, if_pos (by omega)]
    simp

/-- the window of the repaired listing contains the cursor row -/
theorem linesBegin_cursor (L c n : Nat) (hc : c < L) (hn : 1 ≤ n) :
    linesBegin L c n ≤ c ∧ c < linesBegin L c n + Spec.Render.linesRows L n := by
  have h1 := phiCut_lt n hn
  unfold linesBegin Spec.Render.linesRows
  simp only
  by_cases h : (c - phiCut n) + n > L
  · rw [if_pos h]
    by_cases hn : n ≤ L
    · rw [if_pos hn]; omega
    · rw [if_neg hn]; omega
  · rw [if_neg h, if_pos (by omega)]; omega

/-- F24: the pinned listing panics exactly when the window reaches behind the last line -/
theorem linesPrintPinned_panic_iff (L c n : Nat) (hc : c < L) :
    (linesPrintPinned L c n).status = .panic ↔ L < (c - phiCut n) + n := by
  unfold linesPrintPinned
  simp only
  constructor
  · intro h
    by_contra hle
    have := rowsLoop_ok L ((c - phiCut n) + n - (c - phiCut n)) (c - phiCut n) 0 (by omega)
    rw [Out.none, this] at h
    exact absurd h (by simp)
  · intro h
    apply rowsLoop_panic
    · omega
    · omega

/-! ### memory view -/

theorem memPrint_nocursor (c n : Nat) : memPrint 0 c n = ⟨.ok, ⟨5, false⟩⟩ := by
  simp [memPrint]

theorem memPrint_eq (R c n : Nat) (hR : R ≠ 0) (hc : c < R) :
    memPrint R c n = ⟨.ok, ⟨Spec.Render.memRows R (c - phiCut n) n, false⟩⟩ := by
  unfold memPrint Spec.Render.memRows
  rw [if_neg hR]
  simp only
  by_cases h : (c - phiCut n) + n > R
  · rw [if_pos h, if_neg (by omega)]
    have := rowsLoop_ok R (R - (c - phiCut n)) (c - phiCut n) 0 (by omega)
    rw [Out.none, this]; simp
  · rw [if_neg h, if_pos (by omega)]
    have := rowsLoop_ok R ((c - phiCut n) + n - (c - phiCut n)) (c - phiCut n) 0 (by omega)
    rw [Out.none, this]; simp

/-! ### register view -/

theorem regPrintLine_status (row : List Reg) :
    (regPrintLine row).status = .ok ∨ (regPrintLine row).status = .err := by
  unfold regPrintLine; simp only; split <;> simp

/-- rows of a table of `k` registers -/
def tableRows (k : Nat) : Nat := (k + 1) / 2

/-- what `regLoop` does, started with `a` complete rows written -/
def RegLoopSpec (l : List Reg) (a : Nat) : Prop :=
  ((regLoop l ⟨a, false⟩).status = .ok ∧ (regLoop l ⟨a, false⟩).out = ⟨a + tableRows l.length, false⟩) ∨
  ((regLoop l ⟨a, false⟩).status = .err ∧ (regLoop l ⟨a, false⟩).out.op = false ∧
    (regLoop l ⟨a, false⟩).out.nl < a + tableRows l.length)

theorem regLoop_spec_aux (k : Nat) : ∀ (l : List Reg), l.length ≤ k → ∀ a, RegLoopSpec l a := by
  induction k using Nat.strong_induction_on with
  | _ k ihk =>
  intro l hl a
  match l, hl with
  | [], _ => left; simp [regLoop, tableRows]
  | [x], _ =>
    rcases regPrintLine_status [x] with h | h
    · left; simp [regLoop, h, tableRows]
    · right; simp [regLoop, h, tableRows]
  | x :: y :: rest, hl =>
    have ih := fun a => ihk rest.length (by simp at hl; omega) rest (Nat.le_refl _) a
    unfold RegLoopSpec
    rcases regPrintLine_status [x, y] with h | h
    · have e : regLoop (x :: y :: rest) ⟨a, false⟩ = regLoop rest ⟨a + 1, false⟩ := by
        simp [regLoop, h]
      rw [e]
      have t : tableRows (x :: y :: rest).length = tableRows rest.length + 1 := by
        simp [tableRows]; omega
      rw [t]
      rcases ih (a + 1) with ⟨h1, h2⟩ | ⟨h1, h2, h3⟩
      · left; refine ⟨h1, ?_⟩; rw [h2]; simp; omega
      · right; refine ⟨h1, h2, ?_⟩; omega
    · right
      have e : regLoop (x :: y :: rest) ⟨a, false⟩ = ⟨.err, ⟨a, false⟩⟩ := by
        simp [regLoop, h]
      rw [e]; simp [tableRows]

theorem regLoop_spec (l : List Reg) (a : Nat) : RegLoopSpec l a :=
  regLoop_spec_aux l.length l (Nat.le_refl _) a

abbrev isIP : Reg → Bool := fun r => r.key == ipKey

/-- in a register file (distinct keys) at most one register is the instruction pointer -/
def OneIP (regs : List Reg) : Prop := (regs.filter isIP).length ≤ 1

theorem length_filter_not (regs : List Reg) :
    (regs.filter (fun r => !(r.key == ipKey))).length + (regs.filter isIP).length = regs.length := by
  induction regs with
  | nil => simp
  | cons r rs ih =>
    by_cases h : (r.key == ipKey) = true
    · simp [h]; omega
    · simp [h]; omega

theorem any_isIP (regs : List Reg) : regs.any (·.key == ipKey) = decide (0 < (regs.filter isIP).length) := by
  induction regs with
  | nil => simp
  | cons r rs ih =>
    by_cases h : (r.key == ipKey) = true
    · simp [h]
    · simp [h, ih]

/-- `lines()` is the number of table rows of the registers other than the instruction pointer -/
theorem regLines_eq (regs : List Reg) (h1 : OneIP regs) :
    regLines regs = tableRows (regs.filter (fun r => !(r.key == ipKey))).length := by
  have hl := length_filter_not regs
  unfold OneIP at h1
  unfold regLines tableRows
  simp only [any_isIP]
  by_cases h0 : 0 < (regs.filter isIP).length
  · simp only [h0, decide_true, if_true]
    split <;> omega
  · simp only [h0, decide_false]
    simp only [Bool.false_eq_true, if_false]
    split <;> omega

/-- The repaired register view: never panics; on success it writes exactly `lines()` rows, all complete;
if a row does not fit the 80 columns it stops with an error having written fewer rows. -/
theorem regPrint_spec (regs : List Reg) (h1 : OneIP regs) (n : Nat) :
    ((regPrint true regs n).status = .ok ∧ (regPrint true regs n).out = ⟨regLines regs, false⟩) ∨
    ((regPrint true regs n).status = .err ∧ (regPrint true regs n).out.op = false ∧
      (regPrint true regs n).out.nl < regLines regs) := by
  unfold regPrint
  simp only [if_true, Out.none]
  rw [regLines_eq regs h1]
  have := regLoop_spec (regs.filter (fun r => !(r.key == ipKey))) 0
  simpa [RegLoopSpec] using this

/-- F25: the pinned register view writes the rows of *all* registers … -/
theorem regPrintPinned_spec (regs : List Reg) (n : Nat) (hok : (regPrint false regs n).status = .ok) :
    (regPrint false regs n).out = ⟨tableRows regs.length, false⟩ := by
  unfold regPrint at hok ⊢
  simp only [Bool.false_eq_true, if_false, Out.none] at hok ⊢
  rcases (regLoop_spec regs 0 : RegLoopSpec regs 0) with ⟨_, h2⟩ | ⟨h1, _, _⟩
  · simpa using h2
  · rw [h1] at hok; exact absurd hok (by simp)

/-- … which is one more than `lines()` exactly when the instruction pointer is present and the number
of other registers is even. -/
theorem regPinned_rows (regs : List Reg) (h1 : OneIP regs) :
    tableRows regs.length = regLines regs +
      (if regs.any (·.key == ipKey) ∧ (regs.filter (fun r => !(r.key == ipKey))).length % 2 = 0 then 1 else 0) := by
  have hl := length_filter_not regs
  rw [regLines_eq regs h1, any_isIP]
  unfold OneIP at h1
  unfold tableRows
  by_cases h0 : 0 < (regs.filter isIP).length
  · simp only [h0, decide_true, true_and]
    split <;> omega
  · simp only [h0, decide_false, Bool.false_eq_true, false_and, if_false]
    have : (regs.filter isIP).length = 0 := by omega
    omega

end Mltwist.Lemmas.Render
