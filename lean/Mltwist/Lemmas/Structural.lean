import Mltwist.Model.Transform
import Mltwist.Spec.Subterms
/-
Helper lemmas for C28.  (Proofs to be supplied.)
-/
namespace Mltwist.Lemmas.Structural
open Mltwist

theorem equal_iff (a b : Expr) : equal a b = true ↔ a = b := by
  sorry

theorem findAll_spec (k : Kind) (e : Expr) :
    findAll k e = e.subterms.filter (fun s => decide (s.kind = k)) := by
  sorry

theorem replaceAll_spec (k : Kind) (f : Expr → Option Expr) (e : Expr) :
    replaceAll k f e = e.mapBottomUp (fun s => if s.kind = k then (f s).getD s else s) := by
  sorry

theorem replaceAll_nomatch (k : Kind) (f : Expr → Option Expr) (e : Expr)
    (h : ∀ s ∈ e.subterms, s.kind = k → f s = none) : replaceAll k f e = e := by
  sorry

end Mltwist.Lemmas.Structural
