import Mltwist.Model.Transform
import Mltwist.Spec.Subterms
/-
Helper lemmas for C28.
-/
namespace Mltwist.Lemmas.Structural
open Mltwist

theorem equal_iff (a b : Expr) : equal a b = true ↔ a = b := by
  induction a generalizing b with
  | const bs => cases b <;> simp [equal]
  | binary op a1 b1 w iha ihb =>
    cases b <;> simp [equal, iha, ihb]
    constructor <;> (intro h; simp [h])
  | less a1 b1 t1 f1 w iha ihb iht ihf =>
    cases b <;> simp [equal, iha, ihb, iht, ihf]
    constructor <;> (intro h; simp [h])
  | memLoad k a1 w iha =>
    cases b <;> simp [equal, iha]
    constructor <;> (intro h; simp [h])
  | regLoad k w =>
    cases b <;> simp [equal]
    constructor <;> (intro h; simp [h])

theorem findAll_spec (k : Kind) (e : Expr) :
    findAll k e = e.subterms.filter (fun s => decide (s.kind = k)) := by
  induction e with
  | const bs => simp [findAll, Expr.subterms, List.filter_cons]
  | binary op a b w iha ihb =>
    simp [findAll, Expr.subterms, List.filter_cons, List.filter_append, iha, ihb]
    split <;> simp
  | less a b t f w iha ihb iht ihf =>
    simp [findAll, Expr.subterms, List.filter_cons, List.filter_append, iha, ihb, iht, ihf]
    split <;> simp
  | memLoad key a w iha =>
    simp [findAll, Expr.subterms, List.filter_cons, iha]
    split <;> simp
  | regLoad key w => simp [findAll, Expr.subterms, List.filter_cons]

theorem replaceAll_spec (k : Kind) (f : Expr → Option Expr) (e : Expr) :
    replaceAll k f e = e.mapBottomUp (fun s => if s.kind = k then (f s).getD s else s) := by
  induction e with
  | const bs => simp [replaceAll, Expr.mapBottomUp]
  | binary op a b w iha ihb =>
    rw [replaceAll, Expr.mapBottomUp, ← iha, ← ihb]
    by_cases hk : k = .binary
    · subst hk; simp [Expr.kind]
    · have hk' : ¬ Kind.binary = k := fun h => hk h.symm
      simp [Expr.kind, hk, hk']
  | less a b t f' w iha ihb iht ihf =>
    rw [replaceAll, Expr.mapBottomUp, ← iha, ← ihb, ← iht, ← ihf]
    by_cases hk : k = .less
    · subst hk; simp [Expr.kind]
    · have hk' : ¬ Kind.less = k := fun h => hk h.symm
      simp [Expr.kind, hk, hk']
  | memLoad key a w iha =>
    rw [replaceAll, Expr.mapBottomUp, ← iha]
    by_cases hk : k = .memLoad
    · subst hk; simp [Expr.kind]
    · have hk' : ¬ Kind.memLoad = k := fun h => hk h.symm
      simp [Expr.kind, hk, hk']
  | regLoad key w => simp [replaceAll, Expr.mapBottomUp]

theorem replaceAll_nomatch (k : Kind) (f : Expr → Option Expr) (e : Expr)
    (h : ∀ s ∈ e.subterms, s.kind = k → f s = none) : replaceAll k f e = e := by
  induction e with
  | const bs =>
    simp only [replaceAll]
    split
    · next hk => rw [h _ (by simp [Expr.subterms]) hk]; rfl
    · rfl
  | binary op a b w iha ihb =>
    have ha := iha (fun s hs => h s (by simp [Expr.subterms, hs]))
    have hb := ihb (fun s hs => h s (by simp [Expr.subterms, hs]))
    simp only [replaceAll, ha, hb]
    split
    · next hk => rw [h _ (by simp [Expr.subterms]) (by simp [Expr.kind, hk])]; rfl
    · rfl
  | less a b t f' w iha ihb iht ihf =>
    have ha := iha (fun s hs => h s (by simp [Expr.subterms, hs]))
    have hb := ihb (fun s hs => h s (by simp [Expr.subterms, hs]))
    have ht := iht (fun s hs => h s (by simp [Expr.subterms, hs]))
    have hf := ihf (fun s hs => h s (by simp [Expr.subterms, hs]))
    simp only [replaceAll, ha, hb, ht, hf]
    split
    · next hk => rw [h _ (by simp [Expr.subterms]) (by simp [Expr.kind, hk])]; rfl
    · rfl
  | memLoad key a w iha =>
    have ha := iha (fun s hs => h s (by simp [Expr.subterms, hs]))
    simp only [replaceAll, ha]
    split
    · next hk => rw [h _ (by simp [Expr.subterms]) (by simp [Expr.kind, hk])]; rfl
    · rfl
  | regLoad key w =>
    simp only [replaceAll]
    split
    · next hk => rw [h _ (by simp [Expr.subterms]) hk]; rfl
    · rfl

end Mltwist.Lemmas.Structural
