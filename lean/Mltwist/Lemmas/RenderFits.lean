import Mltwist.Lemmas.RenderTool
/-
Proofs for C24, part 5: the property in the form of the specification (`Spec.Render.Fits`) for the
views and screens of the tool; soundness of the executable oracle.
-/
namespace Mltwist.Lemmas.Render
open Mltwist.Render

/-- outcome class of a model status (`outOfFuel`, which never occurs, counts as a crash) -/
def toOutcome : Status → Spec.Render.Outcome
  | .ok => .ok
  | .err => .err
  | .panic => .panic
  | .outOfFuel => .panic

/-- **Property C24 for one view state and one height**: what `Print(n)` of the model writes satisfies
the specification with the bounds the view declares. -/
def FitsView (v : View) (n : Nat) : Prop :=
  Spec.Render.Fits v.minLines v.maxLines n (toOutcome (v.print n).status) (v.print n).out.nl (v.print n).out.op

theorem spec_used (o : Out) : Spec.Render.used o.nl o.op = o.used := rfl

theorem toOutcome_ne_panic (s : Status) (h1 : s ≠ .panic) (h2 : s ≠ .outOfFuel) : toOutcome s ≠ .panic := by
  cases s <;> simp_all [toOutcome]

theorem toOutcome_ok (s : Status) (h : toOutcome s = .ok) : s = .ok := by
  cases s <;> simp_all [toOutcome]

/-- a good view that is exact at its minimum whenever it declares a fixed height has the property -/
theorem fitsView_of_good (v : View) (hg : Good v)
    (hex : v.minLines = v.maxLines → (v.print v.minLines.toNat).status = .ok →
      ((v.print v.minLines.toNat).out.used : Int) = v.minLines) (n : Nat) : FitsView v n := by
  unfold FitsView Spec.Render.Fits
  rw [spec_used]
  refine ⟨fun hn => ?_, fun hfix hn hok => ?_⟩
  · obtain ⟨h1, h2, h3⟩ := hg.fits n hn
    exact ⟨toOutcome_ne_panic _ h1 h2, h3⟩
  · have hn' : v.minLines.toNat = n := by omega
    rw [← hn'] at hok ⊢
    rw [hex hfix (toOutcome_ok _ hok)]
    have := hg.min_nonneg; omega

/-! ### the views -/

theorem linesView_fixed (L c : Nat) (h : (linesView L c).minLines = (linesView L c).maxLines) : L = 5 := by
  have h : (5 : Int) = (L : Int) := h
  omega

theorem linesView_fits (L c n : Nat) : FitsView (linesView L c) n :=
  fitsView_of_good _ (linesView_good L c) (fun hfix _ => by
    have hL := linesView_fixed L c hfix
    subst hL
    obtain ⟨l1, _, l3⟩ := linesView_exact c
    rw [l1]; show (((linesView 5 c).print 5).out.used : Int) = 5
    rw [l3]; simp [Out.used]) n

theorem memView_fits (R c : Nat) (h : R = 0 ∨ c < R) (n : Nat) : FitsView (memView R c) n :=
  fitsView_of_good _ (memView_good R c h) (fun hfix _ => by
    have : (5 : Int) = -1 := hfix
    omega) n

theorem regView_fits (regs : List Reg) (h : OneIP regs) (n : Nat) : FitsView (regView regs) n :=
  fitsView_of_good _ (regView_good regs h) (fun _ hok => by
    rw [regView_exact regs h _ hok]
    show ((Out.used ⟨regLines regs, false⟩ : Nat) : Int) = (regLines regs : Int)
    simp [Out.used]) n

theorem promptView_fits (n : Nat) : FitsView promptView n :=
  fitsView_of_good _ promptView_good (fun _ _ => rfl) n

theorem emuViewDec_min (L c : Nat) (regs : List Reg) :
    (emuViewDec L c regs).minLines = 5 + regLines regs + 1 := by
  show compMinLines [linesView L c, regView regs] = _
  unfold compMinLines elementSpaces
  simp only [List.map_cons, List.map_nil, sumInts, List.length_cons, List.length_nil]
  have e1 : (linesView L c).minLines = 5 := rfl
  have e2 : (regView regs).minLines = (regLines regs : Int) := rfl
  omega

theorem emuViewDec_max (L c : Nat) (regs : List Reg) :
    (emuViewDec L c regs).maxLines = (L : Int) + regLines regs + 1 := by
  show compMaxLines [linesView L c, regView regs] = _
  unfold compMaxLines elementSpaces
  have e1 : (linesView L c).maxLines = (L : Int) := rfl
  have e2 : (regView regs).maxLines = (regLines regs : Int) := rfl
  simp only [compMaxLoop, List.length_cons, List.length_nil, e1, e2]
  rw [if_neg (by omega), if_neg (by omega)]; omega

theorem emuViewDec_fixed (L c : Nat) (regs : List Reg)
    (h : (emuViewDec L c regs).minLines = (emuViewDec L c regs).maxLines) : L = 5 := by
  rw [emuViewDec_min, emuViewDec_max] at h
  omega

theorem emuViewDec_fits (L c : Nat) (regs : List Reg) (h : OneIP regs) (n : Nat) : FitsView (emuViewDec L c regs) n :=
  fitsView_of_good _ (emuViewDec_good L c regs h) (fun hfix hok => by
    have := (emuViewDec_exact L c regs h (emuViewDec_fixed L c regs hfix)).2 hok
    rw [this]
    have := (emuViewDec_good L c regs h).min_nonneg
    simp [Out.used]; omega) n

theorem uiScreenDec_fixed (v : View) (h0 : 0 ≤ v.minLines) (h : (uiScreenDec v).minLines = (uiScreenDec v).maxLines) :
    v.minLines = v.maxLines := by
  rw [uiScreenDec_min, uiScreenDec_max] at h
  split at h <;> omega

/-- the screen of a good mode view has the property if the mode view writes exactly its height in
complete rows whenever that height is fixed -/
theorem uiScreenDec_fits (v : View) (hg : Good v)
    (hex : v.minLines = v.maxLines → (v.print v.minLines.toNat).status = .ok →
      (v.print v.minLines.toNat).out = ⟨v.minLines.toNat, false⟩) (n : Nat) : FitsView (uiScreenDec v) n :=
  fitsView_of_good _ (uiScreenDec_good v hg) (fun hfix hok =>
    uiScreenDec_exact v hg.min_nonneg (hex (uiScreenDec_fixed v hg.min_nonneg hfix)) hok) n

/-- the screen of the disassembly mode: listing above the prompt -/
theorem screen_disassemble_fits (L c n : Nat) : FitsView (uiScreenDec (linesView L c)) n :=
  uiScreenDec_fits _ (linesView_good L c) (fun hfix _ => by
    have hL := linesView_fixed L c hfix
    subst hL
    exact congrArg Res.out (linesView_exact c).2.2) n

/-- the screen of the emulation mode: listing, register table, prompt -/
theorem screen_emulate_fits (L c : Nat) (regs : List Reg) (h : OneIP regs) (n : Nat) :
    FitsView (uiScreenDec (emuViewDec L c regs)) n :=
  uiScreenDec_fits _ (emuViewDec_good L c regs h) (fun hfix hok =>
    (emuViewDec_exact L c regs h (emuViewDec_fixed L c regs hfix)).2 hok) n

/-- the screen of the memory mode: memory view above the prompt -/
theorem screen_memory_fits (R c : Nat) (h : R = 0 ∨ c < R) (n : Nat) : FitsView (uiScreenDec (memView R c)) n :=
  uiScreenDec_fits _ (memView_good R c h) (fun hfix _ => by
    have : (5 : Int) = -1 := hfix
    omega) n

/-! ### the code as it is (`distributeLines` without `remLines--`)

The composites of the tool have two elements the second of which has a fixed height; for these the
code as it is and the variant with `remLines--` are the same function (`composite_two_fixed`), so all
results above hold for the views the tool builds. -/

theorem emuView_eq (L c : Nat) (regs : List Reg) : emuView L c regs = emuViewDec L c regs :=
  composite_two_fixed _ _ rfl (by show (0 : Int) ≤ (regLines regs : Int); omega)

theorem uiScreen_eq (v : View) : uiScreen v = uiScreenDec v :=
  composite_two_fixed _ _ rfl (by show (0 : Int) ≤ 2; omega)

/-- the shape of the composites of the tool: two good elements, the second of fixed height -/
theorem composite_two_good (a b : View) (ha : Good a) (hb : Good b) (hfix : b.maxLines = b.minLines) :
    Good (composite [a, b]) := by
  rw [composite_two_fixed a b hfix hb.min_nonneg]
  exact comp_good _ (by simp) (fun e he => by
    rcases List.mem_cons.mp he with h1 | h1
    · subst h1; exact ha
    · simp at h1; subst h1; exact hb)

theorem emuView_good (L c : Nat) (regs : List Reg) (h : OneIP regs) : Good (emuView L c regs) := by
  rw [emuView_eq]; exact emuViewDec_good L c regs h

theorem uiScreen_good (v : View) (h : Good v) : Good (uiScreen v) := by
  rw [uiScreen_eq]; exact uiScreenDec_good v h

theorem emuView_fits (L c : Nat) (regs : List Reg) (h : OneIP regs) (n : Nat) : FitsView (emuView L c regs) n := by
  rw [emuView_eq]; exact emuViewDec_fits L c regs h n

theorem uiScreen_fits (v : View) (hg : Good v)
    (hex : v.minLines = v.maxLines → (v.print v.minLines.toNat).status = .ok →
      (v.print v.minLines.toNat).out = ⟨v.minLines.toNat, false⟩) (n : Nat) : FitsView (uiScreen v) n := by
  rw [uiScreen_eq]; exact uiScreenDec_fits v hg hex n

theorem screen_disassemble_fits' (L c n : Nat) : FitsView (uiScreen (linesView L c)) n := by
  rw [uiScreen_eq]; exact screen_disassemble_fits L c n

theorem screen_emulate_fits' (L c : Nat) (regs : List Reg) (h : OneIP regs) (n : Nat) :
    FitsView (uiScreen (emuView L c regs)) n := by
  rw [uiScreen_eq, emuView_eq]; exact screen_emulate_fits L c regs h n

theorem screen_memory_fits' (R c : Nat) (h : R = 0 ∨ c < R) (n : Nat) : FitsView (uiScreen (memView R c)) n := by
  rw [uiScreen_eq]; exact screen_memory_fits R c h n

/-- grants of the code as it is, for the shape of the tool: within the bounds, sum ≤ remLines above the
minimums -/
theorem grants_two_fixed (a b : View) (hb : b.maxLines = b.minLines) (hb0 : 0 ≤ b.minLines)
    (remLines : Int) (h : 0 ≤ remLines) :
    ∃ gs, distributeLines false [a, b] remLines = some gs ∧ gs.length = 2 ∧
      (∀ j, (mins [a, b]).getD j 0 ≤ gs.getD j 0 ∧
            gs.getD j 0 ≤ (mins [a, b]).getD j 0 + (diffLinesMax [a, b] (mins [a, b]) remLines).getD j 0) ∧
      sumInts gs ≤ sumInts (mins [a, b]) + remLines := by
  rw [distribute_two_fixed a b hb hb0 remLines h]
  obtain ⟨gs, h1, h2, h3, h4, _, _⟩ := distributeLines_spec true [a, b] remLines h
  exact ⟨gs, h1, by simpa using h2, h3, (h4 rfl).1⟩

/-! ### the executable oracle says what the specification says -/

theorem check_none_iff (min max n : Int) (o : Spec.Render.Outcome) (nl : Nat) (op : Bool) :
    Spec.Render.check min max n o nl op = none ↔ Spec.Render.Fits min max n o nl op := by
  unfold Spec.Render.check Spec.Render.Fits
  by_cases h1 : n < min
  · rw [if_pos h1]
    constructor
    · intro _; exact ⟨fun h => by omega, fun _ h => by omega⟩
    · intro _; rfl
  · rw [if_neg h1]
    by_cases h2 : o = .panic
    · rw [if_pos h2]
      constructor
      · intro h; exact absurd h (by simp)
      · intro h; exact absurd h2 (h.1 (by omega)).1
    · rw [if_neg h2]
      by_cases h3 : (Spec.Render.used nl op : Int) > n
      · rw [if_pos h3]
        constructor
        · intro h; exact absurd h (by simp)
        · intro h; have := (h.1 (by omega)).2; omega
      · rw [if_neg h3]
        by_cases h4 : min = max ∧ n = min ∧ o = .ok ∧ (Spec.Render.used nl op : Int) ≠ n
        · rw [if_pos h4]
          constructor
          · intro h; exact absurd h (by simp)
          · intro h; exact absurd (h.2 h4.1 h4.2.1 h4.2.2.1) h4.2.2.2
        · rw [if_neg h4]
          constructor
          · intro _
            refine ⟨fun _ => ⟨h2, by omega⟩, fun a b c => ?_⟩
            by_contra hne
            exact h4 ⟨a, b, c, hne⟩
          · intro _; rfl

end Mltwist.Lemmas.Render
