import Mltwist.Spec.Parse
import Mltwist.Lemmas.ElfMemory
/-
C21, generic part: `parseIns`, the block walk (fuel suffices, no wrap-around, no panic), `Parse`.
-/
namespace Mltwist.Lemmas.Parse
open Mltwist Mltwist.Elf Mltwist.Parse Mltwist.Parse.Spec

variable {ε δ : Type}

/-! ### `Validate`, `newInstruction` -/

theorem validate_iff (r : RawIns δ) : validate r = true ↔ Valid r := by
  unfold validate Valid typeMax
  simp only [Bool.and_eq_true, decide_eq_true_eq, List.all_eq_true]
  constructor
  · rintro ⟨⟨⟨h1, h2⟩, h3⟩, h4⟩
    refine ⟨h1, h2, ?_, ?_⟩
    · intro e he hn
      have := h3 e he
      rw [hn] at this; cases this
    · intro hn; rw [hn] at h4; cases h4
  · rintro ⟨h1, h2, h3, h4⟩
    refine ⟨⟨⟨h1, h2⟩, ?_⟩, ?_⟩
    · intro e he
      cases e with
      | none => exact absurd rfl (h3 none he)
      | some _ => rfl
    · cases hd : r.details with
      | none => exact absurd hd h4
      | some _ => rfl

theorem newInstruction_isIns (r : RawIns δ) (d : δ) (a : Nat) (bytes : List UInt8) (hd : r.details = some d) :
    IsIns r a bytes (newInstruction r d a bytes) :=
  ⟨rfl, rfl, rfl, rfl, hd⟩

theorem isIns_unique {r : RawIns δ} {a : Nat} {bytes : List UInt8} {i j : Ins δ}
    (hi : IsIns r a bytes i) (hj : IsIns r a bytes j) : i = j := by
  obtain ⟨a1, a2, a3, a4, a5⟩ := hi
  obtain ⟨b1, b2, b3, b4, b5⟩ := hj
  cases i; cases j
  simp only at a1 a2 a3 a4 a5 b1 b2 b3 b4 b5
  rw [a5] at b5
  cases b5
  subst a1 a2 a3 a4 b1 b2 b3 b4
  rfl

/-! ### one instruction -/

/-- what `parseIns` does at offset `off` of a block that fits below `2^64` -/
theorem parseIns_spec (dec : Decoder ε δ) (hh : Honest dec) (b : Block) (hf : b.1 + b.2.length < 2 ^ 64)
    (off : Nat) (ho : off < b.2.length) :
    match dec (b.1 + off) (b.2.drop off) with
    | .error e => parseIns dec b (b.1 + off) = .error (.parse (b.1 + off) e)
    | .ok r =>
      (¬ Valid r ∧ parseIns dec b (b.1 + off) = .error (.invalid (b.1 + off))) ∨
      (Valid r ∧ ∃ ins, parseIns dec b (b.1 + off) = .ok ins ∧ IsIns r (b.1 + off) (b.2.drop off) ins ∧
        ins.bytes.length = r.byteLen) := by
  have hc : Spec.Covers b (b.1 + off) := ⟨Nat.le_add_right _ _, by omega⟩
  have hba : blockAddress b (b.1 + off) = .ok (some (b.2.drop off)) := by
    rw [Lemmas.Elf.blockAddress_of_fits b hf, if_pos hc]
    simp
  unfold parseIns
  rw [hba]
  simp only [Option.getD_some]
  cases hd : dec (b.1 + off) (b.2.drop off) with
  | error e => simp
  | ok r =>
    simp only
    by_cases hv : validate r = true
    · have hV := (validate_iff r).1 hv
      right
      refine ⟨hV, ?_⟩
      rw [hv]
      simp only [Bool.not_true, Bool.false_eq_true, if_false]
      cases hdet : r.details with
      | none => exact absurd hdet hV.2.2.2
      | some d =>
        simp only
        have hle := hh _ _ _ hd
        rw [if_neg (by omega)]
        refine ⟨_, rfl, newInstruction_isIns r d _ _ hdet, ?_⟩
        simp only [newInstruction, List.length_take]
        omega
    · left
      have hv' : validate r = false := by simpa using hv
      refine ⟨fun hV => hv ((validate_iff r).2 hV), ?_⟩
      rw [hv']
      simp

/-! ### the walk over one block -/

/-- outcome of the walk: a tiling, or an error reported for the first bad position -/
theorem parseLoop_spec (dec : Decoder ε δ) (hh : Honest dec) (b : Block) (hf : b.1 + b.2.length < 2 ^ 64) :
    ∀ (fuel off : Nat), off ≤ b.2.length → b.2.length - off ≤ fuel →
      (∃ is, parseLoop dec b fuel (b.1 + off) = .ok is ∧ Tiling dec (b.1 + off) (b.2.drop off) is) ∨
      (∃ pos, Stuck dec (b.1 + off) (b.2.drop off) pos ∧
        ((∃ e, parseLoop dec b fuel (b.1 + off) = .error (.parse pos e)) ∨
          parseLoop dec b fuel (b.1 + off) = .error (.invalid pos))) := by
  have hbend : bend b = b.1 + b.2.length := Lemmas.Elf.bend_of_fits hf
  intro fuel
  induction fuel with
  | zero =>
    intro off ho hfu
    have : off = b.2.length := by omega
    subst this
    left
    refine ⟨[], ?_, ?_⟩
    · unfold parseLoop; rw [hbend, if_neg (Nat.lt_irrefl _)]
    · rw [List.drop_length]; exact Tiling.done _
  | succ fuel ih =>
    intro off ho hfu
    by_cases hend : off = b.2.length
    · subst hend
      left
      refine ⟨[], ?_, ?_⟩
      · unfold parseLoop; rw [hbend, if_neg (Nat.lt_irrefl _)]
      · rw [List.drop_length]; exact Tiling.done _
    · have hlt : off < b.2.length := by omega
      have hne : b.2.drop off ≠ [] := by
        intro h
        have := congrArg List.length h
        simp at this; omega
      have hspec := parseIns_spec dec hh b hf off hlt
      unfold parseLoop
      rw [hbend, if_pos (by omega)]
      cases hd : dec (b.1 + off) (b.2.drop off) with
      | error e =>
        rw [hd] at hspec
        simp only at hspec
        rw [hspec]
        right
        exact ⟨b.1 + off, Stuck.here _ _ hne (by unfold Bad; rw [hd]; trivial), Or.inl ⟨e, rfl⟩⟩
      | ok r =>
        rw [hd] at hspec
        simp only at hspec
        rcases hspec with ⟨hnv, he⟩ | ⟨hv, ins, hok, hins, hlen⟩
        · rw [he]
          right
          exact ⟨b.1 + off, Stuck.here _ _ hne (by unfold Bad; rw [hd]; exact hnv), Or.inr rfl⟩
        · rw [hok]
          simp only
          have hle := hh _ _ _ hd
          simp only [List.length_drop] at hle
          have h1 : 1 ≤ r.byteLen := Nat.one_le_iff_ne_zero.2 hv.2.1
          have hnext : (b.1 + off + ins.bytes.length) % M = b.1 + (off + r.byteLen) := by
            rw [hlen]; unfold M
            rw [Nat.mod_eq_of_lt (by omega)]; omega
          rw [hnext]
          have hdrop : (b.2.drop off).drop r.byteLen = b.2.drop (off + r.byteLen) := by
            rw [List.drop_drop]
          rcases ih (off + r.byteLen) (by omega) (by omega) with ⟨is, hok', ht⟩ | ⟨pos, hs, he⟩
          · left
            rw [hok']
            refine ⟨ins :: is, rfl, ?_⟩
            refine Tiling.step _ _ r ins is hne hd hv (by simp only [List.length_drop]; omega) hins ?_
            rw [hdrop, Nat.add_assoc]
            exact ht
          · right
            refine ⟨pos, ?_, ?_⟩
            · refine Stuck.later _ _ r pos hne hd hv (by simp only [List.length_drop]; omega) ?_
              rw [hdrop, Nat.add_assoc]
              exact hs
            · rcases he with ⟨e, he⟩ | he
              · left; exact ⟨e, by rw [he]⟩
              · right; rw [he]

/-! ### determinism of the specification -/

theorem tiling_unique (dec : Decoder ε δ) {a : Nat} {bytes : List UInt8} {is js : List (Ins δ)}
    (h1 : Tiling dec a bytes is) (h2 : Tiling dec a bytes js) : is = js := by
  induction h1 generalizing js with
  | done a => cases h2 with
    | done => rfl
    | step _ _ _ _ _ hne => exact absurd rfl hne
  | step a bytes r ins rest hne hd hv hle hins _ ih =>
    cases h2 with
    | done => exact absurd rfl hne
    | step _ _ r' ins' rest' _ hd' _ _ hins' ht' =>
      rw [hd] at hd'
      cases hd'
      rw [isIns_unique hins hins', ih ht']

theorem tiling_not_stuck (dec : Decoder ε δ) {a : Nat} {bytes : List UInt8} {is : List (Ins δ)} {pos : Nat}
    (h1 : Tiling dec a bytes is) (h2 : Stuck dec a bytes pos) : False := by
  induction h1 generalizing pos with
  | done a => cases h2 with
    | here _ _ hne => exact hne rfl
    | later _ _ _ _ hne => exact hne rfl
  | step a bytes r ins rest hne hd hv hle hins _ ih =>
    cases h2 with
    | here _ _ _ hb =>
      unfold Bad at hb
      rw [hd] at hb
      exact hb hv
    | later _ _ r' _ _ hd' _ _ hs =>
      rw [hd] at hd'
      cases hd'
      exact ih hs

/-! ### `Parse` -/

theorem parse_spec (dec : Decoder ε δ) (hh : Honest dec) :
    ∀ bs : List Block, Elf.Spec.Fits bs →
      (∃ is, parse dec bs = .ok is ∧ TilingAll dec bs is) ∨
      (∃ b ∈ bs, ∃ pos, Stuck dec b.1 b.2 pos ∧
        ((∃ e, parse dec bs = .error (.parse pos e)) ∨ parse dec bs = .error (.invalid pos)))
  | [], _ => Or.inl ⟨[], rfl, TilingAll.nil⟩
  | b :: bs, hf => by
    have hfb : b.1 + b.2.length < 2 ^ 64 := hf b (by simp)
    have hfr : Elf.Spec.Fits bs := fun x hx => hf x (List.mem_cons_of_mem _ hx)
    have hb := parseLoop_spec dec hh b hfb b.2.length 0 (Nat.zero_le _) (by omega)
    simp only [Nat.add_zero, List.drop_zero] at hb
    unfold parse
    rcases hb with ⟨is, hok, ht⟩ | ⟨pos, hs, he⟩
    · rw [hok]
      simp only
      rcases parse_spec dec hh bs hfr with ⟨rest, hok', ht'⟩ | ⟨x, hx, pos, hs, he⟩
      · rw [hok']
        exact Or.inl ⟨is ++ rest, rfl, TilingAll.cons b bs is rest ht ht'⟩
      · right
        refine ⟨x, List.mem_cons_of_mem _ hx, pos, hs, ?_⟩
        rcases he with ⟨e, he⟩ | he
        · left; exact ⟨e, by rw [he]⟩
        · right; rw [he]
    · right
      refine ⟨b, by simp, pos, hs, ?_⟩
      rcases he with ⟨e, he⟩ | he
      · left; exact ⟨e, by rw [he]⟩
      · right; rw [he]

theorem tilingAll_unique (dec : Decoder ε δ) {bs : List Block} {is js : List (Ins δ)}
    (h1 : TilingAll dec bs is) (h2 : TilingAll dec bs js) : is = js := by
  induction h1 generalizing js with
  | nil => cases h2; rfl
  | cons b bs is rest ht _ ih =>
    cases h2 with
    | cons _ _ is' rest' ht' hr' =>
      rw [tiling_unique dec ht ht', ih hr']

theorem tilingAll_not_stuck (dec : Decoder ε δ) {bs : List Block} {is : List (Ins δ)}
    (h1 : TilingAll dec bs is) {b : Block} (hb : b ∈ bs) {pos : Nat} (hs : Stuck dec b.1 b.2 pos) : False := by
  induction h1 with
  | nil => cases hb
  | cons c cs is rest ht _ ih =>
    rcases List.mem_cons.1 hb with rfl | hb
    · exact tiling_not_stuck dec ht hs
    · exact ih hb

end Mltwist.Lemmas.Parse
