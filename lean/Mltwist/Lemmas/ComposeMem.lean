import Mltwist.Props.C16
import Mltwist.Props.C32
import Mltwist.Props.C03
import Mltwist.Model.Compose
/-
COMPOSITION, part 6: the memory view (C32, `Model/MemView.lean`) over the LAYERED memories of the emulator state
(C14 sparse, C15 bytes, C16 overlay, `Model/Overlay.lean`).

C32 is stated over an abstraction `MemView.Mem` of `memory.Memory` (`Blocks()` and the constant `ConstFold(Load(a,
1))`), with instances for a sparse memory (`ofSparse`) and a byte memory (`ofBytes`) only.  The memories the memory
view is actually given are the values of `State.Mems`: `Overlay(Bytes(image), Sparse)` for `memory`, a `Sparse` for
every other key.  Here:

* `ofMem m`            the `MemView.Mem` of ANY stack of memories `m : Overlay.Mem` (bytes, sparse, overlays);
* `ofMem_coh`          THE COHERENCE THEOREM that was missing: if every layer satisfies its invariant (C14/C15),
                       stores constants only, and no present byte sits at the very top of the address space, then
                       `ofMem m` is coherent in the sense of C32 (`Coh`) with the layered byte map `m.abs` of C16
                       ("upper byte if present, else base byte"): `Blocks()` is a normal, bounded interval list
                       covering exactly the present addresses and every present address loads as a one-byte
                       constant, namely its byte in the layered map.
-/
namespace Mltwist.Lemmas.Compose
open Mltwist Mltwist.Overlay Mltwist.MemView Mltwist.Spec.Overlay Mltwist.Spec.Sparse
open Mltwist.Lemmas.MemView Mltwist.Lemmas.Emulator

-- `ofMem m` (what the memory view reads from a stack of memories): `Model/Compose.lean`

/-- the bytes of the layered byte map (constants: evaluated under any valuation) -/
def memBytes (m : Overlay.Mem) : Nat → Option UInt8 := fun a =>
  match m.abs a with
  | none => none
  | some v => some (UInt8.ofNat (v Lemmas.MemView.ρ0))

/-- no present byte at address `2^64 - 1` (every access of the emulator lies in the domain of C14, and the image
does not reach the top of the address space: C20 `Fits`) -/
def PresentBounded (A : AbsMem) : Prop := ∀ a, A a ≠ none → a + 1 < 2 ^ 64

/-- THE COHERENCE of byte memory, sparse memory and their overlays with the memory view (C14 + C15 + C16 ⇒ the
hypothesis of C32) -/
theorem ofMem_coh (m : Overlay.Mem) (hinv : m.Inv) (hc : AllConst m) (hb : PresentBounded m.abs) :
    ∃ bl, NormalR bl ∧ Bounded bl ∧ Coh (ofMem m) bl (memBytes m) ∧ ∀ a, MemR a bl ↔ m.abs a ≠ none := by
  have laws := Props.C16.mem_laws m hinv
  obtain ⟨l, hl, hn, hmem⟩ := laws.blocks
  have h0 : ∀ i ∈ l, 0 ≤ i.1 := by
    intro i hi
    exact ((hmem i.1).mp ⟨i, hi, Int.le_refl _, normal_pos l hn i hi⟩).1
  have hmemR : ∀ a, MemR a (l.map toRange) ↔ m.abs a ≠ none := by
    intro a
    rw [memR_map_toRange h0, hmem]
    simp
  refine ⟨l.map toRange, normalR_of_normal l hn h0, ?_, ⟨?_, ?_, ?_⟩, hmemR⟩
  · intro b hbm
    obtain ⟨i, hi, rfl⟩ := List.mem_map.mp hbm
    have hpos := normal_pos l hn i hi
    have hi0 := h0 i hi
    have hlast : Interval.Mem (i.2 - 1) l := ⟨i, hi, by omega, by omega⟩
    have := ((hmem (i.2 - 1)).mp hlast).2
    have hlt := hb _ this
    simp only [toRange]
    omega
  · show (ofMem m).blocks = _
    simp only [ofMem, Overlay.Mem.blocks, hl]
  · intro a ha
    have hpres := (hmemR a).mp ha
    have hd : InDom a 1 := ⟨Nat.le_refl _, by omega, hb a hpres⟩
    obtain ⟨r, hr, hiff, hval⟩ := laws.load a 1 hd
    have hsome : r ≠ none := hiff.mpr (by
      intro i hi
      have : i = 0 := by omega
      subst this; simpa using hpres)
    cases r with
    | none => exact absurd rfl hsome
    | some e =>
      obtain ⟨hw, hev⟩ := hval e rfl
      have hsh := mem_shape m hinv hc a 1 e hd hr
      obtain ⟨v, _, hv, hlen, hvev⟩ := foldConst_shape hsh
      rw [hw] at hlen
      match v, hlen with
      | [b], _ =>
        refine ⟨b, [], ?_, ?_⟩
        · show (ofMem m).load1 a = _
          simp only [ofMem, Overlay.Mem.load, hr, hv]
        · unfold memBytes
          cases hcA : m.abs a with
          | none => exact absurd hcA hpres
          | some c =>
            have := hvev Lemmas.MemView.ρ0
            rw [hev Lemmas.MemView.ρ0] at this
            simp only [leToNat, Nat.mul_zero, Nat.add_zero, Spec.Overlay.loadVal, sumBytes, hcA, byteOf,
              Nat.pow_zero, Nat.mul_one, Nat.zero_add] at this
            simp only [← this, UInt8.ofNat_toNat]
  · intro a ha
    unfold memBytes
    cases hcA : m.abs a with
    | none => rfl
    | some c => exact absurd ((hmemR a).mpr (by rw [hcA]; simp)) ha

/-- … in the form C22 asks for (`Lemmas.UI.MemOK`) -/
theorem ofMem_ok (m : Overlay.Mem) (hinv : m.Inv) (hc : AllConst m) (hb : PresentBounded m.abs) :
    ∃ bl σ, NormalR bl ∧ Coh (ofMem m) bl σ := by
  obtain ⟨bl, h1, _, h3, _⟩ := ofMem_coh m hinv hc hb
  exact ⟨bl, memBytes m, h1, h3⟩

/-- the layering the tool uses (C16 `sparse_over_bytes`): a sparse layer of constants over the byte image -/
theorem sparse_over_bytes_coh (bs : List BytesMem.Block) (t : Sparse.Tree) (hbs : BytesSpec.Inv bs)
    (ht : Sparse.Inv t) (hct : ∀ kv ∈ t, IsByteConst kv.val.ex)
    (hb : PresentBounded (Mem.overlay (.bytes bs) (.sparse t)).abs) :
    ∃ bl, NormalR bl ∧ Bounded bl ∧
      Coh (ofMem (.overlay (.bytes bs) (.sparse t))) bl (memBytes (.overlay (.bytes bs) (.sparse t))) ∧
      ∀ a, MemR a bl ↔
        layer (Spec.Overlay.ofSparse (Sparse.abs t)) (Spec.Overlay.ofBytes (BytesSpec.ofBlocks bs)) a ≠ none :=
  ofMem_coh _ ⟨hbs, ht⟩ ⟨trivial, hct⟩ hb

end Mltwist.Lemmas.Compose
