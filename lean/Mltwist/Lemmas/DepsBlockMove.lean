import Mltwist.Lemmas.DepsCodeInv
/-
`Code.Move` (block moves) on a code that satisfies the invariant: it only permutes `blocks` and
rewrites block indices; `blocksByAddr` (`store`) keeps every address, instruction and edge.
-/
namespace Mltwist.Lemmas.Deps
open Mltwist Mltwist.Deps Mltwist.Deps.Spec

/-! ### block indices `k, k+1, …` -/

/-- block indices are `k, k+1, …` -/
def BIdxFrom : Nat → List Block → Prop
  | _, [] => True
  | k, b :: rest => b.idx = k ∧ BIdxFrom (k + 1) rest

theorem bIdxFrom_append (k : Nat) (l1 l2 : List Block) :
    BIdxFrom k (l1 ++ l2) ↔ BIdxFrom k l1 ∧ BIdxFrom (k + l1.length) l2 := by
  induction l1 generalizing k with
  | nil => simp [BIdxFrom]
  | cons x xs ih =>
    simp only [List.cons_append, BIdxFrom, ih, List.length_cons]
    rw [show k + 1 + xs.length = k + (xs.length + 1) by omega]
    exact and_assoc.symm

theorem bIdxFrom_getElem (k : Nat) (l : List Block) (h : BIdxFrom k l) (j : Nat) (hj : j < l.length) :
    l[j].idx = k + j := by
  induction l generalizing k j with
  | nil => simp at hj
  | cons x xs ih =>
    cases j with
    | zero => simpa using h.1
    | succ j =>
      have := ih (k + 1) h.2 j (by simpa using hj)
      simp only [List.getElem_cons_succ, this]
      omega

theorem bIdxFrom_of_getElem (k : Nat) (l : List Block)
    (h : ∀ j (hj : j < l.length), l[j].idx = k + j) : BIdxFrom k l := by
  induction l generalizing k with
  | nil => trivial
  | cons x xs ih =>
    refine ⟨h 0 (by simp), ih (k + 1) ?_⟩
    intro j hj
    have := h (j + 1) (by simpa using hj)
    simp only [List.getElem_cons_succ] at this
    omega

theorem readdr_bidx (k a : Nat) (l : List Block) : BIdxFrom k (readdr blockMovable k a l) := by
  induction l generalizing k a with
  | nil => simp [readdr, BIdxFrom]
  | cons x xs ih =>
    simp only [readdr, BIdxFrom]
    exact ⟨rfl, ih _ _⟩

theorem readdr_frozen (k a : Nat) (l : List Block) :
    (readdr blockMovable k a l).map frozen = l.map frozen :=
  readdr_map blockMovable frozen (fun _ _ => rfl) (fun _ _ => rfl) k a l

/-! ### `Deps.move` on blocks -/

/-- the moved list of blocks: same `frozen` parts, rotated; indices are positions again -/
theorem move_blocks (arr : List Block) (f t : Nat) (hf : f < arr.length) (ht : t < arr.length)
    (hidx : BIdxFrom 0 arr) :
    ∃ arr', Deps.move blockMovable arr f t = some arr' ∧
      arr'.map frozen = rotate (arr.map frozen) f t ∧ BIdxFrom 0 arr' := by
  by_cases hne : f = t
  · subst hne
    exact ⟨arr, move_self _ _ _, (rotate_self _ _).symm, hidx⟩
  · refine ⟨_, move_eq blockMovable arr f t hf ht hne, ?_, ?_⟩
    · rw [rotate_eq (arr.map frozen) f t (by simpa using hf) (by simpa using ht) hne]
      simp only [List.map_append, readdr_frozen, rotSeg_map, List.map_take, List.map_drop,
        List.getElem_map]
    · have hsp := split3 arr (min f t) (max f t) (by omega)
      have hlo : (arr.take (min f t)).length = min f t := by
        rw [List.length_take]; omega
      have hseglen : ((arr.drop (min f t)).take (max f t - min f t + 1)).length =
          max f t - min f t + 1 := by
        rw [List.length_take, List.length_drop]; omega
      have hrl := rotSeg_length arr f t hf ht hne
      rw [hsp, bIdxFrom_append, bIdxFrom_append] at hidx
      rw [bIdxFrom_append, bIdxFrom_append]
      refine ⟨⟨hidx.1.1, ?_⟩, ?_⟩
      · rw [hlo, Nat.zero_add]; exact readdr_bidx _ _ _
      · have := hidx.2
        rw [List.length_append, hlo, hseglen] at this
        rw [List.length_append, hlo, readdr_length, hrl]
        exact this

/-! ### writing the moved blocks back -/

/-- the store after writing all blocks of `l` back -/
def putAll (l : List Block) (st : List Block) : List Block := l.foldl (fun st b => st.set b.ptr b) st

theorem putAll_length (l : List Block) (st : List Block) : (putAll l st).length = st.length := by
  induction l generalizing st with
  | nil => rfl
  | cons x xs ih => simp [putAll, List.foldl_cons] at ih ⊢; rw [ih]; simp

theorem putAll_not_mem (l : List Block) (st : List Block) (p : Nat) (hp : p ∉ l.map (·.ptr)) :
    (putAll l st)[p]? = st[p]? := by
  induction l generalizing st with
  | nil => rfl
  | cons x xs ih =>
    simp only [List.map_cons, List.mem_cons, not_or] at hp
    have := ih (st.set x.ptr x) hp.2
    simp only [putAll, List.foldl_cons] at this ⊢
    rw [this, List.getElem?_set_ne (fun h => hp.1 h.symm)]

theorem putAll_mem (l : List Block) (st : List Block) (hnd : (l.map (·.ptr)).Nodup) (b : Block)
    (hb : b ∈ l) (hlt : b.ptr < st.length) : (putAll l st)[b.ptr]? = some b := by
  induction l generalizing st with
  | nil => simp at hb
  | cons x xs ih =>
    simp only [List.map_cons, List.nodup_cons] at hnd
    rcases List.mem_cons.1 hb with rfl | hb
    · have := putAll_not_mem xs (st.set b.ptr b) b.ptr hnd.1
      simp only [putAll, List.foldl_cons] at this ⊢
      rw [this, List.getElem?_set_self hlt]
    · have := ih (st.set x.ptr x) hnd.2 hb (by simpa using hlt)
      simpa only [putAll, List.foldl_cons] using this

/-! ### the blocks behind the pointers -/

theorem filterMap_store (st : List Block) (l : List Nat) (hl : ∀ p ∈ l, p < st.length) :
    l.filterMap (fun p => st[p]?) = l.map (fun p => st[p]?.getD default) := by
  induction l with
  | nil => rfl
  | cons p ps ih =>
    have hp : p < st.length := hl p (by simp)
    rw [List.filterMap_cons, List.map_cons, ih (fun q hq => hl q (by simp [hq]))]
    simp [hp]

theorem BInv.of_frozen {b b' : Block} (hb : BInv b) (h : frozen b' = frozen b) : BInv b' := by
  simp only [frozen, Prod.mk.injEq] at h
  obtain ⟨_, h2, h3, h4, h5⟩ := h
  refine ⟨?_, ?_, ?_, ?_, ?_, ?_, ?_⟩
  · rw [h4]; exact hb.ne
  · rw [h4]; exact hb.idx
  · rw [h4]; exact hb.ids
  · rw [h4, h2]; exact hb.tiles
  · rw [h4, h2]; exact hb.top
  · rw [h4, h2, h3]; exact hb.end_
  · rw [h4, h5]; exact hb.fwd

theorem CInv.lt {c : Code} (hc : CInv c) : ∀ p ∈ c.blocks, p < c.store.length := by
  intro p hp
  have := hc.perm.mem_iff.1 hp
  simpa using this

theorem CInv.arr_eq {c : Code} (hc : CInv c) :
    c.blocks.filterMap (fun p => c.store[p]?) = c.blocks.map (fun p => c.store[p]?.getD default) :=
  filterMap_store c.store c.blocks hc.lt

theorem rotate_map' {α β : Type} (g : α → β) (l : List α) (f t : Nat) (hf : f < l.length)
    (ht : t < l.length) : (rotate l f t).map g = rotate (l.map g) f t := by
  by_cases hne : f = t
  · subst hne; rw [rotate_self, rotate_self]
  · rw [rotate_eq l f t hf ht hne,
      rotate_eq (l.map g) f t (by simpa using hf) (by simpa using ht) hne]
    simp only [List.map_append, rotSeg_map, List.map_take, List.map_drop, List.getElem_map]

theorem rotate_perm' {α : Type} (l : List α) (f t : Nat) (hf : f < l.length) (ht : t < l.length) :
    (rotate l f t).Perm l := by
  by_cases hne : f = t
  · subst hne; rw [rotate_self]
  · exact rotate_perm l f t hf ht hne

/-- the heart of `Code.move`: positions as natural numbers -/
theorem CInv.move_nat {c : Code} (hc : CInv c) (f t : Nat) (hf : f < c.blocks.length)
    (ht : t < c.blocks.length) :
    ∃ arr', Deps.move blockMovable (c.blocks.filterMap fun p => c.store[p]?) f t = some arr' ∧
      CInv { c with store := putAll arr' c.store, blocks := arr'.map (·.ptr) } ∧
      arr'.map (·.ptr) = rotate c.blocks f t ∧
      (putAll arr' c.store).map frozen = c.store.map frozen := by
  rw [hc.arr_eq]
  generalize harr : c.blocks.map (fun p => c.store[p]?.getD default) = arr
  have hlen : arr.length = c.blocks.length := by rw [← harr]; simp
  have hget : ∀ k (h : k < c.blocks.length),
      arr[k]'(by omega) = c.store[c.blocks[k]]'(hc.lt _ (List.getElem_mem h)) := by
    intro k h
    have hp : c.blocks[k] < c.store.length := hc.lt _ (List.getElem_mem h)
    subst harr
    simp [hp]
  have hidx0 : BIdxFrom 0 arr := by
    apply bIdxFrom_of_getElem
    intro j hj
    rw [hget j (by omega), hc.idx j (by omega)]
    omega
  have hptrs : arr.map (·.ptr) = c.blocks := by
    apply List.ext_getElem (by simpa using hlen)
    intro k h1 h2
    rw [List.getElem_map, hget k h2, hc.ptr]
  have hfro : ∀ a ∈ arr, ∃ p, ∃ hp : p < c.store.length, a = c.store[p] := by
    intro a ha
    obtain ⟨k, hk, rfl⟩ := List.getElem_of_mem ha
    exact ⟨_, _, hget k (by omega)⟩
  obtain ⟨arr', hmv, hfz, hidx'⟩ := move_blocks arr f t (by omega) (by omega) hidx0
  have hblocks' : arr'.map (·.ptr) = rotate c.blocks f t := by
    have h1 := congrArg (List.map (fun x : Nat × Nat × Nat × List Ins × Edges => x.1)) hfz
    rw [← rotate_map' _ _ f t (by simpa using (show f < arr.length by omega))
      (by simpa using (show t < arr.length by omega)), List.map_map, List.map_map] at h1
    have h2 : ((fun x : Nat × Nat × Nat × List Ins × Edges => x.1) ∘ frozen) = (·.ptr) := rfl
    rw [h2, rotate_map' _ _ f t (by omega) (by omega), hptrs] at h1
    exact h1
  have hperm' : (arr'.map (·.ptr)).Perm (List.range c.store.length) := by
    rw [hblocks']
    exact (rotate_perm' _ f t hf ht).trans hc.perm
  have hnd : (arr'.map (·.ptr)).Nodup := (hperm'.nodup_iff).2 List.nodup_range
  have hmem : ∀ b ∈ arr', ∃ hp : b.ptr < c.store.length, frozen b = frozen c.store[b.ptr] := by
    intro b hb
    have h1 : frozen b ∈ arr'.map frozen := List.mem_map_of_mem hb
    rw [hfz] at h1
    have h2 := (rotate_perm' (arr.map frozen) f t (by simpa using (show f < arr.length by omega))
      (by simpa using (show t < arr.length by omega))).mem_iff.1 h1
    obtain ⟨a, ha, hab⟩ := List.mem_map.1 h2
    obtain ⟨p, hp, rfl⟩ := hfro a ha
    have h3 : b.ptr = p := by
      have := congrArg (fun x : Nat × Nat × Nat × List Ins × Edges => x.1) hab
      simp only [frozen] at this
      rw [← this, hc.ptr]
    subst h3
    exact ⟨hp, hab.symm⟩
  have hst : ∀ p (hp : p < c.store.length) (hp' : p < (putAll arr' c.store).length),
      (putAll arr' c.store)[p] ∈ arr' ∧ (putAll arr' c.store)[p].ptr = p ∧
        frozen (putAll arr' c.store)[p] = frozen c.store[p] := by
    intro p hp hp'
    have h1 : p ∈ arr'.map (·.ptr) := hperm'.mem_iff.2 (List.mem_range.2 hp)
    obtain ⟨b, hb, rfl⟩ := List.mem_map.1 h1
    obtain ⟨h2, h3⟩ := List.getElem?_eq_some_iff.1 (putAll_mem arr' c.store hnd b hb hp)
    rw [h3]
    exact ⟨hb, rfl, (hmem b hb).2⟩
  have hmapfz : (putAll arr' c.store).map frozen = c.store.map frozen := by
    apply List.ext_getElem (by simp [putAll_length])
    intro p h1 h2
    rw [List.getElem_map, List.getElem_map]
    exact (hst p (by simpa using h2) (by simpa using h1)).2.2
  refine ⟨arr', hmv, ?_, hblocks', hmapfz⟩
  refine ⟨?_, ?_, ?_, ?_, ?_⟩
  · intro b hb
    obtain ⟨p, hp, rfl⟩ := List.getElem_of_mem hb
    have hp2 : p < c.store.length := by simpa [putAll_length] using hp
    exact (hc.blocks _ (List.getElem_mem hp2)).of_frozen (hst p hp2 hp).2.2
  · intro p hp
    have hp2 : p < c.store.length := by simpa [putAll_length] using hp
    exact (hst p hp2 hp).2.1
  · show (arr'.map (·.ptr)).Perm (List.range (putAll arr' c.store).length)
    rw [putAll_length]; exact hperm'
  · intro k hk hp
    have hk' : k < arr'.length := by simpa using hk
    have key : ∀ q (hq : q < (putAll arr' c.store).length), q = arr'[k].ptr →
        (putAll arr' c.store)[q].idx = k := by
      intro q hq hqe
      subst hqe
      obtain ⟨h2, h3⟩ := List.getElem?_eq_some_iff.1
        (putAll_mem arr' c.store hnd arr'[k] (List.getElem_mem hk') (by simpa [putAll_length] using hq))
      rw [h3, bIdxFrom_getElem 0 arr' hidx' k hk']
      omega
    exact key _ hp (by simp)
  · show (putAll arr' c.store).Pairwise (fun a b => a.begin + bytesI a.seq ≤ b.begin)
    have h1 : (c.store.map frozen).Pairwise
        (fun x y : Nat × Nat × Nat × List Ins × Edges => x.2.1 + bytesI x.2.2.2.1 ≤ y.2.1) :=
      List.pairwise_map.2 hc.sorted
    rw [← hmapfz] at h1
    exact List.pairwise_map.1 h1

theorem CInv.move_unfold {c : Code} (hc : CInv c) (f t : Int) (h0 : 0 ≤ f)
    (h1 : f < c.blocks.length) (h2 : 0 ≤ t) (h3 : t < c.blocks.length) :
    ∃ arr', c.move f t = .ok { c with store := putAll arr' c.store, blocks := arr'.map (·.ptr) } ∧
      CInv { c with store := putAll arr' c.store, blocks := arr'.map (·.ptr) } ∧
      arr'.map (·.ptr) = rotate c.blocks f.toNat t.toNat ∧
      (putAll arr' c.store).map frozen = c.store.map frozen := by
  obtain ⟨arr', hmv, hinv, hb, hs⟩ := hc.move_nat f.toNat t.toNat (by omega) (by omega)
  refine ⟨arr', ?_, hinv, hb, hs⟩
  have hok := (checkFromToIndex_ok f t c.blocks.length).2 ⟨h0, h1, h2, h3⟩
  simp only [Code.move, hok, hmv, bind, Except.bind]
  rfl

/-- a block move is accepted exactly when both positions are valid -/
theorem CInv.move_iff {c : Code} (hc : CInv c) (f t : Int) :
    (∃ c', c.move f t = .ok c') ↔ 0 ≤ f ∧ f < c.blocks.length ∧ 0 ≤ t ∧ t < c.blocks.length := by
  constructor
  · rintro ⟨c', h⟩
    rcases checkFromToIndex_cases f t c.blocks.length with hok | ⟨e, he, _⟩
    · exact (checkFromToIndex_ok f t c.blocks.length).1 hok
    · simp only [Code.move, he, bind, Except.bind] at h
      cases h
  · rintro ⟨h0, h1, h2, h3⟩
    obtain ⟨arr', h, _⟩ := hc.move_unfold f t h0 h1 h2 h3
    exact ⟨_, h⟩

/-- an accepted block move rotates `blocks`, changes nothing but block indices in `store`, and
keeps the invariant -/
theorem CInv.move_ok {c c' : Code} (hc : CInv c) (f t : Int) (h : c.move f t = .ok c') :
    CInv c' ∧ c'.blocks = rotate c.blocks f.toNat t.toNat ∧
      c'.store.map frozen = c.store.map frozen ∧ c'.entry = c.entry := by
  obtain ⟨h0, h1, h2, h3⟩ := (hc.move_iff f t).1 ⟨c', h⟩
  obtain ⟨arr', hm, hinv, hb, hs⟩ := hc.move_unfold f t h0 h1 h2 h3
  rw [hm] at h
  cases h
  exact ⟨hinv, hb, hs, rfl⟩

/-- a rejected block move is an index error, never a panic -/
theorem CInv.move_err {c : Code} (hc : CInv c) (f t : Int) (e : MoveErr) (h : c.move f t = .error e) :
    e ≠ .panic := by
  rcases checkFromToIndex_cases f t c.blocks.length with hok | ⟨e', he, hne⟩
  · obtain ⟨h0, h1, h2, h3⟩ := (checkFromToIndex_ok f t c.blocks.length).1 hok
    obtain ⟨arr', hm, _⟩ := hc.move_unfold f t h0 h1 h2 h3
    rw [hm] at h
    cases h
  · simp only [Code.move, he, bind, Except.bind] at h
    cases h
    exact hne

end Mltwist.Lemmas.Deps
