import Mltwist.Lemmas.DepsBlockMove
/-
Code level of C07: exact block lookup (`Code.Address`), the invariant is kept by every operation
of a history, and what a history cannot change (edges, the set of instructions of every block,
addresses of blocks).
-/
namespace Mltwist.Lemmas.Deps
open Mltwist Mltwist.Deps Mltwist.Deps.Spec

theorem BInv.bytes_pos {b : Block} (hb : BInv b) : 0 < bytesI b.seq := by
  cases h : b.seq with
  | nil => exact absurd h hb.ne
  | cons x xs =>
    have := hb.tiles
    rw [h] at this
    rw [bytesI_cons]
    have := this.2.1
    omega

/-- address of the last byte of a block, as `Code.Address` computes it -/
theorem BInv.last_byte {b : Block} (hb : BInv b) :
    (b.end_ + (M - 1)) % M = b.begin + bytesI b.seq - 1 := by
  have h1 := hb.bytes_pos
  have h2 := hb.top
  rw [hb.end_]
  have hM : M = 2 ^ 64 := rfl
  by_cases h : b.begin + bytesI b.seq = M
  · rw [h, Nat.mod_self, Nat.zero_add, Nat.mod_eq_of_lt (by omega)]
  · rw [Nat.mod_eq_of_lt (by omega : b.begin + bytesI b.seq < M)]
    have : b.begin + bytesI b.seq + (M - 1) = (b.begin + bytesI b.seq - 1) + M := by omega
    rw [this, Nat.add_mod_right, Nat.mod_eq_of_lt (by omega)]

/-- the predicate of the binary search of `Code.Address` -/
def caddrPred (c : Code) (a : Nat) : Nat → Except BasicBlock.Fail Bool := fun i =>
  match c.store[i]? with
  | none => .error .panic
  | some b => .ok (decide ((b.end_ + (M - 1)) % M ≥ a))

theorem caddress_unfold (c : Code) (a : Nat) :
    c.address a =
      match BasicBlock.search c.store.length (caddrPred c a) with
      | .error _ => none
      | .ok i =>
        if i = c.store.length then some none
        else
          match c.store[i]? with
          | none => none
          | some b => if b.begin > a then some none else some (some b) := rfl

/-- the block whose (original) address range contains `a` -/
def inBlock (a : Nat) (b : Block) : Bool := decide (b.begin ≤ a ∧ a < b.begin + bytesI b.seq)

/-- `Code.Address a` finds exactly the block whose range contains `a` -/
theorem CInv.address_exact {c : Code} (hc : CInv c) (a : Nat) :
    c.address a = some (c.store.find? (inBlock a)) := by
  let last : Nat → Nat := fun i => (c.store.getD i default).begin + bytesI (c.store.getD i default).seq - 1
  let p : Nat → Bool := fun i => decide (last i ≥ a)
  have hbi : ∀ i (hi : i < c.store.length), BInv c.store[i] := fun i hi => hc.blocks _ (List.getElem_mem hi)
  have hf : ∀ i, i < c.store.length → caddrPred c a i = .ok (p i) := by
    intro i hi
    simp only [caddrPred, List.getElem?_eq_getElem hi, p, last, List.getD_eq_getElem?_getD,
      Option.getD_some, (hbi i hi).last_byte]
  have hsorted : ∀ i j (hij : i < j) (hj : j < c.store.length),
      (c.store[i]'(by omega)).begin + bytesI (c.store[i]'(by omega)).seq ≤ c.store[j].begin := by
    intro i j hij hj
    exact (List.pairwise_iff_getElem.1 hc.sorted) i j (by omega) hj hij
  have hlast : ∀ i (hi : i < c.store.length), last i = c.store[i].begin + bytesI c.store[i].seq - 1 := by
    intro i hi
    simp [last, hi]
  have hmono : ∀ s t, s ≤ t → t < c.store.length → p s = true → p t = true := by
    intro s t hst ht hs
    have hs' : s < c.store.length := by omega
    simp only [p, decide_eq_true_eq, hlast s hs', hlast t ht] at hs ⊢
    rcases Nat.lt_or_eq_of_le hst with h | h
    · have := hsorted s t h ht
      have := (hbi t ht).bytes_pos
      omega
    · subst h; exact hs
  obtain ⟨k, hk, hkn, hlo, hhi⟩ := Lemmas.BasicBlock.search_spec _ p c.store.length hf hmono
  have hlt : ∀ t (ht : t < c.store.length), t < k → c.store[t].begin + bytesI c.store[t].seq - 1 < a := by
    intro t ht htk
    have := hlo t htk
    simpa [p, hlast t ht] using this
  rw [caddress_unfold, hk]
  by_cases hkn' : k = c.store.length
  · simp only [hkn', if_true]
    congr 1
    symm
    rw [List.find?_eq_none]
    intro x hx
    obtain ⟨j, hj, rfl⟩ := List.mem_iff_getElem.1 hx
    have := hlt j hj (by omega)
    have := (hbi j hj).bytes_pos
    simp [inBlock]; omega
  · have hk' : k < c.store.length := by omega
    have hge : c.store[k].begin + bytesI c.store[k].seq - 1 ≥ a := by
      have := hhi hk'
      simpa [p, hlast k hk'] using this
    have hpos := (hbi k hk').bytes_pos
    simp only [hkn', if_false, List.getElem?_eq_getElem hk']
    by_cases hgt : c.store[k].begin > a
    · simp only [hgt, if_true]
      congr 1
      symm
      rw [List.find?_eq_none]
      intro x hx
      obtain ⟨j, hj, rfl⟩ := List.mem_iff_getElem.1 hx
      have hposj := (hbi j hj).bytes_pos
      rcases Nat.lt_trichotomy j k with h | h | h
      · have := hlt j hj h; simp [inBlock]; omega
      · subst h; simp [inBlock]; omega
      · have := hsorted k j h hj
        simp [inBlock]; omega
    · simp only [hgt, if_false]
      congr 1
      symm
      rw [List.find?_eq_some_iff_append]
      refine ⟨by simp [inBlock]; omega, c.store.take k, c.store.drop (k + 1), by simp, ?_⟩
      intro x hx
      obtain ⟨j, hj, rfl⟩ := List.mem_iff_getElem.1 hx
      have hj' : j < k := by
        rw [List.length_take] at hj; omega
      rw [List.getElem_take]
      have := hlt j (by omega) hj'
      have hposj := (hbi j (by omega)).bytes_pos
      simp [inBlock]; omega

/-! ### pointers -/

theorem CInv.ptr_lt {c : Code} (hc : CInv c) (k : Nat) (hk : k < c.blocks.length) :
    c.blocks[k] < c.store.length := by
  have := (hc.perm.mem_iff (a := c.blocks[k])).1 (List.getElem_mem hk)
  simpa using this

theorem CInv.blocks_length {c : Code} (hc : CInv c) : c.blocks.length = c.store.length := by
  simpa using hc.perm.length_eq

theorem CInv.index_nat {c : Code} (hc : CInv c) (k : Nat) (hk : k < c.blocks.length) :
    c.index (k : Int) = some (c.store[c.blocks[k]]'(hc.ptr_lt k hk)) := by
  have := hc.ptr_lt k hk
  simp [Code.index, hk, this]

theorem index_some {c : Code} {bi : Int} {b : Block} (h : c.index bi = some b) :
    ∃ k : Nat, bi = k ∧ ∃ hk : k < c.blocks.length, c.store[c.blocks[k]]? = some b := by
  unfold Code.index at h
  by_cases h0 : bi < 0
  · simp [h0] at h
  · simp only [h0, if_false] at h
    obtain ⟨k, rfl⟩ := Int.eq_ofNat_of_zero_le (by omega : 0 ≤ bi)
    simp only [Int.toNat_natCast] at h
    cases hk : c.blocks[k]? with
    | none => rw [hk] at h; simp at h
    | some p =>
      rw [hk] at h
      obtain ⟨hk', hp⟩ := List.getElem?_eq_some_iff.1 hk
      refine ⟨k, rfl, hk', ?_⟩
      rw [hp]; simpa using h

/-- writing back a block object that keeps pointer, index, address range and invariant -/
theorem CInv.put {c : Code} (hc : CInv c) (p : Nat) (hp : p < c.store.length) (b' : Block)
    (hb' : BInv b') (h1 : b'.ptr = p) (h2 : b'.begin = c.store[p].begin)
    (h3 : bytesI b'.seq = bytesI c.store[p].seq) (h4 : b'.idx = c.store[p].idx) :
    CInv (c.put b') := by
  have hlen : (c.put b').store.length = c.store.length := by simp [Code.put]
  have hget : ∀ q (hq : q < c.store.length),
      ((c.put b').store[q]'(by rw [hlen]; exact hq)) = if p = q then b' else c.store[q] := by
    intro q hq
    simp [Code.put, h1, List.getElem_set]
  refine ⟨?_, ?_, ?_, ?_, ?_⟩
  · intro b hb
    obtain ⟨q, hq, rfl⟩ := List.mem_iff_getElem.1 hb
    rw [hlen] at hq
    rw [hget q hq]
    split
    · exact hb'
    · exact hc.blocks _ (List.getElem_mem hq)
  · intro q hq
    rw [hlen] at hq
    rw [hget q hq]
    split
    · rename_i h; rw [h1]; exact h
    · exact hc.ptr q hq
  · show c.blocks.Perm (List.range (c.put b').store.length)
    rw [hlen]; exact hc.perm
  · intro k hk hq
    have hk' : k < c.blocks.length := hk
    have hq' : c.blocks[k] < c.store.length := hc.ptr_lt k hk'
    show ((c.put b').store[c.blocks[k]]'(by rw [hlen]; exact hq')).idx = k
    rw [hget _ hq']
    split
    · rename_i h
      rw [h4]
      have := hc.idx k hk' hq'
      simp only [h] ; exact this
    · exact hc.idx k hk' hq'
  · rw [List.pairwise_iff_getElem]
    intro i j hi hj hij
    rw [hlen] at hi hj
    have := (List.pairwise_iff_getElem.1 hc.sorted) i j hi hj hij
    rw [hget i hi, hget j hj]
    split <;> split
    · omega
    · rename_i h _; subst h; rw [h2, h3]; exact this
    · rename_i _ h; subst h; rw [h2]; exact this
    · exact this

/-! ### what no operation changes -/

/-- the block object `b` is the block object `b0` after some history: same pointer, address range and
edges, and the same instructions up to order, current address and index -/
structure SameBlock (b0 b : Block) : Prop where
  ptr : b.ptr = b0.ptr
  begin : b.begin = b0.begin
  end_ : b.end_ = b0.end_
  edges : b.edges = b0.edges
  static : (b.seq.map Ins.static).Perm (b0.seq.map Ins.static)

structure SameCode (c0 c : Code) : Prop where
  entry : c.entry = c0.entry
  len : c.store.length = c0.store.length
  blocks : ∀ p (h0 : p < c0.store.length) (h : p < c.store.length), SameBlock c0.store[p] c.store[p]

theorem SameBlock.refl (b : Block) : SameBlock b b := ⟨rfl, rfl, rfl, rfl, List.Perm.refl _⟩

theorem SameBlock.trans {a b c : Block} (h1 : SameBlock a b) (h2 : SameBlock b c) : SameBlock a c :=
  ⟨h2.ptr.trans h1.ptr, h2.begin.trans h1.begin, h2.end_.trans h1.end_, h2.edges.trans h1.edges,
    h2.static.trans h1.static⟩

theorem SameCode.refl (c : Code) : SameCode c c := ⟨rfl, rfl, fun _ _ _ => SameBlock.refl _⟩

theorem SameCode.trans {a b c : Code} (h1 : SameCode a b) (h2 : SameCode b c) : SameCode a c :=
  ⟨h2.entry.trans h1.entry, h2.len.trans h1.len, fun p h0 h =>
    (h1.blocks p h0 (by rw [h1.len]; exact h0)).trans (h2.blocks p (by rw [h1.len]; exact h0) h)⟩

/-! ### one operation -/

/-- every operation keeps the invariant and the static content of the code -/
theorem CInv.step {c : Code} (hc : CInv c) (op : Op) :
    CInv (c.step op).1 ∧ SameCode c (c.step op).1 := by
  cases op with
  | mv bi f t =>
    simp only [Code.step]
    cases hi : c.index bi with
    | none => exact ⟨hc, SameCode.refl c⟩
    | some b =>
      simp only
      obtain ⟨k, rfl, hk, hb⟩ := index_some hi
      have hp := hc.ptr_lt k hk
      rw [List.getElem?_eq_getElem hp] at hb
      cases hb
      have hbi : BInv c.store[c.blocks[k]] := hc.blocks _ (List.getElem_mem hp)
      cases hm : (c.store[c.blocks[k]]).move f t with
      | error e =>
        cases e <;> exact ⟨hc, SameCode.refl c⟩
      | ok b' =>
        simp only
        obtain ⟨b'', hb'', hinv, h1, h2, h3, h4, h5, h6, h7, h8⟩ := hbi.move_ok f t (move_ok_check hm)
        rw [hm] at hb''
        cases hb''
        have hptr : b'.ptr = c.blocks[k] := by rw [h5]; exact hc.ptr _ hp
        refine ⟨hc.put c.blocks[k] hp b' hinv hptr h1 h7 h4, ?_⟩
        refine ⟨rfl, by simp [Code.put], ?_⟩
        intro p h0 h
        have : (c.put b').store[p] = if c.blocks[k] = p then b' else c.store[p] := by
          simp [Code.put, hptr, List.getElem_set]
        rw [this]
        split
        · rename_i heq
          subst heq
          exact ⟨h5, h1, h2, h3, h8⟩
        · exact SameBlock.refl _
  | bmv f t =>
    simp only [Code.step]
    cases hm : c.move f t with
    | error e => cases e <;> exact ⟨hc, SameCode.refl c⟩
    | ok c' =>
      simp only
      obtain ⟨hinv, _, hfro, hent⟩ := hc.move_ok f t hm
      refine ⟨hinv, hent, ?_, ?_⟩
      · have := congrArg List.length hfro
        simpa using this
      · intro p h0 h
        have h1 : (c'.store.map frozen)[p]'(by simpa using h) = (c.store.map frozen)[p]'(by simpa using h0) := by
          simp only [hfro]
        simp only [List.getElem_map, frozen, Prod.mk.injEq] at h1
        obtain ⟨e1, e2, e3, e4, e5⟩ := h1
        exact ⟨e1, e2, e3, e5, by rw [e4]⟩
  | lb bi i =>
    simp only [Code.step]
    cases (c.index bi).bind (·.lowerBound i) <;> exact ⟨hc, SameCode.refl c⟩
  | ub bi i =>
    simp only [Code.step]
    cases (c.index bi).bind (·.upperBound i) <;> exact ⟨hc, SameCode.refl c⟩
  | addr a =>
    simp only [Code.step]
    cases c.address a with
    | none => exact ⟨hc, SameCode.refl c⟩
    | some r =>
      cases r with
      | none => exact ⟨hc, SameCode.refl c⟩
      | some b =>
        simp only
        cases b.address a <;> exact ⟨hc, SameCode.refl c⟩
  | edges bi =>
    simp only [Code.step]
    cases c.index bi <;> exact ⟨hc, SameCode.refl c⟩

/-- the invariant after any history -/
theorem CInv.run {c : Code} (hc : CInv c) (ops : List Op) :
    CInv (c.run ops) ∧ SameCode c (c.run ops) := by
  induction ops generalizing c with
  | nil => exact ⟨hc, SameCode.refl c⟩
  | cons op ops ih =>
    obtain ⟨h1, h2⟩ := hc.step op
    obtain ⟨h3, h4⟩ := ih h1
    exact ⟨h3, h2.trans h4⟩

/-! ### the specification's invariant on the view of a code -/

theorem filterMap_getElem? {α : Type} [Inhabited α] (st : List α) (l : List Nat) (h : ∀ p ∈ l, p < st.length) :
    l.filterMap (fun p => st[p]?) = l.map (fun p => st.getD p default) := by
  induction l with
  | nil => rfl
  | cons p l ih =>
    have hp := h p (by simp)
    simp only [List.filterMap_cons, List.getElem?_eq_getElem hp, List.map_cons, List.getD_eq_getElem?_getD,
      Option.getD_some]
    rw [ih (fun q hq => h q (by simp [hq]))]
    simp [List.getD_eq_getElem?_getD]

theorem CInv.current_eq {c : Code} (hc : CInv c) :
    c.current = c.blocks.map (fun p => c.store.getD p default) := by
  unfold Code.current
  apply filterMap_getElem?
  intro p hp
  have := (hc.perm.mem_iff (a := p)).1 hp
  simpa using this

theorem map_getD_range {α : Type} [Inhabited α] (st : List α) :
    (List.range st.length).map (fun p => st.getD p default) = st := by
  apply List.ext_getElem
  · simp
  · intro i h1 h2
    simp at h1
    simp [h1]

theorem CInv.current_perm {c : Code} (hc : CInv c) : c.current.Perm c.store := by
  rw [hc.current_eq]
  have := hc.perm.map (fun p => c.store.getD p default)
  rwa [map_getD_range] at this

theorem CInv.current_getElem {c : Code} (hc : CInv c) (k : Nat) (hk : k < c.blocks.length) :
    c.current[k]? = some (c.store[c.blocks[k]]'(hc.ptr_lt k hk)) := by
  have hp := hc.ptr_lt k hk
  rw [hc.current_eq]
  simp [hk, hp]

theorem CInv.view_inv {c : Code} (hc : CInv c) : c.view.Inv := by
  refine ⟨?_, ?_, ?_⟩
  · intro vb hvb
    simp only [Code.view, List.mem_map] at hvb
    obtain ⟨b, hb, rfl⟩ := hvb
    exact (hc.blocks b ((hc.current_perm.mem_iff).1 hb)).view_inv
  · intro k hk
    have hlen : c.current.length = c.blocks.length := by rw [hc.current_eq]; simp
    have hk' : k < c.blocks.length := by simpa [Code.view, hlen] using hk
    have h1 := hc.current_getElem k hk'
    have hk2 : k < c.current.length := by omega
    rw [List.getElem?_eq_getElem hk2] at h1
    simp only [Code.view, List.getElem_map, Block.view]
    have h1 : c.current[k] = c.store[c.blocks[k]]'(hc.ptr_lt k hk') := Option.some.inj h1
    rw [h1]
    exact hc.idx k hk' (hc.ptr_lt k hk')
  · simp only [Code.view, List.pairwise_map]
    have hsym : ∀ {x y : Block}, (x.view.begin + x.view.bytes ≤ y.view.begin ∨ y.view.begin + y.view.bytes ≤ x.view.begin) →
        (y.view.begin + y.view.bytes ≤ x.view.begin ∨ x.view.begin + x.view.bytes ≤ y.view.begin) := by
      intro x y h; exact h.symm
    rw [hc.current_perm.pairwise_iff hsym]
    apply hc.sorted.imp
    intro a b h
    left
    rw [view_bytes]
    exact h

end Mltwist.Lemmas.Deps
